/-
  PrtpyProofs.BCProofs — bin completion (`Prtpy.BC`, packing/bin_completion.py):
  §1 refusal (C19); §2 the lower-bound fast path and its optimality; §3 "never worse than BFD", anytime behaviour;
  §4 bookkeeping of `lwi` / `combs` / `undPairs` / `completions`; §5 the branch invariant of the search and
  feasibility of the result (C03); §6 soundness of the dominance test; §7 bounds on the result;
  §8–§12 optimality (C04): semantic dominance and the exchange argument, completeness of `found`, of
  `check_for_dominance`, of `find_bin_completions`, of `runBranch` and of `search`, an explicit fuel bound,
  `bc_optimal`.
-/
import Prtpy
import PrtpyProofs.Fit
import PrtpyProofs.Checkers
import PrtpyProofs.Oracle
import PrtpyProofs.Part
import Batteries.Data.List.Perm

namespace Prtpy.BCProofs
open Prtpy

/-- decidable equality on results, for the non-vacuity examples (kept local to this file) -/
@[instance_reducible] def decEqResult : DecidableEq (Except Err (List (List Nat)))
  | .ok a, .ok b => if h : a = b then isTrue (by rw [h]) else isFalse (fun h' => h (Except.ok.inj h'))
  | .error a, .error b =>
    if h : a = b then isTrue (by rw [h]) else isFalse (fun h' => h (Except.error.inj h'))
  | .ok _, .error _ => isFalse (fun h => by cases h)
  | .error _, .ok _ => isFalse (fun h => by cases h)

attribute [local instance] decEqResult

/-! ### small helpers -/

theorem binSum_id (l : List Nat) : binSum id l = sumL l := by simp [binSum]

theorem sumL_perm {l l' : List Nat} (h : l.Perm l') : sumL l = sumL l' := Checkers.sumL_perm h

theorem sumL_flatten_le {B : Nat} : ∀ bins : List (List Nat), (∀ bin ∈ bins, sumL bin ≤ B) →
    sumL bins.flatten ≤ bins.length * B
  | [], _ => by simp [sumL]
  | b :: bs, h => by
    have h1 := h b List.mem_cons_self
    have ih := sumL_flatten_le bs (fun c hc => h c (List.mem_cons_of_mem _ hc))
    simp only [List.flatten_cons, Fit.sumL_append, List.length_cons, Nat.add_mul]
    omega

theorem sumL_filter_ne_zero : ∀ l : List Nat, sumL (l.filter (· != 0)) = sumL l
  | [] => rfl
  | x :: xs => by
    by_cases hx : x = 0
    · subst hx; simp [sumL, sumL_filter_ne_zero xs]
    · have : (x != 0) = true := by simpa using hx
      simp [this, sumL, sumL_filter_ne_zero xs]

theorem any_gt_iff {B : Nat} {items : List Nat} :
    items.any (fun x => decide (B < x)) = true ↔ ∃ x ∈ items, B < x := by
  simp

/-! ### 1. refusal (C19) -/

/-- `bin_completion` fails exactly when some item is larger than the bin size, and then with `ValueError` -/
theorem bc_error_iff {B : Nat} {items : List Nat} {fuel : Nat} {e : Err} :
    BC.binCompletion B items fuel = .error e ↔ (e = .valueError ∧ ∃ x ∈ items, B < x) := by
  unfold BC.binCompletion
  by_cases hany : items.any (fun x => decide (B < x)) = true
  · rw [if_pos hany]
    constructor
    · intro h; cases h; exact ⟨rfl, any_gt_iff.1 hany⟩
    · rintro ⟨rfl, _⟩; rfl
  · rw [if_neg hany]
    have hno : ¬ ∃ x ∈ items, B < x := fun h => hany (any_gt_iff.2 h)
    have hall : ∀ x ∈ items.filter (· != 0), id x ≤ B := by
      intro x hx
      exact Nat.le_of_not_lt fun hlt => hno ⟨x, (List.mem_filter.1 hx).1, hlt⟩
    obtain ⟨b, hb, _⟩ := Fit.bfDecreasing_isPacking (v := id) hall
    simp only [hb]
    constructor
    · intro h; split at h <;> cases h
    · rintro ⟨_, h⟩; exact absurd h hno

example : BC.binCompletion 20 [5, 10, 21, 4] 100 = .error .valueError :=
  bc_error_iff.2 ⟨rfl, 21, by decide, by decide⟩
example : ∃ x ∈ [5, 10, 21, 4, 21], 20 < x :=
  (bc_error_iff (fuel := 7) (e := .valueError)).1 (by decide +kernel) |>.2

/-- a successful run: no item exceeds the bin size -/
theorem bc_ok_all_le {B : Nat} {items : List Nat} {fuel : Nat} {bins : List (List Nat)}
    (h : BC.binCompletion B items fuel = .ok bins) : ∀ x ∈ items, x ≤ B := by
  intro x hx
  apply Nat.le_of_not_lt
  intro hlt
  have := (bc_error_iff (B := B) (items := items) (fuel := fuel) (e := .valueError)).2 ⟨rfl, x, hx, hlt⟩
  rw [h] at this; cases this

/-- the run succeeds whenever no item exceeds the bin size -/
theorem bc_ok_of_all_le {B : Nat} {items : List Nat} (fuel : Nat) (h : ∀ x ∈ items, x ≤ B) :
    ∃ bins, BC.binCompletion B items fuel = .ok bins := by
  cases hr : BC.binCompletion B items fuel with
  | ok bins => exact ⟨bins, rfl⟩
  | error e =>
    obtain ⟨_, x, hx, hlt⟩ := bc_error_iff.1 hr
    exact absurd (h x hx) (by omega)

/-- unfolding of a successful run -/
theorem bc_ok_cases {B : Nat} {items : List Nat} {fuel : Nat} {bins : List (List Nat)}
    (h : BC.binCompletion B items fuel = .ok bins) :
    ∃ bfd, bfDecreasing id B (items.filter (· != 0)) = .ok bfd ∧
      ((bfd.lists.length = BC.lowerBound B (items.filter (· != 0)) ∧ bins = bfd.lists) ∨
       (bfd.lists.length ≠ BC.lowerBound B (items.filter (· != 0)) ∧
        bins = BC.search B (BC.lowerBound B (items.filter (· != 0))) fuel
          [⟨sortDesc id (items.filter (· != 0)), [], 0⟩] bfd.lists)) := by
  unfold BC.binCompletion at h
  split at h
  · cases h
  · cases hb : bfDecreasing id B (items.filter (· != 0)) with
    | error e => simp only [hb] at h; cases h
    | ok bfd =>
      simp only [hb] at h
      refine ⟨bfd, rfl, ?_⟩
      split at h
      · rename_i hl
        cases h; exact Or.inl ⟨hl, rfl⟩
      · rename_i hl
        cases h; exact Or.inr ⟨hl, rfl⟩

/-! ### 2. the fast path -/

/-- if best-fit-decreasing already meets the lower bound, its bins are returned unchanged -/
theorem bc_fastpath {B : Nat} {items : List Nat} {fuel : Nat} {bfd : Bins Nat}
    (hall : ∀ x ∈ items, x ≤ B)
    (hb : bfDecreasing id B (items.filter (· != 0)) = .ok bfd)
    (hlen : bfd.lists.length = BC.lowerBound B (items.filter (· != 0))) :
    BC.binCompletion B items fuel = .ok bfd.lists := by
  unfold BC.binCompletion
  have hany : ¬ items.any (fun x => decide (B < x)) = true := by
    intro h
    obtain ⟨x, hx, hlt⟩ := any_gt_iff.1 h
    exact absurd (hall x hx) (by omega)
  rw [if_neg hany]
  simp only [hb, hlen, if_true]

example : BC.binCompletion 10 [5, 0, 5, 4, 6] 3 = .ok [[6, 4], [5, 5]] :=
  bc_fastpath (bfd := ⟨[10, 10], [[6, 4], [5, 5]]⟩) (by decide) rfl (by decide)

/-- any arrangement of `items` into bins of capacity `B > 0` has at least `⌈total / B⌉` bins -/
theorem lowerBound_le_packing {B : Nat} {items : List Nat} {bins : List (List Nat)} (hB : 0 < B)
    (hperm : bins.flatten.Perm items) (hle : ∀ bin ∈ bins, sumL bin ≤ B) :
    BC.lowerBound B items ≤ bins.length := by
  have h1 := sumL_flatten_le bins hle
  rw [sumL_perm hperm] at h1
  unfold BC.lowerBound
  rw [if_neg (by omega)]
  have : sumL items + B - 1 < (bins.length + 1) * B := by
    rw [Nat.add_mul]; omega
  have := (Nat.div_lt_iff_lt_mul hB).2 this
  omega

example : BC.lowerBound 10 [6, 6, 6, 1, 1] ≤ [[6, 1], [6, 1], [6]].length :=
  lowerBound_le_packing (by decide) (by decide) (by decide)
example : BC.lowerBound 10 [6, 6, 6, 1, 1] = 2 := by decide

/-- the same bound in the vocabulary of `Spec.Packable` -/
theorem lowerBound_le_packable {B m : Nat} {vals : List Nat} (hB : 0 < B) (h : Packable B m vals) :
    BC.lowerBound B vals ≤ m := by
  have h1 := Fit.packing_lower_bound h
  unfold BC.lowerBound
  rw [if_neg (by omega)]
  have : sumL vals + B - 1 < (m + 1) * B := by
    rw [Nat.add_mul]; omega
  have := (Nat.div_lt_iff_lt_mul hB).2 this
  omega

theorem lowerBound_filter (B : Nat) (items : List Nat) :
    BC.lowerBound B (items.filter (· != 0)) = BC.lowerBound B items := by
  simp only [BC.lowerBound, sumL_filter_ne_zero]

/-- on the fast path the result is optimal: no arrangement of the (non-zero) items uses fewer bins -/
theorem bc_fastpath_optimal {B : Nat} {items : List Nat} {fuel : Nat} {bfd : Bins Nat} (hB : 0 < B)
    (hall : ∀ x ∈ items, x ≤ B)
    (hb : bfDecreasing id B (items.filter (· != 0)) = .ok bfd)
    (hlen : bfd.lists.length = BC.lowerBound B (items.filter (· != 0))) :
    BC.binCompletion B items fuel = .ok bfd.lists ∧
    (∀ bins : List (List Nat), bins.flatten.Perm (items.filter (· != 0)) → (∀ bin ∈ bins, sumL bin ≤ B) →
      bfd.lists.length ≤ bins.length) ∧
    (∀ bins : List (List Nat), bins.flatten.Perm items → (∀ bin ∈ bins, sumL bin ≤ B) →
      bfd.lists.length ≤ bins.length) ∧
    (∀ m, Packable B m items → bfd.lists.length ≤ m) := by
  refine ⟨bc_fastpath hall hb hlen, ?_, ?_, ?_⟩
  · intro bins hp hle
    rw [hlen]; exact lowerBound_le_packing hB hp hle
  · intro bins hp hle
    rw [hlen, lowerBound_filter]; exact lowerBound_le_packing hB hp hle
  · intro m hm
    rw [hlen, lowerBound_filter]; exact lowerBound_le_packable hB hm

example : ∀ bins : List (List Nat), bins.flatten.Perm [5, 0, 5, 4, 6] → (∀ bin ∈ bins, sumL bin ≤ 10) →
    2 ≤ bins.length :=
  (bc_fastpath_optimal (fuel := 0) (bfd := ⟨[10, 10], [[6, 4], [5, 5]]⟩) (by decide) (by decide)
    rfl (by decide)).2.2.1

/-! ### 3. never worse than best-fit-decreasing -/

theorem search_length_le (B lb : Nat) : ∀ (fuel : Nat) (queue : List BC.Branch) (best : List (List Nat)),
    (BC.search B lb fuel queue best).length ≤ best.length
  | 0, _, _ => by simp [BC.search]
  | _ + 1, [], _ => by simp [BC.search]
  | fuel + 1, cb :: queue, best => by
    rw [BC.search]
    generalize BC.runBranch B best.length (cb.items.length + 1) cb [] = r
    have hb' : (if (r.1.items.isEmpty && decide (r.1.bins.length < best.length)) = true
        then r.1.bins else best).length ≤ best.length := by
      split <;> rename_i h
      · simp only [Bool.and_eq_true, decide_eq_true_eq] at h; omega
      · exact Nat.le_refl _
    generalize (if (r.1.items.isEmpty && decide (r.1.bins.length < best.length)) = true
        then r.1.bins else best) = best' at hb' ⊢
    split
    · exact hb'
    · exact Nat.le_trans (search_length_le B lb fuel _ _) hb'

/-- the result never has more bins than best-fit-decreasing on the non-zero items -/
theorem bc_le_bfd {B : Nat} {items : List Nat} {fuel : Nat} {bins : List (List Nat)} {bfd : Bins Nat}
    (h : BC.binCompletion B items fuel = .ok bins)
    (hb : bfDecreasing id B (items.filter (· != 0)) = .ok bfd) :
    bins.length ≤ bfd.lists.length := by
  obtain ⟨bfd', hb', hc⟩ := bc_ok_cases h
  rw [hb] at hb'
  cases hb'
  rcases hc with ⟨_, rfl⟩ | ⟨_, rfl⟩
  · exact Nat.le_refl _
  · exact search_length_le _ _ _ _ _

example : ([[10, 10], [10, 10], [8, 4, 4, 4], [6, 5, 5, 4]] : List (List Nat)).length ≤
    ([[10, 10], [10, 10], [8, 6, 5], [5, 4, 4, 4], [4]] : List (List Nat)).length :=
  bc_le_bfd (B := 20) (items := [5, 10, 4, 10, 8, 6, 4, 10, 5, 4, 4, 10]) (fuel := 100)
    (bfd := ⟨[20, 20, 19, 17, 4], [[10, 10], [10, 10], [8, 6, 5], [5, 4, 4, 4], [4]]⟩)
    (by decide +kernel) rfl

/-- anytime behaviour: one more unit of fuel never makes the result of `search` longer -/
theorem search_fuel_mono (B lb : Nat) : ∀ (fuel : Nat) (queue : List BC.Branch) (best : List (List Nat)),
    (BC.search B lb (fuel + 1) queue best).length ≤ (BC.search B lb fuel queue best).length
  | 0, queue, best => by
    rw [BC.search.eq_1]
    exact search_length_le B lb 1 queue best
  | fuel + 1, [], best => by simp [BC.search]
  | fuel + 1, cb :: queue, best => by
    rw [BC.search, BC.search]
    generalize BC.runBranch B best.length (cb.items.length + 1) cb [] = r
    generalize (if (r.1.items.isEmpty && decide (r.1.bins.length < best.length)) = true
        then r.1.bins else best) = best'
    split
    · exact Nat.le_refl _
    · exact search_fuel_mono B lb fuel _ _

theorem search_fuel_mono' (B lb : Nat) {fuel fuel' : Nat} (hf : fuel ≤ fuel') (queue : List BC.Branch)
    (best : List (List Nat)) :
    (BC.search B lb fuel' queue best).length ≤ (BC.search B lb fuel queue best).length := by
  induction hf with
  | refl => exact Nat.le_refl _
  | step _ ih => exact Nat.le_trans (search_fuel_mono B lb _ queue best) ih

/-- closed form of a successful run -/
theorem bc_unfold {B : Nat} {items : List Nat} (fuel : Nat) {bfd : Bins Nat} (hall : ∀ x ∈ items, x ≤ B)
    (hb : bfDecreasing id B (items.filter (· != 0)) = .ok bfd) :
    BC.binCompletion B items fuel = .ok
      (if bfd.lists.length = BC.lowerBound B (items.filter (· != 0)) then bfd.lists
       else BC.search B (BC.lowerBound B (items.filter (· != 0))) fuel
          [⟨sortDesc id (items.filter (· != 0)), [], 0⟩] bfd.lists) := by
  unfold BC.binCompletion
  have hany : ¬ items.any (fun x => decide (B < x)) = true := by
    intro h
    obtain ⟨x, hx, hlt⟩ := any_gt_iff.1 h
    exact absurd (hall x hx) (by omega)
  rw [if_neg hany]
  simp only [hb]
  split <;> rfl

/-- anytime behaviour of `bin_completion`: more fuel never gives more bins -/
theorem bc_fuel_mono {B : Nat} {items : List Nat} {fuel fuel' : Nat} {bins bins' : List (List Nat)}
    (hf : fuel ≤ fuel') (h : BC.binCompletion B items fuel = .ok bins)
    (h' : BC.binCompletion B items fuel' = .ok bins') : bins'.length ≤ bins.length := by
  have hall := bc_ok_all_le h
  obtain ⟨bfd, hb, _⟩ := bc_ok_cases h
  rw [bc_unfold fuel hall hb] at h
  rw [bc_unfold fuel' hall hb] at h'
  cases h; cases h'
  split
  · exact Nat.le_refl _
  · exact search_fuel_mono' _ _ hf _ _

example : ([[10, 10], [10, 10], [8, 4, 4, 4], [6, 5, 5, 4]] : List (List Nat)).length ≤
    ([[10, 10], [10, 10], [8, 6, 5], [5, 4, 4, 4], [4]] : List (List Nat)).length :=
  bc_fuel_mono (B := 20) (items := [5, 10, 4, 10, 8, 6, 4, 10, 5, 4, 4, 10]) (fuel := 0) (fuel' := 100)
    (by decide) (by decide +kernel) (by decide +kernel)


/-! ### 4. bookkeeping: `lwi`, `uniq`, `combs`, `undPairs`, `contrib`, `checkDom`, `completions` -/

section lwi
variable {β : Type} [BEq β]

theorem lwi_nil (items : List β) : BC.lwi items [] = items := rfl

theorem lwi_cons (items : List β) (x : β) (c : List β) :
    BC.lwi items (x :: c) = BC.lwi (items.erase x) c := rfl

/-- `list_without_items` only removes -/
theorem lwi_sublist (items comp : List β) : (BC.lwi items comp).Sublist items := by
  induction comp generalizing items with
  | nil => exact List.Sublist.refl _
  | cons x c ih => rw [lwi_cons]; exact (ih _).trans List.erase_sublist

/-- removing a sub-multiset and putting it back gives the original multiset -/
theorem lwi_perm [LawfulBEq β] {items comp : List β} (h : List.Subperm comp items) :
    (comp ++ BC.lwi items comp).Perm items := by
  induction comp generalizing items with
  | nil => exact List.Perm.refl _
  | cons x c ih =>
    have hx : x ∈ items := h.subset List.mem_cons_self
    have hc : List.Subperm c (items.erase x) := by
      have := h.erase x
      simpa using this
    rw [lwi_cons]
    exact ((ih hc).cons x).trans (List.perm_cons_erase hx).symm

example : ([4, 10, 4] ++ BC.lwi [5, 10, 4, 10, 8, 4] [4, 10, 4]).Perm [5, 10, 4, 10, 8, 4] :=
  lwi_perm (List.subperm_ext_iff.2 (by decide))
example : BC.lwi [5, 10, 4, 10, 8, 4] [4, 10, 4] = [5, 10, 8] := by decide

theorem mem_uniq_aux {e : β} : ∀ (l out : List β),
    e ∈ l.foldl (fun out e => if out.contains e then out else out ++ [e]) out → e ∈ out ∨ e ∈ l
  | [], out, h => Or.inl h
  | a :: l, out, h => by
    rw [List.foldl_cons] at h
    rcases mem_uniq_aux l _ h with h' | h'
    · split at h'
      · exact Or.inl h'
      · rcases List.mem_append.1 h' with h' | h'
        · exact Or.inl h'
        · rw [List.mem_singleton] at h'
          subst h'; exact Or.inr List.mem_cons_self
    · exact Or.inr (List.mem_cons_of_mem _ h')

/-- `unique_list` only selects -/
theorem mem_uniq {e : β} {l : List β} (h : e ∈ BC.uniq l) : e ∈ l := by
  rcases mem_uniq_aux l [] h with h | h
  · cases h
  · exact h

end lwi

/-! `itertools.combinations` -/

theorem combs_zero (items : List Nat) : BC.combs 0 items = [[]] := by
  cases items <;> rfl

/-- soundness of `combs`: a combination is a sub-list of the right length -/
theorem combs_sublist : ∀ (r : Nat) (items fc : List Nat), fc ∈ BC.combs r items →
    fc.Sublist items ∧ fc.length = r
  | 0, items, fc, h => by
    rw [combs_zero, List.mem_singleton] at h
    subst h; exact ⟨List.nil_sublist _, rfl⟩
  | _ + 1, [], fc, h => by simp [BC.combs] at h
  | r + 1, x :: xs, fc, h => by
    simp only [BC.combs, List.mem_append, List.mem_map] at h
    rcases h with ⟨fc', h', rfl⟩ | h
    · obtain ⟨h1, h2⟩ := combs_sublist r xs fc' h'
      exact ⟨h1.cons_cons x, by simp [h2]⟩
    · obtain ⟨h1, h2⟩ := combs_sublist (r + 1) xs fc h
      exact ⟨h1.cons x, h2⟩

/-- completeness of `combs`: every sub-list of length `r` is enumerated -/
theorem combs_complete {items fc : List Nat} (h : fc.Sublist items) : fc ∈ BC.combs fc.length items := by
  induction h with
  | slnil => simp [BC.combs]
  | @cons l₁ l₂ a h ih =>
    cases l₁ with
    | nil => simp [combs_zero]
    | cons b l₁ =>
      simp only [List.length_cons, BC.combs, List.mem_append]
      exact Or.inr (by simpa using ih)
  | @cons_cons l₁ l₂ a h ih =>
    simp only [List.length_cons, BC.combs, List.mem_append, List.mem_map]
    exact Or.inl ⟨l₁, ih, rfl⟩

theorem mem_combs_iff {r : Nat} {items fc : List Nat} :
    fc ∈ BC.combs r items ↔ fc.Sublist items ∧ fc.length = r :=
  ⟨combs_sublist r items fc, fun ⟨h1, h2⟩ => h2 ▸ combs_complete h1⟩

example : [10, 8, 4] ∈ BC.combs 3 [5, 10, 4, 10, 8, 4] := mem_combs_iff.2 ⟨by decide, rfl⟩

/-! `find_undominated_pairs` -/

theorem getD_eq {l : List Nat} {i : Nat} (h : i < l.length) : l.getD i 0 = l[i] := by
  simp [List.getD_eq_getElem?_getD, List.getElem?_eq_getElem h]


theorem pair_sublist : ∀ (l : List Nat) (s e : Nat) (hse : s < e) (he : e < l.length),
    [l[s], l[e]].Sublist l
  | [], _, _, _, he => by simp at he
  | a :: l, 0, e + 1, _, he => by
    simp only [List.getElem_cons_zero, List.getElem_cons_succ]
    exact (List.singleton_sublist.2 (List.getElem_mem _)).cons_cons a
  | a :: l, s + 1, e + 1, hse, he => by
    simp only [List.getElem_cons_succ]
    exact (pair_sublist l s e (by omega) (by simpa using he)).cons a

theorem undPairsLoop_spec (c y B : Nat) (items : List Nat) :
    ∀ (fuel s e : Nat) (acc : List (List Nat)), e ≤ items.length - 1 →
      (∀ p ∈ acc, p.Sublist items ∧ c + sumL p ≤ B) →
      ∀ p ∈ BC.undPairsLoop c y B items fuel s e acc, p.Sublist items ∧ c + sumL p ≤ B
  | 0, _, _, acc, _, hacc => by
    intro p hp
    simp only [BC.undPairsLoop, List.mem_reverse] at hp
    exact hacc p hp
  | fuel + 1, s, e, acc, he, hacc => by
    intro p hp
    rw [BC.undPairsLoop] at hp
    by_cases hse : s < e
    · rw [if_pos hse] at hp
      have hel : e < items.length := by omega
      have hsl : s < items.length := by omega
      rw [getD_eq hsl, getD_eq hel] at hp
      dsimp only at hp
      split at hp
      · exact undPairsLoop_spec c y B items fuel (s + 1) e acc he hacc p hp
      · split at hp
        · exact undPairsLoop_spec c y B items fuel s (e - 1) acc (by omega) hacc p hp
        · rename_i hnot _
          refine undPairsLoop_spec c y B items fuel (s + 1) (e - 1) _ (by omega) ?_ p hp
          intro q hq
          rcases List.mem_cons.1 hq with rfl | hq
          · refine ⟨pair_sublist items s e hse hel, ?_⟩
            simp only [sumL]; omega
          · exact hacc q hq
    · rw [if_neg hse] at hp
      simp only [List.mem_reverse] at hp
      exact hacc p hp

/-- an undominated pair consists of two distinct positions of `items` and fits next to the constant part -/
theorem undPairs_spec {c y B : Nat} {items p : List Nat} (h : p ∈ BC.undPairs c y items B) :
    p.Sublist items ∧ c + sumL p ≤ B :=
  undPairsLoop_spec c y B items _ _ _ _ (Nat.le_refl _) (by simp) p h

/-! `find_bin_completions` -/

/-- what is required of a completion of the bin `[x]` from the remaining `items` -/
def IsCompletion (x B : Nat) (items c : List Nat) : Prop := List.Subperm c items ∧ x + sumL c ≤ B

theorem contrib_spec {x y B : Nat} {items fc c : List Nat} (hfc : fc.Sublist items)
    (h : c ∈ BC.contrib x y B items fc) : IsCompletion x B items c := by
  unfold BC.contrib at h
  split at h
  · cases h
  · rename_i hfit
    dsimp only at h
    split at h
    · simp only [List.mem_append, or_self, List.mem_map] at h
      obtain ⟨p, hp, rfl⟩ := h
      obtain ⟨hp1, hp2⟩ := undPairs_spec hp
      have hsort := Fit.sortDesc_perm id (p ++ fc)
      refine ⟨(hsort.subperm_right).2 ?_, ?_⟩
      · have h1 : List.Subperm (p ++ fc) (BC.lwi items fc ++ fc) :=
          (List.subperm_append_right fc).2 hp1.subperm
        exact h1.trans (List.perm_append_comm.trans (lwi_perm hfc.subperm)).subperm
      · rw [sumL_perm hsort, Fit.sumL_append]; omega
    · split at h
      · rw [List.mem_singleton] at h
        subst h
        exact ⟨hfc.subperm, by omega⟩
      · cases h

/-- `check_for_dominance` only selects and reorders -/
theorem mem_checkDom {c : List Nat} {comps : List (List Nat)} (h : c ∈ BC.checkDom comps) : c ∈ comps := by
  unfold BC.checkDom at h
  split at h
  · exact h
  · exact (lwi_sublist _ _).subset ((Fit.sortDesc_perm _ _).mem_iff.1 h)

/-- every completion offered for the bin `[x]` is a sub-multiset of the remaining items and fits -/
theorem completions_spec {x B : Nat} {items c : List Nat} (h : c ∈ BC.completions x items B) :
    IsCompletion x B items c := by
  unfold BC.completions at h
  split at h
  · cases h
  · dsimp only at h
    split at h
    · cases h
    · rename_i hy
      have h1 := (Fit.sortDesc_perm _ _).mem_iff.1 (mem_uniq (mem_checkDom h))
      rcases List.mem_cons.1 h1 with rfl | h1
      · cases hf : items.find? fun i => decide (x + i ≤ B) with
        | none => rw [hf] at hy; exact absurd rfl hy
        | some y =>
          have hmem := List.mem_of_find?_eq_some hf
          have hfit := List.find?_some hf
          simp only [decide_eq_true_eq] at hfit
          simp only [Option.getD_some]
          exact ⟨List.singleton_subperm_iff.2 hmem, by simp only [sumL]; omega⟩
      · simp only [List.mem_flatMap] at h1
        obtain ⟨r, _, fc, hfc, hc⟩ := h1
        exact contrib_spec (combs_sublist r items fc hfc).1 hc

/-- the form asked for: a sub-multiset of the remaining items whose sum is at most `B − x` -/
theorem completions_sum_le {x B : Nat} {items c : List Nat} (h : c ∈ BC.completions x items B) :
    List.Subperm c items ∧ sumL c ≤ B - x := by
  obtain ⟨h1, h2⟩ := completions_spec h
  exact ⟨h1, by omega⟩

example : List.Subperm [6, 5] [6, 5, 5, 4, 4, 4, 4] ∧ sumL [6, 5] ≤ 20 - 8 :=
  completions_sum_le (by decide +kernel)
example : BC.completions 8 [6, 5, 5, 4, 4, 4, 4] 20 = [[4, 4, 4], [6, 5]] := by decide +kernel


/-! ### 5. the branch invariant and feasibility of the result (C03) -/

/-- invariant of a branch of the search: bins plus remaining items are the input, bins are feasible and
    non-empty, `idx` counts the bins -/
structure Inv (B : Nat) (items0 : List Nat) (cb : BC.Branch) : Prop where
  perm : (cb.bins.flatten ++ cb.items).Perm items0
  ok : ∀ bin ∈ cb.bins, sumL bin ≤ B ∧ bin ≠ []
  idx : cb.idx = cb.bins.length

theorem inv_init (B : Nat) (items : List Nat) : Inv B items ⟨sortDesc id items, [], 0⟩ :=
  ⟨by simpa using Fit.sortDesc_perm id items, by simp, rfl⟩

/-- opening the bin `[x]` and completing it with `comp` keeps the invariant -/
theorem inv_step {B : Nat} {items0 : List Nat} {cb : BC.Branch} {x : Nat} {upd comp : List Nat}
    (h : Inv B items0 cb) (hitems : cb.items = x :: upd) (hc : IsCompletion x B upd comp) :
    Inv B items0 ⟨BC.lwi upd comp, (cb.bins ++ [[x]]).modify cb.idx (· ++ comp), cb.idx + 1⟩ := by
  have hmod : (cb.bins ++ [[x]]).modify cb.idx (· ++ comp) = cb.bins ++ [x :: comp] := by
    rw [h.idx, Fit.modify_append_length]; rfl
  rw [hmod]
  refine ⟨?_, ?_, ?_⟩
  · have hp := h.perm
    rw [hitems] at hp
    refine List.Perm.trans ?_ hp
    simp only [List.flatten_append, List.flatten_cons, List.flatten_nil, List.append_nil,
      List.append_assoc, List.cons_append]
    exact List.Perm.append_left _ ((lwi_perm hc.1).cons x)
  · intro bin hbin
    rcases List.mem_append.1 hbin with hbin | hbin
    · exact h.ok bin hbin
    · rw [List.mem_singleton] at hbin
      subst hbin
      exact ⟨by simp only [sumL]; exact hc.2, by simp⟩
  · simp [h.idx]

/-- the same without a completion -/
theorem inv_step_nil {B : Nat} {items0 : List Nat} {cb : BC.Branch} {x : Nat} {upd : List Nat}
    (h : Inv B items0 cb) (hitems : cb.items = x :: upd) (hx : x ≤ B) :
    Inv B items0 ⟨upd, cb.bins ++ [[x]], cb.idx + 1⟩ := by
  have := inv_step (comp := []) h hitems ⟨List.nil_subperm, by simpa [sumL] using hx⟩
  have hmod : (cb.bins ++ [[x]]).modify cb.idx (· ++ []) = cb.bins ++ [[x]] := by
    rw [h.idx, Fit.modify_append_length]; rfl
  rw [hmod] at this
  exact this

theorem inv_spawn {B : Nat} {items0 : List Nat} {cb : BC.Branch} {x : Nat} {upd : List Nat} (bestLen : Nat)
    (h : Inv B items0 cb) (hitems : cb.items = x :: upd) :
    ∀ (others : List (List Nat)) (acc : List BC.Branch), (∀ comp ∈ others, IsCompletion x B upd comp) →
      (∀ b ∈ acc, Inv B items0 b) →
      ∀ b ∈ others.foldl (fun (acc : List BC.Branch) comp =>
          let ni := BC.lwi upd comp
          let nb := (cb.bins ++ [[x]]).modify cb.idx (· ++ comp)
          if decide (bestLen * B ≤ nb.length * B + sumL ni) then acc else acc ++ [⟨ni, nb, cb.idx + 1⟩]) acc,
        Inv B items0 b
  | [], acc, _, hacc => hacc
  | comp :: others, acc, hcs, hacc => by
    rw [List.foldl_cons]
    refine inv_spawn bestLen h hitems others _ (fun c hc => hcs c (List.mem_cons_of_mem _ hc)) ?_
    dsimp only
    split
    · exact hacc
    · intro b hb
      rcases List.mem_append.1 hb with hb | hb
      · exact hacc b hb
      · rw [List.mem_singleton] at hb
        subst hb
        exact inv_step h hitems (hcs comp List.mem_cons_self)

/-- `runBranch` keeps the invariant for the branch it continues and for every branch it spawns -/
theorem runBranch_inv {B : Nat} {items0 : List Nat} (hall : ∀ x ∈ items0, x ≤ B) (bestLen : Nat) :
    ∀ (fuel : Nat) (cb : BC.Branch) (spawned : List BC.Branch), Inv B items0 cb →
      (∀ b ∈ spawned, Inv B items0 b) →
      Inv B items0 (BC.runBranch B bestLen fuel cb spawned).1 ∧
      ∀ b ∈ (BC.runBranch B bestLen fuel cb spawned).2, Inv B items0 b
  | 0, cb, spawned, h, hs => ⟨h, hs⟩
  | fuel + 1, cb, spawned, h, hs => by
    rw [BC.runBranch]
    split
    · exact ⟨h, hs⟩
    · rename_i x upd hitems
      have hx : x ≤ B := hall x (h.perm.subset (by simp [hitems]))
      have hcs : ∀ c ∈ BC.completions x upd B, IsCompletion x B upd c := fun c hc => completions_spec hc
      dsimp only
      generalize BC.completions x upd B = comps at hcs ⊢
      cases comps with
      | nil =>
        dsimp only
        have hcb' := inv_step_nil h hitems hx
        split
        · exact ⟨hcb', hs⟩
        · split
          · exact ⟨hcb', hs⟩
          · exact runBranch_inv hall bestLen fuel _ _ hcb' hs
      | cons c0 others =>
        dsimp only
        have hcb' := inv_step h hitems (hcs c0 List.mem_cons_self)
        have hs' := inv_spawn bestLen h hitems others spawned
          (fun c hc => hcs c (List.mem_cons_of_mem _ hc)) hs
        split
        · exact ⟨hcb', hs'⟩
        · split
          · exact ⟨hcb', hs'⟩
          · exact runBranch_inv hall bestLen fuel _ _ hcb' hs'

/-- `bins` arranges `items0` into bins of capacity `B`, none of them empty (for a non-empty input) -/
def IsArrangement (B : Nat) (items0 : List Nat) (bins : List (List Nat)) : Prop :=
  bins.flatten.Perm items0 ∧ (∀ bin ∈ bins, sumL bin ≤ B) ∧ (items0 ≠ [] → ∀ bin ∈ bins, bin ≠ [])

theorem Inv.arrangement {B : Nat} {items0 : List Nat} {cb : BC.Branch} (h : Inv B items0 cb)
    (he : cb.items.isEmpty = true) : IsArrangement B items0 cb.bins := by
  have hp := h.perm
  rw [List.isEmpty_iff.1 he, List.append_nil] at hp
  exact ⟨hp, fun bin hb => (h.ok bin hb).1, fun _ bin hb => (h.ok bin hb).2⟩

/-- every incumbent of `search` (in particular its result) is an arrangement of the input -/
theorem bc_search_isPacking {B : Nat} {items0 : List Nat} (hall : ∀ x ∈ items0, x ≤ B) (lb : Nat) :
    ∀ (fuel : Nat) (queue : List BC.Branch) (best : List (List Nat)),
      (∀ b ∈ queue, Inv B items0 b) → IsArrangement B items0 best →
      IsArrangement B items0 (BC.search B lb fuel queue best)
  | 0, _, _, _, hb => by simpa [BC.search] using hb
  | _ + 1, [], _, _, hb => by simpa [BC.search] using hb
  | fuel + 1, cb :: queue, best, hq, hb => by
    rw [BC.search]
    have hr := runBranch_inv hall best.length (cb.items.length + 1) cb []
      (hq cb List.mem_cons_self) (by simp)
    generalize BC.runBranch B best.length (cb.items.length + 1) cb [] = r at hr
    have hb' : IsArrangement B items0 (if (r.1.items.isEmpty && decide (r.1.bins.length < best.length)) = true
        then r.1.bins else best) := by
      split <;> rename_i h
      · simp only [Bool.and_eq_true] at h
        exact hr.1.arrangement h.1
      · exact hb
    generalize (if (r.1.items.isEmpty && decide (r.1.bins.length < best.length)) = true
        then r.1.bins else best) = best' at hb' ⊢
    split
    · exact hb'
    · refine bc_search_isPacking hall lb fuel _ _ ?_ hb'
      intro b hbq
      rcases List.mem_append.1 hbq with hbq | hbq
      · exact hq b (List.mem_cons_of_mem _ hbq)
      · exact hr.2 b hbq

/-- C03 for bin completion: the result arranges the non-zero items into feasible, non-empty bins -/
theorem bc_isPacking {B : Nat} {items : List Nat} {fuel : Nat} {bins : List (List Nat)} (hB : 0 < B)
    (h : BC.binCompletion B items fuel = .ok bins) :
    bins.flatten.Perm (items.filter (· != 0)) ∧ (∀ bin ∈ bins, sumL bin ≤ B) ∧
      (items.filter (· != 0) ≠ [] → ∀ bin ∈ bins, bin ≠ []) := by
  have _ := hB
  have hall : ∀ x ∈ items.filter (· != 0), x ≤ B :=
    fun x hx => bc_ok_all_le h x (List.mem_filter.1 hx).1
  obtain ⟨bfd, hbfd, hc⟩ := bc_ok_cases h
  obtain ⟨h1, h2, h3, h4⟩ := Fit.bfDecreasing_ok_isPacking hbfd
  have hbest : IsArrangement B (items.filter (· != 0)) bfd.lists := by
    refine ⟨h1, ?_, h4⟩
    intro bin hbin
    have := h3 (binSum id bin) (by rw [h2]; exact List.mem_map_of_mem hbin)
    rwa [binSum_id] at this
  rcases hc with ⟨_, rfl⟩ | ⟨_, rfl⟩
  · exact hbest
  · exact bc_search_isPacking hall _ fuel _ _
      (by intro b hb; rw [List.mem_singleton] at hb; subst hb; exact inv_init B _) hbest

example : ([[10, 10], [10, 10], [8, 4, 4, 4], [6, 5, 5, 4]] : List (List Nat)).flatten.Perm
    ([5, 10, 4, 10, 8, 6, 4, 10, 5, 4, 4, 10].filter (· != 0)) :=
  (bc_isPacking (B := 20) (items := [5, 10, 4, 10, 8, 6, 4, 10, 5, 4, 4, 10]) (fuel := 100)
    (by decide) (by decide +kernel)).1


/-! ### 6. soundness of the dominance test -/

theorem fits_of_le {l1 totals : List Nat}
    (h : ∀ i (h1 : i < totals.length) (h2 : i < l1.length), totals[i] ≤ l1[i]) :
    BC.fits l1 totals = true := by
  unfold BC.fits
  rw [List.all_eq_true]
  intro p hp
  obtain ⟨i, hi, rfl⟩ := List.mem_iff_getElem.1 hp
  simp only [List.length_zip] at hi
  simp only [List.getElem_zip, decide_eq_true_eq]
  exact h i (by omega) (by omega)

theorem mem_product {n : Nat} : ∀ {m : Nat} {locs : List Nat}, locs ∈ BC.product n m →
    locs.length = m ∧ ∀ i ∈ locs, i < n
  | 0, locs, h => by
    simp only [BC.product, List.mem_singleton] at h
    subst h; simp
  | m + 1, locs, h => by
    simp only [BC.product, List.mem_flatMap, List.mem_range, List.mem_map] at h
    obtain ⟨i, hi, locs', h', rfl⟩ := h
    obtain ⟨h1, h2⟩ := mem_product h'
    refine ⟨by simp [h1], ?_⟩
    intro j hj
    rcases List.mem_cons.1 hj with rfl | hj
    · exact hi
    · exact h2 j hj

/-- greedy placement for the multiset shortcut: as long as the items still to place form a sub-multiset of
    the residual capacities `res`, each can be given a slot of its own -/
theorem place_aux (caps : List Nat) : ∀ (l2 res t : List Nat), res.length = caps.length →
    t.length = caps.length →
    (∀ i (h1 : i < t.length) (h2 : i < res.length) (h3 : i < caps.length), t[i] + res[i] ≤ caps[i]) →
    (∀ x ∈ l2, l2.count x ≤ res.count x) →
    ∃ locs, locs.length = l2.length ∧ (∀ i ∈ locs, i < caps.length) ∧
      ((l2.zip locs).foldl (fun t (p : Nat × Nat) => t.modify p.2 (· + p.1)) t).length = caps.length ∧
      ∀ i (h1 : i < ((l2.zip locs).foldl (fun t (p : Nat × Nat) => t.modify p.2 (· + p.1)) t).length)
        (h3 : i < caps.length),
        ((l2.zip locs).foldl (fun t (p : Nat × Nat) => t.modify p.2 (· + p.1)) t)[i] ≤ caps[i]
  | [], res, t, hres, ht, hinv, _ => by
    refine ⟨[], rfl, by simp, by simpa using ht, ?_⟩
    intro i h1 h3
    simp only [List.zip_nil_left, List.foldl_nil] at h1 ⊢
    have := hinv i h1 (by omega) h3
    omega
  | a :: l2, res, t, hres, ht, hinv, hcnt => by
    have ha : a ∈ res := by
      have := hcnt a List.mem_cons_self
      rw [List.count_cons_self] at this
      exact List.count_pos_iff.1 (by omega)
    obtain ⟨i, hi, hia⟩ := List.mem_iff_getElem.1 ha
    have hic : i < caps.length := by omega
    obtain ⟨locs, h1, h2, h3, h4⟩ := place_aux caps l2 (res.set i 0) (t.modify i (· + a))
      (by simpa using hres) (by simpa using ht)
      (by
        intro j hj1 hj2 hj3
        have hj1' : j < t.length := by simpa using hj1
        have hj2' : j < res.length := by simpa using hj2
        have := hinv j hj1' hj2' hj3
        rw [List.getElem_modify, List.getElem_set]
        by_cases hij : i = j
        · subst hij; simp only [if_true]; omega
        · simp only [if_neg hij]; omega)
      (by
        intro x hx
        have := hcnt x (List.mem_cons_of_mem _ hx)
        rw [List.count_set hi, hia]
        by_cases hxa : a = x
        · subst hxa
          rw [List.count_cons_self] at this
          simp only [beq_self_eq_true, if_true]; omega
        · rw [List.count_cons_of_ne hxa] at this
          have : (a == x) = false := by simpa using hxa
          simp only [this, Bool.false_eq_true, if_false]; omega)
    refine ⟨i :: locs, by simp [h1], ?_, ?_, ?_⟩
    · intro j hj
      rcases List.mem_cons.1 hj with rfl | hj
      · exact hic
      · exact h2 j hj
    · simpa using h3
    · simpa using h4

/-- if `is_dominant(l1, l2)` holds, the items of `l2` can be arranged into slots with capacities `l1` -/
theorem isDom_sound {l1 l2 : List Nat} (h : BC.isDom l1 l2 = true) :
    ∃ locs, locs.length = l2.length ∧ (∀ i ∈ locs, i < l1.length) ∧
      BC.fits l1 (BC.slotTotals l1.length l2 locs) = true := by
  have shortcut : (∀ x ∈ l2, l2.count x ≤ l1.count x) →
      ∃ locs, locs.length = l2.length ∧ (∀ i ∈ locs, i < l1.length) ∧
        BC.fits l1 (BC.slotTotals l1.length l2 locs) = true := by
    intro hcnt
    obtain ⟨locs, h1, h2, h3, h4⟩ := place_aux l1 l2 l1 (List.replicate l1.length 0) rfl (by simp)
      (by intro i _ _ _; simp) hcnt
    exact ⟨locs, h1, h2, fits_of_le fun i hi1 hi2 => h4 i hi1 hi2⟩
  unfold BC.isDom at h
  split at h
  · rename_i he
    exact shortcut (by rw [List.isEmpty_iff.1 he]; simp)
  · split at h
    · cases h
    · split at h
      · rename_i hall
        rw [List.all_eq_true] at hall
        exact shortcut fun x hx => by simpa using hall x hx
      · split at h
        · cases h
        · rw [List.any_eq_true] at h
          obtain ⟨locs, hlocs, hfit⟩ := h
          obtain ⟨h1, h2⟩ := mem_product hlocs
          exact ⟨locs, h1, h2, hfit⟩

example : ∃ locs, locs.length = [4, 4, 3].length ∧ (∀ i ∈ locs, i < [8, 5].length) ∧
    BC.fits [8, 5] (BC.slotTotals [8, 5].length [4, 4, 3] locs) = true :=
  isDom_sound (by decide)
example : BC.isDom [6, 4, 4] [4, 6] = true := by decide


/-- `slotTotals` is `Spec.sumsOf`: the totals per slot of an assignment -/
theorem slotTotals_eq_sumsOf (n : Nat) (l2 locs : List Nat) : BC.slotTotals n l2 locs = sumsOf n l2 locs := rfl

theorem fits_sum_le : ∀ (l1 totals : List Nat), l1.length = totals.length → BC.fits l1 totals = true →
    sumL totals ≤ sumL l1
  | [], [], _, _ => Nat.le_refl _
  | [], _ :: _, h, _ => by simp at h
  | _ :: _, [], h, _ => by simp at h
  | a :: l1, t :: totals, h, hf => by
    simp only [BC.fits, List.zip_cons_cons, List.all_cons, Bool.and_eq_true, decide_eq_true_eq] at hf
    have := fits_sum_le l1 totals (by simpa using h) hf.2
    simp only [sumL]; omega

/-- consequence: a dominated completion is not heavier than the dominating one -/
theorem isDom_sum_le {l1 l2 : List Nat} (h : BC.isDom l1 l2 = true) : sumL l2 ≤ sumL l1 := by
  obtain ⟨locs, h1, h2, h3⟩ := isDom_sound h
  have hs := Fit.sumsOf_length_sum (m := l1.length) (vals := l2) (asg := locs) ⟨h1, h2⟩
  rw [slotTotals_eq_sumsOf] at h3
  have := fits_sum_le l1 _ hs.1.symm h3
  omega

example : sumL [4, 4, 3] ≤ sumL [8, 5] := isDom_sum_le (by decide)

/-! ### 7. towards optimality (C04) -/

/-- an arrangement into feasible bins is a packing in the sense of `Spec.Packable` -/
theorem packable_of_arrangement {B : Nat} {items : List Nat} {bins : List (List Nat)}
    (hp : bins.flatten.Perm items) (hle : ∀ bin ∈ bins, sumL bin ≤ B) : Packable B bins.length items := by
  obtain ⟨asg, hasg, hs⟩ := Oracle.lists_sums_assignment id items bins hp
  rw [List.map_id] at hs
  refine ⟨asg, hasg, ?_⟩
  intro s hs'
  rw [hs] at hs'
  obtain ⟨bin, hb, rfl⟩ := List.mem_map.1 hs'
  rw [binSum_id]; exact hle bin hb

/-- the result is sandwiched: `⌈total/B⌉ ≤ optimum ≤ result ≤ BFD` -/
theorem bc_bounds {B : Nat} {items : List Nat} {fuel : Nat} {bins : List (List Nat)} (hB : 0 < B)
    (h : BC.binCompletion B items fuel = .ok bins) :
    ∃ m, optBins B (items.filter (· != 0)) = some m ∧ BC.lowerBound B items ≤ m ∧ m ≤ bins.length ∧
      ∀ bfd, bfDecreasing id B (items.filter (· != 0)) = .ok bfd → bins.length ≤ bfd.lists.length := by
  have hall : ∀ x ∈ items.filter (· != 0), x ≤ B :=
    fun x hx => bc_ok_all_le h x (List.mem_filter.1 hx).1
  obtain ⟨m, hm, hpk, hmin⟩ := Checkers.optBins_spec hall
  obtain ⟨h1, h2, _⟩ := bc_isPacking hB h
  refine ⟨m, hm, ?_, hmin _ (packable_of_arrangement h1 h2), fun bfd hb => bc_le_bfd h hb⟩
  rw [← lowerBound_filter]
  exact lowerBound_le_packable hB hpk

/-- whenever the result meets the lower bound (the early exit of `search`, or the fast path) it is optimal -/
theorem bc_optimal_of_eq_lowerBound {B : Nat} {items : List Nat} {fuel : Nat} {bins : List (List Nat)}
    (hB : 0 < B) (h : BC.binCompletion B items fuel = .ok bins) (hlb : bins.length = BC.lowerBound B items) :
    optBins B (items.filter (· != 0)) = some bins.length := by
  obtain ⟨m, hm, h1, h2, _⟩ := bc_bounds hB h
  rw [hm]; congr 1; omega

example : optBins 20 ([5, 10, 4, 10, 8, 6, 4, 10, 5, 4, 4, 10].filter (· != 0)) = some 4 :=
  bc_optimal_of_eq_lowerBound (B := 20) (fuel := 100)
    (bins := [[10, 10], [10, 10], [8, 4, 4, 4], [6, 5, 5, 4]]) (by decide) (by decide +kernel) (by decide)

/-- C04, the statement: with enough fuel the result has the minimum number of bins.
    (`fuel = 0` is not enough even for the empty input: `binCompletion B [] 0 = .ok [[]]`.)
    It is proved at the end of this file: `bc_optimal` (explicit fuel bound) and `bc_optimal_full_holds`. -/
def bc_optimal_full : Prop :=
  ∀ (B : Nat) (items : List Nat), 0 < B → ∃ fuel0, ∀ fuel, fuel0 ≤ fuel → ∀ bins,
    BC.binCompletion B items fuel = .ok bins → optBins B (items.filter (· != 0)) = some bins.length

example : BC.binCompletion 5 [] 0 = .ok [[]] := by decide +kernel
example : BC.binCompletion 5 [0] 1 = .ok [] := by decide +kernel

/-! ### 8. optimality (C04): semantic dominance -/

/-- group `i` fits into slot `i` -/
def GroupsFit : List (List Nat) → List Nat → Prop
  | [], [] => True
  | g :: gs, v :: c => sumL g ≤ v ∧ GroupsFit gs c
  | _, _ => False

/-- semantic dominance (Martello–Toth): the items `S` can be grouped into slots with capacities `c`.
    `SDom (replicate n B) R` says that `R` can be packed into `n` bins of capacity `B`. -/
def SDom (c S : List Nat) : Prop := ∃ gs : List (List Nat), GroupsFit gs c ∧ gs.flatten.Perm S

theorem groupsFit_nil_left {c : List Nat} : GroupsFit [] c ↔ c = [] := by
  cases c <;> simp [GroupsFit]

theorem groupsFit_nil_right {gs : List (List Nat)} : GroupsFit gs [] ↔ gs = [] := by
  cases gs <;> simp [GroupsFit]

theorem groupsFit_cons {g : List Nat} {gs : List (List Nat)} {v : Nat} {c : List Nat} :
    GroupsFit (g :: gs) (v :: c) ↔ sumL g ≤ v ∧ GroupsFit gs c := Iff.rfl

theorem GroupsFit.length_eq : ∀ {gs : List (List Nat)} {c : List Nat}, GroupsFit gs c → gs.length = c.length
  | [], [], _ => rfl
  | [], _ :: _, h => h.elim
  | _ :: _, [], h => h.elim
  | _ :: _, _ :: _, h => by simp [GroupsFit.length_eq h.2]

theorem SDom.perm_right {c S S' : List Nat} (h : SDom c S) (hp : S.Perm S') : SDom c S' := by
  obtain ⟨gs, h1, h2⟩ := h
  exact ⟨gs, h1, h2.trans hp⟩

theorem sdom_nil_left {S : List Nat} : SDom [] S ↔ S = [] := by
  constructor
  · rintro ⟨gs, h1, h2⟩
    rw [groupsFit_nil_right.1 h1] at h2
    exact h2.symm.eq_nil
  · rintro rfl; exact ⟨[], trivial, List.Perm.refl _⟩

theorem sumL_erase {l : List Nat} {v : Nat} (h : v ∈ l) : sumL (l.erase v) + v = sumL l := by
  have := sumL_perm (List.perm_cons_erase h)
  simp only [sumL] at this
  omega

/-- replace the item `v` of some group by a whole group `G` that is not heavier -/
theorem groupsFit_subst {G : List Nat} {v : Nat} (hG : sumL G ≤ v) :
    ∀ {gs : List (List Nat)} {c : List Nat}, GroupsFit gs c → v ∈ gs.flatten →
      ∃ gs', GroupsFit gs' c ∧ gs'.flatten.Perm (gs.flatten.erase v ++ G)
  | [], _, _, hv => by simp at hv
  | _ :: _, [], h, _ => h.elim
  | g :: gs, w :: c, h, hv => by
    by_cases hg : v ∈ g
    · refine ⟨(g.erase v ++ G) :: gs, ⟨?_, h.2⟩, ?_⟩
      · have := sumL_erase hg
        have := h.1
        rw [Fit.sumL_append]; omega
      · simp only [List.flatten_cons]
        rw [List.erase_append_left _ hg]
        simp only [List.append_assoc]
        exact List.Perm.append_left _ List.perm_append_comm
    · have hv' : v ∈ gs.flatten := by
        simp only [List.flatten_cons, List.mem_append] at hv
        exact hv.resolve_left hg
      obtain ⟨gs', h1, h2⟩ := groupsFit_subst hG h.2 hv'
      refine ⟨g :: gs', ⟨h.1, h1⟩, ?_⟩
      simp only [List.flatten_cons]
      rw [List.erase_append_right _ hg, List.append_assoc]
      exact List.Perm.append_left _ h2

theorem SDom.subst {c S G : List Nat} {v : Nat} (h : SDom c S) (hv : v ∈ S) (hG : sumL G ≤ v) :
    SDom c (S.erase v ++ G) := by
  obtain ⟨gs, h1, h2⟩ := h
  obtain ⟨gs', h3, h4⟩ := groupsFit_subst hG h1 (h2.mem_iff.2 hv)
  exact ⟨gs', h3, h4.trans ((h2.erase v).append_right G)⟩

theorem sumL_eq_zero_of_pos : ∀ {l : List Nat}, (∀ v ∈ l, 0 < v) → sumL l = 0 → l = []
  | [], _, _ => rfl
  | a :: l, hpos, h => by
    have := hpos a List.mem_cons_self
    simp only [sumL] at h; omega

/-- **The exchange argument.**  If the completion `c` dominates the completion `S`, and the items left over after
    `S` fit into the slots `caps`, then so do the items left over after `c`. -/
theorem sdom_exchange {caps : List Nat} : ∀ {c S R T : List Nat}, SDom c S → SDom caps R →
    (c ++ T).Perm (S ++ R) → (∀ v ∈ S, 0 < v) → SDom caps T
  | [], S, R, T, hcS, hR, hp, _ => by
    rw [sdom_nil_left.1 hcS] at hp
    exact hR.perm_right hp.symm
  | v :: c, S, R, T, hcS, hR, hp, hpos => by
    obtain ⟨gs, hgs, hflat⟩ := hcS
    match gs, hgs with
    | G :: gs, hgs =>
    obtain ⟨hGv, hgs⟩ := hgs
    simp only [List.flatten_cons] at hflat
    have hposG : ∀ w ∈ G, 0 < w := fun w hw => hpos w (hflat.subset (List.mem_append_left _ hw))
    have hpos0 : ∀ w ∈ gs.flatten, 0 < w := fun w hw => hpos w (hflat.subset (List.mem_append_right _ hw))
    have hvmem : v ∈ S ++ R := hp.subset (by simp)
    -- it suffices to exhibit `S0`, `R'` with `SDom c S0`, `SDom caps R'`, `S ++ R ~ v :: (S0 ++ R')`
    suffices hsuff : ∃ S0 R', SDom c S0 ∧ SDom caps R' ∧ (S ++ R).Perm (v :: (S0 ++ R')) ∧ (∀ w ∈ S0, 0 < w) by
      obtain ⟨S0, R', h1, h2, h3, h4⟩ := hsuff
      have hp' : (c ++ T).Perm (S0 ++ R') := by
        have := hp.trans h3
        simpa using this
      exact sdom_exchange h1 h2 hp' h4
    by_cases hvG : v ∈ G
    · -- `G = [v]`
      have hG' : G.erase v = [] := by
        apply sumL_eq_zero_of_pos (fun w hw => hposG w (List.erase_subset hw))
        have := sumL_erase hvG; omega
      have hGp : G.Perm [v] := by
        have := List.perm_cons_erase hvG
        rwa [hG'] at this
      refine ⟨gs.flatten, R, ⟨gs, hgs, List.Perm.refl _⟩, hR, ?_, hpos0⟩
      have : (S ++ R).Perm ((G ++ gs.flatten) ++ R) := hflat.symm.append_right R
      refine this.trans ?_
      rw [List.append_assoc]
      exact (hGp.append_right _)
    · by_cases hv0 : v ∈ gs.flatten
      · -- `v` sits in another group: swap it with `G`
        obtain ⟨gs', h1, h2⟩ := groupsFit_subst hGv hgs hv0
        refine ⟨gs'.flatten, R, ⟨gs', h1, List.Perm.refl _⟩, hR, ?_, ?_⟩
        · have e1 : (S ++ R).Perm ((G ++ gs.flatten) ++ R) := hflat.symm.append_right R
          refine e1.trans ?_
          have e2 : (G ++ gs.flatten).Perm (v :: gs'.flatten) := by
            have := (List.perm_cons_erase hv0)
            refine (this.append_left G).trans ?_
            refine List.perm_middle.trans ?_
            exact (List.perm_append_comm.trans h2.symm).cons v
          exact (e2.append_right R)
        · intro w hw
          rcases List.mem_append.1 (h2.subset hw) with hw | hw
          · exact hpos0 w (List.erase_subset hw)
          · exact hposG w hw
      · -- `v` is one of the left-over items: put `G` in its place
        have hvR : v ∈ R := by
          rcases List.mem_append.1 hvmem with h | h
          · rcases List.mem_append.1 (hflat.symm.subset h) with h | h
            · exact absurd h hvG
            · exact absurd h hv0
          · exact h
        refine ⟨gs.flatten, R.erase v ++ G, ⟨gs, hgs, List.Perm.refl _⟩, hR.subst hvR hGv, ?_, hpos0⟩
        have e1 : (S ++ R).Perm ((G ++ gs.flatten) ++ R) := hflat.symm.append_right R
        refine e1.trans ?_
        have e2 : R.Perm (v :: R.erase v) := List.perm_cons_erase hvR
        refine (e2.append_left _).trans ?_
        refine List.perm_middle.trans (List.Perm.cons v ?_)
        rw [List.append_assoc]
        refine List.perm_append_comm.trans ?_
        rw [List.append_assoc]


theorem sdom_cons {v : Nat} {c S : List Nat} :
    SDom (v :: c) S ↔ ∃ G S0, sumL G ≤ v ∧ SDom c S0 ∧ (G ++ S0).Perm S := by
  constructor
  · rintro ⟨gs, h1, h2⟩
    match gs, h1 with
    | G :: gs, h1 => exact ⟨G, gs.flatten, h1.1, ⟨gs, h1.2, List.Perm.refl _⟩, by simpa using h2⟩
  · rintro ⟨G, S0, h1, ⟨gs, h2, h3⟩, h4⟩
    exact ⟨G :: gs, ⟨h1, h2⟩, by simpa using (h3.append_left G).trans h4⟩

/-- a sub-list is dominated (every item gets the slot of its own) -/
theorem sdom_of_sublist : ∀ {S c : List Nat}, S.Sublist c → SDom c S
  | _, _, .slnil => ⟨[], trivial, List.Perm.refl _⟩
  | _, _, .cons a h => sdom_cons.2 ⟨[], _, Nat.zero_le _, sdom_of_sublist h, List.Perm.refl _⟩
  | _, _, .cons_cons a h =>
    sdom_cons.2 ⟨[a], _, by simp [sumL], sdom_of_sublist h, List.Perm.refl _⟩

theorem sdom_of_subperm {S c : List Nat} (h : List.Subperm S c) : SDom c S := by
  obtain ⟨l, hl, hs⟩ := h
  exact (sdom_of_sublist hs).perm_right hl

theorem sdom_refl (c : List Nat) : SDom c c := sdom_of_sublist (List.Sublist.refl c)

theorem sdom_nil_right (c : List Nat) : SDom c [] := sdom_of_sublist (List.nil_sublist c)

/-- the slots may be listed in any order -/
theorem SDom.perm_left {c c' S : List Nat} (hp : c.Perm c') : SDom c S → SDom c' S := by
  induction hp generalizing S with
  | nil => exact id
  | cons v _ ih =>
    intro h
    obtain ⟨G, S0, h1, h2, h3⟩ := sdom_cons.1 h
    exact sdom_cons.2 ⟨G, S0, h1, ih h2, h3⟩
  | swap a b l =>
    intro h
    obtain ⟨G, S0, h1, h2, h3⟩ := sdom_cons.1 h
    obtain ⟨G', S1, h4, h5, h6⟩ := sdom_cons.1 h2
    refine sdom_cons.2 ⟨G', G ++ S1, h4, sdom_cons.2 ⟨G, S1, h1, h5, List.Perm.refl _⟩, ?_⟩
    refine List.Perm.trans ?_ h3
    refine List.Perm.trans ?_ (h6.append_left G)
    rw [← List.append_assoc, ← List.append_assoc]
    exact List.perm_append_comm.append_right S1
  | trans _ _ ih1 ih2 => exact fun h => ih2 (ih1 h)

/-- slots can be split -/
theorem sdom_append {c1 c2 S : List Nat} :
    SDom (c1 ++ c2) S ↔ ∃ S1 S2, SDom c1 S1 ∧ SDom c2 S2 ∧ (S1 ++ S2).Perm S := by
  induction c1 generalizing S with
  | nil =>
    constructor
    · intro h; exact ⟨[], S, sdom_nil_left.2 rfl, h, List.Perm.refl _⟩
    · rintro ⟨S1, S2, h1, h2, h3⟩
      rw [sdom_nil_left.1 h1] at h3
      exact h2.perm_right h3
  | cons v c1 ih =>
    constructor
    · intro h
      obtain ⟨G, S0, h1, h2, h3⟩ := sdom_cons.1 h
      obtain ⟨S1, S2, h4, h5, h6⟩ := ih.1 h2
      refine ⟨G ++ S1, S2, sdom_cons.2 ⟨G, S1, h1, h4, List.Perm.refl _⟩, h5, ?_⟩
      rw [List.append_assoc]
      exact (h6.append_left G).trans h3
    · rintro ⟨S1, S2, h1, h2, h3⟩
      obtain ⟨G, S0, h4, h5, h6⟩ := sdom_cons.1 h1
      refine sdom_cons.2 ⟨G, S0 ++ S2, h4, ih.2 ⟨S0, S2, h5, h2, List.Perm.refl _⟩, ?_⟩
      rw [← List.append_assoc]
      exact (h6.append_right S2).trans h3

theorem SDom.sum_le : ∀ {c S : List Nat}, SDom c S → sumL S ≤ sumL c
  | [], S, h => by rw [sdom_nil_left.1 h]; exact Nat.le_refl _
  | v :: c, S, h => by
    obtain ⟨G, S0, h1, h2, h3⟩ := sdom_cons.1 h
    have := SDom.sum_le h2
    rw [← sumL_perm h3, Fit.sumL_append]
    simp only [sumL]; omega

/-- dominance is transitive -/
theorem SDom.trans : ∀ {a b c : List Nat}, SDom a b → SDom b c → SDom a c
  | [], b, c, hab, hbc => by
    rw [sdom_nil_left.1 hab] at hbc
    rw [sdom_nil_left.1 hbc]; exact sdom_nil_left.2 rfl
  | v :: a, b, c, hab, hbc => by
    obtain ⟨G, b0, h1, h2, h3⟩ := sdom_cons.1 hab
    obtain ⟨c1, c2, h4, h5, h6⟩ := sdom_append.1 (hbc.perm_left h3.symm)
    refine sdom_cons.2 ⟨c1, c2, ?_, SDom.trans h2 h5, h6⟩
    exact Nat.le_trans h4.sum_le h1


/-- non-increasing -/
abbrev Desc (l : List Nat) : Prop := l.Pairwise (fun a b => b ≤ a)

theorem sortDesc_desc (l : List Nat) : Desc (sortDesc id l) := Part.sortDesc_sorted id l

theorem desc_eq_of_perm {l₁ l₂ : List Nat} (h₁ : Desc l₁) (h₂ : Desc l₂) (hp : l₁.Perm l₂) : l₁ = l₂ :=
  List.Perm.eq_of_pairwise (fun _ _ _ _ h1 h2 => Nat.le_antisymm h2 h1) h₁ h₂ hp

theorem sublist_of_subperm_desc {l₁ l₂ : List Nat} (hp : List.Subperm l₁ l₂) (h₁ : Desc l₁) (h₂ : Desc l₂) :
    l₁.Sublist l₂ := by
  obtain ⟨l, h, h'⟩ := hp
  rw [← desc_eq_of_perm (h₂.sublist h') h₁ h]
  exact h'

/-- when the sums agree, the dominating list is not longer, and of the same length only if it is the same
    multiset -/
theorem SDom.tight : ∀ {a b : List Nat}, SDom a b → (∀ v ∈ a, 0 < v) → sumL b = sumL a →
    a.length ≤ b.length ∧ (a.length = b.length → a.Perm b)
  | [], b, h, _, _ => by rw [sdom_nil_left.1 h]; exact ⟨Nat.le_refl _, fun _ => List.Perm.refl _⟩
  | v :: a, b, h, hpos, hsum => by
    obtain ⟨G, b0, h1, h2, h3⟩ := sdom_cons.1 h
    have hv := hpos v List.mem_cons_self
    have hle := h2.sum_le
    rw [← sumL_perm h3, Fit.sumL_append] at hsum
    simp only [sumL] at hsum
    have hG : sumL G = v := by omega
    obtain ⟨ih1, ih2⟩ := SDom.tight h2 (fun w hw => hpos w (List.mem_cons_of_mem _ hw)) (by omega)
    have hlen : b.length = G.length + b0.length := by rw [← h3.length_eq, List.length_append]
    have hGne : 1 ≤ G.length := by
      cases G with
      | nil => simp only [sumL] at hG; omega
      | cons _ _ => simp
    refine ⟨by simp only [List.length_cons]; omega, ?_⟩
    intro heq
    simp only [List.length_cons] at heq
    have hG1 : G.length = 1 := by omega
    match G, hG1, hG with
    | [w], _, hG =>
      simp only [sumL] at hG
      have : w = v := by omega
      subst this
      exact ((ih2 (by omega)).cons w).trans h3


/-! ### 9. optimality: the dominance test implies semantic dominance; `found` and `checkDom` are complete -/

theorem groupsFit_of_fits : ∀ {gs : List (List Nat)} {l1 : List Nat}, gs.length = l1.length →
    BC.fits l1 (gs.map sumL) = true → GroupsFit gs l1
  | [], [], _, _ => trivial
  | [], _ :: _, h, _ => by simp at h
  | _ :: _, [], h, _ => by simp at h
  | g :: gs, v :: l1, h, hf => by
    simp only [BC.fits, List.map_cons, List.zip_cons_cons, List.all_cons, Bool.and_eq_true,
      decide_eq_true_eq] at hf
    exact ⟨hf.1, groupsFit_of_fits (by simpa using h) hf.2⟩

/-- an arrangement by slot numbers yields an arrangement by groups -/
theorem sdom_of_locs {l1 l2 locs : List Nat} (h1 : locs.length = l2.length) (h2 : ∀ i ∈ locs, i < l1.length)
    (h3 : BC.fits l1 (BC.slotTotals l1.length l2 locs) = true) : SDom l1 l2 := by
  obtain ⟨e1, e2, e3, e4⟩ := Oracle.replay_spec id l2 locs (Bins.new l1.length) h1
    (by simpa [Bins.new] using h2) (by simp [Bins.new, binSum, sumL])
  generalize (List.foldl (fun b (p : Nat × Nat) => Bins.add id b p.fst p.snd) (Bins.new l1.length)
    (l2.zip locs)) = b' at e1 e2 e3 e4
  simp only [Bins.new, List.length_replicate, List.flatten_replicate_nil, List.nil_append,
    List.map_id] at e1 e2 e4
  rw [slotTotals_eq_sumsOf, Oracle.sumsOf_eq, ← e4, e3] at h3
  refine ⟨_, groupsFit_of_fits e1 ?_, e2⟩
  have : binSum id = sumL := funext binSum_id
  rwa [this] at h3

/-- `is_dominant(l1, l2)` implies semantic dominance -/
theorem isDom_sdom {l1 l2 : List Nat} (h : BC.isDom l1 l2 = true) : SDom l1 l2 := by
  obtain ⟨locs, h1, h2, h3⟩ := isDom_sound h
  exact sdom_of_locs h1 h2 h3

example : SDom [8, 5] [4, 4, 3] := isDom_sdom (by decide)


/-- the list `found_completions` of `find_bin_completions`, before deduplication and the dominance filter -/
def found (x B : Nat) (items : List Nat) (y : Nat) : List (List Nat) :=
  [y] :: (List.range (items.length + 1)).flatMap fun r =>
    (BC.combs r items).flatMap fun fc => BC.contrib x y B items fc

theorem completions_eq {x B : Nat} {items : List Nat} {y : Nat}
    (hy : items.find? (fun i => decide (x + i ≤ B)) = some y) (hy0 : y ≠ 0) :
    BC.completions x items B = BC.checkDom (BC.uniq (sortDesc sumL (found x B items y))) := by
  have hne : items.isEmpty = false := by
    cases items with
    | nil => simp at hy
    | cons _ _ => rfl
  unfold BC.completions
  simp only [hne, Bool.false_eq_true, if_false, hy, Option.getD_some, if_neg hy0, found]

theorem completions_eq_nil {x B : Nat} {items : List Nat}
    (hy : items.find? (fun i => decide (x + i ≤ B)) = none) : BC.completions x items B = [] := by
  unfold BC.completions
  simp [hy]

/-- every feasible non-empty completion `S` is dominated by a member of `found` -/
theorem found_complete {x B : Nat} {items S : List Nat} (y : Nat) (hd : Desc items)
    (hS : List.Subperm S items) (hne : S ≠ []) (hfit : x + sumL S ≤ B) :
    ∃ c ∈ found x B items y, SDom c S := by
  have hperm := Fit.sortDesc_perm id S
  have hsub : (sortDesc id S).Sublist items :=
    sublist_of_subperm_desc ((hperm.subperm_right).2 hS) (sortDesc_desc S) hd
  have hfc := combs_complete hsub
  have hlen : (sortDesc id S).length < items.length + 1 := Nat.lt_succ_of_le hsub.length_le
  have hsum : sumL (sortDesc id S) = sumL S := sumL_perm hperm
  have hfcne : (sortDesc id S).isEmpty = false := by
    cases h : sortDesc id S with
    | nil => rw [h] at hperm; exact absurd hperm.symm.eq_nil hne
    | cons _ _ => rfl
  have key : ∃ c ∈ BC.contrib x y B items (sortDesc id S), SDom c S := by
    unfold BC.contrib
    rw [if_neg (by omega)]
    dsimp only
    cases hup : BC.undPairs (x + sumL (sortDesc id S)) y (BC.lwi items (sortDesc id S)) B with
    | nil =>
      simp only [List.isEmpty_nil, Bool.not_true, Bool.false_eq_true, if_false, hfcne, Bool.not_false,
        if_true, List.mem_singleton, exists_eq_left]
      exact sdom_of_subperm hperm.symm.subperm
    | cons p up =>
      refine ⟨sortDesc id (p ++ sortDesc id S), by simp, ?_⟩
      apply sdom_of_subperm
      refine (List.Perm.subperm_left (Fit.sortDesc_perm id _)).2 ?_
      exact hperm.symm.subperm.trans (List.sublist_append_right _ _).subperm
  obtain ⟨c, hc, hdom⟩ := key
  refine ⟨c, ?_, hdom⟩
  unfold found
  refine List.mem_cons_of_mem _ ?_
  simp only [List.mem_flatMap, List.mem_range]
  exact ⟨_, hlen, _, hfc, hc⟩

/-- all members of `found` are non-increasing lists -/
theorem found_desc {x B : Nat} {items c : List Nat} {y : Nat} (hd : Desc items)
    (hc : c ∈ found x B items y) : Desc c := by
  unfold found at hc
  rcases List.mem_cons.1 hc with rfl | hc
  · simp [Desc]
  · simp only [List.mem_flatMap, List.mem_range] at hc
    obtain ⟨r, _, fc, hfc, hc⟩ := hc
    unfold BC.contrib at hc
    split at hc
    · cases hc
    · dsimp only at hc
      split at hc
      · simp only [List.mem_append, or_self, List.mem_map] at hc
        obtain ⟨p, _, rfl⟩ := hc
        exact sortDesc_desc _
      · split at hc
        · rw [List.mem_singleton] at hc
          rw [hc]
          exact hd.sublist (combs_sublist r items fc hfc).1
        · cases hc


section uniq
variable {β : Type} [BEq β] [LawfulBEq β]

theorem uniq_aux : ∀ (l out : List β), out.Nodup →
    (l.foldl (fun out e => if out.contains e then out else out ++ [e]) out).Nodup ∧
    ∀ e, (e ∈ out ∨ e ∈ l) → e ∈ l.foldl (fun out e => if out.contains e then out else out ++ [e]) out
  | [], out, h => ⟨h, fun e he => he.resolve_right (by simp)⟩
  | a :: l, out, h => by
    rw [List.foldl_cons]
    by_cases ha : out.contains a = true
    · rw [if_pos ha]
      obtain ⟨h1, h2⟩ := uniq_aux l out h
      refine ⟨h1, fun e he => h2 e ?_⟩
      rcases he with he | he
      · exact Or.inl he
      · rcases List.mem_cons.1 he with rfl | he
        · exact Or.inl (by simpa using ha)
        · exact Or.inr he
    · rw [if_neg ha]
      have ha' : a ∉ out := by simpa using ha
      obtain ⟨h1, h2⟩ := uniq_aux l (out ++ [a]) (by
        rw [List.nodup_append]
        exact ⟨h, by simp, fun x hx y hy => by
          rw [List.mem_singleton] at hy; subst hy; exact fun e => ha' (e ▸ hx)⟩)
      refine ⟨h1, fun e he => h2 e ?_⟩
      rcases he with he | he
      · exact Or.inl (List.mem_append_left _ he)
      · rcases List.mem_cons.1 he with rfl | he
        · exact Or.inl (by simp)
        · exact Or.inr he

theorem uniq_nodup (l : List β) : (BC.uniq l).Nodup := (uniq_aux l [] List.nodup_nil).1

theorem mem_uniq_iff {e : β} {l : List β} : e ∈ BC.uniq l ↔ e ∈ l :=
  ⟨mem_uniq, fun h => (uniq_aux l [] List.nodup_nil).2 e (Or.inr h)⟩

/-- what `list_without_items` keeps -/
theorem mem_lwi_of_not_mem {e : β} : ∀ {rem l : List β}, e ∈ l → e ∉ rem → e ∈ BC.lwi l rem
  | [], _, h, _ => h
  | r :: rem, l, h, hn => by
    rw [lwi_cons]
    refine mem_lwi_of_not_mem ?_ (fun h' => hn (List.mem_cons_of_mem _ h'))
    exact (List.mem_erase_of_ne (fun e' => hn (by subst e'; exact List.mem_cons_self))).2 h

end uniq

/-! the dominance filter -/

/-- what the loops of `check_for_dominance` guarantee about every entry of `dominated` -/
def DomOk (comps dom : List (List Nat)) : Prop :=
  ∀ b ∈ dom, ∃ a ∈ comps, a ≠ b ∧ BC.isDom a b = true

theorem domInner_ok {comps : List (List Nat)} {a : List Nat} (ha : a ∈ comps) :
    ∀ (rest dom : List (List Nat)), (∀ b ∈ rest, b ∈ comps) → a ∉ rest → DomOk comps dom →
      DomOk comps (BC.domInner a rest dom)
  | [], dom, _, _, h => h
  | b :: rest, dom, hsub, hna, h => by
    have hab : a ≠ b := fun e => hna (e ▸ List.mem_cons_self)
    have hsub' : ∀ b' ∈ rest, b' ∈ comps := fun b' hb' => hsub b' (List.mem_cons_of_mem _ hb')
    have hna' : a ∉ rest := fun h' => hna (List.mem_cons_of_mem _ h')
    rw [BC.domInner]
    split
    · exact domInner_ok ha rest dom hsub' hna' h
    · split
      · rename_i hd
        refine domInner_ok ha rest _ hsub' hna' ?_
        intro c hc
        rcases List.mem_append.1 hc with hc | hc
        · exact h c hc
        · rw [List.mem_singleton] at hc
          subst hc
          exact ⟨a, ha, hab, hd⟩
      · split
        · rename_i hd
          intro c hc
          rcases List.mem_append.1 hc with hc | hc
          · exact h c hc
          · rw [List.mem_singleton] at hc
            subst hc
            exact ⟨b, hsub b List.mem_cons_self, fun e => hab e.symm, hd⟩
        · exact domInner_ok ha rest dom hsub' hna' h

theorem domOuter_ok {comps : List (List Nat)} : ∀ (l dom : List (List Nat)), (∀ b ∈ l, b ∈ comps) →
    l.Nodup → DomOk comps dom → DomOk comps (BC.domOuter l dom)
  | [], dom, _, _, h => by simpa [BC.domOuter] using h
  | [_], dom, _, _, h => by simpa [BC.domOuter] using h
  | a :: b :: rest, dom, hsub, hnd, h => by
    simp only [BC.domOuter]
    have hsub' : ∀ c ∈ b :: rest, c ∈ comps := fun c hc => hsub c (List.mem_cons_of_mem _ hc)
    have hnd' := (List.nodup_cons.1 hnd)
    split
    · exact domOuter_ok (b :: rest) dom hsub' hnd'.2 h
    · exact domOuter_ok (b :: rest) _ hsub' hnd'.2
        (domInner_ok (hsub a List.mem_cons_self) (b :: rest) dom hsub' hnd'.1 h)

/-- **`check_for_dominance` is complete**: every completion it drops is dominated by one it keeps -/
theorem checkDom_complete {comps : List (List Nat)} {M : Nat} (hnd : comps.Nodup)
    (hgood : ∀ c ∈ comps, Desc c ∧ (∀ v ∈ c, 0 < v) ∧ sumL c ≤ M) (c : List Nat) (hc : c ∈ comps) :
    ∃ c' ∈ BC.checkDom comps, SDom c' c := by
  by_cases hlen : comps.length ≤ 1
  · exact ⟨c, by unfold BC.checkDom; rw [if_pos hlen]; exact hc, sdom_refl c⟩
  · have hok : DomOk comps (BC.domOuter comps []) :=
      domOuter_ok comps [] (fun _ h => h) hnd (fun _ h => by cases h)
    by_cases hcd : c ∈ BC.domOuter comps []
    · obtain ⟨a, ha, hne, hdom⟩ := hok c hcd
      have hs := isDom_sdom hdom
      have hle := hs.sum_le
      obtain ⟨ga1, ga2, ga3⟩ := hgood a ha
      obtain ⟨gc1, gc2, gc3⟩ := hgood c hc
      have hdec : sumL c < sumL a ∨ (sumL c = sumL a ∧ a.length < c.length) := by
        by_cases heq : sumL c = sumL a
        · right
          obtain ⟨t1, t2⟩ := hs.tight ga2 heq
          refine ⟨heq, Nat.lt_of_le_of_ne t1 ?_⟩
          intro hl
          exact hne (desc_eq_of_perm ga1 gc1 (t2 hl))
        · left; omega
      obtain ⟨c', hc', hdom'⟩ := checkDom_complete hnd hgood a ha
      exact ⟨c', hc', hdom'.trans hs⟩
    · refine ⟨c, ?_, sdom_refl c⟩
      unfold BC.checkDom
      rw [if_neg hlen]
      exact (Fit.sortDesc_perm _ _).mem_iff.2 (mem_lwi_of_not_mem hc hcd)
termination_by (M - sumL c, c.length)
decreasing_by
  have := (hgood a ha).2.2
  have := (hgood c hc).2.2
  rcases hdec with h | ⟨h1, h2⟩
  · exact Prod.Lex.left _ _ (by omega)
  · rw [h1]; exact Prod.Lex.right _ h2


/-! ### 10. optimality: some offered completion leads to an optimal continuation -/

theorem le_sumL_of_mem : ∀ {l : List Nat} {v : Nat}, v ∈ l → v ≤ sumL l
  | a :: l, v, h => by
    rcases List.mem_cons.1 h with rfl | h
    · simp only [sumL]; omega
    · have := le_sumL_of_mem h
      simp only [sumL]; omega

theorem found_spec {x B : Nat} {items c : List Nat} {y : Nat}
    (hy : items.find? (fun i => decide (x + i ≤ B)) = some y) (hc : c ∈ found x B items y) :
    IsCompletion x B items c := by
  unfold found at hc
  rcases List.mem_cons.1 hc with rfl | hc
  · have hmem := List.mem_of_find?_eq_some hy
    have hfit := List.find?_some hy
    simp only [decide_eq_true_eq] at hfit
    exact ⟨List.singleton_subperm_iff.2 hmem, by simp only [sumL]; omega⟩
  · simp only [List.mem_flatMap] at hc
    obtain ⟨r, _, fc, hfc, hc⟩ := hc
    exact contrib_spec (combs_sublist r items fc hfc).1 hc

/-- **Completeness of `find_bin_completions`** (on non-increasing positive items): whatever feasible set `S`
    of remaining items shares the bin with `x`, some offered completion dominates it; and if nothing is
    offered, nothing fits. -/
theorem completions_complete {x B : Nat} {items S : List Nat} (hd : Desc items) (hpos : ∀ v ∈ items, 0 < v)
    (hS : List.Subperm S items) (hfit : x + sumL S ≤ B) :
    (BC.completions x items B = [] ∧ S = []) ∨ ∃ c ∈ BC.completions x items B, SDom c S := by
  cases hy : items.find? (fun i => decide (x + i ≤ B)) with
  | none =>
    left
    refine ⟨completions_eq_nil hy, ?_⟩
    cases S with
    | nil => rfl
    | cons s S =>
      exfalso
      have hs : s ∈ items := hS.subset List.mem_cons_self
      have := List.find?_eq_none.1 hy s hs
      simp only [decide_eq_true_eq] at this
      simp only [sumL] at hfit
      omega
  | some y =>
    right
    have hymem := List.mem_of_find?_eq_some hy
    have hy0 : y ≠ 0 := by have := hpos y hymem; omega
    rw [completions_eq hy hy0]
    have hmem : ∀ c, c ∈ BC.uniq (sortDesc sumL (found x B items y)) ↔ c ∈ found x B items y :=
      fun c => mem_uniq_iff.trans (Fit.sortDesc_perm _ _).mem_iff
    have hgood : ∀ c ∈ BC.uniq (sortDesc sumL (found x B items y)),
        Desc c ∧ (∀ v ∈ c, 0 < v) ∧ sumL c ≤ B := by
      intro c hc
      have hc' := (hmem c).1 hc
      obtain ⟨h1, h2⟩ := found_spec hy hc'
      exact ⟨found_desc hd hc', fun v hv => hpos v (h1.subset hv), by omega⟩
    have hcomp := checkDom_complete (uniq_nodup _) hgood
    by_cases hne : S = []
    · subst hne
      obtain ⟨c', hc', _⟩ := hcomp [y] ((hmem _).2 (by simp [found]))
      exact ⟨c', hc', sdom_nil_right c'⟩
    · obtain ⟨c, hc, hcS⟩ := found_complete y hd hS hne hfit
      obtain ⟨c', hc', hc'c⟩ := hcomp c ((hmem c).2 hc)
      exact ⟨c', hc', hc'c.trans hcS⟩

/-- `R` can be packed into `n` bins of capacity `B` -/
abbrev Packs (B n : Nat) (R : List Nat) : Prop := SDom (List.replicate n B) R

/-- take out the bin that holds `x` -/
theorem extract_bin {B x : Nat} : ∀ (m : Nat) (T : List Nat), Packs B m T → x ∈ T →
    ∃ S R, 1 ≤ m ∧ T.Perm (x :: (S ++ R)) ∧ x + sumL S ≤ B ∧ Packs B (m - 1) R
  | 0, T, h, hx => by
    rw [Packs, List.replicate_zero, sdom_nil_left] at h
    subst h; cases hx
  | m + 1, T, h, hx => by
    rw [Packs, List.replicate_succ] at h
    obtain ⟨G, S0, h1, h2, h3⟩ := sdom_cons.1 h
    rcases List.mem_append.1 (h3.symm.subset hx) with hG | hS0
    · refine ⟨G.erase x, S0, by omega, ?_, ?_, h2⟩
      · exact h3.symm.trans ((List.perm_cons_erase hG).append_right S0)
      · have := sumL_erase hG; omega
    · obtain ⟨S, R', hm, e1, e2, e3⟩ := extract_bin m S0 h2 hS0
      refine ⟨S, G ++ R', by omega, ?_, e2, ?_⟩
      · refine h3.symm.trans ((e1.append_left G).trans ?_)
        refine List.perm_middle.trans (List.Perm.cons x ?_)
        rw [← List.append_assoc, ← List.append_assoc]
        exact List.perm_append_comm.append_right R'
      · show SDom (List.replicate (m + 1 - 1) B) (G ++ R')
        have : m + 1 - 1 = (m - 1) + 1 := by omega
        rw [this, List.replicate_succ]
        exact sdom_cons.2 ⟨G, R', h1, e3, List.Perm.refl _⟩

/-- **One step of bin completion loses nothing**: if `x :: upd` fits into `m` bins then either no completion
    is offered and `upd` fits into `m - 1` bins, or for some offered completion `c` the rest
    `lwi upd c` fits into `m - 1` bins. -/
theorem step_complete {B x m : Nat} {upd : List Nat} (hd : Desc upd) (hpos : ∀ v ∈ upd, 0 < v)
    (h : Packs B m (x :: upd)) :
    1 ≤ m ∧ ((BC.completions x upd B = [] ∧ Packs B (m - 1) upd) ∨
      ∃ c ∈ BC.completions x upd B, Packs B (m - 1) (BC.lwi upd c)) := by
  obtain ⟨S, R, hm, hp, hfit, hR⟩ := extract_bin m (x :: upd) h List.mem_cons_self
  have hp' : upd.Perm (S ++ R) := hp.cons_inv
  have hS : List.Subperm S upd := (List.sublist_append_left S R).subperm.trans hp'.symm.subperm
  refine ⟨hm, ?_⟩
  rcases completions_complete hd hpos hS hfit with ⟨h1, rfl⟩ | ⟨c, hc, hcS⟩
  · exact Or.inl ⟨h1, hR.perm_right (by simpa using hp'.symm)⟩
  · refine Or.inr ⟨c, hc, ?_⟩
    have hcu := (completions_spec hc).1
    exact sdom_exchange hcS hR ((lwi_perm hcu).trans hp') (fun v hv => hpos v (hS.subset hv))


/-! ### 11. optimality: how much fuel suffices -/

theorem length_flatMap_le {β γ : Type} (f : β → List γ) (K : Nat) :
    ∀ (l : List β), (∀ a ∈ l, (f a).length ≤ K) → (l.flatMap f).length ≤ l.length * K
  | [], _ => by simp
  | a :: l, h => by
    have h1 := h a List.mem_cons_self
    have ih := length_flatMap_le f K l (fun b hb => h b (List.mem_cons_of_mem _ hb))
    simp only [List.flatMap_cons, List.length_append, List.length_cons, Nat.add_mul]
    omega

theorem length_combs_le : ∀ (r : Nat) (items : List Nat), (BC.combs r items).length ≤ 2 ^ items.length
  | 0, items => by rw [combs_zero]; exact Nat.one_le_two_pow
  | _ + 1, [] => by simp [BC.combs]
  | r + 1, x :: xs => by
    have h1 := length_combs_le r xs
    have h2 := length_combs_le (r + 1) xs
    simp only [BC.combs, List.length_append, List.length_map, List.length_cons, Nat.pow_succ]
    omega

theorem length_undPairsLoop_le (c y B : Nat) (items : List Nat) : ∀ (fuel s e : Nat) (acc : List (List Nat)),
    (BC.undPairsLoop c y B items fuel s e acc).length ≤ acc.length + fuel
  | 0, _, _, acc => by simp [BC.undPairsLoop]
  | fuel + 1, s, e, acc => by
    rw [BC.undPairsLoop]
    split
    · dsimp only
      split
      · have := length_undPairsLoop_le c y B items fuel (s + 1) e acc; omega
      · split
        · have := length_undPairsLoop_le c y B items fuel s (e - 1) acc; omega
        · have := length_undPairsLoop_le c y B items fuel (s + 1) (e - 1)
            ([items.getD s 0, items.getD e 0] :: acc)
          simp only [List.length_cons] at this; omega
    · simp

theorem length_undPairs_le (c y B : Nat) (items : List Nat) : (BC.undPairs c y items B).length ≤ items.length := by
  have := length_undPairsLoop_le c y B items items.length 0 (items.length - 1) []
  simpa [BC.undPairs] using this

theorem length_contrib_le (x y B : Nat) (items fc : List Nat) :
    (BC.contrib x y B items fc).length ≤ 2 * items.length + 1 := by
  unfold BC.contrib
  split
  · simp
  · dsimp only
    have h1 := length_undPairs_le (x + sumL fc) y B (BC.lwi items fc)
    have h2 := (lwi_sublist items fc).length_le
    split
    · simp only [List.length_append, List.length_map]; omega
    · split <;> simp

theorem length_uniq_aux {β : Type} [BEq β] : ∀ (l out : List β),
    (l.foldl (fun out e => if out.contains e then out else out ++ [e]) out).length ≤ out.length + l.length
  | [], out => by simp
  | a :: l, out => by
    rw [List.foldl_cons]
    have := length_uniq_aux l (if out.contains a then out else out ++ [a])
    refine Nat.le_trans this ?_
    split <;> simp <;> omega

theorem length_uniq_le {β : Type} [BEq β] (l : List β) : (BC.uniq l).length ≤ l.length := by
  have := length_uniq_aux l []
  simp only [List.length_nil, Nat.zero_add] at this
  exact this

theorem length_checkDom_le (comps : List (List Nat)) : (BC.checkDom comps).length ≤ comps.length := by
  unfold BC.checkDom
  split
  · exact Nat.le_refl _
  · rw [(Fit.sortDesc_perm _ _).length_eq]
    exact (lwi_sublist _ _).length_le

/-- a bound on the number of completions offered for `n` remaining items -/
def compBound (n : Nat) : Nat := 1 + (n + 1) * (2 ^ n * (2 * n + 1))

theorem length_found_le (x B : Nat) (items : List Nat) (y : Nat) :
    (found x B items y).length ≤ compBound items.length := by
  unfold found compBound
  have h := length_flatMap_le (fun r => (BC.combs r items).flatMap fun fc => BC.contrib x y B items fc)
    (2 ^ items.length * (2 * items.length + 1)) (List.range (items.length + 1)) (by
      intro r _
      refine Nat.le_trans (length_flatMap_le _ (2 * items.length + 1) _
        (fun fc _ => length_contrib_le x y B items fc)) ?_
      exact Nat.mul_le_mul_right _ (length_combs_le r items))
  simp only [List.length_range] at h
  simp only [List.length_cons]
  omega

theorem length_completions_le (x B : Nat) (items : List Nat) :
    (BC.completions x items B).length ≤ compBound items.length := by
  cases hy : items.find? (fun i => decide (x + i ≤ B)) with
  | none => rw [completions_eq_nil hy]; simp
  | some y =>
    by_cases hy0 : y = 0
    · have : BC.completions x items B = [] := by
        unfold BC.completions
        simp [hy, hy0]
      rw [this]; simp
    · rw [completions_eq hy hy0]
      refine Nat.le_trans (length_checkDom_le _) (Nat.le_trans (length_uniq_le _) ?_)
      rw [(Fit.sortDesc_perm _ _).length_eq]
      exact length_found_le x B items y


/-- the number of `search` iterations a branch with `n` remaining items can cause (itself and all its
    descendants) -/
def branchWeight : Nat → Nat
  | 0 => 1
  | n + 1 => (1 + compBound n) * branchWeight n

theorem branchWeight_pos : ∀ n, 1 ≤ branchWeight n
  | 0 => Nat.le_refl _
  | n + 1 => by
    have := branchWeight_pos n
    simp only [branchWeight]
    exact Nat.le_trans this (Nat.le_mul_of_pos_left _ (by omega))

theorem branchWeight_succ_le (n : Nat) : branchWeight n ≤ branchWeight (n + 1) := by
  simp only [branchWeight]
  exact Nat.le_mul_of_pos_left _ (by omega)

theorem branchWeight_mono {n m : Nat} (h : n ≤ m) : branchWeight n ≤ branchWeight m := by
  induction h with
  | refl => exact Nat.le_refl _
  | step _ ih => exact Nat.le_trans ih (branchWeight_succ_le _)

/-- total weight of a queue of branches -/
def queueWeight (q : List BC.Branch) : Nat := sumL (q.map fun b => branchWeight b.items.length)

theorem queueWeight_nil : queueWeight [] = 0 := rfl

theorem queueWeight_cons (b : BC.Branch) (q : List BC.Branch) :
    queueWeight (b :: q) = branchWeight b.items.length + queueWeight q := rfl

theorem queueWeight_append (q₁ q₂ : List BC.Branch) :
    queueWeight (q₁ ++ q₂) = queueWeight q₁ + queueWeight q₂ := by
  simp [queueWeight, Fit.sumL_append]

theorem spawn_weight {B bestLen : Nat} {cb : BC.Branch} {x : Nat} {upd : List Nat} :
    ∀ (others : List (List Nat)) (acc : List BC.Branch),
      queueWeight (others.foldl (fun (acc : List BC.Branch) comp =>
          let ni := BC.lwi upd comp
          let nb := (cb.bins ++ [[x]]).modify cb.idx (· ++ comp)
          if decide (bestLen * B ≤ nb.length * B + sumL ni) then acc else acc ++ [⟨ni, nb, cb.idx + 1⟩]) acc)
        ≤ queueWeight acc + others.length * branchWeight upd.length
  | [], acc => by simp
  | comp :: others, acc => by
    rw [List.foldl_cons]
    refine Nat.le_trans (spawn_weight others _) ?_
    have hw : branchWeight (BC.lwi upd comp).length ≤ branchWeight upd.length :=
      branchWeight_mono (lwi_sublist upd comp).length_le
    simp only [List.length_cons, Nat.add_mul, Nat.one_mul]
    split
    · omega
    · rw [queueWeight_append, queueWeight_cons, queueWeight_nil]
      dsimp only
      omega

/-- processing a branch replaces its weight by strictly less spawned weight -/
theorem runBranch_weight (B bestLen : Nat) : ∀ (fuel : Nat) (cb : BC.Branch) (spawned : List BC.Branch),
    queueWeight (BC.runBranch B bestLen fuel cb spawned).2 + 1 ≤
      queueWeight spawned + branchWeight cb.items.length
  | 0, cb, spawned => by
    have := branchWeight_pos cb.items.length
    simp only [BC.runBranch]; omega
  | fuel + 1, cb, spawned => by
    have hpos := branchWeight_pos cb.items.length
    rw [BC.runBranch]
    split
    · dsimp only; omega
    · rename_i x upd hitems
      have hlen := length_completions_le x B upd
      have hW : branchWeight cb.items.length = (1 + compBound upd.length) * branchWeight upd.length := by
        rw [hitems]; rfl
      rw [hW, Nat.add_mul, Nat.one_mul]
      have hposu := branchWeight_pos upd.length
      dsimp only
      generalize BC.completions x upd B = comps at hlen ⊢
      cases comps with
      | nil =>
        dsimp only
        have hmul : 0 ≤ compBound upd.length * branchWeight upd.length := Nat.zero_le _
        split
        · dsimp only; omega
        · split
          · dsimp only; omega
          · have := runBranch_weight B bestLen fuel ⟨upd, cb.bins ++ [[x]], cb.idx + 1⟩ spawned
            dsimp only at this
            omega
      | cons c0 others =>
        dsimp only
        have hsp := spawn_weight (B := B) (bestLen := bestLen) (cb := cb) (x := x) (upd := upd) others spawned
        simp only [List.length_cons] at hlen
        have hmul : (others.length + 1) * branchWeight upd.length ≤
            compBound upd.length * branchWeight upd.length := Nat.mul_le_mul_right _ hlen
        rw [Nat.add_mul, Nat.one_mul] at hmul
        have hw0 : branchWeight (BC.lwi upd c0).length ≤ branchWeight upd.length :=
          branchWeight_mono (lwi_sublist upd c0).length_le
        dsimp only at hsp
        split
        · dsimp only; omega
        · split
          · dsimp only; omega
          · refine Nat.le_trans (runBranch_weight B bestLen fuel _ _) ?_
            dsimp only
            omega


/-! ### 12. optimality: the search keeps a branch that can still reach the optimum -/

/-- the branch obtained by completing the new bin `[x]` with `comp` -/
abbrev childBranch (cb : BC.Branch) (x : Nat) (upd comp : List Nat) : BC.Branch :=
  ⟨BC.lwi upd comp, (cb.bins ++ [[x]]).modify cb.idx (· ++ comp), cb.idx + 1⟩

/-- the spawn loop of `runBranch` -/
abbrev spawnLoop (B bestLen : Nat) (cb : BC.Branch) (x : Nat) (upd : List Nat) (others : List (List Nat))
    (acc : List BC.Branch) : List BC.Branch :=
  others.foldl (fun (acc : List BC.Branch) comp =>
    let ni := BC.lwi upd comp
    let nb := (cb.bins ++ [[x]]).modify cb.idx (· ++ comp)
    if decide (bestLen * B ≤ nb.length * B + sumL ni) then acc else acc ++ [⟨ni, nb, cb.idx + 1⟩]) acc

theorem spawnLoop_subset {B bestLen : Nat} {cb : BC.Branch} {x : Nat} {upd : List Nat} :
    ∀ (others : List (List Nat)) (acc : List BC.Branch), ∀ b ∈ acc, b ∈ spawnLoop B bestLen cb x upd others acc
  | [], _, b, hb => hb
  | comp :: others, acc, b, hb => by
    show b ∈ spawnLoop B bestLen cb x upd others _
    apply spawnLoop_subset others
    dsimp only
    split
    · exact hb
    · exact List.mem_append_left _ hb

theorem spawnLoop_mem {B bestLen : Nat} {cb : BC.Branch} {x : Nat} {upd : List Nat} {c : List Nat} :
    ∀ (others : List (List Nat)) (acc : List BC.Branch), c ∈ others →
      ¬ bestLen * B ≤ (childBranch cb x upd c).bins.length * B + sumL (childBranch cb x upd c).items →
      childBranch cb x upd c ∈ spawnLoop B bestLen cb x upd others acc
  | comp :: others, acc, hc, hnp => by
    show _ ∈ spawnLoop B bestLen cb x upd others _
    rcases List.mem_cons.1 hc with rfl | hc
    · apply spawnLoop_subset others
      dsimp only
      rw [if_neg (by simpa using hnp)]
      exact List.mem_append_right _ (List.mem_singleton.2 rfl)
    · exact spawnLoop_mem others _ hc hnp

theorem spawnLoop_sub {B bestLen : Nat} {cb : BC.Branch} {x : Nat} {upd L : List Nat} (hupd : upd.Sublist L) :
    ∀ (others : List (List Nat)) (acc : List BC.Branch), (∀ b ∈ acc, b.items.Sublist L) →
      ∀ b ∈ spawnLoop B bestLen cb x upd others acc, b.items.Sublist L
  | [], _, hacc => hacc
  | comp :: others, acc, hacc => by
    show ∀ b ∈ spawnLoop B bestLen cb x upd others _, _
    apply spawnLoop_sub hupd others
    dsimp only
    split
    · exact hacc
    · intro b hb
      rcases List.mem_append.1 hb with hb | hb
      · exact hacc b hb
      · rw [List.mem_singleton] at hb
        subst hb
        exact (lwi_sublist upd comp).trans hupd

/-- everything already spawned stays spawned -/
theorem runBranch_spawned_subset (B bestLen : Nat) : ∀ (fuel : Nat) (cb : BC.Branch) (spawned : List BC.Branch),
    ∀ b ∈ spawned, b ∈ (BC.runBranch B bestLen fuel cb spawned).2
  | 0, _, _, b, hb => hb
  | fuel + 1, cb, spawned, b, hb => by
    rw [BC.runBranch]
    split
    · exact hb
    · rename_i x upd hitems
      dsimp only
      cases BC.completions x upd B with
      | nil =>
        dsimp only
        split
        · exact hb
        · split
          · exact hb
          · exact runBranch_spawned_subset B bestLen fuel _ _ b hb
      | cons c0 others =>
        dsimp only
        have hb' := spawnLoop_subset (B := B) (bestLen := bestLen) (cb := cb) (x := x) (upd := upd)
          others spawned b hb
        split
        · exact hb'
        · split
          · exact hb'
          · exact runBranch_spawned_subset B bestLen fuel _ _ b hb'

/-- the remaining items of every branch are a sub-list of the sorted input -/
theorem runBranch_sub {L : List Nat} (B bestLen : Nat) : ∀ (fuel : Nat) (cb : BC.Branch)
    (spawned : List BC.Branch), cb.items.Sublist L → (∀ b ∈ spawned, b.items.Sublist L) →
    (BC.runBranch B bestLen fuel cb spawned).1.items.Sublist L ∧
      ∀ b ∈ (BC.runBranch B bestLen fuel cb spawned).2, b.items.Sublist L
  | 0, _, _, h, hs => ⟨h, hs⟩
  | fuel + 1, cb, spawned, h, hs => by
    rw [BC.runBranch]
    split
    · exact ⟨h, hs⟩
    · rename_i x upd hitems
      have hupd : upd.Sublist L := by
        rw [hitems] at h
        exact (List.sublist_cons_self x upd).trans h
      dsimp only
      cases BC.completions x upd B with
      | nil =>
        dsimp only
        split
        · exact ⟨hupd, hs⟩
        · split
          · exact ⟨hupd, hs⟩
          · exact runBranch_sub B bestLen fuel _ _ hupd hs
      | cons c0 others =>
        dsimp only
        have h0 : (BC.lwi upd c0).Sublist L := (lwi_sublist upd c0).trans hupd
        have hs' := spawnLoop_sub (B := B) (bestLen := bestLen) (cb := cb) (x := x) hupd others spawned hs
        split
        · exact ⟨h0, hs'⟩
        · split
          · exact ⟨h0, hs'⟩
          · exact runBranch_sub B bestLen fuel _ _ h0 hs'


/-- the branch can still be finished with at most `k` bins in total -/
def CanFinish (B k : Nat) (cb : BC.Branch) : Prop := ∃ m, cb.bins.length + m ≤ k ∧ Packs B m cb.items

theorem sumL_replicate (m B : Nat) : sumL (List.replicate m B) = m * B := by
  induction m with
  | zero => simp [sumL]
  | succ m ih => simp only [List.replicate_succ, sumL, ih, Nat.succ_mul]; omega

/-- a branch that can reach `k < bestLen` bins is not cut by the bound test -/
theorem canFinish_not_pruned {B k bestLen : Nat} {cb : BC.Branch} (hB : 0 < B) (hk : k < bestLen)
    (h : CanFinish B k cb) : ¬ bestLen * B ≤ cb.bins.length * B + sumL cb.items := by
  obtain ⟨m, hm, hp⟩ := h
  have h1 := hp.sum_le
  rw [sumL_replicate] at h1
  have h2 : (cb.bins.length + m) * B ≤ k * B := Nat.mul_le_mul_right _ hm
  have h3 : (k + 1) * B ≤ bestLen * B := Nat.mul_le_mul_right _ hk
  rw [Nat.add_mul] at h2
  rw [Nat.add_mul, Nat.one_mul] at h3
  omega

theorem CanFinish.bins_le {B k : Nat} {cb : BC.Branch} (h : CanFinish B k cb) : cb.bins.length ≤ k := by
  obtain ⟨m, hm, _⟩ := h; omega

/-- **`runBranch` is complete**: if the branch can be finished with `k < bestLen` bins, then either it is
    finished with at most `k` bins, or one of the spawned branches can be finished with `k` bins. -/
theorem runBranch_complete {B k bestLen : Nat} {L : List Nat} (hB : 0 < B) (hk : k < bestLen)
    (hL : Desc L) (hLpos : ∀ v ∈ L, 0 < v) :
    ∀ (fuel : Nat) (cb : BC.Branch) (spawned : List BC.Branch), cb.items.length ≤ fuel →
      cb.items.Sublist L → CanFinish B k cb →
      ((BC.runBranch B bestLen fuel cb spawned).1.items = [] ∧
        (BC.runBranch B bestLen fuel cb spawned).1.bins.length ≤ k) ∨
      ∃ b ∈ (BC.runBranch B bestLen fuel cb spawned).2, CanFinish B k b
  | 0, cb, spawned, hf, _, hc => by
    left
    simp only [BC.runBranch]
    exact ⟨List.eq_nil_of_length_eq_zero (by omega), hc.bins_le⟩
  | fuel + 1, cb, spawned, hf, hsub, hc => by
    rw [BC.runBranch]
    split
    · rename_i hitems
      exact Or.inl ⟨hitems, hc.bins_le⟩
    · rename_i x upd hitems
      have hupd : upd.Sublist L := by
        rw [hitems] at hsub
        exact (List.sublist_cons_self x upd).trans hsub
      have hfu : upd.length ≤ fuel := by
        rw [hitems] at hf; simpa using hf
      obtain ⟨m, hm, hp⟩ := hc
      rw [hitems] at hp
      obtain ⟨hm1, hstep⟩ := step_complete (hL.sublist hupd) (fun v hv => hLpos v (hupd.subset hv)) hp
      -- what is needed of the continued branch `cb'` and the spawned list `sp`
      have finish : ∀ (cb' : BC.Branch) (sp : List BC.Branch), cb'.items.Sublist upd →
          (CanFinish B k cb' ∨ ∃ b ∈ sp, CanFinish B k b) →
          (((if decide (bestLen * B ≤ cb'.bins.length * B + sumL cb'.items) = true then (cb', sp)
              else if cb'.items.isEmpty = true then (cb', sp)
              else BC.runBranch B bestLen fuel cb' sp).1.items = [] ∧
            (if decide (bestLen * B ≤ cb'.bins.length * B + sumL cb'.items) = true then (cb', sp)
              else if cb'.items.isEmpty = true then (cb', sp)
              else BC.runBranch B bestLen fuel cb' sp).1.bins.length ≤ k) ∨
          ∃ b ∈ (if decide (bestLen * B ≤ cb'.bins.length * B + sumL cb'.items) = true then (cb', sp)
              else if cb'.items.isEmpty = true then (cb', sp)
              else BC.runBranch B bestLen fuel cb' sp).2, CanFinish B k b) := by
        intro cb' sp hsub' hcase
        rcases hcase with hcf | ⟨b, hb, hbf⟩
        · have hnp := canFinish_not_pruned hB hk hcf
          rw [if_neg (by simpa using hnp)]
          split
          · rename_i he
            exact Or.inl ⟨List.isEmpty_iff.1 he, hcf.bins_le⟩
          · exact runBranch_complete hB hk hL hLpos fuel cb' sp
              (Nat.le_trans hsub'.length_le hfu) (hsub'.trans hupd) hcf
        · right
          refine ⟨b, ?_, hbf⟩
          split
          · exact hb
          · split
            · exact hb
            · exact runBranch_spawned_subset B bestLen fuel cb' sp b hb
      dsimp only
      generalize BC.completions x upd B = comps at hstep
      cases comps with
      | nil =>
        dsimp only
        refine finish ⟨upd, cb.bins ++ [[x]], cb.idx + 1⟩ spawned (List.Sublist.refl _) ?_
        left
        rcases hstep with ⟨_, hp'⟩ | ⟨c, hc, _⟩
        · exact ⟨m - 1, by simp only [List.length_append, List.length_cons, List.length_nil]; omega, hp'⟩
        · cases hc
      | cons c0 others =>
        dsimp only
        refine finish (childBranch cb x upd c0) (spawnLoop B bestLen cb x upd others spawned)
          (lwi_sublist upd c0) ?_
        rcases hstep with ⟨h0, _⟩ | ⟨c, hc, hp'⟩
        · cases h0
        · have hcf : CanFinish B k (childBranch cb x upd c) :=
            ⟨m - 1, by
              simp only [List.length_modify, List.length_append, List.length_cons, List.length_nil]; omega,
              hp'⟩
          rcases List.mem_cons.1 hc with rfl | hc
          · exact Or.inl hcf
          · exact Or.inr ⟨_, spawnLoop_mem others spawned hc (canFinish_not_pruned hB hk hcf), hcf⟩


/-- **`search` is complete**: with fuel for the whole queue, if the incumbent is longer than `k` but some queued
    branch can be finished with `k` bins (`k` at least the lower bound), the result has at most `k` bins. -/
theorem search_complete {B k lb : Nat} {L : List Nat} (hB : 0 < B) (hlb : lb ≤ k)
    (hL : Desc L) (hLpos : ∀ v ∈ L, 0 < v) :
    ∀ (fuel : Nat) (queue : List BC.Branch) (best : List (List Nat)),
      (∀ b ∈ queue, b.items.Sublist L) → queueWeight queue ≤ fuel →
      (best.length ≤ k ∨ ∃ b ∈ queue, CanFinish B k b) →
      (BC.search B lb fuel queue best).length ≤ k
  | 0, queue, best, _, hw, hcase => by
    rw [BC.search.eq_1]
    rcases hcase with h | ⟨b, hb, _⟩
    · exact h
    · exfalso
      cases queue with
      | nil => cases hb
      | cons c q =>
        have := branchWeight_pos c.items.length
        rw [queueWeight_cons] at hw; omega
  | fuel + 1, [], best, _, _, hcase => by
    simp only [BC.search]
    rcases hcase with h | ⟨b, hb, _⟩
    · exact h
    · cases hb
  | fuel + 1, cb :: queue, best, hsub, hw, hcase => by
    rw [BC.search]
    have hr1 := runBranch_weight B best.length (cb.items.length + 1) cb []
    have hr2 := runBranch_sub (L := L) B best.length (cb.items.length + 1) cb []
      (hsub cb List.mem_cons_self) (by simp)
    have hr3 : k < best.length → CanFinish B k cb → _ := fun hk hcf =>
      runBranch_complete hB hk hL hLpos (cb.items.length + 1) cb [] (Nat.le_succ _)
        (hsub cb List.mem_cons_self) hcf
    generalize BC.runBranch B best.length (cb.items.length + 1) cb [] = r at hr1 hr2 hr3
    rw [queueWeight_nil, Nat.zero_add] at hr1
    rw [queueWeight_cons] at hw
    -- the new incumbent and the new queue satisfy the hypotheses again
    have hcase' : (if (r.1.items.isEmpty && decide (r.1.bins.length < best.length)) = true
          then r.1.bins else best).length ≤ k ∨ ∃ b ∈ queue ++ r.2, CanFinish B k b := by
      by_cases hbk : best.length ≤ k
      · left
        split <;> rename_i h
        · simp only [Bool.and_eq_true, decide_eq_true_eq] at h; omega
        · exact hbk
      · rcases hcase with h | ⟨b, hb, hbf⟩
        · exact absurd h hbk
        · rcases List.mem_cons.1 hb with rfl | hb
          · rcases hr3 (by omega) hbf with ⟨h1, h2⟩ | ⟨b', hb', hbf'⟩
            · left
              rw [if_pos (by
                simp only [Bool.and_eq_true, decide_eq_true_eq]
                exact ⟨by rw [h1]; rfl, by omega⟩)]
              exact h2
            · exact Or.inr ⟨b', List.mem_append_right _ hb', hbf'⟩
          · exact Or.inr ⟨b, List.mem_append_left _ hb, hbf⟩
    generalize (if (r.1.items.isEmpty && decide (r.1.bins.length < best.length)) = true
        then r.1.bins else best) = best' at hcase' ⊢
    split
    · rename_i heq
      omega
    · refine search_complete hB hlb hL hLpos fuel _ _ ?_ ?_ hcase'
      · intro b hb
        rcases List.mem_append.1 hb with hb | hb
        · exact hsub b (List.mem_cons_of_mem _ hb)
        · exact hr2.2 b hb
      · rw [queueWeight_append]; omega

/-- `Spec.Packable` in the vocabulary of this file -/
theorem packs_of_packable {B m : Nat} {vals : List Nat} (h : Packable B m vals) : Packs B m vals := by
  obtain ⟨asg, ⟨h1, h2⟩, h3⟩ := h
  refine sdom_of_locs (l1 := List.replicate m B) h1 (by simpa using h2) ?_
  rw [slotTotals_eq_sumsOf, List.length_replicate]
  apply fits_of_le
  intro i hi1 hi2
  simp only [List.getElem_replicate]
  exact h3 _ (List.getElem_mem hi1)

/-- the fuel that suffices for an input with `n` non-zero items -/
def enoughFuel (n : Nat) : Nat := branchWeight n

/-- **C04: bin completion is optimal.**  With enough fuel (`enoughFuel n` for `n` non-zero items) the result has
    the minimum number of bins among all packings of the non-zero items. -/
theorem bc_optimal {B : Nat} {items : List Nat} {fuel : Nat} {bins : List (List Nat)} (hB : 0 < B)
    (hfuel : enoughFuel (items.filter (· != 0)).length ≤ fuel)
    (h : BC.binCompletion B items fuel = .ok bins) :
    optBins B (items.filter (· != 0)) = some bins.length := by
  obtain ⟨m, hm, hlb, hle, _⟩ := bc_bounds hB h
  have hall : ∀ x ∈ items.filter (· != 0), x ≤ B :=
    fun x hx => bc_ok_all_le h x (List.mem_filter.1 hx).1
  obtain ⟨m', hm', hpk, _⟩ := Checkers.optBins_spec hall
  rw [hm] at hm'
  cases hm'
  suffices hge : bins.length ≤ m by
    rw [hm]; congr 1; omega
  obtain ⟨bfd, _, hc⟩ := bc_ok_cases h
  rw [lowerBound_filter] at hc
  rcases hc with ⟨hl, rfl⟩ | ⟨_, rfl⟩
  · omega
  · have hperm := Fit.sortDesc_perm id (items.filter (· != 0))
    refine search_complete (L := sortDesc id (items.filter (· != 0))) hB hlb (sortDesc_desc _) ?_ fuel _ _
      ?_ ?_ (Or.inr ⟨_, List.mem_singleton.2 rfl, m, by simp, ?_⟩)
    · intro v hv
      have := (List.mem_filter.1 (hperm.mem_iff.1 hv)).2
      simp only [bne_iff_ne, ne_eq] at this
      omega
    · intro b hb
      rw [List.mem_singleton] at hb
      subst hb
      exact List.Sublist.refl _
    · rw [queueWeight_cons, queueWeight_nil, Nat.add_zero]
      dsimp only
      rw [hperm.length_eq]
      exact hfuel
    · exact (packs_of_packable hpk).perm_right hperm.symm

/-- the statement announced as `bc_optimal_full` holds -/
theorem bc_optimal_full_holds : bc_optimal_full := by
  intro B items hB
  exact ⟨enoughFuel (items.filter (· != 0)).length, fun fuel hf bins h => bc_optimal hB hf h⟩

example : optBins 20 ([5, 10, 4, 10, 8, 6, 4, 10, 5, 4, 4, 10].filter (· != 0)) =
    some ([[10, 10], [10, 10], [8, 4, 4, 4], [6, 5, 5, 4]] : List (List Nat)).length :=
  bc_optimal (B := 20) (items := [5, 10, 4, 10, 8, 6, 4, 10, 5, 4, 4, 10]) (fuel := enoughFuel 12)
    (by decide) (by decide +kernel) (by decide +kernel)

/-- the fuel bound is astronomically generous, but finite: -/
example : enoughFuel 3 = 2604 := by decide +kernel


end Prtpy.BCProofs

/-
Axiom audit (`#print axioms`, observed with Lean 4.33.0; the `decide +kernel` calls occur only in `example`s):

#print axioms Prtpy.BCProofs.bc_error_iff                -- [propext, Classical.choice, Quot.sound]
#print axioms Prtpy.BCProofs.bc_fastpath                 -- [propext, Quot.sound]
#print axioms Prtpy.BCProofs.lowerBound_le_packing       -- [propext, Quot.sound]
#print axioms Prtpy.BCProofs.lowerBound_le_packable      -- [propext, Quot.sound]
#print axioms Prtpy.BCProofs.bc_fastpath_optimal         -- [propext, Quot.sound]
#print axioms Prtpy.BCProofs.bc_le_bfd                   -- [propext, Quot.sound]
#print axioms Prtpy.BCProofs.bc_fuel_mono                -- [propext, Classical.choice, Quot.sound]
#print axioms Prtpy.BCProofs.lwi_perm                    -- [propext, Classical.choice, Quot.sound]
#print axioms Prtpy.BCProofs.mem_combs_iff               -- [propext, Quot.sound]
#print axioms Prtpy.BCProofs.undPairs_spec               -- [propext, Quot.sound]
#print axioms Prtpy.BCProofs.completions_spec            -- [propext, Classical.choice, Quot.sound]
#print axioms Prtpy.BCProofs.completions_sum_le          -- [propext, Classical.choice, Quot.sound]
#print axioms Prtpy.BCProofs.runBranch_inv               -- [propext, Classical.choice, Quot.sound]
#print axioms Prtpy.BCProofs.bc_search_isPacking         -- [propext, Classical.choice, Quot.sound]
#print axioms Prtpy.BCProofs.bc_isPacking                -- [propext, Classical.choice, Quot.sound]
#print axioms Prtpy.BCProofs.isDom_sound                 -- [propext, Classical.choice, Quot.sound]
#print axioms Prtpy.BCProofs.isDom_sum_le                -- [propext, Classical.choice, Quot.sound]
#print axioms Prtpy.BCProofs.bc_bounds                   -- [propext, Classical.choice, Quot.sound]
#print axioms Prtpy.BCProofs.bc_optimal_of_eq_lowerBound -- [propext, Classical.choice, Quot.sound]
#print axioms Prtpy.BCProofs.sdom_exchange               -- [propext, Classical.choice, Quot.sound]
#print axioms Prtpy.BCProofs.SDom.trans                  -- [propext, Quot.sound]
#print axioms Prtpy.BCProofs.isDom_sdom                  -- [propext, Classical.choice, Quot.sound]
#print axioms Prtpy.BCProofs.found_complete              -- [propext, Quot.sound]
#print axioms Prtpy.BCProofs.checkDom_complete           -- [propext, Classical.choice, Quot.sound]
#print axioms Prtpy.BCProofs.completions_complete        -- [propext, Classical.choice, Quot.sound]
#print axioms Prtpy.BCProofs.step_complete               -- [propext, Classical.choice, Quot.sound]
#print axioms Prtpy.BCProofs.length_completions_le       -- [propext, Quot.sound]
#print axioms Prtpy.BCProofs.runBranch_weight            -- [propext, Quot.sound]
#print axioms Prtpy.BCProofs.runBranch_complete          -- [propext, Classical.choice, Quot.sound]
#print axioms Prtpy.BCProofs.search_complete             -- [propext, Classical.choice, Quot.sound]
#print axioms Prtpy.BCProofs.bc_optimal                  -- [propext, Classical.choice, Quot.sound]
#print axioms Prtpy.BCProofs.bc_optimal_full_holds       -- [propext, Classical.choice, Quot.sound]
-/
