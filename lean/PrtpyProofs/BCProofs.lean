/-
  PrtpyProofs.BCProofs — bin completion (`Prtpy.BC`, packing/bin_completion.py):
  refusal (C19), the lower-bound fast path and its optimality, "never worse than BFD" (C04, partial),
  bookkeeping of `lwi` / `combs` / `undPairs` / `completions`, the branch invariant of the search and
  feasibility of the result (C03), soundness of the dominance test.
-/
import Prtpy
import PrtpyProofs.Fit
import PrtpyProofs.Checkers
import PrtpyProofs.Oracle
import Batteries.Data.List.Perm

namespace Prtpy.BCProofs
open Prtpy

/-- decidable equality on results, for the non-vacuity examples (kept local to this file) -/
@[instance_reducible] def decEqResult : DecidableEq (Except Err (List (List Nat)))
  | .ok a, .ok b => if h : a = b then isTrue (by rw [h]) else isFalse (fun h' => h (Except.ok.inj h'))
  | .error a, .error b =>
    if h : a = b then isTrue (by rw [h]) else isFalse (fun h' => h (Except.error.inj h'))
  | .ok _, .error _ => isFalse (fun h => by cases h)
  | .error _, .ok _ => isFalse (fun h => by cases h)

attribute [local instance] decEqResult

/-! ### small helpers -/

theorem binSum_id (l : List Nat) : binSum id l = sumL l := by simp [binSum]

theorem sumL_perm {l l' : List Nat} (h : l.Perm l') : sumL l = sumL l' := Checkers.sumL_perm h

theorem sumL_flatten_le {B : Nat} : ∀ bins : List (List Nat), (∀ bin ∈ bins, sumL bin ≤ B) →
    sumL bins.flatten ≤ bins.length * B
  | [], _ => by simp [sumL]
  | b :: bs, h => by
    have h1 := h b List.mem_cons_self
    have ih := sumL_flatten_le bs (fun c hc => h c (List.mem_cons_of_mem _ hc))
    simp only [List.flatten_cons, Fit.sumL_append, List.length_cons, Nat.add_mul]
    omega

theorem sumL_filter_ne_zero : ∀ l : List Nat, sumL (l.filter (· != 0)) = sumL l
  | [] => rfl
  | x :: xs => by
    by_cases hx : x = 0
    · subst hx; simp [sumL, sumL_filter_ne_zero xs]
    · have : (x != 0) = true := by simpa using hx
      simp [this, sumL, sumL_filter_ne_zero xs]

theorem any_gt_iff {B : Nat} {items : List Nat} :
    items.any (fun x => decide (B < x)) = true ↔ ∃ x ∈ items, B < x := by
  simp

/-! ### 1. refusal (C19) -/

/-- `bin_completion` fails exactly when some item is larger than the bin size, and then with `ValueError` -/
theorem bc_error_iff {B : Nat} {items : List Nat} {fuel : Nat} {e : Err} :
    BC.binCompletion B items fuel = .error e ↔ (e = .valueError ∧ ∃ x ∈ items, B < x) := by
  unfold BC.binCompletion
  by_cases hany : items.any (fun x => decide (B < x)) = true
  · rw [if_pos hany]
    constructor
    · intro h; cases h; exact ⟨rfl, any_gt_iff.1 hany⟩
    · rintro ⟨rfl, _⟩; rfl
  · rw [if_neg hany]
    have hno : ¬ ∃ x ∈ items, B < x := fun h => hany (any_gt_iff.2 h)
    have hall : ∀ x ∈ items.filter (· != 0), id x ≤ B := by
      intro x hx
      exact Nat.le_of_not_lt fun hlt => hno ⟨x, (List.mem_filter.1 hx).1, hlt⟩
    obtain ⟨b, hb, _⟩ := Fit.bfDecreasing_isPacking (v := id) hall
    simp only [hb]
    constructor
    · intro h; split at h <;> cases h
    · rintro ⟨_, h⟩; exact absurd h hno

example : BC.binCompletion 20 [5, 10, 21, 4] 100 = .error .valueError :=
  bc_error_iff.2 ⟨rfl, 21, by decide, by decide⟩
example : ∃ x ∈ [5, 10, 21, 4, 21], 20 < x :=
  (bc_error_iff (fuel := 7) (e := .valueError)).1 (by decide +kernel) |>.2

/-- a successful run: no item exceeds the bin size -/
theorem bc_ok_all_le {B : Nat} {items : List Nat} {fuel : Nat} {bins : List (List Nat)}
    (h : BC.binCompletion B items fuel = .ok bins) : ∀ x ∈ items, x ≤ B := by
  intro x hx
  apply Nat.le_of_not_lt
  intro hlt
  have := (bc_error_iff (B := B) (items := items) (fuel := fuel) (e := .valueError)).2 ⟨rfl, x, hx, hlt⟩
  rw [h] at this; cases this

/-- the run succeeds whenever no item exceeds the bin size -/
theorem bc_ok_of_all_le {B : Nat} {items : List Nat} (fuel : Nat) (h : ∀ x ∈ items, x ≤ B) :
    ∃ bins, BC.binCompletion B items fuel = .ok bins := by
  cases hr : BC.binCompletion B items fuel with
  | ok bins => exact ⟨bins, rfl⟩
  | error e =>
    obtain ⟨_, x, hx, hlt⟩ := bc_error_iff.1 hr
    exact absurd (h x hx) (by omega)

/-- unfolding of a successful run -/
theorem bc_ok_cases {B : Nat} {items : List Nat} {fuel : Nat} {bins : List (List Nat)}
    (h : BC.binCompletion B items fuel = .ok bins) :
    ∃ bfd, bfDecreasing id B (items.filter (· != 0)) = .ok bfd ∧
      ((bfd.lists.length = BC.lowerBound B (items.filter (· != 0)) ∧ bins = bfd.lists) ∨
       (bfd.lists.length ≠ BC.lowerBound B (items.filter (· != 0)) ∧
        bins = BC.search B (BC.lowerBound B (items.filter (· != 0))) fuel
          [⟨sortDesc id (items.filter (· != 0)), [], 0⟩] bfd.lists)) := by
  unfold BC.binCompletion at h
  split at h
  · cases h
  · cases hb : bfDecreasing id B (items.filter (· != 0)) with
    | error e => simp only [hb] at h; cases h
    | ok bfd =>
      simp only [hb] at h
      refine ⟨bfd, rfl, ?_⟩
      split at h
      · rename_i hl
        cases h; exact Or.inl ⟨hl, rfl⟩
      · rename_i hl
        cases h; exact Or.inr ⟨hl, rfl⟩

/-! ### 2. the fast path -/

/-- if best-fit-decreasing already meets the lower bound, its bins are returned unchanged -/
theorem bc_fastpath {B : Nat} {items : List Nat} {fuel : Nat} {bfd : Bins Nat}
    (hall : ∀ x ∈ items, x ≤ B)
    (hb : bfDecreasing id B (items.filter (· != 0)) = .ok bfd)
    (hlen : bfd.lists.length = BC.lowerBound B (items.filter (· != 0))) :
    BC.binCompletion B items fuel = .ok bfd.lists := by
  unfold BC.binCompletion
  have hany : ¬ items.any (fun x => decide (B < x)) = true := by
    intro h
    obtain ⟨x, hx, hlt⟩ := any_gt_iff.1 h
    exact absurd (hall x hx) (by omega)
  rw [if_neg hany]
  simp only [hb, hlen, if_true]

example : BC.binCompletion 10 [5, 0, 5, 4, 6] 3 = .ok [[6, 4], [5, 5]] :=
  bc_fastpath (bfd := ⟨[10, 10], [[6, 4], [5, 5]]⟩) (by decide) rfl (by decide)

/-- any arrangement of `items` into bins of capacity `B > 0` has at least `⌈total / B⌉` bins -/
theorem lowerBound_le_packing {B : Nat} {items : List Nat} {bins : List (List Nat)} (hB : 0 < B)
    (hperm : bins.flatten.Perm items) (hle : ∀ bin ∈ bins, sumL bin ≤ B) :
    BC.lowerBound B items ≤ bins.length := by
  have h1 := sumL_flatten_le bins hle
  rw [sumL_perm hperm] at h1
  unfold BC.lowerBound
  rw [if_neg (by omega)]
  have : sumL items + B - 1 < (bins.length + 1) * B := by
    rw [Nat.add_mul]; omega
  have := (Nat.div_lt_iff_lt_mul hB).2 this
  omega

example : BC.lowerBound 10 [6, 6, 6, 1, 1] ≤ [[6, 1], [6, 1], [6]].length :=
  lowerBound_le_packing (by decide) (by decide) (by decide)
example : BC.lowerBound 10 [6, 6, 6, 1, 1] = 2 := by decide

/-- the same bound in the vocabulary of `Spec.Packable` -/
theorem lowerBound_le_packable {B m : Nat} {vals : List Nat} (hB : 0 < B) (h : Packable B m vals) :
    BC.lowerBound B vals ≤ m := by
  have h1 := Fit.packing_lower_bound h
  unfold BC.lowerBound
  rw [if_neg (by omega)]
  have : sumL vals + B - 1 < (m + 1) * B := by
    rw [Nat.add_mul]; omega
  have := (Nat.div_lt_iff_lt_mul hB).2 this
  omega

theorem lowerBound_filter (B : Nat) (items : List Nat) :
    BC.lowerBound B (items.filter (· != 0)) = BC.lowerBound B items := by
  simp only [BC.lowerBound, sumL_filter_ne_zero]

/-- on the fast path the result is optimal: no arrangement of the (non-zero) items uses fewer bins -/
theorem bc_fastpath_optimal {B : Nat} {items : List Nat} {fuel : Nat} {bfd : Bins Nat} (hB : 0 < B)
    (hall : ∀ x ∈ items, x ≤ B)
    (hb : bfDecreasing id B (items.filter (· != 0)) = .ok bfd)
    (hlen : bfd.lists.length = BC.lowerBound B (items.filter (· != 0))) :
    BC.binCompletion B items fuel = .ok bfd.lists ∧
    (∀ bins : List (List Nat), bins.flatten.Perm (items.filter (· != 0)) → (∀ bin ∈ bins, sumL bin ≤ B) →
      bfd.lists.length ≤ bins.length) ∧
    (∀ bins : List (List Nat), bins.flatten.Perm items → (∀ bin ∈ bins, sumL bin ≤ B) →
      bfd.lists.length ≤ bins.length) ∧
    (∀ m, Packable B m items → bfd.lists.length ≤ m) := by
  refine ⟨bc_fastpath hall hb hlen, ?_, ?_, ?_⟩
  · intro bins hp hle
    rw [hlen]; exact lowerBound_le_packing hB hp hle
  · intro bins hp hle
    rw [hlen, lowerBound_filter]; exact lowerBound_le_packing hB hp hle
  · intro m hm
    rw [hlen, lowerBound_filter]; exact lowerBound_le_packable hB hm

example : ∀ bins : List (List Nat), bins.flatten.Perm [5, 0, 5, 4, 6] → (∀ bin ∈ bins, sumL bin ≤ 10) →
    2 ≤ bins.length :=
  (bc_fastpath_optimal (fuel := 0) (bfd := ⟨[10, 10], [[6, 4], [5, 5]]⟩) (by decide) (by decide)
    rfl (by decide)).2.2.1

/-! ### 3. never worse than best-fit-decreasing -/

theorem search_length_le (B lb : Nat) : ∀ (fuel : Nat) (queue : List BC.Branch) (best : List (List Nat)),
    (BC.search B lb fuel queue best).length ≤ best.length
  | 0, _, _ => by simp [BC.search]
  | _ + 1, [], _ => by simp [BC.search]
  | fuel + 1, cb :: queue, best => by
    rw [BC.search]
    generalize BC.runBranch B best.length (cb.items.length + 1) cb [] = r
    have hb' : (if (r.1.items.isEmpty && decide (r.1.bins.length < best.length)) = true
        then r.1.bins else best).length ≤ best.length := by
      split <;> rename_i h
      · simp only [Bool.and_eq_true, decide_eq_true_eq] at h; omega
      · exact Nat.le_refl _
    generalize (if (r.1.items.isEmpty && decide (r.1.bins.length < best.length)) = true
        then r.1.bins else best) = best' at hb' ⊢
    split
    · exact hb'
    · exact Nat.le_trans (search_length_le B lb fuel _ _) hb'

/-- the result never has more bins than best-fit-decreasing on the non-zero items -/
theorem bc_le_bfd {B : Nat} {items : List Nat} {fuel : Nat} {bins : List (List Nat)} {bfd : Bins Nat}
    (h : BC.binCompletion B items fuel = .ok bins)
    (hb : bfDecreasing id B (items.filter (· != 0)) = .ok bfd) :
    bins.length ≤ bfd.lists.length := by
  obtain ⟨bfd', hb', hc⟩ := bc_ok_cases h
  rw [hb] at hb'
  cases hb'
  rcases hc with ⟨_, rfl⟩ | ⟨_, rfl⟩
  · exact Nat.le_refl _
  · exact search_length_le _ _ _ _ _

example : ([[10, 10], [10, 10], [8, 4, 4, 4], [6, 5, 5, 4]] : List (List Nat)).length ≤
    ([[10, 10], [10, 10], [8, 6, 5], [5, 4, 4, 4], [4]] : List (List Nat)).length :=
  bc_le_bfd (B := 20) (items := [5, 10, 4, 10, 8, 6, 4, 10, 5, 4, 4, 10]) (fuel := 100)
    (bfd := ⟨[20, 20, 19, 17, 4], [[10, 10], [10, 10], [8, 6, 5], [5, 4, 4, 4], [4]]⟩)
    (by decide +kernel) rfl

/-- anytime behaviour: one more unit of fuel never makes the result of `search` longer -/
theorem search_fuel_mono (B lb : Nat) : ∀ (fuel : Nat) (queue : List BC.Branch) (best : List (List Nat)),
    (BC.search B lb (fuel + 1) queue best).length ≤ (BC.search B lb fuel queue best).length
  | 0, queue, best => by
    rw [BC.search.eq_1]
    exact search_length_le B lb 1 queue best
  | fuel + 1, [], best => by simp [BC.search]
  | fuel + 1, cb :: queue, best => by
    rw [BC.search, BC.search]
    generalize BC.runBranch B best.length (cb.items.length + 1) cb [] = r
    generalize (if (r.1.items.isEmpty && decide (r.1.bins.length < best.length)) = true
        then r.1.bins else best) = best'
    split
    · exact Nat.le_refl _
    · exact search_fuel_mono B lb fuel _ _

theorem search_fuel_mono' (B lb : Nat) {fuel fuel' : Nat} (hf : fuel ≤ fuel') (queue : List BC.Branch)
    (best : List (List Nat)) :
    (BC.search B lb fuel' queue best).length ≤ (BC.search B lb fuel queue best).length := by
  induction hf with
  | refl => exact Nat.le_refl _
  | step _ ih => exact Nat.le_trans (search_fuel_mono B lb _ queue best) ih

/-- closed form of a successful run -/
theorem bc_unfold {B : Nat} {items : List Nat} (fuel : Nat) {bfd : Bins Nat} (hall : ∀ x ∈ items, x ≤ B)
    (hb : bfDecreasing id B (items.filter (· != 0)) = .ok bfd) :
    BC.binCompletion B items fuel = .ok
      (if bfd.lists.length = BC.lowerBound B (items.filter (· != 0)) then bfd.lists
       else BC.search B (BC.lowerBound B (items.filter (· != 0))) fuel
          [⟨sortDesc id (items.filter (· != 0)), [], 0⟩] bfd.lists) := by
  unfold BC.binCompletion
  have hany : ¬ items.any (fun x => decide (B < x)) = true := by
    intro h
    obtain ⟨x, hx, hlt⟩ := any_gt_iff.1 h
    exact absurd (hall x hx) (by omega)
  rw [if_neg hany]
  simp only [hb]
  split <;> rfl

/-- anytime behaviour of `bin_completion`: more fuel never gives more bins -/
theorem bc_fuel_mono {B : Nat} {items : List Nat} {fuel fuel' : Nat} {bins bins' : List (List Nat)}
    (hf : fuel ≤ fuel') (h : BC.binCompletion B items fuel = .ok bins)
    (h' : BC.binCompletion B items fuel' = .ok bins') : bins'.length ≤ bins.length := by
  have hall := bc_ok_all_le h
  obtain ⟨bfd, hb, _⟩ := bc_ok_cases h
  rw [bc_unfold fuel hall hb] at h
  rw [bc_unfold fuel' hall hb] at h'
  cases h; cases h'
  split
  · exact Nat.le_refl _
  · exact search_fuel_mono' _ _ hf _ _

example : ([[10, 10], [10, 10], [8, 4, 4, 4], [6, 5, 5, 4]] : List (List Nat)).length ≤
    ([[10, 10], [10, 10], [8, 6, 5], [5, 4, 4, 4], [4]] : List (List Nat)).length :=
  bc_fuel_mono (B := 20) (items := [5, 10, 4, 10, 8, 6, 4, 10, 5, 4, 4, 10]) (fuel := 0) (fuel' := 100)
    (by decide) (by decide +kernel) (by decide +kernel)


/-! ### 4. bookkeeping: `lwi`, `uniq`, `combs`, `undPairs`, `contrib`, `checkDom`, `completions` -/

section lwi
variable {β : Type} [BEq β]

theorem lwi_nil (items : List β) : BC.lwi items [] = items := rfl

theorem lwi_cons (items : List β) (x : β) (c : List β) :
    BC.lwi items (x :: c) = BC.lwi (items.erase x) c := rfl

/-- `list_without_items` only removes -/
theorem lwi_sublist (items comp : List β) : (BC.lwi items comp).Sublist items := by
  induction comp generalizing items with
  | nil => exact List.Sublist.refl _
  | cons x c ih => rw [lwi_cons]; exact (ih _).trans List.erase_sublist

/-- removing a sub-multiset and putting it back gives the original multiset -/
theorem lwi_perm [LawfulBEq β] {items comp : List β} (h : List.Subperm comp items) :
    (comp ++ BC.lwi items comp).Perm items := by
  induction comp generalizing items with
  | nil => exact List.Perm.refl _
  | cons x c ih =>
    have hx : x ∈ items := h.subset List.mem_cons_self
    have hc : List.Subperm c (items.erase x) := by
      have := h.erase x
      simpa using this
    rw [lwi_cons]
    exact ((ih hc).cons x).trans (List.perm_cons_erase hx).symm

example : ([4, 10, 4] ++ BC.lwi [5, 10, 4, 10, 8, 4] [4, 10, 4]).Perm [5, 10, 4, 10, 8, 4] :=
  lwi_perm (List.subperm_ext_iff.2 (by decide))
example : BC.lwi [5, 10, 4, 10, 8, 4] [4, 10, 4] = [5, 10, 8] := by decide

theorem mem_uniq_aux {e : β} : ∀ (l out : List β),
    e ∈ l.foldl (fun out e => if out.contains e then out else out ++ [e]) out → e ∈ out ∨ e ∈ l
  | [], out, h => Or.inl h
  | a :: l, out, h => by
    rw [List.foldl_cons] at h
    rcases mem_uniq_aux l _ h with h' | h'
    · split at h'
      · exact Or.inl h'
      · rcases List.mem_append.1 h' with h' | h'
        · exact Or.inl h'
        · rw [List.mem_singleton] at h'
          subst h'; exact Or.inr List.mem_cons_self
    · exact Or.inr (List.mem_cons_of_mem _ h')

/-- `unique_list` only selects -/
theorem mem_uniq {e : β} {l : List β} (h : e ∈ BC.uniq l) : e ∈ l := by
  rcases mem_uniq_aux l [] h with h | h
  · cases h
  · exact h

end lwi

/-! `itertools.combinations` -/

theorem combs_zero (items : List Nat) : BC.combs 0 items = [[]] := by
  cases items <;> rfl

/-- soundness of `combs`: a combination is a sub-list of the right length -/
theorem combs_sublist : ∀ (r : Nat) (items fc : List Nat), fc ∈ BC.combs r items →
    fc.Sublist items ∧ fc.length = r
  | 0, items, fc, h => by
    rw [combs_zero, List.mem_singleton] at h
    subst h; exact ⟨List.nil_sublist _, rfl⟩
  | _ + 1, [], fc, h => by simp [BC.combs] at h
  | r + 1, x :: xs, fc, h => by
    simp only [BC.combs, List.mem_append, List.mem_map] at h
    rcases h with ⟨fc', h', rfl⟩ | h
    · obtain ⟨h1, h2⟩ := combs_sublist r xs fc' h'
      exact ⟨h1.cons_cons x, by simp [h2]⟩
    · obtain ⟨h1, h2⟩ := combs_sublist (r + 1) xs fc h
      exact ⟨h1.cons x, h2⟩

/-- completeness of `combs`: every sub-list of length `r` is enumerated -/
theorem combs_complete {items fc : List Nat} (h : fc.Sublist items) : fc ∈ BC.combs fc.length items := by
  induction h with
  | slnil => simp [BC.combs]
  | @cons l₁ l₂ a h ih =>
    cases l₁ with
    | nil => simp [combs_zero]
    | cons b l₁ =>
      simp only [List.length_cons, BC.combs, List.mem_append]
      exact Or.inr (by simpa using ih)
  | @cons_cons l₁ l₂ a h ih =>
    simp only [List.length_cons, BC.combs, List.mem_append, List.mem_map]
    exact Or.inl ⟨l₁, ih, rfl⟩

theorem mem_combs_iff {r : Nat} {items fc : List Nat} :
    fc ∈ BC.combs r items ↔ fc.Sublist items ∧ fc.length = r :=
  ⟨combs_sublist r items fc, fun ⟨h1, h2⟩ => h2 ▸ combs_complete h1⟩

example : [10, 8, 4] ∈ BC.combs 3 [5, 10, 4, 10, 8, 4] := mem_combs_iff.2 ⟨by decide, rfl⟩

/-! `find_undominated_pairs` -/

theorem getD_eq {l : List Nat} {i : Nat} (h : i < l.length) : l.getD i 0 = l[i] := by
  simp [List.getD_eq_getElem?_getD, List.getElem?_eq_getElem h]


theorem pair_sublist : ∀ (l : List Nat) (s e : Nat) (hse : s < e) (he : e < l.length),
    [l[s], l[e]].Sublist l
  | [], _, _, _, he => by simp at he
  | a :: l, 0, e + 1, _, he => by
    simp only [List.getElem_cons_zero, List.getElem_cons_succ]
    exact (List.singleton_sublist.2 (List.getElem_mem _)).cons_cons a
  | a :: l, s + 1, e + 1, hse, he => by
    simp only [List.getElem_cons_succ]
    exact (pair_sublist l s e (by omega) (by simpa using he)).cons a

theorem undPairsLoop_spec (c y B : Nat) (items : List Nat) :
    ∀ (fuel s e : Nat) (acc : List (List Nat)), e ≤ items.length - 1 →
      (∀ p ∈ acc, p.Sublist items ∧ c + sumL p ≤ B) →
      ∀ p ∈ BC.undPairsLoop c y B items fuel s e acc, p.Sublist items ∧ c + sumL p ≤ B
  | 0, _, _, acc, _, hacc => by
    intro p hp
    simp only [BC.undPairsLoop, List.mem_reverse] at hp
    exact hacc p hp
  | fuel + 1, s, e, acc, he, hacc => by
    intro p hp
    rw [BC.undPairsLoop] at hp
    by_cases hse : s < e
    · rw [if_pos hse] at hp
      have hel : e < items.length := by omega
      have hsl : s < items.length := by omega
      rw [getD_eq hsl, getD_eq hel] at hp
      dsimp only at hp
      split at hp
      · exact undPairsLoop_spec c y B items fuel (s + 1) e acc he hacc p hp
      · split at hp
        · exact undPairsLoop_spec c y B items fuel s (e - 1) acc (by omega) hacc p hp
        · rename_i hnot _
          refine undPairsLoop_spec c y B items fuel (s + 1) (e - 1) _ (by omega) ?_ p hp
          intro q hq
          rcases List.mem_cons.1 hq with rfl | hq
          · refine ⟨pair_sublist items s e hse hel, ?_⟩
            simp only [sumL]; omega
          · exact hacc q hq
    · rw [if_neg hse] at hp
      simp only [List.mem_reverse] at hp
      exact hacc p hp

/-- an undominated pair consists of two distinct positions of `items` and fits next to the constant part -/
theorem undPairs_spec {c y B : Nat} {items p : List Nat} (h : p ∈ BC.undPairs c y items B) :
    p.Sublist items ∧ c + sumL p ≤ B :=
  undPairsLoop_spec c y B items _ _ _ _ (Nat.le_refl _) (by simp) p h

/-! `find_bin_completions` -/

/-- what is required of a completion of the bin `[x]` from the remaining `items` -/
def IsCompletion (x B : Nat) (items c : List Nat) : Prop := List.Subperm c items ∧ x + sumL c ≤ B

theorem contrib_spec {x y B : Nat} {items fc c : List Nat} (hfc : fc.Sublist items)
    (h : c ∈ BC.contrib x y B items fc) : IsCompletion x B items c := by
  unfold BC.contrib at h
  split at h
  · cases h
  · rename_i hfit
    dsimp only at h
    split at h
    · simp only [List.mem_append, or_self, List.mem_map] at h
      obtain ⟨p, hp, rfl⟩ := h
      obtain ⟨hp1, hp2⟩ := undPairs_spec hp
      have hsort := Fit.sortDesc_perm id (p ++ fc)
      refine ⟨(hsort.subperm_right).2 ?_, ?_⟩
      · have h1 : List.Subperm (p ++ fc) (BC.lwi items fc ++ fc) :=
          (List.subperm_append_right fc).2 hp1.subperm
        exact h1.trans (List.perm_append_comm.trans (lwi_perm hfc.subperm)).subperm
      · rw [sumL_perm hsort, Fit.sumL_append]; omega
    · split at h
      · rw [List.mem_singleton] at h
        subst h
        exact ⟨hfc.subperm, by omega⟩
      · cases h

/-- `check_for_dominance` only selects and reorders -/
theorem mem_checkDom {c : List Nat} {comps : List (List Nat)} (h : c ∈ BC.checkDom comps) : c ∈ comps := by
  unfold BC.checkDom at h
  split at h
  · exact h
  · exact (lwi_sublist _ _).subset ((Fit.sortDesc_perm _ _).mem_iff.1 h)

/-- every completion offered for the bin `[x]` is a sub-multiset of the remaining items and fits -/
theorem completions_spec {x B : Nat} {items c : List Nat} (h : c ∈ BC.completions x items B) :
    IsCompletion x B items c := by
  unfold BC.completions at h
  split at h
  · cases h
  · dsimp only at h
    split at h
    · cases h
    · rename_i hy
      have h1 := (Fit.sortDesc_perm _ _).mem_iff.1 (mem_uniq (mem_checkDom h))
      rcases List.mem_cons.1 h1 with rfl | h1
      · cases hf : items.find? fun i => decide (x + i ≤ B) with
        | none => rw [hf] at hy; exact absurd rfl hy
        | some y =>
          have hmem := List.mem_of_find?_eq_some hf
          have hfit := List.find?_some hf
          simp only [decide_eq_true_eq] at hfit
          simp only [Option.getD_some]
          exact ⟨List.singleton_subperm_iff.2 hmem, by simp only [sumL]; omega⟩
      · simp only [List.mem_flatMap] at h1
        obtain ⟨r, _, fc, hfc, hc⟩ := h1
        exact contrib_spec (combs_sublist r items fc hfc).1 hc

/-- the form asked for: a sub-multiset of the remaining items whose sum is at most `B − x` -/
theorem completions_sum_le {x B : Nat} {items c : List Nat} (h : c ∈ BC.completions x items B) :
    List.Subperm c items ∧ sumL c ≤ B - x := by
  obtain ⟨h1, h2⟩ := completions_spec h
  exact ⟨h1, by omega⟩

example : List.Subperm [6, 5] [6, 5, 5, 4, 4, 4, 4] ∧ sumL [6, 5] ≤ 20 - 8 :=
  completions_sum_le (by decide +kernel)
example : BC.completions 8 [6, 5, 5, 4, 4, 4, 4] 20 = [[4, 4, 4], [6, 5]] := by decide +kernel


/-! ### 5. the branch invariant and feasibility of the result (C03) -/

/-- invariant of a branch of the search: bins plus remaining items are the input, bins are feasible and
    non-empty, `idx` counts the bins -/
structure Inv (B : Nat) (items0 : List Nat) (cb : BC.Branch) : Prop where
  perm : (cb.bins.flatten ++ cb.items).Perm items0
  ok : ∀ bin ∈ cb.bins, sumL bin ≤ B ∧ bin ≠ []
  idx : cb.idx = cb.bins.length

theorem inv_init (B : Nat) (items : List Nat) : Inv B items ⟨sortDesc id items, [], 0⟩ :=
  ⟨by simpa using Fit.sortDesc_perm id items, by simp, rfl⟩

/-- opening the bin `[x]` and completing it with `comp` keeps the invariant -/
theorem inv_step {B : Nat} {items0 : List Nat} {cb : BC.Branch} {x : Nat} {upd comp : List Nat}
    (h : Inv B items0 cb) (hitems : cb.items = x :: upd) (hc : IsCompletion x B upd comp) :
    Inv B items0 ⟨BC.lwi upd comp, (cb.bins ++ [[x]]).modify cb.idx (· ++ comp), cb.idx + 1⟩ := by
  have hmod : (cb.bins ++ [[x]]).modify cb.idx (· ++ comp) = cb.bins ++ [x :: comp] := by
    rw [h.idx, Fit.modify_append_length]; rfl
  rw [hmod]
  refine ⟨?_, ?_, ?_⟩
  · have hp := h.perm
    rw [hitems] at hp
    refine List.Perm.trans ?_ hp
    simp only [List.flatten_append, List.flatten_cons, List.flatten_nil, List.append_nil,
      List.append_assoc, List.cons_append]
    exact List.Perm.append_left _ ((lwi_perm hc.1).cons x)
  · intro bin hbin
    rcases List.mem_append.1 hbin with hbin | hbin
    · exact h.ok bin hbin
    · rw [List.mem_singleton] at hbin
      subst hbin
      exact ⟨by simp only [sumL]; exact hc.2, by simp⟩
  · simp [h.idx]

/-- the same without a completion -/
theorem inv_step_nil {B : Nat} {items0 : List Nat} {cb : BC.Branch} {x : Nat} {upd : List Nat}
    (h : Inv B items0 cb) (hitems : cb.items = x :: upd) (hx : x ≤ B) :
    Inv B items0 ⟨upd, cb.bins ++ [[x]], cb.idx + 1⟩ := by
  have := inv_step (comp := []) h hitems ⟨List.nil_subperm, by simpa [sumL] using hx⟩
  have hmod : (cb.bins ++ [[x]]).modify cb.idx (· ++ []) = cb.bins ++ [[x]] := by
    rw [h.idx, Fit.modify_append_length]; rfl
  rw [hmod] at this
  exact this

theorem inv_spawn {B : Nat} {items0 : List Nat} {cb : BC.Branch} {x : Nat} {upd : List Nat} (bestLen : Nat)
    (h : Inv B items0 cb) (hitems : cb.items = x :: upd) :
    ∀ (others : List (List Nat)) (acc : List BC.Branch), (∀ comp ∈ others, IsCompletion x B upd comp) →
      (∀ b ∈ acc, Inv B items0 b) →
      ∀ b ∈ others.foldl (fun (acc : List BC.Branch) comp =>
          let ni := BC.lwi upd comp
          let nb := (cb.bins ++ [[x]]).modify cb.idx (· ++ comp)
          if decide (bestLen * B ≤ nb.length * B + sumL ni) then acc else acc ++ [⟨ni, nb, cb.idx + 1⟩]) acc,
        Inv B items0 b
  | [], acc, _, hacc => hacc
  | comp :: others, acc, hcs, hacc => by
    rw [List.foldl_cons]
    refine inv_spawn bestLen h hitems others _ (fun c hc => hcs c (List.mem_cons_of_mem _ hc)) ?_
    dsimp only
    split
    · exact hacc
    · intro b hb
      rcases List.mem_append.1 hb with hb | hb
      · exact hacc b hb
      · rw [List.mem_singleton] at hb
        subst hb
        exact inv_step h hitems (hcs comp List.mem_cons_self)

/-- `runBranch` keeps the invariant for the branch it continues and for every branch it spawns -/
theorem runBranch_inv {B : Nat} {items0 : List Nat} (hall : ∀ x ∈ items0, x ≤ B) (bestLen : Nat) :
    ∀ (fuel : Nat) (cb : BC.Branch) (spawned : List BC.Branch), Inv B items0 cb →
      (∀ b ∈ spawned, Inv B items0 b) →
      Inv B items0 (BC.runBranch B bestLen fuel cb spawned).1 ∧
      ∀ b ∈ (BC.runBranch B bestLen fuel cb spawned).2, Inv B items0 b
  | 0, cb, spawned, h, hs => ⟨h, hs⟩
  | fuel + 1, cb, spawned, h, hs => by
    rw [BC.runBranch]
    split
    · exact ⟨h, hs⟩
    · rename_i x upd hitems
      have hx : x ≤ B := hall x (h.perm.subset (by simp [hitems]))
      have hcs : ∀ c ∈ BC.completions x upd B, IsCompletion x B upd c := fun c hc => completions_spec hc
      dsimp only
      generalize BC.completions x upd B = comps at hcs ⊢
      cases comps with
      | nil =>
        dsimp only
        have hcb' := inv_step_nil h hitems hx
        split
        · exact ⟨hcb', hs⟩
        · split
          · exact ⟨hcb', hs⟩
          · exact runBranch_inv hall bestLen fuel _ _ hcb' hs
      | cons c0 others =>
        dsimp only
        have hcb' := inv_step h hitems (hcs c0 List.mem_cons_self)
        have hs' := inv_spawn bestLen h hitems others spawned
          (fun c hc => hcs c (List.mem_cons_of_mem _ hc)) hs
        split
        · exact ⟨hcb', hs'⟩
        · split
          · exact ⟨hcb', hs'⟩
          · exact runBranch_inv hall bestLen fuel _ _ hcb' hs'

/-- `bins` arranges `items0` into bins of capacity `B`, none of them empty (for a non-empty input) -/
def IsArrangement (B : Nat) (items0 : List Nat) (bins : List (List Nat)) : Prop :=
  bins.flatten.Perm items0 ∧ (∀ bin ∈ bins, sumL bin ≤ B) ∧ (items0 ≠ [] → ∀ bin ∈ bins, bin ≠ [])

theorem Inv.arrangement {B : Nat} {items0 : List Nat} {cb : BC.Branch} (h : Inv B items0 cb)
    (he : cb.items.isEmpty = true) : IsArrangement B items0 cb.bins := by
  have hp := h.perm
  rw [List.isEmpty_iff.1 he, List.append_nil] at hp
  exact ⟨hp, fun bin hb => (h.ok bin hb).1, fun _ bin hb => (h.ok bin hb).2⟩

/-- every incumbent of `search` (in particular its result) is an arrangement of the input -/
theorem bc_search_isPacking {B : Nat} {items0 : List Nat} (hall : ∀ x ∈ items0, x ≤ B) (lb : Nat) :
    ∀ (fuel : Nat) (queue : List BC.Branch) (best : List (List Nat)),
      (∀ b ∈ queue, Inv B items0 b) → IsArrangement B items0 best →
      IsArrangement B items0 (BC.search B lb fuel queue best)
  | 0, _, _, _, hb => by simpa [BC.search] using hb
  | _ + 1, [], _, _, hb => by simpa [BC.search] using hb
  | fuel + 1, cb :: queue, best, hq, hb => by
    rw [BC.search]
    have hr := runBranch_inv hall best.length (cb.items.length + 1) cb []
      (hq cb List.mem_cons_self) (by simp)
    generalize BC.runBranch B best.length (cb.items.length + 1) cb [] = r at hr
    have hb' : IsArrangement B items0 (if (r.1.items.isEmpty && decide (r.1.bins.length < best.length)) = true
        then r.1.bins else best) := by
      split <;> rename_i h
      · simp only [Bool.and_eq_true] at h
        exact hr.1.arrangement h.1
      · exact hb
    generalize (if (r.1.items.isEmpty && decide (r.1.bins.length < best.length)) = true
        then r.1.bins else best) = best' at hb' ⊢
    split
    · exact hb'
    · refine bc_search_isPacking hall lb fuel _ _ ?_ hb'
      intro b hbq
      rcases List.mem_append.1 hbq with hbq | hbq
      · exact hq b (List.mem_cons_of_mem _ hbq)
      · exact hr.2 b hbq

/-- C03 for bin completion: the result arranges the non-zero items into feasible, non-empty bins -/
theorem bc_isPacking {B : Nat} {items : List Nat} {fuel : Nat} {bins : List (List Nat)} (hB : 0 < B)
    (h : BC.binCompletion B items fuel = .ok bins) :
    bins.flatten.Perm (items.filter (· != 0)) ∧ (∀ bin ∈ bins, sumL bin ≤ B) ∧
      (items.filter (· != 0) ≠ [] → ∀ bin ∈ bins, bin ≠ []) := by
  have _ := hB
  have hall : ∀ x ∈ items.filter (· != 0), x ≤ B :=
    fun x hx => bc_ok_all_le h x (List.mem_filter.1 hx).1
  obtain ⟨bfd, hbfd, hc⟩ := bc_ok_cases h
  obtain ⟨h1, h2, h3, h4⟩ := Fit.bfDecreasing_ok_isPacking hbfd
  have hbest : IsArrangement B (items.filter (· != 0)) bfd.lists := by
    refine ⟨h1, ?_, h4⟩
    intro bin hbin
    have := h3 (binSum id bin) (by rw [h2]; exact List.mem_map_of_mem hbin)
    rwa [binSum_id] at this
  rcases hc with ⟨_, rfl⟩ | ⟨_, rfl⟩
  · exact hbest
  · exact bc_search_isPacking hall _ fuel _ _
      (by intro b hb; rw [List.mem_singleton] at hb; subst hb; exact inv_init B _) hbest

example : ([[10, 10], [10, 10], [8, 4, 4, 4], [6, 5, 5, 4]] : List (List Nat)).flatten.Perm
    ([5, 10, 4, 10, 8, 6, 4, 10, 5, 4, 4, 10].filter (· != 0)) :=
  (bc_isPacking (B := 20) (items := [5, 10, 4, 10, 8, 6, 4, 10, 5, 4, 4, 10]) (fuel := 100)
    (by decide) (by decide +kernel)).1


/-! ### 6. soundness of the dominance test -/

theorem fits_of_le {l1 totals : List Nat}
    (h : ∀ i (h1 : i < totals.length) (h2 : i < l1.length), totals[i] ≤ l1[i]) :
    BC.fits l1 totals = true := by
  unfold BC.fits
  rw [List.all_eq_true]
  intro p hp
  obtain ⟨i, hi, rfl⟩ := List.mem_iff_getElem.1 hp
  simp only [List.length_zip] at hi
  simp only [List.getElem_zip, decide_eq_true_eq]
  exact h i (by omega) (by omega)

theorem mem_product {n : Nat} : ∀ {m : Nat} {locs : List Nat}, locs ∈ BC.product n m →
    locs.length = m ∧ ∀ i ∈ locs, i < n
  | 0, locs, h => by
    simp only [BC.product, List.mem_singleton] at h
    subst h; simp
  | m + 1, locs, h => by
    simp only [BC.product, List.mem_flatMap, List.mem_range, List.mem_map] at h
    obtain ⟨i, hi, locs', h', rfl⟩ := h
    obtain ⟨h1, h2⟩ := mem_product h'
    refine ⟨by simp [h1], ?_⟩
    intro j hj
    rcases List.mem_cons.1 hj with rfl | hj
    · exact hi
    · exact h2 j hj

/-- greedy placement for the multiset shortcut: as long as the items still to place form a sub-multiset of
    the residual capacities `res`, each can be given a slot of its own -/
theorem place_aux (caps : List Nat) : ∀ (l2 res t : List Nat), res.length = caps.length →
    t.length = caps.length →
    (∀ i (h1 : i < t.length) (h2 : i < res.length) (h3 : i < caps.length), t[i] + res[i] ≤ caps[i]) →
    (∀ x ∈ l2, l2.count x ≤ res.count x) →
    ∃ locs, locs.length = l2.length ∧ (∀ i ∈ locs, i < caps.length) ∧
      ((l2.zip locs).foldl (fun t (p : Nat × Nat) => t.modify p.2 (· + p.1)) t).length = caps.length ∧
      ∀ i (h1 : i < ((l2.zip locs).foldl (fun t (p : Nat × Nat) => t.modify p.2 (· + p.1)) t).length)
        (h3 : i < caps.length),
        ((l2.zip locs).foldl (fun t (p : Nat × Nat) => t.modify p.2 (· + p.1)) t)[i] ≤ caps[i]
  | [], res, t, hres, ht, hinv, _ => by
    refine ⟨[], rfl, by simp, by simpa using ht, ?_⟩
    intro i h1 h3
    simp only [List.zip_nil_left, List.foldl_nil] at h1 ⊢
    have := hinv i h1 (by omega) h3
    omega
  | a :: l2, res, t, hres, ht, hinv, hcnt => by
    have ha : a ∈ res := by
      have := hcnt a List.mem_cons_self
      rw [List.count_cons_self] at this
      exact List.count_pos_iff.1 (by omega)
    obtain ⟨i, hi, hia⟩ := List.mem_iff_getElem.1 ha
    have hic : i < caps.length := by omega
    obtain ⟨locs, h1, h2, h3, h4⟩ := place_aux caps l2 (res.set i 0) (t.modify i (· + a))
      (by simpa using hres) (by simpa using ht)
      (by
        intro j hj1 hj2 hj3
        have hj1' : j < t.length := by simpa using hj1
        have hj2' : j < res.length := by simpa using hj2
        have := hinv j hj1' hj2' hj3
        rw [List.getElem_modify, List.getElem_set]
        by_cases hij : i = j
        · subst hij; simp only [if_true]; omega
        · simp only [if_neg hij]; omega)
      (by
        intro x hx
        have := hcnt x (List.mem_cons_of_mem _ hx)
        rw [List.count_set hi, hia]
        by_cases hxa : a = x
        · subst hxa
          rw [List.count_cons_self] at this
          simp only [beq_self_eq_true, if_true]; omega
        · rw [List.count_cons_of_ne hxa] at this
          have : (a == x) = false := by simpa using hxa
          simp only [this, Bool.false_eq_true, if_false]; omega)
    refine ⟨i :: locs, by simp [h1], ?_, ?_, ?_⟩
    · intro j hj
      rcases List.mem_cons.1 hj with rfl | hj
      · exact hic
      · exact h2 j hj
    · simpa using h3
    · simpa using h4

/-- if `is_dominant(l1, l2)` holds, the items of `l2` can be arranged into slots with capacities `l1` -/
theorem isDom_sound {l1 l2 : List Nat} (h : BC.isDom l1 l2 = true) :
    ∃ locs, locs.length = l2.length ∧ (∀ i ∈ locs, i < l1.length) ∧
      BC.fits l1 (BC.slotTotals l1.length l2 locs) = true := by
  have shortcut : (∀ x ∈ l2, l2.count x ≤ l1.count x) →
      ∃ locs, locs.length = l2.length ∧ (∀ i ∈ locs, i < l1.length) ∧
        BC.fits l1 (BC.slotTotals l1.length l2 locs) = true := by
    intro hcnt
    obtain ⟨locs, h1, h2, h3, h4⟩ := place_aux l1 l2 l1 (List.replicate l1.length 0) rfl (by simp)
      (by intro i _ _ _; simp) hcnt
    exact ⟨locs, h1, h2, fits_of_le fun i hi1 hi2 => h4 i hi1 hi2⟩
  unfold BC.isDom at h
  split at h
  · rename_i he
    exact shortcut (by rw [List.isEmpty_iff.1 he]; simp)
  · split at h
    · cases h
    · split at h
      · rename_i hall
        rw [List.all_eq_true] at hall
        exact shortcut fun x hx => by simpa using hall x hx
      · split at h
        · cases h
        · rw [List.any_eq_true] at h
          obtain ⟨locs, hlocs, hfit⟩ := h
          obtain ⟨h1, h2⟩ := mem_product hlocs
          exact ⟨locs, h1, h2, hfit⟩

example : ∃ locs, locs.length = [4, 4, 3].length ∧ (∀ i ∈ locs, i < [8, 5].length) ∧
    BC.fits [8, 5] (BC.slotTotals [8, 5].length [4, 4, 3] locs) = true :=
  isDom_sound (by decide)
example : BC.isDom [6, 4, 4] [4, 6] = true := by decide


/-- `slotTotals` is `Spec.sumsOf`: the totals per slot of an assignment -/
theorem slotTotals_eq_sumsOf (n : Nat) (l2 locs : List Nat) : BC.slotTotals n l2 locs = sumsOf n l2 locs := rfl

theorem fits_sum_le : ∀ (l1 totals : List Nat), l1.length = totals.length → BC.fits l1 totals = true →
    sumL totals ≤ sumL l1
  | [], [], _, _ => Nat.le_refl _
  | [], _ :: _, h, _ => by simp at h
  | _ :: _, [], h, _ => by simp at h
  | a :: l1, t :: totals, h, hf => by
    simp only [BC.fits, List.zip_cons_cons, List.all_cons, Bool.and_eq_true, decide_eq_true_eq] at hf
    have := fits_sum_le l1 totals (by simpa using h) hf.2
    simp only [sumL]; omega

/-- consequence: a dominated completion is not heavier than the dominating one -/
theorem isDom_sum_le {l1 l2 : List Nat} (h : BC.isDom l1 l2 = true) : sumL l2 ≤ sumL l1 := by
  obtain ⟨locs, h1, h2, h3⟩ := isDom_sound h
  have hs := Fit.sumsOf_length_sum (m := l1.length) (vals := l2) (asg := locs) ⟨h1, h2⟩
  rw [slotTotals_eq_sumsOf] at h3
  have := fits_sum_le l1 _ hs.1.symm h3
  omega

example : sumL [4, 4, 3] ≤ sumL [8, 5] := isDom_sum_le (by decide)

/-! ### 7. towards optimality (C04) -/

/-- an arrangement into feasible bins is a packing in the sense of `Spec.Packable` -/
theorem packable_of_arrangement {B : Nat} {items : List Nat} {bins : List (List Nat)}
    (hp : bins.flatten.Perm items) (hle : ∀ bin ∈ bins, sumL bin ≤ B) : Packable B bins.length items := by
  obtain ⟨asg, hasg, hs⟩ := Oracle.lists_sums_assignment id items bins hp
  rw [List.map_id] at hs
  refine ⟨asg, hasg, ?_⟩
  intro s hs'
  rw [hs] at hs'
  obtain ⟨bin, hb, rfl⟩ := List.mem_map.1 hs'
  rw [binSum_id]; exact hle bin hb

/-- the result is sandwiched: `⌈total/B⌉ ≤ optimum ≤ result ≤ BFD` -/
theorem bc_bounds {B : Nat} {items : List Nat} {fuel : Nat} {bins : List (List Nat)} (hB : 0 < B)
    (h : BC.binCompletion B items fuel = .ok bins) :
    ∃ m, optBins B (items.filter (· != 0)) = some m ∧ BC.lowerBound B items ≤ m ∧ m ≤ bins.length ∧
      ∀ bfd, bfDecreasing id B (items.filter (· != 0)) = .ok bfd → bins.length ≤ bfd.lists.length := by
  have hall : ∀ x ∈ items.filter (· != 0), x ≤ B :=
    fun x hx => bc_ok_all_le h x (List.mem_filter.1 hx).1
  obtain ⟨m, hm, hpk, hmin⟩ := Checkers.optBins_spec hall
  obtain ⟨h1, h2, _⟩ := bc_isPacking hB h
  refine ⟨m, hm, ?_, hmin _ (packable_of_arrangement h1 h2), fun bfd hb => bc_le_bfd h hb⟩
  rw [← lowerBound_filter]
  exact lowerBound_le_packable hB hpk

/-- whenever the result meets the lower bound (the early exit of `search`, or the fast path) it is optimal -/
theorem bc_optimal_of_eq_lowerBound {B : Nat} {items : List Nat} {fuel : Nat} {bins : List (List Nat)}
    (hB : 0 < B) (h : BC.binCompletion B items fuel = .ok bins) (hlb : bins.length = BC.lowerBound B items) :
    optBins B (items.filter (· != 0)) = some bins.length := by
  obtain ⟨m, hm, h1, h2, _⟩ := bc_bounds hB h
  rw [hm]; congr 1; omega

example : optBins 20 ([5, 10, 4, 10, 8, 6, 4, 10, 5, 4, 4, 10].filter (· != 0)) = some 4 :=
  bc_optimal_of_eq_lowerBound (B := 20) (fuel := 100)
    (bins := [[10, 10], [10, 10], [8, 4, 4, 4], [6, 5, 5, 4]]) (by decide) (by decide +kernel) (by decide)

/-- C04, statement only (not proved): with enough fuel the result has the minimum number of bins.
    (`fuel = 0` is not enough even for the empty input: `binCompletion B [] 0 = .ok [[]]`.) -/
def bc_optimal_full : Prop :=
  ∀ (B : Nat) (items : List Nat), 0 < B → ∃ fuel0, ∀ fuel, fuel0 ≤ fuel → ∀ bins,
    BC.binCompletion B items fuel = .ok bins → optBins B (items.filter (· != 0)) = some bins.length

example : BC.binCompletion 5 [] 0 = .ok [[]] := by decide +kernel
example : BC.binCompletion 5 [0] 1 = .ok [] := by decide +kernel

end Prtpy.BCProofs

/-
Axiom audit (`#print axioms`, observed with Lean 4.33.0; the `decide +kernel` calls occur only in `example`s):

#print axioms Prtpy.BCProofs.bc_error_iff                -- [propext, Classical.choice, Quot.sound]
#print axioms Prtpy.BCProofs.bc_fastpath                 -- [propext, Quot.sound]
#print axioms Prtpy.BCProofs.lowerBound_le_packing       -- [propext, Quot.sound]
#print axioms Prtpy.BCProofs.lowerBound_le_packable      -- [propext, Quot.sound]
#print axioms Prtpy.BCProofs.bc_fastpath_optimal         -- [propext, Quot.sound]
#print axioms Prtpy.BCProofs.bc_le_bfd                   -- [propext, Quot.sound]
#print axioms Prtpy.BCProofs.bc_fuel_mono                -- [propext, Classical.choice, Quot.sound]
#print axioms Prtpy.BCProofs.lwi_perm                    -- [propext, Classical.choice, Quot.sound]
#print axioms Prtpy.BCProofs.mem_combs_iff               -- [propext, Quot.sound]
#print axioms Prtpy.BCProofs.undPairs_spec               -- [propext, Quot.sound]
#print axioms Prtpy.BCProofs.completions_spec            -- [propext, Classical.choice, Quot.sound]
#print axioms Prtpy.BCProofs.completions_sum_le          -- [propext, Classical.choice, Quot.sound]
#print axioms Prtpy.BCProofs.runBranch_inv               -- [propext, Classical.choice, Quot.sound]
#print axioms Prtpy.BCProofs.bc_search_isPacking         -- [propext, Classical.choice, Quot.sound]
#print axioms Prtpy.BCProofs.bc_isPacking                -- [propext, Classical.choice, Quot.sound]
#print axioms Prtpy.BCProofs.isDom_sound                 -- [propext, Classical.choice, Quot.sound]
#print axioms Prtpy.BCProofs.isDom_sum_le                -- [propext, Classical.choice, Quot.sound]
#print axioms Prtpy.BCProofs.bc_bounds                   -- [propext, Classical.choice, Quot.sound]
#print axioms Prtpy.BCProofs.bc_optimal_of_eq_lowerBound -- [propext, Classical.choice, Quot.sound]
-/
