-- NOTE (round 7): sharper constants and partial absolute bounds are in FF17Abs.lean / FF17AbsB.lean; the reduction of the 11/9 gap is in FFD119Gap.lean / FFD119GapB.lean.
/-
  PrtpyProofs.FFD119 — property C09, towards Johnson's theorem `FFD ≤ 11/9 · OPT + c` for `ffDecreasing`
  (and `bfDecreasing`, and every any-fit rule on a sorted input) against `Packable B m`.

  Notation: `k` = number of bins of the run, `m` = any number of bins that suffices, `a` = the value of the item
  that opened the last bin (the first item of the last bin).  `PrtpyProofs.FFD` proves the two outer ranges
  (`a > B/3`: `k ≤ m`; `a ≤ 2B/11`: `9k ≤ 11m + 8`).  This file:

      ffd_/bfd_/gen_seven_sixths_of_last_quarter_third   B/4 < a ≤ B/3 :  6·(k − 1) ≤ 7·m      PROVED (tight class)
      ffd_/bfd_/gen_eleven_ninths_of_last_quarter_third  B/4 < a ≤ B/3 :  9·k ≤ 11·m + 6      PROVED  (task item (i))
      ffd_/bfd_/gen_five_fourths_of_last_fifth_quarter   B/5 < a ≤ B/4 :  4·(k − 1) ≤ 5·m      PROVED  (ratio 5/4 only)
      ffd_five_fourths, bfd_five_fourths, gen_sorted_five_fourths
                                                         every input   :  4·(k − 1) ≤ 5·m      PROVED  (new: 5/4·OPT + 1)
      ffd_/bfd_/gen_eleven_ninths_partial_outside_gap    a ∉ (2B/11, B/4] : 9·k ≤ 11·m + 8     PROVED  (task item (iv), partial)
      ffd_/bfd_eleven_ninths_of_opt_le_108               m ≤ 108       :  9·k ≤ 11·m + 36     PROVED  (corollary of 5/4)

  NOT proved: `9·k ≤ 11·m + c` for `2B/11 < a ≤ B/4` (task items (ii), (iii)), hence not `ffd_eleven_ninths` for
  every input.  In `B/5 < a ≤ B/4` the ratio `5/4` is proved, in `2B/11 < a ≤ B/5` only the volume bound
  `1/(1 − a/B) ≤ 5/4`.  What is missing, precisely: a weighting of the items of the normal form (below) for
  `2B/11 < a ≤ B/4` with every bin of the run `≥ 1` (up to `O(1)` bins) and every bin of the optimum `≤ 11/9`.
  Experiments (LP over item categories, scratch) show that such weights must depend on thresholds that depend on
  `a` (`(B − a)/3`, `(B − a)/2`, `3B/4 − a`, `B − 2a`, …; e.g. Johnson's family forces `23/36` and `13/36` for the
  two items of a bin `[1/2 + ε, 1/4 + 2ε]`), which is the long case analysis of the classical proofs
  (Johnson 1973, Baker 1985, Yue 1991, Dósa 2007).  No instance violating `9·FFD ≤ 11·OPT + 6` was found.

  Method.
  §2  Invariant of every any-fit rule on a sorted list (`SInv`): for a bin `L`, a later bin `L'` and the item `z` that
      opened `L'`, `L = pre ++ post` with `pre` (arrived before `z`) all `≥ z` and `Σ pre + z > B`, `post` (arrived
      later) all `≤ z`; every bin lists its items in non-increasing order.
  §3  The *normal form* `NF B a Ls`: the state at the moment an item `a` opens a new bin — all earlier items are `≥ a`,
      all bins are filled above `B − a`, and the invariant.  §6 (`last_bin_induction`): induction over the prefixes of
      the sorted list reduces every bound "`Φ k m` if the last bin was opened by an item with property `C`" to the
      normal form (this replaces the minimal counterexample of the classical proofs; no item is ever removed).
  §4  Weighting machinery: the items are decorated with a weight and a tag that makes them pairwise distinct
      (`DItem`, `deco`), so that weights may depend on the *position in the packing*, not only on the value;
      `weight_le_of_packable`: if every duplicate-free sub-collection that fits into one bin weighs `≤ c`, the total
      weight is `≤ c·m`.
  §5  Case (i), `B/4 < a ≤ B/3` (`count_quarter_third`): weights `1` (alone in its bin), `2/3, 1/3` (bin `[x, y]`,
      `x > B/2`), `1/2, 1/2` (bin `[x, y]`, `B/3 < y ≤ x ≤ B/2`), `1/3` (otherwise).  Every bin of the run weighs `≥ 1`
      except at most one bin (`−1/3`, compensated by `a` itself); every bin of the optimum weighs `≤ 7/6`: it holds
      at most three items, and two different items of weight `1/2` together exceed `B − a` (`wts1_pair`, from the
      invariant).  Hence `k − 1 ≤ 7/6 · m`, which with `3k ≤ 4m + 1` gives `9k ≤ 11m + 6`.
  §7  Case (ii) with `5/4` (`count_fifth_quarter`): weights by size class (`5/12` above `B/3`, `1/3` above `B/4`, `1/4`
      otherwise) except for the first item of a bin if it exceeds `B/2` and for the bins `[x, y]` with
      `B/3 < y ≤ x ≤ B/2`; every bin of the optimum weighs `≤ 5/4` (`opt_bin2`), every bin of the run `≥ 1` except at
      most two (`e1`, `e2`).
  §8  Theorems; §9 non-vacuity.

  Validation before proving (scratch, Python): the weight rules of §5 and §7 were checked on > 10⁵ random normal
  forms (`B` up to `10⁴`) by a knapsack search for the heaviest sub-collection that fits into one bin.
-/
import Prtpy
import PrtpyProofs.Fit
import PrtpyProofs.LPT43
import PrtpyProofs.FF17
import PrtpyProofs.FFD
open Prtpy

namespace Prtpy.FFD119

variable {α : Type}

/-! ## 1. The optimum as a list of bins of (arbitrary) items -/

/-- a feasible assignment of the values of `items`, presented as a list of `k` bins of items -/
theorem packable_partition' {β : Type} {v : β → Nat} {T k : Nat} {items : List β}
    (h : Packable T k (items.map v)) :
    ∃ Q : List (List β), Q.length = k ∧ Q.flatten.Perm items ∧ ∀ l ∈ Q, binSum v l ≤ T := by
  obtain ⟨asg, hasg, hT⟩ := h
  obtain ⟨h1, h2, h3, h4⟩ := Oracle.replay_spec v items asg (Bins.new k) (by simpa using hasg.1)
    (fun a ha => by simpa using hasg.2 a ha) (Part.new_consistent v k)
  refine ⟨_, by simpa using h1, by simpa [Part.new_flat] using h2, ?_⟩
  intro l hl
  apply hT
  have : binSum v l ∈ ((items.zip asg).foldl (fun b (p : β × Nat) => b.add v p.1 p.2) (Bins.new k)).sums := by
    rw [h3]
    exact List.mem_map.2 ⟨l, hl, rfl⟩
  rw [h4] at this
  simpa [Oracle.sumsOf_eq, Bins.new] using this

/-! ## 2. The invariant of any-fit rules on a sorted list

For a bin `L` and a *later* bin `L'` of a run of an any-fit rule (`Fit.Step`: first fit, best fit, …) on a list
sorted by non-increasing value, and the item `z` that opened `L'`: the items of `L` split into those that arrived
before `z` (`pre`, all `≥ z`, and `z` did not fit on top of them — otherwise it would not have opened a bin) and
those that arrived later (`post`, all `≤ z`). -/

def SRel (v : α → Nat) (B : Nat) (L L' : List α) : Prop :=
  ∀ z, L'.head? = some z → ∃ pre post, L = pre ++ post ∧ B < binSum v pre + v z ∧ (∀ u ∈ pre, v z ≤ v u) ∧
    (∀ u ∈ post, v u ≤ v z)

structure SInv (v : α → Nat) (B : Nat) (b : Bins α) : Prop where
  rel : ∀ i j (hi : i < b.lists.length) (hj : j < b.lists.length), i < j → SRel v B b.lists[i] b.lists[j]
  sorted : ∀ L ∈ b.lists, L.Pairwise (fun a c => v c ≤ v a)

theorem sinv_init (v : α → Nat) (B : Nat) : SInv v B (Bins.new 1 : Bins α) := by
  refine ⟨?_, ?_⟩
  · intro i j hi hj hij
    simp [Bins.new] at hi hj
    omega
  · intro L hL
    simp [Bins.new] at hL
    subst hL
    simp

theorem sinv_add {v : α → Nat} {B : Nat} {b : Bins α} (x : α) (i : Nat)
    (hne : 2 ≤ b.lists.length → ∀ L ∈ b.lists, L ≠ [])
    (hsmall : ∀ L ∈ b.lists, ∀ u ∈ L, v x ≤ v u) (h : SInv v B b) : SInv v B (b.add v x i) := by
  refine ⟨?_, ?_⟩
  · intro i' j hi' hj hij
    have hi'' : i' < b.lists.length := by simpa [Bins.add] using hi'
    have hj' : j < b.lists.length := by simpa [Bins.add] using hj
    simp only [Bins.add, List.getElem_modify]
    have hold := h.rel i' j hi'' hj' hij
    have hLj : b.lists[j] ≠ [] := hne (by omega) _ (List.getElem_mem hj')
    intro z hz
    have hz' : b.lists[j].head? = some z := by
      split at hz
      · cases hl : b.lists[j] with
        | nil => exact absurd hl hLj
        | cons y r => rw [hl] at hz; simpa using hz
      · exact hz
    obtain ⟨pre, post, he, hlt, hpre, hpost⟩ := hold z hz'
    by_cases hii : i = i'
    · subst hii
      rw [if_pos rfl]
      refine ⟨pre, post ++ [x], by rw [he, List.append_assoc], hlt, hpre, ?_⟩
      intro u hu
      rcases List.mem_append.1 hu with hu | hu
      · exact hpost u hu
      · simp only [List.mem_singleton] at hu
        subst hu
        exact hsmall _ (List.getElem_mem hj') z (List.mem_of_head? hz')
    · rw [if_neg hii]
      exact ⟨pre, post, he, hlt, hpre, hpost⟩
  · intro L hL
    simp only [Bins.add] at hL
    obtain ⟨k, hk, rfl⟩ := List.getElem_of_mem hL
    have hk' : k < b.lists.length := by simpa using hk
    rw [List.getElem_modify]
    split
    · rw [List.pairwise_append]
      refine ⟨h.sorted _ (List.getElem_mem hk'), by simp, ?_⟩
      intro u hu c hc'
      simp only [List.mem_singleton] at hc'
      subst hc'
      exact hsmall _ (List.getElem_mem hk') u hu
    · exact h.sorted _ (List.getElem_mem hk')

theorem sinv_new {v : α → Nat} {B : Nat} {b : Bins α} (x : α)
    (hc : b.sums = b.lists.map (binSum v)) (hno : ∀ s ∈ b.sums, ¬ s + v x ≤ B)
    (hsmall : ∀ L ∈ b.lists, ∀ u ∈ L, v x ≤ v u) (h : SInv v B b) :
    SInv v B ⟨b.sums ++ [v x], b.lists ++ [[x]]⟩ := by
  refine ⟨?_, ?_⟩
  · intro i j hi hj hij
    simp only [List.length_append, List.length_cons, List.length_nil] at hi hj
    have hi' : i < b.lists.length := by omega
    simp only [List.getElem_append_left hi']
    by_cases hjl : j < b.lists.length
    · simp only [List.getElem_append_left hjl]
      exact h.rel i j hi' hjl hij
    · have hj' : j = b.lists.length := by omega
      subst hj'
      simp only [List.getElem_append_right (Nat.le_refl _), Nat.sub_self, List.getElem_cons_zero]
      intro z hz
      simp only [List.head?_cons, Option.some.injEq] at hz
      subst hz
      have hmem : binSum v b.lists[i] ∈ b.sums := by
        rw [hc]; exact List.mem_map.2 ⟨_, List.getElem_mem hi', rfl⟩
      have := hno _ hmem
      exact ⟨b.lists[i], [], by simp, by omega, fun u hu => hsmall _ (List.getElem_mem hi') u hu, by simp⟩
  · intro L hL
    simp only [List.mem_append, List.mem_singleton] at hL
    rcases hL with hL | rfl
    · exact h.sorted L hL
    · simp

/-- the invariant along a run of an any-fit rule on a sorted list -/
theorem sinv_foldl {v : α → Nat} {B : Nat} (step : Bins α → α → Bins α)
    (hstep : ∀ b x, Fit.Step v B b x (step b x)) :
    ∀ (xs seen : List α) (b : Bins α), (∀ x ∈ xs, v x ≤ B) →
    (seen ++ xs).Pairwise (fun a c => v c ≤ v a) →
    Fit.Inv v B seen b → SInv v B b → SInv v B (xs.foldl step b)
  | [], _, _, _, _, _, h => h
  | x :: xs, seen, b, hxs, hsorted, hinv, h => by
    have hinv' := Fit.inv_step (hxs x List.mem_cons_self) (hstep b x) hinv
    have hl := hinv.len
    have hsmall : ∀ L ∈ b.lists, ∀ u ∈ L, v x ≤ v u := by
      intro L hL u hu
      have hu' : u ∈ seen := hinv.perm.mem_iff.1 (List.mem_flatten.2 ⟨L, hL, hu⟩)
      rw [List.pairwise_append] at hsorted
      exact hsorted.2.2 u hu' x List.mem_cons_self
    refine sinv_foldl step hstep xs (seen ++ [x]) (step b x)
      (fun y hy => hxs y (List.mem_cons_of_mem _ hy)) (by simpa using hsorted) hinv' ?_
    rcases hstep b x with ⟨i, hi, _, he⟩ | ⟨hno, he⟩
    · rw [he]
      refine sinv_add x i ?_ hsmall h
      intro h2 L hL
      by_cases hseen : seen = []
      · have := hinv.first hseen
        rw [this] at h2
        simp at h2
      · exact hinv.nonempty hseen L hL
    · rw [he, Fit.addEmpty_add v b x hl]
      exact sinv_new x hinv.cons hno hsmall h

/-! ## 3. The normal form, on lists of values

`Ls` are the bins (lists of values, in order of arrival) that are open when an item of value `a` opens a new bin
in a first-fit run on a sorted list. -/

/-- the value form of `SRel` -/
def VRel (B : Nat) (L L' : List Nat) : Prop :=
  ∀ z, L'.head? = some z →
    ∃ pre post, L = pre ++ post ∧ B < sumL pre + z ∧ (∀ u ∈ pre, z ≤ u) ∧ (∀ u ∈ post, u ≤ z)

structure NF (B a : Nat) (Ls : List (List Nat)) : Prop where
  /-- every packed item is at least `a` -/
  ge : ∀ L ∈ Ls, ∀ y ∈ L, a ≤ y
  /-- `a` fits nowhere -/
  full : ∀ L ∈ Ls, B < sumL L + a
  le : ∀ L ∈ Ls, sumL L ≤ B
  sorted : ∀ L ∈ Ls, L.Pairwise (fun x y => y ≤ x)
  rel : Ls.Pairwise (VRel B)

theorem SRel.toV {v : α → Nat} {B : Nat} {L L' : List α} (h : SRel v B L L') :
    VRel B (L.map v) (L'.map v) := by
  intro z hz
  rw [List.head?_map] at hz
  obtain ⟨z0, hz0, rfl⟩ := Option.map_eq_some_iff.1 hz
  obtain ⟨pre, post, he, hlt, hpre, hpost⟩ := h z0 hz0
  refine ⟨pre.map v, post.map v, by rw [he, List.map_append], hlt, ?_, ?_⟩
  · intro u hu
    obtain ⟨u0, hu0, rfl⟩ := List.mem_map.1 hu
    exact hpre u0 hu0
  · intro u hu
    obtain ⟨u0, hu0, rfl⟩ := List.mem_map.1 hu
    exact hpost u0 hu0

/-- the state of a first-fit run on a sorted list at the moment an item `x` opens a new bin -/
theorem nf_of_run {v : α → Nat} {B : Nat} {P : List α} {b : Bins α} {x : α}
    (hinv : Fit.Inv v B P b) (hsi : SInv v B b) (hs : ∀ p ∈ P, v x ≤ v p)
    (hno : ∀ s ∈ b.sums, ¬ s + v x ≤ B) : NF B (v x) (b.lists.map (List.map v)) := by
  refine ⟨?_, ?_, ?_, ?_, ?_⟩
  · intro L hL y hy
    obtain ⟨L0, hL0, rfl⟩ := List.mem_map.1 hL
    obtain ⟨y0, hy0, rfl⟩ := List.mem_map.1 hy
    exact hs y0 (hinv.perm.mem_iff.1 (List.mem_flatten.2 ⟨L0, hL0, hy0⟩))
  · intro L hL
    obtain ⟨L0, hL0, rfl⟩ := List.mem_map.1 hL
    have : binSum v L0 ∈ b.sums := by rw [hinv.cons]; exact List.mem_map.2 ⟨L0, hL0, rfl⟩
    have := hno _ this
    have e : binSum v L0 = sumL (L0.map v) := rfl
    omega
  · intro L hL
    obtain ⟨L0, hL0, rfl⟩ := List.mem_map.1 hL
    have : binSum v L0 ∈ b.sums := by rw [hinv.cons]; exact List.mem_map.2 ⟨L0, hL0, rfl⟩
    exact hinv.le _ this
  · intro L hL
    obtain ⟨L0, hL0, rfl⟩ := List.mem_map.1 hL
    rw [List.pairwise_map]
    exact hsi.sorted L0 hL0
  · rw [List.pairwise_map, List.pairwise_iff_getElem]
    intro i j hi hj hij
    exact (hsi.rel i j hi hj hij).toV

/-! ## 4. Decorated items: value, weight, and a tag (bin, position) that makes them pairwise distinct -/

structure DItem where
  val : Nat
  wt : Nat
  bin : Nat
  pos : Nat
deriving DecidableEq

/-- the items of bin number `i`, from position `p` on, with the weights `ws` (missing weights are `0`) -/
def mk (i : Nat) : Nat → List Nat → List Nat → List DItem
  | _, [], _ => []
  | p, x :: xs, [] => ⟨x, 0, i, p⟩ :: mk i (p + 1) xs []
  | p, x :: xs, w :: ws => ⟨x, w, i, p⟩ :: mk i (p + 1) xs ws

/-- all bins from number `i` on, with the weight rule `wts` -/
def deco (wts : List Nat → List Nat) : Nat → List (List Nat) → List DItem
  | _, [] => []
  | i, L :: Ls => mk i 0 L (wts L) ++ deco wts (i + 1) Ls

theorem mk_val (i : Nat) : ∀ (p : Nat) (L ws : List Nat), (mk i p L ws).map DItem.val = L
  | _, [], _ => rfl
  | p, x :: xs, [] => by simp [mk, mk_val i (p + 1) xs []]
  | p, x :: xs, w :: ws => by simp [mk, mk_val i (p + 1) xs ws]

theorem mk_tag (i : Nat) : ∀ (p : Nat) (L ws : List Nat), ∀ e ∈ mk i p L ws, e.bin = i ∧ p ≤ e.pos
  | _, [], _, e, he => by simp [mk] at he
  | p, x :: xs, [], e, he => by
    simp only [mk, List.mem_cons] at he
    rcases he with rfl | he
    · simp
    · have := mk_tag i (p + 1) xs [] e he; omega
  | p, x :: xs, w :: ws, e, he => by
    simp only [mk, List.mem_cons] at he
    rcases he with rfl | he
    · simp
    · have := mk_tag i (p + 1) xs ws e he; omega

theorem mk_nodup (i : Nat) : ∀ (p : Nat) (L ws : List Nat), (mk i p L ws).Nodup
  | _, [], _ => by simp [mk]
  | p, x :: xs, [] => by
    simp only [mk, List.nodup_cons]
    refine ⟨fun h => ?_, mk_nodup i (p + 1) xs []⟩
    have := (mk_tag i (p + 1) xs [] _ h).2
    simp at this
  | p, x :: xs, w :: ws => by
    simp only [mk, List.nodup_cons]
    refine ⟨fun h => ?_, mk_nodup i (p + 1) xs ws⟩
    have := (mk_tag i (p + 1) xs ws _ h).2
    simp at this

theorem deco_val (wts : List Nat → List Nat) : ∀ (i : Nat) (Ls : List (List Nat)),
    (deco wts i Ls).map DItem.val = Ls.flatten
  | _, [] => rfl
  | i, L :: Ls => by simp [deco, mk_val, deco_val wts (i + 1) Ls]

theorem deco_tag (wts : List Nat → List Nat) : ∀ (i : Nat) (Ls : List (List Nat)),
    ∀ e ∈ deco wts i Ls, i ≤ e.bin ∧ e.bin < i + Ls.length
  | _, [], e, he => by simp [deco] at he
  | i, L :: Ls, e, he => by
    simp only [deco, List.mem_append] at he
    rcases he with he | he
    · have := (mk_tag i 0 L (wts L) e he).1; simp; omega
    · have := deco_tag wts (i + 1) Ls e he; simp; omega

theorem deco_nodup (wts : List Nat → List Nat) : ∀ (i : Nat) (Ls : List (List Nat)), (deco wts i Ls).Nodup
  | _, [] => by simp [deco]
  | i, L :: Ls => by
    simp only [deco]
    rw [List.nodup_append]
    refine ⟨mk_nodup i 0 L (wts L), deco_nodup wts (i + 1) Ls, ?_⟩
    intro e he e' he' hee
    subst hee
    have h1 := (mk_tag i 0 L (wts L) e he).1
    have h2 := (deco_tag wts (i + 1) Ls e he').1
    omega

/-- weight of a bin under the rule -/
def binWt (wts : List Nat → List Nat) (L : List Nat) : Nat := binSum DItem.wt (mk 0 0 L (wts L))

theorem mk_wt (i p : Nat) : ∀ (L ws : List Nat) (i' p' : Nat),
    binSum DItem.wt (mk i p L ws) = binSum DItem.wt (mk i' p' L ws)
  | [], _, _, _ => rfl
  | x :: xs, [], i', p' => by
    simp only [mk, Fit.binSum_cons]
    rw [mk_wt i (p + 1) xs [] i' (p' + 1)]
  | x :: xs, w :: ws, i', p' => by
    simp only [mk, Fit.binSum_cons]
    rw [mk_wt i (p + 1) xs ws i' (p' + 1)]

theorem deco_wt (wts : List Nat → List Nat) : ∀ (i : Nat) (Ls : List (List Nat)),
    binSum DItem.wt (deco wts i Ls) = sumL (Ls.map (binWt wts))
  | _, [] => rfl
  | i, L :: Ls => by
    simp only [deco, Fit.binSum_append, List.map_cons, sumL, deco_wt wts (i + 1) Ls, binWt]
    rw [mk_wt i 0 L (wts L) 0 0]

/-- where a decorated item comes from -/
theorem deco_mem (wts : List Nat → List Nat) : ∀ (i : Nat) (Ls : List (List Nat)),
    ∀ e ∈ deco wts i Ls, ∃ L ∈ Ls, ∃ j, e ∈ mk j 0 L (wts L)
  | _, [], e, he => by simp [deco] at he
  | i, L :: Ls, e, he => by
    simp only [deco, List.mem_append] at he
    rcases he with he | he
    · exact ⟨L, by simp, i, he⟩
    · obtain ⟨L', hL', j, hj⟩ := deco_mem wts (i + 1) Ls e he
      exact ⟨L', List.mem_cons_of_mem _ hL', j, hj⟩

/-- where two different decorated items come from: the same bin, or two bins in one of the two orders -/
theorem deco_mem2 (wts : List Nat → List Nat) {R : List Nat → List Nat → Prop} :
    ∀ (i : Nat) (Ls : List (List Nat)), Ls.Pairwise R → ∀ e ∈ deco wts i Ls, ∀ e' ∈ deco wts i Ls,
    (∃ L ∈ Ls, ∃ j, e ∈ mk j 0 L (wts L) ∧ e' ∈ mk j 0 L (wts L)) ∨
    (∃ L ∈ Ls, ∃ L' ∈ Ls, ∃ j j', R L L' ∧ e ∈ mk j 0 L (wts L) ∧ e' ∈ mk j' 0 L' (wts L')) ∨
    (∃ L ∈ Ls, ∃ L' ∈ Ls, ∃ j j', R L L' ∧ e' ∈ mk j 0 L (wts L) ∧ e ∈ mk j' 0 L' (wts L'))
  | _, [], _, e, he, _, _ => by simp [deco] at he
  | i, L :: Ls, hp, e, he, e', he' => by
    rw [List.pairwise_cons] at hp
    simp only [deco, List.mem_append] at he he'
    rcases he with he | he <;> rcases he' with he' | he'
    · exact Or.inl ⟨L, by simp, i, he, he'⟩
    · obtain ⟨L', hL', j, hj⟩ := deco_mem wts (i + 1) Ls e' he'
      exact Or.inr (Or.inl ⟨L, by simp, L', List.mem_cons_of_mem _ hL', i, j, hp.1 L' hL', he, hj⟩)
    · obtain ⟨L', hL', j, hj⟩ := deco_mem wts (i + 1) Ls e he
      exact Or.inr (Or.inr ⟨L, by simp, L', List.mem_cons_of_mem _ hL', i, j, hp.1 L' hL', he', hj⟩)
    · rcases deco_mem2 wts (i + 1) Ls hp.2 e he e' he' with ⟨M, hM, j, h1, h2⟩ | ⟨M, hM, M', hM', j, j', hr, h1, h2⟩ |
        ⟨M, hM, M', hM', j, j', hr, h1, h2⟩
      · exact Or.inl ⟨M, List.mem_cons_of_mem _ hM, j, h1, h2⟩
      · exact Or.inr (Or.inl ⟨M, List.mem_cons_of_mem _ hM, M', List.mem_cons_of_mem _ hM', j, j', hr, h1, h2⟩)
      · exact Or.inr (Or.inr ⟨M, List.mem_cons_of_mem _ hM, M', List.mem_cons_of_mem _ hM', j, j', hr, h1, h2⟩)

/-- the optimum's side: if every bin of the optimum weighs at most `c`, the total weight is at most `c · m` -/
theorem groups_le (c : Nat) : ∀ Q : List (List DItem), (∀ T ∈ Q, binSum DItem.wt T ≤ c) →
    binSum DItem.wt Q.flatten ≤ c * Q.length
  | [], _ => by simp [binSum, sumL]
  | T :: Q, h => by
    have h1 := h T List.mem_cons_self
    have h2 := groups_le c Q (fun T' hT' => h T' (List.mem_cons_of_mem _ hT'))
    simp only [List.flatten_cons, Fit.binSum_append, List.length_cons, Nat.mul_succ]
    omega

/-- **the weighting argument**: decorated items `D` whose values fit into `m` bins; if every duplicate-free
    sub-collection of `D` that fits into one bin weighs at most `c`, then `D` weighs at most `c · m` -/
theorem weight_le_of_packable {B m c : Nat} {D : List DItem} (hnd : D.Nodup)
    (hm : Packable B m (D.map DItem.val))
    (hT : ∀ T : List DItem, T.Nodup → (∀ e ∈ T, e ∈ D) → binSum DItem.val T ≤ B → binSum DItem.wt T ≤ c) :
    binSum DItem.wt D ≤ c * m := by
  obtain ⟨Q, hk, hp, hle⟩ := packable_partition' hm
  rw [← Fit.binSum_perm hp, ← hk]
  apply groups_le
  intro T hTQ
  have hnd' : Q.flatten.Nodup := hp.nodup_iff.2 hnd
  exact hT T (hnd'.sublist (List.sublist_flatten_of_mem hTQ)) (fun e he => hp.mem_iff.1 (List.mem_flatten.2 ⟨T, hTQ, he⟩)) (hle T hTQ)

theorem mk_const (i c : Nat) : ∀ (p : Nat) (L : List Nat), ∀ e ∈ mk i p L (L.map fun _ => c),
    e.wt = c ∧ e.val ∈ L
  | _, [], e, he => by simp [mk] at he
  | p, x :: xs, e, he => by
    simp only [List.map_cons, mk, List.mem_cons] at he
    rcases he with rfl | he
    · simp
    · have := mk_const i c (p + 1) xs e he
      exact ⟨this.1, List.mem_cons_of_mem _ this.2⟩

theorem mk_const_wt (i c : Nat) : ∀ (p : Nat) (L : List Nat),
    binSum DItem.wt (mk i p L (L.map fun _ => c)) = c * L.length
  | _, [] => by simp [mk, binSum, sumL]
  | p, x :: xs => by
    simp only [List.map_cons, mk, Fit.binSum_cons, mk_const_wt i c (p + 1) xs, List.length_cons, Nat.mul_succ]
    omega

theorem split2 {x y : Nat} {pre post : List Nat} (h : [x, y] = pre ++ post) :
    (pre = [] ∧ post = [x, y]) ∨ (pre = [x] ∧ post = [y]) ∨ (pre = [x, y] ∧ post = []) := by
  match pre, h with
  | [], h => simp at h; simp [h]
  | [p], h => simp at h; simp [h]
  | [p, q], h => simp at h; simp [h]
  | _ :: _ :: _ :: _, h => simp at h

theorem countP_le_one {β : Type} {R : β → β → Prop} (p : β → Bool) : ∀ l : List β, l.Pairwise R →
    (∀ x ∈ l, ∀ y ∈ l, R x y → p x = true → p y = true → False) → l.countP p ≤ 1
  | [], _, _ => by simp
  | x :: l, hp, h => by
    rw [List.pairwise_cons] at hp
    have ih := countP_le_one p l hp.2 (fun a ha c hc => h a (List.mem_cons_of_mem _ ha) c (List.mem_cons_of_mem _ hc))
    by_cases hx : p x = true
    · have h0 : l.countP p = 0 := by
        rw [List.countP_eq_zero]
        intro y hy hpy
        exact h x List.mem_cons_self y (List.mem_cons_of_mem _ hy) (hp.1 y hy) hx hpy
      rw [List.countP_cons_of_pos hx, h0]
    · rw [List.countP_cons_of_neg hx]
      exact ih

/-! ## 5. Case (i): `B/4 < a ≤ B/3`

Weights in units of `1/6`: a bin with one item: `6`; a bin `[x, y]`: `4, 2` if `x > B/2`, else `3, 3` if
`y > B/3`, else `2, 2` (at most one such bin); bins with three items: `2, 2, 2`.  Every bin of the optimum weighs
at most `7`. -/

def wts1 (B : Nat) : List Nat → List Nat
  | [_] => [6]
  | [x, y] => if B < 2 * x then [4, 2] else if B < 3 * y then [3, 3] else [2, 2]
  | L => L.map fun _ => 2

/-- the exceptional bin -/
def exc1 (B : Nat) : List Nat → Bool
  | [x, y] => decide (2 * x ≤ B) && decide (3 * y ≤ B)
  | _ => false

theorem wts1_facts {B a j : Nat} {L : List Nat} (hge : ∀ y ∈ L, a ≤ y) (hfull : B < sumL L + a) :
    ∀ e ∈ mk j 0 L (wts1 B L), a ≤ e.val ∧ (e.wt = 2 ∨ e.wt = 3 ∨ e.wt = 4 ∨ e.wt = 6) ∧
      (e.wt = 6 → B < e.val + a) ∧ (e.wt = 4 → B < 2 * e.val) ∧
      (e.wt = 3 → ∃ x y, L = [x, y] ∧ 2 * x ≤ B ∧ B < 3 * y ∧ (e = ⟨x, 3, j, 0⟩ ∨ e = ⟨y, 3, j, 1⟩)) := by
  intro e he
  match L, hge, hfull, he with
  | [], _, _, he => simp [mk] at he
  | [x], hge, hfull, he =>
    simp only [wts1, mk, List.mem_singleton] at he
    subst he
    have := hge x (by simp)
    simp only [sumL] at hfull
    simp
    omega
  | [x, y], hge, hfull, he =>
    have hx := hge x (by simp)
    have hy := hge y (by simp)
    simp only [sumL] at hfull
    simp only [wts1] at he
    split at he
    · simp only [mk, List.mem_cons, List.not_mem_nil, or_false] at he
      rcases he with rfl | rfl <;> (simp; omega)
    · split at he
      · simp only [mk, List.mem_cons, List.not_mem_nil, or_false] at he
        rcases he with rfl | rfl
        · refine ⟨hx, by simp, by simp, by simp, fun _ => ⟨x, y, rfl, by omega, by omega, Or.inl rfl⟩⟩
        · refine ⟨hy, by simp, by simp, by simp, fun _ => ⟨x, y, rfl, by omega, by omega, Or.inr rfl⟩⟩
      · simp only [mk, List.mem_cons, List.not_mem_nil, or_false] at he
        rcases he with rfl | rfl <;> (simp; omega)
  | x :: y :: z :: r, hge, _, he =>
    have h1 : wts1 B (x :: y :: z :: r) = (x :: y :: z :: r).map fun _ => 2 := by simp [wts1]
    rw [h1] at he
    obtain ⟨hw, hv⟩ := mk_const j 2 0 _ e he
    exact ⟨hge _ hv, by omega, by omega, by omega, by omega⟩

theorem binWt1_ge {B : Nat} {L : List Nat} (hne : L ≠ []) :
    6 ≤ binWt (wts1 B) L + (if exc1 B L then 2 else 0) := by
  match L, hne with
  | [x], _ => simp [binWt, wts1, mk, binSum, sumL]
  | [x, y], _ =>
    simp only [binWt, wts1, exc1]
    split
    · simp [mk, binSum, sumL]
    · split
      · simp [mk, binSum, sumL]
      · have h1 : 2 * x ≤ B := by omega
        have h2 : 3 * y ≤ B := by omega
        simp [mk, binSum, sumL, h1, h2]
  | x :: y :: z :: r, _ =>
    have h1 : wts1 B (x :: y :: z :: r) = (x :: y :: z :: r).map fun _ => 2 := by simp [wts1]
    rw [binWt, h1, mk_const_wt]
    simp
    omega

theorem exc1_unique {B a : Nat} {L L' : List Nat} (h3 : 3 * a ≤ B) (hr : VRel B L L')
    (hfull : B < sumL L' + a) (hsorted : L'.Pairwise (fun x y => y ≤ x))
    (h : exc1 B L = true) (h' : exc1 B L' = true) : False := by
  match L, L', h, h' with
  | [x, y], [x', y'], h, h' =>
    simp only [exc1, Bool.and_eq_true, decide_eq_true_eq] at h h'
    simp only [sumL] at hfull
    simp only [List.pairwise_cons, List.mem_singleton, forall_eq] at hsorted
    have hxy := hsorted.1
    obtain ⟨pre, post, he, hlt, hpre, _⟩ := hr x' (by simp)
    rcases split2 he with ⟨rfl, rfl⟩ | ⟨rfl, rfl⟩ | ⟨rfl, rfl⟩
    · simp only [sumL] at hlt; omega
    · simp only [sumL] at hlt; omega
    · have := hpre y (by simp); omega

theorem wts1_pair {B a j j' : Nat} {L L' : List Nat} (hr : VRel B L L')
    (hge : ∀ y ∈ L, a ≤ y) (hfull : B < sumL L + a)
    (hge' : ∀ y ∈ L', a ≤ y) (hfull' : B < sumL L' + a)
    (hs : L.Pairwise (fun x y => y ≤ x)) (hs' : L'.Pairwise (fun x y => y ≤ x))
    {e e' : DItem} (he : e ∈ mk j 0 L (wts1 B L)) (he' : e' ∈ mk j' 0 L' (wts1 B L'))
    (hw : e.wt = 3) (hw' : e'.wt = 3) : B < e.val + e'.val + a := by
  obtain ⟨x, y, rfl, hx, hy, hxy⟩ := (wts1_facts hge hfull e he).2.2.2.2 hw
  obtain ⟨x', y', rfl, hx', hy', hxy'⟩ := (wts1_facts hge' hfull' e' he').2.2.2.2 hw'
  simp only [List.pairwise_cons, List.mem_singleton, forall_eq] at hs hs'
  have h1 := hs.1
  have h2 := hs'.1
  simp only [sumL] at hfull'
  obtain ⟨pre, post, hsplit, hlt, hpre, _⟩ := hr x' (by simp)
  have hval : y ≤ e.val := by rcases hxy with rfl | rfl <;> (simp; try omega)
  have hval' : y' ≤ e'.val := by rcases hxy' with rfl | rfl <;> (simp; try omega)
  rcases split2 hsplit with ⟨rfl, rfl⟩ | ⟨rfl, rfl⟩ | ⟨rfl, rfl⟩
  · simp only [sumL] at hlt; omega
  · simp only [sumL] at hlt; omega
  · have := hpre y (by simp); omega

theorem wts1_same {B a j : Nat} {L : List Nat} (hge : ∀ y ∈ L, a ≤ y) (hfull : B < sumL L + a)
    {e e' : DItem} (he : e ∈ mk j 0 L (wts1 B L)) (he' : e' ∈ mk j 0 L (wts1 B L)) (hne : e ≠ e')
    (hw : e.wt = 3) (hw' : e'.wt = 3) : B < e.val + e'.val + a := by
  obtain ⟨x, y, rfl, hx, hy, hxy⟩ := (wts1_facts hge hfull e he).2.2.2.2 hw
  obtain ⟨x', y', hL, _, _, hxy'⟩ := (wts1_facts hge hfull e' he').2.2.2.2 hw'
  simp only [List.cons.injEq, and_true] at hL
  obtain ⟨rfl, rfl⟩ := hL
  simp only [sumL] at hfull
  rcases hxy with rfl | rfl <;> rcases hxy' with rfl | rfl
  · exact absurd rfl hne
  · simp; omega
  · simp; omega
  · exact absurd rfl hne

/-- every bin of the optimum weighs at most `7/6` -/
theorem opt_bin1 {B a : Nat} (hB : B < 4 * a) (T : List DItem) (hnd : T.Nodup)
    (h1 : ∀ e ∈ T, a ≤ e.val ∧ (e.wt = 2 ∨ e.wt = 3 ∨ e.wt = 4 ∨ e.wt = 6) ∧ (e.wt = 6 → B < e.val + a) ∧
      (e.wt = 4 → B < 2 * e.val))
    (h2 : ∀ e ∈ T, ∀ e' ∈ T, e ≠ e' → e.wt = 3 → e'.wt = 3 → B < e.val + e'.val + a)
    (hs : binSum DItem.val T ≤ B) : binSum DItem.wt T ≤ 7 := by
  match T, hnd, h1, h2, hs with
  | [], _, _, _, _ => simp [binSum, sumL]
  | [e], _, h1, _, hs =>
    have := h1 e (by simp)
    simp only [binSum, List.map_cons, List.map_nil, sumL] at hs ⊢
    omega
  | [e1, e2], hnd, h1, h2, hs =>
    have f1 := h1 e1 (by simp)
    have f2 := h1 e2 (by simp)
    simp only [binSum, List.map_cons, List.map_nil, sumL] at hs ⊢
    omega
  | [e1, e2, e3], hnd, h1, h2, hs =>
    have f1 := h1 e1 (by simp)
    have f2 := h1 e2 (by simp)
    have f3 := h1 e3 (by simp)
    simp only [List.nodup_cons, List.mem_cons, List.not_mem_nil, or_false, not_or] at hnd
    have g12 := h2 e1 (by simp) e2 (by simp) hnd.1.1
    have g13 := h2 e1 (by simp) e3 (by simp) hnd.1.2
    have g23 := h2 e2 (by simp) e3 (by simp) hnd.2.1
    simp only [binSum, List.map_cons, List.map_nil, sumL] at hs ⊢
    omega
  | e1 :: e2 :: e3 :: e4 :: r, _, h1, _, hs =>
    have f1 := h1 e1 (by simp)
    have f2 := h1 e2 (by simp)
    have f3 := h1 e3 (by simp)
    have f4 := h1 e4 (by simp)
    simp only [binSum, List.map_cons, sumL] at hs
    omega

/-- **case (i), on the normal form**: `6·(k − 1) ≤ 7·m` -/
theorem count_quarter_third {B a m : Nat} {Ls : List (List Nat)} (hnf : NF B a Ls) (h4 : B < 4 * a)
    (h3 : 3 * a ≤ B) (hm : Packable B m (Ls.flatten ++ [a])) : 6 * Ls.length ≤ 7 * m := by
  let D : List DItem := deco (wts1 B) 0 Ls ++ [⟨a, 2, Ls.length, 0⟩]
  have hnd : D.Nodup := by
    rw [List.nodup_append]
    refine ⟨deco_nodup _ 0 Ls, by simp, ?_⟩
    intro e he e' he' hee
    simp only [List.mem_singleton] at he'
    subst hee
    have := (deco_tag _ 0 Ls e he).2
    rw [he'] at this
    simp at this
  have hval : D.map DItem.val = Ls.flatten ++ [a] := by
    simp only [D, List.map_append, deco_val, List.map_cons, List.map_nil]
  have hwt : binSum DItem.wt D = sumL (Ls.map (binWt (wts1 B))) + 2 := by
    simp only [D, Fit.binSum_append, deco_wt]
    simp [binSum, sumL]
  have hne : ∀ L ∈ Ls, L ≠ [] := by
    intro L hL h0
    have := hnf.full L hL
    rw [h0] at this
    simp only [sumL] at this
    omega
  -- the run's side
  have hcount : Ls.countP (exc1 B) ≤ 1 := countP_le_one (R := VRel B) _ Ls hnf.rel (by
    intro L hL L' hL' hr h h'
    exact exc1_unique h3 hr (hnf.full L' hL') (hnf.sorted L' hL') h h')
  have hsum : ∀ Ms : List (List Nat), (∀ L ∈ Ms, L ≠ []) →
      6 * Ms.length ≤ sumL (Ms.map (binWt (wts1 B))) + 2 * Ms.countP (exc1 B) := by
    intro Ms
    induction Ms with
    | nil => intro _; simp [sumL]
    | cons L Ms ih =>
      intro h
      have h1 := binWt1_ge (B := B) (h L (by simp))
      have h2 := ih (fun M hM => h M (List.mem_cons_of_mem _ hM))
      simp only [List.length_cons, List.map_cons, sumL, List.countP_cons]
      split at h1 <;> rename_i hc <;> simp [hc] <;> omega
  have hrun := hsum Ls hne
  -- the optimum's side
  have hopt := weight_le_of_packable (B := B) (m := m) (c := 7) hnd (by rw [hval]; exact hm) (by
    intro T hTnd hTD hTs
    have hfacts : ∀ e ∈ D, a ≤ e.val ∧ (e.wt = 2 ∨ e.wt = 3 ∨ e.wt = 4 ∨ e.wt = 6) ∧
        (e.wt = 6 → B < e.val + a) ∧ (e.wt = 4 → B < 2 * e.val) := by
      intro e he
      simp only [D, List.mem_append, List.mem_singleton] at he
      rcases he with he | rfl
      · obtain ⟨L, hL, j, hj⟩ := deco_mem _ 0 Ls e he
        have := wts1_facts (hnf.ge L hL) (hnf.full L hL) e hj
        exact ⟨this.1, this.2.1, this.2.2.1, this.2.2.2.1⟩
      · simp
    apply opt_bin1 h4 T hTnd (fun e he => hfacts e (hTD e he)) _ hTs
    intro e he e' he' hne' hw hw'
    have hd : ∀ e ∈ D, e.wt = 3 → e ∈ deco (wts1 B) 0 Ls := by
      intro e he hw
      simp only [D, List.mem_append, List.mem_singleton] at he
      rcases he with he | rfl
      · exact he
      · simp at hw
    rcases deco_mem2 (wts1 B) 0 Ls hnf.rel e (hd e (hTD e he) hw) e' (hd e' (hTD e' he') hw') with
      ⟨L, hL, j, h1, h2⟩ | ⟨L, hL, L', hL', j, j', hr, h1, h2⟩ | ⟨L, hL, L', hL', j, j', hr, h1, h2⟩
    · exact wts1_same (hnf.ge L hL) (hnf.full L hL) h1 h2 hne' hw hw'
    · exact wts1_pair hr (hnf.ge L hL) (hnf.full L hL) (hnf.ge L' hL') (hnf.full L' hL') (hnf.sorted L hL)
        (hnf.sorted L' hL') h1 h2 hw hw'
    · have := wts1_pair hr (hnf.ge L hL) (hnf.full L hL) (hnf.ge L' hL') (hnf.full L' hL') (hnf.sorted L hL)
        (hnf.sorted L' hL') h1 h2 hw' hw
      omega)
  omega

/-! ## 6. From the run to the normal form: induction over the prefixes of the sorted list -/

theorem getLast?_modify_snoc {β : Type} {l : List (List β)} {i : Nat} {y x : β} {L : List β}
    (h : (l.modify i (· ++ [y])).getLast? = some (x :: L)) (hne : ∀ M ∈ l, M ≠ []) :
    ∃ L', l.getLast? = some (x :: L') := by
  rw [List.getLast?_eq_getElem?, List.length_modify] at h
  rw [List.getLast?_eq_getElem?]
  have hlen : l.length - 1 < l.length := by
    apply Nat.lt_of_not_le
    intro hle
    rw [List.getElem?_eq_none (by simpa using hle)] at h
    simp at h
  rw [List.getElem?_eq_getElem (by simpa using hlen)] at h
  rw [List.getElem?_eq_getElem hlen]
  simp only [Option.some.injEq, List.getElem_modify] at h ⊢
  have hM := hne _ (List.getElem_mem hlen)
  split at h
  · match hl : l[l.length - 1], hM with
    | x0 :: L0, _ =>
      rw [hl] at h
      simp only [List.cons_append, List.cons.injEq] at h
      exact ⟨L0, by rw [h.1]⟩
  · exact ⟨L, h⟩

/-- **prefix induction**: a bound `Φ k m` that holds (a) for one bin and (b) in the normal form, i.e. at every
    moment an item with property `C` opens a new bin, holds for every run of an any-fit rule on a sorted list
    whose last bin was opened by an item with property `C` -/
theorem last_bin_induction {v : α → Nat} {B : Nat} {step : Bins α → α → Bins α}
    (hstep : ∀ b x, Fit.Step v B b x (step b x)) (C : Nat → Prop) (Φ : Nat → Nat → Prop)
    (hone : ∀ m, 1 ≤ m → Φ 1 m)
    (hnew : ∀ (a m : Nat) (Ls : List (List Nat)), C a → NF B a Ls → Packable B m (Ls.flatten ++ [a]) →
      Φ (Ls.length + 1) m) :
    ∀ xs : List α, xs.Pairwise (fun a c => v c ≤ v a) → xs ≠ [] → ∀ m, Packable B m (xs.map v) →
      ∀ x L, (xs.foldl step (Bins.new 1)).lists.getLast? = some (x :: L) → C (v x) →
      Φ (xs.foldl step (Bins.new 1)).lists.length m := by
  intro xs
  induction xs using Oracle.rev_induction with
  | nil => intro _ h; exact absurd rfl h
  | snoc P y ih =>
    intro hs _ m hf x L hlast hC
    obtain ⟨hs1, _, hs2⟩ := List.pairwise_append.1 hs
    have hm1 : 1 ≤ m := FFD.packable_pos hf (by simp)
    have hfP : Packable B m (P.map v) := by
      rw [List.map_append] at hf; exact LPT43.packable_prefix _ hf
    have hall : ∀ a ∈ P, v a ≤ B := fun a ha => LPT43.packable_item_le hfP (List.mem_map_of_mem ha)
    have hinv : Fit.Inv v B P (P.foldl step (Bins.new 1)) := by
      simpa using Fit.inv_foldl _ hstep P [] (Bins.new 1) hall (Fit.inv_init v B)
    have hsi : SInv v B (P.foldl step (Bins.new 1)) :=
      sinv_foldl step hstep P [] (Bins.new 1) hall (by simpa using hs1) (Fit.inv_init v B) (sinv_init v B)
    rw [List.foldl_append] at hlast ⊢
    simp only [List.foldl_cons, List.foldl_nil] at hlast ⊢
    generalize P.foldl step (Bins.new 1) = b at hinv hsi ih hlast ⊢
    rcases hstep b y with ⟨i, hi, hfit, he⟩ | ⟨hno, he⟩
    · rw [he] at hlast ⊢
      simp only [Bins.add, List.length_modify] at hlast ⊢
      by_cases hP : P = []
      · have := hinv.first hP
        rw [this]
        exact hone m hm1
      · obtain ⟨L', hL'⟩ := getLast?_modify_snoc hlast (hinv.nonempty hP)
        exact ih hs1 hP m hfP x L' hL' hC
    · rw [he, Fit.addEmpty_add v b y hinv.len] at hlast ⊢
      simp only [List.getLast?_append, List.getLast?_singleton, Option.some_or, Option.some.injEq,
        List.cons.injEq] at hlast
      obtain ⟨rfl, _⟩ := hlast
      have hnf := nf_of_run hinv hsi (fun p hp => hs2 p hp y (by simp)) hno
      have hpk : Packable B m ((b.lists.map (List.map v)).flatten ++ [v y]) := by
        refine LPT43.packable_perm ?_ hf
        rw [List.map_append, ← List.map_flatten]
        exact (hinv.perm.map v).symm.append_right _
      have := hnew (v y) m _ hC hnf hpk
      simpa using this

/-- the same for the generic loop -/
theorem gen_last_bin_induction {v : α → Nat} {B m : Nat} {step : Bins α → α → Bins α} {xs : List α} {b : Bins α}
    (hstep : ∀ b x, Fit.Step v B b x (step b x)) (C : Nat → Prop) (Φ : Nat → Nat → Prop)
    (hone : ∀ m, 1 ≤ m → Φ 1 m)
    (hnew : ∀ (a m : Nat) (Ls : List (List Nat)), C a → NF B a Ls → Packable B m (Ls.flatten ++ [a]) →
      Φ (Ls.length + 1) m)
    (hsorted : xs.Pairwise (fun a c => v c ≤ v a)) (hne : xs ≠ [])
    (hok : Fit.genLoop v B step (Bins.new 1) xs = .ok b) (hm : Packable B m (xs.map v))
    {x : α} {L : List α} (hlast : b.lists.getLast? = some (x :: L)) (hC : C (v x)) : Φ b.lists.length m := by
  have hall := Fit.gen_ok_all_le hok
  rw [Fit.genLoop_ok v B _ _ _ hall] at hok
  cases hok
  exact last_bin_induction hstep C Φ hone hnew _ hsorted hne m hm x L hlast hC

/-! ## 7. Case (ii), `B/5 < a ≤ B/4`, with the ratio `5/4`

Weights in units of `1/72`.  Every item has the weight of its size class (`cw`: `30` above `B/3`, `24` above `B/4`,
`18` otherwise), except: the only item of a bin (`72`); the first item of a bin if it exceeds `B/2` (`72 −` the
weight of the second item in a bin with two items, `42` in longer bins); the two items of a bin `[x, y]` with
`B/3 < y ≤ x ≤ B/2` (`36, 36`, or `42, 30` if `y ≤ 3B/4 − 2a`).  Every bin of the run weighs at least `72`, except
at most one bin "one item above `B/3`, the second one not" (`−18`) and one bin that starts with an item in
`(B/4, B/3]` and has no third such item (`−12`); every bin of the optimum weighs at most `90`. -/

/-- weight of the size class -/
def cw (B y : Nat) : Nat := if B < 3 * y then 30 else if B < 4 * y then 24 else 18

def wts2 (B a : Nat) : List Nat → List Nat
  | [] => []
  | [_] => [72]
  | [x, y] =>
    if B < 2 * x then [72 - cw B y, cw B y]
    else if B < 3 * y then (if 4 * y + 8 * a ≤ 3 * B then [42, 30] else [36, 36])
    else [cw B x, cw B y]
  | x :: y :: z :: r =>
    if B < 2 * x then 42 :: (y :: z :: r).map (cw B) else (x :: y :: z :: r).map (cw B)

theorem cw_ge (B y : Nat) : 18 ≤ cw B y := by unfold cw; split <;> [omega; (split <;> omega)]

theorem cw_le (B y : Nat) : cw B y ≤ 30 := by unfold cw; split <;> [omega; (split <;> omega)]

theorem mk_map (i : Nat) (f : Nat → Nat) : ∀ (p : Nat) (L : List Nat), ∀ e ∈ mk i p L (L.map f),
    e.wt = f e.val ∧ e.val ∈ L
  | _, [], e, he => by simp [mk] at he
  | p, x :: xs, e, he => by
    simp only [List.map_cons, mk, List.mem_cons] at he
    rcases he with rfl | he
    · simp
    · have := mk_map i f (p + 1) xs e he
      exact ⟨this.1, List.mem_cons_of_mem _ this.2⟩

theorem mk_map_wt (i : Nat) (f : Nat → Nat) : ∀ (p : Nat) (L : List Nat),
    binSum DItem.wt (mk i p L (L.map f)) = sumL (L.map f)
  | _, [] => by simp [mk, binSum, sumL]
  | p, x :: xs => by
    simp only [List.map_cons, mk, Fit.binSum_cons, mk_map_wt i f (p + 1) xs, sumL]

theorem sumL_map_cw_ge (B : Nat) : ∀ L : List Nat, 18 * L.length ≤ sumL (L.map (cw B))
  | [] => by simp [sumL]
  | x :: L => by
    have := sumL_map_cw_ge B L
    have := cw_ge B x
    simp only [List.map_cons, sumL, List.length_cons]
    omega

/-- what the optimum's side needs to know about an item -/
def Role2 (B a : Nat) (e : DItem) : Prop :=
  (e.wt = 72 ∧ B < e.val + a) ∨
  (e.wt = 54 ∧ 3 * B < 4 * e.val + 4 * a ∧ B < 2 * e.val) ∨
  (e.wt = 48 ∧ 2 * B < 3 * e.val + 3 * a ∧ B < 2 * e.val) ∨
  (e.wt ≤ 42 ∧ B < 2 * e.val) ∨
  (e.wt = 42 ∧ B + 4 * a < 4 * e.val) ∨
  (e.wt = 36 ∧ B < 3 * e.val ∧ 3 * B < 4 * e.val + 8 * a ∧ 2 * e.val ≤ B) ∨
  (e.wt ≤ 30 ∧ B < 3 * e.val) ∨
  (e.wt ≤ 24 ∧ B < 4 * e.val) ∨
  (e.wt ≤ 18 ∧ a ≤ e.val)

theorem Role2.r1 {B a : Nat} {e : DItem} (h : e.wt = 72 ∧ B < e.val + a) : Role2 B a e := Or.inl h
theorem Role2.r2 {B a : Nat} {e : DItem} (h : e.wt = 54 ∧ 3 * B < 4 * e.val + 4 * a ∧ B < 2 * e.val) :
    Role2 B a e := Or.inr (Or.inl h)
theorem Role2.r3 {B a : Nat} {e : DItem} (h : e.wt = 48 ∧ 2 * B < 3 * e.val + 3 * a ∧ B < 2 * e.val) :
    Role2 B a e := Or.inr (Or.inr (Or.inl h))
theorem Role2.r4 {B a : Nat} {e : DItem} (h : e.wt ≤ 42 ∧ B < 2 * e.val) : Role2 B a e :=
  Or.inr (Or.inr (Or.inr (Or.inl h)))
theorem Role2.r5 {B a : Nat} {e : DItem} (h : e.wt = 42 ∧ B + 4 * a < 4 * e.val) : Role2 B a e :=
  Or.inr (Or.inr (Or.inr (Or.inr (Or.inl h))))
theorem Role2.r6 {B a : Nat} {e : DItem}
    (h : e.wt = 36 ∧ B < 3 * e.val ∧ 3 * B < 4 * e.val + 8 * a ∧ 2 * e.val ≤ B) : Role2 B a e :=
  Or.inr (Or.inr (Or.inr (Or.inr (Or.inr (Or.inl h)))))
theorem Role2.r7 {B a : Nat} {e : DItem} (h : e.wt ≤ 30 ∧ B < 3 * e.val) : Role2 B a e :=
  Or.inr (Or.inr (Or.inr (Or.inr (Or.inr (Or.inr (Or.inl h))))))
theorem Role2.r8 {B a : Nat} {e : DItem} (h : e.wt ≤ 24 ∧ B < 4 * e.val) : Role2 B a e :=
  Or.inr (Or.inr (Or.inr (Or.inr (Or.inr (Or.inr (Or.inr (Or.inl h)))))))
theorem Role2.r9 {B a : Nat} {e : DItem} (h : e.wt ≤ 18 ∧ a ≤ e.val) : Role2 B a e :=
  Or.inr (Or.inr (Or.inr (Or.inr (Or.inr (Or.inr (Or.inr (Or.inr h)))))))

theorem role2_cw {B a : Nat} {e : DItem} (hw : e.wt = cw B e.val) (ha : a ≤ e.val) : Role2 B a e := by
  unfold cw at hw
  split at hw
  · exact Role2.r7 (by omega)
  · split at hw
    · exact Role2.r8 (by omega)
    · exact Role2.r9 (by omega)

theorem wts2_facts {B a j : Nat} {L : List Nat} (hge : ∀ y ∈ L, a ≤ y) (hfull : B < sumL L + a)
    (hs : L.Pairwise (fun x y => y ≤ x)) :
    ∀ e ∈ mk j 0 L (wts2 B a L), Role2 B a e ∧
      (e.wt = 36 → ∃ x y, L = [x, y] ∧ 2 * x ≤ B ∧ B < 3 * y ∧ (e = ⟨x, 36, j, 0⟩ ∨ e = ⟨y, 36, j, 1⟩)) := by
  intro e he
  match L, hge, hfull, hs, he with
  | [], _, _, _, he => simp [mk] at he
  | [x], hge, hfull, _, he =>
    simp only [wts2, mk, List.mem_singleton] at he
    subst he
    simp only [sumL] at hfull
    refine ⟨Or.inl ⟨rfl, by simpa using hfull⟩, by simp⟩
  | [x, y], hge, hfull, hs, he =>
    have hx := hge x (by simp)
    have hy := hge y (by simp)
    simp only [sumL] at hfull
    simp only [List.pairwise_cons, List.mem_singleton, forall_eq] at hs
    have hxy := hs.1
    simp only [wts2] at he
    split at he
    · -- first item above B/2
      simp only [mk, List.mem_cons, List.not_mem_nil, or_false] at he
      have h1 := cw_ge B y
      have h2 := cw_le B y
      rcases he with rfl | rfl
      · refine ⟨?_, ?_⟩
        · unfold cw
          split
          · exact Role2.r4 ⟨by simp, by simp only; omega⟩
          · split
            · exact Role2.r3 ⟨by simp, by simp only; omega, by simp only; omega⟩
            · exact Role2.r2 ⟨by simp, by simp only; omega, by simp only; omega⟩
        · simp only
          omega
      · refine ⟨role2_cw rfl hy, ?_⟩
        simp only
        omega
    · split at he
      · split at he
        · simp only [mk, List.mem_cons, List.not_mem_nil, or_false] at he
          rcases he with rfl | rfl
          · exact ⟨Role2.r5 ⟨by simp, by simp only; omega⟩, by simp⟩
          · exact ⟨Role2.r7 ⟨by simp, by simp only; omega⟩, by simp⟩
        · simp only [mk, List.mem_cons, List.not_mem_nil, or_false] at he
          rcases he with rfl | rfl
          · exact ⟨Role2.r6 ⟨by simp, by simp only; omega, by simp only; omega, by simp only; omega⟩,
              fun _ => ⟨x, y, rfl, by omega, by omega, Or.inl rfl⟩⟩
          · exact ⟨Role2.r6 ⟨by simp, by simp only; omega, by simp only; omega, by simp only; omega⟩,
              fun _ => ⟨x, y, rfl, by omega, by omega, Or.inr rfl⟩⟩
      · simp only [mk, List.mem_cons, List.not_mem_nil, or_false] at he
        rcases he with rfl | rfl
        · refine ⟨role2_cw rfl hx, ?_⟩
          simp only
          have := cw_le B x
          omega
        · refine ⟨role2_cw rfl hy, ?_⟩
          simp only
          have := cw_le B y
          omega
  | x :: y :: z :: r, hge, _, _, he =>
    simp only [wts2] at he
    split at he
    · simp only [mk, List.mem_cons] at he
      rcases he with rfl | he
      · exact ⟨Role2.r4 ⟨by simp, by simp only; omega⟩, by simp⟩
      · have he' : e ∈ mk j 1 (y :: z :: r) ((y :: z :: r).map (cw B)) := by simpa using he
        obtain ⟨hw, hv⟩ := mk_map j (cw B) _ _ e he'
        have := cw_le B e.val
        exact ⟨role2_cw hw (hge _ (List.mem_cons_of_mem _ hv)), by omega⟩
    · obtain ⟨hw, hv⟩ := mk_map j (cw B) _ _ e he
      have := cw_le B e.val
      exact ⟨role2_cw hw (hge _ hv), by omega⟩

/-- the two kinds of bins that may weigh less than `72` -/
def e1 (B : Nat) : List Nat → Bool
  | x :: y :: _ => decide (B < 3 * x) && decide (2 * x ≤ B) && decide (3 * y ≤ B)
  | _ => false

def e2 (B : Nat) : List Nat → Bool
  | [x, _] => decide (B < 4 * x) && decide (3 * x ≤ B)
  | x :: _ :: z :: _ => decide (B < 4 * x) && decide (3 * x ≤ B) && decide (4 * z ≤ B)
  | _ => false

theorem binWt2_ge {B a : Nat} {L : List Nat} (h5 : B < 5 * a) (h4 : 4 * a ≤ B) (hge : ∀ y ∈ L, a ≤ y)
    (hfull : B < sumL L + a) (hs : L.Pairwise (fun x y => y ≤ x)) :
    72 ≤ binWt (wts2 B a) L ∨ (e1 B L = true ∧ 54 ≤ binWt (wts2 B a) L) ∨
      (e2 B L = true ∧ 60 ≤ binWt (wts2 B a) L) := by
  match L, hge, hfull, hs with
  | [], _, hfull, _ => simp only [sumL] at hfull; omega
  | [x], _, _, _ => left; simp [binWt, wts2, mk, binSum, sumL]
  | [x, y], hge, hfull, hs =>
    have hx := hge x (by simp)
    have hy := hge y (by simp)
    simp only [sumL] at hfull
    simp only [List.pairwise_cons, List.mem_singleton, forall_eq] at hs
    have hxy := hs.1
    have h1 := cw_ge B y
    have h2 := cw_le B y
    simp only [binWt, wts2]
    split
    · left; simp only [mk, binSum, List.map_cons, List.map_nil, sumL]; omega
    · split
      · left; split <;> simp [mk, binSum, sumL]
      · -- x is above B/3, y is above B/4 and at most B/3
        have hcx : cw B x = 30 := by unfold cw; rw [if_pos (by omega)]
        have hcy : cw B y = 24 := by unfold cw; rw [if_neg (by omega), if_pos (by omega)]
        right; left
        refine ⟨?_, ?_⟩
        · simp only [e1, Bool.and_eq_true, decide_eq_true_eq]; omega
        · simp only [mk, binSum, List.map_cons, List.map_nil, sumL, hcx, hcy]; omega
  | x :: y :: z :: r, hge, hfull, hs =>
    have hx := hge x (by simp)
    have hy := hge y (by simp)
    have hz := hge z (by simp)
    simp only [List.pairwise_cons, List.mem_cons] at hs
    have hxy := hs.1 y (by simp)
    have hyz := hs.2.1 z (by simp)
    simp only [binWt, wts2]
    split
    · have h1 : mk 0 0 (x :: y :: z :: r) (42 :: (y :: z :: r).map (cw B)) =
          ⟨x, 42, 0, 0⟩ :: mk 0 (0 + 1) (y :: z :: r) ((y :: z :: r).map (cw B)) := rfl
      rw [h1, Fit.binSum_cons, mk_map_wt]
      have := sumL_map_cw_ge B (y :: z :: r)
      simp only [List.length_cons] at this
      left
      simp only
      omega
    · rw [mk_map_wt]
      match r, hge, hfull with
      | w :: r', _, _ =>
        have := sumL_map_cw_ge B (x :: y :: z :: w :: r')
        simp only [List.length_cons] at this
        left
        omega
      | [], hge, hfull =>
        simp only [sumL] at hfull
        simp only [List.map_cons, List.map_nil, sumL, e1, e2]
        have c1 := cw_ge B x
        have c2 := cw_ge B y
        have c3 := cw_ge B z
        by_cases h3y : B < 3 * y
        · have hcx : cw B x = 30 := by unfold cw; rw [if_pos (by omega)]
          have hcy : cw B y = 30 := by unfold cw; rw [if_pos (by omega)]
          left; omega
        · by_cases h3x : B < 3 * x
          · have hcx : cw B x = 30 := by unfold cw; rw [if_pos (by omega)]
            right; left
            refine ⟨?_, by omega⟩
            simp only [Bool.and_eq_true, decide_eq_true_eq]; omega
          · have hcx : cw B x = 24 := by unfold cw; rw [if_neg (by omega), if_pos (by omega)]
            by_cases h4z : B < 4 * z
            · have hcy : cw B y = 24 := by unfold cw; rw [if_neg (by omega), if_pos (by omega)]
              have hcz : cw B z = 24 := by unfold cw; rw [if_neg (by omega), if_pos (by omega)]
              left; omega
            · right; right
              refine ⟨?_, by omega⟩
              simp only [Bool.and_eq_true, decide_eq_true_eq]; omega

theorem e1_unique {B : Nat} {L L' : List Nat} (hr : VRel B L L') (h : e1 B L = true) (h' : e1 B L' = true) :
    False := by
  match L, L', h, h' with
  | x :: y :: r, x' :: y' :: r', h, h' =>
    simp only [e1, Bool.and_eq_true, decide_eq_true_eq] at h h'
    obtain ⟨pre, post, he, hlt, hpre, _⟩ := hr x' (by simp)
    match pre, he, hlt, hpre with
    | [], _, hlt, _ => simp only [sumL] at hlt; omega
    | [p], he, hlt, _ =>
      simp only [List.cons_append, List.nil_append, List.cons.injEq] at he
      simp only [sumL] at hlt
      omega
    | p :: q :: pre', he, _, hpre =>
      simp only [List.cons_append, List.cons.injEq] at he
      have := hpre q (by simp)
      omega

theorem e2_unique {B : Nat} {L L' : List Nat} (hr : VRel B L L') (hs : L.Pairwise (fun x y => y ≤ x))
    (h : e2 B L = true) (h' : e2 B L' = true) : False := by
  have hx' : ∃ x' r', L' = x' :: r' ∧ B < 4 * x' ∧ 3 * x' ≤ B := by
    match L', h' with
    | [x', _], h' =>
      simp only [e2, Bool.and_eq_true, decide_eq_true_eq] at h'
      exact ⟨x', _, rfl, h'.1, h'.2⟩
    | x' :: _ :: _ :: _, h' =>
      simp only [e2, Bool.and_eq_true, decide_eq_true_eq] at h'
      exact ⟨x', _, rfl, h'.1.1, h'.1.2⟩
  obtain ⟨x', r', rfl, h1', h2'⟩ := hx'
  obtain ⟨pre, post, he, hlt, hpre, _⟩ := hr x' (by simp)
  match L, hs, h, he with
  | [x, y], hs, h, he =>
    simp only [e2, Bool.and_eq_true, decide_eq_true_eq] at h
    simp only [List.pairwise_cons, List.mem_singleton, forall_eq] at hs
    have hxy := hs.1
    rcases split2 he with ⟨rfl, rfl⟩ | ⟨rfl, rfl⟩ | ⟨rfl, rfl⟩ <;> simp only [sumL] at hlt <;> omega
  | x :: y :: z :: r, hs, h, he =>
    simp only [e2, Bool.and_eq_true, decide_eq_true_eq] at h
    simp only [List.pairwise_cons, List.mem_cons] at hs
    have hxy := hs.1 y (by simp)
    match pre, he, hlt, hpre with
    | [], _, hlt, _ => simp only [sumL] at hlt; omega
    | [p], he, hlt, _ =>
      simp only [List.cons_append, List.nil_append, List.cons.injEq] at he
      simp only [sumL] at hlt
      omega
    | [p, q], he, hlt, _ =>
      simp only [List.cons_append, List.nil_append, List.cons.injEq] at he
      simp only [sumL] at hlt
      omega
    | p :: q :: t :: pre', he, _, hpre =>
      simp only [List.cons_append, List.cons.injEq] at he
      have := hpre t (by simp)
      omega

theorem wts2_pair {B a j j' : Nat} {L L' : List Nat} (hr : VRel B L L')
    (hge : ∀ y ∈ L, a ≤ y) (hfull : B < sumL L + a)
    (hge' : ∀ y ∈ L', a ≤ y) (hfull' : B < sumL L' + a)
    (hs : L.Pairwise (fun x y => y ≤ x)) (hs' : L'.Pairwise (fun x y => y ≤ x))
    {e e' : DItem} (he : e ∈ mk j 0 L (wts2 B a L)) (he' : e' ∈ mk j' 0 L' (wts2 B a L'))
    (hw : e.wt = 36) (hw' : e'.wt = 36) : B < e.val + e'.val + a := by
  obtain ⟨x, y, rfl, hx, hy, hxy⟩ := (wts2_facts hge hfull hs e he).2 hw
  obtain ⟨x', y', rfl, hx', hy', hxy'⟩ := (wts2_facts hge' hfull' hs' e' he').2 hw'
  simp only [List.pairwise_cons, List.mem_singleton, forall_eq] at hs hs'
  have h1 := hs.1
  have h2 := hs'.1
  simp only [sumL] at hfull'
  obtain ⟨pre, post, hsplit, hlt, hpre, _⟩ := hr x' (by simp)
  have hval : y ≤ e.val := by rcases hxy with rfl | rfl <;> (simp; try omega)
  have hval' : y' ≤ e'.val := by rcases hxy' with rfl | rfl <;> (simp; try omega)
  rcases split2 hsplit with ⟨rfl, rfl⟩ | ⟨rfl, rfl⟩ | ⟨rfl, rfl⟩
  · simp only [sumL] at hlt; omega
  · simp only [sumL] at hlt; omega
  · have := hpre y (by simp); omega

theorem wts2_same {B a j : Nat} {L : List Nat} (hge : ∀ y ∈ L, a ≤ y) (hfull : B < sumL L + a)
    (hs : L.Pairwise (fun x y => y ≤ x))
    {e e' : DItem} (he : e ∈ mk j 0 L (wts2 B a L)) (he' : e' ∈ mk j 0 L (wts2 B a L)) (hne : e ≠ e')
    (hw : e.wt = 36) (hw' : e'.wt = 36) : B < e.val + e'.val + a := by
  obtain ⟨x, y, rfl, hx, hy, hxy⟩ := (wts2_facts hge hfull hs e he).2 hw
  obtain ⟨x', y', hL, _, _, hxy'⟩ := (wts2_facts hge hfull hs e' he').2 hw'
  simp only [List.cons.injEq, and_true] at hL
  obtain ⟨rfl, rfl⟩ := hL
  simp only [sumL] at hfull
  rcases hxy with rfl | rfl <;> rcases hxy' with rfl | rfl
  · exact absurd rfl hne
  · simp; omega
  · simp; omega
  · exact absurd rfl hne

/-- the kinds of items that are at most `B/2` -/
theorem Role2.small {B a : Nat} {e : DItem} (h : Role2 B a e) (h4 : 4 * a ≤ B) (hle : 2 * e.val ≤ B) :
    (e.wt = 42 ∧ B + 4 * a < 4 * e.val) ∨
    (e.wt = 36 ∧ B < 3 * e.val ∧ 3 * B < 4 * e.val + 8 * a) ∨
    (e.wt ≤ 30 ∧ B < 3 * e.val) ∨ (e.wt ≤ 24 ∧ B < 4 * e.val) ∨ (e.wt ≤ 18 ∧ a ≤ e.val) := by
  unfold Role2 at h
  omega

/-- a coarser list, used for the items that exceed `B/2` -/
theorem Role2.big {B a : Nat} {e : DItem} (h : Role2 B a e) :
    (e.wt = 72 ∧ B < e.val + a) ∨ (e.wt = 54 ∧ 3 * B < 4 * e.val + 4 * a) ∨
    (e.wt = 48 ∧ 2 * B < 3 * e.val + 3 * a) ∨ e.wt ≤ 42 := by
  unfold Role2 at h
  omega

/-- every bin of the optimum weighs at most `90/72 = 5/4` -/
theorem opt_bin2 {B a : Nat} (h5 : B < 5 * a) (h4 : 4 * a ≤ B) (T : List DItem) (hnd : T.Nodup)
    (h1 : ∀ e ∈ T, Role2 B a e)
    (h2 : ∀ e ∈ T, ∀ e' ∈ T, e ≠ e' → e.wt = 36 → e'.wt = 36 → B < e.val + e'.val + a)
    (hs : binSum DItem.val T ≤ B) : binSum DItem.wt T ≤ 90 := by
  have hav : ∀ e ∈ T, a ≤ e.val := by
    intro e he
    have := h1 e he
    unfold Role2 at this
    omega
  match T, hnd, h1, h2, hs, hav with
  | [], _, _, _, _, _ => simp [binSum, sumL]
  | [e], _, h1, _, hs, _ =>
    have f1 := h1 e (by simp)
    unfold Role2 at f1
    simp only [binSum, List.map_cons, List.map_nil, sumL] at hs ⊢
    omega
  | [e1, e2], hnd, h1, h2, hs, _ =>
    have f1 := h1 e1 (by simp)
    have f2 := h1 e2 (by simp)
    simp only [binSum, List.map_cons, List.map_nil, sumL] at hs ⊢
    by_cases b1 : 2 * e1.val ≤ B <;> by_cases b2 : 2 * e2.val ≤ B
    · have g1 := f1.small h4 b1
      have g2 := f2.small h4 b2
      omega
    · have g1 := f1.small h4 b1
      have g2 := f2.big
      omega
    · have g1 := f1.big
      have g2 := f2.small h4 b2
      omega
    · omega
  | [e1, e2, e3], hnd, h1, h2, hs, hav =>
    have f1 := h1 e1 (by simp)
    have f2 := h1 e2 (by simp)
    have f3 := h1 e3 (by simp)
    have a1 := hav e1 (by simp)
    have a2 := hav e2 (by simp)
    have a3 := hav e3 (by simp)
    simp only [List.nodup_cons, List.mem_cons, List.not_mem_nil, or_false, not_or] at hnd
    have g12 := h2 e1 (by simp) e2 (by simp) hnd.1.1
    have g13 := h2 e1 (by simp) e3 (by simp) hnd.1.2
    have g23 := h2 e2 (by simp) e3 (by simp) hnd.2.1
    simp only [binSum, List.map_cons, List.map_nil, sumL] at hs ⊢
    by_cases b1 : 2 * e1.val ≤ B <;> by_cases b2 : 2 * e2.val ≤ B <;> by_cases b3 : 2 * e3.val ≤ B
    · have k1 := f1.small h4 b1
      have k2 := f2.small h4 b2
      have k3 := f3.small h4 b3
      omega
    · have k1 := f1.small h4 b1
      have k2 := f2.small h4 b2
      have k3 := f3.big
      omega
    · have k1 := f1.small h4 b1
      have k2 := f2.big
      have k3 := f3.small h4 b3
      omega
    · omega
    · have k1 := f1.big
      have k2 := f2.small h4 b2
      have k3 := f3.small h4 b3
      omega
    · omega
    · omega
    · omega
  | [e1, e2, e3, e4], hnd, h1, h2, hs, hav =>
    have a1 := hav e1 (by simp)
    have a2 := hav e2 (by simp)
    have a3 := hav e3 (by simp)
    have a4 := hav e4 (by simp)
    simp only [binSum, List.map_cons, List.map_nil, sumL] at hs ⊢
    -- no item exceeds `B/2`, so only five kinds of items remain
    have f1 := (h1 e1 (by simp)).small h4 (by omega)
    have f2 := (h1 e2 (by simp)).small h4 (by omega)
    have f3 := (h1 e3 (by simp)).small h4 (by omega)
    have f4 := (h1 e4 (by simp)).small h4 (by omega)
    omega
  | e1 :: e2 :: e3 :: e4 :: e5 :: r, _, _, _, hs, hav =>
    have a1 := hav e1 (by simp)
    have a2 := hav e2 (by simp)
    have a3 := hav e3 (by simp)
    have a4 := hav e4 (by simp)
    have a5 := hav e5 (by simp)
    simp only [binSum, List.map_cons, sumL] at hs
    omega

/-- **case (ii) with the ratio `5/4`, on the normal form**: `72·(k − 1) ≤ 90·m + 12` -/
theorem count_fifth_quarter {B a m : Nat} {Ls : List (List Nat)} (hnf : NF B a Ls) (h5 : B < 5 * a)
    (h4 : 4 * a ≤ B) (hm : Packable B m (Ls.flatten ++ [a])) : 72 * Ls.length ≤ 90 * m + 12 := by
  let D : List DItem := deco (wts2 B a) 0 Ls ++ [⟨a, 18, Ls.length, 0⟩]
  have hnd : D.Nodup := by
    rw [List.nodup_append]
    refine ⟨deco_nodup _ 0 Ls, by simp, ?_⟩
    intro e he e' he' hee
    simp only [List.mem_singleton] at he'
    subst hee
    have := (deco_tag _ 0 Ls e he).2
    rw [he'] at this
    simp at this
  have hval : D.map DItem.val = Ls.flatten ++ [a] := by
    simp only [D, List.map_append, deco_val, List.map_cons, List.map_nil]
  have hwt : binSum DItem.wt D = sumL (Ls.map (binWt (wts2 B a))) + 18 := by
    simp only [D, Fit.binSum_append, deco_wt]
    simp [binSum, sumL]
  -- the run's side
  have hc1 : Ls.countP (e1 B) ≤ 1 := countP_le_one (R := VRel B) _ Ls hnf.rel (by
    intro L _ L' _ hr h h'
    exact e1_unique hr h h')
  have hc2 : Ls.countP (e2 B) ≤ 1 := countP_le_one (R := VRel B) _ Ls hnf.rel (by
    intro L hL L' _ hr h h'
    exact e2_unique hr (hnf.sorted L hL) h h')
  have hsum : ∀ Ms : List (List Nat), (∀ L ∈ Ms, L ∈ Ls) →
      72 * Ms.length ≤ sumL (Ms.map (binWt (wts2 B a))) + 18 * Ms.countP (e1 B) + 12 * Ms.countP (e2 B) := by
    intro Ms
    induction Ms with
    | nil => intro _; simp [sumL]
    | cons L Ms ih =>
      intro h
      have hL := h L (by simp)
      have h1 := binWt2_ge h5 h4 (hnf.ge L hL) (hnf.full L hL) (hnf.sorted L hL)
      have h2 := ih (fun M hM => h M (List.mem_cons_of_mem _ hM))
      simp only [List.length_cons, List.map_cons, sumL, List.countP_cons]
      rcases h1 with h1 | ⟨hc, h1⟩ | ⟨hc, h1⟩
      · omega
      · simp only [hc, if_true]; omega
      · simp only [hc, if_true]; omega
  have hrun := hsum Ls (fun L hL => hL)
  -- the optimum's side
  have hopt := weight_le_of_packable (B := B) (m := m) (c := 90) hnd (by rw [hval]; exact hm) (by
    intro T hTnd hTD hTs
    have hfacts : ∀ e ∈ D, Role2 B a e := by
      intro e he
      simp only [D, List.mem_append, List.mem_singleton] at he
      rcases he with he | rfl
      · obtain ⟨L, hL, j, hj⟩ := deco_mem _ 0 Ls e he
        exact (wts2_facts (hnf.ge L hL) (hnf.full L hL) (hnf.sorted L hL) e hj).1
      · exact Role2.r9 ⟨by simp, by simp⟩
    apply opt_bin2 h5 h4 T hTnd (fun e he => hfacts e (hTD e he)) _ hTs
    intro e he e' he' hne' hw hw'
    have hd : ∀ e ∈ D, e.wt = 36 → e ∈ deco (wts2 B a) 0 Ls := by
      intro e he hw
      simp only [D, List.mem_append, List.mem_singleton] at he
      rcases he with he | rfl
      · exact he
      · simp at hw
    rcases deco_mem2 (wts2 B a) 0 Ls hnf.rel e (hd e (hTD e he) hw) e' (hd e' (hTD e' he') hw') with
      ⟨L, hL, j, h1, h2⟩ | ⟨L, hL, L', hL', j, j', hr, h1, h2⟩ | ⟨L, hL, L', hL', j, j', hr, h1, h2⟩
    · exact wts2_same (hnf.ge L hL) (hnf.full L hL) (hnf.sorted L hL) h1 h2 hne' hw hw'
    · exact wts2_pair hr (hnf.ge L hL) (hnf.full L hL) (hnf.ge L' hL') (hnf.full L' hL') (hnf.sorted L hL)
        (hnf.sorted L' hL') h1 h2 hw hw'
    · have := wts2_pair hr (hnf.ge L hL) (hnf.full L hL) (hnf.ge L' hL') (hnf.full L' hL') (hnf.sorted L hL)
        (hnf.sorted L' hL') h1 h2 hw' hw
      omega)
  omega

/-! ## 8. The theorems

First for every any-fit rule (`Fit.Step`) on a sorted input, then for `ffDecreasing` and `bfDecreasing`. -/

section generic
variable {v : α → Nat} {B m : Nat} {step : Bins α → α → Bins α} {xs : List α} {b : Bins α}

/-- a successful run on a non-empty input ends with a non-empty last bin -/
theorem gen_last_exists (hstep : ∀ b x, Fit.Step v B b x (step b x)) (hne : xs ≠ [])
    (hok : Fit.genLoop v B step (Bins.new 1) xs = .ok b) : ∃ x L, b.lists.getLast? = some (x :: L) := by
  have hinv : Fit.Inv v B xs b := Fit.gen_inv hstep hok
  cases hb : b.lists.getLast? with
  | none =>
    rw [List.getLast?_eq_none_iff] at hb
    have := hinv.perm.length_eq
    rw [hb] at this
    simp at this
    exact absurd (List.length_eq_zero_iff.1 this.symm) hne
  | some M =>
    have hM := hinv.nonempty hne M (List.mem_of_getLast? hb)
    match M, hM with
    | x :: L, _ => exact ⟨x, L, rfl⟩

/-- **case (i), every any-fit rule on a sorted input**: if the item `a` that opened the last bin satisfies
    `B/4 < a ≤ B/3` then `#bins ≤ 7/6 · m + 1` -/
theorem gen_seven_sixths_of_last_quarter_third (hstep : ∀ b x, Fit.Step v B b x (step b x))
    (hsorted : xs.Pairwise (fun a c => v c ≤ v a)) (hne : xs ≠ [])
    (hok : Fit.genLoop v B step (Bins.new 1) xs = .ok b) (hm : Packable B m (xs.map v))
    {x : α} {L : List α} (hlast : b.lists.getLast? = some (x :: L))
    (h4 : B < 4 * v x) (h3 : 3 * v x ≤ B) : 6 * (b.lists.length - 1) ≤ 7 * m :=
  gen_last_bin_induction hstep (fun a => B < 4 * a ∧ 3 * a ≤ B) (fun k m => 6 * (k - 1) ≤ 7 * m)
    (fun m _ => by omega)
    (fun a m Ls hC hnf hpk => by simpa using count_quarter_third hnf hC.1 hC.2 hpk)
    hsorted hne hok hm hlast ⟨h4, h3⟩

/-- case (i) in the form `9·#bins ≤ 11·m + 6` -/
theorem gen_eleven_ninths_of_last_quarter_third (hstep : ∀ b x, Fit.Step v B b x (step b x))
    (hsorted : xs.Pairwise (fun a c => v c ≤ v a)) (hne : xs ≠ [])
    (hok : Fit.genLoop v B step (Bins.new 1) xs = .ok b) (hm : Packable B m (xs.map v))
    {x : α} {L : List α} (hlast : b.lists.getLast? = some (x :: L))
    (h4 : B < 4 * v x) (h3 : 3 * v x ≤ B) : 9 * b.lists.length ≤ 11 * m + 6 := by
  have h1 := gen_seven_sixths_of_last_quarter_third hstep hsorted hne hok hm hlast h4 h3
  have h2 := FFD.gen_sorted_four_thirds hstep hsorted hne hok hm
  omega

/-- **case (ii) with the ratio `5/4`, every any-fit rule on a sorted input** -/
theorem gen_five_fourths_of_last_fifth_quarter (hstep : ∀ b x, Fit.Step v B b x (step b x))
    (hsorted : xs.Pairwise (fun a c => v c ≤ v a)) (hne : xs ≠ [])
    (hok : Fit.genLoop v B step (Bins.new 1) xs = .ok b) (hm : Packable B m (xs.map v))
    {x : α} {L : List α} (hlast : b.lists.getLast? = some (x :: L))
    (h5 : B < 5 * v x) (h4 : 4 * v x ≤ B) : 4 * (b.lists.length - 1) ≤ 5 * m :=
  gen_last_bin_induction hstep (fun a => B < 5 * a ∧ 4 * a ≤ B) (fun k m => 4 * (k - 1) ≤ 5 * m)
    (fun m _ => by omega)
    (fun a m Ls hC hnf hpk => by
      have := count_fifth_quarter hnf hC.1 hC.2 hpk
      simp only [Nat.add_sub_cancel]
      omega)
    hsorted hne hok hm hlast ⟨h5, h4⟩

/-- arithmetic of the volume argument for `a ≤ B/5` -/
theorem five_fourths_arith {k' m B a : Nat} (h : k' * (B - a + 1) + a ≤ m * B) (ha : 5 * a ≤ B) :
    4 * k' ≤ 5 * m := by
  apply Nat.le_of_not_lt
  intro hlt
  have hc : 5 * m + 1 ≤ 4 * k' := by omega
  have h2 : 4 * B + 5 ≤ 5 * (B - a + 1) := by omega
  have h3 : k' * (4 * B + 5) ≤ k' * (5 * (B - a + 1)) := Nat.mul_le_mul_left _ h2
  have h4 : k' * (5 * (B - a + 1)) = 5 * (k' * (B - a + 1)) := Nat.mul_left_comm ..
  have h5 : k' * (4 * B + 5) = 4 * k' * B + 5 * k' := by
    rw [Nat.mul_add, Nat.mul_left_comm, Nat.mul_comm k' 5, Nat.mul_assoc]
  have h6 : (5 * m + 1) * B ≤ 4 * k' * B := Nat.mul_le_mul_right B hc
  rw [Nat.add_mul, Nat.one_mul, Nat.mul_assoc] at h6
  omega

/-- **every any-fit rule on a non-empty sorted input: `#bins ≤ 5/4 · m + 1`** whenever `m` bins suffice.
    By the size `a` of the item that opened the last bin: `a > B/3`: optimal; `B/4 < a ≤ B/3`: `7/6 · m + 1`;
    `B/5 < a ≤ B/4`: weights, `5/4 · m + 1`; `a ≤ B/5`: all other bins are filled above `4B/5`. -/
theorem gen_sorted_five_fourths (hstep : ∀ b x, Fit.Step v B b x (step b x))
    (hsorted : xs.Pairwise (fun a c => v c ≤ v a)) (hne : xs ≠ [])
    (hok : Fit.genLoop v B step (Bins.new 1) xs = .ok b) (hm : Packable B m (xs.map v)) :
    4 * (b.lists.length - 1) ≤ 5 * m := by
  obtain ⟨x, L, hlast⟩ := gen_last_exists hstep hne hok
  by_cases h3 : B < 3 * v x
  · have := FFD.gen_sorted_opt_of_last_big hstep hsorted hne hok hm hlast h3
    omega
  · by_cases h4 : B < 4 * v x
    · have := gen_seven_sixths_of_last_quarter_third hstep hsorted hne hok hm hlast h4 (by omega)
      omega
    · by_cases h5 : B < 5 * v x
      · exact gen_five_fourths_of_last_fifth_quarter hstep hsorted hne hok hm hlast h5 (by omega)
      · have hinv : Fit.Inv v B xs b := Fit.gen_inv hstep hok
        have := FFD.inv_volume_of_last hinv hm hlast
        exact five_fourths_arith this (by omega)

/-- what is proved of `#bins ≤ 11/9 · m + c`: it holds with `c = 8/9` whenever the item `a` that opened the last
    bin lies outside `(2B/11, B/4]` -/
theorem gen_eleven_ninths_partial_outside_gap (hstep : ∀ b x, Fit.Step v B b x (step b x))
    (hsorted : xs.Pairwise (fun a c => v c ≤ v a)) (hne : xs ≠ [])
    (hok : Fit.genLoop v B step (Bins.new 1) xs = .ok b) (hm : Packable B m (xs.map v))
    {x : α} {L : List α} (hlast : b.lists.getLast? = some (x :: L))
    (hx : 11 * v x ≤ 2 * B ∨ B < 4 * v x) : 9 * b.lists.length ≤ 11 * m + 8 := by
  rcases hx with hx | hx
  · exact FFD.gen_eleven_ninths_of_last_small hstep hne hok hm hlast hx
  · by_cases h3 : B < 3 * v x
    · have := FFD.gen_sorted_opt_of_last_big hstep hsorted hne hok hm hlast h3
      have := FFD.packable_pos hm (by simpa using hne)
      omega
    · have := gen_eleven_ninths_of_last_quarter_third hstep hsorted hne hok hm hlast hx (by omega)
      omega

end generic

section main
variable {v : α → Nat} {B m : Nat} {items : List α} {b : Bins α}

theorem ffd_last_exists (hne : items ≠ []) (hok : ffDecreasing v B items = .ok b) :
    ∃ x L, b.lists.getLast? = some (x :: L) := by
  simp only [ffDecreasing, ffOnline, Fit.ffLoop_eq] at hok
  exact gen_last_exists (Fit.ffStep_step v B) (FFD.sortDesc_ne_nil v hne) hok

theorem bfd_last_exists (hne : items ≠ []) (hok : bfDecreasing v B items = .ok b) :
    ∃ x L, b.lists.getLast? = some (x :: L) := by
  simp only [bfDecreasing, bfOnline, Fit.bfLoop_eq] at hok
  exact gen_last_exists (Fit.bfStep_step v B) (FFD.sortDesc_ne_nil v hne) hok

/-- **case (i), strong form**: if the item `a` that opened the last bin satisfies `B/4 < a ≤ B/3` then
    `FFD ≤ 7/6 · OPT + 1` -/
theorem ffd_seven_sixths_of_last_quarter_third (hne : items ≠ []) (hok : ffDecreasing v B items = .ok b)
    (hm : Packable B m (items.map v)) {x : α} {L : List α} (hlast : b.lists.getLast? = some (x :: L))
    (h4 : B < 4 * v x) (h3 : 3 * v x ≤ B) : 6 * (b.lists.length - 1) ≤ 7 * m := by
  simp only [ffDecreasing, ffOnline, Fit.ffLoop_eq] at hok
  exact gen_seven_sixths_of_last_quarter_third (Fit.ffStep_step v B) (Part.sortDesc_sorted v items)
    (FFD.sortDesc_ne_nil v hne) hok (FF17.packable_sortDesc hm) hlast h4 h3

theorem bfd_seven_sixths_of_last_quarter_third (hne : items ≠ []) (hok : bfDecreasing v B items = .ok b)
    (hm : Packable B m (items.map v)) {x : α} {L : List α} (hlast : b.lists.getLast? = some (x :: L))
    (h4 : B < 4 * v x) (h3 : 3 * v x ≤ B) : 6 * (b.lists.length - 1) ≤ 7 * m := by
  simp only [bfDecreasing, bfOnline, Fit.bfLoop_eq] at hok
  exact gen_seven_sixths_of_last_quarter_third (Fit.bfStep_step v B) (Part.sortDesc_sorted v items)
    (FFD.sortDesc_ne_nil v hne) hok (FF17.packable_sortDesc hm) hlast h4 h3

/-- **C09, case (i)**: if the item `a` that opened the last bin satisfies `B/4 < a ≤ B/3` then
    `FFD ≤ 11/9 · OPT + 6/9` -/
theorem ffd_eleven_ninths_of_last_quarter_third (hne : items ≠ []) (hok : ffDecreasing v B items = .ok b)
    (hm : Packable B m (items.map v)) {x : α} {L : List α} (hlast : b.lists.getLast? = some (x :: L))
    (h4 : B < 4 * v x) (h3 : 3 * v x ≤ B) : 9 * b.lists.length ≤ 11 * m + 6 := by
  simp only [ffDecreasing, ffOnline, Fit.ffLoop_eq] at hok
  exact gen_eleven_ninths_of_last_quarter_third (Fit.ffStep_step v B) (Part.sortDesc_sorted v items)
    (FFD.sortDesc_ne_nil v hne) hok (FF17.packable_sortDesc hm) hlast h4 h3

/-- the same for best fit decreasing: `BFD ≤ 11/9 · OPT + 6/9` if `B/4 < a ≤ B/3` -/
theorem bfd_eleven_ninths_of_last_quarter_third (hne : items ≠ []) (hok : bfDecreasing v B items = .ok b)
    (hm : Packable B m (items.map v)) {x : α} {L : List α} (hlast : b.lists.getLast? = some (x :: L))
    (h4 : B < 4 * v x) (h3 : 3 * v x ≤ B) : 9 * b.lists.length ≤ 11 * m + 6 := by
  simp only [bfDecreasing, bfOnline, Fit.bfLoop_eq] at hok
  exact gen_eleven_ninths_of_last_quarter_third (Fit.bfStep_step v B) (Part.sortDesc_sorted v items)
    (FFD.sortDesc_ne_nil v hne) hok (FF17.packable_sortDesc hm) hlast h4 h3

/-- **case (ii) with the ratio `5/4`**: if the item `a` that opened the last bin satisfies `B/5 < a ≤ B/4` then
    `FFD ≤ 5/4 · OPT + 1`.
    (The ratio `11/9` is *not* reached in this range: the weighting argument used here, one weight per item and a
    bound for every single bin of the optimum, gives `5/4`; the classical proofs of `11/9` in this range
    (Johnson, Baker, Yue, Dósa) refine the item classes by thresholds that depend on `a` and, in addition,
    amortise over several bins of the optimum.) -/
theorem ffd_five_fourths_of_last_fifth_quarter (hne : items ≠ []) (hok : ffDecreasing v B items = .ok b)
    (hm : Packable B m (items.map v)) {x : α} {L : List α} (hlast : b.lists.getLast? = some (x :: L))
    (h5 : B < 5 * v x) (h4 : 4 * v x ≤ B) : 4 * (b.lists.length - 1) ≤ 5 * m := by
  simp only [ffDecreasing, ffOnline, Fit.ffLoop_eq] at hok
  exact gen_five_fourths_of_last_fifth_quarter (Fit.ffStep_step v B) (Part.sortDesc_sorted v items)
    (FFD.sortDesc_ne_nil v hne) hok (FF17.packable_sortDesc hm) hlast h5 h4

theorem bfd_five_fourths_of_last_fifth_quarter (hne : items ≠ []) (hok : bfDecreasing v B items = .ok b)
    (hm : Packable B m (items.map v)) {x : α} {L : List α} (hlast : b.lists.getLast? = some (x :: L))
    (h5 : B < 5 * v x) (h4 : 4 * v x ≤ B) : 4 * (b.lists.length - 1) ≤ 5 * m := by
  simp only [bfDecreasing, bfOnline, Fit.bfLoop_eq] at hok
  exact gen_five_fourths_of_last_fifth_quarter (Fit.bfStep_step v B) (Part.sortDesc_sorted v items)
    (FFD.sortDesc_ne_nil v hne) hok (FF17.packable_sortDesc hm) hlast h5 h4

/-- **first fit decreasing, ratio `5/4`, for every input**: `FFD ≤ 5/4 · OPT + 1`.
    Between the textbook bound `4/3 · OPT + 1/3` (`FFD.ffd_partial_four_thirds`) and Johnson's `11/9 · OPT + c`. -/
theorem ffd_five_fourths (hne : items ≠ []) (hok : ffDecreasing v B items = .ok b)
    (hm : Packable B m (items.map v)) : 4 * (b.lists.length - 1) ≤ 5 * m := by
  simp only [ffDecreasing, ffOnline, Fit.ffLoop_eq] at hok
  exact gen_sorted_five_fourths (Fit.ffStep_step v B) (Part.sortDesc_sorted v items)
    (FFD.sortDesc_ne_nil v hne) hok (FF17.packable_sortDesc hm)

/-- **best fit decreasing, ratio `5/4`, for every input**: `BFD ≤ 5/4 · OPT + 1` -/
theorem bfd_five_fourths (hne : items ≠ []) (hok : bfDecreasing v B items = .ok b)
    (hm : Packable B m (items.map v)) : 4 * (b.lists.length - 1) ≤ 5 * m := by
  simp only [bfDecreasing, bfOnline, Fit.bfLoop_eq] at hok
  exact gen_sorted_five_fourths (Fit.bfStep_step v B) (Part.sortDesc_sorted v items)
    (FFD.sortDesc_ne_nil v hne) hok (FF17.packable_sortDesc hm)

/-- in the form `4·FFD ≤ 5·OPT + 4` -/
theorem ffd_five_fourths' (hne : items ≠ []) (hok : ffDecreasing v B items = .ok b)
    (hm : Packable B m (items.map v)) : 4 * b.lists.length ≤ 5 * m + 4 := by
  have := ffd_five_fourths hne hok hm
  omega

theorem bfd_five_fourths' (hne : items ≠ []) (hok : bfDecreasing v B items = .ok b)
    (hm : Packable B m (items.map v)) : 4 * b.lists.length ≤ 5 * m + 4 := by
  have := bfd_five_fourths hne hok hm
  omega

/-- without the hypothesis `items ≠ []` (the empty input is packed into one empty bin: `4·0 ≤ 5·m`) -/
theorem ffd_five_fourths_all (hok : ffDecreasing v B items = .ok b) (hm : Packable B m (items.map v)) :
    4 * (b.lists.length - 1) ≤ 5 * m := by
  by_cases hne : items = []
  · subst hne
    cases hok
    simp [Bins.new]
  · exact ffd_five_fourths hne hok hm

theorem bfd_five_fourths_all (hok : bfDecreasing v B items = .ok b) (hm : Packable B m (items.map v)) :
    4 * (b.lists.length - 1) ≤ 5 * m := by
  by_cases hne : items = []
  · subst hne
    cases hok
    simp [Bins.new]
  · exact bfd_five_fourths hne hok hm

/-- against the oracle: a successful run has an optimum `m = optBins …`, and `FFD ≤ 5/4 · m + 1` -/
theorem ffd_five_fourths_opt (hok : ffDecreasing v B items = .ok b) :
    ∃ m, optBins B (items.map v) = some m ∧ 4 * (b.lists.length - 1) ≤ 5 * m := by
  obtain ⟨m, h1, h2, _⟩ := Checkers.optBins_spec (FFD.ffd_ok_all_le hok)
  exact ⟨m, h1, ffd_five_fourths_all hok h2⟩

theorem bfd_five_fourths_opt (hok : bfDecreasing v B items = .ok b) :
    ∃ m, optBins B (items.map v) = some m ∧ 4 * (b.lists.length - 1) ≤ 5 * m := by
  obtain ⟨m, h1, h2, _⟩ := Checkers.optBins_spec (FFD.bfd_ok_all_le hok)
  exact ⟨m, h1, bfd_five_fourths_all hok h2⟩

/-- **C09 with Johnson's constant for moderate optima**: `FFD ≤ 11/9 · OPT + 4` whenever `OPT ≤ 108`
    (from `FFD ≤ 5/4 · OPT + 1`; the empty input included) -/
theorem ffd_eleven_ninths_of_opt_le_108 (hok : ffDecreasing v B items = .ok b)
    (hm : Packable B m (items.map v)) (hsmall : m ≤ 108) : 9 * b.lists.length ≤ 11 * m + 36 := by
  have := ffd_five_fourths_all hok hm
  omega

/-- the same for best fit decreasing (`FFD.bfd_eleven_ninths_of_opt_small` has `OPT ≤ 33`) -/
theorem bfd_eleven_ninths_of_opt_le_108 (hok : bfDecreasing v B items = .ok b)
    (hm : Packable B m (items.map v)) (hsmall : m ≤ 108) : 9 * b.lists.length ≤ 11 * m + 36 := by
  have := bfd_five_fourths_all hok hm
  omega

/-- the name asked for in the task: what is proved of `ffd_eleven_ninths` for *every* input is the weaker ratio
    `5/4` (`4·FFD ≤ 5·OPT + 4` instead of `9·FFD ≤ 11·OPT + c`); missing for `11/9`: the range
    `2B/11 < a ≤ B/4` of the item `a` that opened the last bin -/
theorem ffd_eleven_ninths_partial_five_fourths (hne : items ≠ []) (hok : ffDecreasing v B items = .ok b)
    (hm : Packable B m (items.map v)) : 4 * b.lists.length ≤ 5 * m + 4 := ffd_five_fourths' hne hok hm

theorem bfd_eleven_ninths_partial_five_fourths (hne : items ≠ []) (hok : bfDecreasing v B items = .ok b)
    (hm : Packable B m (items.map v)) : 4 * b.lists.length ≤ 5 * m + 4 := bfd_five_fourths' hne hok hm

/-- **C09, what is proved of `FFD ≤ 11/9 · OPT + c`**: the bound holds with `c = 8/9` whenever the item `a`
    that opened the last bin lies outside `(2B/11, B/4]`.

    The full statement (for every input)
    `theorem ffd_eleven_ninths : 9 * b.lists.length ≤ 11 * m + c`
    is NOT proved: the range `2B/11 < a ≤ B/4` is missing.  For `B/5 < a ≤ B/4` the ratio `5/4` is proved
    (`ffd_five_fourths_of_last_fifth_quarter`), for `2B/11 < a ≤ B/5` only the volume bound `1/(1 − a/B) ≤ 5/4`. -/
theorem ffd_eleven_ninths_partial_outside_gap (hne : items ≠ []) (hok : ffDecreasing v B items = .ok b)
    (hm : Packable B m (items.map v)) {x : α} {L : List α} (hlast : b.lists.getLast? = some (x :: L))
    (hx : 11 * v x ≤ 2 * B ∨ B < 4 * v x) : 9 * b.lists.length ≤ 11 * m + 8 := by
  simp only [ffDecreasing, ffOnline, Fit.ffLoop_eq] at hok
  exact gen_eleven_ninths_partial_outside_gap (Fit.ffStep_step v B) (Part.sortDesc_sorted v items)
    (FFD.sortDesc_ne_nil v hne) hok (FF17.packable_sortDesc hm) hlast hx

theorem bfd_eleven_ninths_partial_outside_gap (hne : items ≠ []) (hok : bfDecreasing v B items = .ok b)
    (hm : Packable B m (items.map v)) {x : α} {L : List α} (hlast : b.lists.getLast? = some (x :: L))
    (hx : 11 * v x ≤ 2 * B ∨ B < 4 * v x) : 9 * b.lists.length ≤ 11 * m + 8 := by
  simp only [bfDecreasing, bfOnline, Fit.bfLoop_eq] at hok
  exact gen_eleven_ninths_partial_outside_gap (Fit.bfStep_step v B) (Part.sortDesc_sorted v items)
    (FFD.sortDesc_ne_nil v hne) hok (FF17.packable_sortDesc hm) hlast hx

end main

/-! ## 9. Non-vacuity -/

/-- `B = 100`, `[60, 40, 35, 35, 30, 30]`: three bins, the last one opened by `30 ∈ (25, 33]` -/
theorem ex1_ffd : ffDecreasing id 100 [30, 35, 60, 30, 40, 35] =
    .ok ⟨[100, 100, 30], [[60, 40], [35, 35, 30], [30]]⟩ := rfl

theorem ex1_bfd : bfDecreasing id 100 [30, 35, 60, 30, 40, 35] =
    .ok ⟨[100, 100, 30], [[60, 40], [35, 35, 30], [30]]⟩ := rfl

theorem ex1_packable : Packable 100 3 (([30, 35, 60, 30, 40, 35] : List Nat).map id) :=
  ⟨[1, 1, 0, 2, 0, 1], ⟨rfl, by decide⟩, by decide⟩

example : 6 * (3 - 1) ≤ 7 * 3 :=
  ffd_seven_sixths_of_last_quarter_third (by decide) ex1_ffd ex1_packable (x := 30) (L := []) rfl
    (by decide) (by decide)

example : 9 * 3 ≤ 11 * 3 + 6 :=
  ffd_eleven_ninths_of_last_quarter_third (by decide) ex1_ffd ex1_packable (x := 30) (L := []) rfl
    (by decide) (by decide)

example : 9 * 3 ≤ 11 * 3 + 6 :=
  bfd_eleven_ninths_of_last_quarter_third (by decide) ex1_bfd ex1_packable (x := 30) (L := []) rfl
    (by decide) (by decide)

example : 9 * 3 ≤ 11 * 3 + 8 :=
  ffd_eleven_ninths_partial_outside_gap (by decide) ex1_ffd ex1_packable (x := 30) (L := []) rfl
    (Or.inr (by decide))

example : 9 * 3 ≤ 11 * 3 + 8 :=
  bfd_eleven_ninths_partial_outside_gap (by decide) ex1_bfd ex1_packable (x := 30) (L := []) rfl
    (Or.inr (by decide))

/-- the normal form of this run at the moment `30` opens the third bin -/
example : NF 100 30 [[60, 40], [35, 35, 30]] := by
  refine ⟨by decide, by decide, by decide, by decide, ?_⟩
  simp only [List.pairwise_cons, List.mem_singleton, forall_eq, List.not_mem_nil, false_imp_iff,
    implies_true, List.Pairwise.nil, and_true]
  intro z hz
  simp only [List.head?_cons, Option.some.injEq] at hz
  subst hz
  exact ⟨[60, 40], [], rfl, by decide, by decide, by simp⟩

/-- the weights of case (i) on this run: `[60, 40] ↦ 4 + 2`, `[35, 35, 30] ↦ 2 + 2 + 2` -/
example : deco (wts1 100) 0 [[60, 40], [35, 35, 30]] =
    [⟨60, 4, 0, 0⟩, ⟨40, 2, 0, 1⟩, ⟨35, 2, 1, 0⟩, ⟨35, 2, 1, 1⟩, ⟨30, 2, 1, 2⟩] := by decide

/-- `B = 100`, `[51, 27, 26, 23, 23, 23, 23, 23]`: three bins, the last one opened by `23 ∈ (20, 25]` -/
theorem ex2_ffd : ffDecreasing id 100 [23, 51, 23, 27, 23, 26, 23, 23] =
    .ok ⟨[78, 95, 46], [[51, 27], [26, 23, 23, 23], [23, 23]]⟩ := rfl

theorem ex2_bfd : bfDecreasing id 100 [23, 51, 23, 27, 23, 26, 23, 23] =
    .ok ⟨[78, 95, 46], [[51, 27], [26, 23, 23, 23], [23, 23]]⟩ := rfl

/-- `51 + 26 + 23`, `27 + 23 + 23 + 23`, `23` -/
theorem ex2_packable : Packable 100 3 (([23, 51, 23, 27, 23, 26, 23, 23] : List Nat).map id) :=
  ⟨[0, 0, 1, 1, 1, 0, 1, 2], ⟨rfl, by decide⟩, by decide⟩

example : 4 * (3 - 1) ≤ 5 * 3 :=
  ffd_five_fourths_of_last_fifth_quarter (by decide) ex2_ffd ex2_packable (x := 23) (L := [23]) rfl
    (by decide) (by decide)

example : 4 * (3 - 1) ≤ 5 * 3 :=
  bfd_five_fourths_of_last_fifth_quarter (by decide) ex2_bfd ex2_packable (x := 23) (L := [23]) rfl
    (by decide) (by decide)

example : 4 * (3 - 1) ≤ 5 * 3 := ffd_five_fourths (by decide) ex2_ffd ex2_packable
example : 4 * (3 - 1) ≤ 5 * 3 := bfd_five_fourths (by decide) ex2_bfd ex2_packable
example : 4 * 3 ≤ 5 * 3 + 4 := ffd_five_fourths' (by decide) ex2_ffd ex2_packable
example : 4 * (3 - 1) ≤ 5 * 3 := ffd_five_fourths (by decide) ex1_ffd ex1_packable
example : 4 * (3 - 1) ≤ 5 * 3 := ffd_five_fourths_all ex2_ffd ex2_packable
example : ∃ m, optBins 100 (([23, 51, 23, 27, 23, 26, 23, 23] : List Nat).map id) = some m ∧ 4 * (3 - 1) ≤ 5 * m :=
  ffd_five_fourths_opt ex2_ffd
example : 4 * 3 ≤ 5 * 3 + 4 := ffd_eleven_ninths_partial_five_fourths (by decide) ex2_ffd ex2_packable
example : 9 * 3 ≤ 11 * 3 + 36 := ffd_eleven_ninths_of_opt_le_108 ex2_ffd ex2_packable (by decide)
example : 9 * 3 ≤ 11 * 3 + 36 := bfd_eleven_ninths_of_opt_le_108 ex2_bfd ex2_packable (by decide)

/-- the weights of case (ii) on the bins that are open when the second `23`-bin is opened:
    `[51, 27] ↦ 48 + 24`, `[26, 23, 23, 23] ↦ 24 + 18 + 18 + 18` -/
example : deco (wts2 100 23) 0 [[51, 27], [26, 23, 23, 23]] =
    [⟨51, 48, 0, 0⟩, ⟨27, 24, 0, 1⟩, ⟨26, 24, 1, 0⟩, ⟨23, 18, 1, 1⟩, ⟨23, 18, 1, 2⟩, ⟨23, 18, 1, 3⟩] := by
  decide

/-- Johnson's family (`FFD.johnson`, `B = 100`, `OPT = 9`, `FFD = 11`, last bin opened by `23`) lies in the
    range that is open for `11/9`; the bound `5/4` applies: `4·11 ≤ 5·9 + 4` -/
example : 4 * 11 ≤ 5 * 9 + 4 := by
  obtain ⟨b, hb, hl⟩ := FFD.johnson_ffd
  have := ffd_five_fourths' (by decide) hb FFD.johnson_packable
  omega

end Prtpy.FFD119

/-
Axiom audit (`#print axioms`, observed with Lean 4.33.0):
#print axioms Prtpy.FFD119.ffd_seven_sixths_of_last_quarter_third             -- [propext, Classical.choice, Quot.sound]
#print axioms Prtpy.FFD119.ffd_eleven_ninths_of_last_quarter_third            -- [propext, Classical.choice, Quot.sound]
#print axioms Prtpy.FFD119.bfd_eleven_ninths_of_last_quarter_third            -- [propext, Classical.choice, Quot.sound]
#print axioms Prtpy.FFD119.gen_eleven_ninths_of_last_quarter_third            -- [propext, Classical.choice, Quot.sound]
#print axioms Prtpy.FFD119.ffd_five_fourths_of_last_fifth_quarter             -- [propext, Classical.choice, Quot.sound]
#print axioms Prtpy.FFD119.bfd_five_fourths_of_last_fifth_quarter             -- [propext, Classical.choice, Quot.sound]
#print axioms Prtpy.FFD119.ffd_five_fourths                                   -- [propext, Classical.choice, Quot.sound]
#print axioms Prtpy.FFD119.bfd_five_fourths                                   -- [propext, Classical.choice, Quot.sound]
#print axioms Prtpy.FFD119.gen_sorted_five_fourths                            -- [propext, Classical.choice, Quot.sound]
#print axioms Prtpy.FFD119.ffd_eleven_ninths_partial_outside_gap              -- [propext, Classical.choice, Quot.sound]
#print axioms Prtpy.FFD119.bfd_eleven_ninths_partial_outside_gap              -- [propext, Classical.choice, Quot.sound]
#print axioms Prtpy.FFD119.ffd_eleven_ninths_of_opt_le_108                    -- [propext, Classical.choice, Quot.sound]
#print axioms Prtpy.FFD119.bfd_eleven_ninths_of_opt_le_108                    -- [propext, Classical.choice, Quot.sound]
#print axioms Prtpy.FFD119.ffd_five_fourths_opt                               -- [propext, Classical.choice, Quot.sound]
#print axioms Prtpy.FFD119.last_bin_induction                                 -- [propext, Classical.choice, Quot.sound]
#print axioms Prtpy.FFD119.count_quarter_third                                -- [propext, Classical.choice, Quot.sound]
#print axioms Prtpy.FFD119.count_fifth_quarter                                -- [propext, Classical.choice, Quot.sound]
-/
