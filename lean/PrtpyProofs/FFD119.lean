import Prtpy
import PrtpyProofs.Fit
import PrtpyProofs.LPT43
import PrtpyProofs.FF17
import PrtpyProofs.FFD
open Prtpy

namespace Prtpy.FFD119

variable {α : Type}

/-! ## 1. The optimum as a list of bins of (arbitrary) items -/

/-- a feasible assignment of the values of `items`, presented as a list of `k` bins of items -/
theorem packable_partition' {β : Type} {v : β → Nat} {T k : Nat} {items : List β}
    (h : Packable T k (items.map v)) :
    ∃ Q : List (List β), Q.length = k ∧ Q.flatten.Perm items ∧ ∀ l ∈ Q, binSum v l ≤ T := by
  obtain ⟨asg, hasg, hT⟩ := h
  obtain ⟨h1, h2, h3, h4⟩ := Oracle.replay_spec v items asg (Bins.new k) (by simpa using hasg.1)
    (fun a ha => by simpa using hasg.2 a ha) (Part.new_consistent v k)
  refine ⟨_, by simpa using h1, by simpa [Part.new_flat] using h2, ?_⟩
  intro l hl
  apply hT
  have : binSum v l ∈ ((items.zip asg).foldl (fun b (p : β × Nat) => b.add v p.1 p.2) (Bins.new k)).sums := by
    rw [h3]
    exact List.mem_map.2 ⟨l, hl, rfl⟩
  rw [h4] at this
  simpa [Oracle.sumsOf_eq, Bins.new] using this

/-! ## 2. The first-fit-decreasing invariant

For a bin `L` and a *later* bin `L'` of a first-fit run on a list sorted by non-increasing value, and every item
`z` of `L'`: the items of `L` split into those that arrived before `z` (`pre`, all `≥ z`, and `z` did not fit on
top of them) and those that arrived later (`post`, all `≤ z`). -/

def SRel (v : α → Nat) (B : Nat) (L L' : List α) : Prop :=
  ∀ z ∈ L', ∃ pre post, L = pre ++ post ∧ B < binSum v pre + v z ∧ (∀ u ∈ pre, v z ≤ v u) ∧
    (∀ u ∈ post, v u ≤ v z)

structure SInv (v : α → Nat) (B : Nat) (b : Bins α) : Prop where
  rel : ∀ i j (hi : i < b.lists.length) (hj : j < b.lists.length), i < j → SRel v B b.lists[i] b.lists[j]
  sorted : ∀ L ∈ b.lists, L.Pairwise (fun a c => v c ≤ v a)

theorem sinv_init (v : α → Nat) (B : Nat) : SInv v B (Bins.new 1 : Bins α) := by
  refine ⟨?_, ?_⟩
  · intro i j hi hj hij
    simp [Bins.new] at hi hj
    omega
  · intro L hL
    simp [Bins.new] at hL
    subst hL
    simp

theorem sinv_add {v : α → Nat} {B : Nat} {b : Bins α} (x : α) (i : Nat) (hi : i < b.lists.length)
    (hfirst : ∀ j (hj : j < i), B < binSum v (b.lists[j]'(by omega)) + v x)
    (hsmall : ∀ L ∈ b.lists, ∀ u ∈ L, v x ≤ v u) (h : SInv v B b) : SInv v B (b.add v x i) := by
  refine ⟨?_, ?_⟩
  · intro i' j hi' hj hij
    have hi'' : i' < b.lists.length := by simpa [Bins.add] using hi'
    have hj' : j < b.lists.length := by simpa [Bins.add] using hj
    simp only [Bins.add, List.getElem_modify]
    have hold := h.rel i' j hi'' hj' hij
    intro z hz
    by_cases hji : i = j
    · subst hji
      rw [if_pos rfl] at hz
      rw [if_neg (by omega)]
      rcases List.mem_append.1 hz with hz | hz
      · exact hold z hz
      · simp only [List.mem_singleton] at hz
        subst hz
        exact ⟨b.lists[i'], [], by simp, hfirst i' hij,
          fun u hu => hsmall _ (List.getElem_mem hi'') u hu, by simp⟩
    · rw [if_neg hji] at hz
      obtain ⟨pre, post, he, hlt, hpre, hpost⟩ := hold z hz
      by_cases hii : i = i'
      · subst hii
        rw [if_pos rfl]
        refine ⟨pre, post ++ [x], by rw [he, List.append_assoc], hlt, hpre, ?_⟩
        intro u hu
        rcases List.mem_append.1 hu with hu | hu
        · exact hpost u hu
        · simp only [List.mem_singleton] at hu
          subst hu
          exact hsmall _ (List.getElem_mem hj') z hz
      · rw [if_neg hii]
        exact ⟨pre, post, he, hlt, hpre, hpost⟩
  · intro L hL
    simp only [Bins.add] at hL
    obtain ⟨k, hk, rfl⟩ := List.getElem_of_mem hL
    have hk' : k < b.lists.length := by simpa using hk
    rw [List.getElem_modify]
    split
    · rw [List.pairwise_append]
      refine ⟨h.sorted _ (List.getElem_mem hk'), by simp, ?_⟩
      intro u hu c hc'
      simp only [List.mem_singleton] at hc'
      subst hc'
      exact hsmall _ (List.getElem_mem hk') u hu
    · exact h.sorted _ (List.getElem_mem hk')

theorem sinv_new {v : α → Nat} {B : Nat} {b : Bins α} (x : α)
    (hc : b.sums = b.lists.map (binSum v)) (hno : ∀ s ∈ b.sums, ¬ s + v x ≤ B)
    (hsmall : ∀ L ∈ b.lists, ∀ u ∈ L, v x ≤ v u) (h : SInv v B b) :
    SInv v B ⟨b.sums ++ [v x], b.lists ++ [[x]]⟩ := by
  refine ⟨?_, ?_⟩
  · intro i j hi hj hij
    simp only [List.length_append, List.length_cons, List.length_nil] at hi hj
    have hi' : i < b.lists.length := by omega
    simp only [List.getElem_append_left hi']
    by_cases hjl : j < b.lists.length
    · simp only [List.getElem_append_left hjl]
      exact h.rel i j hi' hjl hij
    · have hj' : j = b.lists.length := by omega
      subst hj'
      simp only [List.getElem_append_right (Nat.le_refl _), Nat.sub_self, List.getElem_cons_zero]
      intro z hz
      simp only [List.mem_singleton] at hz
      subst hz
      have hmem : binSum v b.lists[i] ∈ b.sums := by
        rw [hc]; exact List.mem_map.2 ⟨_, List.getElem_mem hi', rfl⟩
      have := hno _ hmem
      exact ⟨b.lists[i], [], by simp, by omega, fun u hu => hsmall _ (List.getElem_mem hi') u hu, by simp⟩
  · intro L hL
    simp only [List.mem_append, List.mem_singleton] at hL
    rcases hL with hL | rfl
    · exact h.sorted L hL
    · simp

/-- the invariant along a first-fit run on a sorted list -/
theorem sinv_foldl (v : α → Nat) (B : Nat) : ∀ (xs seen : List α) (b : Bins α), (∀ x ∈ xs, v x ≤ B) →
    (seen ++ xs).Pairwise (fun a c => v c ≤ v a) →
    Fit.Inv v B seen b → SInv v B b → SInv v B (xs.foldl (ffStep v B) b)
  | [], _, _, _, _, _, h => h
  | x :: xs, seen, b, hxs, hsorted, hinv, h => by
    have hinv' := Fit.inv_step (hxs x List.mem_cons_self) (Fit.ffStep_step v B b x) hinv
    have hl := hinv.len
    have hsmall : ∀ L ∈ b.lists, ∀ u ∈ L, v x ≤ v u := by
      intro L hL u hu
      have hu' : u ∈ seen := hinv.perm.mem_iff.1 (List.mem_flatten.2 ⟨L, hL, hu⟩)
      rw [List.pairwise_append] at hsorted
      exact hsorted.2.2 u hu' x List.mem_cons_self
    refine sinv_foldl v B xs (seen ++ [x]) (ffStep v B b x)
      (fun y hy => hxs y (List.mem_cons_of_mem _ hy)) (by simpa using hsorted) hinv' ?_
    rcases Fit.ffStep_spec' v B b x with ⟨i, hi, _, hfirst, he⟩ | ⟨hno, he⟩
    · rw [he]
      refine sinv_add x i (by omega) ?_ hsmall h
      intro j hj
      have := hfirst j hj
      have e : b.sums[j]'(by omega) = binSum v (b.lists[j]'(by omega)) := by simp [hinv.cons]
      omega
    · rw [he, Fit.addEmpty_add v b x hl]
      exact sinv_new x hinv.cons hno hsmall h

/-! ## 3. The normal form, on lists of values

`Ls` are the bins (lists of values, in order of arrival) that are open when an item of value `a` opens a new bin
in a first-fit run on a sorted list. -/

/-- the value form of `SRel` -/
def VRel (B : Nat) (L L' : List Nat) : Prop :=
  ∀ z ∈ L', ∃ pre post, L = pre ++ post ∧ B < sumL pre + z ∧ (∀ u ∈ pre, z ≤ u) ∧ (∀ u ∈ post, u ≤ z)

structure NF (B a : Nat) (Ls : List (List Nat)) : Prop where
  /-- every packed item is at least `a` -/
  ge : ∀ L ∈ Ls, ∀ y ∈ L, a ≤ y
  /-- `a` fits nowhere -/
  full : ∀ L ∈ Ls, B < sumL L + a
  le : ∀ L ∈ Ls, sumL L ≤ B
  sorted : ∀ L ∈ Ls, L.Pairwise (fun x y => y ≤ x)
  rel : Ls.Pairwise (VRel B)

theorem SRel.toV {v : α → Nat} {B : Nat} {L L' : List α} (h : SRel v B L L') :
    VRel B (L.map v) (L'.map v) := by
  intro z hz
  obtain ⟨z0, hz0, rfl⟩ := List.mem_map.1 hz
  obtain ⟨pre, post, he, hlt, hpre, hpost⟩ := h z0 hz0
  refine ⟨pre.map v, post.map v, by rw [he, List.map_append], hlt, ?_, ?_⟩
  · intro u hu
    obtain ⟨u0, hu0, rfl⟩ := List.mem_map.1 hu
    exact hpre u0 hu0
  · intro u hu
    obtain ⟨u0, hu0, rfl⟩ := List.mem_map.1 hu
    exact hpost u0 hu0

/-- the state of a first-fit run on a sorted list at the moment an item `x` opens a new bin -/
theorem nf_of_run {v : α → Nat} {B : Nat} {P : List α} {b : Bins α} {x : α}
    (hinv : Fit.Inv v B P b) (hsi : SInv v B b) (hs : ∀ p ∈ P, v x ≤ v p)
    (hno : ∀ s ∈ b.sums, ¬ s + v x ≤ B) : NF B (v x) (b.lists.map (List.map v)) := by
  refine ⟨?_, ?_, ?_, ?_, ?_⟩
  · intro L hL y hy
    obtain ⟨L0, hL0, rfl⟩ := List.mem_map.1 hL
    obtain ⟨y0, hy0, rfl⟩ := List.mem_map.1 hy
    exact hs y0 (hinv.perm.mem_iff.1 (List.mem_flatten.2 ⟨L0, hL0, hy0⟩))
  · intro L hL
    obtain ⟨L0, hL0, rfl⟩ := List.mem_map.1 hL
    have : binSum v L0 ∈ b.sums := by rw [hinv.cons]; exact List.mem_map.2 ⟨L0, hL0, rfl⟩
    have := hno _ this
    have e : binSum v L0 = sumL (L0.map v) := rfl
    omega
  · intro L hL
    obtain ⟨L0, hL0, rfl⟩ := List.mem_map.1 hL
    have : binSum v L0 ∈ b.sums := by rw [hinv.cons]; exact List.mem_map.2 ⟨L0, hL0, rfl⟩
    exact hinv.le _ this
  · intro L hL
    obtain ⟨L0, hL0, rfl⟩ := List.mem_map.1 hL
    rw [List.pairwise_map]
    exact hsi.sorted L0 hL0
  · rw [List.pairwise_map, List.pairwise_iff_getElem]
    intro i j hi hj hij
    exact (hsi.rel i j hi hj hij).toV

/-! ## 4. Decorated items: value, weight, and a tag (bin, position) that makes them pairwise distinct -/

structure DItem where
  val : Nat
  wt : Nat
  bin : Nat
  pos : Nat
deriving DecidableEq

/-- the items of bin number `i`, from position `p` on, with the weights `ws` (missing weights are `0`) -/
def mk (i : Nat) : Nat → List Nat → List Nat → List DItem
  | _, [], _ => []
  | p, x :: xs, [] => ⟨x, 0, i, p⟩ :: mk i (p + 1) xs []
  | p, x :: xs, w :: ws => ⟨x, w, i, p⟩ :: mk i (p + 1) xs ws

/-- all bins from number `i` on, with the weight rule `wts` -/
def deco (wts : List Nat → List Nat) : Nat → List (List Nat) → List DItem
  | _, [] => []
  | i, L :: Ls => mk i 0 L (wts L) ++ deco wts (i + 1) Ls

theorem mk_val (i : Nat) : ∀ (p : Nat) (L ws : List Nat), (mk i p L ws).map DItem.val = L
  | _, [], _ => rfl
  | p, x :: xs, [] => by simp [mk, mk_val i (p + 1) xs []]
  | p, x :: xs, w :: ws => by simp [mk, mk_val i (p + 1) xs ws]

theorem mk_tag (i : Nat) : ∀ (p : Nat) (L ws : List Nat), ∀ e ∈ mk i p L ws, e.bin = i ∧ p ≤ e.pos
  | _, [], _, e, he => by simp [mk] at he
  | p, x :: xs, [], e, he => by
    simp only [mk, List.mem_cons] at he
    rcases he with rfl | he
    · simp
    · have := mk_tag i (p + 1) xs [] e he; omega
  | p, x :: xs, w :: ws, e, he => by
    simp only [mk, List.mem_cons] at he
    rcases he with rfl | he
    · simp
    · have := mk_tag i (p + 1) xs ws e he; omega

theorem mk_nodup (i : Nat) : ∀ (p : Nat) (L ws : List Nat), (mk i p L ws).Nodup
  | _, [], _ => by simp [mk]
  | p, x :: xs, [] => by
    simp only [mk, List.nodup_cons]
    refine ⟨fun h => ?_, mk_nodup i (p + 1) xs []⟩
    have := (mk_tag i (p + 1) xs [] _ h).2
    simp at this
  | p, x :: xs, w :: ws => by
    simp only [mk, List.nodup_cons]
    refine ⟨fun h => ?_, mk_nodup i (p + 1) xs ws⟩
    have := (mk_tag i (p + 1) xs ws _ h).2
    simp at this

theorem deco_val (wts : List Nat → List Nat) : ∀ (i : Nat) (Ls : List (List Nat)),
    (deco wts i Ls).map DItem.val = Ls.flatten
  | _, [] => rfl
  | i, L :: Ls => by simp [deco, mk_val, deco_val wts (i + 1) Ls]

theorem deco_tag (wts : List Nat → List Nat) : ∀ (i : Nat) (Ls : List (List Nat)),
    ∀ e ∈ deco wts i Ls, i ≤ e.bin ∧ e.bin < i + Ls.length
  | _, [], e, he => by simp [deco] at he
  | i, L :: Ls, e, he => by
    simp only [deco, List.mem_append] at he
    rcases he with he | he
    · have := (mk_tag i 0 L (wts L) e he).1; simp; omega
    · have := deco_tag wts (i + 1) Ls e he; simp; omega

theorem deco_nodup (wts : List Nat → List Nat) : ∀ (i : Nat) (Ls : List (List Nat)), (deco wts i Ls).Nodup
  | _, [] => by simp [deco]
  | i, L :: Ls => by
    simp only [deco]
    rw [List.nodup_append]
    refine ⟨mk_nodup i 0 L (wts L), deco_nodup wts (i + 1) Ls, ?_⟩
    intro e he e' he' hee
    subst hee
    have h1 := (mk_tag i 0 L (wts L) e he).1
    have h2 := (deco_tag wts (i + 1) Ls e he').1
    omega

/-- weight of a bin under the rule -/
def binWt (wts : List Nat → List Nat) (L : List Nat) : Nat := binSum DItem.wt (mk 0 0 L (wts L))

theorem mk_wt (i p : Nat) : ∀ (L ws : List Nat) (i' p' : Nat),
    binSum DItem.wt (mk i p L ws) = binSum DItem.wt (mk i' p' L ws)
  | [], _, _, _ => rfl
  | x :: xs, [], i', p' => by
    simp only [mk, Fit.binSum_cons]
    rw [mk_wt i (p + 1) xs [] i' (p' + 1)]
  | x :: xs, w :: ws, i', p' => by
    simp only [mk, Fit.binSum_cons]
    rw [mk_wt i (p + 1) xs ws i' (p' + 1)]

theorem deco_wt (wts : List Nat → List Nat) : ∀ (i : Nat) (Ls : List (List Nat)),
    binSum DItem.wt (deco wts i Ls) = sumL (Ls.map (binWt wts))
  | _, [] => rfl
  | i, L :: Ls => by
    simp only [deco, Fit.binSum_append, List.map_cons, sumL, deco_wt wts (i + 1) Ls, binWt]
    rw [mk_wt i 0 L (wts L) 0 0]

/-- where a decorated item comes from -/
theorem deco_mem (wts : List Nat → List Nat) : ∀ (i : Nat) (Ls : List (List Nat)),
    ∀ e ∈ deco wts i Ls, ∃ L ∈ Ls, ∃ j, e ∈ mk j 0 L (wts L)
  | _, [], e, he => by simp [deco] at he
  | i, L :: Ls, e, he => by
    simp only [deco, List.mem_append] at he
    rcases he with he | he
    · exact ⟨L, by simp, i, he⟩
    · obtain ⟨L', hL', j, hj⟩ := deco_mem wts (i + 1) Ls e he
      exact ⟨L', List.mem_cons_of_mem _ hL', j, hj⟩

/-- where two different decorated items come from: the same bin, or two bins in one of the two orders -/
theorem deco_mem2 (wts : List Nat → List Nat) {R : List Nat → List Nat → Prop} :
    ∀ (i : Nat) (Ls : List (List Nat)), Ls.Pairwise R → ∀ e ∈ deco wts i Ls, ∀ e' ∈ deco wts i Ls,
    (∃ L ∈ Ls, ∃ j, e ∈ mk j 0 L (wts L) ∧ e' ∈ mk j 0 L (wts L)) ∨
    (∃ L ∈ Ls, ∃ L' ∈ Ls, ∃ j j', R L L' ∧ e ∈ mk j 0 L (wts L) ∧ e' ∈ mk j' 0 L' (wts L')) ∨
    (∃ L ∈ Ls, ∃ L' ∈ Ls, ∃ j j', R L L' ∧ e' ∈ mk j 0 L (wts L) ∧ e ∈ mk j' 0 L' (wts L'))
  | _, [], _, e, he, _, _ => by simp [deco] at he
  | i, L :: Ls, hp, e, he, e', he' => by
    rw [List.pairwise_cons] at hp
    simp only [deco, List.mem_append] at he he'
    rcases he with he | he <;> rcases he' with he' | he'
    · exact Or.inl ⟨L, by simp, i, he, he'⟩
    · obtain ⟨L', hL', j, hj⟩ := deco_mem wts (i + 1) Ls e' he'
      exact Or.inr (Or.inl ⟨L, by simp, L', List.mem_cons_of_mem _ hL', i, j, hp.1 L' hL', he, hj⟩)
    · obtain ⟨L', hL', j, hj⟩ := deco_mem wts (i + 1) Ls e he
      exact Or.inr (Or.inr ⟨L, by simp, L', List.mem_cons_of_mem _ hL', i, j, hp.1 L' hL', he', hj⟩)
    · rcases deco_mem2 wts (i + 1) Ls hp.2 e he e' he' with ⟨M, hM, j, h1, h2⟩ | ⟨M, hM, M', hM', j, j', hr, h1, h2⟩ |
        ⟨M, hM, M', hM', j, j', hr, h1, h2⟩
      · exact Or.inl ⟨M, List.mem_cons_of_mem _ hM, j, h1, h2⟩
      · exact Or.inr (Or.inl ⟨M, List.mem_cons_of_mem _ hM, M', List.mem_cons_of_mem _ hM', j, j', hr, h1, h2⟩)
      · exact Or.inr (Or.inr ⟨M, List.mem_cons_of_mem _ hM, M', List.mem_cons_of_mem _ hM', j, j', hr, h1, h2⟩)

/-- the optimum's side: if every bin of the optimum weighs at most `c`, the total weight is at most `c · m` -/
theorem groups_le (c : Nat) : ∀ Q : List (List DItem), (∀ T ∈ Q, binSum DItem.wt T ≤ c) →
    binSum DItem.wt Q.flatten ≤ c * Q.length
  | [], _ => by simp [binSum, sumL]
  | T :: Q, h => by
    have h1 := h T List.mem_cons_self
    have h2 := groups_le c Q (fun T' hT' => h T' (List.mem_cons_of_mem _ hT'))
    simp only [List.flatten_cons, Fit.binSum_append, List.length_cons, Nat.mul_succ]
    omega

/-- **the weighting argument**: decorated items `D` whose values fit into `m` bins; if every duplicate-free
    sub-collection of `D` that fits into one bin weighs at most `c`, then `D` weighs at most `c · m` -/
theorem weight_le_of_packable {B m c : Nat} {D : List DItem} (hnd : D.Nodup)
    (hm : Packable B m (D.map DItem.val))
    (hT : ∀ T : List DItem, T.Nodup → (∀ e ∈ T, e ∈ D) → binSum DItem.val T ≤ B → binSum DItem.wt T ≤ c) :
    binSum DItem.wt D ≤ c * m := by
  obtain ⟨Q, hk, hp, hle⟩ := packable_partition' hm
  rw [← Fit.binSum_perm hp, ← hk]
  apply groups_le
  intro T hTQ
  have hnd' : Q.flatten.Nodup := hp.nodup_iff.2 hnd
  exact hT T (hnd'.sublist (List.sublist_flatten_of_mem hTQ)) (fun e he => hp.mem_iff.1 (List.mem_flatten.2 ⟨T, hTQ, he⟩)) (hle T hTQ)

theorem mk_const (i c : Nat) : ∀ (p : Nat) (L : List Nat), ∀ e ∈ mk i p L (L.map fun _ => c),
    e.wt = c ∧ e.val ∈ L
  | _, [], e, he => by simp [mk] at he
  | p, x :: xs, e, he => by
    simp only [List.map_cons, mk, List.mem_cons] at he
    rcases he with rfl | he
    · simp
    · have := mk_const i c (p + 1) xs e he
      exact ⟨this.1, List.mem_cons_of_mem _ this.2⟩

theorem mk_const_wt (i c : Nat) : ∀ (p : Nat) (L : List Nat),
    binSum DItem.wt (mk i p L (L.map fun _ => c)) = c * L.length
  | _, [] => by simp [mk, binSum, sumL]
  | p, x :: xs => by
    simp only [List.map_cons, mk, Fit.binSum_cons, mk_const_wt i c (p + 1) xs, List.length_cons, Nat.mul_succ]
    omega

theorem split2 {x y : Nat} {pre post : List Nat} (h : [x, y] = pre ++ post) :
    (pre = [] ∧ post = [x, y]) ∨ (pre = [x] ∧ post = [y]) ∨ (pre = [x, y] ∧ post = []) := by
  match pre, h with
  | [], h => simp at h; simp [h]
  | [p], h => simp at h; simp [h]
  | [p, q], h => simp at h; simp [h]
  | _ :: _ :: _ :: _, h => simp at h

theorem countP_le_one {β : Type} {R : β → β → Prop} (p : β → Bool) : ∀ l : List β, l.Pairwise R →
    (∀ x ∈ l, ∀ y ∈ l, R x y → p x = true → p y = true → False) → l.countP p ≤ 1
  | [], _, _ => by simp
  | x :: l, hp, h => by
    rw [List.pairwise_cons] at hp
    have ih := countP_le_one p l hp.2 (fun a ha c hc => h a (List.mem_cons_of_mem _ ha) c (List.mem_cons_of_mem _ hc))
    by_cases hx : p x = true
    · have h0 : l.countP p = 0 := by
        rw [List.countP_eq_zero]
        intro y hy hpy
        exact h x List.mem_cons_self y (List.mem_cons_of_mem _ hy) (hp.1 y hy) hx hpy
      rw [List.countP_cons_of_pos hx, h0]
    · rw [List.countP_cons_of_neg hx]
      exact ih

/-! ## 5. Case (i): `B/4 < a ≤ B/3`

Weights in units of `1/6`: a bin with one item: `6`; a bin `[x, y]`: `4, 2` if `x > B/2`, else `3, 3` if
`y > B/3`, else `2, 2` (at most one such bin); bins with three items: `2, 2, 2`.  Every bin of the optimum weighs
at most `7`. -/

def wts1 (B : Nat) : List Nat → List Nat
  | [_] => [6]
  | [x, y] => if B < 2 * x then [4, 2] else if B < 3 * y then [3, 3] else [2, 2]
  | L => L.map fun _ => 2

/-- the exceptional bin -/
def exc1 (B : Nat) : List Nat → Bool
  | [x, y] => decide (2 * x ≤ B) && decide (3 * y ≤ B)
  | _ => false

theorem wts1_facts {B a j : Nat} {L : List Nat} (hge : ∀ y ∈ L, a ≤ y) (hfull : B < sumL L + a) :
    ∀ e ∈ mk j 0 L (wts1 B L), a ≤ e.val ∧ (e.wt = 2 ∨ e.wt = 3 ∨ e.wt = 4 ∨ e.wt = 6) ∧
      (e.wt = 6 → B < e.val + a) ∧ (e.wt = 4 → B < 2 * e.val) ∧
      (e.wt = 3 → ∃ x y, L = [x, y] ∧ 2 * x ≤ B ∧ B < 3 * y ∧ (e = ⟨x, 3, j, 0⟩ ∨ e = ⟨y, 3, j, 1⟩)) := by
  intro e he
  match L, hge, hfull, he with
  | [], _, _, he => simp [mk] at he
  | [x], hge, hfull, he =>
    simp only [wts1, mk, List.mem_singleton] at he
    subst he
    have := hge x (by simp)
    simp only [sumL] at hfull
    simp
    omega
  | [x, y], hge, hfull, he =>
    have hx := hge x (by simp)
    have hy := hge y (by simp)
    simp only [sumL] at hfull
    simp only [wts1] at he
    split at he
    · simp only [mk, List.mem_cons, List.not_mem_nil, or_false] at he
      rcases he with rfl | rfl <;> (simp; omega)
    · split at he
      · simp only [mk, List.mem_cons, List.not_mem_nil, or_false] at he
        rcases he with rfl | rfl
        · refine ⟨hx, by simp, by simp, by simp, fun _ => ⟨x, y, rfl, by omega, by omega, Or.inl rfl⟩⟩
        · refine ⟨hy, by simp, by simp, by simp, fun _ => ⟨x, y, rfl, by omega, by omega, Or.inr rfl⟩⟩
      · simp only [mk, List.mem_cons, List.not_mem_nil, or_false] at he
        rcases he with rfl | rfl <;> (simp; omega)
  | x :: y :: z :: r, hge, _, he =>
    have h1 : wts1 B (x :: y :: z :: r) = (x :: y :: z :: r).map fun _ => 2 := by simp [wts1]
    rw [h1] at he
    obtain ⟨hw, hv⟩ := mk_const j 2 0 _ e he
    exact ⟨hge _ hv, by omega, by omega, by omega, by omega⟩

theorem binWt1_ge {B : Nat} {L : List Nat} (hne : L ≠ []) :
    6 ≤ binWt (wts1 B) L + (if exc1 B L then 2 else 0) := by
  match L, hne with
  | [x], _ => simp [binWt, wts1, mk, binSum, sumL]
  | [x, y], _ =>
    simp only [binWt, wts1, exc1]
    split
    · simp [mk, binSum, sumL]
    · split
      · simp [mk, binSum, sumL]
      · have h1 : 2 * x ≤ B := by omega
        have h2 : 3 * y ≤ B := by omega
        simp [mk, binSum, sumL, h1, h2]
  | x :: y :: z :: r, _ =>
    have h1 : wts1 B (x :: y :: z :: r) = (x :: y :: z :: r).map fun _ => 2 := by simp [wts1]
    rw [binWt, h1, mk_const_wt]
    simp
    omega

theorem exc1_unique {B a : Nat} {L L' : List Nat} (h3 : 3 * a ≤ B) (hr : VRel B L L')
    (hfull : B < sumL L' + a) (hsorted : L'.Pairwise (fun x y => y ≤ x))
    (h : exc1 B L = true) (h' : exc1 B L' = true) : False := by
  match L, L', h, h' with
  | [x, y], [x', y'], h, h' =>
    simp only [exc1, Bool.and_eq_true, decide_eq_true_eq] at h h'
    simp only [sumL] at hfull
    simp only [List.pairwise_cons, List.mem_singleton, forall_eq] at hsorted
    have hxy := hsorted.1
    obtain ⟨pre, post, he, hlt, hpre, _⟩ := hr x' (by simp)
    rcases split2 he with ⟨rfl, rfl⟩ | ⟨rfl, rfl⟩ | ⟨rfl, rfl⟩
    · simp only [sumL] at hlt; omega
    · simp only [sumL] at hlt; omega
    · have := hpre y (by simp); omega

theorem wts1_pair {B a j j' : Nat} {L L' : List Nat} (hr : VRel B L L')
    (hge : ∀ y ∈ L, a ≤ y) (hfull : B < sumL L + a)
    (hge' : ∀ y ∈ L', a ≤ y) (hfull' : B < sumL L' + a)
    (hs : L.Pairwise (fun x y => y ≤ x)) (hs' : L'.Pairwise (fun x y => y ≤ x))
    {e e' : DItem} (he : e ∈ mk j 0 L (wts1 B L)) (he' : e' ∈ mk j' 0 L' (wts1 B L'))
    (hw : e.wt = 3) (hw' : e'.wt = 3) : B < e.val + e'.val + a := by
  obtain ⟨x, y, rfl, hx, hy, hxy⟩ := (wts1_facts hge hfull e he).2.2.2.2 hw
  obtain ⟨x', y', rfl, hx', hy', hxy'⟩ := (wts1_facts hge' hfull' e' he').2.2.2.2 hw'
  simp only [List.pairwise_cons, List.mem_singleton, forall_eq] at hs hs'
  have h1 := hs.1
  have h2 := hs'.1
  simp only [sumL] at hfull'
  obtain ⟨pre, post, hsplit, hlt, hpre, _⟩ := hr x' (by simp)
  have hval : y ≤ e.val := by rcases hxy with rfl | rfl <;> (simp; try omega)
  have hval' : y' ≤ e'.val := by rcases hxy' with rfl | rfl <;> (simp; try omega)
  rcases split2 hsplit with ⟨rfl, rfl⟩ | ⟨rfl, rfl⟩ | ⟨rfl, rfl⟩
  · simp only [sumL] at hlt; omega
  · simp only [sumL] at hlt; omega
  · have := hpre y (by simp); omega

theorem wts1_same {B a j : Nat} {L : List Nat} (hge : ∀ y ∈ L, a ≤ y) (hfull : B < sumL L + a)
    {e e' : DItem} (he : e ∈ mk j 0 L (wts1 B L)) (he' : e' ∈ mk j 0 L (wts1 B L)) (hne : e ≠ e')
    (hw : e.wt = 3) (hw' : e'.wt = 3) : B < e.val + e'.val + a := by
  obtain ⟨x, y, rfl, hx, hy, hxy⟩ := (wts1_facts hge hfull e he).2.2.2.2 hw
  obtain ⟨x', y', hL, _, _, hxy'⟩ := (wts1_facts hge hfull e' he').2.2.2.2 hw'
  simp only [List.cons.injEq, and_true] at hL
  obtain ⟨rfl, rfl⟩ := hL
  simp only [sumL] at hfull
  rcases hxy with rfl | rfl <;> rcases hxy' with rfl | rfl
  · exact absurd rfl hne
  · simp; omega
  · simp; omega
  · exact absurd rfl hne

/-- every bin of the optimum weighs at most `7/6` -/
theorem opt_bin1 {B a : Nat} (hB : B < 4 * a) (T : List DItem) (hnd : T.Nodup)
    (h1 : ∀ e ∈ T, a ≤ e.val ∧ (e.wt = 2 ∨ e.wt = 3 ∨ e.wt = 4 ∨ e.wt = 6) ∧ (e.wt = 6 → B < e.val + a) ∧
      (e.wt = 4 → B < 2 * e.val))
    (h2 : ∀ e ∈ T, ∀ e' ∈ T, e ≠ e' → e.wt = 3 → e'.wt = 3 → B < e.val + e'.val + a)
    (hs : binSum DItem.val T ≤ B) : binSum DItem.wt T ≤ 7 := by
  match T, hnd, h1, h2, hs with
  | [], _, _, _, _ => simp [binSum, sumL]
  | [e], _, h1, _, hs =>
    have := h1 e (by simp)
    simp only [binSum, List.map_cons, List.map_nil, sumL] at hs ⊢
    omega
  | [e1, e2], hnd, h1, h2, hs =>
    have f1 := h1 e1 (by simp)
    have f2 := h1 e2 (by simp)
    simp only [binSum, List.map_cons, List.map_nil, sumL] at hs ⊢
    omega
  | [e1, e2, e3], hnd, h1, h2, hs =>
    have f1 := h1 e1 (by simp)
    have f2 := h1 e2 (by simp)
    have f3 := h1 e3 (by simp)
    simp only [List.nodup_cons, List.mem_cons, List.not_mem_nil, or_false, not_or] at hnd
    have g12 := h2 e1 (by simp) e2 (by simp) hnd.1.1
    have g13 := h2 e1 (by simp) e3 (by simp) hnd.1.2
    have g23 := h2 e2 (by simp) e3 (by simp) hnd.2.1
    simp only [binSum, List.map_cons, List.map_nil, sumL] at hs ⊢
    omega
  | e1 :: e2 :: e3 :: e4 :: r, _, h1, _, hs =>
    have f1 := h1 e1 (by simp)
    have f2 := h1 e2 (by simp)
    have f3 := h1 e3 (by simp)
    have f4 := h1 e4 (by simp)
    simp only [binSum, List.map_cons, sumL] at hs
    omega

/-- **case (i), on the normal form**: `6·(k − 1) ≤ 7·m` -/
theorem count_quarter_third {B a m : Nat} {Ls : List (List Nat)} (hnf : NF B a Ls) (h4 : B < 4 * a)
    (h3 : 3 * a ≤ B) (hm : Packable B m (Ls.flatten ++ [a])) : 6 * Ls.length ≤ 7 * m := by
  let D : List DItem := deco (wts1 B) 0 Ls ++ [⟨a, 2, Ls.length, 0⟩]
  have hnd : D.Nodup := by
    rw [List.nodup_append]
    refine ⟨deco_nodup _ 0 Ls, by simp, ?_⟩
    intro e he e' he' hee
    simp only [List.mem_singleton] at he'
    subst hee
    have := (deco_tag _ 0 Ls e he).2
    rw [he'] at this
    simp at this
  have hval : D.map DItem.val = Ls.flatten ++ [a] := by
    simp only [D, List.map_append, deco_val, List.map_cons, List.map_nil]
  have hwt : binSum DItem.wt D = sumL (Ls.map (binWt (wts1 B))) + 2 := by
    simp only [D, Fit.binSum_append, deco_wt]
    simp [binSum, sumL]
  have hne : ∀ L ∈ Ls, L ≠ [] := by
    intro L hL h0
    have := hnf.full L hL
    rw [h0] at this
    simp only [sumL] at this
    omega
  -- the run's side
  have hcount : Ls.countP (exc1 B) ≤ 1 := countP_le_one (R := VRel B) _ Ls hnf.rel (by
    intro L hL L' hL' hr h h'
    exact exc1_unique h3 hr (hnf.full L' hL') (hnf.sorted L' hL') h h')
  have hsum : ∀ Ms : List (List Nat), (∀ L ∈ Ms, L ≠ []) →
      6 * Ms.length ≤ sumL (Ms.map (binWt (wts1 B))) + 2 * Ms.countP (exc1 B) := by
    intro Ms
    induction Ms with
    | nil => intro _; simp [sumL]
    | cons L Ms ih =>
      intro h
      have h1 := binWt1_ge (B := B) (h L (by simp))
      have h2 := ih (fun M hM => h M (List.mem_cons_of_mem _ hM))
      simp only [List.length_cons, List.map_cons, sumL, List.countP_cons]
      split at h1 <;> rename_i hc <;> simp [hc] <;> omega
  have hrun := hsum Ls hne
  -- the optimum's side
  have hopt := weight_le_of_packable (B := B) (m := m) (c := 7) hnd (by rw [hval]; exact hm) (by
    intro T hTnd hTD hTs
    have hfacts : ∀ e ∈ D, a ≤ e.val ∧ (e.wt = 2 ∨ e.wt = 3 ∨ e.wt = 4 ∨ e.wt = 6) ∧
        (e.wt = 6 → B < e.val + a) ∧ (e.wt = 4 → B < 2 * e.val) := by
      intro e he
      simp only [D, List.mem_append, List.mem_singleton] at he
      rcases he with he | rfl
      · obtain ⟨L, hL, j, hj⟩ := deco_mem _ 0 Ls e he
        have := wts1_facts (hnf.ge L hL) (hnf.full L hL) e hj
        exact ⟨this.1, this.2.1, this.2.2.1, this.2.2.2.1⟩
      · simp
    apply opt_bin1 h4 T hTnd (fun e he => hfacts e (hTD e he)) _ hTs
    intro e he e' he' hne' hw hw'
    have hd : ∀ e ∈ D, e.wt = 3 → e ∈ deco (wts1 B) 0 Ls := by
      intro e he hw
      simp only [D, List.mem_append, List.mem_singleton] at he
      rcases he with he | rfl
      · exact he
      · simp at hw
    rcases deco_mem2 (wts1 B) 0 Ls hnf.rel e (hd e (hTD e he) hw) e' (hd e' (hTD e' he') hw') with
      ⟨L, hL, j, h1, h2⟩ | ⟨L, hL, L', hL', j, j', hr, h1, h2⟩ | ⟨L, hL, L', hL', j, j', hr, h1, h2⟩
    · exact wts1_same (hnf.ge L hL) (hnf.full L hL) h1 h2 hne' hw hw'
    · exact wts1_pair hr (hnf.ge L hL) (hnf.full L hL) (hnf.ge L' hL') (hnf.full L' hL') (hnf.sorted L hL)
        (hnf.sorted L' hL') h1 h2 hw hw'
    · have := wts1_pair hr (hnf.ge L hL) (hnf.full L hL) (hnf.ge L' hL') (hnf.full L' hL') (hnf.sorted L hL)
        (hnf.sorted L' hL') h1 h2 hw' hw
      omega)
  omega

/-! ## 6. From the run to the normal form: induction over the prefixes of the sorted list -/

theorem getLast?_modify_snoc {β : Type} {l : List (List β)} {i : Nat} {y x : β} {L : List β}
    (h : (l.modify i (· ++ [y])).getLast? = some (x :: L)) (hne : ∀ M ∈ l, M ≠ []) :
    ∃ L', l.getLast? = some (x :: L') := by
  rw [List.getLast?_eq_getElem?, List.length_modify] at h
  rw [List.getLast?_eq_getElem?]
  have hlen : l.length - 1 < l.length := by
    apply Nat.lt_of_not_le
    intro hle
    rw [List.getElem?_eq_none (by simpa using hle)] at h
    simp at h
  rw [List.getElem?_eq_getElem (by simpa using hlen)] at h
  rw [List.getElem?_eq_getElem hlen]
  simp only [Option.some.injEq, List.getElem_modify] at h ⊢
  have hM := hne _ (List.getElem_mem hlen)
  split at h
  · match hl : l[l.length - 1], hM with
    | x0 :: L0, _ =>
      rw [hl] at h
      simp only [List.cons_append, List.cons.injEq] at h
      exact ⟨L0, by rw [h.1]⟩
  · exact ⟨L, h⟩

/-- **prefix induction**: a bound `Φ k m` that holds (a) for one bin and (b) in the normal form, i.e. at every
    moment an item with property `C` opens a new bin, holds for every first-fit run on a sorted list whose last
    bin was opened by an item with property `C` -/
theorem last_bin_induction {v : α → Nat} {B : Nat} (C : Nat → Prop) (Φ : Nat → Nat → Prop)
    (hone : ∀ m, 1 ≤ m → Φ 1 m)
    (hnew : ∀ (a m : Nat) (Ls : List (List Nat)), C a → NF B a Ls → Packable B m (Ls.flatten ++ [a]) →
      Φ (Ls.length + 1) m) :
    ∀ xs : List α, xs.Pairwise (fun a c => v c ≤ v a) → xs ≠ [] → ∀ m, Packable B m (xs.map v) →
      ∀ x L, (xs.foldl (ffStep v B) (Bins.new 1)).lists.getLast? = some (x :: L) → C (v x) →
      Φ (xs.foldl (ffStep v B) (Bins.new 1)).lists.length m := by
  intro xs
  induction xs using Oracle.rev_induction with
  | nil => intro _ h; exact absurd rfl h
  | snoc P y ih =>
    intro hs _ m hf x L hlast hC
    obtain ⟨hs1, _, hs2⟩ := List.pairwise_append.1 hs
    have hm1 : 1 ≤ m := FFD.packable_pos hf (by simp)
    have hfP : Packable B m (P.map v) := by
      rw [List.map_append] at hf; exact LPT43.packable_prefix _ hf
    have hall : ∀ a ∈ P, v a ≤ B := fun a ha => LPT43.packable_item_le hfP (List.mem_map_of_mem ha)
    have hinv : Fit.Inv v B P (P.foldl (ffStep v B) (Bins.new 1)) := by
      simpa using Fit.inv_foldl _ (Fit.ffStep_step v B) P [] (Bins.new 1) hall (Fit.inv_init v B)
    have hsi : SInv v B (P.foldl (ffStep v B) (Bins.new 1)) :=
      sinv_foldl v B P [] (Bins.new 1) hall (by simpa using hs1) (Fit.inv_init v B) (sinv_init v B)
    rw [List.foldl_append] at hlast ⊢
    simp only [List.foldl_cons, List.foldl_nil] at hlast ⊢
    generalize P.foldl (ffStep v B) (Bins.new 1) = b at hinv hsi ih hlast ⊢
    rcases Fit.ffStep_step v B b y with ⟨i, hi, hfit, he⟩ | ⟨hno, he⟩
    · rw [he] at hlast ⊢
      simp only [Bins.add, List.length_modify] at hlast ⊢
      by_cases hP : P = []
      · have := hinv.first hP
        rw [this]
        exact hone m hm1
      · obtain ⟨L', hL'⟩ := getLast?_modify_snoc hlast (hinv.nonempty hP)
        exact ih hs1 hP m hfP x L' hL' hC
    · rw [he, Fit.addEmpty_add v b y hinv.len] at hlast ⊢
      simp only [List.getLast?_append, List.getLast?_singleton, Option.some_or, Option.some.injEq,
        List.cons.injEq] at hlast
      obtain ⟨rfl, _⟩ := hlast
      have hnf := nf_of_run hinv hsi (fun p hp => hs2 p hp y (by simp)) hno
      have hpk : Packable B m ((b.lists.map (List.map v)).flatten ++ [v y]) := by
        refine LPT43.packable_perm ?_ hf
        rw [List.map_append, ← List.map_flatten]
        exact (hinv.perm.map v).symm.append_right _
      have := hnew (v y) m _ hC hnf hpk
      simpa using this

section main
variable {v : α → Nat} {B m : Nat} {items : List α} {b : Bins α}

/-- the prefix induction for `ffDecreasing` -/
theorem ffd_last_bin_induction (C : Nat → Prop) (Φ : Nat → Nat → Prop) (hone : ∀ m, 1 ≤ m → Φ 1 m)
    (hnew : ∀ (a m : Nat) (Ls : List (List Nat)), C a → NF B a Ls → Packable B m (Ls.flatten ++ [a]) →
      Φ (Ls.length + 1) m)
    (hne : items ≠ []) (hok : ffDecreasing v B items = .ok b) (hm : Packable B m (items.map v))
    {x : α} {L : List α} (hlast : b.lists.getLast? = some (x :: L)) (hC : C (v x)) : Φ b.lists.length m := by
  simp only [ffDecreasing, ffOnline, Fit.ffLoop_eq] at hok
  have hall := Fit.gen_ok_all_le hok
  rw [Fit.genLoop_ok v B _ _ _ hall] at hok
  cases hok
  exact last_bin_induction C Φ hone hnew _ (Part.sortDesc_sorted v items) (FFD.sortDesc_ne_nil v hne) m
    (FF17.packable_sortDesc hm) x L hlast hC

/-- **case (i), strong form**: if the item `a` that opened the last bin satisfies `B/4 < a ≤ B/3` then
    `FFD ≤ 7/6 · OPT + 1` -/
theorem ffd_seven_sixths_of_last_quarter_third (hne : items ≠ []) (hok : ffDecreasing v B items = .ok b)
    (hm : Packable B m (items.map v)) {x : α} {L : List α} (hlast : b.lists.getLast? = some (x :: L))
    (h4 : B < 4 * v x) (h3 : 3 * v x ≤ B) : 6 * (b.lists.length - 1) ≤ 7 * m :=
  ffd_last_bin_induction (fun a => B < 4 * a ∧ 3 * a ≤ B) (fun k m => 6 * (k - 1) ≤ 7 * m)
    (fun m _ => by omega)
    (fun a m Ls hC hnf hpk => by simpa using count_quarter_third hnf hC.1 hC.2 hpk)
    hne hok hm hlast ⟨h4, h3⟩

/-- **C09, case (i)**: if the item `a` that opened the last bin satisfies `B/4 < a ≤ B/3` then
    `FFD ≤ 11/9 · OPT + 6/9` -/
theorem ffd_eleven_ninths_of_last_quarter_third (hne : items ≠ []) (hok : ffDecreasing v B items = .ok b)
    (hm : Packable B m (items.map v)) {x : α} {L : List α} (hlast : b.lists.getLast? = some (x :: L))
    (h4 : B < 4 * v x) (h3 : 3 * v x ≤ B) : 9 * b.lists.length ≤ 11 * m + 6 := by
  have h1 := ffd_seven_sixths_of_last_quarter_third hne hok hm hlast h4 h3
  have h2 := FFD.ffd_partial_four_thirds hne hok hm
  omega

end main

end Prtpy.FFD119
