/-
  PrtpyProofs.FFD119Gap — property C09, the remaining size range `2B/11 < a ≤ B/4` of Johnson's theorem
  `FFD ≤ 11/9 · OPT + c` (`a` = the value of the item that opened the last bin; `k` = number of bins of the run,
  `k'` = `k − 1` = number of bins of the normal form `NF B a Ls` of `PrtpyProofs.FFD119`, `m` = a number of bins
  that suffices).

  STATUS.  The unconditional theorem
      theorem ffd_eleven_ninths (hne : items ≠ []) (hok : ffDecreasing v B items = .ok b)
        (hm : Packable B m (items.map v)) : 9 * b.lists.length ≤ 11 * m + c
  is NOT proved here, and neither is the bound under `5 * v x ≤ B` or under `B < 5 * v x` alone (task items 1, 2):
  that is the hard core of Johnson's theorem (Johnson 1973, Baker 1985, Yue 1991, Dósa 2007: weights that depend on
  `a`-dependent thresholds and on the position of an item in the run, long case analyses).  Delivered (task item 3
  and the reduction of item 1 to one statement about normal forms; everything checked, no `sorry`):

    §1  structure of the gap case on the normal form (`2B < 11a`):
        `gap_group_length_le_five`                 items `≥ a` that fit into one bin: at most `5`
        `nf_bin_length_le_five`, `nf_bin_ne_nil`   every bin of the run holds between 1 and 5 items
        `packable_gap_partition`, `gap_item_count` the optimum consists of `m` groups of `≤ 5` items; `#items ≤ 5m`
        `nf_item_count`                            `k' + 1 ≤ #items ≤ 5·m`
        `nf_volume`                                `k'·(B − a + 1) + a ≤ m·B`
        `nf_deficiency`                            for `a ≤ B/5` every bin of the run is filled above `4B/5`, i.e. it
                                                   misses the level `9B/11` (what a pure volume argument for `11/9`
                                                   would need) by less than `B/55`
        `nf_five_items_level`                      a bin with five items is filled above `10B/11`
        `nf_five_fourths_gap`                      `72·k' ≤ 90·m + 12` on every normal form with `a ≤ B/4`
    §2  the reduction of `ffd_eleven_ninths` to a counting statement on normal forms:
        `GapCount B m c`  :=  every normal form with `2B/11 < a ≤ B/4` whose items (and `a`) fit into `m` bins has
                              `9·(k' + 1) ≤ 11·m + c`
        `gen_/ffd_/bfd_eleven_ninths_partial_of_gap_count` :  `(∀ m' ≤ m, GapCount B m' c) → 9·k ≤ 11·m + max c 8`
        `gapCount_of_le_100`                       `GapCount B m 36` for `m ≤ 100` (from the ratio `5/4`)
        `ffd_/bfd_eleven_ninths_partial_opt_le_100`  the instance `9·k ≤ 11·m + 36` for `m ≤ 100` (not new:
                                                   `FFD119.ffd_eleven_ninths_of_opt_le_108` has `m ≤ 108`; here it
                                                   only shows that the hypothesis of the reduction can be met)
    §3  the skeleton of a weighting argument on the normal form (`decoNF`, `count_of_weights`,
        `deficit_le_of_unique`, `mem_decoNF`): the common part of `FFD119.count_quarter_third` and
        `FFD119.count_fifth_quarter`; `count_quarter_third_via_skeleton` (§5) shows it in use
    §4  regular and irregular bins for all size classes `(B/(t+1), B/t]` at once: `regular_of_later`, `irr_unique`,
        `nf_irr_count` (at most one irregular bin per class), `regular_weight`, `nf_class_le_five`
    §4b consequences of the any-fit invariant in the form the classical proofs use: `vrel_next_ge` (the next item of
        an earlier bin is at least as large as any later bin-opener that fits), `vrel_second_ge`, `vrel_head_ge`,
        `nf_heads_sorted`
    §5  non-vacuity
-/
import Prtpy
import PrtpyProofs.Fit
import PrtpyProofs.FF17
import PrtpyProofs.FFD
import PrtpyProofs.FFD119
open Prtpy

namespace Prtpy.FFD119Gap

open Prtpy.FFD119

variable {α : Type}

/-! ## 1. Structure of the gap case on the normal form -/

/-- `n` items, each `≥ a`, weigh at least `n·a` -/
theorem length_mul_le_sumL {a : Nat} : ∀ L : List Nat, (∀ y ∈ L, a ≤ y) → L.length * a ≤ sumL L
  | [], _ => by simp
  | y :: L, h => by
    have h1 := h y (by simp)
    have ih := length_mul_le_sumL L (fun z hz => h z (List.mem_cons_of_mem _ hz))
    simp only [List.length_cons, sumL, Nat.add_mul]
    omega

/-- a collection of items `≥ a > 2B/11` that fits into one bin has at most five items -/
theorem gap_group_length_le_five {B a : Nat} {L : List Nat} (hgap : 2 * B < 11 * a) (hge : ∀ y ∈ L, a ≤ y)
    (hle : sumL L ≤ B) : L.length ≤ 5 := by
  have h1 := length_mul_le_sumL L hge
  apply Nat.le_of_not_lt
  intro h6
  have h2 : 6 * a ≤ L.length * a := Nat.mul_le_mul_right a h6
  omega

/-- in the gap every bin of the run holds at most five items -/
theorem nf_bin_length_le_five {B a : Nat} {Ls : List (List Nat)} (hnf : NF B a Ls) (hgap : 2 * B < 11 * a)
    {L : List Nat} (hL : L ∈ Ls) : L.length ≤ 5 :=
  gap_group_length_le_five hgap (hnf.ge L hL) (hnf.le L hL)

/-- no bin of a normal form is empty (`a ≤ B`) -/
theorem nf_bin_ne_nil {B a : Nat} {Ls : List (List Nat)} (hnf : NF B a Ls) (haB : a ≤ B)
    {L : List Nat} (hL : L ∈ Ls) : L ≠ [] := by
  intro h0
  have := hnf.full L hL
  rw [h0] at this
  simp only [sumL] at this
  omega

/-- the optimum, in the gap: `m` groups of at most five items each -/
theorem packable_gap_partition {B a m : Nat} {vals : List Nat} (hgap : 2 * B < 11 * a)
    (hge : ∀ y ∈ vals, a ≤ y) (hm : Packable B m vals) :
    ∃ Q : List (List Nat), Q.length = m ∧ Q.flatten.Perm vals ∧ ∀ l ∈ Q, sumL l ≤ B ∧ l.length ≤ 5 := by
  obtain ⟨Q, hk, hp, hT⟩ := LPT43.packable_partition hm
  refine ⟨Q, hk, hp, fun l hl => ⟨hT l hl, ?_⟩⟩
  apply gap_group_length_le_five hgap _ (hT l hl)
  intro y hy
  exact hge y (hp.mem_iff.1 (List.mem_flatten.2 ⟨l, hl, hy⟩))

theorem length_flatten_le (c : Nat) : ∀ Q : List (List Nat), (∀ l ∈ Q, l.length ≤ c) →
    Q.flatten.length ≤ c * Q.length
  | [], _ => by simp
  | l :: Q, h => by
    have h1 := h l (by simp)
    have ih := length_flatten_le c Q (fun l' hl' => h l' (List.mem_cons_of_mem _ hl'))
    simp only [List.flatten_cons, List.length_append, List.length_cons, Nat.mul_succ]
    omega

theorem length_le_length_flatten : ∀ Q : List (List Nat), (∀ l ∈ Q, l ≠ []) → Q.length ≤ Q.flatten.length
  | [], _ => by simp
  | l :: Q, h => by
    have h1 : 1 ≤ l.length := List.length_pos_iff.2 (h l (by simp))
    have ih := length_le_length_flatten Q (fun l' hl' => h l' (List.mem_cons_of_mem _ hl'))
    simp only [List.flatten_cons, List.length_append, List.length_cons]
    omega

/-- in the gap the number of items is at most `5·m` -/
theorem gap_item_count {B a m : Nat} {vals : List Nat} (hgap : 2 * B < 11 * a)
    (hge : ∀ y ∈ vals, a ≤ y) (hm : Packable B m vals) : vals.length ≤ 5 * m := by
  obtain ⟨Q, hk, hp, hQ⟩ := packable_gap_partition hgap hge hm
  rw [← hp.length_eq, ← hk]
  exact length_flatten_le 5 Q (fun l hl => (hQ l hl).2)

theorem nf_all_ge {B a : Nat} {Ls : List (List Nat)} (hnf : NF B a Ls) : ∀ y ∈ Ls.flatten ++ [a], a ≤ y := by
  intro y hy
  rcases List.mem_append.1 hy with hy | hy
  · obtain ⟨L, hL, hyL⟩ := List.mem_flatten.1 hy
    exact hnf.ge L hL y hyL
  · simp only [List.mem_singleton] at hy
    omega

/-- on a normal form of the gap: `#bins + 1 ≤ #items ≤ 5·m` -/
theorem nf_item_count {B a m : Nat} {Ls : List (List Nat)} (hnf : NF B a Ls) (hgap : 2 * B < 11 * a)
    (haB : a ≤ B) (hm : Packable B m (Ls.flatten ++ [a])) :
    Ls.length + 1 ≤ (Ls.flatten ++ [a]).length ∧ (Ls.flatten ++ [a]).length ≤ 5 * m := by
  refine ⟨?_, gap_item_count hgap (nf_all_ge hnf) hm⟩
  have := length_le_length_flatten Ls (fun L hL => nf_bin_ne_nil hnf haB hL)
  simp only [List.length_append, List.length_cons, List.length_nil]
  omega

/-- **volume on the normal form**: every bin is filled above `B − a` -/
theorem nf_volume {B a m : Nat} {Ls : List (List Nat)} (hnf : NF B a Ls) (haB : a ≤ B)
    (hm : Packable B m (Ls.flatten ++ [a])) : Ls.length * (B - a + 1) + a ≤ m * B := by
  have h1 := FFD.length_mul_le (B - a + 1) (Ls.map sumL) (by
    intro s hs
    obtain ⟨L, hL, rfl⟩ := List.mem_map.1 hs
    have := hnf.full L hL
    omega)
  have h2 := LPT43.packable_sum hm
  rw [Fit.sumL_append, LPT43.sumL_flatten] at h2
  simp only [sumL, List.length_map] at h1 h2
  omega

/-- for `a ≤ B/5` (and of course in the gap) a bin of the run may miss the level `9B/11`, which a volume
    argument for `11/9` would need, only by less than `B/55`:  `11·level > 9·B − B/5` -/
theorem nf_deficiency {B a : Nat} {Ls : List (List Nat)} (hnf : NF B a Ls) (h5 : 5 * a ≤ B)
    {L : List Nat} (hL : L ∈ Ls) : 44 * B < 55 * sumL L := by
  have := hnf.full L hL
  omega

/-- a bin with five items is filled above `10B/11` in the gap: it has the surplus `1/9` under the weight
    `11/9 · size` -/
theorem nf_five_items_level {B a : Nat} {Ls : List (List Nat)} (hnf : NF B a Ls) (hgap : 2 * B < 11 * a)
    {L : List Nat} (hL : L ∈ Ls) (h5 : 5 ≤ L.length) : 10 * B < 11 * sumL L := by
  have h1 := length_mul_le_sumL L (hnf.ge L hL)
  have h2 : 5 * a ≤ L.length * a := Nat.mul_le_mul_right a h5
  omega

/-- the ratio `5/4` on **every** normal form of the gap: weights (`count_fifth_quarter`) above `B/5`, volume below -/
theorem nf_five_fourths_gap {B a m : Nat} {Ls : List (List Nat)} (hnf : NF B a Ls) (h4 : 4 * a ≤ B)
    (hm : Packable B m (Ls.flatten ++ [a])) : 72 * Ls.length ≤ 90 * m + 12 := by
  by_cases h5 : B < 5 * a
  · exact count_fifth_quarter hnf h5 h4 hm
  · have := five_fourths_arith (nf_volume hnf (by omega) hm) (by omega)
    omega

/-! ## 2. The reduction of `ffd_eleven_ninths` to a counting statement on normal forms -/

/-- the counting statement that is missing for `ffd_eleven_ninths`: every normal form in the gap
    (`2B/11 < a ≤ B/4`) whose items, with `a`, fit into `m` bins satisfies `9·(k' + 1) ≤ 11·m + c` -/
def GapCount (B m c : Nat) : Prop :=
  ∀ (a : Nat) (Ls : List (List Nat)), 2 * B < 11 * a → 4 * a ≤ B → NF B a Ls →
    Packable B m (Ls.flatten ++ [a]) → 9 * (Ls.length + 1) ≤ 11 * m + c

theorem GapCount.mono {B m c c' : Nat} (h : GapCount B m c) (hc : c ≤ c') : GapCount B m c' := by
  intro a Ls h1 h2 h3 h4
  have := h a Ls h1 h2 h3 h4
  omega

/-- from the ratio `5/4`: the counting statement with `c = 36` for `m ≤ 100` -/
theorem gapCount_of_le_100 (B : Nat) {m : Nat} (hm : m ≤ 100) : GapCount B m 36 := by
  intro a Ls _ h4 hnf hpk
  have := nf_five_fourths_gap hnf h4 hpk
  omega

section generic
variable {v : α → Nat} {B m c : Nat} {step : Bins α → α → Bins α} {xs : List α} {b : Bins α}

/-- **reduction, every any-fit rule on a sorted input**: the counting statement on the normal forms of the gap
    gives `#bins ≤ 11/9 · m + max c 8 / 9` for every input -/
theorem gen_eleven_ninths_partial_of_gap_count (hstep : ∀ b x, Fit.Step v B b x (step b x))
    (hsorted : xs.Pairwise (fun a c => v c ≤ v a)) (hne : xs ≠ [])
    (hok : Fit.genLoop v B step (Bins.new 1) xs = .ok b) (hm : Packable B m (xs.map v))
    (hgap : ∀ m', m' ≤ m → GapCount B m' c) : 9 * b.lists.length ≤ 11 * m + max c 8 := by
  obtain ⟨x, L, hlast⟩ := gen_last_exists hstep hne hok
  by_cases hx : 11 * v x ≤ 2 * B ∨ B < 4 * v x
  · have := gen_eleven_ninths_partial_outside_gap hstep hsorted hne hok hm hlast hx
    omega
  · have h := gen_last_bin_induction hstep (fun a => 2 * B < 11 * a ∧ 4 * a ≤ B)
      (fun k m' => m' ≤ m → 9 * k ≤ 11 * m' + c)
      (fun m' h1 _ => by omega)
      (fun a m' Ls hC hnf hpk hle => hgap m' hle a Ls hC.1 hC.2 hnf hpk)
      hsorted hne hok hm hlast ⟨by omega, by omega⟩ (Nat.le_refl m)
    omega

end generic

section main
variable {v : α → Nat} {B m c : Nat} {items : List α} {b : Bins α}

/-- **reduction for first fit decreasing**.  The full statement
    `theorem ffd_eleven_ninths (hne) (hok) (hm) : 9 * b.lists.length ≤ 11 * m + c`
    follows from `GapCount B m' c` (for `m' ≤ m`), which is what remains open. -/
theorem ffd_eleven_ninths_partial_of_gap_count (hne : items ≠ []) (hok : ffDecreasing v B items = .ok b)
    (hm : Packable B m (items.map v)) (hgap : ∀ m', m' ≤ m → GapCount B m' c) :
    9 * b.lists.length ≤ 11 * m + max c 8 := by
  simp only [ffDecreasing, ffOnline, Fit.ffLoop_eq] at hok
  exact gen_eleven_ninths_partial_of_gap_count (Fit.ffStep_step v B) (Part.sortDesc_sorted v items)
    (FFD.sortDesc_ne_nil v hne) hok (FF17.packable_sortDesc hm) hgap

theorem bfd_eleven_ninths_partial_of_gap_count (hne : items ≠ []) (hok : bfDecreasing v B items = .ok b)
    (hm : Packable B m (items.map v)) (hgap : ∀ m', m' ≤ m → GapCount B m' c) :
    9 * b.lists.length ≤ 11 * m + max c 8 := by
  simp only [bfDecreasing, bfOnline, Fit.bfLoop_eq] at hok
  exact gen_eleven_ninths_partial_of_gap_count (Fit.bfStep_step v B) (Part.sortDesc_sorted v items)
    (FFD.sortDesc_ne_nil v hne) hok (FF17.packable_sortDesc hm) hgap

/-- the instance that is available: `FFD ≤ 11/9 · m + 4` whenever `m ≤ 100` bins suffice -/
theorem ffd_eleven_ninths_partial_opt_le_100 (hne : items ≠ []) (hok : ffDecreasing v B items = .ok b)
    (hm : Packable B m (items.map v)) (hsmall : m ≤ 100) : 9 * b.lists.length ≤ 11 * m + 36 :=
  ffd_eleven_ninths_partial_of_gap_count (c := 36) hne hok hm
    (fun _ hle => gapCount_of_le_100 B (Nat.le_trans hle hsmall))

theorem bfd_eleven_ninths_partial_opt_le_100 (hne : items ≠ []) (hok : bfDecreasing v B items = .ok b)
    (hm : Packable B m (items.map v)) (hsmall : m ≤ 100) : 9 * b.lists.length ≤ 11 * m + 36 :=
  bfd_eleven_ninths_partial_of_gap_count (c := 36) hne hok hm
    (fun _ hle => gapCount_of_le_100 B (Nat.le_trans hle hsmall))

end main

/-! ## 3. The skeleton of a weighting argument on the normal form

The common part of `FFD119.count_quarter_third` and `FFD119.count_fifth_quarter`, for whoever attacks the gap: a
weight rule `wts` (weights may depend on the whole bin, i.e. on the position in the packing), a weight `wa` for the
item `a`, an allowed deficit `defc L` for each bin of the run.  If every bin of the run weighs at least `lo − defc`
and every duplicate-free collection of decorated items that fits into one bin weighs at most `hi`, then
`lo · k' + wa ≤ hi · m + Σ defc`.  With `lo = 9u`, `hi = 11u` this is `GapCount`. -/

/-- the decorated items of a normal form: the bins of the run under the rule `wts`, and `a` with weight `wa` -/
def decoNF (wts : List Nat → List Nat) (a wa : Nat) (Ls : List (List Nat)) : List DItem :=
  deco wts 0 Ls ++ [⟨a, wa, Ls.length, 0⟩]

theorem decoNF_nodup (wts : List Nat → List Nat) (a wa : Nat) (Ls : List (List Nat)) :
    (decoNF wts a wa Ls).Nodup := by
  unfold decoNF
  rw [List.nodup_append]
  refine ⟨deco_nodup _ 0 Ls, by simp, ?_⟩
  intro e he e' he' hee
  simp only [List.mem_singleton] at he'
  subst hee
  have := (deco_tag _ 0 Ls e he).2
  rw [he'] at this
  simp at this

theorem decoNF_val (wts : List Nat → List Nat) (a wa : Nat) (Ls : List (List Nat)) :
    (decoNF wts a wa Ls).map DItem.val = Ls.flatten ++ [a] := by
  simp only [decoNF, List.map_append, deco_val, List.map_cons, List.map_nil]

theorem decoNF_wt (wts : List Nat → List Nat) (a wa : Nat) (Ls : List (List Nat)) :
    binSum DItem.wt (decoNF wts a wa Ls) = sumL (Ls.map (binWt wts)) + wa := by
  simp only [decoNF, Fit.binSum_append, deco_wt]
  simp [binSum, sumL]

/-- the run's side: bins that weigh at least `lo` up to their allowed deficit -/
theorem run_weight_ge (wts : List Nat → List Nat) (defc : List Nat → Nat) (lo : Nat) :
    ∀ Ms : List (List Nat), (∀ L ∈ Ms, lo ≤ binWt wts L + defc L) →
      lo * Ms.length ≤ sumL (Ms.map (binWt wts)) + sumL (Ms.map defc)
  | [], _ => by simp [sumL]
  | L :: Ms, h => by
    have h1 := h L (by simp)
    have ih := run_weight_ge wts defc lo Ms (fun M hM => h M (List.mem_cons_of_mem _ hM))
    simp only [List.length_cons, List.map_cons, sumL, Nat.mul_succ]
    omega

/-- **the weighting skeleton** -/
theorem count_of_weights {B a m lo hi wa : Nat} {Ls : List (List Nat)} (wts : List Nat → List Nat)
    (defc : List Nat → Nat) (hrun : ∀ L ∈ Ls, lo ≤ binWt wts L + defc L)
    (hopt : ∀ T : List DItem, T.Nodup → (∀ e ∈ T, e ∈ decoNF wts a wa Ls) → binSum DItem.val T ≤ B →
      binSum DItem.wt T ≤ hi)
    (hm : Packable B m (Ls.flatten ++ [a])) : lo * Ls.length + wa ≤ hi * m + sumL (Ls.map defc) := by
  have h1 := run_weight_ge wts defc lo Ls hrun
  have h2 := weight_le_of_packable (B := B) (m := m) (c := hi) (decoNF_nodup wts a wa Ls)
    (by rw [decoNF_val]; exact hm) hopt
  rw [decoNF_wt] at h2
  omega

/-- the total deficit, if only the bins of one kind `p` have a deficit (`d`), and two bins of the run cannot both
    be of this kind -/
theorem deficit_le_of_unique {B a d : Nat} {Ls : List (List Nat)} (hnf : NF B a Ls) (p : List Nat → Bool)
    (huniq : ∀ L ∈ Ls, ∀ L' ∈ Ls, VRel B L L' → p L = true → p L' = true → False) :
    sumL (Ls.map fun L => if p L then d else 0) ≤ d := by
  have hc : Ls.countP p ≤ 1 := countP_le_one (R := VRel B) p Ls hnf.rel huniq
  have hs : ∀ Ms : List (List Nat), sumL (Ms.map fun L => if p L then d else 0) = d * Ms.countP p := by
    intro Ms
    induction Ms with
    | nil => simp [sumL]
    | cons L Ms ih =>
      simp only [List.map_cons, sumL, ih, List.countP_cons]
      by_cases hp : p L = true
      · simp only [hp, if_true, Nat.mul_add, Nat.mul_one]; omega
      · simp only [hp, Bool.false_eq_true, if_false, Nat.add_zero]; omega
  rw [hs]
  calc d * Ls.countP p ≤ d * 1 := Nat.mul_le_mul_left d hc
    _ = d := Nat.mul_one d

/-- the item `a` itself and the decorated items of the bins -/
theorem mem_decoNF {wts : List Nat → List Nat} {a wa : Nat} {Ls : List (List Nat)} {e : DItem}
    (he : e ∈ decoNF wts a wa Ls) :
    (∃ L ∈ Ls, ∃ j, e ∈ mk j 0 L (wts L)) ∨ e = ⟨a, wa, Ls.length, 0⟩ := by
  simp only [decoNF, List.mem_append, List.mem_singleton] at he
  rcases he with he | rfl
  · exact Or.inl (deco_mem wts 0 Ls e he)
  · exact Or.inr rfl

/-! ## 4. Regular and irregular bins (all size classes at once)

The classical proofs sort the bins of the run by the size class `(B/(t+1), B/t]` of their first item; a bin of class
`t` is *regular* if it holds `t` items above `B/(t+1)`.  `FFD119.e2_unique` is the case `t = 3`.  For every `t` at most
one bin of a normal form is irregular (`nf_irr_count`), and a regular bin weighs at least `1` under harmonic
weights (`regular_weight`).  In the gap only `t ≤ 5` occurs (`nf_class_le_five`). -/

/-- `t · Σ l ≤ #l · B` if `t · u ≤ B` for every `u ∈ l` -/
theorem mul_sumL_le {B t : Nat} : ∀ l : List Nat, (∀ u ∈ l, t * u ≤ B) → t * sumL l ≤ l.length * B
  | [], _ => by simp [sumL]
  | u :: l, h => by
    have h1 := h u (by simp)
    have ih := mul_sumL_le l (fun w hw => h w (List.mem_cons_of_mem _ hw))
    simp only [sumL, List.length_cons, Nat.mul_add, Nat.add_mul, Nat.one_mul]
    omega

/-- the items of size class `t`: `B/(t+1) < u` -/
def big (B t : Nat) (u : Nat) : Bool := decide (B < (t + 1) * u)

/-- a bin is *irregular of class `t`* if its first item lies in `(B/(t+1), B/t]` and it holds fewer than `t` items
    above `B/(t+1)` -/
def irr (B t : Nat) : List Nat → Bool
  | [] => false
  | x :: r => decide (B < (t + 1) * x) && decide (t * x ≤ B) && decide ((x :: r).countP (big B t) < t)

/-- **regular bins**: if a later bin was opened by an item `z ∈ (B/(t+1), B/t]`, an earlier bin whose first item is
    at most `B/t` holds at least `t` items above `B/(t+1)` -/
theorem regular_of_later {B t x z : Nat} {r r' : List Nat} (ht : 0 < t) (hr : VRel B (x :: r) (z :: r'))
    (hs : (x :: r).Pairwise (fun p q => q ≤ p)) (hx : t * x ≤ B) (hz : B < (t + 1) * z) (hz' : t * z ≤ B) :
    t ≤ (x :: r).countP (big B t) := by
  obtain ⟨pre, post, he, hlt, hpre, _⟩ := hr z (by simp)
  have hall : ∀ u ∈ pre, t * u ≤ B := by
    intro u hu
    have hu' : u ∈ x :: r := by rw [he]; exact List.mem_append_left _ hu
    rcases List.mem_cons.1 hu' with rfl | hu'
    · exact hx
    · have := (List.pairwise_cons.1 hs).1 u hu'
      exact Nat.le_trans (Nat.mul_le_mul_left t this) hx
  have h1 := mul_sumL_le pre hall
  have h2 : t * B < t * (sumL pre + z) := (Nat.mul_lt_mul_left ht).2 hlt
  rw [Nat.mul_add] at h2
  have h3 : t * B < (pre.length + 1) * B := by
    rw [Nat.add_mul, Nat.one_mul]; omega
  have h4 : t < pre.length + 1 := Nat.lt_of_mul_lt_mul_right h3
  have h5 : pre.countP (big B t) = pre.length := by
    rw [List.countP_eq_length]
    intro u hu
    have := hpre u hu
    have h6 : (t + 1) * z ≤ (t + 1) * u := Nat.mul_le_mul_left _ this
    simp only [big, decide_eq_true_eq]
    omega
  rw [he, List.countP_append, h5]
  omega

theorem irr_unique {B t : Nat} {L L' : List Nat} (ht : 0 < t) (hr : VRel B L L')
    (hs : L.Pairwise (fun p q => q ≤ p)) (h : irr B t L = true) (h' : irr B t L' = true) : False := by
  match L, L', h, h' with
  | x :: r, z :: r', h, h' =>
    simp only [irr, Bool.and_eq_true, decide_eq_true_eq] at h h'
    have := regular_of_later ht hr hs h.1.2 h'.1.1 h'.1.2
    omega

/-- on a normal form at most one bin is irregular of class `t` -/
theorem nf_irr_count {B a t : Nat} {Ls : List (List Nat)} (hnf : NF B a Ls) (ht : 0 < t) :
    Ls.countP (irr B t) ≤ 1 :=
  countP_le_one (R := VRel B) _ Ls hnf.rel (fun L hL _ _ hr h h' => irr_unique ht hr (hnf.sorted L hL) h h')

/-- weight of the big items of a bin: if every item above `B/(t+1)` weighs at least `w` under `f`, a bin weighs at
    least `w` times the number of these items -/
theorem countP_mul_le_sumL_map {B t w : Nat} (f : Nat → Nat) (hf : ∀ u, B < (t + 1) * u → w ≤ f u) :
    ∀ L : List Nat, L.countP (big B t) * w ≤ sumL (L.map f)
  | [] => by simp [sumL]
  | u :: L => by
    have ih := countP_mul_le_sumL_map f hf L
    simp only [List.countP_cons, List.map_cons, sumL]
    by_cases hu : big B t u = true
    · have := hf u (by simpa [big] using hu)
      simp only [hu, if_true, Nat.add_mul, Nat.one_mul]
      omega
    · simp only [hu, Bool.false_eq_true, if_false, Nat.add_zero]
      omega

/-- **regular bins are heavy**: a bin whose first item lies in `(B/(t+1), B/t]` and that is not irregular weighs
    at least `t · w` under every weight `f` that gives at least `w` to the items above `B/(t+1)`
    (harmonic weights: `w = 1/t`, so the bin weighs at least `1`) -/
theorem regular_weight {B t w x : Nat} {r : List Nat} (f : Nat → Nat) (hf : ∀ u, B < (t + 1) * u → w ≤ f u)
    (h1 : B < (t + 1) * x) (h2 : t * x ≤ B) (hreg : irr B t (x :: r) = false) :
    t * w ≤ sumL ((x :: r).map f) := by
  have hc : t ≤ (x :: r).countP (big B t) := by
    apply Nat.le_of_not_lt
    intro hlt
    have : irr B t (x :: r) = true := by
      simp only [irr, Bool.and_eq_true, decide_eq_true_eq]
      exact ⟨⟨h1, h2⟩, hlt⟩
    rw [this] at hreg
    cases hreg
  exact Nat.le_trans (Nat.mul_le_mul_right w hc) (countP_mul_le_sumL_map f hf (x :: r))

/-- in the gap every item lies in a size class `t ≤ 5`: it exceeds `B/6` -/
theorem nf_class_le_five {B a : Nat} {Ls : List (List Nat)} (hnf : NF B a Ls) (hgap : 2 * B < 11 * a)
    {L : List Nat} (hL : L ∈ Ls) {y : Nat} (hy : y ∈ L) : B < 6 * y := by
  have := hnf.ge L hL y hy
  omega

/-! ## 4b. What the relation between an earlier and a later bin says, in the form the classical proofs use it

`VRel B L L'` (from the any-fit invariant `SInv`) only speaks about the item `z` that opened the later bin `L'`. -/

theorem sumL_le_append_left (p q : List Nat) : sumL p ≤ sumL (p ++ q) := by
  rw [Fit.sumL_append]; omega

/-- **the next item is the largest that fits** (for the items that opened a later bin): if `z` opened a later bin
    and fits on top of the first items `p` of an earlier bin `L = p ++ q`, then `q` starts with an item `≥ z` -/
theorem vrel_next_ge {B z : Nat} {L r' p q : List Nat} (hr : VRel B L (z :: r')) (he : L = p ++ q)
    (hfit : sumL p + z ≤ B) : ∃ y q', q = y :: q' ∧ z ≤ y := by
  obtain ⟨pre, post, hL, hlt, hpre, _⟩ := hr z (by simp)
  rw [he] at hL
  rcases List.append_eq_append_iff.1 hL with ⟨c', h1, h2⟩ | ⟨a', h1, _⟩
  · match c', h1, h2 with
    | [], h1, _ =>
      rw [List.append_nil] at h1
      rw [h1] at hlt
      omega
    | y :: c'', h1, h2 =>
      exact ⟨y, c'' ++ post, h2, hpre y (by rw [h1]; simp)⟩
  · -- `pre` is a prefix of `p`
    have := sumL_le_append_left pre a'
    rw [← h1] at this
    omega

/-- the first items of the bins are non-increasing along the run -/
theorem vrel_head_ge {B x z : Nat} {r r' : List Nat} (hr : VRel B (x :: r) (z :: r')) (hz : z ≤ B) : z ≤ x := by
  obtain ⟨y, q', h1, h2⟩ := vrel_next_ge (p := []) hr rfl (by simpa [sumL] using hz)
  simp only [List.cons.injEq] at h1
  omega

/-- if `z` opened a later bin and fits together with the first item `x` of an earlier bin, that bin has a second
    item, which is at least `z` -/
theorem vrel_second_ge {B x z : Nat} {r r' : List Nat} (hr : VRel B (x :: r) (z :: r')) (hfit : x + z ≤ B) :
    ∃ y r₂, r = y :: r₂ ∧ z ≤ y := by
  obtain ⟨y, q', h1, h2⟩ := vrel_next_ge (p := [x]) hr rfl (by simpa [sumL] using hfit)
  exact ⟨y, q', h1, h2⟩

/-- on a normal form the first items of the bins are non-increasing -/
theorem nf_heads_sorted {B a : Nat} {Ls : List (List Nat)} (hnf : NF B a Ls) :
    Ls.Pairwise (fun L L' => ∀ x ∈ L.head?, ∀ z ∈ L'.head?, z ≤ x) := by
  have hsub : ∀ Ms : List (List Nat), (∀ L ∈ Ms, L ∈ Ls) → Ms.Pairwise (VRel B) →
      Ms.Pairwise (fun L L' => ∀ x ∈ L.head?, ∀ z ∈ L'.head?, z ≤ x) := by
    intro Ms
    induction Ms with
    | nil => intro _ _; exact List.Pairwise.nil
    | cons L Ms ih =>
      intro hmem hp
      rw [List.pairwise_cons] at hp ⊢
      refine ⟨?_, ih (fun M hM => hmem M (List.mem_cons_of_mem _ hM)) hp.2⟩
      intro L' hL' x hx z hz
      match L, L', hx, hz, hp.1 L' hL' with
      | x0 :: r, z0 :: r', hx, hz, hr =>
        simp only [List.head?_cons, Option.mem_def, Option.some.injEq] at hx hz
        subst hx; subst hz
        have hL'' := hmem (z0 :: r') (List.mem_cons_of_mem _ hL')
        have h1 := hnf.le _ hL''
        simp only [sumL] at h1
        exact vrel_head_ge hr (by omega)
  exact hsub Ls (fun L hL => hL) hnf.rel

/-! ## 5. The skeleton at work, and non-vacuity -/

/-- `FFD119.count_quarter_third` once more, through `count_of_weights` and `deficit_le_of_unique`: the rule
    `FFD119.wts1`, `lo = 6`, `hi = 7`, weight `2` for `a`, deficit `2` for the one bin of kind `exc1` -/
theorem count_quarter_third_via_skeleton {B a m : Nat} {Ls : List (List Nat)} (hnf : NF B a Ls) (h4 : B < 4 * a)
    (h3 : 3 * a ≤ B) (hm : Packable B m (Ls.flatten ++ [a])) : 6 * Ls.length ≤ 7 * m := by
  have hdef := deficit_le_of_unique (d := 2) hnf (exc1 B) (fun L _ L' hL' hr h h' =>
    exc1_unique h3 hr (hnf.full L' hL') (hnf.sorted L' hL') h h')
  have hmain := count_of_weights (B := B) (a := a) (m := m) (lo := 6) (hi := 7) (wa := 2) (Ls := Ls) (wts1 B)
    (fun L => if exc1 B L then 2 else 0)
    (fun L hL => binWt1_ge (nf_bin_ne_nil hnf (by omega) hL))
    (by
      intro T hTnd hTD hTs
      have hfacts : ∀ e ∈ decoNF (wts1 B) a 2 Ls, a ≤ e.val ∧ (e.wt = 2 ∨ e.wt = 3 ∨ e.wt = 4 ∨ e.wt = 6) ∧
          (e.wt = 6 → B < e.val + a) ∧ (e.wt = 4 → B < 2 * e.val) := by
        intro e he
        rcases mem_decoNF he with ⟨L, hL, j, hj⟩ | rfl
        · have := wts1_facts (hnf.ge L hL) (hnf.full L hL) e hj
          exact ⟨this.1, this.2.1, this.2.2.1, this.2.2.2.1⟩
        · simp
      apply opt_bin1 h4 T hTnd (fun e he => hfacts e (hTD e he)) _ hTs
      intro e he e' he' hne' hw hw'
      have hd : ∀ e ∈ decoNF (wts1 B) a 2 Ls, e.wt = 3 → e ∈ deco (wts1 B) 0 Ls := by
        intro e he hw
        simp only [decoNF, List.mem_append, List.mem_singleton] at he
        rcases he with he | rfl
        · exact he
        · simp at hw
      rcases deco_mem2 (wts1 B) 0 Ls hnf.rel e (hd e (hTD e he) hw) e' (hd e' (hTD e' he') hw') with
        ⟨L, hL, j, h1, h2⟩ | ⟨L, hL, L', hL', j, j', hr, h1, h2⟩ | ⟨L, hL, L', hL', j, j', hr, h1, h2⟩
      · exact wts1_same (hnf.ge L hL) (hnf.full L hL) h1 h2 hne' hw hw'
      · exact wts1_pair hr (hnf.ge L hL) (hnf.full L hL) (hnf.ge L' hL') (hnf.full L' hL') (hnf.sorted L hL)
          (hnf.sorted L' hL') h1 h2 hw hw'
      · have := wts1_pair hr (hnf.ge L hL) (hnf.full L hL) (hnf.ge L' hL') (hnf.full L' hL') (hnf.sorted L hL)
          (hnf.sorted L' hL') h1 h2 hw' hw
        omega)
    hm
  omega

/-- the normal form of `FFD119.ex2_ffd` (`B = 100`, last bin opened by `a = 23 ∈ (2B/11, B/4]`) at the moment the
    third bin is opened -/
theorem ex_nf : NF 100 23 [[51, 27], [26, 23, 23, 23]] := by
  refine ⟨by decide, by decide, by decide, by decide, ?_⟩
  simp only [List.pairwise_cons, List.mem_singleton, forall_eq, List.not_mem_nil, false_imp_iff,
    implies_true, List.Pairwise.nil, and_true]
  intro z hz
  simp only [List.head?_cons, Option.some.injEq] at hz
  subst hz
  exact ⟨[51, 27], [], rfl, by decide, by decide, by simp⟩

theorem ex_nf_packable : Packable 100 3 ([[51, 27], [26, 23, 23, 23]].flatten ++ [23]) :=
  ⟨[0, 1, 0, 0, 1, 1, 1], ⟨rfl, by decide⟩, by decide⟩

example : ([26, 23, 23, 23] : List Nat).length ≤ 5 :=
  nf_bin_length_le_five ex_nf (by decide) (by simp)

example : 2 + 1 ≤ ([[51, 27], [26, 23, 23, 23]].flatten ++ [23]).length ∧
    ([[51, 27], [26, 23, 23, 23]].flatten ++ [23]).length ≤ 5 * 3 :=
  nf_item_count ex_nf (by decide) (by decide) ex_nf_packable

example : 2 * (100 - 23 + 1) + 23 ≤ 3 * 100 := nf_volume ex_nf (by decide) ex_nf_packable

example : 72 * 2 ≤ 90 * 3 + 12 := nf_five_fourths_gap ex_nf (by decide) ex_nf_packable

/-- the counting statement on this normal form (`m = 3 ≤ 100`) -/
example : 9 * (2 + 1) ≤ 11 * 3 + 36 :=
  gapCount_of_le_100 100 (by decide) 23 _ (by decide) (by decide) ex_nf ex_nf_packable

/-- the reduction, on a run whose last bin was opened in the gap (`23 ∈ (18.2, 25]`) -/
example : 9 * 3 ≤ 11 * 3 + max 36 8 :=
  ffd_eleven_ninths_partial_of_gap_count (by decide) ex2_ffd ex2_packable
    (fun _ hle => gapCount_of_le_100 100 (Nat.le_trans hle (by decide)))

example : 9 * 3 ≤ 11 * 3 + max 36 8 :=
  bfd_eleven_ninths_partial_of_gap_count (by decide) ex2_bfd ex2_packable
    (fun _ hle => gapCount_of_le_100 100 (Nat.le_trans hle (by decide)))

example : 9 * 3 ≤ 11 * 3 + 36 := ffd_eleven_ninths_partial_opt_le_100 (by decide) ex2_ffd ex2_packable (by decide)
example : 9 * 3 ≤ 11 * 3 + 36 := bfd_eleven_ninths_partial_opt_le_100 (by decide) ex2_bfd ex2_packable (by decide)

/-- Johnson's family (`OPT = 9`, `FFD = 11`, last bin opened by `23`, in the gap): `9·11 ≤ 11·9 + 36` -/
example : 9 * 11 ≤ 11 * 9 + 36 := by
  obtain ⟨b, hb, hl⟩ := FFD.johnson_ffd
  have := ffd_eleven_ninths_partial_opt_le_100 (by decide) hb FFD.johnson_packable (by decide)
  omega

/-- irregular bins: in `[[51, 27], [26, 23, 23, 23]]` the second bin starts in class `3` (`(25, 33]`) and holds only one
    item above `25`; at most one bin of a normal form is like that -/
example : irr 100 3 [26, 23, 23, 23] = true := by decide
example : [[51, 27], [26, 23, 23, 23]].countP (irr 100 3) ≤ 1 := nf_irr_count ex_nf (by decide)

/-- a regular bin of class `4` weighs at least `4 · 15 = 60/60` under the harmonic weights `60/t` -/
example : 4 * 15 ≤ sumL (([24, 23, 23, 23] : List Nat).map fun u => if 100 < 5 * u then 15 else 12) :=
  regular_weight (B := 100) (t := 4) _ (fun u hu => by split <;> omega) (by decide) (by decide)
    (by decide)

/-- `23` opened the third bin and fits on top of `[51]`; so the first bin has a second item, at least `23` -/
example : ∃ y r₂, [27] = y :: r₂ ∧ 23 ≤ y := by
  have hr : VRel 100 [51, 27] [23, 23] := by
    intro z hz
    simp only [List.head?_cons, Option.some.injEq] at hz
    subst hz
    exact ⟨[51, 27], [], rfl, by decide, by decide, by simp⟩
  exact vrel_second_ge hr (by decide)

example : [[51, 27], [26, 23, 23, 23]].Pairwise (fun L L' => ∀ x ∈ L.head?, ∀ z ∈ L'.head?, z ≤ x) :=
  nf_heads_sorted ex_nf

/-- the skeleton on the normal form above, with the rule `wts2` of `FFD119`: the decorated items -/
example : decoNF (wts2 100 23) 23 18 [[51, 27], [26, 23, 23, 23]] =
    [⟨51, 48, 0, 0⟩, ⟨27, 24, 0, 1⟩, ⟨26, 24, 1, 0⟩, ⟨23, 18, 1, 1⟩, ⟨23, 18, 1, 2⟩, ⟨23, 18, 1, 3⟩,
      ⟨23, 18, 2, 0⟩] := by decide

end Prtpy.FFD119Gap

/-
Axiom audit (`#print axioms`, observed with Lean 4.33.0):
#print axioms Prtpy.FFD119Gap.gen_eleven_ninths_partial_of_gap_count   -- [propext, Classical.choice, Quot.sound]
#print axioms Prtpy.FFD119Gap.ffd_eleven_ninths_partial_of_gap_count   -- [propext, Classical.choice, Quot.sound]
#print axioms Prtpy.FFD119Gap.bfd_eleven_ninths_partial_of_gap_count   -- [propext, Classical.choice, Quot.sound]
#print axioms Prtpy.FFD119Gap.ffd_eleven_ninths_partial_opt_le_100     -- [propext, Classical.choice, Quot.sound]
#print axioms Prtpy.FFD119Gap.bfd_eleven_ninths_partial_opt_le_100     -- [propext, Classical.choice, Quot.sound]
#print axioms Prtpy.FFD119Gap.gapCount_of_le_100                       -- [propext, Classical.choice, Quot.sound]
#print axioms Prtpy.FFD119Gap.nf_five_fourths_gap                      -- [propext, Classical.choice, Quot.sound]
#print axioms Prtpy.FFD119Gap.nf_item_count                            -- [propext, Classical.choice, Quot.sound]
#print axioms Prtpy.FFD119Gap.nf_volume                                -- [propext, Classical.choice, Quot.sound]
#print axioms Prtpy.FFD119Gap.packable_gap_partition                   -- [propext, Classical.choice, Quot.sound]
#print axioms Prtpy.FFD119Gap.count_of_weights                         -- [propext, Classical.choice, Quot.sound]
#print axioms Prtpy.FFD119Gap.deficit_le_of_unique                     -- [propext, Classical.choice, Quot.sound]
#print axioms Prtpy.FFD119Gap.count_quarter_third_via_skeleton         -- [propext, Classical.choice, Quot.sound]
#print axioms Prtpy.FFD119Gap.regular_of_later                         -- [propext, Classical.choice, Quot.sound]
#print axioms Prtpy.FFD119Gap.nf_irr_count                             -- [propext, Classical.choice, Quot.sound]
#print axioms Prtpy.FFD119Gap.regular_weight                           -- [propext, Quot.sound]
#print axioms Prtpy.FFD119Gap.vrel_next_ge                             -- [propext, Classical.choice, Quot.sound]
#print axioms Prtpy.FFD119Gap.nf_heads_sorted                          -- [propext, Classical.choice, Quot.sound]
-/
