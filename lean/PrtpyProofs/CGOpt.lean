/-
  PrtpyProofs.CGOpt — property C02 for the anytime "complete greedy" branch-and-bound (`Prtpy.cg`):
  for EVERY configuration (five objectives x use_lower_bound x use_fast_lower_bound x use_heuristic_3 x
  use_set_of_seen_states) a run to completion returns an optimal partition.

  Main theorems
  * `cg_some_of_no_limit` : a completed run never returns `none`;
  * `cg_optimal`          : the value of the returned partition is `IsOptimalValue`;
  * `cg_fuel_sufficient`  : `(k + 2) ^ n` iterations always suffice (any `k`);
  * `cg_total_optimal`    : the three together, plus validity (`CGValid.cg_result`).

  Proof.  `Compl s ws t`: the sum-vector `t` is, up to the order of the bins, reachable from the bin sums `s`
  by distributing the values `ws` ("`t` is a completion of `s`").  `CovD bestV L m t`: `t` is no better than the
  incumbent, or dominated by a completion of a vertex of `L` of depth `≥ m`.  The invariant `CInv`:
  every leaf of the full tree is covered by the stack (depth `≥ 0`), and every completion of a seen state
  `(d, sums)` is covered by the stack vertices of depth `≥ d` (the depth bound breaks the circularity
  "covered by the very vertex that is being popped").  Each prune is discharged in `cgChildren_cov`
  (equal sums = symmetry, admissible bound, fast bound, seen state) and `h3_cover` (heuristic 3).
  No sortedness of the sums or of the items is needed anywhere.
-/
import Prtpy
import PrtpyProofs.CGValid
import PrtpyProofs.Obj
import PrtpyProofs.Oracle
open Prtpy

namespace Prtpy.CGOpt

variable {α : Type}

/-! ## the order on `EInt` -/

theorem ele_refl (a : EInt) : EInt.le a a = true := by
  cases a <;> simp [EInt.le]

theorem ele_trans {a b c : EInt} (h1 : EInt.le a b = true) (h2 : EInt.le b c = true) :
    EInt.le a c = true := by
  cases a <;> cases b <;> cases c <;> simp_all [EInt.le] <;> omega

theorem ele_of_lt {a b : EInt} (h : EInt.lt a b = true) : EInt.le a b = true := by
  cases a <;> cases b <;> simp_all [EInt.le, EInt.lt] <;> omega

theorem ele_of_not_lt {a b : EInt} (h : EInt.lt a b = false) : EInt.le b a = true := by
  simpa [EInt.lt] using h

theorem ele_fin {a b : Int} : EInt.le (.fin a) (.fin b) = true ↔ a ≤ b := by
  simp [EInt.le]

theorem ele_negInf (a : EInt) : EInt.le .negInf a = true := by
  cases a <;> rfl

theorem ele_fin_mono {a : EInt} {x y : Int} (h : EInt.le a (.fin x) = true) (hxy : x ≤ y) :
    EInt.le a (.fin y) = true :=
  ele_trans h (ele_fin.2 hxy)

theorem not_posInf_le_fin (x : Int) : EInt.le .posInf (.fin x) = false := rfl

/-! ## small list facts -/

theorem sumL_modify_add (l : List Nat) (i w : Nat) (hi : i < l.length) :
    sumL (l.modify i (· + w)) = sumL l + w := by
  induction l generalizing i with
  | nil => simp at hi
  | cons a l ih =>
    cases i with
    | zero => simp only [List.modify_zero_cons, Obj.sumL_cons]; omega
    | succ i =>
      have := ih i (by simpa using hi)
      simp only [List.modify_succ_cons, Obj.sumL_cons, this]; omega

theorem zipWith_modify_add (s adds : List Nat) (i w : Nat) :
    List.zipWith (· + ·) (s.modify i (· + w)) adds = List.zipWith (· + ·) s (adds.modify i (· + w)) := by
  apply List.ext_getElem
  · simp
  · intro n h1 h2
    simp only [List.getElem_zipWith, List.getElem_modify]
    split <;> omega

theorem getElem_le_sumL (l : List Nat) (i : Nat) (hi : i < l.length) : l[i] ≤ sumL l := by
  induction l generalizing i with
  | nil => simp at hi
  | cons a l ih =>
    cases i with
    | zero => simp only [List.getElem_cons_zero, Obj.sumL_cons]; omega
    | succ i =>
      have := ih i (by simpa using hi)
      simp only [List.getElem_cons_succ, Obj.sumL_cons]; omega

theorem sumL_replicate_zero (k : Nat) : sumL (List.replicate k 0) = 0 := by
  induction k with
  | zero => rfl
  | succ k ih => simp only [List.replicate_succ, Obj.sumL_cons, ih]

theorem zipWith_add_replicate_zero (s : List Nat) :
    List.zipWith (· + ·) s (List.replicate s.length 0) = s := by
  induction s with
  | nil => rfl
  | cons a s ih => simp only [List.length_cons, List.replicate_succ, List.zipWith_cons_cons, ih, Nat.add_zero]

theorem minL_zipWith_le (s adds : List Nat) (h : adds.length = s.length) :
    minL (List.zipWith (· + ·) s adds) ≤ minL s + sumL adds := by
  by_cases hs : s = []
  · subst hs; simp
  · obtain ⟨j, hj, hje⟩ := List.mem_iff_getElem.1 (Obj.minL_mem hs)
    have hj' : j < (List.zipWith (· + ·) s adds).length := by
      rw [List.length_zipWith, h, Nat.min_self]; exact hj
    have h1 := Obj.minL_le (List.getElem_mem hj')
    rw [List.getElem_zipWith] at h1
    have h2 := getElem_le_sumL adds j (by omega)
    omega

/-! ## completions -/

/-- `Compl s ws t`: distributing the values `ws`, one after the other, over the bins with sums `s` can
    produce the sums `t`, up to the order of the bins. -/
inductive Compl : List Nat → List Nat → List Nat → Prop
  | nil {s t : List Nat} : t.Perm s → Compl s [] t
  | cons {s : List Nat} {w : Nat} {ws t : List Nat} (i : Nat) :
      i < s.length → Compl (s.modify i (· + w)) ws t → Compl s (w :: ws) t

theorem compl_nil_iff {s t : List Nat} : Compl s [] t ↔ t.Perm s :=
  ⟨fun h => by cases h; assumption, Compl.nil⟩

theorem compl_cons_iff {s t ws : List Nat} {w : Nat} :
    Compl s (w :: ws) t ↔ ∃ i, i < s.length ∧ Compl (s.modify i (· + w)) ws t :=
  ⟨fun h => by cases h with | cons i hi h => exact ⟨i, hi, h⟩, fun ⟨i, hi, h⟩ => Compl.cons i hi h⟩

theorem compl_self (s : List Nat) : Compl s [] s := Compl.nil (List.Perm.refl _)

/-- the start vector matters only up to the order of the bins -/
theorem compl_perm_left {s s' ws t : List Nat} (h : Compl s ws t) (hp : s.Perm s') : Compl s' ws t := by
  induction h generalizing s' with
  | nil ht => exact Compl.nil (ht.trans hp)
  | cons i hi _ ih =>
    obtain ⟨j, hj, hq⟩ := Oracle.perm_modify _ hp i hi
    exact Compl.cons j hj (ih hq)

theorem compl_perm_right {s ws t t' : List Nat} (h : Compl s ws t) (hp : t.Perm t') : Compl s ws t' := by
  induction h with
  | nil ht => exact Compl.nil (hp.symm.trans ht)
  | cons i hi _ ih => exact Compl.cons i hi (ih hp)

theorem compl_length {s ws t : List Nat} (h : Compl s ws t) : t.length = s.length := by
  induction h with
  | nil ht => exact ht.length_eq
  | cons i hi _ ih => simpa using ih

/-- a completion adds non-negative amounts, totalling `sumL ws`, to the bins -/
theorem compl_adds {s ws t : List Nat} (h : Compl s ws t) :
    ∃ adds : List Nat, adds.length = s.length ∧ sumL adds = sumL ws ∧
      t.Perm (List.zipWith (· + ·) s adds) := by
  induction h with
  | @nil s t ht =>
    exact ⟨List.replicate s.length 0, by simp, by simp [sumL_replicate_zero],
      by rw [zipWith_add_replicate_zero]; exact ht⟩
  | @cons s w ws t i hi _ ih =>
    obtain ⟨adds, h1, h2, h3⟩ := ih
    rw [List.length_modify] at h1
    refine ⟨adds.modify i (· + w), by simpa using h1, ?_, ?_⟩
    · rw [sumL_modify_add _ _ _ (by omega), h2, Obj.sumL_cons]; omega
    · rw [← zipWith_modify_add]; exact h3

theorem compl_maxL {s ws t : List Nat} (h : Compl s ws t) : maxL s ≤ maxL t := by
  obtain ⟨adds, h1, _, h3⟩ := compl_adds h
  rw [Obj.maxL_perm h3]
  exact Obj.maxL_le_maxL_zipWith h1

theorem compl_minL {s ws t : List Nat} (h : Compl s ws t) : minL t ≤ minL s + sumL ws := by
  obtain ⟨adds, h1, h2, h3⟩ := compl_adds h
  rw [Obj.minL_perm h3, ← h2]
  exact minL_zipWith_le s adds h1

/-- every assignment produces a completion -/
theorem compl_sumsFrom (s ws asg : List Nat) (hl : asg.length = ws.length) (hb : ∀ a ∈ asg, a < s.length) :
    Compl s ws (Oracle.sumsFrom s ws asg) := by
  induction ws generalizing s asg with
  | nil => simpa using compl_self s
  | cons w ws ih =>
    cases asg with
    | nil => simp at hl
    | cons i asg =>
      rw [Oracle.sumsFrom_cons]
      refine Compl.cons i (hb i (by simp)) (ih _ asg (by simpa using hl) ?_)
      intro a ha
      rw [List.length_modify]
      exact hb a (List.mem_cons_of_mem _ ha)

theorem compl_sumsOf {k : Nat} {ws asg : List Nat} (h : IsAssignment k ws.length asg) :
    Compl (List.replicate k 0) ws (sumsOf k ws asg) := by
  rw [Oracle.sumsOf_eq]
  exact compl_sumsFrom _ _ _ h.1 (by simpa using h.2)

/-- admissible lower bounds bound every completion -/
theorem compl_lb (o : Objective) {s ws t : List Nat} (h : Compl s ws t) (hs : s ≠ []) (flag : Bool) :
    EInt.le (o.lowerBound s (sumL ws) flag) (.fin (o.value t false)) = true := by
  obtain ⟨adds, h1, h2, h3⟩ := compl_adds h
  rw [Obj.value_perm h3]
  exact Obj.lb_admissible_gen o h1 h2 hs flag

/-- the fast lower bound, computed before the child `cs.modify b (· + x)` is created, bounds every completion
    of that child (no sortedness of `cs` is needed) -/
theorem cgFast_sound (o : Objective) {k : Nat} {cs rest t : List Nat} {b x : Nat} (hk : cs.length = k)
    (hb : b < k) (h : Compl (cs.modify b (· + x)) rest t) :
    EInt.le (cgFast o k cs b x (sumL rest)) (.fin (o.value t false)) = true := by
  have hb' : b < cs.length := by omega
  have hmemb : cs.getD b 0 + x ∈ cs.modify b (· + x) := by
    refine List.mem_iff_getElem.2 ⟨b, by simpa using hb', ?_⟩
    simp [List.getD_eq_getElem?_getD, hb']
  cases o with
  | maxKSmallest j => rfl
  | minKLargest j => rfl
  | minDiff => rfl
  | minLargest =>
    simp only [cgFast, Objective.value, Bool.false_eq_true, if_false, ele_fin]
    have h1 := compl_maxL (Compl.cons b hb' h)
    have h2 := Obj.lastD_le_maxL cs
    have h3 := compl_maxL h
    have h4 := Obj.le_maxL hmemb
    omega
  | maxSmallest =>
    simp only [cgFast, Objective.value, Bool.false_eq_true, if_false, ele_fin]
    have h1 := compl_minL h
    have h0 : 0 < (cs.modify b (· + x)).length := by simpa using (by omega : 0 < cs.length)
    have hm0 : (cs.modify b (· + x))[0] ∈ cs.modify b (· + x) := List.getElem_mem h0
    have hle0 := Obj.minL_le hm0
    have hleb := Obj.minL_le hmemb
    simp only [List.getElem_modify] at hle0
    have hg0 : cs.getD 0 0 = cs[0] := by simp [List.getD_eq_getElem?_getD, (by omega : 0 < cs.length)]
    by_cases hb0 : b = 0
    · subst hb0
      simp only [if_true] at hle0 ⊢
      by_cases hk1 : k = 1
      · simp only [hk1, if_true]; omega
      · simp only [hk1, if_false]
        have h1' : 1 < (cs.modify 0 (· + x)).length := by simp; omega
        have hle1 := Obj.minL_le (List.getElem_mem h1')
        simp only [List.getElem_modify] at hle1
        have hg1 : cs.getD 1 0 = cs[1]'(by omega) := by
          simp [List.getD_eq_getElem?_getD, (by omega : 1 < cs.length)]
        simp at hle1
        omega
    · have : ¬ (b = 0) := hb0
      simp only [hb0, if_false] at hle0 ⊢
      omega

/-- replacing one of two equal entries: the result does not depend, as a multiset, on which one -/
theorem modify_perm_of_eq (f : Nat → Nat) (l : List Nat) (i j : Nat) (hi : i < l.length) (hj : j < l.length)
    (h : l[i] = l[j]) : (l.modify i f).Perm (l.modify j f) := by
  rw [List.modify_eq_take_cons_drop hi, List.modify_eq_take_cons_drop hj, h]
  have h1 : l.Perm (l[i] :: (l.take i ++ l.drop (i + 1))) := by
    conv => lhs; rw [← List.take_append_drop i l, List.drop_eq_getElem_cons hi]
    exact List.perm_middle
  have h2 : l.Perm (l[j] :: (l.take j ++ l.drop (j + 1))) := by
    conv => lhs; rw [← List.take_append_drop j l, List.drop_eq_getElem_cons hj]
    exact List.perm_middle
  rw [h] at h1
  have h3 : (l.take i ++ l.drop (i + 1)).Perm (l.take j ++ l.drop (j + 1)) :=
    List.Perm.cons_inv (h1.symm.trans h2)
  exact List.perm_middle.trans ((List.Perm.cons _ h3).trans List.perm_middle.symm)

/-! ## coverage -/

section Cover
variable (v : α → Nat) (o : Objective) (sorted : List α)

/-- the values of the items that are still to be placed at depth `d` -/
def remVals (d : Nat) : List Nat := (sorted.drop d).map v

theorem remFrom_eq (d : Nat) : remFrom v sorted d = sumL (remVals v sorted d) := rfl

/-- `t` is *covered*: it is no better than the incumbent, or some vertex of `L` of depth at least `m` has a
    completion that is at least as good as `t` -/
def CovD (bestV : EInt) (L : List (Bins α × Nat)) (m : Nat) (t : List Nat) : Prop :=
  EInt.le bestV (.fin (o.value t false)) = true ∨
  ∃ p ∈ L, m ≤ p.2 ∧ ∃ t', Compl p.1.sums (remVals v sorted p.2) t' ∧ o.value t' false ≤ o.value t false

variable {v o sorted}

theorem covD_mono {bestV bestV' : EInt} {L L' : List (Bins α × Nat)} {m m' : Nat} {t : List Nat}
    (hb : EInt.le bestV' bestV = true) (hL : ∀ p ∈ L, p ∈ L') (hm : m' ≤ m)
    (h : CovD v o sorted bestV L m t) : CovD v o sorted bestV' L' m' t := by
  rcases h with h | ⟨p, hp, hpm, t', ht', hv⟩
  · exact Or.inl (ele_trans hb h)
  · exact Or.inr ⟨p, hL p hp, by omega, t', ht', hv⟩

theorem covD_of_value_le {bestV : EInt} {L : List (Bins α × Nat)} {m : Nat} {t u : List Nat}
    (hv : o.value t false ≤ o.value u false) (h : CovD v o sorted bestV L m t) :
    CovD v o sorted bestV L m u := by
  rcases h with h | ⟨p, hp, hpm, t', ht', hv'⟩
  · exact Or.inl (ele_fin_mono h hv)
  · exact Or.inr ⟨p, hp, hpm, t', ht', by omega⟩

theorem covD_self {bestV : EInt} {L : List (Bins α × Nat)} {m : Nat} {t : List Nat} (p : Bins α × Nat)
    (hp : p ∈ L) (hm : m ≤ p.2) (h : Compl p.1.sums (remVals v sorted p.2) t) :
    CovD v o sorted bestV L m t :=
  Or.inr ⟨p, hp, hm, t, h, Int.le_refl _⟩

end Cover

/-! ## the loop over the bins -/

section Children
variable (v : α → Nat) (cfg : CgCfg) (k : Nat) (sorted : List α) (cur : Bins α) (d : Nat) (x : α) (r : Nat)
  (bestV : EInt)

theorem cgChildren_acc_mem (bs : List Nat) (prev : Option Nat) (seen : List (Nat × List Nat))
    (acc : List (Bins α × Nat)) :
    ∀ p ∈ acc, p ∈ (cgChildren v cfg k cur d x r bestV bs prev seen acc).1 := by
  induction bs generalizing prev seen acc with
  | nil => intro p hp; simpa [cgChildren] using hp
  | cons b bs ih =>
    intro p hp
    simp only [cgChildren]
    repeat' split
    all_goals first | exact ih _ _ _ p hp | exact ih _ _ _ p (List.mem_cons_of_mem _ hp)

/-- every new key of the seen-set is the key of a pushed vertex -/
theorem cgChildren_seen_src (Q : Nat × List Nat → Prop) (bs : List Nat) (prev : Option Nat)
    (seen : List (Nat × List Nat)) (acc : List (Bins α × Nat))
    (h : ∀ e ∈ seen, Q e ∨ ∃ p ∈ acc, e = (p.2, p.1.sums)) :
    ∀ e ∈ (cgChildren v cfg k cur d x r bestV bs prev seen acc).2,
      Q e ∨ ∃ p ∈ (cgChildren v cfg k cur d x r bestV bs prev seen acc).1, e = (p.2, p.1.sums) := by
  induction bs generalizing prev seen acc with
  | nil =>
    intro e he
    simp only [cgChildren] at he ⊢
    rcases h e he with h | ⟨p, hp, rfl⟩
    · exact Or.inl h
    · exact Or.inr ⟨p, by simpa using hp, rfl⟩
  | cons b bs ih =>
    simp only [cgChildren]
    have hw : ∀ nb : Bins α × Nat, ∀ e ∈ seen, Q e ∨ ∃ p ∈ nb :: acc, e = (p.2, p.1.sums) := by
      intro nb e he
      rcases h e he with h | ⟨p, hp, rfl⟩
      · exact Or.inl h
      · exact Or.inr ⟨p, List.mem_cons_of_mem _ hp, rfl⟩
    have hw' : ∀ nb : Bins α × Nat, ∀ e ∈ (nb.2, nb.1.sums) :: seen,
        Q e ∨ ∃ p ∈ nb :: acc, e = (p.2, p.1.sums) := by
      intro nb e he
      rcases List.mem_cons.1 he with rfl | he
      · exact Or.inr ⟨nb, List.mem_cons_self .., rfl⟩
      · exact hw nb e he
    repeat' split
    all_goals first | exact ih _ _ _ h | exact ih _ _ _ (hw' (_, _)) | exact ih _ _ _ (hw _)

variable {v cfg k sorted cur d x bestV}

/-- **The loop over the bins loses nothing.**  Whatever bin `i` among `bs` the next item is put into, every
    completion of the resulting child is covered — by the incumbent (bound prunes), by a pushed child
    (possibly the child of another bin with the same sum: symmetry), or by what covers a seen state. -/
theorem cgChildren_cov (R : List (Bins α × Nat)) (hlen : cur.sums.length = k)
    (hcl : cur.sums.length = cur.lists.length)
    (bs : List Nat) (prev : Option Nat) (seen : List (Nat × List Nat)) (acc : List (Bins α × Nat))
    (hbs : ∀ b ∈ bs, b < k)
    (hseen : ∀ sums, (d + 1, sums) ∈ seen →
      (∀ t, Compl sums (remVals v sorted (d + 1)) t → CovD v cfg.obj sorted bestV R (d + 1) t) ∨
      ∃ p ∈ acc, p.2 = d + 1 ∧ p.1.sums = sums)
    (hprev : ∀ c, prev = some c → ∀ i, i < k → cur.sums.getD i 0 = c → ∀ t,
      Compl (cur.sums.modify i (· + v x)) (remVals v sorted (d + 1)) t →
        CovD v cfg.obj sorted bestV (acc ++ R) (d + 1) t) :
    ∀ i ∈ bs, ∀ t, Compl (cur.sums.modify i (· + v x)) (remVals v sorted (d + 1)) t →
      CovD v cfg.obj sorted bestV
        ((cgChildren v cfg k cur d x (remFrom v sorted (d + 1)) bestV bs prev seen acc).1 ++ R) (d + 1) t := by
  induction bs generalizing prev seen acc with
  | nil => intro i hi; cases hi
  | cons b bs ih =>
    have hbk : b < k := hbs b (List.mem_cons_self ..)
    have hbs' : ∀ b' ∈ bs, b' < k := fun b' hb' => hbs b' (List.mem_cons_of_mem _ hb')
    have hnb : ((cur.add v x b).sortAsc).sums.Perm (cur.sums.modify b (· + v x)) :=
      CGValid.sortAsc_sums_perm (cur.add v x b) (by simp [hcl])
    have hnbne : ((cur.add v x b).sortAsc).sums ≠ [] := by
      intro h
      have := hnb.length_eq
      rw [h] at this
      simp at this
      omega
    -- what remains to be done once the child of bin `b` is known to be covered
    have key : ∀ (seen' : List (Nat × List Nat)) (acc' : List (Bins α × Nat)),
        (∀ sums, (d + 1, sums) ∈ seen' →
          (∀ t, Compl sums (remVals v sorted (d + 1)) t → CovD v cfg.obj sorted bestV R (d + 1) t) ∨
          ∃ p ∈ acc', p.2 = d + 1 ∧ p.1.sums = sums) →
        (∀ t, Compl (cur.sums.modify b (· + v x)) (remVals v sorted (d + 1)) t →
          CovD v cfg.obj sorted bestV (acc' ++ R) (d + 1) t) →
        ∀ i ∈ b :: bs, ∀ t, Compl (cur.sums.modify i (· + v x)) (remVals v sorted (d + 1)) t →
          CovD v cfg.obj sorted bestV
            ((cgChildren v cfg k cur d x (remFrom v sorted (d + 1)) bestV bs (some (cur.sums.getD b 0))
              seen' acc').1 ++ R) (d + 1) t := by
      intro seen' acc' hseen' hgood i hi t ht
      rcases List.mem_cons.1 hi with rfl | hi
      · refine covD_mono (ele_refl _) ?_ (Nat.le_refl _) (hgood t ht)
        intro p hp
        rcases List.mem_append.1 hp with hp | hp
        · exact List.mem_append_left _ (cgChildren_acc_mem v cfg k cur d x _ bestV bs _ seen' acc' p hp)
        · exact List.mem_append_right _ hp
      · refine ih _ seen' acc' hbs' hseen' ?_ i hi t ht
        intro c hc j hj hjc u hu
        simp only [Option.some.injEq] at hc
        subst hc
        refine hgood u (compl_perm_left hu ?_)
        have hj' : j < cur.sums.length := by omega
        have hb' : b < cur.sums.length := by omega
        apply modify_perm_of_eq _ _ _ _ hj' hb'
        simpa [List.getD_eq_getElem?_getD, hj', hb'] using hjc
    simp only [cgChildren]
    split
    · -- same sum as the previous bin
      rename_i hp
      have hp' : prev = some (cur.sums.getD b 0) := by simpa using hp
      intro i hi t ht
      rcases List.mem_cons.1 hi with rfl | hi
      · refine covD_mono (ele_refl _) ?_ (Nat.le_refl _) (hprev _ hp' i hbk rfl t ht)
        intro p hp
        rcases List.mem_append.1 hp with hp | hp
        · exact List.mem_append_left _ (cgChildren_acc_mem v cfg k cur d x _ bestV bs _ seen acc p hp)
        · exact List.mem_append_right _ hp
      · exact ih prev seen acc hbs' hseen hprev i hi t ht
    · split
      · -- fast lower bound
        rename_i _ hf
        simp only [Bool.and_eq_true] at hf
        refine key seen acc hseen ?_
        intro t ht
        refine Or.inl (ele_trans hf.2 ?_)
        rw [remFrom_eq]
        exact cgFast_sound cfg.obj hlen hbk ht
      · split
        · -- lower bound
          rename_i _ _ hl
          simp only [Bool.and_eq_true] at hl
          refine key seen acc hseen ?_
          intro t ht
          refine Or.inl (ele_trans hl.2 ?_)
          rw [remFrom_eq]
          exact compl_lb cfg.obj (compl_perm_left ht hnb.symm) hnbne true
        · split
          · split
            · -- seen state
              rename_i _ _ _ _ hc
              have hc' : (d + 1, ((cur.add v x b).sortAsc).sums) ∈ seen := List.contains_iff_mem.1 hc
              refine key seen acc hseen ?_
              intro t ht
              have ht' := compl_perm_left ht hnb.symm
              rcases hseen _ hc' with h | ⟨p, hp, hp2, hps⟩
              · exact covD_mono (ele_refl _) (fun p hp => List.mem_append_right _ hp) (Nat.le_refl _) (h t ht')
              · refine covD_self p (List.mem_append_left _ hp) (by omega) ?_
                rw [hp2, hps]; exact ht'
            · -- pushed, key recorded
              refine key _ _ ?_ ?_
              · intro sums hs
                rcases List.mem_cons.1 hs with hs | hs
                · simp only [Prod.mk.injEq, true_and] at hs
                  exact Or.inr ⟨_, List.mem_cons_self .., rfl, hs.symm⟩
                · rcases hseen sums hs with h | ⟨p, hp, h⟩
                  · exact Or.inl h
                  · exact Or.inr ⟨p, List.mem_cons_of_mem _ hp, h⟩
              · intro t ht
                exact covD_self ((cur.add v x b).sortAsc, d + 1)
                  (List.mem_append_left _ (List.mem_cons_self ..)) (Nat.le_refl _)
                  (compl_perm_left ht hnb.symm)
          · -- pushed
            refine key _ _ ?_ ?_
            · intro sums hs
              rcases hseen sums hs with h | ⟨p, hp, h⟩
              · exact Or.inl h
              · exact Or.inr ⟨p, List.mem_cons_of_mem _ hp, h⟩
            · intro t ht
              exact covD_self ((cur.add v x b).sortAsc, d + 1)
                (List.mem_append_left _ (List.mem_cons_self ..)) (Nat.le_refl _)
                (compl_perm_left ht hnb.symm)

end Children

/-! ## heuristic 3 -/

section H3
variable (v : α → Nat)

theorem modify_zero_add_zero (s : List Nat) : s.modify 0 (· + 0) = s := by
  cases s <;> simp

theorem fold0_sums (xs : List α) (b : Bins α) :
    (xs.foldl (fun b x => b.add v x 0) b).sums = b.sums.modify 0 (· + binSum v xs) := by
  induction xs generalizing b with
  | nil => rw [List.foldl_nil, CGValid.binSum_nil, modify_zero_add_zero]
  | cons x xs ih =>
    rw [List.foldl_cons, ih, CGValid.add_sums, CGValid.binSum_cons]
    cases b.sums with
    | nil => simp
    | cons a l => simp only [List.modify_zero_cons]; congr 1; omega

theorem maxL_modify_zero_le (s : List Nat) (w : Nat) (h : w + s.headD 0 ≤ lastD s 0) :
    maxL (s.modify 0 (· + w)) ≤ maxL s := by
  have h2 := Obj.lastD_le_maxL s
  cases s with
  | nil => simp
  | cons a l =>
    simp only [List.modify_zero_cons, Obj.maxL_cons, List.headD_cons] at *
    omega

variable {v}

/-- the leaf that heuristic 3 jumps to is at least as good as every completion of the vertex -/
theorem h3_cover {cfg : CgCfg} {k : Nat} (hk : 0 < k) {sorted : List α} {cur : Bins α} {d : Nat}
    (hv : CGValid.VInv v k sorted (cur, d)) (hc : CGValid.h3Cond v cfg sorted cur d = true) {t : List Nat}
    (ht : Compl cur.sums (remVals v sorted d) t) :
    cfg.obj.value (CGValid.h3Vertex v sorted cur d).sums false ≤ cfg.obj.value t false := by
  simp only [CGValid.h3Cond, Bool.and_eq_true, beq_iff_eq, decide_eq_true_eq] at hc
  obtain ⟨⟨_, ho⟩, hle⟩ := hc
  have hval := CGValid.valid_fold0 v hk (sorted.drop d) cur _ hv.2
  have hp := CGValid.sortAsc_sums_perm _ (CGValid.consistent_length v hval.2.2)
  have h1 := Obj.maxL_perm hp
  rw [fold0_sums] at h1
  have h2 := maxL_modify_zero_le cur.sums (binSum v (sorted.drop d)) hle
  have h3 := compl_maxL ht
  rw [ho]
  simp only [Objective.value, Bool.false_eq_true, if_false, CGValid.h3Vertex]
  omega

end H3

/-! ## the invariant of the search -/

section Invariant
variable (v : α → Nat) (cfg : CgCfg) (k : Nat) (sorted : List α)

/-- the leaves of the full search tree: the sum-vectors (up to the order of the bins) of all assignments -/
def Leaf (t : List Nat) : Prop := Compl (List.replicate k 0) (remVals v sorted 0) t

/-- **The search loses nothing.**
    `cov1`: every leaf is no better than the incumbent or dominated by a completion of a stack vertex;
    `cov2`: the same for every completion of a seen state `(d, sums)`, with stack vertices of depth `≥ d`;
    `dn`:   once the machine has stopped, every leaf is no better than the incumbent. -/
structure CInv (s : CgState α) : Prop where
  cov1 : ∀ t, Leaf v k sorted t → CovD v cfg.obj sorted s.bestV s.stack 0 t
  cov2 : ∀ e ∈ s.seen, ∀ t, Compl e.2 (remVals v sorted e.1) t →
    CovD v cfg.obj sorted s.bestV s.stack e.1 t
  dn : s.done = true → ∀ t, Leaf v k sorted t → EInt.le s.bestV (.fin (cfg.obj.value t false)) = true

variable {v cfg k sorted}

/-- what a step has to establish for the popped vertex `(cur, d)` -/
theorem cinv_of_step {s s' : CgState α} {cur : Bins α} {d : Nat} {rest : List (Bins α × Nat)}
    (h : CInv v cfg k sorted s) (hs : s.stack = (cur, d) :: rest)
    (hP : EInt.le s'.bestV s.bestV = true)
    (hQ : ∀ p ∈ rest, p ∈ s'.stack)
    (hS : ∀ t, Compl cur.sums (remVals v sorted d) t → CovD v cfg.obj sorted s'.bestV s'.stack (d + 1) t)
    (hseen : ∀ e ∈ s'.seen, e ∈ s.seen ∨ ∃ p ∈ s'.stack, e = (p.2, p.1.sums))
    (hdn : s'.done = true → s.done = true ∨
      ∀ t, Leaf v k sorted t → EInt.le s'.bestV (.fin (cfg.obj.value t false)) = true) :
    CInv v cfg k sorted s' := by
  have persist : ∀ m t, CovD v cfg.obj sorted s.bestV s.stack m t →
      CovD v cfg.obj sorted s'.bestV s'.stack m t := by
    intro m t hc
    rcases hc with hc | ⟨p, hp, hpm, t', ht', hv⟩
    · exact Or.inl (ele_trans hP hc)
    · rw [hs] at hp
      rcases List.mem_cons.1 hp with rfl | hp
      · exact covD_of_value_le hv
          (covD_mono (ele_refl _) (fun _ hq => hq) (Nat.le_succ_of_le hpm) (hS t' ht'))
      · exact Or.inr ⟨p, hQ p hp, hpm, t', ht', hv⟩
  refine ⟨fun t ht => persist 0 t (h.cov1 t ht), ?_, ?_⟩
  · intro e he t ht
    rcases hseen e he with he | ⟨p, hp, rfl⟩
    · exact persist _ t (h.cov2 e he t ht)
    · exact covD_self p hp (Nat.le_refl _) ht
  · intro hd t ht
    rcases hdn hd with hd | hd
    · exact ele_trans hP (h.dn hd t ht)
    · exact hd t ht

theorem remVals_length (v : α → Nat) (sorted : List α) : remVals v sorted sorted.length = [] := by
  simp [remVals]

theorem remVals_cons {sorted : List α} {d : Nat} {x : α} (hx : sorted[d]? = some x) :
    remVals v sorted d = v x :: remVals v sorted (d + 1) := by
  obtain ⟨hd, hxe⟩ := List.getElem?_eq_some_iff.1 hx
  simp only [remVals, List.drop_eq_getElem_cons hd, List.map_cons, hxe]

/-- **One iteration of the loop preserves the invariant.**  `glb` may be any bound that is below every leaf. -/
theorem cgStep_cinv (hk : 0 < k) {glb : EInt}
    (hglb : ∀ t, Leaf v k sorted t → EInt.le glb (.fin (cfg.obj.value t false)) = true)
    (s : CgState α) (hsi : CGValid.SInv v k sorted s) (h : CInv v cfg k sorted s) :
    CInv v cfg k sorted (cgStep v cfg k sorted glb s) := by
  apply CGValid.cgStep_ind
  · -- empty stack
    intro hs
    refine ⟨h.cov1, h.cov2, ?_⟩
    intro _ t ht
    rcases h.cov1 t ht with hc | ⟨p, hp, _⟩
    · exact hc
    · rw [hs] at hp; cases hp
  · -- a better leaf
    intro cur rest hs hlt
    refine cinv_of_step h hs (ele_of_lt hlt) (fun _ hp => hp) ?_ (fun e he => Or.inl he) ?_
    · intro t ht
      rw [remVals_length, compl_nil_iff] at ht
      exact Or.inl (by rw [Obj.value_perm ht]; exact ele_refl _)
    · intro hd
      simp only [Bool.or_eq_true] at hd
      rcases hd with hd | hd
      · exact Or.inr (fun t ht => ele_trans hd (hglb t ht))
      · exact Or.inl hd
  · -- a leaf that is no better
    intro cur rest hs hlt
    refine cinv_of_step h hs (ele_refl _) (fun _ hp => hp) ?_ (fun e he => Or.inl he) (fun hd => Or.inl hd)
    intro t ht
    rw [remVals_length, compl_nil_iff] at ht
    exact Or.inl (by rw [Obj.value_perm ht]; exact ele_of_not_lt hlt)
  · -- heuristic 3
    intro cur d rest hs hd hc
    have hvi : CGValid.VInv v k sorted (cur, d) := hsi.1 _ (by rw [hs]; exact List.mem_cons_self ..)
    refine cinv_of_step h hs (ele_refl _) (fun _ hp => List.mem_cons_of_mem _ hp) ?_
      (fun e he => Or.inl he) (fun hd => Or.inl hd)
    intro t ht
    refine Or.inr ⟨(CGValid.h3Vertex v sorted cur d, sorted.length), List.mem_cons_self .., ?_,
      (CGValid.h3Vertex v sorted cur d).sums, ?_, h3_cover hk hvi hc ht⟩
    · have := hvi.1
      simp only at this ⊢
      omega
    · rw [remVals_length]; exact compl_self _
  · -- expansion
    intro cur d rest x hs hd hc hx
    have hvi : CGValid.VInv v k sorted (cur, d) := hsi.1 _ (by rw [hs]; exact List.mem_cons_self ..)
    have hlen : cur.sums.length = k := CGValid.valid_sums_length v hvi.2
    have hcl : cur.sums.length = cur.lists.length := CGValid.consistent_length v hvi.2.2.2
    refine cinv_of_step h hs (ele_refl _) (fun _ hp => List.mem_append_right _ hp) ?_ ?_ (fun hd => Or.inl hd)
    · intro t ht
      rw [remVals_cons hx, compl_cons_iff] at ht
      obtain ⟨i, hi, ht⟩ := ht
      have := cgChildren_cov (v := v) (cfg := cfg) (sorted := sorted) (x := x) (bestV := s.bestV) rest hlen hcl
        (List.range k).reverse none s.seen [] (fun b hb => CGValid.mem_range_reverse hb) ?_
        (fun c hc => by cases hc) i (by simpa using (by omega : i < k)) t ht
      · refine covD_mono (ele_refl _) ?_ (Nat.le_refl _) this
        intro p hp
        rcases List.mem_append.1 hp with hp | hp
        · exact List.mem_append_left _ (List.mem_reverse.2 hp)
        · exact List.mem_append_right _ hp
      · intro sums hse
        refine Or.inl (fun t ht => ?_)
        rcases h.cov2 _ hse t ht with hc | ⟨p, hp, hpm, t', ht', hv⟩
        · exact Or.inl hc
        · rw [hs] at hp
          rcases List.mem_cons.1 hp with rfl | hp
          · simp only at hpm; omega
          · exact Or.inr ⟨p, hp, hpm, t', ht', hv⟩
    · intro e he
      have := cgChildren_seen_src v cfg k cur d x (remFrom v sorted (d + 1)) s.bestV (fun e => e ∈ s.seen)
        (List.range k).reverse none s.seen [] (fun e he => Or.inl he) e he
      rcases this with h | ⟨p, hp, rfl⟩
      · exact Or.inl h
      · exact Or.inr ⟨p, List.mem_append_left _ (List.mem_reverse.2 hp), rfl⟩
  · -- out of bounds: impossible
    intro cur d rest hs hd hx
    have hvi : CGValid.VInv v k sorted (cur, d) := hsi.1 _ (by rw [hs]; exact List.mem_cons_self ..)
    have h1 := hvi.1
    simp only at h1
    rw [List.getElem?_eq_none_iff] at hx
    omega

end Invariant

/-! ## the run -/

/-- the order in which the values are distributed does not matter -/
theorem compl_perm_vals {s ws ws' t : List Nat} (hp : ws.Perm ws') (h : Compl s ws t) : Compl s ws' t := by
  induction hp generalizing s with
  | nil => exact h
  | cons w _ ih =>
    obtain ⟨i, hi, h⟩ := compl_cons_iff.1 h
    exact Compl.cons i hi (ih h)
  | swap a b l =>
    obtain ⟨i, hi, h⟩ := compl_cons_iff.1 h
    obtain ⟨j, hj, h⟩ := compl_cons_iff.1 h
    rw [List.length_modify] at hj
    rw [Oracle.modify_comm_add] at h
    exact Compl.cons j hj (Compl.cons i (by simpa using hi) h)
  | trans _ _ ih₁ ih₂ => exact ih₂ (ih₁ h)

section Run
variable {v : α → Nat} {cfg : CgCfg} {k : Nat} {sorted : List α}

/-- safety, "`bestV` is the value of the incumbent", and "the search loses nothing" -/
def FInv (v : α → Nat) (cfg : CgCfg) (k : Nat) (sorted : List α) (s : CgState α) : Prop :=
  CGValid.SInv v k sorted s ∧ CGValid.BInv cfg s ∧ CInv v cfg k sorted s

theorem cgTick_finv (hk : 0 < k) {glb : EInt}
    (hglb : ∀ t, Leaf v k sorted t → EInt.le glb (.fin (cfg.obj.value t false)) = true)
    (s : CgState α) (h : FInv v cfg k sorted s) : FInv v cfg k sorted (CGValid.cgTick v cfg k sorted glb s) := by
  unfold CGValid.cgTick
  split
  · exact h
  · exact ⟨CGValid.cgStep_sinv v hk cfg sorted glb s h.1, CGValid.cgStep_binv v cfg k sorted glb s h.2.1,
      cgStep_cinv hk hglb s h.1 h.2.2⟩

theorem cgInit_cinv : CInv v cfg k sorted (cgInit k : CgState α) := by
  refine ⟨?_, ?_, ?_⟩
  · intro t ht
    exact covD_self (Bins.new k, 0) (List.mem_singleton.2 rfl) (Nat.le_refl _) ht
  · intro e he; cases he
  · intro hd; cases hd

theorem cgRun_finv (hk : 0 < k) {glb : EInt}
    (hglb : ∀ t, Leaf v k sorted t → EInt.le glb (.fin (cfg.obj.value t false)) = true) (t : Nat) :
    FInv v cfg k sorted (cgRun v cfg k sorted glb t (cgInit k)) :=
  CGValid.cgRun_inv v cfg k sorted glb _ (cgTick_finv hk hglb) t _
    ⟨CGValid.cgInit_sinv v k sorted, rfl, cgInit_cinv⟩

/-- the global lower bound, computed at the root, is below every leaf -/
theorem glb_le_leaf (hk : 0 < k) (t : List Nat) (ht : Leaf v k sorted t) :
    EInt.le (cfg.obj.lowerBound (List.replicate k 0) (remFrom v sorted 0) true)
      (.fin (cfg.obj.value t false)) = true := by
  rw [remFrom_eq]
  refine compl_lb cfg.obj ht ?_ true
  intro h
  have := congrArg List.length h
  simp at this
  omega

/-- when the machine has stopped, no leaf beats the incumbent -/
theorem stopped_all {s : CgState α} (h : CInv v cfg k sorted s) (hstop : (s.done || s.stack.isEmpty) = true)
    (t : List Nat) (ht : Leaf v k sorted t) : EInt.le s.bestV (.fin (cfg.obj.value t false)) = true := by
  simp only [Bool.or_eq_true, List.isEmpty_iff] at hstop
  rcases hstop with hd | he
  · exact h.dn hd t ht
  · rcases h.cov1 t ht with hc | ⟨p, hp, _⟩
    · exact hc
    · rw [he] at hp; cases hp

theorem leaf_of_assignment {items : List α} (hp : sorted.Perm items) {asg : List Nat}
    (h : IsAssignment k (items.map v).length asg) : Leaf v k sorted (sumsOf k (items.map v) asg) := by
  have h1 := compl_sumsOf h
  have h2 : (items.map v).Perm (remVals v sorted 0) := by
    simp only [remVals, List.drop_zero]
    exact (hp.map v).symm
  exact compl_perm_vals h2 h1

theorem leaf_exists (hk : 0 < k) : ∃ t, Leaf v k sorted t :=
  ⟨_, leaf_of_assignment (List.Perm.refl sorted) (Oracle.isAssignment_replicate hk _)⟩

/-- the facts about a completed run that the main theorems rest on -/
theorem cg_run_facts {items : List α} {fuel : Nat} (hk : 0 < k) {r : Option (Bins α)}
    (h : cg v cfg k items none fuel = .ok r) :
    ∃ s : CgState α, s.best = r ∧ CGValid.BInv cfg s ∧
      ∀ t, Leaf v k (sortDesc v items) t → EInt.le s.bestV (.fin (cfg.obj.value t false)) = true := by
  simp only [cg] at h
  split at h
  · rename_i hstop
    simp only [Except.ok.injEq] at h
    have hinv := cgRun_finv (v := v) (cfg := cfg) (sorted := sortDesc v items) hk
      (glb_le_leaf hk) fuel
    exact ⟨_, h, hinv.2.1, stopped_all hinv.2.2 hstop⟩
  · cases h

end Run

/-! ## the main theorems -/

/-- **A run to completion never returns `None`.** -/
theorem cg_some_of_no_limit {v : α → Nat} {cfg : CgCfg} {k : Nat} {items : List α} {fuel : Nat} (hk : 0 < k)
    {r : Option (Bins α)} (h : cg v cfg k items none fuel = .ok r) : r ≠ none := by
  obtain ⟨s, hbest, hb, hall⟩ := cg_run_facts hk h
  intro hr
  subst hr
  obtain ⟨t, ht⟩ := leaf_exists (v := v) (sorted := sortDesc v items) hk
  have := hall t ht
  rw [hb, hbest] at this
  simp [CGValid.valOf, EInt.le] at this

/-- non-vacuity: the hypothesis holds for a concrete run with every prune switched on -/
example : (some ⟨[15, 15], [[6, 5, 4], [8, 7]]⟩ : Option (Bins Nat)) ≠ none :=
  cg_some_of_no_limit (v := id) (cfg := ⟨.minLargest, true, true, true, true⟩) (k := 2) (items := [4, 5, 6, 7, 8])
    (fuel := 100) (by decide) (by rfl)

/-- **C02 for complete greedy.**  For every configuration — every objective, every combination of the
    lower-bound prune, the fast lower bound, heuristic 3 and the set of seen states — a run to completion
    returns a partition whose objective value is optimal among all assignments of the items to `k` bins. -/
theorem cg_optimal {v : α → Nat} {cfg : CgCfg} {k : Nat} {items : List α} {fuel : Nat} {b : Bins α} (hk : 0 < k)
    (h : cg v cfg k items none fuel = .ok (some b)) :
    IsOptimalValue cfg.obj k (items.map v) (cfg.obj.value b.sums false) := by
  obtain ⟨s, hbest, hb, hall⟩ := cg_run_facts hk h
  constructor
  · obtain ⟨asg, hasg, hs⟩ := Oracle.partition_sums_assignment v items b (CGValid.cg_result hk h)
    exact ⟨asg, by simpa using hasg, by rw [hs]⟩
  · intro asg hasg
    have := hall _ (leaf_of_assignment (CGValid.sortDesc_perm v items) hasg)
    rw [hb, hbest] at this
    exact ele_fin.1 this

/-- non-vacuity: three completed runs (all prunes on / max-min with the seen-set / nothing on) -/
example : IsOptimalValue .minLargest 2 [4, 5, 6, 7, 8] 15 :=
  cg_optimal (v := id) (cfg := ⟨.minLargest, true, true, true, true⟩) (items := [4, 5, 6, 7, 8]) (fuel := 100)
    (b := ⟨[15, 15], [[6, 5, 4], [8, 7]]⟩) (by decide) (by rfl)

example : IsOptimalValue .maxSmallest 3 [4, 5, 6, 7, 8] (-8) :=
  cg_optimal (v := id) (cfg := ⟨.maxSmallest, true, true, false, true⟩) (items := [4, 5, 6, 7, 8]) (fuel := 1000)
    (b := ⟨[8, 11, 11], [[8], [7, 4], [6, 5]]⟩) (by decide) (by rfl)

example : IsOptimalValue .minDiff 3 [4, 5, 6, 7, 8] 3 :=
  cg_optimal (v := id) (cfg := ⟨.minDiff, false, false, false, false⟩) (items := [4, 5, 6, 7, 8]) (fuel := 1000)
    (b := ⟨[8, 11, 11], [[8], [7, 4], [6, 5]]⟩) (by decide) (by rfl)

/-! ## termination: explicit fuel -/

section Fuel
variable (v : α → Nat) (cfg : CgCfg) (k : Nat) (sorted : List α) (glb : EInt)

/-- the potential of a stack: a vertex of depth `d` weighs `(k + 2) ^ (n - d)` -/
def pot (k n : Nat) : List (Bins α × Nat) → Nat
  | [] => 0
  | p :: L => (k + 2) ^ (n - p.2) + pot k n L

theorem pot_append (n : Nat) (L₁ L₂ : List (Bins α × Nat)) : pot k n (L₁ ++ L₂) = pot k n L₁ + pot k n L₂ := by
  induction L₁ with
  | nil => simp [pot]
  | cons p L ih => simp only [List.cons_append, pot, ih]; omega

theorem pot_reverse (n : Nat) (L : List (Bins α × Nat)) : pot k n L.reverse = pot k n L := by
  induction L with
  | nil => rfl
  | cons p L ih => simp only [List.reverse_cons, pot_append, pot, ih]; omega

theorem pot_const (n e : Nat) (L : List (Bins α × Nat)) (h : ∀ p ∈ L, p.2 = e) :
    pot k n L = L.length * (k + 2) ^ (n - e) := by
  induction L with
  | nil => simp [pot]
  | cons p L ih =>
    rw [pot, ih (fun q hq => h q (List.mem_cons_of_mem _ hq)), h p (List.mem_cons_self ..), List.length_cons,
      Nat.succ_mul]
    omega

theorem pow_pos' (m : Nat) : 0 < (k + 2) ^ m := Nat.pow_pos (by omega)

/-- every stack vertex has depth at most `n` (holds without `0 < k`) -/
def DInv (s : CgState α) : Prop := ∀ p ∈ s.stack, p.2 ≤ sorted.length

variable {v cfg k sorted glb}

theorem cgStep_dinv (s : CgState α) (h : DInv sorted s) : DInv sorted (cgStep v cfg k sorted glb s) := by
  apply CGValid.cgStep_ind
  · intro _; exact h
  · intro cur rest hs _ p hp; exact h p (by rw [hs]; exact List.mem_cons_of_mem _ hp)
  · intro cur rest hs _ p hp; exact h p (by rw [hs]; exact List.mem_cons_of_mem _ hp)
  · intro cur d rest hs _ _ p hp
    rcases List.mem_cons.1 hp with rfl | hp
    · exact Nat.le_refl _
    · exact h p (by rw [hs]; exact List.mem_cons_of_mem _ hp)
  · intro cur d rest x hs _ _ hx p hp
    rcases List.mem_append.1 hp with hp | hp
    · have := CGValid.expandRes_mem v cfg k sorted s cur d x (fun p => p.2 = d + 1) (fun _ _ => rfl) p
        (List.mem_reverse.1 hp)
      have hd := (List.getElem?_eq_some_iff.1 hx).1
      omega
    · exact h p (by rw [hs]; exact List.mem_cons_of_mem _ hp)
  · intro cur d rest hs _ _ p hp; exact h p (by rw [hs]; exact List.mem_cons_of_mem _ hp)

/-- every iteration on a non-empty stack lowers the potential -/
theorem cgStep_pot (s : CgState α) (h : DInv sorted s) (hne : s.stack ≠ []) :
    pot k sorted.length (cgStep v cfg k sorted glb s).stack + 1 ≤ pot k sorted.length s.stack := by
  apply CGValid.cgStep_ind v cfg k sorted glb
    (fun s' => pot k sorted.length s'.stack + 1 ≤ pot k sorted.length s.stack)
  · intro hs; exact absurd hs hne
  · intro cur rest hs _
    show pot k sorted.length rest + 1 ≤ _
    rw [hs, pot]; have := pow_pos' k (sorted.length - (cur, sorted.length).2); omega
  · intro cur rest hs _
    show pot k sorted.length rest + 1 ≤ _
    rw [hs, pot]; have := pow_pos' k (sorted.length - (cur, sorted.length).2); omega
  · intro cur d rest hs hd _
    have hle : d ≤ sorted.length := h (cur, d) (by rw [hs]; exact List.mem_cons_self ..)
    show pot k sorted.length ((CGValid.h3Vertex v sorted cur d, sorted.length) :: rest) + 1 ≤ _
    rw [hs, pot, pot]
    simp only [Nat.sub_self, Nat.pow_zero]
    have e : sorted.length - d = (sorted.length - (d + 1)) + 1 := by omega
    rw [e, Nat.pow_succ]
    have := pow_pos' k (sorted.length - (d + 1))
    generalize (k + 2) ^ (sorted.length - (d + 1)) = W at *
    have : W * 2 ≤ W * (k + 2) := Nat.mul_le_mul_left _ (by omega)
    omega
  · intro cur d rest x hs _ _ hx
    have hd := (List.getElem?_eq_some_iff.1 hx).1
    have hmem := CGValid.expandRes_mem v cfg k sorted s cur d x (fun p => p.2 = d + 1) (fun _ _ => rfl)
    have hlen := CGValid.expandRes_length v cfg k sorted s cur d x
    show pot k sorted.length ((CGValid.expandRes v cfg k sorted s cur d x).1.reverse ++ rest) + 1 ≤ _
    rw [hs, pot]
    simp only [pot_append, pot_reverse]
    rw [pot_const k sorted.length (d + 1) _ hmem]
    have e : sorted.length - d = (sorted.length - (d + 1)) + 1 := by omega
    rw [e, Nat.pow_succ]
    have := pow_pos' k (sorted.length - (d + 1))
    generalize (k + 2) ^ (sorted.length - (d + 1)) = W at *
    have h1 : (CGValid.expandRes v cfg k sorted s cur d x).1.length * W ≤ k * W := Nat.mul_le_mul_right _ hlen
    have h2 : W * (k + 2) = k * W + 2 * W := by rw [Nat.mul_comm, Nat.add_mul]
    omega
  · intro cur d rest hs _ _
    show pot k sorted.length rest + 1 ≤ _
    rw [hs, pot]; have := pow_pos' k (sorted.length - (cur, d).2); omega

/-- with fuel at least the potential of the stack, the loop runs until it stops -/
theorem cgRun_stops (fuel : Nat) (s : CgState α) (h : DInv sorted s) (hp : pot k sorted.length s.stack ≤ fuel) :
    (cgRun v cfg k sorted glb fuel s).done = true ∨ (cgRun v cfg k sorted glb fuel s).stack = [] := by
  induction fuel generalizing s with
  | zero =>
    right
    show s.stack = []
    cases hs : s.stack with
    | nil => rfl
    | cons p L => rw [hs, pot] at hp; have := pow_pos' k (sorted.length - p.2); omega
  | succ fuel ih =>
    rw [CGValid.cgRun_succ_left]
    unfold CGValid.cgTick
    split
    · rename_i hd
      rw [CGValid.cgRun_done v fuel hd]; exact Or.inl hd
    · by_cases hs : s.stack = []
      · rw [CGValid.cgStep_nil v hs, CGValid.cgRun_done v fuel rfl]; exact Or.inl rfl
      · exact ih _ (cgStep_dinv s h) (by have := cgStep_pot (v := v) (cfg := cfg) (k := k) (glb := glb) s h hs; omega)

end Fuel

/-- **Termination with explicit fuel.**  `(k + 2) ^ n` iterations always suffice (for every `k`, also `k = 0`);
    more fuel does no harm. -/
theorem cg_fuel_sufficient {v : α → Nat} {cfg : CgCfg} {k : Nat} {items : List α} {fuel : Nat}
    (hf : (k + 2) ^ items.length ≤ fuel) : ∃ r, cg v cfg k items none fuel = .ok r := by
  have hstop := cgRun_stops (v := v) (cfg := cfg) (k := k) (sorted := sortDesc v items)
    (glb := cfg.obj.lowerBound (List.replicate k 0) (remFrom v (sortDesc v items) 0) true) fuel (cgInit k)
    (by intro p hp; simp only [cgInit, List.mem_singleton] at hp; subst hp; exact Nat.zero_le _)
    (by simpa [cgInit, pot, CGValid.sortDesc_length] using hf)
  simp only [cg]
  rw [if_pos (by simpa [List.isEmpty_iff] using hstop)]
  exact ⟨_, rfl⟩

/-- non-vacuity: `4 ^ 5 = 1024` iterations suffice for five items and two bins -/
example : ∃ r, cg id ⟨.minLargest, false, false, false, false⟩ 2 [4, 5, 6, 7, 8] none 1024 = .ok r :=
  cg_fuel_sufficient (by decide)

/-- the two together: with that fuel the result is an optimal partition -/
theorem cg_total_optimal {v : α → Nat} {cfg : CgCfg} {k : Nat} {items : List α} (hk : 0 < k) :
    ∃ b, cg v cfg k items none ((k + 2) ^ items.length) = .ok (some b) ∧ IsPartition v items k b ∧
      IsOptimalValue cfg.obj k (items.map v) (cfg.obj.value b.sums false) := by
  obtain ⟨r, hr⟩ := cg_fuel_sufficient (v := v) (cfg := cfg) (k := k) (items := items) (Nat.le_refl _)
  cases r with
  | none => exact absurd rfl (cg_some_of_no_limit hk hr)
  | some b => exact ⟨b, hr, CGValid.cg_result hk hr, cg_optimal hk hr⟩

/-- non-vacuity -/
example : ∃ b, cg id ⟨.minDiff, true, true, true, true⟩ 3 [4, 5, 6, 7, 8] none (5 ^ 5) = .ok (some b) ∧
    IsPartition id [4, 5, 6, 7, 8] 3 b ∧
    IsOptimalValue .minDiff 3 ([4, 5, 6, 7, 8].map id) (Objective.minDiff.value b.sums false) :=
  cg_total_optimal (by decide)

end Prtpy.CGOpt

/-
Axiom audit (output of `#print axioms` observed with `lake env lean`):

#print axioms Prtpy.CGOpt.cg_some_of_no_limit
  'Prtpy.CGOpt.cg_some_of_no_limit' depends on axioms: [propext, Classical.choice, Quot.sound]
#print axioms Prtpy.CGOpt.cg_optimal
  'Prtpy.CGOpt.cg_optimal' depends on axioms: [propext, Classical.choice, Quot.sound]
#print axioms Prtpy.CGOpt.cg_fuel_sufficient
  'Prtpy.CGOpt.cg_fuel_sufficient' depends on axioms: [propext, Classical.choice, Quot.sound]
#print axioms Prtpy.CGOpt.cg_total_optimal
  'Prtpy.CGOpt.cg_total_optimal' depends on axioms: [propext, Classical.choice, Quot.sound]
#print axioms Prtpy.CGOpt.cgChildren_cov
  'Prtpy.CGOpt.cgChildren_cov' depends on axioms: [propext, Classical.choice, Quot.sound]
#print axioms Prtpy.CGOpt.cgStep_cinv
  'Prtpy.CGOpt.cgStep_cinv' depends on axioms: [propext, Classical.choice, Quot.sound]
-/
