-- NOTE (round 7): sharper constants and partial absolute bounds are in FF17Abs.lean / FF17AbsB.lean; the reduction of the 11/9 gap is in FFD119Gap.lean / FFD119GapB.lean.
/-
  PrtpyProofs.FF17 — property C09: first fit and best fit use at most `1.7 · OPT + 1` bins
  (the classical asymptotic bound of Ullman 1971 / Garey, Graham, Johnson, Yao 1976 is `1.7 · OPT + 2`;
  the weighting below is the one of Dósa and Sgall 2013, which makes the bookkeeping short enough to lose
  only one bin).

      ff_seventeen_tenths  :  ffOnline v B items = .ok b → Packable B m (items.map v) →
                              10 * b.lists.length ≤ 17 * m + 20          (as requested)
      ff_seventeen_tenths_strong :                      … ≤ 17 * m + 10   (what is actually proved)
      bf_seventeen_tenths(_strong), ffd_…, bfd_… : the same for `bfOnline`, `ffDecreasing`, `bfDecreasing`;
      gen_seventeen_tenths : the same for every loop whose step satisfies `Step2` ("almost first fit");
      ff_seventeen_tenths_opt / bf_… : the same against the oracle `optBins`;
      ff_floor_succ / bf_floor_succ : `#bins ≤ ⌊1.7 · m⌋ + 1`.

  Units.  Sizes are naturals, the capacity is `B`.  All weights are multiplied by `10 · B`, so that "weight 1"
  is `10·B` and "weight 17/10" is `17·B`; everything stays in `Nat` and is linear for `omega`.

  §1  Weight.  `wt B a = 12·a + bonus B a` where (in units of `B`, i.e. after dividing by `10·B`)
        bonus = 0              for a ≤ 1/6
              = (3/5)(a − 1/6) for 1/6 ≤ a ≤ 1/3        (`6a − B`)
              = 1/10           for 1/3 ≤ a ≤ 1/2        (`B`)
              = 4/10           for a > 1/2               (`4B`)
      This is the Garey–Graham–Johnson–Yao function on `[0, 1/2]`; above `1/2` it is `6a/5 + 4/10 > 1` instead of
      the constant `1` (Dósa–Sgall).  **Lemma A** `weight_bin_le`: values with total `≤ B` weigh `≤ 17·B`.
      Proof: the `12·a` parts give `≤ 12·B`; without a value above `B/2` the bonus is `≤ 3·total`
      (`bonusL_cases`, left); with one, the remaining values total less than `B/2`, and there the bonus is
      super-additive and `≤ B` (`bonusL_small`).  The bound is attained (`31 + 21 + 8 = 60`).
      The function, Lemma A (all 241502 multisets of ≤ 6 values with total ≤ 60, and smaller capacities), the
      pairing inequality and Lemma B / `TwoFit` (all lists of ≤ 5 values for `B = 12`, ≤ 6 for `B = 6, 7`, for
      both algorithms) were tested by `#eval` before the proofs were written.
  §2  Optimum's side `packable_weight_le`: `Packable B m` ⇒ total weight `≤ 17·B·m` (Lemma A per bin, via
      `LPT43.packable_partition`).
  §3  **Lemma B** on a list of bins `Ls` (earliest bin first) with `Ls.Pairwise (Rel v B)`, where
      `Rel L L'` (for `L` earlier than `L'`) says: the first item of `L'` does not fit on top of `L`'s final
      content, and if that first item is `≤ B/2` then the second item of `L'` does not fit either.
      `bins_weight : 10·B·#bins ≤ weight + 10·B`.  Bins are of three kinds:
        * *big* (an item above `B/2`): weight `≥ 10·B` each (`big_total`);
        * *small* (no item above `B/2`, at most one item): there is at most one (`small_count`);
        * *chain* (no item above `B/2`, at least two items), in order `C₁, …, C_r`: the first two items
          `c, c'` of `C_{i+1}` do not fit into `C_i`, hence `12·s(C_i) + bonus c + bonus c' ≥ 10·B` when
          `s(C_i) ≥ 2B/3` (`pairing`); when `s(C_i) < 2B/3` every later chain bin is more than `2B/3` full and
          `bonus c = bonus c' = B`.  `chain_weight`: for some chain bin `L'`,
          `10·B·r + (bonus of the first two items of C₁) + 12·s(L') ≤ weight(chain) + 10·B`.
      If there is both a small bin `S` and a chain, `s(S) + s(L') > B` pays for one of the two lost bins.
      No "coarseness" is needed.
  §4  The run invariant.  `Fit.Inv` (from `Fit.lean`) gives the any-fit property for the *first* item of every
      bin.  The second clause of `Rel` is `TwoFit`; it is kept by every `Step2` step: the item goes into a bin
      where it fits and every earlier bin where it would also fit is strictly less full.  First fit satisfies
      this vacuously, best fit by the definition of the scan (`Fit.bfStep_spec`).  (If the bin `i` chosen for
      `x` holds the single item `c ≤ B/2` and `x` also fitted into an earlier bin `j`, then `s_j < s_i = c`, but
      `s_j + c > B` by the any-fit property, so `c > B/2`.)
      Plain any-fit is *not* enough (worst fit has ratio 2), and best fit does violate the first-fit property
      "no item of a later bin fits into an earlier one" (example in §6), which is why `Rel` only speaks about the
      first two items.
  §5  The theorems.  §6 non-vacuity: the instance 6×15, 6×34, 6×51 with `B = 100` (FF = BF = 10, OPT = 6, and
      both lemmas are tight: weight `= 17·100·6`).

  Not proved: the absolute bound `#bins ≤ ⌊1.7·OPT⌋` of Dósa–Sgall.  For the model it is false on the empty
  input (one empty bin, `OPT = 0`; see the last examples), so the additive `+ 10` in `…_strong` is optimal for
  the statement over all inputs; for non-empty inputs the absolute bound remains open here.
-/
import Prtpy
import PrtpyProofs.Fit
import PrtpyProofs.LPT43
import PrtpyProofs.Checkers
open Prtpy

namespace Prtpy.FF17

variable {α : Type}

/-! ## 1. The weight function and Lemma A -/

/-- the bonus of a value `a` (in units of `1/(10·B)`) -/
def bonus (B a : Nat) : Nat := if B < 2 * a then 4 * B else min B (6 * a - B)

/-- the weight of a value `a` (in units of `1/(10·B)`): `12·a + bonus` -/
def wt (B a : Nat) : Nat := 12 * a + bonus B a

/-- total bonus of a list of values -/
def bonusL (B : Nat) (l : List Nat) : Nat := sumL (l.map (bonus B))

theorem bonusL_nil (B : Nat) : bonusL B [] = 0 := rfl
theorem bonusL_cons (B a : Nat) (l : List Nat) : bonusL B (a :: l) = bonus B a + bonusL B l := rfl

theorem sumL_map_wt (B : Nat) : ∀ l : List Nat, sumL (l.map (wt B)) = 12 * sumL l + bonusL B l
  | [] => rfl
  | a :: l => by
    have ih := sumL_map_wt B l
    simp only [List.map_cons, sumL, bonusL_cons, wt] at ih ⊢
    omega

/-- values that together fill at most half a bin: the bonus is super-additive there -/
theorem bonusL_small (B : Nat) : ∀ l : List Nat, 2 * sumL l ≤ B → bonusL B l ≤ min B (6 * sumL l - B)
  | [], _ => by simp [bonusL_nil]
  | a :: l, h => by
    simp only [sumL] at h
    have ih := bonusL_small B l (by omega)
    simp only [bonusL_cons, sumL, bonus]
    split <;> omega

/-- either no value exceeds `B/2` and the bonus is at most `3·total`, or one value `x` exceeds `B/2` and the
    rest (total below `B/2`) has a bonus of at most `B` -/
theorem bonusL_cases (B : Nat) : ∀ l : List Nat, sumL l ≤ B →
    bonusL B l ≤ 3 * sumL l ∨
    ∃ x, B < 2 * x ∧ x ≤ sumL l ∧ bonusL B l ≤ 4 * B + min B (6 * (sumL l - x) - B)
  | [], _ => Or.inl (by simp [bonusL_nil])
  | a :: l, h => by
    simp only [sumL] at h
    by_cases ha : B < 2 * a
    · right
      have := bonusL_small B l (by omega)
      refine ⟨a, ha, by simp only [sumL]; omega, ?_⟩
      simp only [bonusL_cons, sumL, bonus, if_pos ha]
      omega
    · rcases bonusL_cases B l (by omega) with ih | ⟨x, hx, hxs, ih⟩
      · left
        simp only [bonusL_cons, sumL, bonus, if_neg ha]
        omega
      · right
        refine ⟨x, hx, by simp only [sumL]; omega, ?_⟩
        simp only [bonusL_cons, sumL, bonus, if_neg ha]
        omega

theorem bonusL_le (B : Nat) (l : List Nat) (h : sumL l ≤ B) : bonusL B l ≤ 5 * B := by
  rcases bonusL_cases B l h with h1 | ⟨x, _, _, h1⟩ <;> omega

/-- **Lemma A**: values that fit into one bin weigh at most `17/10` (in units of `1/(10·B)`: `17·B`). -/
theorem weight_bin_le {B : Nat} {l : List Nat} (h : sumL l ≤ B) : sumL (l.map (wt B)) ≤ 17 * B := by
  have := bonusL_le B l h
  rw [sumL_map_wt]
  omega

/-- the bound is attained: `31 + 21 + 8 = 60`, weight `17 · 60` -/
example : sumL ([31, 21, 8].map (wt 60)) = 17 * 60 := by decide
example : sumL ([31, 21, 8].map (wt 60)) ≤ 17 * 60 := weight_bin_le (by decide)

/-! ## 2. The optimum's side -/

/-- weight of an item -/
def W (v : α → Nat) (B : Nat) (x : α) : Nat := wt B (v x)

theorem groups_weight_le (B : Nat) : ∀ Q : List (List Nat), (∀ l ∈ Q, sumL l ≤ B) →
    binSum (wt B) Q.flatten ≤ 17 * (B * Q.length)
  | [], _ => by simp [binSum, sumL]
  | l :: Q, h => by
    have h1 : binSum (wt B) l ≤ 17 * B := weight_bin_le (h l List.mem_cons_self)
    have h2 := groups_weight_le B Q (fun l' hl' => h l' (List.mem_cons_of_mem _ hl'))
    simp only [List.flatten_cons, Fit.binSum_append, List.length_cons, Nat.mul_succ]
    omega

/-- **the optimum's side**: items that can be packed into `m` bins weigh at most `17·B·m` -/
theorem packable_weight_le {v : α → Nat} {B m : Nat} {items : List α}
    (hm : Packable B m (items.map v)) : binSum (W v B) items ≤ 17 * (B * m) := by
  obtain ⟨Q, hk, hp, hT⟩ := LPT43.packable_partition hm
  have h1 : binSum (W v B) items = binSum (wt B) (items.map v) := by
    simp only [binSum, List.map_map]; rfl
  rw [h1, ← Fit.binSum_perm hp, ← hk]
  exact groups_weight_le B Q hT

example : binSum (W id 10) [6, 5, 4, 3] ≤ 17 * (10 * 2) :=
  packable_weight_le (v := id) ⟨[0, 1, 0, 1], ⟨rfl, by decide⟩, by decide⟩

/-! ## 3. Lemma B, on a list of bins -/

section Bins
variable (v : α → Nat) (B : Nat)

/-- what first fit and best fit guarantee for a bin `L` and a *later* bin `L'`: the first item of `L'`
    does not fit into `L`, and neither does the second one when the first one is at most `B/2` -/
def Rel (L L' : List α) : Prop :=
  (∃ x, L'.head? = some x ∧ B < binSum v L + v x) ∧
  (∀ x y r, L' = x :: y :: r → 2 * v x ≤ B → B < binSum v L + v y)

/-- the bin contains an item above `B/2` -/
def isBig (L : List α) : Bool := L.any (fun x => decide (B < 2 * v x))

/-- bonus of the first two items -/
def bonus2 : List α → Nat
  | x :: y :: _ => bonus B (v x) + bonus B (v y)
  | _ => 0

variable {v B}

theorem weight_ge : ∀ L : List α, 12 * binSum v L ≤ binSum (W v B) L
  | [] => by simp [binSum, sumL]
  | x :: L => by
    have := weight_ge L
    simp only [Fit.binSum_cons, W, wt] at this ⊢
    omega

theorem bin_weight_ge : ∀ L : List α, 12 * binSum v L + bonus2 v B L ≤ binSum (W v B) L
  | [] => by simp [binSum, sumL, bonus2]
  | [x] => by simp [binSum, sumL, bonus2, W, wt]
  | x :: y :: r => by
    have := weight_ge (v := v) (B := B) r
    simp only [Fit.binSum_cons, W, wt, bonus2] at this ⊢
    omega

theorem big_weight : ∀ L : List α, isBig v B L = true → 10 * B ≤ binSum (W v B) L
  | [], h => by simp [isBig] at h
  | x :: L, h => by
    simp only [isBig, List.any_cons, Bool.or_eq_true, decide_eq_true_eq] at h
    rcases h with h | h
    · simp only [Fit.binSum_cons, W, wt, bonus, if_pos h]
      omega
    · have := big_weight L h
      simp only [Fit.binSum_cons]
      omega

theorem not_big {L : List α} (h : isBig v B L = false) : ∀ x ∈ L, 2 * v x ≤ B := by
  intro x hx
  simp only [isBig, List.any_eq_false, decide_eq_true_eq] at h
  have := h x hx
  omega

theorem rel_sum {L L' : List α} (h : Rel v B L L') : B < binSum v L + binSum v L' := by
  obtain ⟨⟨x, hx, hlt⟩, _⟩ := h
  have := Fit.head_le_binSum v hx
  omega

/-- the first two items of a later bin without items above `B/2` do not fit -/
theorem rel_two {L L' : List α} (h : Rel v B L L') (hb : isBig v B L' = false) (h2 : 2 ≤ L'.length) :
    ∃ c c' r, L' = c :: c' :: r ∧ 2 * v c ≤ B ∧ 2 * v c' ≤ B ∧
      B < binSum v L + v c ∧ B < binSum v L + v c' := by
  match L', h2 with
  | c :: c' :: r, _ =>
    have hc := not_big hb c (by simp)
    have hc' := not_big hb c' (by simp)
    obtain ⟨⟨x, hx, hlt⟩, h2⟩ := h
    simp only [List.head?_cons, Option.some.injEq] at hx
    subst hx
    exact ⟨c, c', r, rfl, hc, hc', hlt, h2 c c' r rfl hc⟩

/-- at most one bin has at most one item and no item above `B/2` -/
theorem small_count : ∀ sm : List (List α), (∀ L ∈ sm, isBig v B L = false ∧ L.length ≤ 1) →
    sm.Pairwise (Rel v B) → sm.length ≤ 1
  | [], _, _ => by simp
  | [_], _, _ => by simp
  | L :: L' :: rest, hcl, hp => by
    exfalso
    have hr : Rel v B L L' := (List.pairwise_cons.1 hp).1 L' (by simp)
    obtain ⟨⟨x, hx, hlt⟩, _⟩ := hr
    have h1 := hcl L (by simp)
    have h2 := hcl L' (by simp)
    have hx' : 2 * v x ≤ B := not_big h2.1 x (by
      cases L' with
      | nil => simp at hx
      | cons y ys => simp only [List.head?_cons, Option.some.injEq] at hx; subst hx; simp)
    have hL : 2 * binSum v L ≤ B := by
      match L, h1 with
      | [], _ => simp [binSum, sumL]
      | [y], h1 =>
        have := not_big h1.1 y (by simp)
        simp only [binSum, List.map_cons, List.map_nil, sumL]
        omega
      | _ :: _ :: _, h1 => simp at h1
    omega

/-- the pairing inequality: a bin filled to at least `2/3` plus the bonus of two items that do not fit -/
theorem pairing {s c c' : Nat} (hs : 2 * B ≤ 3 * s) (hc : 2 * c ≤ B) (hc' : 2 * c' ≤ B)
    (h1 : B < s + c) (h2 : B < s + c') : 10 * B ≤ 12 * s + bonus B c + bonus B c' := by
  simp only [bonus, if_neg (Nat.not_lt.2 hc), if_neg (Nat.not_lt.2 hc')]
  omega

/-- items between `B/3` and `B/2` have bonus `B` -/
theorem bonus_third {c : Nat} (hc : 2 * c ≤ B) (h : B < 3 * c) : bonus B c = B := by
  simp only [bonus, if_neg (Nat.not_lt.2 hc)]
  omega

/-- **the chain of bins with at least two items, none above `B/2`**: all but one of them are paid for -/
theorem chain_weight : ∀ ch : List (List α), ch ≠ [] →
    (∀ L ∈ ch, isBig v B L = false ∧ 2 ≤ L.length) → ch.Pairwise (Rel v B) →
    ∃ L' ∈ ch, 10 * (B * ch.length) + bonus2 v B (ch.headD []) + 12 * binSum v L' ≤
      binSum (W v B) ch.flatten + 10 * B
  | [], h, _, _ => absurd rfl h
  | [L], _, _, _ => by
    refine ⟨L, by simp, ?_⟩
    have := bin_weight_ge (v := v) (B := B) L
    simp only [List.length_cons, List.length_nil, List.headD_cons, List.flatten_cons, List.flatten_nil,
      List.append_nil]
    omega
  | L :: N :: rest, _, hcl, hp => by
    rw [List.pairwise_cons] at hp
    obtain ⟨L', hL', ih⟩ := chain_weight (N :: rest) (by simp)
      (fun M hM => hcl M (List.mem_cons_of_mem _ hM)) hp.2
    have hN := hcl N (by simp)
    have hL'c := hcl L' (List.mem_cons_of_mem _ hL')
    obtain ⟨c, c', rN, hNeq, hc, hc', hlc, hlc'⟩ := rel_two (hp.1 N (by simp)) hN.1 hN.2
    obtain ⟨d, d', rL', hL'eq, hd, hd', hld, hld'⟩ := rel_two (hp.1 L' hL') hL'c.1 hL'c.2
    have hw := bin_weight_ge (v := v) (B := B) L
    have hU : bonus2 v B N = bonus B (v c) + bonus B (v c') := by rw [hNeq]; rfl
    have hsL' : v d + v d' ≤ binSum v L' := by
      rw [hL'eq]; simp only [Fit.binSum_cons]; omega
    simp only [List.headD_cons, List.length_cons, List.flatten_cons, Fit.binSum_append, Nat.mul_succ] at ih ⊢
    by_cases hs : 2 * B ≤ 3 * binSum v L
    · have := pairing hs hc hc' hlc hlc'
      exact ⟨L', List.mem_cons_of_mem _ hL', by omega⟩
    · have e1 := bonus_third hc (by omega)
      have e2 := bonus_third hc' (by omega)
      exact ⟨L, by simp, by omega⟩

/-- the three kinds of bins -/
def kBig (L : List α) : Bool := isBig v B L
def kSmall (L : List α) : Bool := !isBig v B L && decide (L.length ≤ 1)
def kChain (L : List α) : Bool := !isBig v B L && decide (2 ≤ L.length)

theorem kinds_cases (L : List α) :
    (kBig (v := v) (B := B) L = true ∧ kSmall (v := v) (B := B) L = false ∧ kChain (v := v) (B := B) L = false) ∨
    (kBig (v := v) (B := B) L = false ∧ kSmall (v := v) (B := B) L = true ∧ kChain (v := v) (B := B) L = false) ∨
    (kBig (v := v) (B := B) L = false ∧ kSmall (v := v) (B := B) L = false ∧ kChain (v := v) (B := B) L = true) := by
  simp only [kBig, kSmall, kChain]
  cases isBig v B L <;> by_cases hl : L.length ≤ 1 <;> simp <;> omega

theorem split_kinds (w : α → Nat) : ∀ Ls : List (List α),
    Ls.length = (Ls.filter (kBig (v := v) (B := B))).length + (Ls.filter (kSmall (v := v) (B := B))).length +
      (Ls.filter (kChain (v := v) (B := B))).length ∧
    binSum w Ls.flatten = binSum w (Ls.filter (kBig (v := v) (B := B))).flatten +
      binSum w (Ls.filter (kSmall (v := v) (B := B))).flatten +
      binSum w (Ls.filter (kChain (v := v) (B := B))).flatten
  | [] => by simp [binSum, sumL]
  | L :: Ls => by
    obtain ⟨h1, h2⟩ := split_kinds w Ls
    rcases kinds_cases (v := v) (B := B) L with ⟨e1, e2, e3⟩ | ⟨e1, e2, e3⟩ | ⟨e1, e2, e3⟩ <;>
      simp only [List.filter_cons, e1, e2, e3, if_true, Bool.false_eq_true, if_false, List.length_cons,
        List.flatten_cons, Fit.binSum_append] <;> omega

theorem big_total : ∀ Ls : List (List α), (∀ L ∈ Ls, isBig v B L = true) →
    10 * (B * Ls.length) ≤ binSum (W v B) Ls.flatten
  | [], _ => by simp
  | L :: Ls, h => by
    have h1 := big_weight L (h L (by simp))
    have h2 := big_total Ls (fun M hM => h M (List.mem_cons_of_mem _ hM))
    simp only [List.length_cons, List.flatten_cons, Fit.binSum_append, Nat.mul_succ]
    omega

/-- two different bins of the list together hold more than `B` -/
theorem pairwise_sum {Ls : List (List α)} (hp : Ls.Pairwise (Rel v B)) {L L' : List α}
    (hL : L ∈ Ls) (hL' : L' ∈ Ls) (hne : L ≠ L') : B < binSum v L + binSum v L' := by
  induction Ls with
  | nil => simp at hL
  | cons M Ls ih =>
    rw [List.pairwise_cons] at hp
    rcases List.mem_cons.1 hL with h1 | h1
    · rcases List.mem_cons.1 hL' with h2 | h2
      · exact absurd (h1.trans h2.symm) hne
      · subst h1; exact rel_sum (hp.1 L' h2)
    · rcases List.mem_cons.1 hL' with h2 | h2
      · subst h2
        have := rel_sum (hp.1 L h1); omega
      · exact ih hp.2 h1 h2

/-- **Lemma B**: all bins but one are paid for by the weight of their items -/
theorem bins_weight {Ls : List (List α)} (hp : Ls.Pairwise (Rel v B)) :
    10 * (B * Ls.length) ≤ binSum (W v B) Ls.flatten + 10 * B := by
  obtain ⟨hlen, hw⟩ := split_kinds (v := v) (B := B) (W v B) Ls
  have hbig := big_total (v := v) (B := B) (Ls.filter (kBig (v := v) (B := B)))
    (fun L hL => by simpa [kBig] using (List.mem_filter.1 hL).2)
  have hsm := small_count (v := v) (B := B) (Ls.filter (kSmall (v := v) (B := B)))
    (fun L hL => by simpa [kSmall] using (List.mem_filter.1 hL).2) (hp.filter _)
  have hchcl : ∀ L ∈ Ls.filter (kChain (v := v) (B := B)), isBig v B L = false ∧ 2 ≤ L.length :=
    fun L hL => by simpa [kChain] using (List.mem_filter.1 hL).2
  have hchp : (Ls.filter (kChain (v := v) (B := B))).Pairwise (Rel v B) := hp.filter _
  rw [hlen, hw]
  generalize hB : Ls.filter (kBig (v := v) (B := B)) = bg at *
  generalize hS : Ls.filter (kSmall (v := v) (B := B)) = sm at *
  generalize hC : Ls.filter (kChain (v := v) (B := B)) = ch at *
  simp only [Nat.mul_add]
  by_cases hch : ch = []
  · subst hch
    have : B * sm.length ≤ B := by
      have := Nat.mul_le_mul_left B hsm; omega
    simp only [List.length_nil, List.flatten_nil]
    omega
  · obtain ⟨L', hL', hcw⟩ := chain_weight ch hch hchcl hchp
    match sm, hsm, hS with
    | [], _, _ =>
      simp only [List.length_nil, List.flatten_nil]
      omega
    | [S], _, hS =>
      have hSmem : S ∈ Ls.filter (kSmall (v := v) (B := B)) := by rw [hS]; simp
      have hL'mem : L' ∈ Ls.filter (kChain (v := v) (B := B)) := by rw [hC]; exact hL'
      have hSk := (List.mem_filter.1 hSmem).2
      have hL'k := (List.mem_filter.1 hL'mem).2
      have hne : S ≠ L' := by
        rintro rfl
        simp only [kSmall, kChain, Bool.and_eq_true, decide_eq_true_eq] at hSk hL'k
        omega
      have := pairwise_sum hp (List.mem_filter.1 hSmem).1 (List.mem_filter.1 hL'mem).1 hne
      have hwS := weight_ge (v := v) (B := B) S
      simp only [List.length_cons, List.length_nil, List.flatten_cons, List.flatten_nil, List.append_nil]
      omega

end Bins

/-! ## 4. The invariant of a first-fit / best-fit run -/

/-- for a bin whose first item is at most `B/2`, the second item did not fit into any earlier bin either -/
def TwoFit (v : α → Nat) (B : Nat) (b : Bins α) : Prop :=
  ∀ i j, i < j → j < b.lists.length → ∀ x y r, b.lists.getD j [] = x :: y :: r → 2 * v x ≤ B →
    B < b.sums.getD i 0 + v y

/-- an "almost first fit" step: the item goes into a bin where it fits, and every *earlier* bin where it
    would also fit is strictly less full; a new bin is opened only if it fits nowhere.
    First fit (no earlier bin has room) and best fit (fullest bin, first among ties) are both of this kind. -/
def Step2 (v : α → Nat) (B : Nat) (b : Bins α) (x : α) (b' : Bins α) : Prop :=
  (∃ i, ∃ h : i < b.sums.length, b.sums[i] + v x ≤ B ∧
      (∀ j (hj : j < i), b.sums[j] + v x ≤ B → b.sums[j] < b.sums[i]) ∧ b' = b.add v x i) ∨
  ((∀ s ∈ b.sums, ¬ s + v x ≤ B) ∧ b' = (b.addEmpty 1).add v x b.sums.length)

theorem Step2.toStep {v : α → Nat} {B : Nat} {b b' : Bins α} {x : α} (h : Step2 v B b x b') :
    Fit.Step v B b x b' := by
  rcases h with ⟨i, hi, hfit, _, rfl⟩ | ⟨hno, rfl⟩
  · exact Or.inl ⟨i, hi, hfit, rfl⟩
  · exact Or.inr ⟨hno, rfl⟩

theorem ffStep_step2 (v : α → Nat) (B : Nat) (b : Bins α) (x : α) : Step2 v B b x (ffStep v B b x) := by
  rcases Fit.ffStep_spec' v B b x with ⟨i, hi, hfit, hfirst, he⟩ | ⟨hno, he⟩
  · exact Or.inl ⟨i, hi, hfit, fun j hj hj' => absurd hj' (hfirst j hj), he⟩
  · exact Or.inr ⟨hno, he⟩

theorem bfStep_step2 (v : α → Nat) (B : Nat) (b : Bins α) (x : α) : Step2 v B b x (bfStep v B b x) := by
  rcases Fit.bfStep_spec v B b x with ⟨i, hi, hfit, _, hbest, he⟩ | ⟨hno, he⟩
  · exact Or.inl ⟨i, hi, hfit, hbest, he⟩
  · exact Or.inr ⟨hno, he⟩

theorem getD_sums {b : Bins α} {i : Nat} (hi : i < b.sums.length) : b.sums.getD i 0 = b.sums[i] := by
  simp [List.getD_eq_getElem?_getD, List.getElem?_eq_getElem hi]

theorem getD_lists {b : Bins α} {j : Nat} (hj : j < b.lists.length) : b.lists.getD j [] = b.lists[j] := by
  simp [List.getD_eq_getElem?_getD, List.getElem?_eq_getElem hj]

theorem twofit_add {v : α → Nat} {B : Nat} {b : Bins α} (x : α) (i : Nat)
    (hl : b.sums.length = b.lists.length) (hi : i < b.lists.length)
    (hkey : ∀ c, b.lists[i] = [c] → 2 * v c ≤ B → ∀ j (hj : j < i), B < b.sums[j] + v x)
    (h : TwoFit v B b) : TwoFit v B (b.add v x i) := by
  intro i' j hij hj x' y r hlist hx'
  have hj' : j < b.lists.length := by simpa [Bins.add] using hj
  have hi' : i' < b.sums.length := by omega
  have hsum : b.sums[i'] ≤ (b.add v x i).sums.getD i' 0 := by
    simp only [Bins.add, List.getD_eq_getElem?_getD]
    rw [List.getElem?_eq_getElem (by simpa using hi')]
    simp only [Option.getD_some, List.getElem_modify]
    split <;> omega
  simp only [Bins.add, List.getD_eq_getElem?_getD] at hlist
  rw [List.getElem?_eq_getElem (by simpa using hj')] at hlist
  simp only [Option.getD_some, List.getElem_modify] at hlist
  by_cases hij' : i = j
  · subst hij'
    rw [if_pos rfl] at hlist
    generalize hL : b.lists[i] = Li at hlist
    match Li, hL, hlist with
    | [], _, hlist => simp at hlist
    | [c], hL, hlist =>
      simp only [List.cons_append, List.nil_append, List.cons.injEq] at hlist
      obtain ⟨rfl, rfl, _⟩ := hlist
      have := hkey c hL hx' i' hij
      omega
    | c :: d :: r', hL, hlist =>
      simp only [List.cons_append, List.cons.injEq] at hlist
      obtain ⟨rfl, rfl, _⟩ := hlist
      have := h i' i hij hi c d r' (by rw [getD_lists hi, hL]) hx'
      rw [getD_sums hi'] at this
      omega
  · rw [if_neg hij'] at hlist
    have := h i' j hij hj' x' y r (by rw [getD_lists hj', hlist]) hx'
    rw [getD_sums hi'] at this
    omega

theorem twofit_new {v : α → Nat} {B : Nat} {b : Bins α} (x : α)
    (hl : b.sums.length = b.lists.length) (h : TwoFit v B b) :
    TwoFit v B ⟨b.sums ++ [v x], b.lists ++ [[x]]⟩ := by
  intro i j hij hj x' y r hlist hx'
  simp only [List.length_append, List.length_cons, List.length_nil] at hj
  by_cases hjl : j < b.lists.length
  · have hi : i < b.sums.length := by omega
    have := h i j hij hjl x' y r
      (by simpa [List.getD_eq_getElem?_getD, List.getElem?_append_left hjl] using hlist) hx'
    simpa [List.getD_eq_getElem?_getD, List.getElem?_append_left hi] using this
  · have : j = b.lists.length := by omega
    subst this
    simp [List.getD_eq_getElem?_getD] at hlist

/-- the invariant of `Fit` together with `TwoFit` -/
structure Inv2 (v : α → Nat) (B : Nat) (seen : List α) (b : Bins α) : Prop where
  inv : Fit.Inv v B seen b
  tf : TwoFit v B b

theorem inv2_init (v : α → Nat) (B : Nat) : Inv2 v B [] (Bins.new 1 : Bins α) := by
  refine ⟨Fit.inv_init v B, ?_⟩
  intro i j hij hj
  simp [Bins.new] at hj
  omega

theorem inv2_step {v : α → Nat} {B : Nat} {seen : List α} {b b' : Bins α} {x : α} (hx : v x ≤ B)
    (hs : Step2 v B b x b') (h : Inv2 v B seen b) : Inv2 v B (seen ++ [x]) b' := by
  refine ⟨Fit.inv_step hx hs.toStep h.inv, ?_⟩
  have hl := h.inv.len
  rcases hs with ⟨i, hi, hfit, hbest, rfl⟩ | ⟨hno, rfl⟩
  · have hi' : i < b.lists.length := by omega
    apply twofit_add x i hl hi' _ h.tf
    intro c hc h2c j hj
    apply Nat.lt_of_not_le
    intro hfitj
    have h1 := hbest j hj hfitj
    have h2 : b.sums[i] = v c := by
      have : b.sums[i] = binSum v b.lists[i] := by simp [h.inv.cons]
      rw [this, hc]; simp [binSum, sumL]
    obtain ⟨x0, hx0, hlt⟩ := h.inv.af j i hj hi'
    rw [getD_lists hi', hc] at hx0
    simp only [List.head?_cons, Option.some.injEq] at hx0
    subst hx0
    rw [getD_sums (by omega)] at hlt
    omega
  · rw [Fit.addEmpty_add v b x hl]
    exact twofit_new x hl h.tf

theorem inv2_foldl {v : α → Nat} {B : Nat} (step : Bins α → α → Bins α)
    (hstep : ∀ b x, Step2 v B b x (step b x)) :
    ∀ (xs seen : List α) (b : Bins α), (∀ x ∈ xs, v x ≤ B) → Inv2 v B seen b →
      Inv2 v B (seen ++ xs) (xs.foldl step b)
  | [], seen, b, _, h => by simpa using h
  | x :: xs, seen, b, hxs, h => by
    have := inv2_foldl step hstep xs (seen ++ [x]) (step b x)
      (fun y hy => hxs y (List.mem_cons_of_mem _ hy))
      (inv2_step (hxs x List.mem_cons_self) (hstep b x) h)
    simpa using this

theorem gen_inv2 {v : α → Nat} {B : Nat} {step : Bins α → α → Bins α} {items : List α} {b : Bins α}
    (hstep : ∀ b x, Step2 v B b x (step b x))
    (hb : Fit.genLoop v B step (Bins.new 1) items = .ok b) : Inv2 v B items b := by
  have hall := Fit.gen_ok_all_le hb
  rw [Fit.genLoop_ok v B step items _ hall] at hb
  cases hb
  simpa using inv2_foldl step hstep items [] (Bins.new 1) hall (inv2_init v B)

theorem ffOnline_inv2 {v : α → Nat} {B : Nat} {items : List α} {b : Bins α}
    (h : ffOnline v B items = .ok b) : Inv2 v B items b := by
  simp only [ffOnline, Fit.ffLoop_eq] at h
  exact gen_inv2 (ffStep_step2 v B) h

theorem bfOnline_inv2 {v : α → Nat} {B : Nat} {items : List α} {b : Bins α}
    (h : bfOnline v B items = .ok b) : Inv2 v B items b := by
  simp only [bfOnline, Fit.bfLoop_eq] at h
  exact gen_inv2 (bfStep_step2 v B) h

/-- the bins of a run, in order, satisfy `Rel` pairwise -/
theorem Inv2.pairwise {v : α → Nat} {B : Nat} {seen : List α} {b : Bins α} (h : Inv2 v B seen b) :
    b.lists.Pairwise (Rel v B) := by
  rw [List.pairwise_iff_getElem]
  intro i j hi hj hij
  have hsi : b.sums.getD i 0 = binSum v b.lists[i] := by
    rw [getD_sums (by rw [h.inv.len]; exact hi)]; simp [h.inv.cons]
  constructor
  · obtain ⟨x, hx, hlt⟩ := h.inv.af i j hij hj
    rw [getD_lists hj] at hx
    exact ⟨x, hx, by rw [← hsi]; exact hlt⟩
  · intro x y r hL hx
    have := h.tf i j hij hj x y r (by rw [getD_lists hj, hL]) hx
    rw [hsi] at this
    exact this

/-! ## 5. The theorems -/

/-- **the bound for every run that keeps the invariant**: `#bins ≤ 1.7 · m + 1` -/
theorem Inv2.bound {v : α → Nat} {B m : Nat} {items : List α} {b : Bins α} (h : Inv2 v B items b)
    (hm : Packable B m (items.map v)) : 10 * b.lists.length ≤ 17 * m + 10 := by
  have hp := h.pairwise
  by_cases hB : B = 0
  · -- capacity 0: a single bin
    have : b.lists.length ≤ 1 := by
      match hL : b.lists, hp with
      | [], _ => simp
      | [_], _ => simp
      | L :: L' :: rest, hp =>
        exfalso
        have hr := rel_sum ((List.pairwise_cons.1 hp).1 L' (by simp))
        have h1 : binSum v L ≤ B := h.inv.le _ (by rw [h.inv.cons, hL]; simp)
        have h2 : binSum v L' ≤ B := h.inv.le _ (by rw [h.inv.cons, hL]; simp)
        omega
    omega
  · have hW := bins_weight hp
    have hO := packable_weight_le hm
    rw [Fit.binSum_perm h.inv.perm] at hW
    have h1 : B * (10 * b.lists.length) ≤ B * (17 * m + 10) := by
      rw [Nat.mul_left_comm, Nat.mul_add, Nat.mul_left_comm B 17 m]
      omega
    exact Nat.le_of_mul_le_mul_left h1 (Nat.pos_of_ne_zero hB)

variable {v : α → Nat} {B m : Nat} {items : List α} {b : Bins α}

/-- **Lemma B for first fit**: the items weigh at least `#bins − 1` (in units of `1/(10·B)`) -/
theorem ff_weight_ge (hok : ffOnline v B items = .ok b) :
    10 * (B * b.lists.length) ≤ binSum (W v B) items + 10 * B := by
  have h := ffOnline_inv2 hok
  have := bins_weight h.pairwise
  rwa [Fit.binSum_perm h.inv.perm] at this

/-- **Lemma B for best fit** -/
theorem bf_weight_ge (hok : bfOnline v B items = .ok b) :
    10 * (B * b.lists.length) ≤ binSum (W v B) items + 10 * B := by
  have h := bfOnline_inv2 hok
  have := bins_weight h.pairwise
  rwa [Fit.binSum_perm h.inv.perm] at this

/-- the bound for every loop whose step function is an "almost first fit" step (`Step2`) -/
theorem gen_seventeen_tenths {step : Bins α → α → Bins α} (hstep : ∀ b x, Step2 v B b x (step b x))
    (hok : Fit.genLoop v B step (Bins.new 1) items = .ok b) (hm : Packable B m (items.map v)) :
    10 * b.lists.length ≤ 17 * m + 10 :=
  (gen_inv2 hstep hok).bound hm

/-- first fit uses at most `1.7 · OPT + 1` bins -/
theorem ff_seventeen_tenths_strong (hok : ffOnline v B items = .ok b) (hm : Packable B m (items.map v)) :
    10 * b.lists.length ≤ 17 * m + 10 :=
  (ffOnline_inv2 hok).bound hm

/-- **C09, first fit**: `FF ≤ 1.7 · OPT + 2` (Garey, Graham, Johnson, Yao 1976) -/
theorem ff_seventeen_tenths (hok : ffOnline v B items = .ok b) (hm : Packable B m (items.map v)) :
    10 * b.lists.length ≤ 17 * m + 20 := by
  have := ff_seventeen_tenths_strong hok hm
  omega

/-- best fit uses at most `1.7 · OPT + 1` bins -/
theorem bf_seventeen_tenths_strong (hok : bfOnline v B items = .ok b) (hm : Packable B m (items.map v)) :
    10 * b.lists.length ≤ 17 * m + 10 :=
  (bfOnline_inv2 hok).bound hm

/-- **C09, best fit**: `BF ≤ 1.7 · OPT + 2` -/
theorem bf_seventeen_tenths (hok : bfOnline v B items = .ok b) (hm : Packable B m (items.map v)) :
    10 * b.lists.length ≤ 17 * m + 20 := by
  have := bf_seventeen_tenths_strong hok hm
  omega

/-- in the form of the checked property: at most one bin more than `⌊1.7 · OPT⌋` -/
theorem ff_floor_succ (hok : ffOnline v B items = .ok b) (hm : Packable B m (items.map v)) :
    b.lists.length ≤ 17 * m / 10 + 1 := by
  have := ff_seventeen_tenths_strong hok hm
  omega

theorem bf_floor_succ (hok : bfOnline v B items = .ok b) (hm : Packable B m (items.map v)) :
    b.lists.length ≤ 17 * m / 10 + 1 := by
  have := bf_seventeen_tenths_strong hok hm
  omega

/-! ### the decreasing variants (first fit / best fit on the sorted list) -/

theorem packable_sortDesc (hm : Packable B m (items.map v)) : Packable B m ((sortDesc v items).map v) :=
  LPT43.packable_perm ((Fit.sortDesc_perm v items).map v).symm hm

theorem ffd_seventeen_tenths_strong (hok : ffDecreasing v B items = .ok b)
    (hm : Packable B m (items.map v)) : 10 * b.lists.length ≤ 17 * m + 10 :=
  ff_seventeen_tenths_strong (items := sortDesc v items) hok (packable_sortDesc hm)

/-- **C09, first fit decreasing** (the same bound; `ffDecreasing` is first fit on the sorted list) -/
theorem ffd_seventeen_tenths (hok : ffDecreasing v B items = .ok b) (hm : Packable B m (items.map v)) :
    10 * b.lists.length ≤ 17 * m + 20 := by
  have := ffd_seventeen_tenths_strong hok hm
  omega

theorem bfd_seventeen_tenths_strong (hok : bfDecreasing v B items = .ok b)
    (hm : Packable B m (items.map v)) : 10 * b.lists.length ≤ 17 * m + 10 :=
  bf_seventeen_tenths_strong (items := sortDesc v items) hok (packable_sortDesc hm)

/-- **C09, best fit decreasing** -/
theorem bfd_seventeen_tenths (hok : bfDecreasing v B items = .ok b) (hm : Packable B m (items.map v)) :
    10 * b.lists.length ≤ 17 * m + 20 := by
  have := bfd_seventeen_tenths_strong hok hm
  omega

/-! ### against the oracle `optBins` -/

theorem ok_all_le_ff (hok : ffOnline v B items = .ok b) : ∀ x ∈ items.map v, x ≤ B := by
  simp only [ffOnline, Fit.ffLoop_eq] at hok
  intro a ha
  obtain ⟨x, hx, rfl⟩ := List.mem_map.1 ha
  exact Fit.gen_ok_all_le hok x hx

theorem ok_all_le_bf (hok : bfOnline v B items = .ok b) : ∀ x ∈ items.map v, x ≤ B := by
  simp only [bfOnline, Fit.bfLoop_eq] at hok
  intro a ha
  obtain ⟨x, hx, rfl⟩ := List.mem_map.1 ha
  exact Fit.gen_ok_all_le hok x hx

/-- a successful first-fit run: the oracle has an answer `m`, and `FF ≤ 1.7 · m + 1` -/
theorem ff_seventeen_tenths_opt (hok : ffOnline v B items = .ok b) :
    ∃ m, optBins B (items.map v) = some m ∧ 10 * b.lists.length ≤ 17 * m + 10 := by
  obtain ⟨m, h1, h2, _⟩ := Checkers.optBins_spec (ok_all_le_ff hok)
  exact ⟨m, h1, ff_seventeen_tenths_strong hok h2⟩

theorem bf_seventeen_tenths_opt (hok : bfOnline v B items = .ok b) :
    ∃ m, optBins B (items.map v) = some m ∧ 10 * b.lists.length ≤ 17 * m + 10 := by
  obtain ⟨m, h1, h2, _⟩ := Checkers.optBins_spec (ok_all_le_bf hok)
  exact ⟨m, h1, bf_seventeen_tenths_strong hok h2⟩

/-! ## 6. Non-vacuity -/

/-- the classical bad instance (scaled to `B = 100`): six items each of sizes 15, 34, 51 -/
def badItems : List Nat := [15, 15, 15, 15, 15, 15, 34, 34, 34, 34, 34, 34, 51, 51, 51, 51, 51, 51]

/-- the optimum packs them as six bins `51 + 34 + 15` -/
theorem bad_packable : Packable 100 6 (badItems.map id) :=
  ⟨[0, 1, 2, 3, 4, 5, 0, 1, 2, 3, 4, 5, 0, 1, 2, 3, 4, 5], ⟨rfl, by decide⟩, by decide⟩

/-- first fit needs ten bins -/
theorem bad_ff : ffOnline id 100 badItems = .ok ⟨[90, 68, 68, 68, 51, 51, 51, 51, 51, 51],
    [[15, 15, 15, 15, 15, 15], [34, 34], [34, 34], [34, 34], [51], [51], [51], [51], [51], [51]]⟩ := rfl

/-- and so does best fit -/
theorem bad_bf : bfOnline id 100 badItems = .ok ⟨[90, 68, 68, 68, 51, 51, 51, 51, 51, 51],
    [[15, 15, 15, 15, 15, 15], [34, 34], [34, 34], [34, 34], [51], [51], [51], [51], [51], [51]]⟩ := rfl

/-- Lemma B on this run: `10 · 100 · 10 ≤ weight + 10 · 100` (the weight is `10200 = 17 · 100 · 6`: both lemmas are tight here) -/
example : 10 * (100 * 10) ≤ binSum (W id 100) badItems + 10 * 100 := ff_weight_ge bad_ff
example : binSum (W id 100) badItems = 10200 := by decide
example : 10 * (100 * 10) ≤ binSum (W id 100) badItems + 10 * 100 := bf_weight_ge bad_bf
/-- the optimum's side: `weight ≤ 17 · 100 · 6` -/
example : binSum (W id 100) badItems ≤ 17 * (100 * 6) := packable_weight_le bad_packable

/-- `10 · 10 ≤ 17 · 6 + 10` -/
example : 10 * 10 ≤ 17 * 6 + 10 := ff_seventeen_tenths_strong bad_ff bad_packable
example : 10 * 10 ≤ 17 * 6 + 20 := ff_seventeen_tenths bad_ff bad_packable
example : 10 ≤ 17 * 6 / 10 + 1 := ff_floor_succ bad_ff bad_packable
example : 10 ≤ 17 * 6 / 10 + 1 := bf_floor_succ bad_bf bad_packable
example : 10 * 10 ≤ 17 * 6 + 10 := bf_seventeen_tenths_strong bad_bf bad_packable
example : 10 * 10 ≤ 17 * 6 + 20 := bf_seventeen_tenths bad_bf bad_packable

/-- the decreasing variants find the optimum here -/
theorem bad_ffd : ffDecreasing id 100 badItems = .ok ⟨[100, 100, 100, 100, 100, 100],
    [[51, 34, 15], [51, 34, 15], [51, 34, 15], [51, 34, 15], [51, 34, 15], [51, 34, 15]]⟩ := rfl

theorem bad_bfd : bfDecreasing id 100 badItems = .ok ⟨[100, 100, 100, 100, 100, 100],
    [[51, 34, 15], [51, 34, 15], [51, 34, 15], [51, 34, 15], [51, 34, 15], [51, 34, 15]]⟩ := rfl

example : 10 * 6 ≤ 17 * 6 + 20 := ffd_seventeen_tenths bad_ffd bad_packable
example : 10 * 6 ≤ 17 * 6 + 20 := bfd_seventeen_tenths bad_bfd bad_packable

/-- best fit really violates the first-fit property "no item of a later bin fits into an earlier bin"
    (the `4` in the second bin would fit into the first one), so `TwoFit` is what is needed -/
example : bfOnline id 10 [5, 6, 4, 1] = .ok ⟨[6, 10], [[5, 1], [6, 4]]⟩ := rfl

example : ∃ m, optBins 10 ([4, 4, 4, 6, 6, 6].map id) = some m ∧ 10 * 4 ≤ 17 * m + 10 :=
  ff_seventeen_tenths_opt (b := ⟨[8, 10, 6, 6], [[4, 4], [4, 6], [6], [6]]⟩) rfl

/-- the additive constant `10` (one bin) cannot be improved for the statement as it stands, and the absolute
    bound `#bins ≤ ⌊1.7 · OPT⌋` is false for the model on the empty input: the empty list is packed into
    *one* (empty) bin, while it is `Packable` into `0` bins -/
example : ffOnline id 10 ([] : List Nat) = .ok ⟨[0], [[]]⟩ := rfl
example : Packable 10 0 (([] : List Nat).map id) := ⟨[], ⟨rfl, by simp⟩, by simp [sumsOf]⟩
example : 10 * 1 ≤ 17 * 0 + 10 :=
  ff_seventeen_tenths_strong (v := id) (B := 10) (items := ([] : List Nat)) (b := ⟨[0], [[]]⟩) rfl
    ⟨[], ⟨rfl, by simp⟩, by simp [sumsOf]⟩

end Prtpy.FF17

/-
Axiom audit (`#print axioms`, observed with Lean 4.33.0):

#print axioms Prtpy.FF17.weight_bin_le              -- [propext, Quot.sound]
#print axioms Prtpy.FF17.packable_weight_le         -- [propext, Classical.choice, Quot.sound]
#print axioms Prtpy.FF17.bins_weight                -- [propext, Classical.choice, Quot.sound]
#print axioms Prtpy.FF17.ff_weight_ge               -- [propext, Classical.choice, Quot.sound]
#print axioms Prtpy.FF17.bf_weight_ge               -- [propext, Classical.choice, Quot.sound]
#print axioms Prtpy.FF17.gen_seventeen_tenths       -- [propext, Classical.choice, Quot.sound]
#print axioms Prtpy.FF17.ff_seventeen_tenths        -- [propext, Classical.choice, Quot.sound]
#print axioms Prtpy.FF17.ff_seventeen_tenths_strong -- [propext, Classical.choice, Quot.sound]
#print axioms Prtpy.FF17.bf_seventeen_tenths        -- [propext, Classical.choice, Quot.sound]
#print axioms Prtpy.FF17.bf_seventeen_tenths_strong -- [propext, Classical.choice, Quot.sound]
#print axioms Prtpy.FF17.ffd_seventeen_tenths       -- [propext, Classical.choice, Quot.sound]
#print axioms Prtpy.FF17.bfd_seventeen_tenths       -- [propext, Classical.choice, Quot.sound]
#print axioms Prtpy.FF17.ff_seventeen_tenths_opt    -- [propext, Classical.choice, Quot.sound]
#print axioms Prtpy.FF17.bf_seventeen_tenths_opt    -- [propext, Classical.choice, Quot.sound]
-/
