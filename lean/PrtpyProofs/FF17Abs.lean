/-
  PrtpyProofs.FF17Abs — first fit / best fit: towards the absolute bound `#bins ≤ ⌊1.7 · OPT⌋`
  (Dósa and Sgall 2013 for first fit, 2014 for best fit).  Continues `PrtpyProofs.FF17` (same weight function,
  same invariant `Inv2`, bins related by `Rel`), where `10 · #bins ≤ 17 · m + 10` is proved.

  Delivered (all for a non-empty input; the model returns one empty bin for the empty input, so every bound
  below `+ 10` needs `items ≠ []`, see the examples at the end of FF17.lean):

      ff_seventeen_tenths_plus_9 / _plus_7 / _plus_6   :  10 · #bins ≤ 17 · m + 9 / 7 / 6
      bf_seventeen_tenths_plus_9 / _plus_7 / _plus_6   :  the same for best fit
      gen_seventeen_tenths_plus_7 / _plus_6            :  the same for every `Step2` ("almost first fit") loop
      ff_fifteen_tenths_big / bf_fifteen_tenths_big    :  10 · #bins ≤ 15 · m + 2 · k + 7, where `k = nBig v B items`
                                                          items exceed `B/2` (`+ 6` when `k ≥ 1`)
      ff_seventeen_tenths_plus_4_partial / bf_…        :  10 · #bins ≤ 17 · m + 4   provided `k < m`
      ff_seventeen_tenths_abs_partial / bf_…           :  10 · #bins ≤ 17 · m   provided
                                                          m ≤ 2  ∨  m ≡ 0, 3, 6, 9 (mod 10)  ∨  k + 3 ≤ m
      nBig_le                                          :  k ≤ m
      ff_opt_one, ff_opt_two, ff_opt_three (bf_… too)  :  OPT = 1 ⇒ 1 bin, OPT = 2 ⇒ ≤ 3 bins, OPT = 3 ⇒ ≤ 5 bins

  NOT proved: the absolute bound for every `m` (the requested `ff_seventeen_tenths_abs`).  Open residues:
  `m ≡ 1, 2, 4, 5, 7, 8 (mod 10)` with `m ≥ 4` and more than `m − 3` items above `B/2` (`k ∈ {m − 2, m − 1, m}`; for
  `k = m − 2` only `m ≡ 4, 7`, for `k = m − 1` only `m ≡ 1, 4, 7, 8` remain, by `ff_fifteen_tenths_big`).

  How.  In units of `1/(10·B)`: FF17 shows `10·B·n ≤ W + 10·B` (`W` the total weight, `n` the number of bins) and
  `W ≤ 17·B·m`.  Here the loss `10·B·n − W` is analysed again, with the bins split as in FF17 into *big* bins (an
  item above `B/2`; weight `≥ 12·s + 4·B`), at most one *small* bin `S` (one item `x ≤ B/2`) and the *chain*
  (`≥ 2` items, none above `B/2`), for which `chain_weight` yields a chain bin `L'` with
  `10·B·r + 12·s(L') ≤ W(chain) + 10·B`:
    * no chain: loss `< 4·B` (the small bin and a big bin overflow together);
    * chain, no small bin: loss `≤ 10·B − 12·s(L')`; either `s(L') > B/4` (loss `< 7·B`), or every other bin is
      more than `3/4` full and the *volume* bound `3·(n − 1) ≤ 4·m` is stronger than what is wanted;
    * chain and small bin: loss `< 8·B − bonus(x) − Σ_big (12·s − 6·B)` because `s(L') + x > B`; if `x ≥ B/3` the
      bonus is `B`; if `x < B/3` every big bin is more than `2/3` full and pays `2·B`; if there is no big bin
      at all, no item exceeds `B/2` and the optimum's side improves to `W ≤ 15·B·m`
      (`packable_weight_le_small`; in general `W ≤ 15·B·m + 2·B·k`, `packable_weight_le_count`).
  This is `bins_weight6`; `bins_weight7` is the simpler version behind `+ 7` (Xia–Tan's constant).
  The weight function alone cannot do better than a loss of `7/10` (bins `[sand of total 1/2], [1/2]` and big
  bins `1/2 + ε`), so the remaining residues need the amortisation against the optimum's bins of Dósa–Sgall.
-/
import Prtpy
import PrtpyProofs.Fit
import PrtpyProofs.LPT43
import PrtpyProofs.FF17
import PrtpyProofs.FFD
open Prtpy

namespace Prtpy.FF17Abs

open Prtpy.FF17

variable {α : Type}

section Bins
variable {v : α → Nat} {B : Nat}

/-! ## 1. Refinements of Lemma B -/

/-- a big bin weighs at least `12·s + 4·B` -/
theorem big_weight' : ∀ L : List α, FF17.isBig v B L = true → 12 * binSum v L + 4 * B ≤ binSum (W v B) L
  | [], h => by simp [FF17.isBig] at h
  | x :: L, h => by
    simp only [FF17.isBig, List.any_cons, Bool.or_eq_true, decide_eq_true_eq] at h
    rcases h with h | h
    · have := weight_ge (v := v) (B := B) L
      simp only [Fit.binSum_cons, W, wt, bonus, if_pos h] at this ⊢
      omega
    · have := big_weight' L h
      simp only [Fit.binSum_cons, W, wt]
      omega

/-- the big bins: all are paid for, and any one of them can be counted with `12·s + 4·B` instead -/
theorem big_total' : ∀ Ls : List (List α), (∀ L ∈ Ls, FF17.isBig v B L = true) → ∀ L ∈ Ls,
    10 * (B * Ls.length) + 12 * binSum v L + 4 * B ≤ binSum (W v B) Ls.flatten + 10 * B
  | [], _, L, hL => by simp at hL
  | M :: Ls, h, L, hL => by
    simp only [List.length_cons, List.flatten_cons, Fit.binSum_append, Nat.mul_succ]
    rcases List.mem_cons.1 hL with rfl | hL
    · have h1 := big_weight' L (h L (by simp))
      have h2 := big_total (v := v) (B := B) Ls (fun M hM => h M (List.mem_cons_of_mem _ hM))
      omega
    · have h1 := big_weight M (h M (by simp))
      have h2 := big_total' Ls (fun M hM => h M (List.mem_cons_of_mem _ hM)) L hL
      omega

/-- bins that are all at least `5/6` full -/
theorem vol_all : ∀ Ls : List (List α), (∀ M ∈ Ls, 5 * B ≤ 6 * binSum v M) →
    5 * (B * Ls.length) ≤ 6 * binSum v Ls.flatten
  | [], _ => by simp
  | M :: Ls, h => by
    have h1 := h M (by simp)
    have h2 := vol_all Ls (fun M hM => h M (List.mem_cons_of_mem _ hM))
    simp only [List.length_cons, List.flatten_cons, Fit.binSum_append, Nat.mul_succ]
    omega

/-- bins that pairwise overflow, each at least `5/6` full or at most `1/6` full: all but one are `5/6` full -/
theorem vol_one : ∀ Ls : List (List α), (∀ M ∈ Ls, 5 * B ≤ 6 * binSum v M ∨ 6 * binSum v M ≤ B) →
    Ls.Pairwise (fun L M => B < binSum v L + binSum v M) →
    5 * (B * Ls.length) ≤ 6 * binSum v Ls.flatten + 5 * B
  | [], _, _ => by simp
  | M :: Ls, h, hp => by
    rw [List.pairwise_cons] at hp
    simp only [List.length_cons, List.flatten_cons, Fit.binSum_append, Nat.mul_succ]
    rcases h M (by simp) with h1 | h1
    · have h2 := vol_one Ls (fun M hM => h M (List.mem_cons_of_mem _ hM)) hp.2
      omega
    · have h2 := vol_all (v := v) (B := B) Ls (fun M' hM' => by have := hp.1 M' hM'; omega)
      omega

theorem pairwise_rel_sum {Ls : List (List α)} (hp : Ls.Pairwise (Rel v B)) :
    Ls.Pairwise (fun L M => B < binSum v L + binSum v M) :=
  hp.imp (fun h => rel_sum h)

/-- **Lemma B, refined**: with at least two bins, either fewer than `8/10` of a bin is lost, or all bins but one
    are at least `5/6` full -/
theorem bins_weight7 {Ls : List (List α)} (hp : Ls.Pairwise (Rel v B)) (h2 : 2 ≤ Ls.length) (hB : 0 < B) :
    10 * (B * Ls.length) + 1 ≤ binSum (W v B) Ls.flatten + 8 * B ∨
    5 * (B * Ls.length) ≤ 6 * binSum v Ls.flatten + 5 * B := by
  obtain ⟨hlen, hw⟩ := split_kinds (v := v) (B := B) (W v B) Ls
  have hbigcl : ∀ L ∈ Ls.filter (kBig (v := v) (B := B)), FF17.isBig v B L = true :=
    fun L hL => by simpa [kBig] using (List.mem_filter.1 hL).2
  have hbig := big_total (v := v) (B := B) (Ls.filter (kBig (v := v) (B := B))) hbigcl
  have hbig' := big_total' (v := v) (B := B) (Ls.filter (kBig (v := v) (B := B))) hbigcl
  have hsm := small_count (v := v) (B := B) (Ls.filter (kSmall (v := v) (B := B)))
    (fun L hL => by simpa [kSmall] using (List.mem_filter.1 hL).2) (hp.filter _)
  have hchcl : ∀ L ∈ Ls.filter (kChain (v := v) (B := B)), FF17.isBig v B L = false ∧ 2 ≤ L.length :=
    fun L hL => by simpa [kChain] using (List.mem_filter.1 hL).2
  have hchp : (Ls.filter (kChain (v := v) (B := B))).Pairwise (Rel v B) := hp.filter _
  have hbgmem : ∀ L ∈ Ls.filter (kBig (v := v) (B := B)), L ∈ Ls ∧ kBig (v := v) (B := B) L = true :=
    fun L hL => List.mem_filter.1 hL
  have hsmmem : ∀ L ∈ Ls.filter (kSmall (v := v) (B := B)), L ∈ Ls ∧ kSmall (v := v) (B := B) L = true :=
    fun L hL => List.mem_filter.1 hL
  have hchmem : ∀ L ∈ Ls.filter (kChain (v := v) (B := B)), L ∈ Ls ∧ kChain (v := v) (B := B) L = true :=
    fun L hL => List.mem_filter.1 hL
  generalize Ls.filter (kBig (v := v) (B := B)) = bg at *
  generalize Ls.filter (kSmall (v := v) (B := B)) = sm at *
  generalize Ls.filter (kChain (v := v) (B := B)) = ch at *
  by_cases hch : ch = []
  · subst hch
    left
    rw [hlen] at h2
    rw [hlen, hw]
    simp only [Nat.mul_add]
    match sm, hsm, hsmmem, h2 with
    | [], _, _, _ =>
      simp only [List.length_nil, List.flatten_nil]
      simp only [binSum, List.map_nil, sumL] at *
      omega
    | [S], _, hsmmem, h2 =>
      match bg, hbig', hbgmem, h2 with
      | [], _, _, h2 => simp at h2
      | L :: bg', hbig', hbgmem, _ =>
        have hS := hsmmem S (by simp)
        have hL := hbgmem L (by simp)
        have hne : S ≠ L := by
          rintro rfl
          have h1 := hS.2
          have h3 := hL.2
          simp only [kSmall, kBig, Bool.and_eq_true, Bool.not_eq_true'] at h1 h3
          rw [h3] at h1
          simp at h1
        have hsum := pairwise_sum hp hS.1 hL.1 hne
        have hb := hbig' L (by simp)
        have hwS := weight_ge (v := v) (B := B) S
        simp only [List.length_cons, List.length_nil, List.flatten_cons, List.flatten_nil, List.append_nil,
          Fit.binSum_append, Nat.mul_succ] at hb ⊢
        simp only [binSum, List.map_nil, sumL] at *
        omega
  · obtain ⟨L', hL', hcw⟩ := chain_weight ch hch hchcl hchp
    match sm, hsm, hsmmem with
    | [], _, _ =>
      by_cases ht : B < 6 * binSum v L'
      · left
        rw [hlen, hw]
        simp only [Nat.mul_add]
        simp only [List.length_nil, List.flatten_nil]
        simp only [binSum, List.map_nil, sumL] at *
        omega
      · right
        refine vol_one Ls (fun M hM => ?_) (pairwise_rel_sum hp)
        by_cases hML : M = L'
        · subst hML; right; omega
        · left
          have := pairwise_sum hp hM (hchmem L' hL').1 hML
          omega
    | [S], _, hsmmem =>
      left
      rw [hlen, hw]
      simp only [Nat.mul_add]
      have hS := hsmmem S (by simp)
      have hL := hchmem L' hL'
      have hne : S ≠ L' := by
        rintro rfl
        have h1 := hS.2
        have h3 := hL.2
        simp only [kSmall, kChain, Bool.and_eq_true, decide_eq_true_eq] at h1 h3
        omega
      have := pairwise_sum hp hS.1 hL.1 hne
      have hwS := weight_ge (v := v) (B := B) S
      simp only [List.length_cons, List.length_nil, List.flatten_cons, List.flatten_nil, List.append_nil]
      omega

/-! ### the finer case analysis behind `+ 6` -/

/-- bins that are all at least `3/4` full -/
theorem vol34_all : ∀ Ls : List (List α), (∀ M ∈ Ls, 3 * B ≤ 4 * binSum v M) →
    3 * (B * Ls.length) ≤ 4 * binSum v Ls.flatten
  | [], _ => by simp
  | M :: Ls, h => by
    have h1 := h M (by simp)
    have h2 := vol34_all Ls (fun M hM => h M (List.mem_cons_of_mem _ hM))
    simp only [List.length_cons, List.flatten_cons, Fit.binSum_append, Nat.mul_succ]
    omega

theorem vol34_one : ∀ Ls : List (List α), (∀ M ∈ Ls, 3 * B ≤ 4 * binSum v M ∨ 4 * binSum v M ≤ B) →
    Ls.Pairwise (fun L M => B < binSum v L + binSum v M) →
    3 * (B * Ls.length) ≤ 4 * binSum v Ls.flatten + 3 * B
  | [], _, _ => by simp
  | M :: Ls, h, hp => by
    rw [List.pairwise_cons] at hp
    simp only [List.length_cons, List.flatten_cons, Fit.binSum_append, Nat.mul_succ]
    rcases h M (by simp) with h1 | h1
    · have h2 := vol34_one Ls (fun M hM => h M (List.mem_cons_of_mem _ hM)) hp.2
      omega
    · have h2 := vol34_all (v := v) (B := B) Ls (fun M' hM' => by have := hp.1 M' hM'; omega)
      omega

/-- big bins that are at least `2/3` full weigh at least `12/10` each -/
theorem big_total12 : ∀ Ls : List (List α), (∀ L ∈ Ls, FF17.isBig v B L = true ∧ 2 * B ≤ 3 * binSum v L) →
    12 * (B * Ls.length) ≤ binSum (W v B) Ls.flatten
  | [], _ => by simp
  | M :: Ls, h => by
    have h1 := big_weight' M (h M (by simp)).1
    have h1' := (h M (by simp)).2
    have h2 := big_total12 Ls (fun M hM => h M (List.mem_cons_of_mem _ hM))
    simp only [List.length_cons, List.flatten_cons, Fit.binSum_append, Nat.mul_succ]
    omega

/-- **Lemma B, refined once more**: with at least two bins, either fewer than `7/10` of a bin is lost, or all
    bins but one are at least `3/4` full, or no bin is big and fewer than `8/10` of a bin is lost -/
theorem bins_weight6 {Ls : List (List α)} (hp : Ls.Pairwise (Rel v B)) (h2 : 2 ≤ Ls.length) (hB : 0 < B) :
    10 * (B * Ls.length) + 1 ≤ binSum (W v B) Ls.flatten + 7 * B ∨
    3 * (B * Ls.length) ≤ 4 * binSum v Ls.flatten + 3 * B ∨
    ((∀ L ∈ Ls, FF17.isBig v B L = false) ∧
      10 * (B * Ls.length) + 1 ≤ binSum (W v B) Ls.flatten + 8 * B) := by
  obtain ⟨hlen, hw⟩ := split_kinds (v := v) (B := B) (W v B) Ls
  have hbigcl : ∀ L ∈ Ls.filter (kBig (v := v) (B := B)), FF17.isBig v B L = true :=
    fun L hL => by simpa [kBig] using (List.mem_filter.1 hL).2
  have hbig := big_total (v := v) (B := B) (Ls.filter (kBig (v := v) (B := B))) hbigcl
  have hbig' := big_total' (v := v) (B := B) (Ls.filter (kBig (v := v) (B := B))) hbigcl
  have hsm := small_count (v := v) (B := B) (Ls.filter (kSmall (v := v) (B := B)))
    (fun L hL => by simpa [kSmall] using (List.mem_filter.1 hL).2) (hp.filter _)
  have hchcl : ∀ L ∈ Ls.filter (kChain (v := v) (B := B)), FF17.isBig v B L = false ∧ 2 ≤ L.length :=
    fun L hL => by simpa [kChain] using (List.mem_filter.1 hL).2
  have hchp : (Ls.filter (kChain (v := v) (B := B))).Pairwise (Rel v B) := hp.filter _
  have hbgmem : ∀ L ∈ Ls.filter (kBig (v := v) (B := B)), L ∈ Ls ∧ kBig (v := v) (B := B) L = true :=
    fun L hL => List.mem_filter.1 hL
  have hsmmem : ∀ L ∈ Ls.filter (kSmall (v := v) (B := B)), L ∈ Ls ∧ kSmall (v := v) (B := B) L = true :=
    fun L hL => List.mem_filter.1 hL
  have hchmem : ∀ L ∈ Ls.filter (kChain (v := v) (B := B)), L ∈ Ls ∧ kChain (v := v) (B := B) L = true :=
    fun L hL => List.mem_filter.1 hL
  have hbgnil : Ls.filter (kBig (v := v) (B := B)) = [] → ∀ L ∈ Ls, FF17.isBig v B L = false := by
    intro h L hL
    have := (List.filter_eq_nil_iff.1 h) L hL
    simpa [kBig] using this
  generalize Ls.filter (kBig (v := v) (B := B)) = bg at *
  generalize Ls.filter (kSmall (v := v) (B := B)) = sm at *
  generalize Ls.filter (kChain (v := v) (B := B)) = ch at *
  by_cases hch : ch = []
  · subst hch
    left
    rw [hlen] at h2
    rw [hlen, hw]
    simp only [Nat.mul_add]
    match sm, hsm, hsmmem, h2 with
    | [], _, _, _ =>
      simp only [List.length_nil, List.flatten_nil]
      simp only [binSum, List.map_nil, sumL] at *
      omega
    | [S], _, hsmmem, h2 =>
      match bg, hbig', hbgmem, h2 with
      | [], _, _, h2 => simp at h2
      | L :: bg', hbig', hbgmem, _ =>
        have hS := hsmmem S (by simp)
        have hL := hbgmem L (by simp)
        have hne : S ≠ L := by
          rintro rfl
          have h1 := hS.2
          have h3 := hL.2
          simp only [kSmall, kBig, Bool.and_eq_true, Bool.not_eq_true'] at h1 h3
          rw [h3] at h1
          simp at h1
        have hsum := pairwise_sum hp hS.1 hL.1 hne
        have hb := hbig' L (by simp)
        have hwS := weight_ge (v := v) (B := B) S
        simp only [List.length_cons, List.length_nil, List.flatten_cons, List.flatten_nil, List.append_nil,
          Fit.binSum_append, Nat.mul_succ] at hb ⊢
        simp only [binSum, List.map_nil, sumL] at *
        omega
  · obtain ⟨L', hL', hcw⟩ := chain_weight ch hch hchcl hchp
    match sm, hsm, hsmmem with
    | [], _, _ =>
      by_cases ht : B < 4 * binSum v L'
      · left
        rw [hlen, hw]
        simp only [Nat.mul_add]
        simp only [List.length_nil, List.flatten_nil]
        simp only [binSum, List.map_nil, sumL] at *
        omega
      · right; left
        refine vol34_one Ls (fun M hM => ?_) (pairwise_rel_sum hp)
        by_cases hML : M = L'
        · subst hML; right; omega
        · left
          have := pairwise_sum hp hM (hchmem L' hL').1 hML
          omega
    | [S], _, hsmmem =>
      have hS := hsmmem S (by simp)
      have hL := hchmem L' hL'
      have hne : S ≠ L' := by
        rintro rfl
        have h1 := hS.2
        have h3 := hL.2
        simp only [kSmall, kChain, Bool.and_eq_true, decide_eq_true_eq] at h1 h3
        omega
      have hsum := pairwise_sum hp hS.1 hL.1 hne
      -- the single item of `S`
      have hSk := hS.2
      simp only [kSmall, Bool.and_eq_true, Bool.not_eq_true', decide_eq_true_eq] at hSk
      have hwS : 12 * binSum v S + min B (6 * binSum v S - B) ≤ binSum (W v B) S := by
        match S, hSk with
        | [], _ => simp [binSum, sumL]
        | [x], hSk =>
          have hx := not_big hSk.1 x (by simp)
          simp only [binSum, List.map_cons, List.map_nil, sumL, W, wt, bonus, if_neg (Nat.not_lt.2 hx)]
          omega
        | _ :: _ :: _, hSk => simp at hSk
      -- every big bin overflows with `S`
      have hbgS : ∀ L ∈ bg, B < binSum v L + binSum v S := by
        intro L hL
        have hLm := hbgmem L hL
        have hneL : L ≠ S := by
          rintro rfl
          have h1 := hS.2
          have h3 := hLm.2
          simp only [kSmall, kBig, Bool.and_eq_true, Bool.not_eq_true'] at h1 h3
          rw [h3] at h1
          simp at h1
        exact pairwise_sum hp hLm.1 hS.1 hneL
      by_cases hx3 : B ≤ 3 * binSum v S
      · left
        rw [hlen, hw]
        simp only [Nat.mul_add]
        simp only [List.length_cons, List.length_nil, List.flatten_cons, List.flatten_nil, List.append_nil]
        omega
      · have hbig12 := big_total12 (v := v) (B := B) bg
          (fun L hL => ⟨hbigcl L hL, by have := hbgS L hL; omega⟩)
        match bg, hbig, hbig12, hbgnil with
        | [], _, _, hbgnil =>
          right; right
          refine ⟨hbgnil rfl, ?_⟩
          rw [hlen, hw]
          simp only [Nat.mul_add]
          simp only [List.length_cons, List.length_nil, List.flatten_cons, List.flatten_nil, List.append_nil]
          simp only [binSum, List.map_nil, sumL] at *
          omega
        | L :: bg', hbig, hbig12, _ =>
          left
          rw [hlen, hw]
          simp only [Nat.mul_add]
          simp only [List.length_cons, List.length_nil, List.flatten_cons, List.flatten_nil, List.append_nil,
            Fit.binSum_append, Nat.mul_succ] at hbig hbig12 ⊢
          omega

end Bins

/-! ## 2. The bound `1.7·OPT + 0.7` for every run that keeps the invariant -/

/-- with capacity 0 there is a single bin -/
theorem one_bin_of_zero {v : α → Nat} {B : Nat} {items : List α} {b : Bins α} (h : Inv2 v B items b)
    (hB : B = 0) : b.lists.length ≤ 1 := by
  have hp := h.pairwise
  match hL : b.lists, hp with
  | [], _ => simp
  | [_], _ => simp
  | L :: L' :: rest, hp =>
    exfalso
    have hr := rel_sum ((List.pairwise_cons.1 hp).1 L' (by simp))
    have h1 : binSum v L ≤ B := h.inv.le _ (by rw [h.inv.cons, hL]; simp)
    have h2 : binSum v L' ≤ B := h.inv.le _ (by rw [h.inv.cons, hL]; simp)
    omega

theorem inv2_bound7 {v : α → Nat} {B m : Nat} {items : List α} {b : Bins α} (h : Inv2 v B items b)
    (hne : items ≠ []) (hm : Packable B m (items.map v)) : 10 * b.lists.length ≤ 17 * m + 7 := by
  have hm1 : 1 ≤ m := FFD.packable_pos hm (by simpa using hne)
  have hp := h.pairwise
  by_cases hB : B = 0
  · have := one_bin_of_zero h hB
    omega
  · by_cases h2 : 2 ≤ b.lists.length
    · have hO := packable_weight_le hm
      have hV : binSum v items ≤ m * B := Fit.packing_lower_bound hm
      rcases bins_weight7 hp h2 (Nat.pos_of_ne_zero hB) with hW | hW
      · rw [Fit.binSum_perm h.inv.perm] at hW
        have h1 : B * (10 * b.lists.length) < B * (17 * m + 8) := by
          rw [Nat.mul_left_comm, Nat.mul_add, Nat.mul_left_comm B 17 m]
          omega
        have := Nat.lt_of_mul_lt_mul_left h1
        omega
      · rw [Fit.binSum_perm h.inv.perm] at hW
        have h1 : B * (5 * b.lists.length) ≤ B * (6 * m + 5) := by
          rw [Nat.mul_left_comm, Nat.mul_add, Nat.mul_left_comm B 6 m, Nat.mul_comm B m]
          omega
        have := Nat.le_of_mul_le_mul_left h1 (Nat.pos_of_ne_zero hB)
        omega
    · omega

/-! ## 3. The bound `1.7·OPT + 0.6` -/

/-- values of at most `B/2` each: the bonus is at most `3·total` -/
theorem bonusL_small_items (B : Nat) : ∀ l : List Nat, (∀ a ∈ l, 2 * a ≤ B) → bonusL B l ≤ 3 * sumL l
  | [], _ => by simp [bonusL_nil, sumL]
  | a :: l, h => by
    have ha := h a (by simp)
    have ih := bonusL_small_items B l (fun c hc => h c (List.mem_cons_of_mem _ hc))
    simp only [bonusL_cons, sumL, bonus, if_neg (Nat.not_lt.2 ha)]
    omega

/-- **Lemma A without big values**: values of at most `B/2` each that fit into one bin weigh at most `15/10` -/
theorem weight_bin_le_small {B : Nat} {l : List Nat} (h : sumL l ≤ B) (hs : ∀ a ∈ l, 2 * a ≤ B) :
    sumL (l.map (wt B)) ≤ 15 * B := by
  have := bonusL_small_items B l hs
  rw [sumL_map_wt]
  omega

theorem groups_weight_le_small (B : Nat) : ∀ Q : List (List Nat), (∀ l ∈ Q, sumL l ≤ B) →
    (∀ l ∈ Q, ∀ a ∈ l, 2 * a ≤ B) → binSum (wt B) Q.flatten ≤ 15 * (B * Q.length)
  | [], _, _ => by simp [binSum, sumL]
  | l :: Q, h, hs => by
    have h1 : binSum (wt B) l ≤ 15 * B := weight_bin_le_small (h l List.mem_cons_self) (hs l List.mem_cons_self)
    have h2 := groups_weight_le_small B Q (fun l' hl' => h l' (List.mem_cons_of_mem _ hl'))
      (fun l' hl' => hs l' (List.mem_cons_of_mem _ hl'))
    simp only [List.flatten_cons, Fit.binSum_append, List.length_cons, Nat.mul_succ]
    omega

/-- **the optimum's side without big items**: items of at most `B/2` each that can be packed into `m` bins weigh
    at most `15·B·m` -/
theorem packable_weight_le_small {v : α → Nat} {B m : Nat} {items : List α}
    (hs : ∀ x ∈ items, 2 * v x ≤ B) (hm : Packable B m (items.map v)) :
    binSum (W v B) items ≤ 15 * (B * m) := by
  obtain ⟨Q, hk, hp, hT⟩ := LPT43.packable_partition hm
  have h1 : binSum (W v B) items = binSum (wt B) (items.map v) := by
    simp only [binSum, List.map_map]; rfl
  rw [h1, ← Fit.binSum_perm hp, ← hk]
  refine groups_weight_le_small B Q hT (fun l hl a ha => ?_)
  have : a ∈ items.map v := hp.mem_iff.1 (List.mem_flatten.2 ⟨l, hl, ha⟩)
  obtain ⟨x, hx, rfl⟩ := List.mem_map.1 this
  exact hs x hx

example : binSum (W id 10) [5, 5, 4, 3, 3] ≤ 15 * (10 * 2) :=
  packable_weight_le_small (v := id) (by decide) ⟨[0, 0, 1, 1, 1], ⟨rfl, by decide⟩, by decide⟩

theorem inv2_bound6 {v : α → Nat} {B m : Nat} {items : List α} {b : Bins α} (h : Inv2 v B items b)
    (hne : items ≠ []) (hm : Packable B m (items.map v)) : 10 * b.lists.length ≤ 17 * m + 6 := by
  have hm1 : 1 ≤ m := FFD.packable_pos hm (by simpa using hne)
  have hp := h.pairwise
  by_cases hB : B = 0
  · have := one_bin_of_zero h hB
    omega
  · by_cases h2 : 2 ≤ b.lists.length
    · have hO := packable_weight_le hm
      have hV : binSum v items ≤ m * B := Fit.packing_lower_bound hm
      have hm2 : 2 ≤ m := by
        have := Fit.anyfit_lt_two_opt h.inv.isPacking h.inv.af h2 hm
        omega
      rcases bins_weight6 hp h2 (Nat.pos_of_ne_zero hB) with hW | hW | ⟨hnb, hW⟩
      · rw [Fit.binSum_perm h.inv.perm] at hW
        have h1 : B * (10 * b.lists.length) < B * (17 * m + 7) := by
          rw [Nat.mul_left_comm, Nat.mul_add, Nat.mul_left_comm B 17 m]
          omega
        have := Nat.lt_of_mul_lt_mul_left h1
        omega
      · rw [Fit.binSum_perm h.inv.perm] at hW
        have h1 : B * (3 * b.lists.length) ≤ B * (4 * m + 3) := by
          rw [Nat.mul_left_comm, Nat.mul_add, Nat.mul_left_comm B 4 m, Nat.mul_comm B m]
          omega
        have := Nat.le_of_mul_le_mul_left h1 (Nat.pos_of_ne_zero hB)
        omega
      · rw [Fit.binSum_perm h.inv.perm] at hW
        have hs : ∀ x ∈ items, 2 * v x ≤ B := by
          intro x hx
          obtain ⟨L, hL, hxL⟩ := List.mem_flatten.1 (h.inv.perm.mem_iff.2 hx)
          exact not_big (hnb L hL) x hxL
        have hO' := packable_weight_le_small hs hm
        have h1 : B * (10 * b.lists.length) < B * (15 * m + 8) := by
          rw [Nat.mul_left_comm, Nat.mul_add, Nat.mul_left_comm B 15 m]
          omega
        have := Nat.lt_of_mul_lt_mul_left h1
        omega
    · omega


/-! ## 4. Counting the big items: `1.5·OPT + 0.2·k + 0.7`, where `k` items exceed `B/2` -/

/-- the number of items above `B/2` -/
def nBig (v : α → Nat) (B : Nat) (items : List α) : Nat := items.countP (fun x => decide (B < 2 * v x))

/-- **Lemma A, counting the big values**: `15/10` plus `2/10` for every value above `B/2` -/
theorem weight_bin_le_count {B : Nat} {l : List Nat} (h : sumL l ≤ B) :
    sumL (l.map (wt B)) ≤ 15 * B + 2 * (B * l.countP (fun a => decide (B < 2 * a))) := by
  by_cases hc : l.countP (fun a => decide (B < 2 * a)) = 0
  · have hs : ∀ a ∈ l, 2 * a ≤ B := by
      intro a ha
      have := (List.countP_eq_zero.1 hc) a ha
      simp only [decide_eq_true_eq] at this
      omega
    have := weight_bin_le_small h hs
    omega
  · have h1 : B * 1 ≤ B * l.countP (fun a => decide (B < 2 * a)) := Nat.mul_le_mul_left B (by omega)
    have := weight_bin_le h
    omega

theorem groups_weight_le_count (B : Nat) : ∀ Q : List (List Nat), (∀ l ∈ Q, sumL l ≤ B) →
    binSum (wt B) Q.flatten ≤ 15 * (B * Q.length) + 2 * (B * Q.flatten.countP (fun a => decide (B < 2 * a)))
  | [], _ => by simp [binSum, sumL]
  | l :: Q, h => by
    have h1 : binSum (wt B) l ≤ _ := weight_bin_le_count (h l List.mem_cons_self)
    have h2 := groups_weight_le_count B Q (fun l' hl' => h l' (List.mem_cons_of_mem _ hl'))
    simp only [List.flatten_cons, Fit.binSum_append, List.length_cons, Nat.mul_succ, List.countP_append,
      Nat.mul_add] at h1 h2 ⊢
    omega

/-- **the optimum's side, counting the big items** -/
theorem packable_weight_le_count {v : α → Nat} {B m : Nat} {items : List α}
    (hm : Packable B m (items.map v)) :
    binSum (W v B) items ≤ 15 * (B * m) + 2 * (B * nBig v B items) := by
  obtain ⟨Q, hk, hp, hT⟩ := LPT43.packable_partition hm
  have h1 : binSum (W v B) items = binSum (wt B) (items.map v) := by
    simp only [binSum, List.map_map]; rfl
  have h2 : nBig v B items = (items.map v).countP (fun a => decide (B < 2 * a)) := by
    simp only [nBig, List.countP_map]; rfl
  rw [h1, h2, ← Fit.binSum_perm hp, ← hk, ← hp.countP_eq]
  exact groups_weight_le_count B Q hT

example : binSum (W id 10) [6, 5, 4, 3] ≤ 15 * (10 * 2) + 2 * (10 * nBig id 10 [6, 5, 4, 3]) :=
  packable_weight_le_count (v := id) ⟨[0, 1, 0, 1], ⟨rfl, by decide⟩, by decide⟩

/-- values that fill at most half a bin: none exceeds `B/2` -/
theorem countP_big_half (B : Nat) : ∀ l : List Nat, 2 * sumL l ≤ B →
    l.countP (fun a => decide (B < 2 * a)) = 0
  | [], _ => rfl
  | a :: l, h => by
    simp only [sumL] at h
    have ih := countP_big_half B l (by omega)
    have ha : ¬ B < 2 * a := by omega
    simp [ih, ha]

/-- a bin holds at most one value above `B/2` -/
theorem countP_big_le_one (B : Nat) : ∀ l : List Nat, sumL l ≤ B →
    l.countP (fun a => decide (B < 2 * a)) ≤ 1
  | [], _ => by simp
  | a :: l, h => by
    simp only [sumL] at h
    by_cases ha : B < 2 * a
    · have := countP_big_half B l (by omega)
      simp [this, ha]
    · have := countP_big_le_one B l (by omega)
      simp [ha]
      exact this

theorem groups_count_le (B : Nat) : ∀ Q : List (List Nat), (∀ l ∈ Q, sumL l ≤ B) →
    Q.flatten.countP (fun a => decide (B < 2 * a)) ≤ Q.length
  | [], _ => by simp
  | l :: Q, h => by
    have h1 := countP_big_le_one B l (h l List.mem_cons_self)
    have h2 := groups_count_le B Q (fun l' hl' => h l' (List.mem_cons_of_mem _ hl'))
    simp only [List.flatten_cons, List.countP_append, List.length_cons]
    omega

/-- at most `m` items exceed `B/2` when the items fit into `m` bins -/
theorem nBig_le {v : α → Nat} {B m : Nat} {items : List α} (hm : Packable B m (items.map v)) :
    nBig v B items ≤ m := by
  obtain ⟨Q, hk, hp, hT⟩ := LPT43.packable_partition hm
  have h2 : nBig v B items = (items.map v).countP (fun a => decide (B < 2 * a)) := by
    simp only [nBig, List.countP_map]; rfl
  rw [h2, ← hk, ← hp.countP_eq]
  exact groups_count_le B Q hT

example : nBig id 100 badItems ≤ 6 := nBig_le bad_packable

theorem inv2_bound_big {v : α → Nat} {B m : Nat} {items : List α} {b : Bins α} (h : Inv2 v B items b)
    (hne : items ≠ []) (hm : Packable B m (items.map v)) :
    10 * b.lists.length ≤ 15 * m + 2 * nBig v B items + 7 ∧
    (1 ≤ nBig v B items → 10 * b.lists.length ≤ 15 * m + 2 * nBig v B items + 6) := by
  have hm1 : 1 ≤ m := FFD.packable_pos hm (by simpa using hne)
  have hp := h.pairwise
  by_cases hB : B = 0
  · have := one_bin_of_zero h hB
    omega
  · by_cases h2 : 2 ≤ b.lists.length
    · have hO := packable_weight_le_count hm
      have hV : binSum v items ≤ m * B := Fit.packing_lower_bound hm
      have hm2 : 2 ≤ m := by
        have := Fit.anyfit_lt_two_opt h.inv.isPacking h.inv.af h2 hm
        omega
      rcases bins_weight6 hp h2 (Nat.pos_of_ne_zero hB) with hW | hW | ⟨hnb, hW⟩
      · rw [Fit.binSum_perm h.inv.perm] at hW
        have h1 : B * (10 * b.lists.length) < B * (15 * m + 2 * nBig v B items + 7) := by
          rw [Nat.mul_left_comm, Nat.mul_add, Nat.mul_add, Nat.mul_left_comm B 15 m,
            Nat.mul_left_comm B 2 (nBig v B items)]
          omega
        have := Nat.lt_of_mul_lt_mul_left h1
        omega
      · rw [Fit.binSum_perm h.inv.perm] at hW
        have h1 : B * (3 * b.lists.length) ≤ B * (4 * m + 3) := by
          rw [Nat.mul_left_comm, Nat.mul_add, Nat.mul_left_comm B 4 m, Nat.mul_comm B m]
          omega
        have := Nat.le_of_mul_le_mul_left h1 (Nat.pos_of_ne_zero hB)
        omega
      · rw [Fit.binSum_perm h.inv.perm] at hW
        have hs : ∀ x ∈ items, 2 * v x ≤ B := by
          intro x hx
          obtain ⟨L, hL, hxL⟩ := List.mem_flatten.1 (h.inv.perm.mem_iff.2 hx)
          exact not_big (hnb L hL) x hxL
        have hk0 : nBig v B items = 0 := by
          rw [nBig, List.countP_eq_zero]
          intro x hx
          have := hs x hx
          simp only [decide_eq_true_eq]
          omega
        have h1 : B * (10 * b.lists.length) < B * (15 * m + 2 * nBig v B items + 8) := by
          rw [Nat.mul_left_comm, Nat.mul_add, Nat.mul_add, Nat.mul_left_comm B 15 m,
            Nat.mul_left_comm B 2 (nBig v B items)]
          omega
        have := Nat.lt_of_mul_lt_mul_left h1
        omega
    · omega

/-- **the absolute bound, partial**: for `OPT ≤ 2`, for `OPT ≡ 0, 3, 6, 9 (mod 10)`, and when at most `OPT − 3`
    items exceed `B/2` -/
theorem inv2_abs_partial {v : α → Nat} {B m : Nat} {items : List α} {b : Bins α} (h : Inv2 v B items b)
    (hne : items ≠ []) (hm : Packable B m (items.map v))
    (hside : m ≤ 2 ∨ m % 10 = 0 ∨ m % 10 = 3 ∨ m % 10 = 6 ∨ m % 10 = 9 ∨ nBig v B items + 3 ≤ m) :
    10 * b.lists.length ≤ 17 * m := by
  have hm1 : 1 ≤ m := FFD.packable_pos hm (by simpa using hne)
  have h6 := inv2_bound6 h hne hm
  have hb := inv2_bound_big h hne hm
  by_cases h2 : 2 ≤ b.lists.length
  · have := Fit.anyfit_lt_two_opt h.inv.isPacking h.inv.af h2 hm
    omega
  · omega

/-- `+ 0.4` as soon as fewer than `m` items exceed `B/2` (some optimal bin has no such item) -/
theorem inv2_plus4 {v : α → Nat} {B m : Nat} {items : List α} {b : Bins α} (h : Inv2 v B items b)
    (hne : items ≠ []) (hm : Packable B m (items.map v)) (hk : nBig v B items < m) :
    10 * b.lists.length ≤ 17 * m + 4 := by
  have hb := inv2_bound_big h hne hm
  by_cases h2 : m ≤ 2
  · have := inv2_abs_partial h hne hm (Or.inl h2)
    omega
  · omega

variable {v : α → Nat} {B m : Nat} {items : List α} {b : Bins α}

/-! ## 5. The theorems -/

/-- the bound `+ 0.7` for every loop whose step function is an "almost first fit" step (`Step2`) -/
theorem gen_seventeen_tenths_plus_7 {step : Bins α → α → Bins α} (hstep : ∀ b x, Step2 v B b x (step b x))
    (hne : items ≠ []) (hok : Fit.genLoop v B step (Bins.new 1) items = .ok b)
    (hm : Packable B m (items.map v)) : 10 * b.lists.length ≤ 17 * m + 7 :=
  inv2_bound7 (gen_inv2 hstep hok) hne hm

/-- the bound `+ 0.6` for every "almost first fit" loop -/
theorem gen_seventeen_tenths_plus_6 {step : Bins α → α → Bins α} (hstep : ∀ b x, Step2 v B b x (step b x))
    (hne : items ≠ []) (hok : Fit.genLoop v B step (Bins.new 1) items = .ok b)
    (hm : Packable B m (items.map v)) : 10 * b.lists.length ≤ 17 * m + 6 :=
  inv2_bound6 (gen_inv2 hstep hok) hne hm

/-- **first fit uses at most `1.7 · OPT + 0.7` bins** (Xia and Tan 2010) -/
theorem ff_seventeen_tenths_plus_7 (hne : items ≠ []) (hok : ffOnline v B items = .ok b)
    (hm : Packable B m (items.map v)) : 10 * b.lists.length ≤ 17 * m + 7 :=
  inv2_bound7 (ffOnline_inv2 hok) hne hm

/-- **best fit uses at most `1.7 · OPT + 0.7` bins** -/
theorem bf_seventeen_tenths_plus_7 (hne : items ≠ []) (hok : bfOnline v B items = .ok b)
    (hm : Packable B m (items.map v)) : 10 * b.lists.length ≤ 17 * m + 7 :=
  inv2_bound7 (bfOnline_inv2 hok) hne hm

/-- **first fit uses at most `1.7 · OPT + 0.6` bins** -/
theorem ff_seventeen_tenths_plus_6 (hne : items ≠ []) (hok : ffOnline v B items = .ok b)
    (hm : Packable B m (items.map v)) : 10 * b.lists.length ≤ 17 * m + 6 :=
  inv2_bound6 (ffOnline_inv2 hok) hne hm

/-- **best fit uses at most `1.7 · OPT + 0.6` bins** -/
theorem bf_seventeen_tenths_plus_6 (hne : items ≠ []) (hok : bfOnline v B items = .ok b)
    (hm : Packable B m (items.map v)) : 10 * b.lists.length ≤ 17 * m + 6 :=
  inv2_bound6 (bfOnline_inv2 hok) hne hm

/-- `⌈1.7 · OPT⌉` (Garey, Graham, Johnson, Yao 1976) -/
theorem ff_seventeen_tenths_plus_9 (hne : items ≠ []) (hok : ffOnline v B items = .ok b)
    (hm : Packable B m (items.map v)) : 10 * b.lists.length ≤ 17 * m + 9 := by
  have := ff_seventeen_tenths_plus_6 hne hok hm
  omega

theorem bf_seventeen_tenths_plus_9 (hne : items ≠ []) (hok : bfOnline v B items = .ok b)
    (hm : Packable B m (items.map v)) : 10 * b.lists.length ≤ 17 * m + 9 := by
  have := bf_seventeen_tenths_plus_6 hne hok hm
  omega

/-- first fit: `1.5 · OPT + 0.2 · k + 0.7`, where `k` is the number of items above `B/2`
    (and `+ 0.6` when there is such an item) -/
theorem ff_fifteen_tenths_big (hne : items ≠ []) (hok : ffOnline v B items = .ok b)
    (hm : Packable B m (items.map v)) :
    10 * b.lists.length ≤ 15 * m + 2 * nBig v B items + 7 ∧
    (1 ≤ nBig v B items → 10 * b.lists.length ≤ 15 * m + 2 * nBig v B items + 6) :=
  inv2_bound_big (ffOnline_inv2 hok) hne hm

theorem bf_fifteen_tenths_big (hne : items ≠ []) (hok : bfOnline v B items = .ok b)
    (hm : Packable B m (items.map v)) :
    10 * b.lists.length ≤ 15 * m + 2 * nBig v B items + 7 ∧
    (1 ≤ nBig v B items → 10 * b.lists.length ≤ 15 * m + 2 * nBig v B items + 6) :=
  inv2_bound_big (bfOnline_inv2 hok) hne hm

/-- first fit: `+ 0.4` when fewer than `m` items exceed `B/2`; so the bounds `+ 0.5` and `+ 0.6` can only be
    attained when every bin of the optimum holds an item above `B/2` -/
theorem ff_seventeen_tenths_plus_4_partial (hne : items ≠ []) (hok : ffOnline v B items = .ok b)
    (hm : Packable B m (items.map v)) (hk : nBig v B items < m) : 10 * b.lists.length ≤ 17 * m + 4 :=
  inv2_plus4 (ffOnline_inv2 hok) hne hm hk

theorem bf_seventeen_tenths_plus_4_partial (hne : items ≠ []) (hok : bfOnline v B items = .ok b)
    (hm : Packable B m (items.map v)) (hk : nBig v B items < m) : 10 * b.lists.length ≤ 17 * m + 4 :=
  inv2_plus4 (bfOnline_inv2 hok) hne hm hk

/- The requested statement (open in general):
     theorem ff_seventeen_tenths_abs (hne : items ≠ []) (hok : ffOnline v B items = .ok b)
         (hm : Packable B m (items.map v)) : 10 * b.lists.length ≤ 17 * m
   What is proved is the same conclusion under the side condition `hside`. -/
theorem ff_seventeen_tenths_abs_partial (hne : items ≠ []) (hok : ffOnline v B items = .ok b)
    (hm : Packable B m (items.map v))
    (hside : m ≤ 2 ∨ m % 10 = 0 ∨ m % 10 = 3 ∨ m % 10 = 6 ∨ m % 10 = 9 ∨ nBig v B items + 3 ≤ m) :
    10 * b.lists.length ≤ 17 * m :=
  inv2_abs_partial (ffOnline_inv2 hok) hne hm hside

theorem bf_seventeen_tenths_abs_partial (hne : items ≠ []) (hok : bfOnline v B items = .ok b)
    (hm : Packable B m (items.map v))
    (hside : m ≤ 2 ∨ m % 10 = 0 ∨ m % 10 = 3 ∨ m % 10 = 6 ∨ m % 10 = 9 ∨ nBig v B items + 3 ≤ m) :
    10 * b.lists.length ≤ 17 * m :=
  inv2_abs_partial (bfOnline_inv2 hok) hne hm hside

/-- small cases: `OPT = 1` gives one bin, `OPT = 2` at most three bins -/
theorem ff_opt_one (hne : items ≠ []) (hok : ffOnline v B items = .ok b)
    (hm : Packable B 1 (items.map v)) : b.lists.length = 1 := by
  have h := ffOnline_inv2 hok
  have := inv2_abs_partial h hne hm (Or.inl (by omega))
  have hpos : b.lists.length ≠ 0 := by
    intro h0
    have := h.inv.perm
    rw [List.length_eq_zero_iff.1 h0] at this
    exact hne (by simpa using this.symm)
  omega

theorem ff_opt_two (hne : items ≠ []) (hok : ffOnline v B items = .ok b)
    (hm : Packable B 2 (items.map v)) : b.lists.length ≤ 3 := by
  have := inv2_abs_partial (ffOnline_inv2 hok) hne hm (Or.inl (by omega))
  omega

theorem ff_opt_three (hne : items ≠ []) (hok : ffOnline v B items = .ok b)
    (hm : Packable B 3 (items.map v)) : b.lists.length ≤ 5 := by
  have := inv2_abs_partial (ffOnline_inv2 hok) hne hm (Or.inr (Or.inr (Or.inl rfl)))
  omega

theorem bf_opt_three (hne : items ≠ []) (hok : bfOnline v B items = .ok b)
    (hm : Packable B 3 (items.map v)) : b.lists.length ≤ 5 := by
  have := inv2_abs_partial (bfOnline_inv2 hok) hne hm (Or.inr (Or.inr (Or.inl rfl)))
  omega

theorem bf_opt_one (hne : items ≠ []) (hok : bfOnline v B items = .ok b)
    (hm : Packable B 1 (items.map v)) : b.lists.length = 1 := by
  have h := bfOnline_inv2 hok
  have := inv2_abs_partial h hne hm (Or.inl (by omega))
  have hpos : b.lists.length ≠ 0 := by
    intro h0
    have := h.inv.perm
    rw [List.length_eq_zero_iff.1 h0] at this
    exact hne (by simpa using this.symm)
  omega

theorem bf_opt_two (hne : items ≠ []) (hok : bfOnline v B items = .ok b)
    (hm : Packable B 2 (items.map v)) : b.lists.length ≤ 3 := by
  have := inv2_abs_partial (bfOnline_inv2 hok) hne hm (Or.inl (by omega))
  omega

/-! ## 6. Non-vacuity -/

example : 10 * 10 ≤ 17 * 6 + 7 := ff_seventeen_tenths_plus_7 (by decide) bad_ff bad_packable
example : 10 * 10 ≤ 17 * 6 + 7 := bf_seventeen_tenths_plus_7 (by decide) bad_bf bad_packable
example : 10 * 10 ≤ 17 * 6 + 6 := ff_seventeen_tenths_plus_6 (by decide) bad_ff bad_packable
example : 10 * 10 ≤ 17 * 6 + 6 := bf_seventeen_tenths_plus_6 (by decide) bad_bf bad_packable
/-- on the classical bad instance (`OPT = 6`) the absolute bound is obtained, and it is tight: `10 = ⌊10.2⌋` -/
example : 10 * 10 ≤ 17 * 6 := ff_seventeen_tenths_abs_partial (by decide) bad_ff bad_packable (by decide)
example : 10 * 10 ≤ 17 * 6 := bf_seventeen_tenths_abs_partial (by decide) bad_bf bad_packable (by decide)

example : 10 * 10 ≤ 17 * 6 + 9 := ff_seventeen_tenths_plus_9 (by decide) bad_ff bad_packable
example : 10 * 10 ≤ 17 * 6 + 9 := bf_seventeen_tenths_plus_9 (by decide) bad_bf bad_packable
example : 10 * 10 ≤ 17 * 6 + 6 :=
  gen_seventeen_tenths_plus_6 (items := badItems) (b := ⟨[90, 68, 68, 68, 51, 51, 51, 51, 51, 51],
    [[15, 15, 15, 15, 15, 15], [34, 34], [34, 34], [34, 34], [51], [51], [51], [51], [51], [51]]⟩)
    (ffStep_step2 id 100) (by decide) rfl bad_packable
example : 10 * 10 ≤ 17 * 6 + 7 :=
  gen_seventeen_tenths_plus_7 (items := badItems) (b := ⟨[90, 68, 68, 68, 51, 51, 51, 51, 51, 51],
    [[15, 15, 15, 15, 15, 15], [34, 34], [34, 34], [34, 34], [51], [51], [51], [51], [51], [51]]⟩)
    (bfStep_step2 id 100) (by decide) rfl bad_packable

/-- six items above `B/2` in the bad instance: `100 ≤ 90 + 12 + 6` -/
example : nBig id 100 badItems = 6 := by decide
example : 10 * 10 ≤ 15 * 6 + 2 * nBig id 100 badItems + 6 :=
  (ff_fifteen_tenths_big (by decide) bad_ff bad_packable).2 (by decide)
example : 10 * 10 ≤ 15 * 6 + 2 * nBig id 100 badItems + 7 :=
  (bf_fifteen_tenths_big (by decide) bad_bf bad_packable).1

/-- `OPT = 4` is not one of the residues; the side condition holds because no item exceeds `B/2` -/
example : 10 * 4 ≤ 17 * 4 :=
  ff_seventeen_tenths_abs_partial (v := id) (B := 10) (items := [4, 4, 4, 4, 4, 4, 4, 4])
    (b := ⟨[8, 8, 8, 8], [[4, 4], [4, 4], [4, 4], [4, 4]]⟩) (by decide) rfl
    ⟨[0, 0, 1, 1, 2, 2, 3, 3], ⟨rfl, by decide⟩, by decide⟩ (by decide)
example : 10 * 4 ≤ 17 * 4 :=
  bf_seventeen_tenths_abs_partial (v := id) (B := 10) (items := [4, 4, 4, 4, 4, 4, 4, 4])
    (b := ⟨[8, 8, 8, 8], [[4, 4], [4, 4], [4, 4], [4, 4]]⟩) (by decide) rfl
    ⟨[0, 0, 1, 1, 2, 2, 3, 3], ⟨rfl, by decide⟩, by decide⟩ (by decide)

example : 10 * 4 ≤ 17 * 4 + 4 :=
  ff_seventeen_tenths_plus_4_partial (v := id) (B := 10) (items := [4, 4, 4, 4, 4, 4, 4, 4])
    (b := ⟨[8, 8, 8, 8], [[4, 4], [4, 4], [4, 4], [4, 4]]⟩) (by decide) rfl
    ⟨[0, 0, 1, 1, 2, 2, 3, 3], ⟨rfl, by decide⟩, by decide⟩ (by decide)
example : 10 * 2 ≤ 17 * 2 + 4 :=
  bf_seventeen_tenths_plus_4_partial (v := id) (B := 10) (items := [5, 6, 4, 5])
    (b := ⟨[10, 10], [[5, 5], [6, 4]]⟩) (by decide) rfl ⟨[0, 1, 1, 0], ⟨rfl, by decide⟩, by decide⟩ (by decide)

/-- small cases; `OPT = 2` with three first-fit bins is attained -/
example : ([[3, 3, 4]] : List (List Nat)).length = 1 :=
  ff_opt_one (v := id) (B := 10) (items := [3, 3, 4]) (b := ⟨[10], [[3, 3, 4]]⟩) (by decide) rfl
    ⟨[0, 0, 0], ⟨rfl, by decide⟩, by decide⟩
example : ([[3, 3, 4]] : List (List Nat)).length = 1 :=
  bf_opt_one (v := id) (B := 10) (items := [3, 3, 4]) (b := ⟨[10], [[3, 3, 4]]⟩) (by decide) rfl
    ⟨[0, 0, 0], ⟨rfl, by decide⟩, by decide⟩
example : ([[5, 4], [6], [5]] : List (List Nat)).length ≤ 3 :=
  ff_opt_two (v := id) (B := 10) (items := [5, 6, 4, 5]) (b := ⟨[9, 6, 5], [[5, 4], [6], [5]]⟩) (by decide) rfl
    ⟨[0, 1, 1, 0], ⟨rfl, by decide⟩, by decide⟩
example : ([[5, 5], [6, 4]] : List (List Nat)).length ≤ 3 :=
  bf_opt_two (v := id) (B := 10) (items := [5, 6, 4, 5]) (b := ⟨[10, 10], [[5, 5], [6, 4]]⟩) (by decide) rfl
    ⟨[0, 1, 1, 0], ⟨rfl, by decide⟩, by decide⟩
example : ([[4, 4], [4, 6], [6], [6]] : List (List Nat)).length ≤ 5 :=
  ff_opt_three (v := id) (B := 10) (items := [4, 4, 4, 6, 6, 6]) (b := ⟨[8, 10, 6, 6], [[4, 4], [4, 6], [6], [6]]⟩)
    (by decide) rfl ⟨[0, 1, 2, 0, 1, 2], ⟨rfl, by decide⟩, by decide⟩

/-- `items ≠ []` cannot be dropped: the empty input gets one (empty) bin and is packable into `0` bins -/
example : ffOnline id 10 ([] : List Nat) = .ok ⟨[0], [[]]⟩ ∧ Packable 10 0 (([] : List Nat).map id) ∧
    ¬ 10 * 1 ≤ 17 * 0 + 9 :=
  ⟨rfl, ⟨[], ⟨rfl, by simp⟩, by simp [sumsOf]⟩, by decide⟩


end Prtpy.FF17Abs

/-
Axiom audit (`#print axioms`, observed with Lean 4.33.0; every line printed exactly these three axioms):

#print axioms Prtpy.FF17Abs.ff_seventeen_tenths_plus_9               -- [propext, Classical.choice, Quot.sound]
#print axioms Prtpy.FF17Abs.bf_seventeen_tenths_plus_9               -- [propext, Classical.choice, Quot.sound]
#print axioms Prtpy.FF17Abs.ff_seventeen_tenths_plus_7               -- [propext, Classical.choice, Quot.sound]
#print axioms Prtpy.FF17Abs.bf_seventeen_tenths_plus_7               -- [propext, Classical.choice, Quot.sound]
#print axioms Prtpy.FF17Abs.ff_seventeen_tenths_plus_6               -- [propext, Classical.choice, Quot.sound]
#print axioms Prtpy.FF17Abs.bf_seventeen_tenths_plus_6               -- [propext, Classical.choice, Quot.sound]
#print axioms Prtpy.FF17Abs.gen_seventeen_tenths_plus_7              -- [propext, Classical.choice, Quot.sound]
#print axioms Prtpy.FF17Abs.gen_seventeen_tenths_plus_6              -- [propext, Classical.choice, Quot.sound]
#print axioms Prtpy.FF17Abs.ff_fifteen_tenths_big                    -- [propext, Classical.choice, Quot.sound]
#print axioms Prtpy.FF17Abs.bf_fifteen_tenths_big                    -- [propext, Classical.choice, Quot.sound]
#print axioms Prtpy.FF17Abs.ff_seventeen_tenths_abs_partial          -- [propext, Classical.choice, Quot.sound]
#print axioms Prtpy.FF17Abs.bf_seventeen_tenths_abs_partial          -- [propext, Classical.choice, Quot.sound]
#print axioms Prtpy.FF17Abs.ff_seventeen_tenths_plus_4_partial       -- [propext, Classical.choice, Quot.sound]
#print axioms Prtpy.FF17Abs.bf_seventeen_tenths_plus_4_partial       -- [propext, Classical.choice, Quot.sound]
#print axioms Prtpy.FF17Abs.nBig_le                                  -- [propext, Classical.choice, Quot.sound]
#print axioms Prtpy.FF17Abs.ff_opt_one                               -- [propext, Classical.choice, Quot.sound]
#print axioms Prtpy.FF17Abs.ff_opt_two                               -- [propext, Classical.choice, Quot.sound]
#print axioms Prtpy.FF17Abs.ff_opt_three                             -- [propext, Classical.choice, Quot.sound]
#print axioms Prtpy.FF17Abs.bf_opt_one                               -- [propext, Classical.choice, Quot.sound]
#print axioms Prtpy.FF17Abs.bf_opt_two                               -- [propext, Classical.choice, Quot.sound]
#print axioms Prtpy.FF17Abs.bf_opt_three                             -- [propext, Classical.choice, Quot.sound]
#print axioms Prtpy.FF17Abs.packable_weight_le_small                 -- [propext, Classical.choice, Quot.sound]
#print axioms Prtpy.FF17Abs.packable_weight_le_count                 -- [propext, Classical.choice, Quot.sound]
#print axioms Prtpy.FF17Abs.bins_weight6                             -- [propext, Classical.choice, Quot.sound]
#print axioms Prtpy.FF17Abs.bins_weight7                             -- [propext, Classical.choice, Quot.sound]
-/
