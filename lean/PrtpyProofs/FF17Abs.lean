import Prtpy
import PrtpyProofs.Fit
import PrtpyProofs.LPT43
import PrtpyProofs.FF17
import PrtpyProofs.FFD
open Prtpy

namespace Prtpy.FF17Abs

open Prtpy.FF17

variable {α : Type}

section Bins
variable {v : α → Nat} {B : Nat}

/-! ## 1. Refinements of Lemma B -/

/-- a big bin weighs at least `12·s + 4·B` -/
theorem big_weight' : ∀ L : List α, FF17.isBig v B L = true → 12 * binSum v L + 4 * B ≤ binSum (W v B) L
  | [], h => by simp [FF17.isBig] at h
  | x :: L, h => by
    simp only [FF17.isBig, List.any_cons, Bool.or_eq_true, decide_eq_true_eq] at h
    rcases h with h | h
    · have := weight_ge (v := v) (B := B) L
      simp only [Fit.binSum_cons, W, wt, bonus, if_pos h] at this ⊢
      omega
    · have := big_weight' L h
      simp only [Fit.binSum_cons, W, wt]
      omega

/-- the big bins: all are paid for, and any one of them can be counted with `12·s + 4·B` instead -/
theorem big_total' : ∀ Ls : List (List α), (∀ L ∈ Ls, FF17.isBig v B L = true) → ∀ L ∈ Ls,
    10 * (B * Ls.length) + 12 * binSum v L + 4 * B ≤ binSum (W v B) Ls.flatten + 10 * B
  | [], _, L, hL => by simp at hL
  | M :: Ls, h, L, hL => by
    simp only [List.length_cons, List.flatten_cons, Fit.binSum_append, Nat.mul_succ]
    rcases List.mem_cons.1 hL with rfl | hL
    · have h1 := big_weight' L (h L (by simp))
      have h2 := big_total (v := v) (B := B) Ls (fun M hM => h M (List.mem_cons_of_mem _ hM))
      omega
    · have h1 := big_weight M (h M (by simp))
      have h2 := big_total' Ls (fun M hM => h M (List.mem_cons_of_mem _ hM)) L hL
      omega

/-- bins that are all at least `5/6` full -/
theorem vol_all : ∀ Ls : List (List α), (∀ M ∈ Ls, 5 * B ≤ 6 * binSum v M) →
    5 * (B * Ls.length) ≤ 6 * binSum v Ls.flatten
  | [], _ => by simp
  | M :: Ls, h => by
    have h1 := h M (by simp)
    have h2 := vol_all (v := v) (B := B) Ls (fun M hM => h M (List.mem_cons_of_mem _ hM))
    simp only [List.length_cons, List.flatten_cons, Fit.binSum_append, Nat.mul_succ]
    omega

/-- bins that pairwise overflow, each at least `5/6` full or at most `1/6` full: all but one are `5/6` full -/
theorem vol_one : ∀ Ls : List (List α), (∀ M ∈ Ls, 5 * B ≤ 6 * binSum v M ∨ 6 * binSum v M ≤ B) →
    Ls.Pairwise (fun L M => B < binSum v L + binSum v M) →
    5 * (B * Ls.length) ≤ 6 * binSum v Ls.flatten + 5 * B
  | [], _, _ => by simp
  | M :: Ls, h, hp => by
    rw [List.pairwise_cons] at hp
    simp only [List.length_cons, List.flatten_cons, Fit.binSum_append, Nat.mul_succ]
    rcases h M (by simp) with h1 | h1
    · have h2 := vol_one Ls (fun M hM => h M (List.mem_cons_of_mem _ hM)) hp.2
      omega
    · have h2 := vol_all (v := v) (B := B) Ls (fun M' hM' => by have := hp.1 M' hM'; omega)
      omega

theorem pairwise_rel_sum {Ls : List (List α)} (hp : Ls.Pairwise (Rel v B)) :
    Ls.Pairwise (fun L M => B < binSum v L + binSum v M) :=
  hp.imp (fun h => rel_sum h)

/-- **Lemma B, refined**: with at least two bins, either fewer than `8/10` of a bin is lost, or all bins but one
    are at least `5/6` full -/
theorem bins_weight7 {Ls : List (List α)} (hp : Ls.Pairwise (Rel v B)) (h2 : 2 ≤ Ls.length) (hB : 0 < B) :
    10 * (B * Ls.length) + 1 ≤ binSum (W v B) Ls.flatten + 8 * B ∨
    5 * (B * Ls.length) ≤ 6 * binSum v Ls.flatten + 5 * B := by
  obtain ⟨hlen, hw⟩ := split_kinds (v := v) (B := B) (W v B) Ls
  have hbigcl : ∀ L ∈ Ls.filter (kBig (v := v) (B := B)), FF17.isBig v B L = true :=
    fun L hL => by simpa [kBig] using (List.mem_filter.1 hL).2
  have hbig := big_total (v := v) (B := B) (Ls.filter (kBig (v := v) (B := B))) hbigcl
  have hbig' := big_total' (v := v) (B := B) (Ls.filter (kBig (v := v) (B := B))) hbigcl
  have hsm := small_count (v := v) (B := B) (Ls.filter (kSmall (v := v) (B := B)))
    (fun L hL => by simpa [kSmall] using (List.mem_filter.1 hL).2) (hp.filter _)
  have hchcl : ∀ L ∈ Ls.filter (kChain (v := v) (B := B)), FF17.isBig v B L = false ∧ 2 ≤ L.length :=
    fun L hL => by simpa [kChain] using (List.mem_filter.1 hL).2
  have hchp : (Ls.filter (kChain (v := v) (B := B))).Pairwise (Rel v B) := hp.filter _
  have hbgmem : ∀ L ∈ Ls.filter (kBig (v := v) (B := B)), L ∈ Ls ∧ kBig (v := v) (B := B) L = true :=
    fun L hL => List.mem_filter.1 hL
  have hsmmem : ∀ L ∈ Ls.filter (kSmall (v := v) (B := B)), L ∈ Ls ∧ kSmall (v := v) (B := B) L = true :=
    fun L hL => List.mem_filter.1 hL
  have hchmem : ∀ L ∈ Ls.filter (kChain (v := v) (B := B)), L ∈ Ls ∧ kChain (v := v) (B := B) L = true :=
    fun L hL => List.mem_filter.1 hL
  generalize Ls.filter (kBig (v := v) (B := B)) = bg at *
  generalize Ls.filter (kSmall (v := v) (B := B)) = sm at *
  generalize Ls.filter (kChain (v := v) (B := B)) = ch at *
  by_cases hch : ch = []
  · subst hch
    left
    rw [hlen, hw]
    simp only [Nat.mul_add]
    match sm, hsm, hsmmem with
    | [], _, _ =>
      simp only [List.length_nil, List.flatten_nil]
      simp only [binSum, List.map_nil, sumL] at *
      omega
    | [S], _, hsmmem =>
      match bg, hbig', hbgmem with
      | [], _, _ => simp at h2
      | L :: bg', hbig', hbgmem =>
        have hS := hsmmem S (by simp)
        have hL := hbgmem L (by simp)
        have hne : S ≠ L := by
          rintro rfl
          have h1 := hS.2
          have h3 := hL.2
          simp only [kSmall, kBig, Bool.and_eq_true, Bool.not_eq_true'] at h1 h3
          rw [h3] at h1
          simp at h1
        have hsum := pairwise_sum hp hS.1 hL.1 hne
        have hb := hbig' L (by simp)
        have hwS := weight_ge (v := v) (B := B) S
        simp only [List.length_cons, List.length_nil, List.flatten_cons, List.flatten_nil, List.append_nil,
          Fit.binSum_append, Nat.mul_succ] at hb ⊢
        simp only [binSum, List.map_nil, sumL] at *
        omega
  · obtain ⟨L', hL', hcw⟩ := chain_weight ch hch hchcl hchp
    match sm, hsm, hsmmem with
    | [], _, _ =>
      by_cases ht : B < 6 * binSum v L'
      · left
        rw [hlen, hw]
        simp only [Nat.mul_add]
        simp only [List.length_nil, List.flatten_nil]
        simp only [binSum, List.map_nil, sumL] at *
        omega
      · right
        refine vol_one Ls (fun M hM => ?_) (pairwise_rel_sum hp)
        by_cases hML : M = L'
        · subst hML; right; omega
        · left
          have := pairwise_sum hp hM (hchmem L' hL').1 hML
          omega
    | [S], _, hsmmem =>
      left
      rw [hlen, hw]
      simp only [Nat.mul_add]
      have hS := hsmmem S (by simp)
      have hL := hchmem L' hL'
      have hne : S ≠ L' := by
        rintro rfl
        have h1 := hS.2
        have h3 := hL.2
        simp only [kSmall, kChain, Bool.and_eq_true, decide_eq_true_eq] at h1 h3
        omega
      have := pairwise_sum hp hS.1 hL.1 hne
      have hwS := weight_ge (v := v) (B := B) S
      simp only [List.length_cons, List.length_nil, List.flatten_cons, List.flatten_nil, List.append_nil]
      omega

end Bins

end Prtpy.FF17Abs
