/-
  PrtpyProofs.MultiFit122B — continuation of PrtpyProofs.MultiFit122 (multifit's `1.22` ratio, Coffman, Garey,
  Johnson 1978).  The unconditional theorem `multifit_ratio_122` for every `k` is still **open**; proved here:

  A. Ratios of multifit:
     * `multifit_ratio_122_k8`: **`61/50 + 2^−it` for `k ≤ 8`**, unconditional in the input (from
       `irred_window_false` / `irred_seven_eight_false`: no irreducible counter-example with seven or eight bins; `k ≤ 6` is
       `MultiFit122.tight_small_k`);  `ffd_fold_fits_122_k8`, `ffd_fits_122_k8`, `ffdFits_122_k8`;
     * `multifit_ratio_11_9_k9`: `11/9 + 2^−it` for `k ≤ 9`;  `multifit_ratio_16_13_k12`: `16/13 + 2^−it` for
       `k ≤ 12`;  `multifit_ratio_6_5_k5`: `6/5 + 2^−it` for `k ≤ 5` (all from `irred_window_false` and the generic
       pipeline `ffdFits_of_no_irred`);
     * `multifit_ratio_122_partial_k`: `61/50 + 2^−it` for every `k`, for inputs without an item strictly between
       `0.22·k/(k−1)·OPT` and `0.26·OPT` (contains `MultiFit122.multifit_ratio_122_partial`);
       `ffd_fold_fits_of_no_band_k`, `ffd_fits_of_no_band_k`, `ffdFits_122_of_no_band_k`.
     Open: `k ≥ 9` with a failing item in the band `0.22·k/(k−1)·OPT < a < 0.26·OPT`.

  B. Structure of counter-examples:
     1. Domination in general: `packable_of_dom` (if the values `O` are pointwise below some of the values `L`,
        and `O ++ X` is a rearrangement of `L ++ R`, a schedule of `X` yields a schedule of `R`),
        `ce_drop_of_dominated`, `sce_drop_of_dominated`, `irred_not_dominated`: **in an irreducible
        counter-example no bin of a `T`-schedule (with any number of items) is dominated by a bin of the
        packing.**
     2. The full rule: `strong_later_nofit`.
     3. Classes of items in a tight counter-example: `tight_pair_big` (a bin with two items holds two *big*
        items, `> B − T + a`), `two_bigs_exceed`, `opt_bin_one_big` (for `B ≥ 6/5·T` a bin of a `T`-schedule
        holds at most one big item), `big_companions` (the companions of a big item in a `T`-bin sum to less than
        `2T − B − a`).
     4. The upper half of the band (`T < 4a`): `irred_opt_bins_eq_three` (every bin of every `T`-schedule holds
        exactly three items), `irred_card_eq` (`3k − 1` packed items), `irred_two_four` (bins hold 2, 3 or 4
        items and there is exactly one more bin with two items than bins with four), `ffd_overflow_irred_cap`
        (a failing run yields an irreducible counter-example whose bins respect the capacity).
     5. `ce_level_window`: `level + (k − 1)·(B + 1 − a) + a ≤ k·T` for every bin.
-/
import Mathlib.Data.List.Sort
import Mathlib.Data.List.Perm.Basic
import Mathlib.Tactic.Linarith
import Mathlib.Tactic.Ring
import Prtpy
import PrtpyProofs.MultiFit122
open Prtpy

namespace Prtpy.MultiFit122B
open Prtpy.LPT43 Prtpy.MaxMin Prtpy.MaxMin2 Prtpy.MultiFit122

variable {α : Type}

/-! ## 1. Domination -/

/-- the sorted case of `packable_of_dom` (the largest value of `O` is treated first, so that its partner in `L'`
    cannot be another value of `O`) -/
theorem packable_of_dom_sorted {T k : Nat} {O L' : List Nat}
    (hf : List.Forall₂ (fun o l => o ≤ l) O L') :
    O.Pairwise (fun x y => y ≤ x) → ∀ (X L'' R : List Nat), Packable T k X →
      (O ++ X).Perm (L' ++ L'' ++ R) → Packable T k R := by
  induction hf with
  | nil =>
    intro _ X L'' R hX hp
    have hp' : X.Perm (L'' ++ R) := by simpa using hp
    exact packable_drop_left (packable_perm hp' hX)
  | @cons o l O' L₁ hol _ ih =>
    intro hs X L'' R hX hp
    obtain ⟨hs1, hs2⟩ := List.pairwise_cons.1 hs
    have hp' : (o :: (O' ++ X)).Perm (l :: (L₁ ++ L'' ++ R)) := by simpa using hp
    by_cases e : o = l
    · subst e
      exact ih hs2 X L'' R hX hp'.cons_inv
    · have hl : l ∈ o :: (O' ++ X) := hp'.mem_iff.2 (by simp)
      have hlX : l ∈ X := by
        rcases List.mem_cons.1 hl with h | h
        · exact absurd h.symm e
        · rcases List.mem_append.1 h with h | h
          · have := hs1 l h; omega
          · exact h
      have pX := List.perm_cons_erase hlX
      have hX' : Packable T k (o :: X.erase l) := packable_replace_head hol (packable_perm pX hX)
      refine ih hs2 (o :: X.erase l) L'' R hX' ?_
      have h1 : (o :: (O' ++ X)).Perm (l :: (o :: (O' ++ X.erase l))) := by
        refine (List.Perm.cons o ((List.Perm.append_left O' pX).trans List.perm_middle)).trans ?_
        exact List.Perm.swap l o _
      have h2 : (o :: (O' ++ X.erase l)).Perm (L₁ ++ L'' ++ R) := (h1.symm.trans hp').cons_inv
      exact List.perm_middle.trans h2

/-- **Domination.**  The values `L ++ R` (`L = L' ++ L''`) are scheduled as `O ++ X`, the bins of `X` being
    feasible, and `O` is pointwise below `L'`.  Then `R` alone fits into the bins of `X`. -/
theorem packable_of_dom {T k : Nat} {O L' : List Nat} (hf : List.Forall₂ (fun o l => o ≤ l) O L')
    {X L'' R : List Nat} (hX : Packable T k X) (hp : (O ++ X).Perm (L' ++ L'' ++ R)) :
    Packable T k R := by
  have ps := List.perm_insertionSort (fun x y : Nat => x ≥ y) O
  obtain ⟨W, hW, pW⟩ := List.perm_comp_forall₂ ps hf
  have hs : (List.insertionSort (fun x y : Nat => x ≥ y) O).Pairwise (fun x y => y ≤ x) :=
    List.pairwise_insertionSort (fun x y : Nat => x ≥ y) O
  refine packable_of_dom_sorted hW hs X L'' R hX ?_
  exact ((ps.append_right X).trans hp).trans ((pW.symm.append_right L'').append_right R)

/-- **Dropping a dominated bin, any number of items.**  If the bin `O` of a `T`-schedule of a counter-example is
    pointwise below some of the values of bin `j` of the packing, dropping bin `j` leaves a counter-example. -/
theorem ce_drop_of_dominated {v : α → Nat} {T B k : Nat} {LL : List (List α)} {a : α}
    (h : CE v T B (k + 1) LL a) (Q : List (List Nat)) (hQk : Q.length = k + 1)
    (hQp : Q.flatten.Perm ((LL.flatten ++ [a]).map v)) (hQ : ∀ l ∈ Q, sumL l ≤ T) {O : List Nat}
    (hO : O ∈ Q) {j : Nat} {l : List α} (hl : LL[j]? = some l) {L' L'' : List Nat}
    (hL : (l.map v).Perm (L' ++ L'')) (hdom : List.Forall₂ (fun o x => o ≤ x) O L') :
    CE v T B k (LL.eraseIdx j) a := by
  have hj : j < LL.length := (List.getElem?_eq_some_iff.1 hl).1
  have pQ := List.perm_cons_erase hO
  have hX : Packable T k (Q.erase O).flatten := by
    refine partition_packable (Q.erase O) ?_ (List.Perm.refl _) (fun l hl => hQ l (List.mem_of_mem_erase hl))
    have := pQ.length_eq; simp only [List.length_cons] at this; omega
  have hOX : ((LL.flatten ++ [a]).map v).Perm (O ++ (Q.erase O).flatten) := by
    refine hQp.symm.trans ?_
    have := pQ.flatten
    simpa only [List.flatten_cons] using this
  refine ce_erase h hj (packable_of_dom (L'' := L'') hdom hX ?_)
  exact (hOX.symm.trans (ce_split hl a v)).trans (hL.append_right _)

theorem sce_drop_of_dominated {v : α → Nat} {T B k : Nat} {LL : List (List α)} {a : α}
    (h : SCE v T B (k + 1) LL a) (Q : List (List Nat)) (hQk : Q.length = k + 1)
    (hQp : Q.flatten.Perm ((LL.flatten ++ [a]).map v)) (hQ : ∀ l ∈ Q, sumL l ≤ T) {O : List Nat}
    (hO : O ∈ Q) {j : Nat} {l : List α} (hl : LL[j]? = some l) {L' L'' : List Nat}
    (hL : (l.map v).Perm (L' ++ L'')) (hdom : List.Forall₂ (fun o x => o ≤ x) O L') :
    SCE v T B k (LL.eraseIdx j) a := by
  have hc := ce_drop_of_dominated h.toCE Q hQk hQp hQ hO hl hL hdom
  refine ⟨hc.len, h.strong.eraseIdx j, ?_, hc.nofit, hc.amin, hc.pack⟩
  intro p hp
  obtain ⟨l', hl', hpl⟩ := List.mem_flatten.1 hp
  exact h.leB p (List.mem_flatten.2 ⟨l', List.mem_of_mem_eraseIdx hl', hpl⟩)

/-- **No bin of a `T`-schedule of an irreducible counter-example is dominated by a bin of the packing.** -/
theorem irred_not_dominated {v : α → Nat} {T B k : Nat} {LL : List (List α)} {a : α}
    (h : Irred v T B k LL a) (Q : List (List Nat)) (hQk : Q.length = k)
    (hQp : Q.flatten.Perm ((LL.flatten ++ [a]).map v)) (hQ : ∀ l ∈ Q, sumL l ≤ T) {O : List Nat}
    (hO : O ∈ Q) {j : Nat} {l : List α} (hl : LL[j]? = some l) {L' L'' : List Nat}
    (hL : (l.map v).Perm (L' ++ L'')) (hdom : List.Forall₂ (fun o x => o ≤ x) O L') : False := by
  obtain ⟨hs, hirr⟩ := h
  cases k with
  | zero => exact absurd hs.toCE.pos (Nat.lt_irrefl _)
  | succ k =>
    have hj : j < LL.length := (List.getElem?_eq_some_iff.1 hl).1
    exact hirr j hj (by simpa using sce_drop_of_dominated hs Q hQk hQp hQ hO hl hL hdom)

/-! ## 2. The full rule -/

theorem binSum_filter_le {v : α → Nat} (p : α → Bool) : ∀ l : List α, binSum v (l.filter p) ≤ binSum v l := by
  intro l
  induction l with
  | nil => simp
  | cons x t ih =>
    by_cases hx : p x = true
    · rw [List.filter_cons_of_pos hx]
      simp only [binSum, List.map_cons, sumL] at ih ⊢
      omega
    · rw [List.filter_cons_of_neg hx]
      simp only [binSum, List.map_cons, sumL] at ih ⊢
      omega

/-- an item of a later bin does not fit into an earlier bin (as that bin is at the end) -/
theorem strong_later_nofit {v : α → Nat} {B : Nat} {Ls : List (List α)} (h : FFDStrong v B Ls) {i j : Nat}
    {li lj : List α} {p : α} (hij : i < j) (hli : Ls[i]? = some li) (hlj : Ls[j]? = some lj) (hp : p ∈ lj) :
    B < binSum v li + v p := by
  have h1 := h.rule i j li lj p hij hli hlj hp
  have h2 := binSum_filter_le (v := v) (fun y => decide (v p ≤ v y)) li
  omega

/-! ## 3. Classes of items in a tight counter-example -/

/-- a bin with exactly two items holds two *big* items (`> B − T + a`) -/
theorem tight_pair_big {v : α → Nat} {T B k : Nat} {LL : List (List α)} {a : α} (h : Tight v T B k LL a)
    {x y : α} (hl : [x, y] ∈ LL) : B + v a < v x + T ∧ B + v a < v y + T := by
  have h1 := h.nofit _ hl
  have hx := h.top x (List.mem_flatten.2 ⟨_, hl, by simp⟩)
  have hy := h.top y (List.mem_flatten.2 ⟨_, hl, by simp⟩)
  simp only [binSum, List.map_cons, List.map_nil, sumL] at h1
  omega

/-- for `B ≥ 6/5 · T`, two big values together with `a` exceed `T` -/
theorem two_bigs_exceed {v : α → Nat} {T B k : Nat} {LL : List (List α)} {a : α} (h : CE v T B k LL a)
    (h6 : 6 * T ≤ 5 * B) {x y : Nat} (hx : B + v a < x + T) (hy : B + v a < y + T) : T < x + y + v a := by
  have := ce_large h
  omega

/-- hence a bin of a `T`-schedule with at least three values holds at most one big value -/
theorem opt_bin_one_big {v : α → Nat} {T B k : Nat} {LL : List (List α)} {a : α} (h : CE v T B k LL a)
    (h6 : 6 * T ≤ 5 * B) {x y : Nat} {rest : List Nat} {z : Nat} (hz : v a ≤ z)
    (hsum : sumL (x :: y :: z :: rest) ≤ T) : ¬ (B + v a < x + T ∧ B + v a < y + T) := by
  rintro ⟨hx, hy⟩
  have := two_bigs_exceed h h6 hx hy
  simp only [sumL] at hsum
  omega

/-- the companions of a big value in a bin of a `T`-schedule sum to less than `2T − B − a` -/
theorem big_companions {T B a x : Nat} {rest : List Nat} (hx : B + a < x + T)
    (hsum : sumL (x :: rest) ≤ T) : sumL rest + B + a < 2 * T := by
  simp only [sumL] at hsum
  omega

/-! ## 4. The upper half of the band: `T < 4a` -/

/-- every bin of every `T`-schedule of an irreducible counter-example with `T < 4a` holds exactly three items -/
theorem irred_opt_bins_eq_three {v : α → Nat} {T B k : Nat} (hTB : T ≤ B) {LL : List (List α)} {a : α}
    (h : Irred v T B k LL a) (ha : T < 4 * v a) (Q : List (List Nat)) (hQk : Q.length = k)
    (hQp : Q.flatten.Perm ((LL.flatten ++ [a]).map v)) (hQ : ∀ l ∈ Q, sumL l ≤ T) :
    ∀ O ∈ Q, O.length = 3 := by
  intro O hO
  have h3 := irred_opt_bins hTB h Q hQk hQp hQ O hO
  have hge : ∀ u ∈ O, v a ≤ u := by
    intro u hu
    obtain ⟨p, hp, rfl⟩ := List.mem_map.1 (hQp.mem_iff.1 (List.mem_flatten.2 ⟨O, hO, hu⟩))
    rcases List.mem_append.1 hp with hp | hp
    · exact h.1.amin p hp
    · simp only [List.mem_singleton] at hp; subst hp; exact Nat.le_refl _
  have h4 := items_per_bin (c := 3) hge (by omega) (hQ O hO)
  omega

/-- such a counter-example has exactly `3k − 1` packed items -/
theorem irred_card_eq {v : α → Nat} {T B k : Nat} (hTB : T ≤ B) {LL : List (List α)} {a : α}
    (h : Irred v T B k LL a) (ha : T < 4 * v a) : LL.flatten.length + 1 = 3 * k := by
  obtain ⟨Q, hQk, hQp, hQ⟩ := packable_partition h.1.pack
  have h3 := irred_opt_bins_eq_three hTB h ha Q hQk hQp hQ
  have c1 := mul_le_flatten_length 3 Q (fun l hl => Nat.le_of_eq (h3 l hl).symm)
  have c2 := flatten_length_le_mul 3 Q (fun l hl => Nat.le_of_eq (h3 l hl))
  have c3 := hQp.length_eq
  simp only [List.length_map, List.length_append, List.length_cons, List.length_nil] at c3
  rw [hQk] at c1 c2
  omega

theorem count_two_four {β : Type} : ∀ (Ls : List (List β)), (∀ l ∈ Ls, 2 ≤ l.length ∧ l.length ≤ 4) →
    Ls.flatten.length + Ls.countP (fun l => decide (l.length = 2)) =
      3 * Ls.length + Ls.countP (fun l => decide (l.length = 4)) := by
  intro Ls
  induction Ls with
  | nil => intro _; simp
  | cons l Ls ih =>
    intro h
    have h1 := h l List.mem_cons_self
    have h2 := ih (fun l' hl' => h l' (List.mem_cons_of_mem _ hl'))
    simp only [List.flatten_cons, List.length_append, List.length_cons, List.countP_cons]
    have hc : l.length = 2 ∨ l.length = 3 ∨ l.length = 4 := by omega
    rcases hc with hc | hc | hc <;> simp [hc, -List.length_flatten] <;> omega

/-- a bin within the capacity `B < 5a` holds at most four items `≥ a` -/
theorem bin_le_four {v : α → Nat} {B : Nat} {a : α} {l : List α} (hB : B < 5 * v a)
    (hmin : ∀ p ∈ l, v a ≤ v p) (hcap : binSum v l ≤ B) : l.length ≤ 4 := by
  have h1 : ∀ y ∈ l.map v, v a ≤ y := by
    intro y hy
    obtain ⟨p, hp, rfl⟩ := List.mem_map.1 hy
    exact hmin p hp
  have := items_per_bin (c := 4) h1 (by omega) (show sumL (l.map v) ≤ B from hcap)
  simpa using this

/-- **Two against four.**  In an irreducible counter-example with `T < 4a`, `B < 5a` whose bins respect the
    capacity, every bin holds two, three or four items, and there is exactly one more bin with two items than
    bins with four. -/
theorem irred_two_four {v : α → Nat} {T B k : Nat} (hTB : T ≤ B) {LL : List (List α)} {a : α}
    (h : Irred v T B k LL a) (ha : T < 4 * v a) (hB : B < 5 * v a) (hcap : ∀ l ∈ LL, binSum v l ≤ B) :
    (∀ l ∈ LL, 2 ≤ l.length ∧ l.length ≤ 4) ∧
      LL.countP (fun l => decide (l.length = 2)) = LL.countP (fun l => decide (l.length = 4)) + 1 := by
  have ht := irred_tight hTB h
  have h24 : ∀ l ∈ LL, 2 ≤ l.length ∧ l.length ≤ 4 := fun l hl =>
    ⟨tight_two hTB ht.toTight l hl,
      bin_le_four hB (fun p hp => h.1.amin p (List.mem_flatten.2 ⟨l, hl, hp⟩)) (hcap l hl)⟩
  refine ⟨h24, ?_⟩
  have c1 := count_two_four LL h24
  have c2 := irred_card_eq hTB h ha
  rw [h.1.len] at c1
  omega

section Overflow
variable (v : α → Nat)

/-- `MultiFit122.ffd_overflow_irred` with the capacity: a failing run of first-fit-decreasing yields an
    irreducible (hence tight) counter-example whose bins have sums `≤ B` -/
theorem ffd_overflow_irred_cap {k : Nat} (hk : 0 < k) {T B : Nat} (hTB : T ≤ B) {xs : List α}
    (hS : xs.Pairwise (fun a c => v c ≤ v a)) (hp : Packable T k (xs.map v)) (hall : ∀ x ∈ xs, v x ≤ B)
    (hover : k < (xs.foldl (ffStep v B) (Bins.new 1)).lists.length) :
    ∃ a ∈ xs, ∃ k' LL, k' ≤ k ∧ Irred v T B k' LL a ∧ STight v T B k' LL a ∧
      (∀ l ∈ LL, binSum v l ≤ B) := by
  obtain ⟨P, a, S, e, hs⟩ := ffd_overflow_sce v hk xs hS hp hall hover
  have hallP : ∀ y ∈ P, v y ≤ B := fun y hy => hall y (by rw [e]; simp [hy])
  have hinv : Fit.Inv v B P (P.foldl (ffStep v B) (Bins.new 1)) := by
    simpa using Fit.inv_foldl (ffStep v B) (Fit.ffStep_step v B) P [] (Bins.new 1) hallP (Fit.inv_init v B)
  obtain ⟨k', LL, hk', hsub, hi⟩ := exists_irred k _ hs
  refine ⟨a, by rw [e]; simp, k', LL, hk', hi, irred_tight hTB hi, ?_⟩
  intro l hl
  have hl0 := hsub.subset hl
  have hmem : binSum v l ∈ (P.foldl (ffStep v B) (Bins.new 1)).sums := by
    rw [hinv.cons]; exact List.mem_map_of_mem hl0
  exact hinv.le _ hmem

end Overflow

/-! ## 5. The band, depending on `k`

The sharp volume bound narrows the band from below: the failing item of a counter-example with at most `k` bins
satisfies `k·(B + 1 − T) ≤ (k − 1)·a`.  For `B = 1.22·T` the band is `0.22·k/(k−1)·T < a < 0.26·T`: empty for
`k ≤ 6`, `(0.2567·T, 0.26·T)` for `k = 7`, `(0.2514·T, 0.26·T)` for `k = 8`. -/

section BandK
variable (v : α → Nat)

/-- the item `x` is outside the band of the capacities `T ≤ B` for `k` bins -/
def OutOfBandK (T B k : Nat) (x : α) : Prop :=
  k * T + k * v x < k * (B + 1) + v x ∨ (T < 4 * v x ∧ 2 * T ≤ B + 3 * v x)

/-- **First-fit-decreasing with capacity `B ≥ T` fits into `k` bins** whenever the values fit into `k` bins of
    capacity `T` and no item lies in the band for `k` (generalises `MultiFit122.ffd_fold_fits_of_no_band`,
    `ffd_fold_fits_k` and `ffd_fold_fits_122_small_k`). -/
theorem ffd_fold_fits_of_no_band_k {k : Nat} (hk : 0 < k) {T B : Nat} (hTB : T ≤ B) (xs : List α)
    (hS : xs.Pairwise (fun a c => v c ≤ v a)) (hp : Packable T k (xs.map v)) (hall : ∀ x ∈ xs, v x ≤ B)
    (hband : ∀ x ∈ xs, OutOfBandK v T B k x) :
    (xs.foldl (ffStep v B) (Bins.new 1)).lists.length ≤ k := by
  apply Nat.le_of_not_lt
  intro hover
  obtain ⟨P, a, S, e, hs⟩ := ffd_overflow_sce v hk xs hS hp hall hover
  obtain ⟨k', LL', hk', _, ht⟩ := sce_reduce_to_tight hTB k _ hs
  have hV := tight_volume_mono ht.toTight hk'
  rcases hband a (by rw [e]; simp) with h1 | ⟨h1, h2⟩
  · omega
  · exact tight_count hTB ht.toTight h1 h2

theorem ffd_fits_of_no_band_k {k : Nat} (hk : 0 < k) {xs : List α}
    (hS : xs.Pairwise (fun a c => v c ≤ v a)) {T : Nat} (hp : Packable T k (xs.map v)) {B : Nat}
    (hTB : T ≤ B) (hband : ∀ x ∈ xs, OutOfBandK v T B k x) {b : Bins α} (h : ffOnline v B xs = .ok b) :
    b.lists.length ≤ k := by
  simp only [ffOnline, Fit.ffLoop_eq] at h
  have hall := Fit.gen_ok_all_le h
  rw [Fit.genLoop_ok v B _ xs _ hall] at h
  cases h
  exact ffd_fold_fits_of_no_band_k v hk hTB xs hS hp hall hband

/-- `FfdFits (61/50)` for inputs without an item strictly between `0.22·k/(k−1)·OPT` and `0.26·OPT` -/
theorem ffdFits_122_of_no_band_k {k : Nat} (hk : 0 < k) {items : List α} {opt : Int}
    (hopt : IsOptimalValue .minLargest k (items.map v) opt)
    (hband : ∀ x ∈ items, 50 * (k : Int) * (v x : Int) ≤ 11 * (k : Int) * opt + 50 * (v x : Int) ∨
      13 * opt ≤ 50 * (v x : Int))
    {ρ : Rat} (hρ : 61 / 50 ≤ ρ) :
    FfdFits v k (sortDesc v items) ρ opt := by
  obtain ⟨T, rfl, hp⟩ := packable_of_opt hopt
  have hsp := Part.sortDesc_perm v items
  have hp' : Packable T k ((sortDesc v items).map v) := packable_perm (hsp.map v).symm hp
  have hM : ∀ x ∈ sortDesc v items, v x ≤ T :=
    fun x hx => packable_item_le hp' (List.mem_map_of_mem hx)
  intro c hc
  have hT0 : (0 : Rat) ≤ (T : Rat) := by positivity
  have hc' : 61 / 50 * (T : Rat) ≤ c := by
    push_cast at hc
    nlinarith
  obtain ⟨b', e', _, q2, _⟩ := Part.ffOnline_of_cap v (sortDesc v items) hM c (by linarith)
  refine ⟨b'.sums.length, by simp only [ffCount, e']; rfl, ?_⟩
  rw [Part.consistent_length v q2]
  have hTB : T ≤ floorNat c := Part.le_floorNat T c (by linarith)
  have hB0 := Part.lt_floorNat_succ (61 * T) 100 c (by omega) (by push_cast; linarith)
  have hB : 61 * T + 1 ≤ 50 * (floorNat c + 1) := by omega
  refine ffd_fits_of_no_band_k v hk (Part.sortDesc_sorted v items) hp' hTB ?_ e'
  intro x hx
  have hx' : x ∈ items := hsp.mem_iff.1 hx
  rcases hband x hx' with h1 | h1
  · left
    have h1' : 50 * k * v x ≤ 11 * k * T + 50 * v x := by exact_mod_cast h1
    have h2 := Nat.mul_le_mul_left k hB
    have e1 : k * (61 * T + 1) = 61 * (k * T) + k := by ring
    have e2 : k * (50 * (floorNat c + 1)) = 50 * (k * (floorNat c + 1)) := by ring
    have e3 : 50 * k * v x = 50 * (k * v x) := by ring
    have e4 : 11 * k * T = 11 * (k * T) := by ring
    omega
  · have h1' : 13 * T ≤ 50 * v x := by exact_mod_cast h1
    rcases Nat.eq_zero_or_pos T with hT | hT
    · left
      have := hM x hx
      have hx0 : v x = 0 := by omega
      rw [hT, hx0]
      simp only [Nat.mul_zero, Nat.add_zero]
      have : 0 < k * (floorNat c + 1) := Nat.mul_pos hk (Nat.succ_pos _)
      omega
    · right
      refine ⟨by omega, ?_⟩
      omega

/-- **Multifit, `61/50 + 2^−it`, for inputs without an item strictly between `0.22·k/(k−1)·OPT` and
    `0.26·OPT`** (the first alternative reads `(k − 1)·x ≤ 0.22·k·OPT`).  This contains
    `MultiFit122.multifit_ratio_122_partial` and `multifit_ratio_122_small_k` (for `k ≤ 6` the hypothesis always
    holds).  Still missing for the unconditional theorem: a failing item in that band. -/
theorem multifit_ratio_122_partial_k {k : Nat} {items : List α} {it : Nat} {b : Bins α} (hk : 0 < k)
    {opt : Int} (hopt : IsOptimalValue .minLargest k (items.map v) opt)
    (hband : ∀ x ∈ items, 50 * (k : Int) * (v x : Int) ≤ 11 * (k : Int) * opt + 50 * (v x : Int) ∨
      13 * opt ≤ 50 * (v x : Int))
    (h : multifit v k items it = .ok b) :
    ((maxL b.sums : Nat) : Rat) ≤ (61 / 50 + 1 / 2 ^ it) * opt :=
  multifit_ratio_of_ffdFits v hk hopt (by norm_num) (ffdFits_122_of_no_band_k v hk hopt hband (le_refl _)) h

end BandK

/-! ## 6. The window of the levels

Every bin of a counter-example is filled above `B − a`; as everything fits into `k` bins of capacity `T`, no bin
can be filled much higher: `level + (k − 1)·(B + 1 − a) + a ≤ k·T`.

(How this is meant to be used, e.g. for `k = 7`, `B = 1.22·T`, `0.2567·T < a < 0.26·T`, `T = 1`: the window is
`(0.96, 0.985)`; a bin with four items has level `≥ 4a > 1.02`, a bin with two big items and a third item has
level `≥ 2·(0.22 + a) + a > 1.2`, a bin with one big item and two others `≥ 0.22 + 3a > 0.99`: so by
`irred_two_four` the packing is one bin `(f, g)` of two big items and six bins of three items `< 0.48`.  By the
full rule (`strong_later_nofit` / `FFDStrong.rule`) every item of the bins `2..6` is at most the smallest item
`w < 0.3283` of bin `1`, hence `> 0.96 − 2w > 0.30`.  But the `T`-bins of `f` and `g` hold four further items
`< 0.78 − 2a < 0.267` (`big_companions`), three of them packed, necessarily all in bin `1`, whose level would be
`< 0.81`.  This is `irred_seven_eight_false` below.) -/

theorem ce_level_window {v : α → Nat} {T B k : Nat} {LL : List (List α)} {a : α} (h : CE v T B k LL a)
    {l : List α} (hl : l ∈ LL) :
    binSum v l + (k - 1) * (B + 1) + v a ≤ k * T + (k - 1) * v a := by
  obtain ⟨s, t, rfl⟩ := List.append_of_mem hl
  have hlen := h.len
  simp only [List.length_append, List.length_cons] at hlen
  have h1 : ∀ x ∈ (s ++ t).map (binSum v), B + 1 ≤ x + v a := by
    intro x hx
    obtain ⟨l', hl', rfl⟩ := List.mem_map.1 hx
    have : l' ∈ s ++ l :: t := by
      rcases List.mem_append.1 hl' with h' | h'
      · exact List.mem_append_left _ h'
      · exact List.mem_append_right _ (List.mem_cons_of_mem _ h')
    have := h.nofit l' this
    omega
  have h2 := Part.length_mul_le_sumL _ (B + 1) (v a) h1
  rw [Fit.sumL_map_binSum] at h2
  have h3 := packable_sum h.pack
  rw [List.map_append, Part.sumL_append] at h3
  simp only [List.length_map, List.length_append] at h2
  have e0 : k - 1 = s.length + t.length := by omega
  have e1 : binSum v (s ++ l :: t).flatten = binSum v l + binSum v (s ++ t).flatten := by
    simp only [List.flatten_append, List.flatten_cons, Fit.binSum_append]
    omega
  have e2 : sumL ((s ++ l :: t).flatten.map v) = binSum v (s ++ l :: t).flatten := rfl
  simp only [List.map_cons, List.map_nil, sumL] at h3
  rw [e0]
  omega

/-! ## 6b. Seven and eight bins -/

/-- a *tiny* value: it can share a bin of a `T`-schedule with a big value and a further item -/
def tinyV (T B a : Nat) (x : Nat) : Bool := decide (x + B + 2 * a < 2 * T)

theorem countP_flatten_one {β : Type} (P : β → Bool) (LL : List (List β)) (j : Nat) (hj : j < LL.length)
    (h0 : ∀ (i : Nat) (l : List β), LL[i]? = some l → i ≠ j → ∀ x ∈ l, P x = false) :
    LL.flatten.countP P = LL[j].countP P := by
  have p1 := flatten_perm_getElem_eraseIdx LL j hj
  rw [p1.countP_eq, List.countP_append]
  have : (LL.eraseIdx j).flatten.countP P = 0 := by
    rw [List.countP_eq_zero]
    intro x hx
    obtain ⟨l, hl, hxl⟩ := List.mem_flatten.1 hx
    obtain ⟨i, hij, hli⟩ := List.mem_eraseIdx_iff_getElem?.1 hl
    simp [h0 i l hli hij x hxl]
  omega

/-- **No irreducible counter-example with seven or eight bins** for a capacity `B > 61/50 · T − 1` (bins within
    the capacity); likewise with 8 or 9 bins for `B > 11/9 · T − 1`, and with 11 or 12 bins for
    `B > 16/13 · T − 1`, and with 5 bins for `B > 6/5 · T − 1`.  The window of the levels excludes bins of four items, so there is a bin of two (big) items
    and a bin of three; by the full rule the items of the bins of three after the first one are at most its
    smallest item, hence too large to be tiny; so the first bin of three would hold three tiny items (the
    companions of the two big items in the `T`-schedule), and its level would be too low. -/
theorem irred_window_false {v : α → Nat} {T B k : Nat} (hTB : T ≤ B)
    (hcase : (61 * T < 50 * (B + 1) ∧ (k = 7 ∨ k = 8)) ∨ (11 * T < 9 * (B + 1) ∧ (k = 8 ∨ k = 9)) ∨
      (16 * T < 13 * (B + 1) ∧ (k = 11 ∨ k = 12)) ∨ (6 * T < 5 * (B + 1) ∧ k = 5))
    {LL : List (List α)} {a : α} (h : Irred v T B k LL a)
    (hcap : ∀ l ∈ LL, binSum v l ≤ B) : False := by
  rcases hcase with ⟨hB, rfl | rfl⟩ | ⟨hB, rfl | rfl⟩ | ⟨hB, rfl | rfl⟩ | ⟨hB, rfl⟩
  all_goals
    have ht := irred_tight hTB h
    have hce := h.1.toCE
    have hvol := ce_volume hce
    have h3a := tight_three_le hTB ht.toTight
    have haT := hce.item_le
    have hband := ce_band hTB hce
    have ha4 : T < 4 * v a := by omega
    have hb : B + 3 * v a < 2 * T := by omega
    obtain ⟨h24, hcount⟩ := irred_two_four hTB h ha4 (by omega) hcap
    have hwin := fun l (hl : l ∈ LL) => ce_level_window hce hl
    simp only [Nat.add_one_sub_one] at hwin
    have hmin : ∀ l ∈ LL, ∀ p ∈ l, v a ≤ v p :=
      fun l hl p hp => hce.amin p (List.mem_flatten.2 ⟨l, hl, hp⟩)
    have htop : ∀ l ∈ LL, ∀ p ∈ l, v p + 2 * v a ≤ T :=
      fun l hl p hp => ht.top p (List.mem_flatten.2 ⟨l, hl, hp⟩)
    -- no bin with four items
    have hno4 : ∀ l ∈ LL, l.length ≠ 4 := by
      intro l hl h4
      have h1 := Part.length_mul_le_sumL (l.map v) (v a) 0 (fun y hy => by
        obtain ⟨p, hp, rfl⟩ := List.mem_map.1 hy
        have := hmin l hl p hp; omega)
      have h2 := hwin l hl
      simp only [List.length_map, h4] at h1
      have e : binSum v l = sumL (l.map v) := rfl
      omega
    have hc4 : LL.countP (fun l => decide (l.length = 4)) = 0 := by
      rw [List.countP_eq_zero]
      intro l hl
      simpa using hno4 l hl
    have hc2 : LL.countP (fun l => decide (l.length = 2)) = 1 := by omega
    have hlen23 : ∀ l ∈ LL, l.length = 2 ∨ l.length = 3 := by
      intro l hl
      have := h24 l hl; have := hno4 l hl; omega
    -- bins of two hold big items, bins of three do not
    have hpair : ∀ l ∈ LL, l.length = 2 → ∀ p ∈ l, B + v a < v p + T := by
      intro l hl h2 p hp
      match l, h2, hl, hp with
      | [x, y], _, hl, hp =>
        obtain ⟨bx, by'⟩ := tight_pair_big ht.toTight hl
        simp only [List.mem_cons, List.not_mem_nil, or_false] at hp
        rcases hp with rfl | rfl
        · exact bx
        · exact by'
    -- a bin of two and a bin of three
    obtain ⟨l2, hl2, hl2len⟩ : ∃ l ∈ LL, l.length = 2 := by
      have : 0 < LL.countP (fun l => decide (l.length = 2)) := by omega
      obtain ⟨l, hl, hp⟩ := List.countP_pos_iff.1 this
      exact ⟨l, hl, by simpa using hp⟩
    obtain ⟨l3, hl3, hl3len⟩ : ∃ l ∈ LL, l.length = 3 := by
      apply Classical.byContradiction
      intro hno
      have hall : ∀ l ∈ LL, decide (l.length = 2) = true := by
        intro l hl
        rcases hlen23 l hl with h2 | h3
        · simpa using h2
        · exact absurd ⟨l, hl, h3⟩ hno
      have := List.countP_eq_length.2 hall
      have := hce.len
      omega
    -- the first bin of three
    obtain ⟨j0, hj0, e3⟩ := List.mem_iff_getElem.1 hl3
    obtain ⟨j1, ⟨l1, hl1, hl1len⟩, hleast⟩ :=
      exists_least (P := fun (j : Nat) => ∃ l : List α, LL[j]? = some l ∧ l.length = 3) j0
        ⟨LL[j0], List.getElem?_eq_getElem hj0, by rw [e3]; exact hl3len⟩
    have hl1mem := List.mem_of_getElem? hl1
    have hsort := ht.strong.sorted l1 hl1mem
    match l1, hl1len, hl1, hl1mem, hsort with
    | [hh, s, w], _, hl1, hl1mem, hsort =>
    have hs1 : v s ≤ v hh := (List.pairwise_cons.1 hsort).1 s (by simp)
    have hs2 : v w ≤ v s := (List.pairwise_cons.1 (List.pairwise_cons.1 hsort).2).1 w (by simp)
    have hwin1 := hwin _ hl1mem
    have hnf1 := hce.nofit _ hl1mem
    simp only [binSum, List.map_cons, List.map_nil, sumL] at hwin1 hnf1
    have hwa := hmin _ hl1mem w (by simp)
    have hh1 := htop _ hl1mem hh (by simp)
    -- no item outside this bin is tiny
    have hnt : ∀ (i : Nat) (l : List α), LL[i]? = some l → i ≠ j1 → ∀ p ∈ l,
        tinyV T B (v a) (v p) = false := by
      intro i l hli hne p hp
      have hl := List.mem_of_getElem? hli
      simp only [tinyV, decide_eq_false_iff_not]
      intro htiny
      rcases hlen23 l hl with h2 | h3
      · have := hpair l hl h2 p hp
        omega
      · have hij : j1 < i := by
          rcases Nat.lt_or_ge i j1 with hlt | hge
          · exact absurd ⟨l, hli, h3⟩ (hleast i hlt)
          · omega
        have hle_w : ∀ q ∈ l, v q ≤ v w := by
          intro q hq
          apply Nat.le_of_not_lt
          intro hlt
          have hr := ht.strong.rule j1 i [hh, s, w] l q hij hl1 hli hq
          have hq1 := htop l hl q hq
          have hnw : ¬ v q ≤ v w := by omega
          by_cases c1 : v q ≤ v hh <;> by_cases c2 : v q ≤ v s <;>
            simp [c1, c2, hnw, binSum, sumL] at hr <;> omega
        have hnf := hce.nofit _ hl
        match l, h3, hl, hp, hle_w, hnf with
        | [p1, p2, p3], _, hl, hp, hle_w, hnf =>
          simp only [binSum, List.map_cons, List.map_nil, sumL] at hnf
          have := hle_w p1 (by simp)
          have := hle_w p2 (by simp)
          have := hle_w p3 (by simp)
          simp only [List.mem_cons, List.not_mem_nil, or_false] at hp
          rcases hp with rfl | rfl | rfl <;> omega
    have hj1 : j1 < LL.length := (List.getElem?_eq_some_iff.1 hl1).1
    have hLj1 : LL[j1] = [hh, s, w] := (List.getElem?_eq_some_iff.1 hl1).2
    have hcLL := countP_flatten_one (fun x => tinyV T B (v a) (v x)) LL j1 hj1 hnt
    rw [hLj1] at hcLL
    -- the schedule: the bins of the two big items hold four tiny values
    obtain ⟨Q, hQk, hQp, hQ⟩ := packable_partition hce.pack
    have hQ3 := irred_opt_bins_eq_three hTB h ha4 Q hQk hQp hQ
    have hge : ∀ O ∈ Q, ∀ u ∈ O, v a ≤ u := by
      intro O hO u hu
      obtain ⟨p, hp, rfl⟩ := List.mem_map.1 (hQp.mem_iff.1 (List.mem_flatten.2 ⟨O, hO, hu⟩))
      rcases List.mem_append.1 hp with hp | hp
      · exact hce.amin p hp
      · simp only [List.mem_singleton] at hp; subst hp; exact Nat.le_refl _
    have hbigbin : ∀ O ∈ Q, ∀ b ∈ O, B + v a < b + T →
        (∀ c ∈ O.erase b, ¬ (B + v a < c + T)) ∧ 2 ≤ (O.erase b).countP (tinyV T B (v a)) := by
      intro O hO b hb' hbig
      have pO := List.perm_cons_erase hb'
      have hlenO : (O.erase b).length = 2 := by
        have := pO.length_eq; rw [hQ3 O hO] at this; simp only [List.length_cons] at this; omega
      have hsum := hQ O hO
      rw [Part.sumL_perm pO] at hsum
      have hmem : ∀ c ∈ O.erase b, v a ≤ c := fun c hc => hge O hO c (List.mem_of_mem_erase hc)
      match hOe : O.erase b, hlenO with
      | [p, q], _ =>
        rw [hOe] at hsum hmem
        have := hmem p (by simp)
        have := hmem q (by simp)
        simp only [sumL] at hsum
        constructor
        · intro c hc
          simp only [List.mem_cons, List.not_mem_nil, or_false] at hc
          rcases hc with rfl | rfl <;> omega
        · have tp : tinyV T B (v a) p = true := by simp only [tinyV, decide_eq_true_eq]; omega
          have tq : tinyV T B (v a) q = true := by simp only [tinyV, decide_eq_true_eq]; omega
          simp [tp, tq]
    match l2, hl2len, hl2 with
    | [x, y], _, hl2 =>
    obtain ⟨bx, by'⟩ := tight_pair_big ht.toTight hl2
    obtain ⟨j2, hj2, e2⟩ := List.mem_iff_getElem.1 hl2
    have psplit : ((LL.flatten ++ [a]).map v).Perm
        (v x :: v y :: ((LL.eraseIdx j2).flatten ++ [a]).map v) := by
      have := ce_split (List.getElem?_eq_getElem hj2) a v
      rw [e2] at this
      exact this
    have hfQ : v x ∈ Q.flatten := (hQp.trans psplit).mem_iff.2 (by simp)
    obtain ⟨Of, hOf, hfOf⟩ := List.mem_flatten.1 hfQ
    have pQ := List.perm_cons_erase hOf
    have pOf := List.perm_cons_erase hfOf
    have hZ : Q.flatten.Perm (v x :: (Of.erase (v x) ++ (Q.erase Of).flatten)) := by
      refine pQ.flatten.trans ?_
      simp only [List.flatten_cons]
      exact pOf.append_right _
    have hg : v y ∈ Of.erase (v x) ++ (Q.erase Of).flatten :=
      ((hZ.symm.trans (hQp.trans psplit)).cons_inv).mem_iff.2 (by simp)
    obtain ⟨hf1, hf2⟩ := hbigbin Of hOf (v x) hfOf bx
    have hg' : v y ∈ (Q.erase Of).flatten := by
      rcases List.mem_append.1 hg with hg | hg
      · exact absurd by' (hf1 _ hg)
      · exact hg
    obtain ⟨Og, hOg, hgOg⟩ := List.mem_flatten.1 hg'
    obtain ⟨_, hg2⟩ := hbigbin Og (List.mem_of_mem_erase hOg) (v y) hgOg by'
    have pQ2 := List.perm_cons_erase hOg
    have pOg := List.perm_cons_erase hgOg
    have hcQ : 4 ≤ Q.flatten.countP (tinyV T B (v a)) := by
      have e1 : Q.flatten.countP (tinyV T B (v a)) =
          Of.countP (tinyV T B (v a)) + (Q.erase Of).flatten.countP (tinyV T B (v a)) := by
        rw [pQ.flatten.countP_eq, List.flatten_cons, List.countP_append]
      have e2' : (Q.erase Of).flatten.countP (tinyV T B (v a)) =
          Og.countP (tinyV T B (v a)) + ((Q.erase Of).erase Og).flatten.countP (tinyV T B (v a)) := by
        rw [pQ2.flatten.countP_eq, List.flatten_cons, List.countP_append]
      have e3' : (Of.erase (v x)).countP (tinyV T B (v a)) ≤ Of.countP (tinyV T B (v a)) := by
        rw [pOf.countP_eq, List.countP_cons]; omega
      have e4' : (Og.erase (v y)).countP (tinyV T B (v a)) ≤ Og.countP (tinyV T B (v a)) := by
        rw [pOg.countP_eq, List.countP_cons]; omega
      omega
    have hcAll : 3 ≤ LL.flatten.countP (fun x => tinyV T B (v a) (v x)) := by
      have e1 := hQp.countP_eq (tinyV T B (v a))
      rw [List.map_append, List.countP_append, List.countP_map] at e1
      have e2' : ([a].map v).countP (tinyV T B (v a)) ≤ 1 := by
        have := List.countP_le_length (p := tinyV T B (v a)) (l := [a].map v)
        simpa using this
      have e3' : LL.flatten.countP (tinyV T B (v a) ∘ v) = LL.flatten.countP (fun x => tinyV T B (v a) (v x)) := rfl
      omega
    have hall3 : ∀ q ∈ [hh, s, w], tinyV T B (v a) (v q) = true := by
      have h1 := List.countP_le_length (p := fun x => tinyV T B (v a) (v x)) (l := [hh, s, w])
      simp only [List.length_cons, List.length_nil] at h1
      have h2 : [hh, s, w].countP (fun x => tinyV T B (v a) (v x)) = [hh, s, w].length := by
        simp only [List.length_cons, List.length_nil]; omega
      exact List.countP_eq_length.1 h2
    have t1 := hall3 hh (by simp)
    have t2 := hall3 s (by simp)
    have t3 := hall3 w (by simp)
    simp only [tinyV, decide_eq_true_eq] at t1 t2 t3
    omega

theorem irred_seven_eight_false {v : α → Nat} {T B k : Nat} (hk : k = 7 ∨ k = 8) (hTB : T ≤ B)
    (hB : 61 * T < 50 * (B + 1)) {LL : List (List α)} {a : α} (h : Irred v T B k LL a)
    (hcap : ∀ l ∈ LL, binSum v l ≤ B) : False :=
  irred_window_false hTB (Or.inl ⟨hB, hk⟩) h hcap

section EightBins
variable (v : α → Nat)

/-- **First-fit-decreasing with capacity above `61/50 · T` fits into `k ≤ 8` bins** whenever the values fit into
    `k` bins of capacity `T`. -/
theorem ffd_fold_fits_122_k8 {k : Nat} (hk : 0 < k) (hk8 : k ≤ 8) {T B : Nat} (hTB : T ≤ B)
    (hB : 61 * T < 50 * (B + 1)) (xs : List α) (hS : xs.Pairwise (fun a c => v c ≤ v a))
    (hp : Packable T k (xs.map v)) (hall : ∀ x ∈ xs, v x ≤ B) :
    (xs.foldl (ffStep v B) (Bins.new 1)).lists.length ≤ k := by
  apply Nat.le_of_not_lt
  intro hover
  obtain ⟨a, _, k', LL, hk', hi, ht, hcap⟩ := ffd_overflow_irred_cap v hk hTB hS hp hall hover
  rcases Nat.lt_or_ge k' 7 with h6 | h7
  · exact tight_small_k hTB hB (by omega) ht.toTight
  · exact irred_seven_eight_false (by omega) hTB hB hi hcap

theorem ffd_fits_122_k8 {k : Nat} (hk : 0 < k) (hk8 : k ≤ 8) {xs : List α}
    (hS : xs.Pairwise (fun a c => v c ≤ v a)) {T : Nat} (hp : Packable T k (xs.map v)) {B : Nat}
    (hTB : T ≤ B) (hB : 61 * T < 50 * (B + 1)) {b : Bins α} (h : ffOnline v B xs = .ok b) :
    b.lists.length ≤ k := by
  simp only [ffOnline, Fit.ffLoop_eq] at h
  have hall := Fit.gen_ok_all_le h
  rw [Fit.genLoop_ok v B _ xs _ hall] at h
  cases h
  exact ffd_fold_fits_122_k8 v hk hk8 hTB hB xs hS hp hall

/-- `FfdFits ρ` for every `ρ ≥ 61/50` and at most eight bins -/
theorem ffdFits_122_k8 {k : Nat} (hk : 0 < k) (hk8 : k ≤ 8) {items : List α} {opt : Int}
    (hopt : IsOptimalValue .minLargest k (items.map v) opt) {ρ : Rat} (hρ : 61 / 50 ≤ ρ) :
    FfdFits v k (sortDesc v items) ρ opt := by
  obtain ⟨T, rfl, hp⟩ := packable_of_opt hopt
  have hsp := Part.sortDesc_perm v items
  have hp' : Packable T k ((sortDesc v items).map v) := packable_perm (hsp.map v).symm hp
  have hM : ∀ x ∈ sortDesc v items, v x ≤ T :=
    fun x hx => packable_item_le hp' (List.mem_map_of_mem hx)
  intro c hc
  have hT0 : (0 : Rat) ≤ (T : Rat) := by positivity
  have hc' : 61 / 50 * (T : Rat) ≤ c := by
    push_cast at hc
    nlinarith
  obtain ⟨b', e', _, q2, _⟩ := Part.ffOnline_of_cap v (sortDesc v items) hM c (by linarith)
  refine ⟨b'.sums.length, by simp only [ffCount, e']; rfl, ?_⟩
  rw [Part.consistent_length v q2]
  have hTB : T ≤ floorNat c := Part.le_floorNat T c (by linarith)
  have hB := Part.lt_floorNat_succ (61 * T) 100 c (by omega) (by push_cast; linarith)
  exact ffd_fits_122_k8 v hk hk8 (Part.sortDesc_sorted v items) hp' hTB (by omega) e'

/-- **Multifit, `61/50 + 2^−it`, for at most eight bins** (unconditional in the input).  For `k ≥ 9` see
    `multifit_ratio_122_partial_k`. -/
theorem multifit_ratio_122_k8 {k : Nat} {items : List α} {it : Nat} {b : Bins α} (hk : 0 < k)
    (hk8 : k ≤ 8) {opt : Int} (hopt : IsOptimalValue .minLargest k (items.map v) opt)
    (h : multifit v k items it = .ok b) :
    ((maxL b.sums : Nat) : Rat) ≤ (61 / 50 + 1 / 2 ^ it) * opt :=
  multifit_ratio_of_ffdFits v hk hopt (by norm_num) (ffdFits_122_k8 v hk hk8 hopt (le_refl _)) h

end EightBins

section OtherConstants
variable (v : α → Nat)

/-- the generic pipeline: if no irreducible counter-example with at most `k` bins exists for the capacities
    `B ≥ T` with `p·T < q·(B + 1)`, then `FfdFits ρ` holds for every `ρ ≥ p/q` -/
theorem ffdFits_of_no_irred {k : Nat} (hk : 0 < k) {items : List α} {opt : Int}
    (hopt : IsOptimalValue .minLargest k (items.map v) opt) {ρ : Rat} {p q : Nat} (hq : 0 < q) (hpq : q ≤ p)
    (hρ : (p : Rat) / (q : Rat) ≤ ρ)
    (hno : ∀ T B : Nat, T ≤ B → p * T < q * (B + 1) → ∀ k', k' ≤ k → ∀ (LL : List (List α)) (a : α),
      Irred v T B k' LL a → (∀ l ∈ LL, binSum v l ≤ B) → False) :
    FfdFits v k (sortDesc v items) ρ opt := by
  obtain ⟨T, rfl, hp⟩ := packable_of_opt hopt
  have hsp := Part.sortDesc_perm v items
  have hp' : Packable T k ((sortDesc v items).map v) := packable_perm (hsp.map v).symm hp
  have hM : ∀ x ∈ sortDesc v items, v x ≤ T :=
    fun x hx => packable_item_le hp' (List.mem_map_of_mem hx)
  intro c hc
  have hT0 : (0 : Rat) ≤ (T : Rat) := by positivity
  have hq' : (0 : Rat) < (q : Rat) := by exact_mod_cast hq
  have hpq' : (q : Rat) ≤ (p : Rat) := by exact_mod_cast hpq
  have h1 : (1 : Rat) ≤ (p : Rat) / (q : Rat) := by rw [le_div_iff₀ hq']; linarith
  have hc1 : ρ * (T : Rat) ≤ c := by push_cast at hc; exact hc
  have hc' : (p : Rat) / (q : Rat) * (T : Rat) ≤ c := le_trans (mul_le_mul_of_nonneg_right hρ hT0) hc1
  have hTc : (T : Rat) ≤ c := by nlinarith
  obtain ⟨b', e', _, q2, _⟩ := Part.ffOnline_of_cap v (sortDesc v items) hM c hTc
  refine ⟨b'.sums.length, by simp only [ffCount, e']; rfl, ?_⟩
  rw [Part.consistent_length v q2]
  have hTB : T ≤ floorNat c := Part.le_floorNat T c hTc
  have hlt := MultiFit122.lt_floorNat_add_one c
  have h2 : (p : Rat) * (T : Rat) < (((floorNat c : Nat) : Rat) + 1) * (q : Rat) := by
    have e : (p : Rat) / (q : Rat) * (T : Rat) = ((p : Rat) * (T : Rat)) / (q : Rat) := by ring
    have h3 := lt_of_le_of_lt hc' hlt
    rw [e, div_lt_iff₀ hq'] at h3
    exact h3
  have hB : p * T < q * (floorNat c + 1) := by
    have : ((p * T : Nat) : Rat) < ((q * (floorNat c + 1) : Nat) : Rat) := by push_cast; linarith
    exact_mod_cast this
  -- the run
  have h := e'
  simp only [ffOnline, Fit.ffLoop_eq] at h
  have hall := Fit.gen_ok_all_le h
  rw [Fit.genLoop_ok v (floorNat c) _ _ _ hall] at h
  cases h
  apply Nat.le_of_not_lt
  intro hover
  obtain ⟨a, _, k', LL, hk', hi, _, hcap⟩ :=
    ffd_overflow_irred_cap v hk hTB (Part.sortDesc_sorted v items) hp' hall hover
  exact hno T (floorNat c) hTB hB k' hk' LL a hi hcap

/-- **Multifit, `11/9 + 2^−it`, for at most nine bins.** -/
theorem multifit_ratio_11_9_k9 {k : Nat} {items : List α} {it : Nat} {b : Bins α} (hk : 0 < k)
    (hk9 : k ≤ 9) {opt : Int} (hopt : IsOptimalValue .minLargest k (items.map v) opt)
    (h : multifit v k items it = .ok b) :
    ((maxL b.sums : Nat) : Rat) ≤ (11 / 9 + 1 / 2 ^ it) * opt := by
  refine multifit_ratio_of_ffdFits v hk hopt (by norm_num) ?_ h
  refine ffdFits_of_no_irred v hk hopt (p := 11) (q := 9) (by decide) (by decide) (by norm_num) ?_
  intro T B hTB hB k' hk' LL a hi hcap
  rcases Nat.lt_or_ge k' 8 with h7 | h8
  · exact tight_k hTB (k := 7) (by decide) (by omega) (irred_tight hTB hi).toTight (by omega)
  · exact irred_window_false hTB (Or.inr (Or.inl ⟨hB, by omega⟩)) hi hcap

/-- **Multifit, `16/13 + 2^−it`, for at most twelve bins.** -/
theorem multifit_ratio_16_13_k12 {k : Nat} {items : List α} {it : Nat} {b : Bins α} (hk : 0 < k)
    (hk12 : k ≤ 12) {opt : Int} (hopt : IsOptimalValue .minLargest k (items.map v) opt)
    (h : multifit v k items it = .ok b) :
    ((maxL b.sums : Nat) : Rat) ≤ (16 / 13 + 1 / 2 ^ it) * opt := by
  refine multifit_ratio_of_ffdFits v hk hopt (by norm_num) ?_ h
  refine ffdFits_of_no_irred v hk hopt (p := 16) (q := 13) (by decide) (by decide) (by norm_num) ?_
  intro T B hTB hB k' hk' LL a hi hcap
  rcases Nat.lt_or_ge k' 11 with h10 | h11
  · exact tight_k hTB (k := 10) (by decide) (by omega) (irred_tight hTB hi).toTight (by omega)
  · exact irred_window_false hTB (Or.inr (Or.inr (Or.inl ⟨hB, by omega⟩))) hi hcap

/-- **Multifit, `6/5 + 2^−it`, for at most five bins.** -/
theorem multifit_ratio_6_5_k5 {k : Nat} {items : List α} {it : Nat} {b : Bins α} (hk : 0 < k)
    (hk5 : k ≤ 5) {opt : Int} (hopt : IsOptimalValue .minLargest k (items.map v) opt)
    (h : multifit v k items it = .ok b) :
    ((maxL b.sums : Nat) : Rat) ≤ (6 / 5 + 1 / 2 ^ it) * opt := by
  refine multifit_ratio_of_ffdFits v hk hopt (by norm_num) ?_ h
  refine ffdFits_of_no_irred v hk hopt (p := 6) (q := 5) (by decide) (by decide) (by norm_num) ?_
  intro T B hTB hB k' hk' LL a hi hcap
  rcases Nat.lt_or_ge k' 5 with h4 | h5
  · exact tight_k hTB (k := 4) (by decide) (by omega) (irred_tight hTB hi).toTight (by omega)
  · exact irred_window_false hTB (Or.inr (Or.inr (Or.inr ⟨hB, by omega⟩))) hi hcap

end OtherConstants

/-! ## 7. Non-vacuity -/

/-- domination with three values: `[2, 2, 2] ≤ [3, 2, 2]` pointwise; the values `[3, 2, 2] ++ [2, 2, 1]` are
    scheduled as `[2, 2, 2] ++ [3, 2, 1]`, and the bin of `[3, 2, 1]` takes `[2, 2, 1]` -/
example : Packable 6 1 [2, 2, 1] :=
  packable_of_dom (O := [2, 2, 2]) (L' := [3, 2, 2]) (L'' := []) (X := [3, 2, 1])
    (List.Forall₂.cons (by decide) (List.Forall₂.cons (by decide) (List.Forall₂.cons (by decide) List.Forall₂.nil)))
    (partition_packable [[3, 2, 1]] rfl (by decide) (by decide)) (by decide)

/-- in the tight counter-example `[3, 3], [2, 2, 2]` / `2` (`T = B = 7`) the bin `[3, 3]` holds two big items -/
example : 7 + id 2 < id 3 + 7 ∧ 7 + id 2 < id 3 + 7 :=
  tight_pair_big stight_example.toTight (x := 3) (y := 3) (by simp)

/-- dropping the bin `[6]` of the packing, which dominates the bin `[6]` of the schedule -/
example : CE id 7 7 2 (([[6], [3, 3], [2, 2, 2]] : List (List Nat)).eraseIdx 0) 2 := by
  have hs : SCE id 7 7 3 [[6], [3, 3], [2, 2, 2]] 2 := by
    refine ⟨rfl, ?_, by decide, by decide, by decide, ?_⟩
    · have := ffdStrong_fold (v := id) (B := 7) [6, 3, 3, 2, 2, 2] (by decide) (by decide)
      exact this
    · exact partition_packable [[6], [3, 2, 2], [3, 2, 2]] rfl (by decide) (by decide)
  exact ce_drop_of_dominated hs.toCE [[6], [3, 2, 2], [3, 2, 2]] rfl (by decide) (by decide) (O := [6])
    (by decide) (j := 0) (l := [6]) rfl (L' := [6]) (L'' := []) (by decide)
    (List.Forall₂.cons (by decide) List.Forall₂.nil)

/-- seven bins, `OPT = 100`: the items `26` are not below `0.26·OPT`, the items `25` satisfy
    `50·7·25 = 8750 ≤ 11·7·100 + 50·25 = 8950` (they are below `0.22·7/6·OPT = 25.67`), although `25` lies in
    the band `(22, 26)` of `multifit_ratio_122_partial` -/
example : ∀ x ∈ [48, 48, 26, 26, 25, 25], 50 * ((7 : Nat) : Int) * ((id x : Nat) : Int) ≤
    11 * ((7 : Nat) : Int) * 100 + 50 * ((id x : Nat) : Int) ∨ 13 * (100 : Int) ≤ 50 * ((id x : Nat) : Int) := by
  decide

example : ∃ b, multifit id 2 [3, 3, 2, 2, 2] 10 = .ok b ∧
    ((maxL b.sums : Nat) : Rat) ≤ (61 / 50 + 1 / 2 ^ 10) * ((6 : Int) : Rat) := by
  obtain ⟨b, h, _⟩ := Part.multifit_perm (v := id) (k := 2) (items := [3, 3, 2, 2, 2]) (it := 10)
    (by decide) (by decide)
  exact ⟨b, h, multifit_ratio_122_partial_k id (by decide) opt_33222 (by decide) h⟩

/-- capacity `61` for `T = 50`, two bins: the band for `k = 2` is empty (`2·(62 − 50) > x` for every `x ≤ 16`,
    and `50 < 4x`, `100 ≤ 61 + 3x` for `x ≥ 13`) -/
example : ([20, 20, 15, 15, 15, 15].foldl (ffStep id 61) (Bins.new 1)).lists.length ≤ 2 :=
  ffd_fold_fits_of_no_band_k id (by decide) (T := 50) (by decide) _ (by decide)
    (partition_packable [[20, 15, 15], [20, 15, 15]] rfl (by decide) (by decide)) (by decide)
    (by simp [OutOfBandK])

/-- the window in the tight example `[3, 3], [2, 2, 2]` / `2` (`T = B = 7`): `6 + 1·8 + 2 ≤ 2·7 + 1·2` -/
example : binSum id [3, 3] + (2 - 1) * (7 + 1) + id 2 ≤ 2 * 7 + (2 - 1) * id 2 :=
  ce_level_window stight_example.toSCE.toCE (l := [3, 3]) (by simp)

/-- eight bins, `T = 200`, capacity `244` (`61·200 < 50·245`): the items `51` lie in the band for `k = 8`
    (`0.2514·200 < 51 < 0.26·200`), the items `98` are big (`> 244 − 200 + 51`); first-fit-decreasing packs
    four bins `[98, 98]` (a `51` does not fit: `247`) and four bins of four `51` -/
example : ([98, 98, 98, 98, 98, 98, 98, 98, 51, 51, 51, 51, 51, 51, 51, 51, 51, 51, 51, 51, 51, 51, 51, 51].foldl
    (ffStep id 244) (Bins.new 1)).lists.length ≤ 8 :=
  ffd_fold_fits_122_k8 id (by decide) (by decide) (T := 200) (by decide) (by decide) _ (by decide)
    (partition_packable [[98, 51, 51], [98, 51, 51], [98, 51, 51], [98, 51, 51], [98, 51, 51], [98, 51, 51],
      [98, 51, 51], [98, 51, 51]] rfl (by decide) (by decide)) (by decide)

example : ∃ b, multifit id 2 [3, 3, 2, 2, 2] 10 = .ok b ∧
    ((maxL b.sums : Nat) : Rat) ≤ (61 / 50 + 1 / 2 ^ 10) * ((6 : Int) : Rat) := by
  obtain ⟨b, h, _⟩ := Part.multifit_perm (v := id) (k := 2) (items := [3, 3, 2, 2, 2]) (it := 10)
    (by decide) (by decide)
  exact ⟨b, h, multifit_ratio_122_k8 id (by decide) (by decide) opt_33222 h⟩

example : ∃ b, multifit id 2 [3, 3, 2, 2, 2] 10 = .ok b ∧
    ((maxL b.sums : Nat) : Rat) ≤ (11 / 9 + 1 / 2 ^ 10) * ((6 : Int) : Rat) ∧
    ((maxL b.sums : Nat) : Rat) ≤ (16 / 13 + 1 / 2 ^ 10) * ((6 : Int) : Rat) ∧
    ((maxL b.sums : Nat) : Rat) ≤ (6 / 5 + 1 / 2 ^ 10) * ((6 : Int) : Rat) := by
  obtain ⟨b, h, _⟩ := Part.multifit_perm (v := id) (k := 2) (items := [3, 3, 2, 2, 2]) (it := 10)
    (by decide) (by decide)
  exact ⟨b, h, multifit_ratio_11_9_k9 id (by decide) (by decide) opt_33222 h,
    multifit_ratio_16_13_k12 id (by decide) (by decide) opt_33222 h,
    multifit_ratio_6_5_k5 id (by decide) (by decide) opt_33222 h⟩

end Prtpy.MultiFit122B

/-
#print axioms Prtpy.MultiFit122B.packable_of_dom
#print axioms Prtpy.MultiFit122B.irred_not_dominated
#print axioms Prtpy.MultiFit122B.irred_two_four
#print axioms Prtpy.MultiFit122B.ffd_overflow_irred_cap
#print axioms Prtpy.MultiFit122B.ffd_fold_fits_of_no_band_k
#print axioms Prtpy.MultiFit122B.multifit_ratio_122_partial_k
#print axioms Prtpy.MultiFit122B.ce_level_window
#print axioms Prtpy.MultiFit122B.irred_seven_eight_false
#print axioms Prtpy.MultiFit122B.multifit_ratio_122_k8
#print axioms Prtpy.MultiFit122B.irred_window_false
#print axioms Prtpy.MultiFit122B.ffdFits_of_no_irred
#print axioms Prtpy.MultiFit122B.multifit_ratio_11_9_k9
#print axioms Prtpy.MultiFit122B.multifit_ratio_16_13_k12
#print axioms Prtpy.MultiFit122B.multifit_ratio_6_5_k5

observed output (each of the fourteen):
'Prtpy.MultiFit122B.<name>' depends on axioms: [propext, Classical.choice, Quot.sound]
-/
