/-
  PrtpyProofs.FFD119GapB — property C09, second instalment on the range `2B/11 < a ≤ B/4` of Johnson's theorem
  (continues `PrtpyProofs.FFD119Gap`; same notation: `a` opened the last bin, `k'` bins in the normal form, `m`
  bins suffice).

  STATUS.  `GapCount B m c` for every `m` — and with it `ffd_eleven_ninths` / `bfd_eleven_ninths` — is still NOT
  proved; neither is it proved on one of the sub-ranges `5a ≤ B`, `B < 5a`, nor a ratio below `5/4` on the whole
  gap.  This file adds proved lemmas toward it (task item (3)):

    §1  `gapCount_of_subranges`          `GapCount` from the two sub-ranges `5a ≤ B` and `B < 5a`
        `gapCountLow_of_le_108`, `gapCountHigh_of_le_100`   what the ratio `5/4` gives on each of them
        `count_of_weights_eleven_ninths`, `gapCount_of_weights`   `GapCount` from a weighting in units of `1/u`: bins
                                         of the run weigh `≥ 9u` up to a total deficit `D`, one-bin collections weigh
                                         `≤ 11u`; then `9u·(k'+1) ≤ 11u·m + 9u + D`, i.e. `9·(k'+1) ≤ 11·m + c` as soon
                                         as `D + 9u ≤ c·u`
    §2  the run's side once and for all: every bin of a normal form of the gap has a size class `t ∈ {1,…,5}`
        (`head_class`), a bin of class `1` is never irregular (`irr_one`), and at most four bins are irregular
        (`nf_irregular_le_four`); `run_side_deficit`: if only irregular bins have a deficit `d`, the total deficit is
        `≤ 4·d`
    §3  the optimum's side: an item that is alone in its bin of the run is alone in every group that fits into
        one bin (`single_alone`); two items above `B/2` never share a group (`two_big_apart`); a group with five
        items has only items `≤ B − 4a` (`five_group_small`), one with `j` items has level `≥ j·a`
    §3b the greedy property on the normal form, pairwise: `nf_next_ge`, `nf_partner_ge`, `nf_single_later`
    §4  a lower bound for what weights can do above `B/5`: the family `[57, 23]ⁿ, 21²ⁿ` (`B = 100`): `FFD = 6`,
        `OPT = 5` for `n = 4` (`ex65_ffd`, `ex65_packable`), ratio `6/5` with last-bin opener `21 ∈ (B/5, B/4]`
-/
import Prtpy
import PrtpyProofs.Fit
import PrtpyProofs.FF17
import PrtpyProofs.FFD
import PrtpyProofs.FFD119
import PrtpyProofs.FFD119Gap
open Prtpy

namespace Prtpy.FFD119GapB

open Prtpy.FFD119 Prtpy.FFD119Gap

/-! ## 1. `GapCount` from sub-ranges, and from a weighting -/

/-- the counting statement on the lower sub-range `2B/11 < a ≤ B/5` -/
def GapCountLow (B m c : Nat) : Prop :=
  ∀ (a : Nat) (Ls : List (List Nat)), 2 * B < 11 * a → 5 * a ≤ B → NF B a Ls →
    Packable B m (Ls.flatten ++ [a]) → 9 * (Ls.length + 1) ≤ 11 * m + c

/-- the counting statement on the upper sub-range `B/5 < a ≤ B/4` -/
def GapCountHigh (B m c : Nat) : Prop :=
  ∀ (a : Nat) (Ls : List (List Nat)), B < 5 * a → 4 * a ≤ B → NF B a Ls →
    Packable B m (Ls.flatten ++ [a]) → 9 * (Ls.length + 1) ≤ 11 * m + c

theorem gapCount_of_subranges {B m c : Nat} (hlow : GapCountLow B m c) (hhigh : GapCountHigh B m c) :
    GapCount B m c := by
  intro a Ls h1 h2 hnf hpk
  by_cases h5 : B < 5 * a
  · exact hhigh a Ls h5 h2 hnf hpk
  · exact hlow a Ls h1 (by omega) hnf hpk

/-- lower sub-range, from the volume bound `5/4` -/
theorem gapCountLow_of_le_108 (B : Nat) {m : Nat} (hm : m ≤ 108) : GapCountLow B m 36 := by
  intro a Ls _ h5 hnf hpk
  have := five_fourths_arith (nf_volume hnf (by omega) hpk) h5
  omega

/-- upper sub-range, from `FFD119.count_fifth_quarter` -/
theorem gapCountHigh_of_le_100 (B : Nat) {m : Nat} (hm : m ≤ 100) : GapCountHigh B m 36 := by
  intro a Ls h5 h4 hnf hpk
  have := count_fifth_quarter hnf h5 h4 hpk
  omega

/-- **`GapCount` from a weighting**, in units of `1/u`: a rule `wts`, the weight `wa` for `a`, deficits `defc` with
    total at most `D`; every bin of the run weighs at least `9u − defc`, every duplicate-free collection of
    decorated items that fits into one bin weighs at most `11u`.  Then `9u·(k' + 1) ≤ 11u·m + 9u + D`. -/
theorem count_of_weights_eleven_ninths {B a m u wa D : Nat} {Ls : List (List Nat)} (wts : List Nat → List Nat)
    (defc : List Nat → Nat) (hrun : ∀ L ∈ Ls, 9 * u ≤ binWt wts L + defc L)
    (hdef : sumL (Ls.map defc) ≤ D)
    (hopt : ∀ T : List DItem, T.Nodup → (∀ e ∈ T, e ∈ decoNF wts a wa Ls) → binSum DItem.val T ≤ B →
      binSum DItem.wt T ≤ 11 * u)
    (hm : Packable B m (Ls.flatten ++ [a])) : 9 * u * (Ls.length + 1) ≤ 11 * u * m + 9 * u + D := by
  have := count_of_weights (lo := 9 * u) (hi := 11 * u) (wa := wa) wts defc hrun hopt hm
  rw [Nat.mul_add, Nat.mul_one]
  omega

/-- the same as a statement `9·(k' + 1) ≤ 11·m + c`, for `D ≤ (c − 9)·u` -/
theorem gapCount_of_weights {B a m u wa c : Nat} {Ls : List (List Nat)} (hu : 0 < u) (wts : List Nat → List Nat)
    (defc : List Nat → Nat) (hrun : ∀ L ∈ Ls, 9 * u ≤ binWt wts L + defc L)
    (hdef : sumL (Ls.map defc) + 9 * u ≤ c * u)
    (hopt : ∀ T : List DItem, T.Nodup → (∀ e ∈ T, e ∈ decoNF wts a wa Ls) → binSum DItem.val T ≤ B →
      binSum DItem.wt T ≤ 11 * u)
    (hm : Packable B m (Ls.flatten ++ [a])) : 9 * (Ls.length + 1) ≤ 11 * m + c := by
  have h := count_of_weights_eleven_ninths (D := sumL (Ls.map defc)) wts defc hrun (Nat.le_refl _) hopt hm
  have h1 : 9 * u * (Ls.length + 1) = u * (9 * (Ls.length + 1)) := by
    rw [Nat.mul_comm 9 u, Nat.mul_assoc]
  have h2 : 11 * u * m = u * (11 * m) := by rw [Nat.mul_comm 11 u, Nat.mul_assoc]
  have h3 : u * (9 * (Ls.length + 1)) ≤ u * (11 * m + c) := by
    have h4 : u * (11 * m + c) = u * (11 * m) + c * u := by rw [Nat.mul_add, Nat.mul_comm u c]
    omega
  exact Nat.le_of_mul_le_mul_left h3 hu

/-! ## 2. The run's side: size classes of the bins, at most four irregular bins -/

/-- in the gap the first item of a bin has a size class `t ∈ {1, …, 5}`: `B/(t+1) < x ≤ B/t` -/
theorem head_class {B a x : Nat} (hgap : 2 * B < 11 * a) (hx : a ≤ x) (hxB : x ≤ B) :
    ∃ t, 1 ≤ t ∧ t ≤ 5 ∧ B < (t + 1) * x ∧ t * x ≤ B := by
  by_cases h2 : B < 2 * x
  · exact ⟨1, by omega, by omega, by omega, by omega⟩
  · by_cases h3 : B < 3 * x
    · exact ⟨2, by omega, by omega, by omega, by omega⟩
    · by_cases h4 : B < 4 * x
      · exact ⟨3, by omega, by omega, by omega, by omega⟩
      · by_cases h5 : B < 5 * x
        · exact ⟨4, by omega, by omega, by omega, by omega⟩
        · exact ⟨5, by omega, by omega, by omega, by omega⟩

/-- a bin whose first item exceeds `B/2` is never irregular -/
theorem irr_one (B : Nat) (L : List Nat) : irr B 1 L = false := by
  match L with
  | [] => rfl
  | x :: r =>
    by_cases h : B < 2 * x
    · have hb : big B 1 x = true := by simpa [big] using h
      have : 1 ≤ (x :: r).countP (big B 1) := by
        rw [List.countP_cons_of_pos hb]; omega
      simp only [irr, Bool.and_eq_false_imp, Bool.and_eq_true, decide_eq_true_eq, decide_eq_false_iff_not]
      intro _
      omega
    · simp only [irr, Bool.and_eq_false_imp, Bool.and_eq_true, decide_eq_true_eq, decide_eq_false_iff_not]
      intro h'
      omega

/-- irregular of one of the classes `2, 3, 4, 5` -/
def irrAny (B : Nat) (L : List Nat) : Bool := irr B 2 L || irr B 3 L || irr B 4 L || irr B 5 L

theorem countP_or_le {β : Type} (p q : β → Bool) : ∀ l : List β,
    l.countP (fun x => p x || q x) ≤ l.countP p + l.countP q
  | [] => by simp
  | x :: l => by
    have ih := countP_or_le p q l
    simp only [List.countP_cons]
    cases hp : p x <;> cases hq : q x <;> simp <;> omega

/-- **at most four bins of a normal form are irregular** -/
theorem nf_irregular_le_four {B a : Nat} {Ls : List (List Nat)} (hnf : NF B a Ls) :
    Ls.countP (irrAny B) ≤ 4 := by
  have h2 := nf_irr_count (t := 2) hnf (by omega)
  have h3 := nf_irr_count (t := 3) hnf (by omega)
  have h4 := nf_irr_count (t := 4) hnf (by omega)
  have h5 := nf_irr_count (t := 5) hnf (by omega)
  have e1 := countP_or_le (fun L => irr B 2 L || irr B 3 L || irr B 4 L) (irr B 5) Ls
  have e2 := countP_or_le (fun L => irr B 2 L || irr B 3 L) (irr B 4) Ls
  have e3 := countP_or_le (irr B 2) (irr B 3) Ls
  have : Ls.countP (irrAny B) = Ls.countP (fun L => (irr B 2 L || irr B 3 L || irr B 4 L) || irr B 5 L) := rfl
  omega

/-- a bin of the gap that is not irregular: its first item has a class `t ≤ 5` and the bin holds at least `t`
    items above `B/(t+1)` -/
theorem regular_bin {B a : Nat} {Ls : List (List Nat)} (hnf : NF B a Ls) (hgap : 2 * B < 11 * a) (haB : a ≤ B)
    {L : List Nat} (hL : L ∈ Ls) (hreg : irrAny B L = false) :
    ∃ x r t, L = x :: r ∧ 1 ≤ t ∧ t ≤ 5 ∧ B < (t + 1) * x ∧ t * x ≤ B ∧ t ≤ L.countP (big B t) := by
  match L, nf_bin_ne_nil hnf haB hL, hL, hreg with
  | x :: r, _, hL, hreg =>
    have hx := hnf.ge _ hL x (by simp)
    have hle := hnf.le _ hL
    simp only [sumL] at hle
    obtain ⟨t, t1, t5, c1, c2⟩ := head_class hgap hx (by omega)
    refine ⟨x, r, t, rfl, t1, t5, c1, c2, ?_⟩
    apply Nat.le_of_not_lt
    intro hlt
    have hirr : irr B t (x :: r) = true := by
      simp only [irr, Bool.and_eq_true, decide_eq_true_eq]
      exact ⟨⟨c1, c2⟩, hlt⟩
    simp only [irrAny, Bool.or_eq_false_iff] at hreg
    have h1 := irr_one B (x :: r)
    have ht : t = 1 ∨ t = 2 ∨ t = 3 ∨ t = 4 ∨ t = 5 := by omega
    rcases ht with rfl | rfl | rfl | rfl | rfl
    · rw [h1] at hirr; cases hirr
    · rw [hreg.1.1.1] at hirr; cases hirr
    · rw [hreg.1.1.2] at hirr; cases hirr
    · rw [hreg.1.2] at hirr; cases hirr
    · rw [hreg.2] at hirr; cases hirr

/-- if only the irregular bins have a deficit (`d` each), the total deficit is at most `4·d` -/
theorem run_side_deficit {B a : Nat} {Ls : List (List Nat)} (hnf : NF B a Ls) (d : Nat) :
    sumL (Ls.map fun L => if irrAny B L then d else 0) ≤ 4 * d := by
  have hc := nf_irregular_le_four hnf
  have hs : ∀ Ms : List (List Nat), sumL (Ms.map fun L => if irrAny B L then d else 0) = d * Ms.countP (irrAny B) := by
    intro Ms
    induction Ms with
    | nil => simp [sumL]
    | cons L Ms ih =>
      simp only [List.map_cons, sumL, ih, List.countP_cons]
      by_cases hp : irrAny B L = true
      · simp only [hp, if_true, Nat.mul_add, Nat.mul_one]; omega
      · simp only [hp, Bool.false_eq_true, if_false, Nat.add_zero]; omega
  rw [hs, Nat.mul_comm 4 d]
  exact Nat.mul_le_mul_left d hc

/-! ## 3. The optimum's side: elementary facts about a group that fits into one bin -/

/-- an item that does not fit together with `a` is alone in every group of items `≥ a` that fits into one bin -/
theorem single_alone {B a x : Nat} {T : List Nat} (hx : B < x + a) (hge : ∀ y ∈ T, a ≤ y)
    (hfit : sumL (x :: T) ≤ B) : T = [] := by
  match T, hge, hfit with
  | [], _, _ => rfl
  | y :: T', hge, hfit =>
    have := hge y (by simp)
    simp only [sumL] at hfit
    omega

/-- two items above `B/2` never fit into one bin -/
theorem two_big_apart {B x y : Nat} {T : List Nat} (hx : B < 2 * x) (hy : B < 2 * y) :
    ¬ sumL (x :: y :: T) ≤ B := by
  simp only [sumL]
  omega

/-- a group of `j` items `≥ a` has level at least `j·a`; with five items every item is at most `B − 4a` -/
theorem five_group_small {B a : Nat} {T : List Nat} (hge : ∀ y ∈ T, a ≤ y) (hfit : sumL T ≤ B)
    (h5 : 5 ≤ T.length) : ∀ y ∈ T, y + 4 * a ≤ B := by
  intro y hy
  obtain ⟨l1, l2, rfl⟩ := List.append_of_mem hy
  have h1 := length_mul_le_sumL l1 (fun z hz => hge z (by simp [hz]))
  have h2 := length_mul_le_sumL l2 (fun z hz => hge z (by simp [hz]))
  rw [Fit.sumL_append] at hfit
  simp only [sumL, List.length_append, List.length_cons] at hfit h5
  have h3 : 4 * a ≤ (l1.length + l2.length) * a := Nat.mul_le_mul_right a (by omega)
  rw [Nat.add_mul] at h3
  omega

/-! ## 3b. The greedy property on the normal form, pairwise

What distinguishes the run from an arbitrary packing with bins filled above `B − a` — and what a weighting for `11/9`
must use (experiments, see the end of the file): the item `z` that opened a later bin did not fit into an earlier
bin, so the part of the earlier bin that arrived before `z` is "closed" for `z`. -/

/-- for an earlier bin `L = p ++ q` and a later bin opened by `z`: if `z` fits on top of `p`, then `q` starts with an
    item `≥ z` -/
theorem nf_next_ge {B a : Nat} {Ls : List (List Nat)} (hnf : NF B a Ls) :
    Ls.Pairwise (fun L L' => ∀ z r' p q, L' = z :: r' → L = p ++ q → sumL p + z ≤ B →
      ∃ y q', q = y :: q' ∧ z ≤ y) :=
  hnf.rel.imp (fun hr z r' p q h1 h2 hfit => by
    subst h1
    exact vrel_next_ge hr h2 hfit)

/-- the partner of a first item: if `z` opened a later bin and `x + z ≤ B`, the bin `x :: r` has a second item `≥ z` -/
theorem nf_partner_ge {B a : Nat} {Ls : List (List Nat)} (hnf : NF B a Ls) :
    Ls.Pairwise (fun L L' => ∀ x r z r', L = x :: r → L' = z :: r' → x + z ≤ B →
      ∃ y r₂, r = y :: r₂ ∧ z ≤ y) :=
  hnf.rel.imp (fun hr x r z r' h1 h2 hfit => by
    subst h1; subst h2
    exact vrel_second_ge hr hfit)

/-- a bin with a single item `x` of a normal form: every later bin was opened by an item that does not fit with `x` -/
theorem nf_single_later {B a : Nat} {Ls : List (List Nat)} (hnf : NF B a Ls) :
    Ls.Pairwise (fun L L' => ∀ x z r', L = [x] → L' = z :: r' → B < x + z) :=
  (nf_partner_ge hnf).imp (fun h x z r' h1 h2 => by
    apply Nat.lt_of_not_le
    intro hle
    obtain ⟨y, r₂, h3, _⟩ := h x [] z r' h1 h2 hle
    cases h3)

/-! ## 4. A lower bound above `B/5`: the ratio `6/5`

`B = 100`, `n` bins `[57, 23]` (`57 + 23 + 21 > 100`), then the items `21` four to a bin; the optimum packs
`{57, 21, 21}` and `{23, 23, 23, 23}`.  With `n = 4`: `FFD = 6`, `OPT = 5`.  For a weighting that bounds every bin
of the optimum separately this family forces the ratio `≥ 6/5` on `B/5 < a ≤ B/4`:
`w(57) + w(23) ≥ 1`, `4·w(21) ≥ 1`, `w(57) + 2·w(21) ≤ ρ`, `4·w(23) ≤ ρ` give `ρ ≥ 6/5` (which is below `11/9`). -/

def ex65 : List Nat := [57, 57, 57, 57, 23, 23, 23, 23, 21, 21, 21, 21, 21, 21, 21, 21]

theorem ex65_ffd : ffDecreasing id 100 ex65 =
    .ok ⟨[80, 80, 80, 80, 84, 84],
      [[57, 23], [57, 23], [57, 23], [57, 23], [21, 21, 21, 21], [21, 21, 21, 21]]⟩ := rfl

theorem ex65_packable : Packable 100 5 (ex65.map id) :=
  ⟨[0, 1, 2, 3, 4, 4, 4, 4, 0, 0, 1, 1, 2, 2, 3, 3], ⟨rfl, by decide⟩, by decide⟩

/-! ## 5. Non-vacuity -/

/-- the counting statement for `m = 3`, assembled from the two sub-ranges -/
example : GapCount 100 3 36 :=
  gapCount_of_subranges (gapCountLow_of_le_108 100 (by decide)) (gapCountHigh_of_le_100 100 (by decide))

example : 9 * (2 + 1) ≤ 11 * 3 + 36 :=
  gapCountHigh_of_le_100 100 (by decide) 23 _ (by decide) (by decide) ex_nf ex_nf_packable

theorem wt_le_val : ∀ T : List DItem, (∀ e ∈ T, e.wt ≤ e.val) → binSum DItem.wt T ≤ binSum DItem.val T
  | [], _ => by simp [binSum, sumL]
  | e :: T, h => by
    have h1 := h e (by simp)
    have ih := wt_le_val T (fun e' he' => h e' (List.mem_cons_of_mem _ he'))
    simp only [Fit.binSum_cons]
    omega

/-- `gapCount_of_weights` on the normal form `[[51, 27], [26, 23, 23, 23]]`, `a = 23`, with the rule `wts2` of
    `FFD119` in units of `1/10` of `9`-ths (`u = 10`: both bins weigh `72 = 90 − 18`, every item weighs less than its
    value, so a collection that fits weighs at most `100 ≤ 110`) -/
example : 9 * (2 + 1) ≤ 11 * 3 + 13 := by
  have hD : decoNF (wts2 100 23) 23 18 [[51, 27], [26, 23, 23, 23]] =
      [⟨51, 48, 0, 0⟩, ⟨27, 24, 0, 1⟩, ⟨26, 24, 1, 0⟩, ⟨23, 18, 1, 1⟩, ⟨23, 18, 1, 2⟩, ⟨23, 18, 1, 3⟩,
        ⟨23, 18, 2, 0⟩] := by decide
  refine gapCount_of_weights (B := 100) (a := 23) (m := 3) (u := 10) (wa := 18) (c := 13)
    (Ls := [[51, 27], [26, 23, 23, 23]]) (by decide) (wts2 100 23) (fun _ => 18) ?_ (by decide) ?_ ex_nf_packable
  · intro L hL
    simp only [List.mem_cons, List.not_mem_nil, or_false] at hL
    rcases hL with rfl | rfl <;> decide
  · intro T _ hTD hTs
    have hw : ∀ e ∈ T, e.wt ≤ e.val := by
      intro e he
      have := hTD e he
      rw [hD] at this
      simp only [List.mem_cons, List.not_mem_nil, or_false] at this
      rcases this with rfl | rfl | rfl | rfl | rfl | rfl | rfl <;> decide
    have := wt_le_val T hw
    omega

example : ∃ t, 1 ≤ t ∧ t ≤ 5 ∧ 100 < (t + 1) * 26 ∧ t * 26 ≤ 100 :=
  head_class (a := 23) (by decide) (by decide) (by decide)

example : [[51, 27], [26, 23, 23, 23]].countP (irrAny 100) ≤ 4 := nf_irregular_le_four ex_nf

/-- the first bin is regular (class `1`), the second one is irregular of class `3` -/
example : irrAny 100 [51, 27] = false := by decide
example : irrAny 100 [26, 23, 23, 23] = true := by decide

example : ∃ x r t, [51, 27] = x :: r ∧ 1 ≤ t ∧ t ≤ 5 ∧ 100 < (t + 1) * x ∧ t * x ≤ 100 ∧
    t ≤ [51, 27].countP (big 100 t) :=
  regular_bin ex_nf (by decide) (by decide) (by simp) (by decide)

example : sumL ([[51, 27], [26, 23, 23, 23]].map fun L => if irrAny 100 L then 18 else 0) ≤ 4 * 18 :=
  run_side_deficit ex_nf 18

example : ([] : List Nat) = [] := single_alone (B := 100) (a := 23) (x := 80) (by decide) (by simp) (by decide)
example : ¬ sumL (51 :: 52 :: []) ≤ 100 := two_big_apart (by decide) (by decide)
example : ∀ y ∈ [20, 20, 20, 20, 20], y + 4 * 19 ≤ 100 :=
  five_group_small (a := 19) (by decide) (by decide) (by decide)

example : [[51, 27], [26, 23, 23, 23]].Pairwise (fun L L' => ∀ x r z r', L = x :: r → L' = z :: r' → x + z ≤ 100 →
    ∃ y r₂, r = y :: r₂ ∧ z ≤ y) := nf_partner_ge ex_nf

/-- the family of §4: `6` bins against `5`, last bin opened by `21 ∈ (20, 25]`; the bound `5/4` of `FFD119` and the
    reduction of `FFD119Gap` (with `m = 5 ≤ 100`) apply -/
example : 9 * 6 ≤ 11 * 5 + 36 :=
  ffd_eleven_ninths_partial_opt_le_100 (by decide) ex65_ffd ex65_packable (by decide)

end Prtpy.FFD119GapB

/-
Notes for the next attempt (scratch experiments, LP with cutting planes, `B = 110`, `a = 22 = B/5`; not part of the
proofs):
* No ratio below `11/9` is possible on the gap: Johnson's family (`FFD.johnson`, `a = 23`, `B = 100`) lies in it; in
  particular `6/5·OPT + c` is false there.  The family of §4 shows `6/5` for weightings that bound every bin of the
  optimum separately, which is below `11/9` and therefore no obstruction.
* Weights that depend only on the size of an item — or on the size and the size class of the first item of its bin —
  with the run's side "every regular bin (`regular_bin`) filled above `B − a` weighs `≥ 1`" cannot beat the volume
  bound `B/(B − a)`: the LP optimum is exactly `B/(B − a + 1)` on the grid (`110/89` for `a = 22`), i.e. `5/4` at
  `a = B/5`.  Tight configurations of the LP solution: a bin `[x, a]` of the run with `x = 67 ≈ 0.6·B` (weights
  `0.753 + 0.247`) against the groups `{67, 43}` (`43` from a bin of class `2`), `{66, 22, 22}`, `{56, 27, 27}` and
  `{22, 22, 22, 22, 22}` of the optimum.  The greedy property excludes the first one when `43` opened its bin
  (`nf_partner_ge`: `67 + 43 ≤ B`, so the partner of `67` would be `≥ 43`).  So the weight of the first item of a bin has
  to depend on its partner (as in `FFD119.wts2`), and the bound for a group of the optimum has to use
  `nf_partner_ge` / `nf_next_ge` for the items that opened bins.

Axiom audit (`#print axioms`, observed with Lean 4.33.0):
#print axioms Prtpy.FFD119GapB.gapCount_of_subranges            -- [propext, Quot.sound]
#print axioms Prtpy.FFD119GapB.gapCountLow_of_le_108            -- [propext, Classical.choice, Quot.sound]
#print axioms Prtpy.FFD119GapB.gapCountHigh_of_le_100           -- [propext, Classical.choice, Quot.sound]
#print axioms Prtpy.FFD119GapB.count_of_weights_eleven_ninths   -- [propext, Classical.choice, Quot.sound]
#print axioms Prtpy.FFD119GapB.gapCount_of_weights              -- [propext, Classical.choice, Quot.sound]
#print axioms Prtpy.FFD119GapB.head_class                       -- [propext, Quot.sound]
#print axioms Prtpy.FFD119GapB.irr_one                          -- [propext, Quot.sound]
#print axioms Prtpy.FFD119GapB.nf_irregular_le_four             -- [propext, Classical.choice, Quot.sound]
#print axioms Prtpy.FFD119GapB.regular_bin                      -- [propext, Quot.sound]
#print axioms Prtpy.FFD119GapB.run_side_deficit                 -- [propext, Classical.choice, Quot.sound]
#print axioms Prtpy.FFD119GapB.single_alone                     -- [propext, Quot.sound]
#print axioms Prtpy.FFD119GapB.two_big_apart                    -- [propext, Quot.sound]
#print axioms Prtpy.FFD119GapB.five_group_small                 -- [propext, Quot.sound]
#print axioms Prtpy.FFD119GapB.nf_next_ge                       -- [propext, Classical.choice, Quot.sound]
#print axioms Prtpy.FFD119GapB.nf_partner_ge                    -- [propext, Classical.choice, Quot.sound]
#print axioms Prtpy.FFD119GapB.nf_single_later                  -- [propext, Classical.choice, Quot.sound]
#print axioms Prtpy.FFD119GapB.ex65_ffd                         -- does not depend on any axioms
#print axioms Prtpy.FFD119GapB.ex65_packable                    -- does not depend on any axioms
-/
