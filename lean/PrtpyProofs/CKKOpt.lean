/-
  PrtpyProofs.CKKOpt — property C02 for complete Karmarkar–Karp (`Prtpy.ckk`, `Prtpy.ckkGen`):
  a run to completion returns a partition whose difference between the largest and the smallest sum is
  the optimum over all partitions of the items into `k` bins.  Both bins managers are covered.

  Main theorems
  * `ckk_optimal`             : `optimal`, contents manager (as stated in the task; `ckk_optimal_of_ok` drops
                                `items ≠ []`, which `… = .ok b` already implies);
  * `ckkGen_last_optimal`     : generator in improve-only mode (`bound = none`): `ys ≠ []`, the last yield is a
                                valid partition with the optimal difference;
  * `ckk_sums_optimal`, `ckkGen_sums_last_optimal` : the same for the sums-only manager (`contents = false`).

  Proof.
  (a) `Reach k Ts u`: the sum-vector `u` is the bin-wise sum of one arrangement (`P.Perm T`) of every tuple `T` of
      `Ts` — the final partitions that a heap with tuples `Ts` *represents*.  `reach_perm`: the order of the tuples
      does not matter (order independence of the merges); `reach_head_perm`: nor does the order of the bins inside
      a tuple (so `Bins.sortAsc`, sorting the items of a bin, `hpush` are harmless); `reach_merge_iff`: two tuples
      can be replaced by one of their `k!` pairings `pairS T1 T2 perm`, `perm` a permutation of `range k`
      (`reach_expand_iff` is the same statement for `hpop`/`allComb`/`hpush`);
      `reach_init_iff_assignment`/`reach_init_iff`: the heap of singletons represents exactly the `sumsOf` of the
      assignments.
      De-duplication: `allCombContents_complete` — the contents manager drops a pairing only if an earlier one
      has the same *lists*; the tuples being consistent (sums = sums of the lists), it then has the same sums,
      so the canonical form of *every* pairing is among the combinations.  For the sums manager this is
      `CKKProofs.allCombSums_complete`.  Both are packaged as `CombComplete`.
  (b) `ckkBound_admissible`: if `ckkBound h k = some lb` then `-(spread u) ≤ lb` for every `u` that `h` represents
      (the largest sum only grows, the smallest final sum is at most `⌊(t - max) / (k - 1)⌋`).
  (c) `CInv`: every leaf (`sumsOf` of an assignment) is no better than the incumbent or represented by a heap on
      the stack; once `done`, no leaf beats the incumbent; `best` is minus the spread of `bestP`, which is the most
      recent yield.  `ckkStep_cinv` discharges the bound prune, the one-tuple heap (incumbent replaced iff strictly
      better, `d == 0` stops) and the expansion, for both managers, using only `HGood` of the stack heaps, which
      follows from `CKKValid.SInv` (contents) resp. `CKKValid.SInvS` (sums, via the shadow heap).
-/
import Prtpy
import PrtpyProofs.CKKValid
import PrtpyProofs.CGOpt
import Mathlib.Data.List.Perm.Basic
open Prtpy

namespace Prtpy.CKKOpt

variable {α : Type}

/-! ## 1. The relation `Reach` -/

/-- `Reach k Ts u`: the sum-vector `u` is obtained by choosing, for every tuple `T` of `Ts`, an arrangement `P`
    of its bins (`P.Perm T`) and adding all the arrangements up bin by bin.  This is the set of final partitions
    that a Karmarkar–Karp heap with tuples `Ts` *represents*. -/
inductive Reach (k : Nat) : List (List Nat) → List Nat → Prop
  | nil : Reach k [] (List.replicate k 0)
  | cons {T P u : List Nat} {Ts : List (List Nat)} :
      P.Perm T → Reach k Ts u → Reach k (T :: Ts) (List.zipWith (· + ·) P u)

theorem zipWith_add_left_comm (a b c : List Nat) :
    List.zipWith (· + ·) a (List.zipWith (· + ·) b c) = List.zipWith (· + ·) b (List.zipWith (· + ·) a c) := by
  apply List.ext_getElem
  · simp only [List.length_zipWith]; omega
  · intro n h1 h2
    simp only [List.getElem_zipWith]; omega

theorem zipWith_add_assoc (a b c : List Nat) :
    List.zipWith (· + ·) a (List.zipWith (· + ·) b c) = List.zipWith (· + ·) (List.zipWith (· + ·) a b) c := by
  apply List.ext_getElem
  · simp only [List.length_zipWith]; omega
  · intro n h1 h2
    simp only [List.getElem_zipWith]; omega

theorem zipWith_add_comm (a b : List Nat) :
    List.zipWith (· + ·) a b = List.zipWith (· + ·) b a := by
  apply List.ext_getElem
  · simp only [List.length_zipWith]; omega
  · intro n h1 h2
    simp only [List.getElem_zipWith]; omega

theorem reach_length {k : Nat} {Ts : List (List Nat)} {u : List Nat} (hl : ∀ T ∈ Ts, T.length = k)
    (h : Reach k Ts u) : u.length = k := by
  induction h with
  | nil => simp
  | @cons T P u Ts hp _ ih =>
    have h1 : P.length = k := by rw [hp.length_eq]; exact hl T List.mem_cons_self
    have h2 := ih (fun T' hT' => hl T' (List.mem_cons_of_mem _ hT'))
    simp [h1, h2]

/-- (a) **order independence**: the order of the tuples in the heap does not matter -/
theorem reach_perm {k : Nat} {Ts Ts' : List (List Nat)} (hp : Ts.Perm Ts') :
    ∀ {u : List Nat}, Reach k Ts u → Reach k Ts' u := by
  induction hp with
  | nil => intro u h; exact h
  | cons T _ ih =>
    intro u h
    cases h with
    | cons hP hr => exact Reach.cons hP (ih hr)
  | swap a b l =>
    intro u h
    cases h with
    | cons hP hr =>
      cases hr with
      | cons hP' hr' =>
        rw [zipWith_add_left_comm]
        exact Reach.cons hP' (Reach.cons hP hr')
  | trans _ _ ih₁ ih₂ => intro u h; exact ih₂ (ih₁ h)

/-- the order of the bins inside a tuple does not matter -/
theorem reach_head_perm {k : Nat} {T T' : List Nat} {Ts : List (List Nat)} {u : List Nat} (hp : T.Perm T')
    (h : Reach k (T :: Ts) u) : Reach k (T' :: Ts) u := by
  cases h with
  | cons hP hr => exact Reach.cons (hP.trans hp) hr

theorem reach_map_congr {β : Type} {k : Nat} {f g : β → List Nat} (xs : List β)
    (hfg : ∀ x ∈ xs, (f x).Perm (g x)) {u : List Nat} (h : Reach k (xs.map f) u) : Reach k (xs.map g) u := by
  induction xs generalizing u with
  | nil => exact h
  | cons x xs ih =>
    simp only [List.map_cons] at h ⊢
    cases h with
    | cons hP hr =>
      exact Reach.cons (hP.trans (hfg x List.mem_cons_self))
        (ih (fun y hy => hfg y (List.mem_cons_of_mem _ hy)) hr)

/-- a heap with a single tuple represents that tuple only -/
theorem reach_single {k : Nat} {T u : List Nat} (hT : T.length = k) (h : Reach k [T] u) : u.Perm T := by
  cases h with
  | cons hP hr =>
    cases hr
    have : k = _ := (hP.length_eq.trans hT).symm
    subst this
    rw [CGOpt.zipWith_add_replicate_zero]
    exact hP

/-! ### pairing two tuples -/

/-- the sums of `pairBy b1 b2 perm` -/
def pairS (T1 T2 : List Nat) (perm : List Nat) : List Nat :=
  List.zipWith (fun p s2 => T1.getD p 0 + s2) perm T2

theorem pairBy_sums (b1 b2 : Bins α) (perm : List Nat) : (pairBy b1 b2 perm).sums = pairS b1.sums b2.sums perm := rfl

/-- a rearrangement of `T` is `T` read through a permutation of the indices -/
theorem perm_eq_map_getD {T : List Nat} : ∀ {P : List Nat}, P.Perm T →
    ∃ perm : List Nat, perm.Perm (List.range T.length) ∧ P = perm.map (fun p => T.getD p 0) := by
  induction T with
  | nil =>
    intro P hp
    have := hp.eq_nil
    subst this
    exact ⟨[], by simp, rfl⟩
  | cons y T ih =>
    intro P hp
    have hy : y ∈ P := hp.symm.subset List.mem_cons_self
    obtain ⟨A, B, rfl⟩ := List.append_of_mem hy
    have hAB : (A ++ B).Perm T := (List.perm_middle.symm.trans hp).cons_inv
    obtain ⟨perm, hperm, hmap⟩ := ih hAB
    refine ⟨(perm.take A.length).map (· + 1) ++ 0 :: (perm.drop A.length).map (· + 1), ?_, ?_⟩
    · refine List.perm_middle.trans ?_
      rw [List.length_cons, List.range_succ_eq_map]
      refine List.Perm.cons 0 ?_
      rw [← List.map_append, List.take_append_drop]
      exact hperm.map _
    · have h1 : A = (perm.take A.length).map (fun p => T.getD p 0) := by
        have := congrArg (List.take A.length) hmap
        rwa [List.take_left', ← List.map_take] at this
        rfl
      have h2 : B = (perm.drop A.length).map (fun p => T.getD p 0) := by
        have := congrArg (List.drop A.length) hmap
        rwa [List.drop_left', ← List.map_drop] at this
        rfl
      simp only [List.map_append, List.map_cons, List.map_map]
      conv => lhs; rw [h1, h2]
      rfl

/-- the arrangement of the second tuple can be undone on both tuples at once -/
theorem zipWith_perm_right {P2 T2 : List Nat} (hp : P2.Perm T2) :
    ∀ P1 : List Nat, P1.length = P2.length →
      ∃ P1' : List Nat, P1'.Perm P1 ∧ (List.zipWith (· + ·) P1 P2).Perm (List.zipWith (· + ·) P1' T2) := by
  induction hp with
  | nil => intro P1 _; exact ⟨P1, List.Perm.refl _, by simp⟩
  | cons x _ ih =>
    intro P1 hl
    cases P1 with
    | nil => simp at hl
    | cons a P1 =>
      obtain ⟨P1', h1, h2⟩ := ih P1 (by simpa using hl)
      exact ⟨a :: P1', h1.cons a, by simp only [List.zipWith_cons_cons]; exact h2.cons _⟩
  | swap x y l =>
    intro P1 hl
    match P1, hl with
    | a :: b :: P1, _ =>
      exact ⟨b :: a :: P1, List.Perm.swap _ _ _, by simp only [List.zipWith_cons_cons]; exact List.Perm.swap _ _ _⟩
  | trans _ _ ih₁ ih₂ =>
    intro P1 hl
    obtain ⟨Q, h1, h2⟩ := ih₁ P1 hl
    obtain ⟨R, h3, h4⟩ := ih₂ Q (by rw [h1.length_eq, hl]; rename_i hp1 _; exact hp1.length_eq)
    exact ⟨R, h3.trans h1, h2.trans h4⟩

/-- (a) **the merge lemma**: what a heap represents is represented by one of the heaps obtained by replacing
    two tuples by one of their `k!` pairings -/
theorem reach_merge {k : Nat} {T1 T2 : List Nat} {Ts : List (List Nat)} {u : List Nat}
    (h1 : T1.length = k) (h2 : T2.length = k) (h : Reach k (T1 :: T2 :: Ts) u) :
    ∃ perm : List Nat, perm.Perm (List.range k) ∧ Reach k (pairS T1 T2 perm :: Ts) u := by
  cases h with
  | @cons _ P1 _ _ hP1 hr =>
    cases hr with
    | @cons _ P2 u' _ hP2 hr' =>
      obtain ⟨P1', hq1, hq2⟩ := zipWith_perm_right hP2 P1 (by rw [hP1.length_eq, hP2.length_eq, h1, h2])
      obtain ⟨perm, hperm, hmap⟩ := perm_eq_map_getD (hq1.trans hP1)
      rw [h1] at hperm
      refine ⟨perm, hperm, ?_⟩
      rw [zipWith_add_assoc]
      refine Reach.cons ?_ hr'
      have : pairS T1 T2 perm = List.zipWith (· + ·) P1' T2 := by
        rw [hmap, List.zipWith_map_left]; rfl
      rw [this]
      exact hq2

/-- a rearrangement of a bin-wise sum is the bin-wise sum of two rearrangements -/
theorem perm_zipWith_decompose {M Q : List Nat} (hp : M.Perm Q) :
    ∀ A B : List Nat, List.zipWith (· + ·) A B = M → A.length = B.length →
      ∃ A' B' : List Nat, A'.Perm A ∧ B'.Perm B ∧ Q = List.zipWith (· + ·) A' B' := by
  induction hp with
  | nil => intro A B hM _; exact ⟨A, B, List.Perm.refl _, List.Perm.refl _, hM.symm⟩
  | cons x _ ih =>
    intro A B hM hl
    match A, B, hM, hl with
    | a :: A, b :: B, hM, hl =>
      simp only [List.zipWith_cons_cons, List.cons.injEq] at hM
      obtain ⟨A', B', h1, h2, h3⟩ := ih A B hM.2 (by simpa using hl)
      exact ⟨a :: A', b :: B', h1.cons a, h2.cons b, by simp only [List.zipWith_cons_cons, h3, hM.1]⟩
  | swap x y l =>
    intro A B hM hl
    rcases A with _ | ⟨a1, _ | ⟨a2, A⟩⟩ <;> rcases B with _ | ⟨b1, _ | ⟨b2, B⟩⟩ <;>
      simp only [List.zipWith_nil_left, List.zipWith_nil_right, List.zipWith_cons_cons, List.cons.injEq,
        reduceCtorEq, and_false] at hM
    obtain ⟨e1, e2, e3⟩ := hM
    subst e1 e2 e3
    exact ⟨a2 :: a1 :: A, b2 :: b1 :: B, List.Perm.swap _ _ _, List.Perm.swap _ _ _, rfl⟩
  | trans _ _ ih₁ ih₂ =>
    intro A B hM hl
    obtain ⟨A1, B1, h1, h2, h3⟩ := ih₁ A B hM hl
    obtain ⟨A2, B2, h4, h5, h6⟩ := ih₂ A1 B1 h3.symm (by rw [h1.length_eq, h2.length_eq, hl])
    exact ⟨A2, B2, h4.trans h1, h5.trans h2, h6⟩

/-- the converse of the merge lemma: every pairing only represents what the two tuples represent -/
theorem reach_unmerge {k : Nat} {T1 T2 : List Nat} {Ts : List (List Nat)} {u : List Nat} {perm : List Nat}
    (h1 : T1.length = k) (h2 : T2.length = k) (hperm : perm.Perm (List.range k))
    (h : Reach k (pairS T1 T2 perm :: Ts) u) : Reach k (T1 :: T2 :: Ts) u := by
  cases h with
  | @cons _ Q u' _ hQ hr =>
    have hP1 : (perm.map (fun p => T1.getD p 0)).Perm T1 := CKKValid.map_getD_perm T1 0 (h1 ▸ hperm)
    have hpair : List.zipWith (· + ·) (perm.map (fun p => T1.getD p 0)) T2 = pairS T1 T2 perm := by
      rw [List.zipWith_map_left]; rfl
    obtain ⟨Q1, Q2, hq1, hq2, rfl⟩ := perm_zipWith_decompose hQ.symm _ _ hpair
      (by rw [hP1.length_eq, h1, h2])
    rw [← zipWith_add_assoc]
    exact Reach.cons (hq1.trans hP1) (Reach.cons hq2 hr)

/-- (a) **the merge lemma**, both directions: a heap represents exactly what the heaps obtained by replacing
    two of its tuples by one of their pairings represent -/
theorem reach_merge_iff {k : Nat} {T1 T2 : List Nat} {Ts : List (List Nat)} {u : List Nat}
    (h1 : T1.length = k) (h2 : T2.length = k) :
    Reach k (T1 :: T2 :: Ts) u ↔
      ∃ perm : List Nat, perm.Perm (List.range k) ∧ Reach k (pairS T1 T2 perm :: Ts) u :=
  ⟨reach_merge h1 h2, fun ⟨_, hperm, h⟩ => reach_unmerge h1 h2 hperm h⟩

/-- non-vacuity: `[3, 4] + [2, 1]` is represented by the heap `{[1, 2], [3, 4]}` and by its pairing `[4, 6]`
    under the identity permutation -/
example : Reach 2 [[1, 2], [3, 4]] [5, 5] ∧ Reach 2 [pairS [1, 2] [3, 4] [1, 0]] [5, 5] :=
  ⟨Reach.cons (P := [2, 1]) (by decide) (Reach.cons (P := [3, 4]) (by decide) Reach.nil),
   Reach.cons (P := [5, 5]) (by decide) Reach.nil⟩

/-! ## 2. (b) the bound `ckkBound` is admissible -/

theorem reach_sumL {k : Nat} {Ts : List (List Nat)} {u : List Nat} (hl : ∀ T ∈ Ts, T.length = k)
    (h : Reach k Ts u) : sumL u = sumL Ts.flatten := by
  induction h with
  | nil => simp [CGOpt.sumL_replicate_zero]
  | @cons T P u Ts hp hr ih =>
    have hlT : ∀ T' ∈ Ts, T'.length = k := fun T' hT' => hl T' (List.mem_cons_of_mem _ hT')
    have hu := reach_length hlT hr
    have hP : P.length = k := by rw [hp.length_eq]; exact hl T List.mem_cons_self
    rw [Obj.sumL_zipWith_add (by omega), List.flatten_cons, Obj.sumL_append, ih hlT, Obj.sumL_perm hp]

theorem reach_le_maxL {k : Nat} {Ts : List (List Nat)} {u : List Nat} (hl : ∀ T ∈ Ts, T.length = k)
    (h : Reach k Ts u) : ∀ x ∈ Ts.flatten, x ≤ maxL u := by
  induction h with
  | nil => intro x hx; simp at hx
  | @cons T P u Ts hp hr ih =>
    have hlT : ∀ T' ∈ Ts, T'.length = k := fun T' hT' => hl T' (List.mem_cons_of_mem _ hT')
    have hu := reach_length hlT hr
    have hP : P.length = k := by rw [hp.length_eq]; exact hl T List.mem_cons_self
    intro x hx
    rw [List.flatten_cons, List.mem_append] at hx
    rcases hx with hx | hx
    · have h1 := Obj.le_maxL (hp.symm.subset hx)
      have h2 := Obj.maxL_le_maxL_zipWith (a := P) (b := u) (by omega)
      omega
    · have h1 := ih hlT x hx
      have h2 := Obj.maxL_le_maxL_zipWith (a := u) (b := P) (by omega)
      rw [zipWith_add_comm]
      omega

theorem reach_maxL {k : Nat} {Ts : List (List Nat)} {u : List Nat} (hl : ∀ T ∈ Ts, T.length = k)
    (h : Reach k Ts u) : maxL Ts.flatten ≤ maxL u :=
  Part.maxL_le (reach_le_maxL hl h)

/-- in a vector of `k ≥ 2` sums, the `k - 1` sums other than a largest one are at least the smallest -/
theorem minL_mul_add_maxL_le {u : List Nat} {k : Nat} (hu : u.length = k) (hk : 2 ≤ k) :
    (k - 1) * minL u + maxL u ≤ sumL u := by
  have hne : u ≠ [] := by intro h; rw [h] at hu; simp at hu; omega
  have hm := Obj.maxL_mem hne
  have hp := List.perm_cons_erase hm
  have h1 := Obj.sumL_perm hp
  have h2 : (u.erase (maxL u)).length = k - 1 := by rw [List.length_erase_of_mem hm, hu]
  have h3 := Obj.mul_length_le_sumL (l := u.erase (maxL u)) (c := minL u)
    (fun x hx => Obj.minL_le (List.mem_of_mem_erase hx))
  rw [h2, Nat.mul_comm] at h3
  simp only [Obj.sumL_cons] at h1
  omega

/-- the arithmetic behind the bound: a sum-vector of length `k` with total `t` whose largest sum is at least `m`
    has difference at least `m - ⌊(t - m) / (k - 1)⌋` -/
theorem spread_ge_bound {u : List Nat} {k m : Nat} (hu : u.length = k) (hk : 2 ≤ k) (hm : m ≤ maxL u) :
    (m : Int) - (((sumL u - m) / (k - 1) : Nat) : Int) ≤ (spread u : Int) := by
  have h1 := minL_mul_add_maxL_le hu hk
  have h2 : minL u ≤ (sumL u - m) / (k - 1) := by
    rw [Nat.le_div_iff_mul_le (by omega)]
    have : minL u * (k - 1) = (k - 1) * minL u := Nat.mul_comm _ _
    omega
  have h3 := Obj.minL_le_maxL u
  unfold spread
  omega

/-- **(b) admissibility of `ckkBound`**: every final partition represented by the heap has a (negated)
    difference that is at most the bound -/
theorem ckkBound_admissible {k : Nat} {h : Heap α} {u : List Nat} {lb : Int}
    (hl : ∀ e ∈ h, e.bins.sums.length = k) (hr : Reach k (h.map (·.bins.sums)) u)
    (hb : ckkBound h k = some lb) : -(spread u : Int) ≤ lb := by
  unfold ckkBound at hb
  split at hb
  · cases hb
  · rename_i hk
    simp only [Option.some.injEq] at hb
    have hl' : ∀ T ∈ h.map (·.bins.sums), T.length = k := by
      intro T hT
      obtain ⟨e, he, rfl⟩ := List.mem_map.1 hT
      exact hl e he
    have hflat : h.flatMap (·.bins.sums) = (h.map (·.bins.sums)).flatten := by
      rw [List.flatMap_def]
    have h1 := reach_sumL hl' hr
    have h2 := reach_maxL hl' hr
    have h3 := reach_length hl' hr
    rw [← hflat] at h1 h2
    have := spread_ge_bound (m := maxL (h.flatMap (·.bins.sums))) h3 (by omega) h2
    rw [h1] at this
    omega

/-- non-vacuity: the heap `{[0, 6], [0, 5], [0, 4]}` has bound `-(6 - 9) = 3`; it represents `[4, 11]` -/
example : -(spread [4, 11] : Int) ≤ 3 :=
  ckkBound_admissible (α := Nat) (k := 2) (h := [⟨6, 0, ⟨[0, 6], [[], [6]]⟩⟩, ⟨5, 1, ⟨[0, 5], [[], [5]]⟩⟩,
      ⟨4, 2, ⟨[0, 4], [[], [4]]⟩⟩]) (by decide)
    (Reach.cons (P := [0, 6]) (by decide) (Reach.cons (P := [0, 5]) (by decide)
      (Reach.cons (P := [4, 0]) (by decide) Reach.nil))) rfl

/-! ## 3. the initial heap represents every assignment -/

/-- the tuple of a single item of value `w`: `[0, …, 0, w]` -/
def unitT (k w : Nat) : List Nat := (List.replicate k 0).modify (k - 1) (· + w)

theorem modify_eq_zipWith {k : Nat} (u : List Nat) (i w : Nat) (hu : u.length = k) :
    u.modify i (· + w) = List.zipWith (· + ·) ((List.replicate k 0).modify i (· + w)) u := by
  apply List.ext_getElem
  · simp [hu]
  · intro n h1 h2
    simp only [List.getElem_modify, List.getElem_zipWith, List.getElem_replicate]
    split <;> omega

/-- every assignment is represented by the heap of the singletons -/
theorem reach_sumsOf {k : Nat} (ws : List Nat) : ∀ asg : List Nat, IsAssignment k ws.length asg →
    Reach k (ws.map (unitT k)) (sumsOf k ws asg) := by
  induction ws with
  | nil =>
    intro asg h
    rw [Oracle.sumsOf_eq, Oracle.sumsFrom_nil_left]
    exact Reach.nil
  | cons w ws ih =>
    intro asg h
    cases asg with
    | nil => have := h.1; simp at this
    | cons i asg =>
      have hi : i < k := h.2 i List.mem_cons_self
      have h' : IsAssignment k ws.length asg :=
        ⟨by simpa using h.1, fun a ha => h.2 a (List.mem_cons_of_mem _ ha)⟩
      rw [Oracle.sumsOf_eq, Oracle.sumsFrom_cons, Oracle.sumsFrom_modify, ← Oracle.sumsOf_eq,
        modify_eq_zipWith (k := k) _ i w (Oracle.length_sumsOf k ws asg), List.map_cons]
      refine Reach.cons ?_ (ih asg h')
      exact CGOpt.modify_perm_of_eq _ _ _ _ (by simpa using hi) (by simp; omega) (by simp)

theorem sumsOf_cons_eq {k : Nat} (w i : Nat) (ws asg : List Nat) :
    sumsOf k (w :: ws) (i :: asg) =
      List.zipWith (· + ·) ((List.replicate k 0).modify i (· + w)) (sumsOf k ws asg) := by
  rw [Oracle.sumsOf_eq, Oracle.sumsFrom_cons, Oracle.sumsFrom_modify, ← Oracle.sumsOf_eq,
    modify_eq_zipWith (k := k) _ i w (Oracle.length_sumsOf k ws asg)]

/-- the arrangements of the tuple of a single item: the item sits in one of the `k` bins -/
theorem perm_unitT {k w : Nat} (hk : 0 < k) {P : List Nat} (hp : P.Perm (unitT k w)) :
    ∃ i, i < k ∧ P = (List.replicate k 0).modify i (· + w) := by
  obtain ⟨perm, hperm, rfl⟩ := perm_eq_map_getD hp
  have hlen : (unitT k w).length = k := by simp [unitT]
  rw [hlen] at hperm
  have hpl : perm.length = k := by simpa using hperm.length_eq
  have hnd : perm.Nodup := hperm.symm.nodup List.nodup_range
  have hmem : k - 1 ∈ perm := hperm.mem_iff.2 (List.mem_range.2 (by omega))
  obtain ⟨i, hi, hpi⟩ := List.mem_iff_getElem.1 hmem
  refine ⟨i, by omega, ?_⟩
  apply List.ext_getElem
  · simp [hpl]
  · intro j h1 h2
    have hj : j < perm.length := by simpa using h1
    have hjk : perm[j] < k := List.mem_range.1 (hperm.mem_iff.1 (List.getElem_mem hj))
    simp only [List.getElem_map, unitT, List.getD_eq_getElem?_getD, List.getElem_modify,
      List.getElem_replicate]
    rw [List.getElem?_eq_getElem (by simpa using hjk)]
    simp only [List.getElem_modify, List.getElem_replicate, Option.getD_some]
    by_cases hij : i = j
    · subst hij
      rw [if_pos rfl, if_pos hpi.symm]
    · rw [if_neg hij, if_neg]
      intro hc
      exact hij ((List.Nodup.getElem_inj_iff hnd).1 (hpi.trans hc))

/-- (i) **what the heap of singletons represents**: exactly the sum-vectors of the assignments -/
theorem reach_init_iff_assignment {k : Nat} (hk : 0 < k) (ws : List Nat) : ∀ u : List Nat,
    Reach k (ws.map (unitT k)) u ↔ ∃ asg, IsAssignment k ws.length asg ∧ u = sumsOf k ws asg := by
  induction ws with
  | nil =>
    intro u
    constructor
    · intro h
      cases h
      exact ⟨[], Oracle.isAssignment_nil k, by rw [Oracle.sumsOf_eq, Oracle.sumsFrom_nil_left]⟩
    · rintro ⟨asg, hasg, rfl⟩
      exact reach_sumsOf [] asg hasg
  | cons w ws ih =>
    intro u
    constructor
    · intro h
      rw [List.map_cons] at h
      cases h with
      | @cons _ P u' _ hP hr =>
        obtain ⟨asg, hasg, rfl⟩ := (ih u').1 hr
        obtain ⟨i, hi, rfl⟩ := perm_unitT hk hP
        exact ⟨i :: asg, Oracle.isAssignment_cons hasg hi, (sumsOf_cons_eq w i ws asg).symm⟩
    · rintro ⟨asg, hasg, rfl⟩
      exact reach_sumsOf _ asg hasg

/-- non-vacuity -/
example : Reach 2 ([3, 5].map (unitT 2)) [5, 3] :=
  (reach_init_iff_assignment (by decide) [3, 5] [5, 3]).2 ⟨[1, 0], ⟨rfl, by decide⟩, by decide⟩

/-- the sums of the tuples of a heap -/
def sumsH (h : Heap α) : List (List Nat) := h.map (·.bins.sums)

theorem sumsH_hpush (h : Heap α) (c : Nat) (b : Bins α) :
    sumsH (hpush h c b).1 = sumsH h ++ [b.sortAsc.sums] := by
  simp [sumsH, hpush]

theorem sumsH_pushAll (v : α → Nat) (k : Nat) (xs : List α) (h : Heap α) (c : Nat) :
    sumsH (pushAll v k xs h c).1 = sumsH h ++ xs.map (fun x => (single v k x).sortAsc.sums) := by
  induction xs generalizing h c with
  | nil => simp [pushAll]
  | cons x xs ih => simp only [pushAll, ih, sumsH_hpush, List.map_cons, List.append_assoc, List.singleton_append]

theorem single_sums (v : α → Nat) (k : Nat) (x : α) : (single v k x).sums = unitT k (v x) := rfl

theorem single_sortAsc_sums_perm (v : α → Nat) (k : Nat) (x : α) :
    (unitT k (v x)).Perm (single v k x).sortAsc.sums := by
  rw [← single_sums]
  exact (Part.sortAsc_sums_perm _ (by simp [single, Bins.add, Bins.new])).symm

/-- **the initial heap represents every partition**: the sum-vector of every assignment of the items to the
    `k` bins is reachable from the heap of singletons that `ckk` starts from -/
theorem reach_init {v : α → Nat} {k : Nat} {items : List α} {asg : List Nat}
    (h : IsAssignment k items.length asg) :
    Reach k (sumsH (pushAll v k (sortDesc v items) [] 0).1) (sumsOf k (items.map v) asg) := by
  have h1 := reach_sumsOf (k := k) (items.map v) asg (by simpa using h)
  rw [List.map_map] at h1
  have h2 := reach_perm ((Part.sortDesc_perm v items).symm.map (unitT k ∘ v)) h1
  have h3 := reach_map_congr (g := fun x => (single v k x).sortAsc.sums) _
    (fun x _ => single_sortAsc_sums_perm v k x) h2
  rw [sumsH_pushAll]
  exact h3

/-- (i) the heap `ckk` starts from represents exactly the sum-vectors of the assignments of the items -/
theorem reach_init_iff {v : α → Nat} {k : Nat} (hk : 0 < k) {items : List α} {u : List Nat} :
    Reach k (sumsH (pushAll v k (sortDesc v items) [] 0).1) u ↔
      ∃ asg, IsAssignment k items.length asg ∧ u = sumsOf k (items.map v) asg := by
  constructor
  · intro h
    rw [sumsH_pushAll] at h
    have h1 := reach_map_congr (g := unitT k ∘ v) _ (fun x _ => (single_sortAsc_sums_perm v k x).symm) h
    have h2 := reach_perm ((Part.sortDesc_perm v items).map (unitT k ∘ v)) h1
    rw [← List.map_map] at h2
    obtain ⟨asg, hasg, hu⟩ := (reach_init_iff_assignment hk _ u).1 h2
    exact ⟨asg, by simpa using hasg, hu⟩
  · rintro ⟨asg, hasg, rfl⟩
    exact reach_init hasg

/-! ## 4. `all_combinations` is complete (both managers) -/

theorem bins_ext {a b : Bins α} (h1 : a.sums = b.sums) (h2 : a.lists = b.lists) : a = b := by
  cases a; cases b; simp_all

theorem allCombContentsAux_complete (v nm : α → Nat) [BEq α] [LawfulBEq α] {k : Nat} {b1 b2 : Bins α}
    (l1 : b1.lists.length = k) (c1 : b1.Consistent v) (l2 : b2.lists.length = k) (c2 : b2.Consistent v)
    (perms : List (List Nat)) (hperms : ∀ perm ∈ perms, perm.Perm (List.range k)) :
    ∀ acc : List (Bins α), (∀ o ∈ acc, o.Consistent v) →
      (∀ o ∈ acc, o ∈ allCombContentsAux nm b1 b2 perms acc) ∧
      ∀ perm ∈ perms, CKKValid.canonC nm b1 b2 perm ∈ allCombContentsAux nm b1 b2 perms acc := by
  induction perms with
  | nil =>
    intro acc _
    exact ⟨fun o ho => by simpa [allCombContentsAux] using ho, fun _ hp => by cases hp⟩
  | cons perm rest ih =>
    intro acc hacc
    have hrest : ∀ p ∈ rest, p.Perm (List.range k) := fun p hp => hperms p (List.mem_cons_of_mem _ hp)
    have hcan := (CKKValid.canonC_spec v nm l1 c1 l2 c2 (hperms perm List.mem_cons_self)).2.1
    have hunf : allCombContentsAux nm b1 b2 (perm :: rest) acc =
        if acc.any (fun o => o.lists == (CKKValid.canonC nm b1 b2 perm).lists)
        then allCombContentsAux nm b1 b2 rest acc
        else allCombContentsAux nm b1 b2 rest (CKKValid.canonC nm b1 b2 perm :: acc) := rfl
    rw [hunf]
    split
    · rename_i hany
      obtain ⟨ih1, ih2⟩ := ih hrest acc hacc
      refine ⟨ih1, ?_⟩
      intro p hp
      rcases List.mem_cons.1 hp with rfl | hp
      · obtain ⟨o, ho, heq⟩ := List.any_eq_true.1 hany
        have heq' : o.lists = (CKKValid.canonC nm b1 b2 p).lists := eq_of_beq heq
        have : o = CKKValid.canonC nm b1 b2 p := by
          apply bins_ext _ heq'
          have ho' := hacc o ho
          unfold Bins.Consistent at ho' hcan
          rw [ho', hcan, heq']
        rw [← this]
        exact ih1 o ho
      · exact ih2 p hp
    · have hacc' : ∀ o ∈ CKKValid.canonC nm b1 b2 perm :: acc, o.Consistent v := by
        intro o ho
        rcases List.mem_cons.1 ho with rfl | ho
        · exact hcan
        · exact hacc o ho
      obtain ⟨ih1, ih2⟩ := ih hrest _ hacc'
      refine ⟨fun o ho => ih1 o (List.mem_cons_of_mem _ ho), ?_⟩
      intro p hp
      rcases List.mem_cons.1 hp with rfl | hp
      · exact ih1 _ List.mem_cons_self
      · exact ih2 p hp

/-- the contents manager: although combinations are de-duplicated on their *contents*, every pairing of two
    consistent tuples is (in canonical form) among the combinations -/
theorem allCombContents_complete (v nm : α → Nat) [BEq α] [LawfulBEq α] {k : Nat} {b1 b2 : Bins α}
    (l1 : b1.lists.length = k) (c1 : b1.Consistent v) (l2 : b2.lists.length = k) (c2 : b2.Consistent v)
    {perm : List Nat} (hperm : perm.Perm (List.range k)) :
    CKKValid.canonC nm b1 b2 perm ∈ allCombContents nm b1 b2 := by
  have hk : b1.sums.length = k := by rw [Part.consistent_length v c1, l1]
  unfold allCombContents
  rw [hk]
  exact (allCombContentsAux_complete v nm l1 c1 l2 c2 _ (fun p hp => CKKProofs.lexPerms_perm hp) []
    (fun o ho => by cases ho)).2 perm (CKKProofs.lexPerms_complete hperm)

/-- what the search needs of `all_combinations`: every pairing is there, up to the order of the bins -/
def CombComplete (nm : α → Nat) [BEq α] (contents : Bool) (k : Nat) (b1 b2 : Bins α) : Prop :=
  ∀ perm : List Nat, perm.Perm (List.range k) →
    ∃ nb ∈ allComb nm contents b1 b2, nb.sums.length = nb.lists.length ∧
      nb.sums.Perm (pairS b1.sums b2.sums perm)

theorem combComplete_contents (v nm : α → Nat) [BEq α] [LawfulBEq α] {k : Nat} {b1 b2 : Bins α}
    (l1 : b1.lists.length = k) (c1 : b1.Consistent v) (l2 : b2.lists.length = k) (c2 : b2.Consistent v) :
    CombComplete nm true k b1 b2 := by
  intro perm hperm
  refine ⟨CKKValid.canonC nm b1 b2 perm, ?_, ?_, ?_⟩
  · simp only [allComb, if_true]
    exact allCombContents_complete v nm l1 c1 l2 c2 hperm
  · exact Part.consistent_length v (CKKValid.canonC_spec v nm l1 c1 l2 c2 hperm).2.1
  · have hpc := CKKValid.pairBy_consistent v perm c1 c2
    unfold CKKValid.canonC
    refine (Part.sortAsc_sums_perm _ ?_).trans ?_
    · simpa using Part.consistent_length v hpc
    · exact List.Perm.refl _

theorem combComplete_sums (nm : α → Nat) [BEq α] {k : Nat} {b1 b2 : Bins α} (l1 : b1.sums.length = k) :
    CombComplete nm false k b1 b2 := by
  intro perm hperm
  refine ⟨⟨sortAsc id (pairS b1.sums b2.sums perm),
    List.replicate (sortAsc id (pairS b1.sums b2.sums perm)).length []⟩, ?_, by simp, ?_⟩
  · simp only [allComb, Bool.false_eq_true, if_false, List.mem_map]
    exact ⟨_, CKKProofs.allCombSums_complete l1 hperm, rfl⟩
  · exact Part.sortAsc_perm id _

/-! ## 5. the invariant of the search -/

/-- the sum-vector `t` is no better than the incumbent (`best` is minus the incumbent difference, or `-inf`) -/
def NoBetter (best : EInt) (t : List Nat) : Prop := EInt.le (.fin (-(spread t : Int))) best = true

/-- `t` is *covered*: no better than the incumbent, or represented by a heap on the stack -/
def Cov (k : Nat) (best : EInt) (stack : List (Heap α)) (t : List Nat) : Prop :=
  NoBetter best t ∨ ∃ h ∈ stack, Reach k (sumsH h) t

theorem noBetter_mono {best best' : EInt} {t : List Nat} (h : EInt.le best best' = true)
    (hn : NoBetter best t) : NoBetter best' t := CGOpt.ele_trans hn h

/-- what the optimality argument needs of a heap on the stack -/
structure HGood (nm : α → Nat) [BEq α] (contents : Bool) (k : Nat) (h : Heap α) : Prop where
  ne : h ≠ []
  len : ∀ e ∈ h, e.bins.sums.length = k
  key : ∀ e, h = [e] → e.diff = spread e.bins.sums
  comb : ∀ e1 ∈ h, ∀ e2 ∈ h, CombComplete nm contents k e1.bins e2.bins

/-- **The search loses nothing.**  `cov`: every leaf (= sum-vector of an assignment) is covered;
    `dn`: once the machine has stopped, no leaf beats the incumbent; `inc`: `best` is minus the difference of the
    incumbent partition; `yl`: the incumbent is the most recent yield. -/
structure CInv (k : Nat) (leaf : List Nat → Prop) (s : CkkState α) : Prop where
  cov : ∀ t, leaf t → Cov k s.best s.stack t
  dn : s.done = true → ∀ t, leaf t → NoBetter s.best t
  inc : (s.best = .negInf ∧ s.bestP = none) ∨ ∃ b, s.bestP = some b ∧ s.best = .fin (-(spread b.sums : Int))
  yl : s.yields.head? = s.bestP

/-- what a step has to establish for the popped heap `h` -/
theorem cinv_of_step {k : Nat} {leaf : List Nat → Prop} {s s' : CkkState α} {h : Heap α} {rest : List (Heap α)}
    (hc : CInv k leaf s) (hs : s.stack = h :: rest)
    (hP : EInt.le s.best s'.best = true)
    (hQ : ∀ g ∈ rest, g ∈ s'.stack)
    (hS : ∀ t, Reach k (sumsH h) t → Cov k s'.best s'.stack t)
    (hdn : s'.done = true → s.done = true ∨ ∀ t, NoBetter s'.best t)
    (hinc : (s'.best = .negInf ∧ s'.bestP = none) ∨
      ∃ b, s'.bestP = some b ∧ s'.best = .fin (-(spread b.sums : Int)))
    (hyl : s'.yields.head? = s'.bestP) : CInv k leaf s' := by
  refine ⟨?_, ?_, hinc, hyl⟩
  · intro t ht
    rcases hc.cov t ht with hn | ⟨g, hg, hr⟩
    · exact Or.inl (noBetter_mono hP hn)
    · rw [hs] at hg
      rcases List.mem_cons.1 hg with rfl | hg
      · exact hS t hr
      · exact Or.inr ⟨g, hQ g hg, hr⟩
  · intro hd t ht
    rcases hdn hd with hd | hd
    · exact noBetter_mono hP (hc.dn hd t ht)
    · exact hd t

theorem foldl_push_complete (h2 : Heap α) (combs : List (Bins α)) :
    ∀ acc : List (Heap α) × Nat,
      (∀ g ∈ acc.1, g ∈ (combs.foldl (fun (acc : List (Heap α) × Nat) nb =>
                      let p := hpush h2 acc.2 nb; (acc.1 ++ [p.1], p.2)) acc).1) ∧
      ∀ nb ∈ combs, ∃ c, (hpush h2 c nb).1 ∈ (combs.foldl (fun (acc : List (Heap α) × Nat) nb =>
                      let p := hpush h2 acc.2 nb; (acc.1 ++ [p.1], p.2)) acc).1 := by
  induction combs with
  | nil => intro acc; exact ⟨fun g hg => hg, fun nb hnb => by cases hnb⟩
  | cons nb0 rest ih =>
    intro acc
    simp only [List.foldl_cons]
    obtain ⟨ih1, ih2⟩ := ih (acc.1 ++ [(hpush h2 acc.2 nb0).1], (hpush h2 acc.2 nb0).2)
    refine ⟨fun g hg => ih1 g (List.mem_append_left _ hg), ?_⟩
    intro nb hnb
    rcases List.mem_cons.1 hnb with rfl | hnb
    · exact ⟨acc.2, ih1 _ (List.mem_append_right _ (List.mem_singleton.2 rfl))⟩
    · exact ih2 nb hnb

theorem spread_perm {a b : List Nat} (h : a.Perm b) : spread a = spread b := by
  unfold spread; rw [Obj.maxL_perm h, Obj.minL_perm h]

/-- the converse of `CombComplete`: every combination is a pairing, up to the order of the bins -/
def CombSound (nm : α → Nat) [BEq α] (contents : Bool) (k : Nat) (b1 b2 : Bins α) : Prop :=
  ∀ nb ∈ allComb nm contents b1 b2, nb.sums.length = nb.lists.length ∧
    ∃ perm : List Nat, perm.Perm (List.range k) ∧ nb.sums.Perm (pairS b1.sums b2.sums perm)

theorem combSound_contents (v nm : α → Nat) [BEq α] {k : Nat} {b1 b2 : Bins α}
    (l1 : b1.lists.length = k) (c1 : b1.Consistent v) (l2 : b2.lists.length = k) (c2 : b2.Consistent v) :
    CombSound nm true k b1 b2 := by
  intro nb hnb
  simp only [allComb, if_true] at hnb
  obtain ⟨perm, hperm, rfl⟩ := CKKValid.allCombContents_sound nm hnb
  rw [Part.consistent_length v c1, l1] at hperm
  refine ⟨Part.consistent_length v (CKKValid.canonC_spec v nm l1 c1 l2 c2 hperm).2.1, perm, hperm, ?_⟩
  have hpc := CKKValid.pairBy_consistent v perm c1 c2
  unfold CKKValid.canonC
  exact Part.sortAsc_sums_perm _ (by simpa using Part.consistent_length v hpc)

theorem combSound_sums (nm : α → Nat) [BEq α] {k : Nat} {b1 b2 : Bins α} (l1 : b1.sums.length = k) :
    CombSound nm false k b1 b2 := by
  intro nb hnb
  simp only [allComb, Bool.false_eq_true, if_false, List.mem_map] at hnb
  obtain ⟨ss, hss, rfl⟩ := hnb
  obtain ⟨perm, hperm, rfl⟩ := CKKProofs.allCombSums_sound l1 hss
  exact ⟨by simp, perm, hperm, Part.sortAsc_perm id _⟩

/-- (a) **expansion loses nothing**: what a heap represents is represented by one of the heaps that the search
    pushes when it expands it (two tuples `e1`, `e2` replaced by one of their combinations) -/
theorem reach_expand {nm : α → Nat} [BEq α] {contents : Bool} {k : Nat} {h h2 : Heap α} {e1 e2 : HEntry α}
    (hlen : ∀ e ∈ h, e.bins.sums.length = k) (hcomb : CombComplete nm contents k e1.bins e2.bins)
    (hperm : h.Perm (e1 :: e2 :: h2)) {t : List Nat} (ht : Reach k (sumsH h) t) :
    ∃ nb ∈ allComb nm contents e1.bins e2.bins, ∀ c, Reach k (sumsH (hpush h2 c nb).1) t := by
  have hm1 : e1 ∈ h := hperm.mem_iff.2 (by simp)
  have hm2 : e2 ∈ h := hperm.mem_iff.2 (by simp)
  have r1 : Reach k (e1.bins.sums :: e2.bins.sums :: sumsH h2) t :=
    reach_perm (hperm.map (·.bins.sums)) ht
  obtain ⟨perm, hpm, r2⟩ := reach_merge (hlen e1 hm1) (hlen e2 hm2) r1
  obtain ⟨nb, hnb, hbal, hsums⟩ := hcomb perm hpm
  refine ⟨nb, hnb, fun c => ?_⟩
  rw [sumsH_hpush]
  refine reach_perm (List.perm_append_singleton _ _).symm ?_
  exact reach_head_perm (hsums.symm.trans (Part.sortAsc_sums_perm nb hbal).symm) r2

/-- ... and adds nothing: every pushed heap only represents what the expanded heap represents -/
theorem reach_contract {nm : α → Nat} [BEq α] {contents : Bool} {k : Nat} {h h2 : Heap α} {e1 e2 : HEntry α}
    (hlen : ∀ e ∈ h, e.bins.sums.length = k) (hcomb : CombSound nm contents k e1.bins e2.bins)
    (hperm : h.Perm (e1 :: e2 :: h2)) {nb : Bins α} (hnb : nb ∈ allComb nm contents e1.bins e2.bins) {c : Nat}
    {t : List Nat} (ht : Reach k (sumsH (hpush h2 c nb).1) t) : Reach k (sumsH h) t := by
  have hm1 : e1 ∈ h := hperm.mem_iff.2 (by simp)
  have hm2 : e2 ∈ h := hperm.mem_iff.2 (by simp)
  obtain ⟨hbal, perm, hpm, hsums⟩ := hcomb nb hnb
  rw [sumsH_hpush] at ht
  have r1 := reach_perm (List.perm_append_singleton _ _) ht
  have r2 := reach_head_perm ((Part.sortAsc_sums_perm nb hbal).trans hsums) r1
  have r3 := reach_unmerge (hlen e1 hm1) (hlen e2 hm2) hpm r2
  exact reach_perm (hperm.map (·.bins.sums)).symm r3

/-- (a) **the merge lemma at the level of the search**, contents manager: a heap of consistent tuples represents
    exactly what its children represent -/
theorem reach_expand_iff {v nm : α → Nat} [BEq α] [LawfulBEq α] {k : Nat} {items : List α} {h h1 h2 : Heap α}
    {e1 e2 : HEntry α} (hh : CKKValid.HInv v k items h) (hp1 : hpop h = some (e1, h1))
    (hp2 : hpop h1 = some (e2, h2)) (c : Nat) (t : List Nat) :
    Reach k (sumsH h) t ↔
      ∃ nb ∈ allComb nm true e1.bins e2.bins, Reach k (sumsH (hpush h2 c nb).1) t := by
  have hperm : h.Perm (e1 :: e2 :: h2) := (Part.hpop_perm hp1).trans ((Part.hpop_perm hp2).cons e1)
  obtain ⟨⟨l1, c1, _, _⟩, ⟨l2, c2, _, _⟩⟩ := CKKValid.hinv_pop2 hh hp1 hp2
  have hlen : ∀ e ∈ h, e.bins.sums.length = k := by
    intro e he
    obtain ⟨l, c, _, _⟩ := hh.2 e he
    rw [Part.consistent_length v c, l]
  constructor
  · intro ht
    obtain ⟨nb, hnb, hr⟩ := reach_expand hlen (combComplete_contents v nm l1 c1 l2 c2) hperm ht
    exact ⟨nb, hnb, hr c⟩
  · rintro ⟨nb, hnb, hr⟩
    exact reach_contract hlen (combSound_contents v nm l1 c1 l2 c2) hperm hnb hr

/-- the part of an iteration after the popped heap `h` has survived the bound test -/
theorem stepBody_cinv {nm : α → Nat} [BEq α] {contents gen isBest : Bool} {k : Nat} {leaf : List Nat → Prop}
    (hmode : (isBest || !gen) = true) {h : Heap α} {s : CkkState α} (hg : HGood nm contents k h)
    (hc : CInv k leaf { s with stack := h :: s.stack }) :
    CInv k leaf (CKKValid.stepBody nm contents gen isBest h s) := by
  unfold CKKValid.stepBody
  split
  · -- a heap with one tuple: a complete partition
    rename_i hlen
    obtain ⟨e, rfl⟩ : ∃ e, h = [e] := by
      match h, hlen with
      | [e], _ => exact ⟨e, rfl⟩
    have hkey := hg.key e rfl
    have hT := hg.len e List.mem_cons_self
    have hreach : ∀ t, Reach k (sumsH [e]) t → spread t = e.diff := by
      intro t ht
      rw [hkey]
      exact spread_perm (reach_single hT ht)
    have htd : topDiffOf [e] = e.diff := rfl
    have htop : htop [e] = some e := rfl
    simp only [htd, htop, hmode, Option.map_some, Bool.and_true]
    split
    · rename_i hlt
      have hS : ∀ t, Reach k (sumsH [e]) t → NoBetter (.fin (-(e.diff : Int))) t := by
        intro t ht
        unfold NoBetter
        rw [hreach t ht]
        exact CGOpt.ele_refl _
      split
      · rename_i hz
        refine cinv_of_step hc rfl (CGOpt.ele_of_lt hlt) (fun g hg => hg) (fun t ht => Or.inl (hS t ht)) ?_
          (Or.inr ⟨e.bins, rfl, by rw [hkey]⟩) rfl
        intro _
        right
        intro t
        have hz' : -(e.diff : Int) = 0 := by simpa using hz
        show EInt.le _ _ = true
        rw [hz']
        exact CGOpt.ele_fin.2 (by omega)
      · refine cinv_of_step hc rfl (CGOpt.ele_of_lt hlt) (fun g hg => hg) (fun t ht => Or.inl (hS t ht))
          (fun hd => Or.inl hd) (Or.inr ⟨e.bins, rfl, by rw [hkey]⟩) rfl
    · rename_i hlt
      have hle : EInt.le (.fin (-(e.diff : Int))) s.best = true :=
        CGOpt.ele_of_not_lt (by simpa using hlt)
      refine cinv_of_step hc rfl (CGOpt.ele_refl _) (fun g hg => hg) ?_ (fun hd => Or.inl hd) hc.inc hc.yl
      intro t ht
      left
      unfold NoBetter
      rw [hreach t ht]
      exact hle
  · -- expansion: pop two tuples, push every combination
    rename_i hlen
    obtain ⟨e1, h1, hp1, hperm1⟩ := Part.hpop_some h hg.ne
    have hne1 : h1 ≠ [] := by
      intro h0
      subst h0
      have := hperm1.length_eq
      simp [this] at hlen
    obtain ⟨e2, h2, hp2, hperm2⟩ := Part.hpop_some h1 hne1
    have hperm : h.Perm (e1 :: e2 :: h2) := hperm1.trans (hperm2.cons e1)
    have hm1 : e1 ∈ h := hperm.mem_iff.2 (by simp)
    have hm2 : e2 ∈ h := hperm.mem_iff.2 (by simp)
    simp only [hp1, hp2]
    refine cinv_of_step hc rfl (CGOpt.ele_refl _) (fun g hg => List.mem_append_right _ hg) ?_
      (fun hd => Or.inl hd) hc.inc hc.yl
    intro t ht
    obtain ⟨nb, hnb, hr⟩ := reach_expand hg.len (hg.comb e1 hm1 e2 hm2) hperm ht
    obtain ⟨c, hc'⟩ := (foldl_push_complete h2 (allComb nm contents e1.bins e2.bins) ([], s.cnt)).2 nb hnb
    refine Or.inr ⟨(hpush h2 c nb).1, ?_, hr c⟩
    refine List.mem_append_left _ (List.mem_reverse.2 ?_)
    rw [(Part.sortDesc_perm _ _).mem_iff]
    exact hc'

/-- **One iteration of the loop preserves the invariant**, for both managers, in the modes in which the
    incumbent difference is updated (`optimal`, and the generator in improve-only mode). -/
theorem ckkStep_cinv {nm : α → Nat} [BEq α] {contents gen isBest : Bool} {k : Nat} {leaf : List Nat → Prop}
    (hmode : (isBest || !gen) = true) {s : CkkState α} (hgood : ∀ h ∈ s.stack, HGood nm contents k h)
    (hc : CInv k leaf s) : CInv k leaf (ckkStep nm k contents gen isBest s) := by
  rw [CKKValid.ckkStep_eq]
  split
  · rename_i hst
    refine ⟨hc.cov, ?_, hc.inc, hc.yl⟩
    intro _ t ht
    rcases hc.cov t ht with hn | ⟨g, hg, _⟩
    · exact hn
    · rw [hst] at hg; cases hg
  · rename_i h stack hst
    have hg := hgood h (by rw [hst]; exact List.mem_cons_self)
    cases hpr : CKKValid.prunedB k h s.best
    · simp only [Bool.false_eq_true, if_false]
      refine stepBody_cinv hmode hg ?_
      simp only [← hst]
      exact hc
    · simp only [if_true]
      refine cinv_of_step hc hst (CGOpt.ele_refl _) (fun g hg => hg) ?_ (fun hd => Or.inl hd) hc.inc hc.yl
      intro t ht
      left
      unfold CKKValid.prunedB at hpr
      split at hpr
      · cases hpr
      · rename_i lb hlb
        have := ckkBound_admissible hg.len ht hlb
        exact CGOpt.ele_trans (CGOpt.ele_fin.2 this) hpr

/-! ## 6. the run -/

/-- the leaves of the search: the sum-vectors of all assignments of the items to `k` bins -/
def Leaf (v : α → Nat) (k : Nat) (items : List α) (t : List Nat) : Prop :=
  ∃ asg, IsAssignment k items.length asg ∧ t = sumsOf k (items.map v) asg

theorem leaf_exists (v : α → Nat) {k : Nat} (hk : 0 < k) (items : List α) : ∃ t, Leaf v k items t :=
  ⟨_, _, Oracle.isAssignment_replicate hk _, rfl⟩

theorem cinv_init (v : α → Nat) (k : Nat) (items : List α) :
    CInv k (Leaf v k items) (ckkInit v k items .negInf) := by
  refine ⟨?_, ?_, Or.inl ⟨rfl, rfl⟩, rfl⟩
  · rintro t ⟨asg, hasg, rfl⟩
    exact Or.inr ⟨_, List.mem_singleton.2 rfl, reach_init hasg⟩
  · intro hd; cases hd

/-- contents manager: the heaps of `CKKValid.HInv` are good -/
theorem hgood_of_hinv {v : α → Nat} (nm : α → Nat) [BEq α] [LawfulBEq α] {k : Nat} {items : List α}
    (hne : items ≠ []) {h : Heap α} (hh : CKKValid.HInv v k items h) : HGood nm true k h := by
  refine ⟨?_, ?_, ?_, ?_⟩
  · rintro rfl
    have := hh.1
    simp only [List.flatMap_nil] at this
    exact hne this.symm.eq_nil
  · intro e he
    obtain ⟨l, c, _, _⟩ := hh.2 e he
    rw [Part.consistent_length v c, l]
  · rintro e rfl
    exact (CKKValid.hinv_singleton hh).2
  · intro e1 he1 e2 he2
    obtain ⟨l1, c1, _, _⟩ := hh.2 e1 he1
    obtain ⟨l2, c2, _, _⟩ := hh.2 e2 he2
    exact combComplete_contents v nm l1 c1 l2 c2

theorem sim_mem {h g : Heap α} (hs : CKKValid.Sim h g) {e : HEntry α} (he : e ∈ h) :
    ∃ e' ∈ g, CKKValid.key e = CKKValid.key e' := by
  unfold CKKValid.Sim at hs
  have : CKKValid.key e ∈ g.map CKKValid.key := hs ▸ List.mem_map_of_mem he
  obtain ⟨e', he', hk⟩ := List.mem_map.1 this
  exact ⟨e', he', hk.symm⟩

/-- sums-only manager: a heap that is shadowed by a heap of `CKKValid.HInv` is good -/
theorem hgood_of_sim {v : α → Nat} (nm : α → Nat) [BEq α] {k : Nat} {items : List α}
    (hne : items ≠ []) {h g : Heap α} (hg : CKKValid.HInv v k items g) (hs : CKKValid.Sim h g) :
    HGood nm false k h := by
  have hlen : ∀ e ∈ h, e.bins.sums.length = k := by
    intro e he
    obtain ⟨e', he', hk⟩ := sim_mem hs he
    obtain ⟨l, c, _, _⟩ := hg.2 e' he'
    rw [(CKKValid.key_eq hk).2.2, Part.consistent_length v c, l]
  refine ⟨?_, hlen, ?_, ?_⟩
  · rintro rfl
    unfold CKKValid.Sim at hs
    have hg0 : g = [] := by simpa using hs.symm
    subst hg0
    have := hg.1
    simp only [List.flatMap_nil] at this
    exact hne this.symm.eq_nil
  · rintro e rfl
    exact (CKKValid.sim_singleton hg hs).2
  · intro e1 he1 e2 _
    exact combComplete_sums nm (hlen e1 he1)

/-- when the machine has stopped, the incumbent exists and no leaf beats it -/
theorem stopped_optimal {v : α → Nat} {k : Nat} (hk : 0 < k) {items : List α} {s : CkkState α}
    (hc : CInv k (Leaf v k items) s) (hd : s.done = true) :
    ∃ b, s.bestP = some b ∧ s.yields.head? = some b ∧
      ∀ asg, IsAssignment k items.length asg → spread b.sums ≤ spread (sumsOf k (items.map v) asg) := by
  rcases hc.inc with ⟨hb, _⟩ | ⟨b, hbp, hb⟩
  · exfalso
    obtain ⟨t, ht⟩ := leaf_exists v hk items
    have := hc.dn hd t ht
    unfold NoBetter at this
    rw [hb] at this
    simp [EInt.le] at this
  · refine ⟨b, hbp, hc.yl.trans hbp, ?_⟩
    intro asg hasg
    have := hc.dn hd _ ⟨asg, hasg, rfl⟩
    unfold NoBetter at this
    rw [hb] at this
    have := CGOpt.ele_fin.1 this
    omega

theorem value_minDiff (sums : List Nat) : Objective.minDiff.value sums false = (spread sums : Int) := by
  have := Obj.minL_le_maxL sums
  simp only [Objective.value, Bool.false_eq_true, if_false, spread]
  omega

/-- the run invariant, contents manager -/
theorem ckkRun_cinv {v nm : α → Nat} [BEq α] [LawfulBEq α] {k : Nat} {items : List α} (hk : 0 < k)
    (hne : items ≠ []) {gen isBest : Bool} (hmode : (isBest || !gen) = true) (fuel : Nat) :
    CKKValid.SInv v k items (ckkRun nm k true gen isBest fuel (ckkInit v k items .negInf)) ∧
    CInv k (Leaf v k items) (ckkRun nm k true gen isBest fuel (ckkInit v k items .negInf)) :=
  (CKKValid.ckkRun_inv nm k true gen isBest (fun s => CKKValid.SInv v k items s ∧ CInv k (Leaf v k items) s)
    (fun _ hs => ⟨CKKValid.ckkStep_inv gen isBest hs.1,
      ckkStep_cinv hmode (fun h hh => hgood_of_hinv nm hne (hs.1.stack h hh)) hs.2⟩) fuel _
    ⟨CKKValid.ckkInit_inv hk items .negInf, cinv_init v k items⟩)

/-- the run invariant, sums-only manager -/
theorem ckkRun_cinvS {v nm : α → Nat} [BEq α] {k : Nat} {items : List α} (hk : 0 < k)
    (hne : items ≠ []) {gen isBest : Bool} (hmode : (isBest || !gen) = true) (fuel : Nat) :
    CKKValid.SInvS v k items (ckkRun nm k false gen isBest fuel (ckkInit v k items .negInf)) ∧
    CInv k (Leaf v k items) (ckkRun nm k false gen isBest fuel (ckkInit v k items .negInf)) :=
  (CKKValid.ckkRun_inv nm k false gen isBest (fun s => CKKValid.SInvS v k items s ∧ CInv k (Leaf v k items) s)
    (fun _ hs => ⟨CKKValid.ckkStep_invS gen isBest hs.1,
      ckkStep_cinv hmode (fun h hh => by
        obtain ⟨⟨g, hg, hsim⟩, _⟩ := hs.1.stack h hh
        exact hgood_of_sim nm hne hg hsim) hs.2⟩) fuel _
    ⟨CKKValid.ckkInit_invS hk items .negInf, cinv_init v k items⟩)

/-! ## 7. the main theorems -/

/-- **C02 for complete Karmarkar–Karp** (`optimal`, contents manager): a run to completion returns a partition
    whose difference between the largest and the smallest sum is the optimum over all partitions. -/
theorem ckk_optimal {v nm : α → Nat} [BEq α] [LawfulBEq α] {k : Nat} {items : List α} {fuel : Nat} {b : Bins α}
    (hk : 0 < k) (hne : items ≠ []) (h : ckk v nm k true items fuel = .ok b) :
    IsOptimalValue .minDiff k (items.map v) (Objective.minDiff.value b.sums false) := by
  have hpart := CKKValid.ckk_isPartition hk h
  obtain ⟨hsi, hc⟩ := ckkRun_cinv (v := v) (nm := nm) hk hne (gen := false) (isBest := true) rfl fuel
  constructor
  · obtain ⟨asg, hasg, hs⟩ := Oracle.partition_sums_assignment v items b hpart
    exact ⟨asg, by simpa using hasg, by rw [hs]⟩
  · intro asg hasg
    unfold ckk at h
    simp only [] at h
    split at h
    · cases h
    · rename_i hd
      split at h
      · cases h
      · rename_i b0 hb0
        cases h
        obtain ⟨b', hb', _, hopt⟩ := stopped_optimal hk hc (by simpa using hd)
        rw [hb0] at hb'
        cases hb'
        have hbal : b0.sums.length = b0.lists.length :=
          Part.consistent_length v (hsi.bestP b0 hb0).1.2.2
        rw [value_minDiff, value_minDiff, spread_perm (Part.sortAsc_sums_perm b0 hbal)]
        exact Int.ofNat_le.2 (hopt asg (by simpa using hasg))

/-- non-vacuity: a completed run on five items and three bins -/
example : IsOptimalValue .minDiff 3 [4, 5, 6, 7, 8] 3 :=
  ckk_optimal (v := id) (nm := id) (items := [4, 5, 6, 7, 8]) (fuel := 100)
    (b := ⟨[8, 11, 11], [[8], [5, 6], [4, 7]]⟩) (by decide) (by decide) rfl

/-- on an empty input the search never finds an incumbent (Python: `UnboundLocalError`) -/
theorem ckkRun_empty {v nm : α → Nat} [BEq α] {k : Nat} {contents gen isBest : Bool} (best : EInt) (fuel : Nat) :
    (ckkRun nm k contents gen isBest fuel (ckkInit v k [] best)).bestP = none := by
  refine (CKKValid.ckkRun_inv nm k contents gen isBest
    (fun s => s.bestP = none ∧ ∀ h ∈ s.stack, h = []) ?_ fuel _ ⟨rfl, ?_⟩).1
  · intro s hs
    obtain ⟨hst, hy⟩ := CKKValid.ckkStep_cases nm k contents gen isBest s
    refine ⟨?_, ?_⟩
    · rcases hy with ⟨_, _, h3⟩ | ⟨e, he, _⟩
      · rw [h3]; exact hs.1
      · cases hs.2 _ he
    · intro h' hh'
      rcases hst h' hh' with hin | ⟨h, e1, h1, e2, h2, nb, c, hin, hp1, _⟩
      · exact hs.2 h' hin
      · rw [hs.2 h hin] at hp1
        simp [hpop, hbest] at hp1
  · intro h hh
    simpa [ckkInit, sortDesc, pushAll] using hh

/-- `ckk_optimal` without the hypothesis `items ≠ []`: on an empty input the model returns an error, so the
    hypothesis `… = .ok b` already excludes it -/
theorem ckk_optimal_of_ok {v nm : α → Nat} [BEq α] [LawfulBEq α] {k : Nat} {items : List α} {fuel : Nat}
    {b : Bins α} (hk : 0 < k) (h : ckk v nm k true items fuel = .ok b) :
    IsOptimalValue .minDiff k (items.map v) (Objective.minDiff.value b.sums false) := by
  by_cases hne : items = []
  · exfalso
    subst hne
    unfold ckk at h
    simp only [] at h
    rw [ckkRun_empty] at h
    split at h <;> cases h
  · exact ckk_optimal hk hne h

/-- **C02 for the generator of complete Karmarkar–Karp** in improve-only mode (`bound = none`): a run to completion
    yields at least one partition, and the last one has the optimal difference. -/
theorem ckkGen_last_optimal {v nm : α → Nat} [BEq α] [LawfulBEq α] {k : Nat} {items : List α} {fuel : Nat}
    {ys : List (Bins α)} (hk : 0 < k) (hne : items ≠ [])
    (h : ckkGen v nm k true items none fuel = .ok ys) :
    ys ≠ [] ∧ ∃ b, ys.getLast? = some b ∧ IsPartition v items k b ∧
      IsOptimalValue .minDiff k (items.map v) (Objective.minDiff.value b.sums false) := by
  have hys := CKKValid.ckkGen_yields hk h
  obtain ⟨_, hc⟩ := ckkRun_cinv (v := v) (nm := nm) hk hne (gen := true) (isBest := true) rfl fuel
  unfold ckkGen at h
  simp only [Option.isNone_none] at h
  split at h
  · cases h
  · rename_i hd
    cases h
    obtain ⟨b, _, hyl, hopt⟩ := stopped_optimal hk hc (by simpa using hd)
    have hlast : (ckkRun nm k true true true fuel (ckkInit v k items .negInf)).yields.reverse.getLast? = some b := by
      rw [List.getLast?_reverse]; exact hyl
    have hmem : b ∈ (ckkRun nm k true true true fuel (ckkInit v k items .negInf)).yields.reverse :=
      List.mem_of_getLast? hlast
    have hpart := (hys b hmem).1
    refine ⟨List.ne_nil_of_mem hmem, b, hlast, hpart, ?_, ?_⟩
    · obtain ⟨asg, hasg, hs⟩ := Oracle.partition_sums_assignment v items b hpart
      exact ⟨asg, by simpa using hasg, by rw [hs]⟩
    · intro asg hasg
      rw [value_minDiff, value_minDiff]
      exact Int.ofNat_le.2 (hopt asg (by simpa using hasg))

/-- non-vacuity: the generator on five items and two bins yields two partitions, the last one is optimal -/
example : IsOptimalValue .minDiff 2 [4, 5, 6, 7, 8] 0 := by
  obtain ⟨_, b, hb, _, hopt⟩ := ckkGen_last_optimal (v := id) (nm := id) (k := 2) (items := [4, 5, 6, 7, 8])
    (fuel := 100) (ys := [⟨[14, 16], [[6, 8], [4, 5, 7]]⟩, ⟨[15, 15], [[4, 5, 6], [7, 8]]⟩])
    (by decide) (by decide) rfl
  cases hb
  exact hopt

/-! ### the sums-only manager (`contents = false`) -/

/-- **C02 for complete Karmarkar–Karp with the sums-only manager**: the sums returned are the sums of an
    optimal partition. -/
theorem ckk_sums_optimal {v nm : α → Nat} [BEq α] {k : Nat} {items : List α} {fuel : Nat} {b : Bins α}
    (hk : 0 < k) (hne : items ≠ []) (h : ckk v nm k false items fuel = .ok b) :
    IsOptimalValue .minDiff k (items.map v) (Objective.minDiff.value b.sums false) := by
  obtain ⟨asg0, hasg0, hs0⟩ := CKKValid.ckk_sums_valid hk h
  obtain ⟨hsi, hc⟩ := ckkRun_cinvS (v := v) (nm := nm) hk hne (gen := false) (isBest := true) rfl fuel
  constructor
  · exact ⟨asg0, by simpa using hasg0, by rw [hs0]⟩
  · intro asg hasg
    unfold ckk at h
    simp only [] at h
    split at h
    · cases h
    · rename_i hd
      split at h
      · cases h
      · rename_i b0 hb0
        cases h
        obtain ⟨b', hb', _, hopt⟩ := stopped_optimal hk hc (by simpa using hd)
        rw [hb0] at hb'
        cases hb'
        have hbal : b0.sums.length = b0.lists.length := (hsi.bestP b0 hb0).2
        rw [value_minDiff, value_minDiff, spread_perm (Part.sortAsc_sums_perm b0 hbal)]
        exact Int.ofNat_le.2 (hopt asg (by simpa using hasg))

example : IsOptimalValue .minDiff 3 [4, 5, 6, 7, 8] 3 :=
  ckk_sums_optimal (v := id) (nm := id) (items := [4, 5, 6, 7, 8]) (fuel := 100)
    (b := ⟨[8, 11, 11], [[], [], []]⟩) (by decide) (by decide) rfl

/-- the generator with the sums-only manager: the last yielded sum-vector is that of an optimal partition -/
theorem ckkGen_sums_last_optimal {v nm : α → Nat} [BEq α] {k : Nat} {items : List α} {fuel : Nat}
    {ys : List (Bins α)} (hk : 0 < k) (hne : items ≠ [])
    (h : ckkGen v nm k false items none fuel = .ok ys) :
    ys ≠ [] ∧ ∃ b, ys.getLast? = some b ∧
      IsOptimalValue .minDiff k (items.map v) (Objective.minDiff.value b.sums false) := by
  have hys := CKKValid.ckkGen_sums_valid hk h
  obtain ⟨_, hc⟩ := ckkRun_cinvS (v := v) (nm := nm) hk hne (gen := true) (isBest := true) rfl fuel
  unfold ckkGen at h
  simp only [Option.isNone_none] at h
  split at h
  · cases h
  · rename_i hd
    cases h
    obtain ⟨b, _, hyl, hopt⟩ := stopped_optimal hk hc (by simpa using hd)
    have hlast : (ckkRun nm k false true true fuel (ckkInit v k items .negInf)).yields.reverse.getLast? = some b := by
      rw [List.getLast?_reverse]; exact hyl
    have hmem : b ∈ (ckkRun nm k false true true fuel (ckkInit v k items .negInf)).yields.reverse :=
      List.mem_of_getLast? hlast
    obtain ⟨⟨asg0, hasg0, hs0⟩, _⟩ := hys b hmem
    refine ⟨List.ne_nil_of_mem hmem, b, hlast, ?_, ?_⟩
    · exact ⟨asg0, by simpa using hasg0, by rw [hs0]⟩
    · intro asg hasg
      rw [value_minDiff, value_minDiff]
      exact Int.ofNat_le.2 (hopt asg (by simpa using hasg))

example : IsOptimalValue .minDiff 2 [4, 5, 6, 7, 8] 0 := by
  have h : ckkGen (id : Nat → Nat) id 2 false [4, 5, 6, 7, 8] none 100 =
      .ok [⟨[14, 16], [[], []]⟩, ⟨[15, 15], [[], []]⟩] := rfl
  obtain ⟨_, b, hb, hopt⟩ := ckkGen_sums_last_optimal (by decide) (by decide) h
  cases hb
  exact hopt

end Prtpy.CKKOpt

/-
Axiom audit (output of `#print axioms` observed with `lake env lean`):

#print axioms Prtpy.CKKOpt.reach_perm
  'Prtpy.CKKOpt.reach_perm' depends on axioms: [propext, Quot.sound]
#print axioms Prtpy.CKKOpt.reach_merge_iff
  'Prtpy.CKKOpt.reach_merge_iff' depends on axioms: [propext, Classical.choice, Quot.sound]
#print axioms Prtpy.CKKOpt.reach_init_iff_assignment
  'Prtpy.CKKOpt.reach_init_iff_assignment' depends on axioms: [propext, Classical.choice, Quot.sound]
#print axioms Prtpy.CKKOpt.reach_init_iff
  'Prtpy.CKKOpt.reach_init_iff' depends on axioms: [propext, Classical.choice, Quot.sound]
#print axioms Prtpy.CKKOpt.reach_expand_iff
  'Prtpy.CKKOpt.reach_expand_iff' depends on axioms: [propext, Classical.choice, Quot.sound]
#print axioms Prtpy.CKKOpt.ckkBound_admissible
  'Prtpy.CKKOpt.ckkBound_admissible' depends on axioms: [propext, Classical.choice, Quot.sound]
#print axioms Prtpy.CKKOpt.allCombContents_complete
  'Prtpy.CKKOpt.allCombContents_complete' depends on axioms: [propext, Classical.choice, Quot.sound]
#print axioms Prtpy.CKKOpt.ckkStep_cinv
  'Prtpy.CKKOpt.ckkStep_cinv' depends on axioms: [propext, Classical.choice, Quot.sound]
#print axioms Prtpy.CKKOpt.ckk_optimal
  'Prtpy.CKKOpt.ckk_optimal' depends on axioms: [propext, Classical.choice, Quot.sound]
#print axioms Prtpy.CKKOpt.ckk_optimal_of_ok
  'Prtpy.CKKOpt.ckk_optimal_of_ok' depends on axioms: [propext, Classical.choice, Quot.sound]
#print axioms Prtpy.CKKOpt.ckkGen_last_optimal
  'Prtpy.CKKOpt.ckkGen_last_optimal' depends on axioms: [propext, Classical.choice, Quot.sound]
#print axioms Prtpy.CKKOpt.ckk_sums_optimal
  'Prtpy.CKKOpt.ckk_sums_optimal' depends on axioms: [propext, Classical.choice, Quot.sound]
#print axioms Prtpy.CKKOpt.ckkGen_sums_last_optimal
  'Prtpy.CKKOpt.ckkGen_sums_last_optimal' depends on axioms: [propext, Classical.choice, Quot.sound]
-/
