/-
  PrtpyProofs.ExactSym — property C18 for the exact algorithms:
    * reordering the input never changes the optimal value returned by an exact algorithm,
    * multiplying all values by a positive integer multiplies the optimal value by the same factor,
    * adding zero-valued items never changes an exact algorithm's optimal value.
  B1  uniqueness of the optimum
  B2  complete greedy (`cg`, run to completion), all 16 switch combinations
  B3  dynamic programming (`dpFinal` minimal records, the deterministic `dp`) and the oracle `optValue`; agreement
  B4  CBLDM (`sumDiff` of the result)
  Everything follows from the optimality theorems (`CGOpt.cg_optimal`, `Oracle.dp_optimal`, `CBLDMOpt.cbldm_optimal`)
  and the symmetries of the *specification* (`Scale.isOptimal_*`, and of `optBalanced` proved here).
-/
import Prtpy
import PrtpyProofs.Oracle
import PrtpyProofs.Checkers
import PrtpyProofs.Scale
import PrtpyProofs.CGOpt
import PrtpyProofs.CBLDMOpt

namespace Prtpy.ExactSym

variable {α : Type}

/-! ## B1. the optimum is unique -/

/-- **B1** -/
theorem isOptimal_unique {o : Objective} {k : Nat} {vals : List Nat} {x y : Int}
    (hx : IsOptimalValue o k vals x) (hy : IsOptimalValue o k vals y) : x = y :=
  Oracle.isOptimalValue_unique hx hy

example : (3 : Int) = 3 := isOptimal_unique Scale.opt123 Scale.opt123

/-! ### three small facts about value lists -/

theorem map_scale (v : α → Nat) (c : Nat) (items : List α) :
    items.map (fun a => c * v a) = (items.map v).map (c * ·) := by
  rw [List.map_map]; rfl

theorem map_zeros (v : α → Nat) {zs : List α} (hz : ∀ z ∈ zs, v z = 0) : zs.map v = List.replicate zs.length 0 := by
  induction zs with
  | nil => rfl
  | cons z zs ih =>
    rw [List.map_cons, hz z List.mem_cons_self, ih (fun y hy => hz y (List.mem_cons_of_mem _ hy))]
    rfl

theorem map_append_zeros (v : α → Nat) (items : List α) {zs : List α} (hz : ∀ z ∈ zs, v z = 0) :
    (items ++ zs).map v = items.map v ++ List.replicate zs.length 0 := by
  rw [List.map_append, map_zeros v hz]

/-- the three symmetries of the specification, on items -/
theorem isOptimal_items_perm {o : Objective} {k : Nat} {v : α → Nat} {items₁ items₂ : List α} {x : Int}
    (hp : items₁.Perm items₂) (h : IsOptimalValue o k (items₁.map v) x) : IsOptimalValue o k (items₂.map v) x :=
  Scale.isOptimal_perm (hp.map v) h

theorem isOptimal_items_scale {o : Objective} {k : Nat} {v : α → Nat} {items : List α} {x : Int} (c : Nat)
    (h : IsOptimalValue o k (items.map v) x) :
    IsOptimalValue o k (items.map fun a => c * v a) ((c : Int) * x) := by
  rw [map_scale]; exact Scale.isOptimal_scale c h

theorem isOptimal_items_zeros {o : Objective} {k : Nat} {v : α → Nat} {items zs : List α} {x : Int} (hk : 0 < k)
    (hz : ∀ z ∈ zs, v z = 0) (h : IsOptimalValue o k (items.map v) x) :
    IsOptimalValue o k ((items ++ zs).map v) x := by
  rw [map_append_zeros v items hz]; exact Scale.isOptimal_zeros_partial hk _ h

/-! ## B2. complete greedy -/

section cg
variable {v : α → Nat} {cfg cfg₁ cfg₂ : CgCfg} {k : Nat} {items items₁ items₂ zs : List α} {fuel fuel₁ fuel₂ : Nat}
  {b b₁ b₂ : Bins α}

/-- **B2**: the value returned by a completed run does not depend on the order of the items
    (nor on the fuel, nor — see `cg_value_config_independent` — on the switches) -/
theorem cg_value_perm (hk : 0 < k) (hp : items₁.Perm items₂)
    (h₁ : cg v cfg k items₁ none fuel₁ = .ok (some b₁)) (h₂ : cg v cfg k items₂ none fuel₂ = .ok (some b₂)) :
    cfg.obj.value b₁.sums false = cfg.obj.value b₂.sums false :=
  isOptimal_unique (isOptimal_items_perm hp (CGOpt.cg_optimal hk h₁)) (CGOpt.cg_optimal hk h₂)

example : Objective.minLargest.value (⟨[15, 15], [[6, 5, 4], [8, 7]]⟩ : Bins Nat).sums false
    = Objective.minLargest.value (⟨[15, 15], [[6, 5, 4], [8, 7]]⟩ : Bins Nat).sums false :=
  cg_value_perm (v := id) (cfg := ⟨.minLargest, true, true, true, true⟩) (k := 2)
    (items₁ := [4, 5, 6, 7, 8]) (items₂ := [8, 4, 7, 5, 6]) (fuel₁ := 100) (fuel₂ := 100)
    (by decide) (by decide) (by rfl) (by rfl)

/-- **B2**: all values multiplied by `c` (the same items under the value function `c * v ·`): the returned value
    is multiplied by `c`.  (`0 < c` is not needed.) -/
theorem cg_value_scale (hk : 0 < k) (c : Nat)
    (h₁ : cg v cfg k items none fuel₁ = .ok (some b₁))
    (h₂ : cg (fun a => c * v a) cfg k items none fuel₂ = .ok (some b₂)) :
    cfg.obj.value b₂.sums false = (c : Int) * cfg.obj.value b₁.sums false :=
  isOptimal_unique (CGOpt.cg_optimal hk h₂) (isOptimal_items_scale c (CGOpt.cg_optimal hk h₁))

example : Objective.minLargest.value (⟨[45, 45], [[6, 5, 4], [8, 7]]⟩ : Bins Nat).sums false
    = ((3 : Nat) : Int) * Objective.minLargest.value (⟨[15, 15], [[6, 5, 4], [8, 7]]⟩ : Bins Nat).sums false :=
  cg_value_scale (v := id) (cfg := ⟨.minLargest, true, true, true, true⟩) (k := 2)
    (items := [4, 5, 6, 7, 8]) (fuel₁ := 100) (fuel₂ := 100) (by decide) 3 (by rfl) (by rfl)

/-- **B2**: appending zero-valued items does not change the returned value -/
theorem cg_value_zeros (hk : 0 < k) (hz : ∀ z ∈ zs, v z = 0)
    (h₁ : cg v cfg k items none fuel₁ = .ok (some b₁))
    (h₂ : cg v cfg k (items ++ zs) none fuel₂ = .ok (some b₂)) :
    cfg.obj.value b₂.sums false = cfg.obj.value b₁.sums false :=
  isOptimal_unique (CGOpt.cg_optimal hk h₂) (isOptimal_items_zeros hk hz (CGOpt.cg_optimal hk h₁))

/-- … wherever the zero-valued items are inserted -/
theorem cg_value_zeros_anywhere (hk : 0 < k) (hz : ∀ z ∈ zs, v z = 0) (hp : items₂.Perm (items ++ zs))
    (h₁ : cg v cfg k items none fuel₁ = .ok (some b₁))
    (h₂ : cg v cfg k items₂ none fuel₂ = .ok (some b₂)) :
    cfg.obj.value b₂.sums false = cfg.obj.value b₁.sums false :=
  isOptimal_unique (CGOpt.cg_optimal hk h₂)
    (isOptimal_items_perm hp.symm (isOptimal_items_zeros hk hz (CGOpt.cg_optimal hk h₁)))

example : Objective.minLargest.value (⟨[15, 15], [[6, 5, 4], [8, 7, 0, 0]]⟩ : Bins Nat).sums false
    = Objective.minLargest.value (⟨[15, 15], [[6, 5, 4], [8, 7]]⟩ : Bins Nat).sums false :=
  cg_value_zeros (v := id) (cfg := ⟨.minLargest, false, false, false, false⟩) (k := 2)
    (items := [4, 5, 6, 7, 8]) (zs := [0, 0]) (fuel₁ := 1000) (fuel₂ := 1000) (by decide) (by decide)
    (by rfl) (by rfl)

/-- **B2**: two configurations with the same objective return the same value: the lower-bound prune, the fast lower
    bound, heuristic 3 and the seen-set (16 combinations) never change the value of a completed run -/
theorem cg_value_config_independent (hk : 0 < k) (ho : cfg₁.obj = cfg₂.obj)
    (h₁ : cg v cfg₁ k items none fuel₁ = .ok (some b₁)) (h₂ : cg v cfg₂ k items none fuel₂ = .ok (some b₂)) :
    cfg₁.obj.value b₁.sums false = cfg₂.obj.value b₂.sums false := by
  have o₁ := CGOpt.cg_optimal hk h₁
  rw [ho] at o₁ ⊢
  exact isOptimal_unique o₁ (CGOpt.cg_optimal hk h₂)

/-- the same, all symmetries at once: different switches, different order -/
theorem cg_value_config_perm (hk : 0 < k) (ho : cfg₁.obj = cfg₂.obj) (hp : items₁.Perm items₂)
    (h₁ : cg v cfg₁ k items₁ none fuel₁ = .ok (some b₁)) (h₂ : cg v cfg₂ k items₂ none fuel₂ = .ok (some b₂)) :
    cfg₁.obj.value b₁.sums false = cfg₂.obj.value b₂.sums false := by
  have o₁ := isOptimal_items_perm hp (CGOpt.cg_optimal hk h₁)
  rw [ho] at o₁ ⊢
  exact isOptimal_unique o₁ (CGOpt.cg_optimal hk h₂)

-- all prunes on (finds `[8] [7,4] [6,5]`) against no prune at all
example : Objective.minDiff.value (⟨[8, 11, 11], [[8], [7, 4], [6, 5]]⟩ : Bins Nat).sums false
    = Objective.minDiff.value (⟨[8, 11, 11], [[8], [7, 4], [6, 5]]⟩ : Bins Nat).sums false :=
  cg_value_config_independent (v := id) (cfg₁ := ⟨.minDiff, true, true, true, true⟩)
    (cfg₂ := ⟨.minDiff, false, false, false, false⟩) (k := 3) (items := [4, 5, 6, 7, 8])
    (fuel₁ := 1000) (fuel₂ := 1000) (by decide) rfl (by rfl) (by rfl)

/-- **B3**, agreement with the oracle: a completed run returns the oracle's value -/
theorem cg_value_eq_optValue (hk : 0 < k) (h : cg v cfg k items none fuel = .ok (some b)) :
    optValue cfg.obj k (items.map v) = some (cfg.obj.value b.sums false) := by
  obtain ⟨x, hx, hox⟩ := Oracle.optValue_spec cfg.obj (items.map v) hk
  rw [hx, isOptimal_unique hox (CGOpt.cg_optimal hk h)]

example : optValue .minLargest 2 [4, 5, 6, 7, 8] = some 15 :=
  cg_value_eq_optValue (v := id) (cfg := ⟨.minLargest, true, true, true, true⟩) (items := [4, 5, 6, 7, 8])
    (fuel := 100) (b := ⟨[15, 15], [[6, 5, 4], [8, 7]]⟩) (by decide) (by rfl)

end cg

/-! ## B3. dynamic programming and the oracle -/

/-- `r` is a minimal final record of the DP for objective `o` (what `min(states, key = …)` may return) -/
def DpMin (o : Objective) (k : Nat) (vals : List Nat) (r : DpRec) : Prop :=
  r ∈ dpFinal k vals ∧ ∀ r' ∈ dpFinal k vals, o.value r.state false ≤ o.value r'.state false

/-- `Oracle.dp_optimal`, on the record's state -/
theorem dpMin_optimal {o : Objective} {k : Nat} {vals : List Nat} {r : DpRec} (h : DpMin o k vals r) :
    IsOptimalValue o k vals (o.value r.state false) := by
  have := Oracle.dp_optimal' o (k := k) (id : Nat → Nat) vals r (by simpa using h.1) (by simpa using h.2)
  rw [(Oracle.dpReplay_isPartition id vals (r := r) (by simpa using h.1)).2] at this
  simpa using this

/-- … and on the replayed partition, for any item type -/
theorem dpMin_replay_optimal {o : Objective} {k : Nat} (v : α → Nat) (items : List α) {r : DpRec}
    (h : DpMin o k (items.map v) r) :
    IsOptimalValue o k (items.map v) (o.value (dpReplay v k items r.path).sums false) :=
  Oracle.dp_optimal' o v items r h.1 h.2

section dp
variable {o : Objective} {k : Nat} {v : α → Nat} {items items₁ items₂ zs : List α} {r r₁ r₂ : DpRec}

/-- **B3**: whichever minimal records the DP picks for an input and for a reordering of it, the values agree -/
theorem dp_value_perm (hp : items₁.Perm items₂) (h₁ : DpMin o k (items₁.map v) r₁) (h₂ : DpMin o k (items₂.map v) r₂) :
    o.value r₁.state false = o.value r₂.state false :=
  isOptimal_unique (isOptimal_items_perm hp (dpMin_optimal h₁)) (dpMin_optimal h₂)

/-- in particular (`items₁ = items₂`) the value does not depend on which minimal record is returned — the
    set-iteration-order non-determinism of the implementation is harmless -/
theorem dp_value_record_independent (h₁ : DpMin o k (items.map v) r₁) (h₂ : DpMin o k (items.map v) r₂) :
    o.value r₁.state false = o.value r₂.state false :=
  dp_value_perm (List.Perm.refl _) h₁ h₂

theorem dp_value_scale (c : Nat) (h₁ : DpMin o k (items.map v) r₁) (h₂ : DpMin o k (items.map fun a => c * v a) r₂) :
    o.value r₂.state false = (c : Int) * o.value r₁.state false :=
  isOptimal_unique (dpMin_optimal h₂) (isOptimal_items_scale c (dpMin_optimal h₁))

theorem dp_value_zeros (hk : 0 < k) (hz : ∀ z ∈ zs, v z = 0) (h₁ : DpMin o k (items.map v) r₁)
    (h₂ : DpMin o k ((items ++ zs).map v) r₂) :
    o.value r₂.state false = o.value r₁.state false :=
  isOptimal_unique (dpMin_optimal h₂) (isOptimal_items_zeros hk hz (dpMin_optimal h₁))

/-- the same three on the replayed partitions (as `Oracle.dp_optimal` is stated) -/
theorem dp_replay_value_perm (hp : items₁.Perm items₂) (h₁ : DpMin o k (items₁.map v) r₁)
    (h₂ : DpMin o k (items₂.map v) r₂) :
    o.value (dpReplay v k items₁ r₁.path).sums false = o.value (dpReplay v k items₂ r₂.path).sums false :=
  isOptimal_unique (isOptimal_items_perm hp (dpMin_replay_optimal v items₁ h₁)) (dpMin_replay_optimal v items₂ h₂)

theorem dp_replay_value_scale (c : Nat) (h₁ : DpMin o k (items.map v) r₁)
    (h₂ : DpMin o k (items.map fun a => c * v a) r₂) :
    o.value (dpReplay (fun a => c * v a) k items r₂.path).sums false
      = (c : Int) * o.value (dpReplay v k items r₁.path).sums false :=
  isOptimal_unique (dpMin_replay_optimal _ items h₂) (isOptimal_items_scale c (dpMin_replay_optimal v items h₁))

theorem dp_replay_value_zeros (hk : 0 < k) (hz : ∀ z ∈ zs, v z = 0) (h₁ : DpMin o k (items.map v) r₁)
    (h₂ : DpMin o k ((items ++ zs).map v) r₂) :
    o.value (dpReplay v k (items ++ zs) r₂.path).sums false = o.value (dpReplay v k items r₁.path).sums false :=
  isOptimal_unique (dpMin_replay_optimal v _ h₂) (isOptimal_items_zeros hk hz (dpMin_replay_optimal v items h₁))

example : DpMin .minLargest 2 ([1, 2, 3].map id) ⟨[3, 3], [1, 0, 0]⟩ := by
  constructor <;> decide
example : DpMin .minLargest 2 ([3, 1, 2].map id) ⟨[3, 3], [1, 1, 0]⟩ := by
  constructor <;> decide
example : Objective.minLargest.value [3, 3] false = Objective.minLargest.value [3, 3] false :=
  dp_value_perm (k := 2) (v := id) (items₁ := [1, 2, 3]) (items₂ := [3, 1, 2]) (r₁ := ⟨[3, 3], [1, 0, 0]⟩)
    (r₂ := ⟨[3, 3], [1, 1, 0]⟩) (by decide) (by constructor <;> decide) (by constructor <;> decide)
example : Objective.minLargest.value [6, 6] false = ((2 : Nat) : Int) * Objective.minLargest.value [3, 3] false :=
  dp_value_scale (k := 2) (v := id) (items := [1, 2, 3]) (r₁ := ⟨[3, 3], [1, 0, 0]⟩) (r₂ := ⟨[6, 6], [1, 0, 0]⟩) 2
    (by constructor <;> decide) (by constructor <;> decide)
example : Objective.minLargest.value [3, 3] false = Objective.minLargest.value [3, 3] false :=
  dp_value_zeros (k := 2) (v := id) (items := [1, 2, 3]) (zs := [0]) (r₁ := ⟨[3, 3], [1, 0, 0]⟩)
    (r₂ := ⟨[3, 3], [0, 1, 0, 0]⟩) (by decide) (by decide) (by constructor <;> decide) (by constructor <;> decide)

/-- the deterministic representative `dp` returns the replay of a minimal record -/
theorem dp_ok_min {b : Bins α} (h : dp v o k items = .ok b) :
    ∃ r, DpMin o k (items.map v) r ∧ b = dpReplay v k items r.path := by
  unfold dp dpBestValue at h
  simp only at h
  generalize hys : (dpFinal k (items.map v)).map (fun r => o.value r.state false) = ys at h
  match ys, hys, h with
  | [], _, h => cases h
  | x :: xs, hys, h =>
    simp only at h
    cases hf : (dpFinal k (items.map v)).find? (fun r => o.value r.state false == xs.foldl min x) with
    | none => rw [hf] at h; cases h
    | some r =>
      rw [hf] at h
      cases h
      have hr := List.mem_of_find?_eq_some hf
      have hv : o.value r.state false = xs.foldl min x := by
        have := List.find?_some hf
        simpa using this
      refine ⟨r, ⟨hr, fun r' hr' => ?_⟩, rfl⟩
      rw [hv]
      apply Oracle.foldl_min_le x xs
      rw [← hys]
      exact List.mem_map.2 ⟨r', hr', rfl⟩

/-- C02 for the model's `dp` (any `k`, as `Oracle.dp_optimal'`) -/
theorem dp_ok_optimal {b : Bins α} (h : dp v o k items = .ok b) :
    IsOptimalValue o k (items.map v) (o.value b.sums false) := by
  obtain ⟨r, hr, rfl⟩ := dp_ok_min h
  exact dpMin_replay_optimal v items hr

theorem dp_fn_value_perm {b₁ b₂ : Bins α} (hp : items₁.Perm items₂) (h₁ : dp v o k items₁ = .ok b₁)
    (h₂ : dp v o k items₂ = .ok b₂) : o.value b₁.sums false = o.value b₂.sums false :=
  isOptimal_unique (isOptimal_items_perm hp (dp_ok_optimal h₁)) (dp_ok_optimal h₂)

theorem dp_fn_value_scale {b₁ b₂ : Bins α} (c : Nat) (h₁ : dp v o k items = .ok b₁)
    (h₂ : dp (fun a => c * v a) o k items = .ok b₂) :
    o.value b₂.sums false = (c : Int) * o.value b₁.sums false :=
  isOptimal_unique (dp_ok_optimal h₂) (isOptimal_items_scale c (dp_ok_optimal h₁))

theorem dp_fn_value_zeros {b₁ b₂ : Bins α} (hk : 0 < k) (hz : ∀ z ∈ zs, v z = 0) (h₁ : dp v o k items = .ok b₁)
    (h₂ : dp v o k (items ++ zs) = .ok b₂) : o.value b₂.sums false = o.value b₁.sums false :=
  isOptimal_unique (dp_ok_optimal h₂) (isOptimal_items_zeros hk hz (dp_ok_optimal h₁))

example : Objective.minDiff.value (⟨[5, 5], [[2, 3], [1, 4]]⟩ : Bins Nat).sums false
    = Objective.minDiff.value (⟨[5, 5], [[2, 3], [4, 1]]⟩ : Bins Nat).sums false :=
  dp_fn_value_perm (v := id) (o := .minDiff) (k := 2) (items₁ := [1, 2, 3, 4]) (items₂ := [4, 2, 3, 1])
    (by decide) (by rfl) (by rfl)

/-- **B3**, agreement of the two exact algorithms: complete greedy and any minimal DP record -/
theorem cg_value_eq_dp {cfg : CgCfg} {fuel : Nat} {b : Bins α} (hk : 0 < k)
    (h : cg v cfg k items none fuel = .ok (some b)) (hr : DpMin cfg.obj k (items.map v) r) :
    cfg.obj.value b.sums false = cfg.obj.value r.state false :=
  isOptimal_unique (CGOpt.cg_optimal hk h) (dpMin_optimal hr)

theorem cg_value_eq_dp_fn {cfg : CgCfg} {fuel : Nat} {b b' : Bins α} (hk : 0 < k)
    (h : cg v cfg k items none fuel = .ok (some b)) (hd : dp v cfg.obj k items = .ok b') :
    cfg.obj.value b.sums false = cfg.obj.value b'.sums false :=
  isOptimal_unique (CGOpt.cg_optimal hk h) (dp_ok_optimal hd)

/-- … and a minimal DP record has the oracle's value -/
theorem dp_value_eq_optValue (hk : 0 < k) (hr : DpMin o k (items.map v) r) :
    optValue o k (items.map v) = some (o.value r.state false) := by
  obtain ⟨x, hx, hox⟩ := Oracle.optValue_spec o (items.map v) hk
  rw [hx, isOptimal_unique hox (dpMin_optimal hr)]

example : Objective.minLargest.value (⟨[15, 15], [[6, 5, 4], [8, 7]]⟩ : Bins Nat).sums false
    = Objective.minLargest.value [15, 15] false :=
  cg_value_eq_dp (k := 2) (v := id) (cfg := ⟨.minLargest, true, true, true, true⟩) (items := [4, 5, 6, 7, 8]) (fuel := 100)
    (r := ⟨[15, 15], [1, 1, 0, 0, 0]⟩) (by decide) (by rfl) (by constructor <;> decide)

end dp

/-- **B3** for the oracle: the three symmetries, on items (from `Scale.optValue_*`) -/
theorem optValue_items_perm (o : Objective) (k : Nat) (v : α → Nat) {items₁ items₂ : List α}
    (hp : items₁.Perm items₂) : optValue o k (items₁.map v) = optValue o k (items₂.map v) :=
  Scale.optValue_perm o k (hp.map v)

theorem optValue_items_scale (o : Objective) (k c : Nat) (v : α → Nat) (items : List α) :
    optValue o k (items.map fun a => c * v a) = (optValue o k (items.map v)).map ((c : Int) * ·) := by
  rw [map_scale]; exact Scale.optValue_scale o k c _

theorem optValue_items_zeros (o : Objective) {k : Nat} (hk : 0 < k) (v : α → Nat) (items : List α) {zs : List α}
    (hz : ∀ z ∈ zs, v z = 0) : optValue o k ((items ++ zs).map v) = optValue o k (items.map v) := by
  rw [map_append_zeros v items hz]; exact Scale.optValue_zeros o hk _ _

example : optValue .minDiff 3 ([(4, 'a'), (5, 'b'), (6, 'c')].map Prod.fst)
    = optValue .minDiff 3 ([(6, 'c'), (4, 'a'), (5, 'b')].map Prod.fst) :=
  optValue_items_perm _ _ _ (by decide)

/-! ## B4. CBLDM -/

open optBalanced (absDiffN)

theorem absDiffN_mul (c a b : Nat) : absDiffN (c * a) (c * b) = c * absDiffN a b := by
  rcases Nat.eq_zero_or_pos c with rfl | hc
  · simp [absDiffN]
  · unfold absDiffN
    by_cases h : a ≤ b
    · rw [if_pos h, if_pos (Nat.mul_le_mul_left c h), Nat.mul_sub]
    · have h' : ¬ c * a ≤ c * b := fun hh => h (Nat.le_of_mul_le_mul_left hh hc)
      rw [if_neg h, if_neg h', Nat.mul_sub]

/-- Transfer of the balanced optimum between two instances whose admissible sub-collections correspond with sums
    scaled by `c`.  (Only the *set of achievable (cardinality test, sum)* matters.) -/
theorem optBalanced_transfer {d₁ d₂ c : Nat} {vals₁ vals₂ : List Nat} {x : Nat}
    (hsum : sumL vals₂ = c * sumL vals₁)
    (h12 : ∀ sub, sub.Sublist vals₁ → absDiffN (2 * sub.length) vals₁.length ≤ d₁ →
      ∃ sub', sub'.Sublist vals₂ ∧ absDiffN (2 * sub'.length) vals₂.length ≤ d₂ ∧ sumL sub' = c * sumL sub)
    (h21 : ∀ sub', sub'.Sublist vals₂ → absDiffN (2 * sub'.length) vals₂.length ≤ d₂ →
      ∃ sub, sub.Sublist vals₁ ∧ absDiffN (2 * sub.length) vals₁.length ≤ d₁ ∧ sumL sub' = c * sumL sub)
    (h : optBalanced d₁ vals₁ = some x) : optBalanced d₂ vals₂ = some (c * x) := by
  obtain ⟨⟨sub, hsub, hcard, hval⟩, hmin⟩ := Checkers.optBalanced_spec.1 h
  apply Checkers.optBalanced_spec.2
  constructor
  · obtain ⟨sub', hsub', hcard', hs'⟩ := h12 sub hsub hcard
    refine ⟨sub', hsub', hcard', ?_⟩
    rw [hs', hsum, Nat.mul_left_comm, absDiffN_mul, hval]
  · intro sub' hsub' hcard'
    obtain ⟨sub, hsub, hcard, hs⟩ := h21 sub' hsub' hcard'
    rw [hs, hsum, Nat.mul_left_comm, absDiffN_mul]
    exact Nat.mul_le_mul_left c (hmin sub hsub hcard)

/-- the balanced optimum is a function of the multiset of values -/
theorem optBalanced_perm (d : Nat) {vals₁ vals₂ : List Nat} (hp : vals₁.Perm vals₂) :
    optBalanced d vals₁ = optBalanced d vals₂ := by
  have key : ∀ {l₁ l₂ : List Nat} {x : Nat}, l₁.Perm l₂ → optBalanced d l₁ = some x → optBalanced d l₂ = some x := by
    intro l₁ l₂ x hp h
    have := optBalanced_transfer (d₁ := d) (d₂ := d) (c := 1) (vals₁ := l₁) (vals₂ := l₂) (x := x)
      (by rw [Nat.one_mul]; exact Checkers.sumL_perm hp.symm)
      (by
        intro sub hsub hcard
        obtain ⟨sub', hp', hs'⟩ := List.exists_perm_sublist hsub hp
        exact ⟨sub', hs', by rw [hp'.length_eq, ← hp.length_eq]; exact hcard,
          by rw [Nat.one_mul]; exact Checkers.sumL_perm hp'⟩)
      (by
        intro sub' hsub' hcard'
        obtain ⟨sub, hp', hs⟩ := List.exists_perm_sublist hsub' hp.symm
        exact ⟨sub, hs, by rw [hp'.length_eq, hp.length_eq]; exact hcard',
          by rw [Nat.one_mul]; exact Checkers.sumL_perm hp'.symm⟩)
      h
    rwa [Nat.one_mul] at this
  cases h₁ : optBalanced d vals₁ with
  | some x => exact (key hp h₁).symm
  | none =>
    cases h₂ : optBalanced d vals₂ with
    | none => rfl
    | some y => rw [key hp.symm h₂] at h₁; cases h₁

example : optBalanced 1 [1, 1, 1, 1, 10] = optBalanced 1 [10, 1, 1, 1, 1] := optBalanced_perm 1 (by decide)

/-- scaling all values scales the balanced optimum -/
theorem optBalanced_scale (d c : Nat) {vals : List Nat} {x : Nat} (h : optBalanced d vals = some x) :
    optBalanced d (vals.map (c * ·)) = some (c * x) := by
  refine optBalanced_transfer (Scale.sumL_map_mul c vals) ?_ ?_ h
  · intro sub hsub hcard
    exact ⟨sub.map (c * ·), hsub.map _, by simpa using hcard, Scale.sumL_map_mul c sub⟩
  · intro sub' hsub' hcard'
    obtain ⟨sub, hsub, rfl⟩ := List.sublist_map_iff.1 hsub'
    exact ⟨sub, hsub, by simpa using hcard', Scale.sumL_map_mul c sub⟩

theorem sumL_zeros {l : List Nat} (h : ∀ x ∈ l, x = 0) : sumL l = 0 := by
  induction l with
  | nil => rfl
  | cons a l ih =>
    simp only [sumL, h a List.mem_cons_self, ih (fun x hx => h x (List.mem_cons_of_mem _ hx))]

theorem absDiffN_le {a n d : Nat} (ha : a ≤ n) (hd : n ≤ d) : absDiffN (2 * a) n ≤ d := by
  unfold absDiffN; split <;> omega

/-- without a cardinality constraint (any bound `≥` the number of items), zero-valued items do not change the
    balanced optimum -/
theorem optBalanced_zeros {d₁ d₂ z : Nat} {vals : List Nat} {x : Nat} (hd₁ : vals.length ≤ d₁)
    (hd₂ : vals.length + z ≤ d₂) (h : optBalanced d₁ vals = some x) :
    optBalanced d₂ (vals ++ List.replicate z 0) = some x := by
  have hz : sumL (List.replicate z 0) = 0 := sumL_zeros (fun x hx => (List.mem_replicate.1 hx).2)
  have := optBalanced_transfer (d₁ := d₁) (d₂ := d₂) (c := 1) (vals₁ := vals)
    (vals₂ := vals ++ List.replicate z 0) (x := x)
    (by rw [Fit.sumL_append, hz, Nat.one_mul, Nat.add_zero])
    (by
      intro sub hsub _
      refine ⟨sub, hsub.trans (List.sublist_append_left _ _), ?_, by rw [Nat.one_mul]⟩
      apply absDiffN_le
      · rw [List.length_append, List.length_replicate]; have := hsub.length_le; omega
      · rw [List.length_append, List.length_replicate]; exact hd₂)
    (by
      intro sub' hsub' _
      obtain ⟨a, b, rfl, ha, hb⟩ := List.sublist_append_iff.1 hsub'
      refine ⟨a, ha, absDiffN_le ha.length_le hd₁, ?_⟩
      rw [Fit.sumL_append, sumL_zeros (fun x hx => (List.mem_replicate.1 (hb.subset hx)).2), Nat.one_mul,
        Nat.add_zero])
    h
  rwa [Nat.one_mul] at this

/-- with a binding cardinality constraint the zero-valued items *do* matter (which is why `cbldm_value_zeros` is
    stated for the default bound only): `[3, 1, 1, 1]` with bound 0 must be split 2 + 2 (difference 2), whereas with
    two extra zero-valued items `{3, 0, 0}` against `{1, 1, 1}` is allowed (difference 0) -/
example : optBalanced 0 [3, 1, 1, 1] = some 2 ∧ optBalanced 0 ([3, 1, 1, 1] ++ List.replicate 2 0) = some 0 := by
  decide

section cbldm
variable {v : α → Nat} {items items₁ items₂ zs : List α} {d : Option Nat} {b b₁ b₂ : Bins α}

/-- **B4**: the sum difference returned by CBLDM does not depend on the order of the items -/
theorem cbldm_value_perm (hne : items₁ ≠ []) (hd : ∀ dd, d = some dd → 1 ≤ dd) (hp : items₁.Perm items₂)
    (h₁ : cbldm v items₁ d none = some b₁) (h₂ : cbldm v items₂ d none = some b₂) :
    sumDiff b₁ = sumDiff b₂ := by
  have hne₂ : items₂ ≠ [] := fun h => hne (by rw [h] at hp; exact hp.eq_nil)
  have o₁ := CBLDMOpt.cbldm_optimal hne hd h₁
  have o₂ := CBLDMOpt.cbldm_optimal hne₂ hd h₂
  rw [hp.length_eq, optBalanced_perm _ (hp.map v), o₂] at o₁
  exact (Option.some.inj o₁).symm

example : sumDiff (⟨[3, 11], [[1, 1, 1], [10, 1]]⟩ : Bins Nat) = sumDiff (⟨[3, 11], [[1, 1, 1], [10, 1]]⟩ : Bins Nat) :=
  cbldm_value_perm (v := id) (items₁ := [1, 1, 1, 1, 10]) (items₂ := [1, 10, 1, 1, 1]) (d := some 1)
    (by simp) (by intro dd h; cases h; exact Nat.le_refl 1) (by decide) (by rfl) (by rfl)

/-- **B4**: all values multiplied by `c`: the returned sum difference is multiplied by `c` (`0 < c` not needed) -/
theorem cbldm_value_scale (hne : items ≠ []) (hd : ∀ dd, d = some dd → 1 ≤ dd) (c : Nat)
    (h₁ : cbldm v items d none = some b₁) (h₂ : cbldm (fun a => c * v a) items d none = some b₂) :
    sumDiff b₂ = c * sumDiff b₁ := by
  have o₁ := CBLDMOpt.cbldm_optimal hne hd h₁
  have o₂ := CBLDMOpt.cbldm_optimal hne hd h₂
  rw [map_scale, optBalanced_scale _ c o₁] at o₂
  exact (Option.some.inj o₂).symm

example : sumDiff (⟨[9, 33], [[1, 1, 1], [10, 1]]⟩ : Bins Nat) = 3 * sumDiff (⟨[3, 11], [[1, 1, 1], [10, 1]]⟩ : Bins Nat) :=
  cbldm_value_scale (v := id) (items := [1, 1, 1, 1, 10]) (d := some 1)
    (by simp) (by intro dd h; cases h; exact Nat.le_refl 1) 3 (by rfl) (by rfl)

/-- **B4**: with the default (unbounded) cardinality difference, appending zero-valued items does not change the
    returned sum difference -/
theorem cbldm_value_zeros (hne : items ≠ []) (hz : ∀ z ∈ zs, v z = 0)
    (h₁ : cbldm v items none none = some b₁) (h₂ : cbldm v (items ++ zs) none none = some b₂) :
    sumDiff b₂ = sumDiff b₁ := by
  have hnone : ∀ dd, (none : Option Nat) = some dd → 1 ≤ dd := by intro dd h; cases h
  have o₁ := CBLDMOpt.cbldm_optimal hne hnone h₁
  have o₂ := CBLDMOpt.cbldm_optimal (by simp [hne]) hnone h₂
  rw [map_append_zeros v items hz] at o₂
  have := optBalanced_zeros (d₂ := (none : Option Nat).getD ((items ++ zs).length + 1)) (z := zs.length)
    (by simp) (by simp) o₁
  rw [this] at o₂
  exact (Option.some.inj o₂).symm

/-- … wherever they are inserted -/
theorem cbldm_value_zeros_anywhere (hne : items ≠ []) (hz : ∀ z ∈ zs, v z = 0) (hp : items₂.Perm (items ++ zs))
    (h₁ : cbldm v items none none = some b₁) (h₂ : cbldm v items₂ none none = some b₂) :
    sumDiff b₂ = sumDiff b₁ := by
  have hnone : ∀ dd, (none : Option Nat) = some dd → 1 ≤ dd := by intro dd h; cases h
  obtain ⟨b₃, h₃⟩ := CBLDMOpt.cbldm_some (v := v) (items := items ++ zs) (d := none) (by simp [hne]) hnone
  have hne₂ : items₂ ≠ [] := fun h => by rw [h] at hp; exact absurd hp.symm.eq_nil (by simp [hne])
  rw [cbldm_value_perm hne₂ hnone hp h₂ h₃]
  exact cbldm_value_zeros hne hz h₁ h₃

example : sumDiff (⟨[4, 10], [[1, 1, 1, 1, 0], [10, 0]]⟩ : Bins Nat) = sumDiff (⟨[4, 10], [[1, 1, 1, 1], [10]]⟩ : Bins Nat) :=
  cbldm_value_zeros (v := id) (items := [1, 1, 1, 1, 10]) (zs := [0, 0]) (by simp) (by decide) (by rfl) (by rfl)

end cbldm

/-
Axiom audit (output of `#print axioms` observed with `lake env lean`, Lean 4.33.0):

'Prtpy.ExactSym.isOptimal_unique' depends on axioms: [propext, Quot.sound]
'Prtpy.ExactSym.cg_value_perm' depends on axioms: [propext, Classical.choice, Quot.sound]
'Prtpy.ExactSym.cg_value_scale' depends on axioms: [propext, Classical.choice, Quot.sound]
'Prtpy.ExactSym.cg_value_zeros' depends on axioms: [propext, Classical.choice, Quot.sound]
'Prtpy.ExactSym.cg_value_zeros_anywhere' depends on axioms: [propext, Classical.choice, Quot.sound]
'Prtpy.ExactSym.cg_value_config_independent' depends on axioms: [propext, Classical.choice, Quot.sound]
'Prtpy.ExactSym.cg_value_config_perm' depends on axioms: [propext, Classical.choice, Quot.sound]
'Prtpy.ExactSym.cg_value_eq_optValue' depends on axioms: [propext, Classical.choice, Quot.sound]
'Prtpy.ExactSym.dp_value_perm' depends on axioms: [propext, Classical.choice, Quot.sound]
'Prtpy.ExactSym.dp_value_scale' depends on axioms: [propext, Classical.choice, Quot.sound]
'Prtpy.ExactSym.dp_value_zeros' depends on axioms: [propext, Classical.choice, Quot.sound]
'Prtpy.ExactSym.dp_replay_value_perm' depends on axioms: [propext, Classical.choice, Quot.sound]
'Prtpy.ExactSym.dp_replay_value_scale' depends on axioms: [propext, Classical.choice, Quot.sound]
'Prtpy.ExactSym.dp_replay_value_zeros' depends on axioms: [propext, Classical.choice, Quot.sound]
'Prtpy.ExactSym.dp_ok_optimal' depends on axioms: [propext, Classical.choice, Quot.sound]
'Prtpy.ExactSym.dp_fn_value_perm' depends on axioms: [propext, Classical.choice, Quot.sound]
'Prtpy.ExactSym.dp_fn_value_scale' depends on axioms: [propext, Classical.choice, Quot.sound]
'Prtpy.ExactSym.dp_fn_value_zeros' depends on axioms: [propext, Classical.choice, Quot.sound]
'Prtpy.ExactSym.cg_value_eq_dp' depends on axioms: [propext, Classical.choice, Quot.sound]
'Prtpy.ExactSym.cg_value_eq_dp_fn' depends on axioms: [propext, Classical.choice, Quot.sound]
'Prtpy.ExactSym.dp_value_eq_optValue' depends on axioms: [propext, Classical.choice, Quot.sound]
'Prtpy.ExactSym.optValue_items_perm' depends on axioms: [propext, Classical.choice, Quot.sound]
'Prtpy.ExactSym.optValue_items_scale' depends on axioms: [propext, Classical.choice, Quot.sound]
'Prtpy.ExactSym.optValue_items_zeros' depends on axioms: [propext, Classical.choice, Quot.sound]
'Prtpy.ExactSym.optBalanced_perm' depends on axioms: [propext, Classical.choice, Quot.sound]
'Prtpy.ExactSym.optBalanced_scale' depends on axioms: [propext, Classical.choice, Quot.sound]
'Prtpy.ExactSym.optBalanced_zeros' depends on axioms: [propext, Classical.choice, Quot.sound]
'Prtpy.ExactSym.cbldm_value_perm' depends on axioms: [propext, Classical.choice, Quot.sound]
'Prtpy.ExactSym.cbldm_value_scale' depends on axioms: [propext, Classical.choice, Quot.sound]
'Prtpy.ExactSym.cbldm_value_zeros' depends on axioms: [propext, Classical.choice, Quot.sound]
'Prtpy.ExactSym.cbldm_value_zeros_anywhere' depends on axioms: [propext, Classical.choice, Quot.sound]
-/

end Prtpy.ExactSym
