/-
  PrtpyProofs.MaxMin — (1) max-min guarantee of LPT (`greedy`), (2) the binary search of `multifit`.
-/
import Mathlib.Tactic.Linarith
import Mathlib.Tactic.Ring
import Mathlib.Tactic.Positivity
import Prtpy
import PrtpyProofs.Part
import PrtpyProofs.Oracle
import PrtpyProofs.LPT43
open Prtpy

namespace Prtpy.MaxMin
open Prtpy.LPT43

variable {α : Type}

/-! ## 1. Removing a bin from an LPT run -/

/-- remove bin `j` -/
def eraseBin (b : Bins α) (j : Nat) : Bins α := ⟨b.sums.eraseIdx j, b.lists.eraseIdx j⟩

/-- the items (in processing order) that LPT, started in state `b`, does **not** put on bin `j` -/
def skipRun (v : α → Nat) (j : Nat) : Bins α → List α → List α
  | _, [] => []
  | b, x :: xs =>
    if argmin b.sums = j then skipRun v j (greedyStep v b x) xs
    else x :: skipRun v j (greedyStep v b x) xs

theorem skipRun_sublist (v : α → Nat) (j : Nat) : ∀ (xs : List α) (b : Bins α),
    (skipRun v j b xs).Sublist xs
  | [], _ => by simp [skipRun]
  | x :: xs, b => by
    simp only [skipRun]
    split
    · exact (skipRun_sublist v j xs _).cons x
    · exact (skipRun_sublist v j xs _).cons_cons x

theorem idxOf_eraseIdx (a : Nat) : ∀ (l : List Nat) (j : Nat), l.idxOf a ≠ j →
    (l.eraseIdx j).idxOf a = if l.idxOf a < j then l.idxOf a else l.idxOf a - 1
  | [], j, _ => by simp
  | x :: xs, 0, h => by
    rw [List.idxOf_cons] at h ⊢
    by_cases hx : (x == a) = true
    · simp [hx] at h
    · simp only [Bool.not_eq_true] at hx
      simp [hx]
  | x :: xs, j + 1, h => by
    rw [List.idxOf_cons] at h
    simp only [List.eraseIdx_cons_succ, List.idxOf_cons]
    by_cases hx : (x == a) = true
    · simp [hx]
    · simp only [Bool.not_eq_true] at hx
      simp only [hx, cond_false] at h ⊢
      have ih := idxOf_eraseIdx a xs j (by omega)
      rw [ih]
      split <;> split <;> omega

theorem minL_eraseIdx {l : List Nat} {j : Nat} (h : argmin l ≠ j) (hne : l ≠ []) :
    minL (l.eraseIdx j) = minL l := by
  have hlt := Part.argmin_lt hne
  have hmem : minL l ∈ l.eraseIdx j :=
    List.mem_eraseIdx_iff_getElem.2 ⟨argmin l, hlt, h, Part.getElem_argmin hlt⟩
  have hne' : l.eraseIdx j ≠ [] := List.ne_nil_of_mem hmem
  apply Nat.le_antisymm
  · exact Part.minL_le hmem
  · exact Part.minL_le (List.mem_of_mem_eraseIdx (Part.minL_mem hne'))

theorem argmin_eraseIdx {l : List Nat} {j : Nat} (h : argmin l ≠ j) (hne : l ≠ []) :
    argmin (l.eraseIdx j) = if argmin l < j then argmin l else argmin l - 1 := by
  unfold argmin at *
  rw [minL_eraseIdx h hne]
  exact idxOf_eraseIdx _ l j h

theorem eraseBin_greedyStep_eq (v : α → Nat) (b : Bins α) (x : α) (j : Nat) (h : argmin b.sums = j) :
    eraseBin (greedyStep v b x) j = eraseBin b j := by
  simp only [eraseBin, greedyStep, Bins.add, h, List.eraseIdx_modify_of_eq]

theorem eraseBin_greedyStep_ne (v : α → Nat) (b : Bins α) (x : α) (j : Nat) (h : argmin b.sums ≠ j)
    (hne : b.sums ≠ []) :
    eraseBin (greedyStep v b x) j = greedyStep v (eraseBin b j) x := by
  simp only [eraseBin, greedyStep, Bins.add]
  rw [argmin_eraseIdx h hne]
  rcases Nat.lt_or_gt_of_ne h with hlt | hgt
  · simp only [hlt, if_true]
    rw [List.eraseIdx_modify_of_gt _ _ _ _ hlt, List.eraseIdx_modify_of_gt _ _ _ _ hlt]
  · have : ¬ argmin b.sums < j := by omega
    simp only [this, if_false]
    rw [List.eraseIdx_modify_of_lt _ _ _ _ hgt, List.eraseIdx_modify_of_lt _ _ _ _ hgt]

/-- **Removing a bin.**  Erasing bin `j` from the result of an LPT loop is the LPT loop, on one bin less, of the
    items that were not put on bin `j`. -/
theorem fold_eraseBin (v : α → Nat) (j : Nat) : ∀ (xs : List α) (b : Bins α), b.sums ≠ [] →
    eraseBin (xs.foldl (greedyStep v) b) j = (skipRun v j b xs).foldl (greedyStep v) (eraseBin b j)
  | [], _, _ => by simp [skipRun]
  | x :: xs, b, hne => by
    have hne' : (greedyStep v b x).sums ≠ [] := by
      intro h0
      have := congrArg List.length h0
      simp [greedyStep] at this
      exact hne this
    simp only [List.foldl_cons, skipRun]
    rw [fold_eraseBin v j xs _ hne']
    split
    · rename_i h; rw [eraseBin_greedyStep_eq v b x j h]
    · rename_i h; rw [List.foldl_cons, eraseBin_greedyStep_ne v b x j h hne]

theorem eraseBin_new (k j : Nat) (hj : j < k + 1) : eraseBin (Bins.new (k + 1) : Bins α) j = Bins.new k := by
  simp only [eraseBin, Bins.new, List.eraseIdx_replicate]
  simp [hj]

theorem run_eraseBin (v : α → Nat) (k j : Nat) (hj : j < k + 1) (xs : List α) :
    eraseBin (run v (k + 1) xs) j = run v k (skipRun v j (Bins.new (k + 1)) xs) := by
  unfold run
  rw [fold_eraseBin v j xs _ (by simp [Bins.new]), eraseBin_new k j hj]

/-! ## 2. Bins that are never touched again; bins only grow -/

theorem greedyStep_sums_ne (v : α → Nat) (b : Bins α) (x : α) (j : Nat) (h : argmin b.sums ≠ j) :
    (greedyStep v b x).sums[j]? = b.sums[j]? := by
  simp only [greedyStep, Part.add_sums]
  exact List.getElem?_modify_ne _ _ h

theorem greedyStep_lists_ne (v : α → Nat) (b : Bins α) (x : α) (j : Nat) (h : argmin b.sums ≠ j) :
    (greedyStep v b x).lists[j]? = b.lists[j]? := by
  simp only [greedyStep, Part.add_lists]
  exact List.getElem?_modify_ne _ _ h

/-- a bin whose sum exceeds the final smallest sum is never used again -/
theorem run_closed (v : α → Nat) {k : Nat} (hk : 0 < k) (P : List α) (j s : Nat)
    (hs : (run v k P).sums[j]? = some s) :
    ∀ R, minL (run v k (P ++ R)).sums < s →
      (run v k (P ++ R)).sums[j]? = some s ∧ (run v k (P ++ R)).lists[j]? = (run v k P).lists[j]? := by
  intro R
  induction R using Oracle.rev_induction with
  | nil => intro _; simpa using hs
  | snoc R x ih =>
    intro hlt
    have hmono := run_min_mono v hk (P ++ R) [x]
    rw [List.append_assoc] at hmono
    obtain ⟨h1, h2⟩ := ih (by omega)
    have hne := run_sums_ne_nil v hk (P ++ R)
    have hlt' := Part.argmin_lt hne
    have hi : argmin (run v k (P ++ R)).sums ≠ j := by
      intro e
      have := Part.getElem_argmin hlt'
      have h3 : (run v k (P ++ R)).sums[argmin (run v k (P ++ R)).sums]? = some s := by rw [e]; exact h1
      rw [List.getElem?_eq_getElem hlt', this] at h3
      simp only [Option.some.injEq] at h3
      omega
    rw [← List.append_assoc, run_snoc]
    exact ⟨by rw [greedyStep_sums_ne v _ x j hi]; exact h1, by rw [greedyStep_lists_ne v _ x j hi]; exact h2⟩

theorem greedyStep_lists_mono (v : α → Nat) (b : Bins α) (x : α) (i : Nat) (l : List α)
    (h : b.lists[i]? = some l) :
    ∃ l', (greedyStep v b x).lists[i]? = some l' ∧ ∀ u ∈ l, u ∈ l' := by
  simp only [greedyStep, Part.add_lists]
  by_cases e : argmin b.sums = i
  · refine ⟨l ++ [x], ?_, fun u hu => by simp [hu]⟩
    rw [e, List.getElem?_modify_eq, h]; rfl
  · exact ⟨l, by rw [List.getElem?_modify_ne _ _ e]; exact h, fun u hu => hu⟩

theorem run_lists_mono (v : α → Nat) (k : Nat) (P : List α) (i : Nat) (l : List α)
    (h : (run v k P).lists[i]? = some l) :
    ∀ R, ∃ l', (run v k (P ++ R)).lists[i]? = some l' ∧ ∀ u ∈ l, u ∈ l' := by
  intro R
  induction R using Oracle.rev_induction with
  | nil => exact ⟨l, by simpa using h, fun u hu => hu⟩
  | snoc R x ih =>
    obtain ⟨l₁, h1, h2⟩ := ih
    obtain ⟨l₂, h3, h4⟩ := greedyStep_lists_mono v _ x i l₁ h1
    rw [← List.append_assoc, run_snoc]
    exact ⟨l₂, h3, fun u hu => h4 u (h2 u hu)⟩

/-! ## 3. The first `k` items -/

theorem length_le_flatten_length {β : Type} (Ls : List (List β)) (h : ∀ l ∈ Ls, 1 ≤ l.length) :
    Ls.length ≤ Ls.flatten.length := by
  induction Ls with
  | nil => simp
  | cons l Ls ih =>
    have h1 := h l List.mem_cons_self
    have h2 := ih (fun l' hl' => h l' (List.mem_cons_of_mem _ hl'))
    simp only [List.flatten_cons, List.length_append, List.length_cons]
    omega

theorem all_length_one_of_le {β : Type} (Ls : List (List β)) (h : ∀ l ∈ Ls, l.length ≤ 1)
    (hf : Ls.flatten.length = Ls.length) : ∀ l ∈ Ls, l.length = 1 := by
  induction Ls with
  | nil => simp
  | cons l Ls ih =>
    have h1 := h l List.mem_cons_self
    have h2 := flatten_length_le Ls (fun l' hl' => h l' (List.mem_cons_of_mem _ hl'))
    simp only [List.flatten_cons, List.length_append, List.length_cons] at hf
    intro l' hl'
    rcases List.mem_cons.1 hl' with rfl | hl'
    · omega
    · exact ih (fun l'' hl'' => h l'' (List.mem_cons_of_mem _ hl'')) (by omega) l' hl'

theorem all_length_one_of_ge {β : Type} (Ls : List (List β)) (h : ∀ l ∈ Ls, 1 ≤ l.length)
    (hf : Ls.flatten.length = Ls.length) : ∀ l ∈ Ls, l.length = 1 := by
  induction Ls with
  | nil => simp
  | cons l Ls ih =>
    have h1 := h l List.mem_cons_self
    have h2 := length_le_flatten_length Ls (fun l' hl' => h l' (List.mem_cons_of_mem _ hl'))
    simp only [List.flatten_cons, List.length_append, List.length_cons] at hf
    intro l' hl'
    rcases List.mem_cons.1 hl' with rfl | hl'
    · omega
    · exact ih (fun l'' hl'' => h l'' (List.mem_cons_of_mem _ hl'')) (by omega) l' hl'

/-- after `k` items of positive value every bin holds exactly one item -/
theorem run_singletons (v : α → Nat) {k : Nat} (hk : 0 < k) (P : List α) (hlen : P.length = k)
    (hpos : ∀ a ∈ P, 1 ≤ v a) : ∀ l ∈ (run v k P).lists, l.length = 1 := by
  obtain ⟨hperm, hlists, hcons⟩ := run_valid v hk P
  have hf : (run v k P).lists.flatten.length = (run v k P).lists.length := by
    rw [hperm.length_eq, hlists, hlen]
  rcases run_first hk 1 P hpos with h | h
  · apply all_length_one_of_ge _ _ hf
    intro l hl
    have hc : (run v k P).sums = (run v k P).lists.map (binSum v) := hcons
    have hmem : binSum v l ∈ (run v k P).sums := by rw [hc]; exact List.mem_map_of_mem hl
    have := Part.minL_le hmem
    cases l with
    | nil => simp [binSum, sumL] at this; omega
    | cons a t => simp
  · exact all_length_one_of_le _ h hf

/-! ## 4. Surgery on covers: dropping a dominated pair together with one bin -/

theorem countP_flatten_le {β : Type} (p : β → Bool) (Ls : List (List β)) (h : ∀ g ∈ Ls, g.countP p ≤ 1) :
    Ls.flatten.countP p ≤ Ls.length := by
  induction Ls with
  | nil => simp
  | cons l Ls ih =>
    have h1 := h l List.mem_cons_self
    have h2 := ih (fun l' hl' => h l' (List.mem_cons_of_mem _ hl'))
    simp only [List.flatten_cons, List.countP_append, List.length_cons]
    omega

theorem le_countP_flatten {β : Type} (p : β → Bool) (Ls : List (List β)) (h : ∀ g ∈ Ls, ∃ u ∈ g, p u = true) :
    Ls.length ≤ Ls.flatten.countP p := by
  induction Ls with
  | nil => simp
  | cons l Ls ih =>
    obtain ⟨u, hu, hp⟩ := h l List.mem_cons_self
    have h1 : 0 < l.countP p := List.countP_pos_iff.2 ⟨u, hu, hp⟩
    have h2 := ih (fun l' hl' => h l' (List.mem_cons_of_mem _ hl'))
    simp only [List.flatten_cons, List.countP_append, List.length_cons]
    omega

/-- two members satisfying `p` can be split off -/
theorem exists_two_of_countP (p : Nat → Bool) (g : List Nat) (h : 2 ≤ g.countP p) :
    ∃ u u' g', g.Perm (u :: u' :: g') ∧ p u = true ∧ p u' = true := by
  obtain ⟨u, hu, hpu⟩ := List.countP_pos_iff.1 (show 0 < g.countP p by omega)
  have p1 := List.perm_cons_erase hu
  have c1 : g.countP p = (g.erase u).countP p + 1 := by
    rw [p1.countP_eq, List.countP_cons_of_pos hpu]
  obtain ⟨u', hu', hpu'⟩ := List.countP_pos_iff.1 (show 0 < (g.erase u).countP p by omega)
  have p2 := List.perm_cons_erase hu'
  exact ⟨u, u', _, p1.trans (p2.cons u), hpu, hpu'⟩

theorem sumL_cons (x : Nat) (l : List Nat) : sumL (x :: l) = x + sumL l := rfl

/-- **Dropping a dominated pair.**  Let `k + 2` bins, each of sum `≥ W`, hold the values `a, z` and `rest`, where
    `z ≤ a` and at least `k + 1` members of `rest` are `≥ a`.  Then `rest` alone fills `k + 1` bins to `W`.
    (If `a` and `z` share a bin, drop it.  Otherwise some bin holds two of the `k + 3` values `a, z, u₁, …`:
    replace `a` or `z` in their bins by the dominating values of that bin and drop it.) -/
theorem cover_drop_pair {W a z k : Nat} {rest : List Nat} (Q : List (List Nat))
    (hQk : Q.length = k + 2) (hQp : Q.flatten.Perm (a :: z :: rest)) (hQ : ∀ l ∈ Q, W ≤ sumL l)
    (hza : z ≤ a) (hbig : k + 1 ≤ rest.countP (fun u => decide (a ≤ u))) :
    ∃ Q' : List (List Nat), Q'.length = k + 1 ∧ Q'.flatten.Perm rest ∧ ∀ l ∈ Q', W ≤ sumL l := by
  -- the bin of `a`
  obtain ⟨la, hla, hala⟩ := List.mem_flatten.1 ((hQp.mem_iff (a := a)).2 (by simp))
  have pQ := List.perm_cons_erase hla
  have pa := List.perm_cons_erase hala
  have hQ1len : (Q.erase la).length = k + 1 := by
    have := pQ.length_eq; simp only [List.length_cons] at this; omega
  have hQ1 : ∀ l ∈ Q.erase la, W ≤ sumL l := fun l hl => hQ l (List.mem_of_mem_erase hl)
  have hWa : W ≤ a + sumL (la.erase a) := by
    have := hQ la hla; rw [Part.sumL_perm pa, sumL_cons] at this; exact this
  -- everything but `a`
  have p1 : (la.erase a ++ (Q.erase la).flatten).Perm (z :: rest) := by
    have h1 : Q.flatten.Perm (a :: (la.erase a ++ (Q.erase la).flatten)) := by
      refine pQ.flatten.trans ?_
      simp only [List.flatten_cons]
      exact (pa.append_right _)
    exact (h1.symm.trans hQp).cons_inv
  have hz : z ∈ la.erase a ++ (Q.erase la).flatten := (p1.mem_iff (a := z)).2 (by simp)
  rcases List.mem_append.1 hz with hz | hz
  · -- `a` and `z` share a bin: drop it, its other members go to any other bin
    have pz := List.perm_cons_erase hz
    have p2 : (((la.erase a).erase z) ++ (Q.erase la).flatten).Perm rest :=
      (((pz.append_right _).symm.trans p1)).cons_inv
    match hq : Q.erase la, hQ1len with
    | q :: Q2, hlen =>
      refine ⟨(((la.erase a).erase z) ++ q) :: Q2, by simpa using hlen, ?_, ?_⟩
      · rw [hq] at p2; simpa [List.append_assoc] using p2
      · intro l hl
        rcases List.mem_cons.1 hl with rfl | hl
        · have := hQ1 q (by rw [hq]; simp)
          rw [Part.sumL_append]; omega
        · exact hQ1 l (by rw [hq]; simp [hl])
  · -- the bin of `z`
    obtain ⟨lz, hlz, hzlz⟩ := List.mem_flatten.1 hz
    have pQ1 := List.perm_cons_erase hlz
    have pz := List.perm_cons_erase hzlz
    have hQ2len : ((Q.erase la).erase lz).length = k := by
      have := pQ1.length_eq; simp only [List.length_cons] at this; omega
    have hQ2 : ∀ l ∈ (Q.erase la).erase lz, W ≤ sumL l := fun l hl => hQ1 l (List.mem_of_mem_erase hl)
    have hWz : W ≤ z + sumL (lz.erase z) := by
      have := hQ1 lz hlz; rw [Part.sumL_perm pz, sumL_cons] at this; exact this
    have p2 : (la.erase a ++ (lz.erase z ++ ((Q.erase la).erase lz).flatten)).Perm rest := by
      have h1 : (la.erase a ++ (Q.erase la).flatten).Perm
          (z :: (la.erase a ++ (lz.erase z ++ ((Q.erase la).erase lz).flatten))) := by
        refine (List.Perm.append_left _ pQ1.flatten).trans ?_
        simp only [List.flatten_cons]
        refine (List.Perm.append_left _ (pz.append_right _)).trans ?_
        simp only [List.cons_append]
        exact List.perm_middle
      exact (h1.symm.trans p1).cons_inv
    have hcount := p2.countP_eq (fun u => decide (a ≤ u))
    simp only [List.countP_append] at hcount
    by_cases hA : 0 < (la.erase a).countP (fun u => decide (a ≤ u))
    · -- a dominating value next to `a` replaces `z`
      obtain ⟨u, hu, hpu⟩ := List.countP_pos_iff.1 hA
      have pu := List.perm_cons_erase hu
      have hpu' : a ≤ u := by simpa using hpu
      refine ⟨((u :: lz.erase z) ++ (la.erase a).erase u) :: (Q.erase la).erase lz, by simp [hQ2len], ?_, ?_⟩
      · refine List.Perm.trans ?_ p2
        simp only [List.flatten_cons, List.cons_append, List.append_assoc]
        refine List.Perm.trans ?_ ((pu.append_right _).symm)
        simp only [List.cons_append]
        refine List.Perm.cons u ?_
        rw [← List.append_assoc, ← List.append_assoc]
        exact List.Perm.append_right _ List.perm_append_comm
      · intro l hl
        rcases List.mem_cons.1 hl with rfl | hl
        · rw [Part.sumL_append, sumL_cons]; omega
        · exact hQ2 l hl
    · by_cases hZ : 0 < (lz.erase z).countP (fun u => decide (a ≤ u))
      · -- a dominating value next to `z` replaces `a`
        obtain ⟨u, hu, hpu⟩ := List.countP_pos_iff.1 hZ
        have pu := List.perm_cons_erase hu
        have hpu' : a ≤ u := by simpa using hpu
        refine ⟨((u :: la.erase a) ++ (lz.erase z).erase u) :: (Q.erase la).erase lz, by simp [hQ2len], ?_, ?_⟩
        · refine List.Perm.trans ?_ p2
          simp only [List.flatten_cons, List.cons_append, List.append_assoc]
          refine List.Perm.trans ?_ (List.Perm.append_left _ ((pu.append_right _).symm))
          simp only [List.cons_append]
          exact List.perm_middle.symm
        · intro l hl
          rcases List.mem_cons.1 hl with rfl | hl
          · rw [Part.sumL_append, sumL_cons]; omega
          · exact hQ2 l hl
      · -- two dominating values share a third bin
        have hpig : ((Q.erase la).erase lz).length <
            ((Q.erase la).erase lz).flatten.countP (fun u => decide (a ≤ u)) := by omega
        have : ∃ g ∈ (Q.erase la).erase lz, 2 ≤ g.countP (fun u => decide (a ≤ u)) := by
          apply Classical.byContradiction
          intro hno
          have := countP_flatten_le (fun u => decide (a ≤ u)) ((Q.erase la).erase lz) (fun g hg => by
            apply Nat.le_of_not_lt
            intro hlt
            exact hno ⟨g, hg, hlt⟩)
          omega
        obtain ⟨g, hg, hg2⟩ := this
        obtain ⟨u, u', g', pg, hpu, hpu'⟩ := exists_two_of_countP _ g hg2
        have hu : a ≤ u := by simpa using hpu
        have hu' : a ≤ u' := by simpa using hpu'
        have pQ2 := List.perm_cons_erase hg
        have hQ3len : (((Q.erase la).erase lz).erase g).length + 1 = k := by
          have := pQ2.length_eq; simp only [List.length_cons] at this; omega
        refine ⟨((u :: la.erase a) ++ g') :: (u' :: lz.erase z) :: ((Q.erase la).erase lz).erase g,
          by simp only [List.length_cons]; omega, ?_, ?_⟩
        · refine List.Perm.trans ?_ p2
          have h3 : (((Q.erase la).erase lz).flatten).Perm
              (u :: u' :: (g' ++ (((Q.erase la).erase lz).erase g).flatten)) := by
            refine pQ2.flatten.trans ?_
            simp only [List.flatten_cons]
            exact (pg.append_right _)
          refine List.Perm.trans ?_ (List.Perm.append_left _ (List.Perm.append_left _ h3.symm))
          simp only [List.flatten_cons, List.cons_append, List.append_assoc]
          rw [List.perm_iff_count]; intro x
          simp only [List.count_append, List.count_cons]
          omega
        · intro l hl
          rcases List.mem_cons.1 hl with rfl | hl
          · rw [Part.sumL_append, sumL_cons]; omega
          · rcases List.mem_cons.1 hl with rfl | hl
            · rw [sumL_cons]; omega
            · exact hQ2 l (List.mem_of_mem_erase hl)

/-! ## 5. The spread bound for an arbitrary cover, and the induction over the number of bins -/

theorem flatten_perm_getElem_eraseIdx {β : Type} : ∀ (Ls : List (List β)) (j : Nat) (h : j < Ls.length),
    Ls.flatten.Perm (Ls[j] ++ (Ls.eraseIdx j).flatten)
  | [], _, h => by simp at h
  | l :: Ls, 0, _ => by simp
  | l :: Ls, j + 1, h => by
    have ih := flatten_perm_getElem_eraseIdx Ls j (by simpa using h)
    simp only [List.flatten_cons, List.getElem_cons_succ, List.eraseIdx_cons_succ]
    refine (List.Perm.append_left l ih).trans ?_
    rw [← List.append_assoc, ← List.append_assoc]
    exact List.Perm.append_right _ List.perm_append_comm

/-- the `(k+1)`-th value of a non-increasing list bounds all later ones -/
theorem getD_spec (v : α → Nat) (k : Nat) {xs : List α} (hS : xs.Pairwise (fun a c => v c ≤ v a)) :
    ∀ j (h : j < xs.length), k ≤ j → v xs[j] ≤ (xs.map v).getD k 0 := by
  intro j h hkj
  have hk : k < xs.length := by omega
  have e : (xs.map v).getD k 0 = v xs[k] := by
    simp [List.getD_eq_getElem?_getD, hk]
  rw [e]
  rcases Nat.lt_or_ge k j with hlt | hge
  · exact (List.pairwise_iff_getElem.1 hS) k j hk h hlt
  · have : j = k := by omega
    subst this; exact Nat.le_refl _

/-- **Spread bound** for the LPT loop on an ordered list, against an arbitrary cover `Q` of level `W`:
    `k · W ≤ k · min + (k − 1) · y`, `y` the `(k+1)`-th value. -/
theorem run_spread {v : α → Nat} {k : Nat} (hk : 0 < k) {xs : List α}
    (hS : xs.Pairwise (fun a c => v c ≤ v a)) {W : Nat} (Q : List (List Nat)) (hQk : Q.length = k)
    (hQp : Q.flatten.Perm (xs.map v)) (hQ : ∀ l ∈ Q, W ≤ sumL l) :
    k * W + (xs.map v).getD k 0 ≤ k * minL (run v k xs).sums + k * (xs.map v).getD k 0 := by
  have hinv := run_spreadInv hk hS (getD_spec v k hS) xs [] (by simp)
  obtain ⟨h1, h2, h3⟩ := run_valid v hk xs
  have hc : (run v k xs).sums = (run v k xs).lists.map (binSum v) := h3
  exact spread_core (W := W) (k := k) (L := minL (run v k xs).sums) (y := (xs.map v).getD k 0)
    (vals := xs.map v) ((run v k xs).lists.map (List.map v)) Q (by simpa using h2)
    (by rw [← List.map_flatten]; exact h1.map v)
    (by rw [hc, List.map_map]; rfl) hk
    (by
      intro l' hl'
      obtain ⟨l, hl, rfl⟩ := List.mem_map.1 hl'
      rcases hinv l hl with h | h
      · left; simpa using h
      · right; exact h)
    hQk hQp hQ

/-- **LPT covers at least `2k/(3k−1) ≥ 2/3` of any cover level.**  For the LPT loop on an ordered list `xs`
    and `k ≥ 1` bins: if the values of `xs` can be split into `k` bins of sum `≥ W` each, then
    `2k · W ≤ (3k − 1) · (smallest sum of LPT)` (written without subtraction).

    Induction on `k`.  Let `y` be the `(k+1)`-th value and `L` the smallest sum of LPT.
    * `2y ≤ L`: the spread bound `k·W ≤ k·L + (k−1)·y` gives the claim.
    * `2y > L`: the bin that receives the `(k+1)`-th item holds two items `a ≥ z`, of sum `≥ 2y > L`, so it is
      never used again; the other bins start with an item `≥ a`.  Removing this bin leaves an LPT run on `k − 1`
      bins with the same smallest sum (`run_eraseBin`), and the remaining values can still be split into
      `k − 1` bins of sum `≥ W` (`cover_drop_pair`). -/
theorem run_maxmin_two_thirds {v : α → Nat} : ∀ (k : Nat), 0 < k → ∀ (xs : List α),
    xs.Pairwise (fun a c => v c ≤ v a) → ∀ (W : Nat) (Q : List (List Nat)), Q.length = k →
    Q.flatten.Perm (xs.map v) → (∀ l ∈ Q, W ≤ sumL l) →
    2 * k * W + minL (run v k xs).sums ≤ 3 * k * minL (run v k xs).sums := by
  intro k
  induction k with
  | zero => intro h; omega
  | succ k' ih =>
    intro hk xs hS W Q hQk hQp hQ
    have hsp := run_spread hk hS Q hQk hQp hQ
    by_cases hk' : k' = 0
    · subst hk'
      simp only [Nat.zero_add, Nat.one_mul, Nat.mul_one] at hsp ⊢
      omega
    by_cases hy : 2 * (xs.map v).getD (k' + 1) 0 ≤ minL (run v (k' + 1) xs).sums
    · -- the spread bound suffices
      have h1 := Nat.mul_le_mul_left k' hy
      nlinarith
    · -- the first pair is closed: remove it
      have hklt : k' + 1 < xs.length := by
        apply Nat.lt_of_not_le
        intro hle
        have : (xs.map v)[k' + 1]? = none := List.getElem?_eq_none (by simpa using hle)
        simp [List.getD_eq_getElem?_getD, this] at hy
      have ey : (xs.map v).getD (k' + 1) 0 = v xs[k' + 1] := by
        simp [List.getD_eq_getElem?_getD, hklt]
      rw [ey] at hy hsp
      -- split the list
      have hsplit : xs = (xs.take (k' + 1) ++ [xs[k' + 1]]) ++ xs.drop (k' + 2) := by
        rw [List.append_assoc, List.singleton_append, ← List.drop_eq_getElem_cons hklt,
          List.take_append_drop]
      have hPlen : (xs.take (k' + 1)).length = k' + 1 := by rw [List.length_take]; omega
      have hPz : ∀ a ∈ xs.take (k' + 1), v xs[k' + 1] ≤ v a := by
        intro a ha
        obtain ⟨i, hi, rfl⟩ := List.mem_iff_getElem.1 ha
        rw [List.getElem_take]
        exact (List.pairwise_iff_getElem.1 hS) i (k' + 1) (by omega) hklt (by omega)
      have hpos : ∀ a ∈ xs.take (k' + 1), 1 ≤ v a := fun a ha => by have := hPz a ha; omega
      -- the state after `k` items
      obtain ⟨hperm, hlists, hcons⟩ := run_valid v hk (xs.take (k' + 1))
      have hc : (run v (k' + 1) (xs.take (k' + 1))).sums =
          (run v (k' + 1) (xs.take (k' + 1))).lists.map (binSum v) := hcons
      have hsing := run_singletons v hk _ hPlen hpos
      have hne := run_sums_ne_nil v hk (xs.take (k' + 1))
      have hjlt := Part.argmin_lt hne
      have hslen : (run v (k' + 1) (xs.take (k' + 1))).sums.length = k' + 1 := run_sums_length v hk _
      have hjl : argmin (run v (k' + 1) (xs.take (k' + 1))).sums <
          (run v (k' + 1) (xs.take (k' + 1))).lists.length := by omega
      -- every bin is a singleton whose value is the bin sum
      have hbin : ∀ i (hi : i < (run v (k' + 1) (xs.take (k' + 1))).lists.length),
          ∃ u, (run v (k' + 1) (xs.take (k' + 1))).lists[i] = [u] ∧
            (run v (k' + 1) (xs.take (k' + 1))).sums[i]? = some (v u) ∧ u ∈ xs.take (k' + 1) := by
        intro i hi
        obtain ⟨u, hu⟩ := List.length_eq_one_iff.1 (hsing _ (List.getElem_mem hi))
        refine ⟨u, hu, ?_, ?_⟩
        · rw [hc, List.getElem?_map, List.getElem?_eq_getElem hi, hu]
          simp [binSum, sumL]
        · exact hperm.mem_iff.1 (List.mem_flatten.2 ⟨_, List.getElem_mem hi, by rw [hu]; simp⟩)
      obtain ⟨a, hla, hsa, haP⟩ := hbin _ hjl
      have hva : v a = minL (run v (k' + 1) (xs.take (k' + 1))).sums := by
        have := Part.getElem_argmin hjlt
        rw [List.getElem?_eq_getElem hjlt, this] at hsa
        simpa using hsa.symm
      -- after the `(k+1)`-th item
      have hs1 : (run v (k' + 1) (xs.take (k' + 1) ++ [xs[k' + 1]])).sums[
          argmin (run v (k' + 1) (xs.take (k' + 1))).sums]? = some (v a + v xs[k' + 1]) := by
        rw [run_snoc]
        simp only [greedyStep, Part.add_sums, List.getElem?_modify_eq, hsa]; rfl
      have hl1 : (run v (k' + 1) (xs.take (k' + 1) ++ [xs[k' + 1]])).lists[
          argmin (run v (k' + 1) (xs.take (k' + 1))).sums]? = some [a, xs[k' + 1]] := by
        rw [run_snoc]
        simp only [greedyStep, Part.add_lists, List.getElem?_modify_eq, List.getElem?_eq_getElem hjl, hla]
        rfl
      -- it is closed
      have hclosed := run_closed v hk (xs.take (k' + 1) ++ [xs[k' + 1]]) _ _ hs1 (xs.drop (k' + 2))
        (by rw [← hsplit]; have := hPz a haP; omega)
      rw [← hsplit, hl1] at hclosed
      obtain ⟨hfs, hfl⟩ := hclosed
      -- abbreviations
      generalize hj : argmin (run v (k' + 1) (xs.take (k' + 1))).sums = j at *
      obtain ⟨hfperm, hflists, hfcons⟩ := run_valid v hk xs
      have hfslen : (run v (k' + 1) xs).sums.length = k' + 1 := run_sums_length v hk _
      have hfne := run_sums_ne_nil v hk xs
      have hjf : j < (run v (k' + 1) xs).lists.length := by omega
      have hflj : (run v (k' + 1) xs).lists[j] = [a, xs[k' + 1]] := by
        rw [List.getElem?_eq_getElem hjf] at hfl; simpa using hfl
      have hfsj : (run v (k' + 1) xs).sums[j]'(by omega) = v a + v xs[k' + 1] := by
        rw [List.getElem?_eq_getElem (by omega)] at hfs; simpa using hfs
      have hargne : argmin (run v (k' + 1) xs).sums ≠ j := by
        intro e
        have h1 := Part.getElem_argmin (Part.argmin_lt hfne)
        have h2 := hPz a haP
        simp only [e] at h1
        rw [hfsj] at h1
        omega
      -- the other bins contain an item that dominates `a`
      have hdom : ∀ l ∈ (run v (k' + 1) xs).lists.eraseIdx j, ∃ u ∈ l, v a ≤ v u := by
        intro l hl
        obtain ⟨i, hi, hij, rfl⟩ := List.mem_eraseIdx_iff_getElem.1 hl
        have hi' : i < (run v (k' + 1) (xs.take (k' + 1))).lists.length := by omega
        obtain ⟨u, hu1, hu2, _⟩ := hbin i hi'
        have hmono := run_lists_mono v (k' + 1) (xs.take (k' + 1)) i [u]
          (by rw [List.getElem?_eq_getElem hi', hu1]) ([xs[k' + 1]] ++ xs.drop (k' + 2))
        rw [← List.append_assoc, ← hsplit] at hmono
        obtain ⟨l', hl', hul'⟩ := hmono
        rw [List.getElem?_eq_getElem hi] at hl'
        simp only [Option.some.injEq] at hl'
        refine ⟨u, by rw [hl']; exact hul' u (by simp), ?_⟩
        rw [hva]
        have hi'' : i < (run v (k' + 1) (xs.take (k' + 1))).sums.length := by omega
        rw [List.getElem?_eq_getElem hi''] at hu2
        simp only [Option.some.injEq] at hu2
        rw [← hu2]
        exact Part.minL_le (List.getElem_mem hi'')
      -- remove the bin
      have herase := run_eraseBin v k' j (by omega) xs
      have hS' : (skipRun v j (Bins.new (k' + 1)) xs).Pairwise (fun a c => v c ≤ v a) :=
        hS.sublist (skipRun_sublist v j xs _)
      have hk'pos : 0 < k' := Nat.pos_of_ne_zero hk'
      have hsums' : (run v k' (skipRun v j (Bins.new (k' + 1)) xs)).sums =
          (run v (k' + 1) xs).sums.eraseIdx j := by rw [← herase]; rfl
      have hlists' : (run v k' (skipRun v j (Bins.new (k' + 1)) xs)).lists =
          (run v (k' + 1) xs).lists.eraseIdx j := by rw [← herase]; rfl
      have hL' : minL (run v k' (skipRun v j (Bins.new (k' + 1)) xs)).sums =
          minL (run v (k' + 1) xs).sums := by rw [hsums']; exact minL_eraseIdx hargne hfne
      -- the values
      obtain ⟨hperm', _, _⟩ := run_valid v hk'pos (skipRun v j (Bins.new (k' + 1)) xs)
      rw [hlists'] at hperm'
      have hvals : (xs.map v).Perm (v a :: v xs[k' + 1] ::
          ((run v (k' + 1) xs).lists.eraseIdx j).flatten.map v) := by
        have := (hfperm.symm.trans (flatten_perm_getElem_eraseIdx _ j hjf)).map v
        rw [hflj] at this
        simpa using this
      have hcount : k' ≤ (((run v (k' + 1) xs).lists.eraseIdx j).flatten.map v).countP
          (fun u => decide (v a ≤ u)) := by
        rw [List.countP_map]
        have := le_countP_flatten ((fun u => decide (v a ≤ u)) ∘ v) _ (fun g hg => by
          obtain ⟨u, hu, hau⟩ := hdom g hg
          exact ⟨u, hu, by simpa using hau⟩)
        rw [List.length_eraseIdx_of_lt hjf] at this
        omega
      obtain ⟨k'', rfl⟩ : ∃ k'', k' = k'' + 1 := ⟨k' - 1, by omega⟩
      obtain ⟨Q', hQ'k, hQ'p, hQ'⟩ := cover_drop_pair (W := W) (a := v a) (z := v xs[k'' + 1 + 1]) (k := k'')
        Q hQk (hQp.trans hvals) hQ (hPz a haP) hcount
      have key := ih hk'pos _ hS' W Q' hQ'k (hQ'p.trans (hperm'.map v)) hQ'
      rw [hL'] at key
      have h2 : 2 * W ≤ 3 * minL (run v (k'' + 1 + 1) xs).sums := by
        have : (k'' + 1) * (2 * W) ≤ (k'' + 1) * (3 * minL (run v (k'' + 1 + 1) xs).sums) := by nlinarith
        exact Nat.le_of_mul_le_mul_left this (by omega)
      nlinarith

/-! ## 6. The unconditional max-min guarantees of `greedy` proved here -/

/-- **Max-min, unconditional partial bound `2k/(3k−1)`**: LPT's smallest sum is at least `2k/(3k−1)` of the optimal
    smallest sum (`4/5` for two bins, `3/4` for three, always more than `2/3`).

    The exact constant of Csirik–Kellerer–Woeginger is `(3k−1)/(4k−2)`:
    `(3 * k - 1) * opt ≤ (4 * k - 2) * minL (greedy v k items).sums`  — open here in the case where the
    `(k+1)`-th largest value `y` satisfies `(4k−2)·y > k·opt` and `2·y ≤` LPT's smallest sum (cf.
    `LPT43.greedy_maxmin_partial_small`). -/
theorem greedy_maxmin_partial_2k_3k {v : α → Nat} {k : Nat} {items : List α} (hk : 0 < k) {opt : Nat}
    (hopt : IsOptimalValue .maxSmallest k (items.map v) (-(opt : Int))) :
    2 * k * opt ≤ (3 * k - 1) * minL (greedy v k items).sums := by
  obtain ⟨W, hW, Q, hQk, hQp, hQ⟩ := cover_of_opt hk hopt
  have hW' : W = opt := by exact_mod_cast hW
  subst hW'
  have key := run_maxmin_two_thirds (v := v) k hk (sortDesc v items) (Part.sortDesc_sorted v items) W Q hQk
    (hQp.trans ((Part.sortDesc_perm v items).map v).symm) hQ
  rw [greedy_eq_run]
  obtain ⟨k', rfl⟩ : ∃ k', k = k' + 1 := ⟨k - 1, by omega⟩
  have e : 3 * (k' + 1) - 1 = 3 * k' + 2 := by omega
  rw [e]
  nlinarith

/-- **Max-min, unconditional partial bound `2/3`**: `2 · OPT ≤ 3 · (smallest sum of LPT)`, for every number of
    bins. -/
theorem greedy_maxmin_partial_two_thirds {v : α → Nat} {k : Nat} {items : List α} (hk : 0 < k) {opt : Nat}
    (hopt : IsOptimalValue .maxSmallest k (items.map v) (-(opt : Int))) :
    2 * opt ≤ 3 * minL (greedy v k items).sums := by
  have key := greedy_maxmin_partial_2k_3k hk hopt
  have h1 : (3 * k - 1) * minL (greedy v k items).sums ≤ 3 * k * minL (greedy v k items).sums :=
    Nat.mul_le_mul_right _ (by omega)
  have h2 : k * (2 * opt) ≤ k * (3 * minL (greedy v k items).sums) := by nlinarith
  exact Nat.le_of_mul_le_mul_left h2 hk

/-- non-vacuity: `[3, 3, 2, 2, 2]` on two bins: optimal smallest sum `6`, LPT's smallest sum `5`:
    `2 · 2 · 6 = 24 ≤ 25 = 5 · 5` -/
example : 2 * 2 * 6 ≤ (3 * 2 - 1) * minL (greedy id 2 [3, 3, 2, 2, 2]).sums :=
  greedy_maxmin_partial_2k_3k (v := id) (by decide) optmin_33222
example : 2 * 6 ≤ 3 * minL (greedy id 2 [3, 3, 2, 2, 2]).sums :=
  greedy_maxmin_partial_two_thirds (v := id) (by decide) optmin_33222

/-! ## 7. The binary search of `multifit` -/

section Multifit
variable (v : α → Nat)

/-- first-fit (on the list `xs`, as given) with capacity `c` needs at most `k` bins -/
def Fits (k : Nat) (xs : List α) (c : Rat) : Prop := ∃ n, ffCount v c xs = .ok n ∧ n ≤ k

/-- first-fit with capacity `c` runs and needs more than `k` bins -/
def Fails (k : Nat) (xs : List α) (c : Rat) : Prop := ∃ n, ffCount v c xs = .ok n ∧ k < n

theorem not_fits_of_fails {k : Nat} {xs : List α} {c : Rat} (h : Fails v k xs c) : ¬ Fits v k xs c := by
  rintro ⟨n, hn, hle⟩
  obtain ⟨n', hn', hlt⟩ := h
  rw [hn] at hn'
  cases hn'
  omega

/-- **The invariant of the binary search.**  If the search started at `(lo, hi)` returns `cap` after `it`
    iterations, then `cap` is the upper end of an interval `[lo', cap]` with
    * `cap − lo' = (hi − lo) / 2^it` (the interval is halved in every iteration),
    * `lo ≤ lo' ≤ cap ≤ hi` (if `lo ≤ hi`),
    * `lo'` is the initial lower bound or a capacity at which first-fit needs more than `k` bins,
    * `cap` is the initial upper bound or a capacity at which first-fit needs at most `k` bins. -/
theorem multifit_search_invariant (k : Nat) (xs : List α) :
    ∀ (it : Nat) (lo hi cap : Rat), multifitSearch v k xs it lo hi = .ok cap →
      ∃ lo' : Rat, cap - lo' = (hi - lo) / 2 ^ it ∧ (lo ≤ hi → lo ≤ lo' ∧ lo' ≤ cap ∧ cap ≤ hi) ∧
        (lo' = lo ∨ Fails v k xs lo') ∧ (cap = hi ∨ Fits v k xs cap) := by
  intro it
  induction it with
  | zero =>
    intro lo hi cap h
    simp only [multifitSearch] at h
    cases h
    exact ⟨lo, by simp, fun hle => ⟨le_refl _, hle, le_refl _⟩, Or.inl rfl, Or.inl rfl⟩
  | succ it ih =>
    intro lo hi cap h
    simp only [multifitSearch] at h
    split at h
    · cases h
    · rename_i n hc
      split at h
      · rename_i hn
        obtain ⟨lo', h1, h2, h3, h4⟩ := ih lo _ cap h
        refine ⟨lo', ?_, ?_, h3, ?_⟩
        · rw [h1, pow_succ]; ring
        · intro hle
          obtain ⟨a1, a2, a3⟩ := h2 (by linarith)
          exact ⟨a1, a2, by linarith⟩
        · rcases h4 with h4 | h4
          · right; rw [h4]; exact ⟨n, hc, hn⟩
          · exact Or.inr h4
      · rename_i hn
        obtain ⟨lo', h1, h2, h3, h4⟩ := ih _ hi cap h
        refine ⟨lo', ?_, ?_, ?_, h4⟩
        · rw [h1, pow_succ]; ring
        · intro hle
          obtain ⟨a1, a2, a3⟩ := h2 (by linarith)
          exact ⟨by linarith, a2, a3⟩
        · rcases h3 with h3 | h3
          · right; rw [h3]; exact ⟨n, hc, by omega⟩
          · exact Or.inr h3

/-- **The initial bounds.**  The initial lower bound `max (total/k) (largest)` is at most the optimal largest
    sum, and the initial interval is not longer than the optimal largest sum. -/
theorem multifit_lo_bound {k : Nat} (hk : 0 < k) {items : List α} {opt : Int}
    (hopt : IsOptimalValue .minLargest k (items.map v) opt) :
    ratMax (((sumL (items.map v) : Nat) : Rat) / k) ((maxL (items.map v) : Nat) : Rat) ≤ (opt : Rat) ∧
    ratMax (2 * ((sumL (items.map v) : Nat) : Rat) / k) ((maxL (items.map v) : Nat) : Rat) -
      ratMax (((sumL (items.map v) : Nat) : Rat) / k) ((maxL (items.map v) : Nat) : Rat) ≤ (opt : Rat) ∧
    ratMax (((sumL (items.map v) : Nat) : Rat) / k) ((maxL (items.map v) : Nat) : Rat) ≤
      ratMax (2 * ((sumL (items.map v) : Nat) : Rat) / k) ((maxL (items.map v) : Nat) : Rat) := by
  obtain ⟨T, rfl, hp⟩ := packable_of_opt hopt
  have hS := packable_sum hp
  have hM : maxL (items.map v) ≤ T := Part.maxL_le (fun a ha => packable_item_le hp ha)
  have hk' : (0 : Rat) < k := by exact_mod_cast hk
  have hSq : ((sumL (items.map v) : Nat) : Rat) / k ≤ (T : Rat) := by
    rw [div_le_iff₀ hk']
    exact_mod_cast (by rw [Nat.mul_comm] at hS; exact hS)
  have hMq : ((maxL (items.map v) : Nat) : Rat) ≤ (T : Rat) := by exact_mod_cast hM
  have hS0 : (0 : Rat) ≤ ((sumL (items.map v) : Nat) : Rat) / k := by positivity
  have e2 : 2 * ((sumL (items.map v) : Nat) : Rat) / k = 2 * (((sumL (items.map v) : Nat) : Rat) / k) := by ring
  rw [e2]
  push_cast
  unfold ratMax
  refine ⟨?_, ?_, ?_⟩ <;> (repeat' split) <;> linarith

/-- `FfdFits ρ`: first-fit on the list `xs` fits into `k` bins for **every** capacity `c ≥ ρ · OPT`.
    (For `xs` sorted decreasingly and `ρ = 1.22` this is the theorem of Coffman, Garey and Johnson; it is proved
    below for `ρ = 2k/(k+1)`.) -/
def FfdFits (k : Nat) (xs : List α) (ρ opt : Rat) : Prop := ∀ c : Rat, ρ * opt ≤ c → Fits v k xs c

/-- **Multifit, conditional ratio.**  If first-fit-decreasing fits into `k` bins for every capacity
    `≥ ρ · OPT` (`ρ ≥ 1`), the largest sum of multifit with `it` iterations is at most `(ρ + 2^−it) · OPT`.

    The lower end of the search interval only moves to capacities at which first-fit-decreasing fails, which by
    the hypothesis are below `ρ · OPT`; the interval has length `(hi₀ − lo₀) / 2^it ≤ OPT / 2^it`. -/
theorem multifit_ratio_of_ffdFits {k : Nat} {items : List α} {it : Nat} {b : Bins α} (hk : 0 < k) {opt : Int}
    (hopt : IsOptimalValue .minLargest k (items.map v) opt) {ρ : Rat} (hρ : 1 ≤ ρ)
    (hfit : FfdFits v k (sortDesc v items) ρ opt) (h : multifit v k items it = .ok b) :
    ((maxL b.sums : Nat) : Rat) ≤ (ρ + 1 / 2 ^ it) * opt := by
  obtain ⟨hlo, hlen, hle⟩ := multifit_lo_bound v hk hopt
  simp only [multifit] at h
  split at h
  · cases h
  · rename_i cap e
    obtain ⟨lo', h1, h2, h3, _⟩ := multifit_search_invariant v k _ it _ _ cap e
    obtain ⟨a1, a2, a3⟩ := h2 hle
    have hlo0 : (0 : Rat) ≤ ratMax (((sumL (items.map v) : Nat) : Rat) / k)
        ((maxL (items.map v) : Nat) : Rat) :=
      le_trans (by positivity) (Part.ratMax_right _ _)
    have hopt0 : (0 : Rat) ≤ (opt : Rat) := le_trans hlo0 hlo
    have hcap0 : (0 : Rat) ≤ cap := by linarith
    -- the lower end stays below `ρ · OPT`
    have hlo' : lo' ≤ ρ * opt := by
      rcases h3 with h3 | h3
      · rw [h3]; nlinarith
      · apply le_of_lt
        apply lt_of_not_ge
        intro hge
        exact not_fits_of_fails v h3 (hfit lo' hge)
    have hpow : (0 : Rat) < 2 ^ it := by positivity
    have hdiv : (ratMax (2 * ((sumL (items.map v) : Nat) : Rat) / k) ((maxL (items.map v) : Nat) : Rat) -
        ratMax (((sumL (items.map v) : Nat) : Rat) / k) ((maxL (items.map v) : Nat) : Rat)) / 2 ^ it ≤
        (opt : Rat) / 2 ^ it := by
      rw [div_le_div_iff_of_pos_right hpow]; exact hlen
    have hmax : maxL b.sums ≤ floorNat cap := Part.maxL_le (Part.ffOnline_le v _ b h)
    have hq1 : ((maxL b.sums : Nat) : Rat) ≤ ((floorNat cap : Nat) : Rat) := by exact_mod_cast hmax
    have hq2 := Part.floorNat_le cap hcap0
    have e1 : (ρ + 1 / 2 ^ it) * (opt : Rat) = ρ * opt + (opt : Rat) / 2 ^ it := by ring
    rw [e1]
    linarith

end Multifit

end Prtpy.MaxMin
