-- NOTE (round 7): the exact ratio (3k-1)/(4k-2) is proved for EVERY k in PrtpyProofs/MaxMin5.lean (`MaxMin5.greedy_maxmin`); what this file calls open is closed there.
/-
  PrtpyProofs.MaxMin — property C08:
  (1) the max-min guarantee of LPT (`greedy`), (2) the binary search of `multifit`.

  Part 1 (sections 1–6): how close LPT's smallest sum `L` is to the optimal smallest sum `OPT`
  (Deuermeyer–Friesen–Langston 1982: `3/4`; Csirik–Kellerer–Woeginger 1992: exactly `(3k−1)/(4k−2)`).
  * §1 `run_eraseBin`: erasing a bin from the result of the LPT loop gives the LPT loop, on one bin less, of the
    items that were not put on that bin (`skipRun`).
  * §2/§3: a bin whose sum exceeds the final smallest sum is never used again; after `k` positive items every bin
    holds one item.
  * §4 `cover_drop_pair`: if `k+2` bins of sum `≥ W` hold `a ≥ z` and `k+1` further values `≥ a`, then the
    values without `a, z` fill `k+1` bins to `W` (pigeonhole + exchange).
  * §5 `peel_first_pair`: if `L < 2·y` (`y` the `(k+1)`-th value), the bin that receives the `(k+1)`-th item is a
    closed pair and can be removed together with one bin of any cover.  Induction over `k` then gives
      - `run_maxmin_two_thirds` / `greedy_maxmin_partial_2k_3k`:  `2k·OPT ≤ (3k−1)·L`  (unconditional),
        hence `greedy_maxmin_partial_two_thirds`: `2·OPT ≤ 3·L`;
      - `run_maxmin_window` / `greedy_maxmin_partial_window`: the exact bound `(3k−1)·OPT ≤ (4k−2)·L` when no
        item after the `k` largest has a value in the window `(k·OPT/(4k−2), L/2]`;
      - `greedy_maxmin_partial_cert`: the exact bound from an a-posteriori certificate on LPT's bins.
    The exact bound without side condition (`greedy_maxmin`) is NOT proved; see the comment at
    `greedy_maxmin_partial_window` for the precise open case.

  Part 2 (section 7): `multifit`.
  * `multifit_search_invariant`: the search interval is halved in every iteration; its lower end is the initial
    one or a capacity at which first-fit-decreasing fails, its upper end the initial one or a capacity that fits.
  * `multifit_lo_bound`: the initial lower bound and the initial interval length are `≤ OPT`.
  * `multifit_ratio_of_ffdFits`: if first-fit-decreasing fits for every capacity `≥ ρ·OPT` (`FfdFits ρ`), the
    largest sum of multifit is `≤ (ρ + 2^−it)·OPT`.
  * `ffd_fits_four_thirds` / `ffdFits_four_thirds`: `FfdFits (4/3)` (from `LPT43.large_fits`), and
    `ffdFits_anyfit`: `FfdFits (2k/(k+1))`; hence `multifit_ratio_four_thirds`: `(4/3 + 2^−it)·OPT`,
    `multifit_ratio_anyfit`, `multifit_ratio_two`.
-/
import Mathlib.Tactic.Linarith
import Mathlib.Tactic.Ring
import Mathlib.Tactic.Positivity
import Prtpy
import PrtpyProofs.Part
import PrtpyProofs.Fit
import PrtpyProofs.Oracle
import PrtpyProofs.LPT43
open Prtpy

namespace Prtpy.MaxMin
open Prtpy.LPT43

variable {α : Type}

/-! ## 1. Removing a bin from an LPT run -/

/-- remove bin `j` -/
def eraseBin (b : Bins α) (j : Nat) : Bins α := ⟨b.sums.eraseIdx j, b.lists.eraseIdx j⟩

/-- the items (in processing order) that LPT, started in state `b`, does **not** put on bin `j` -/
def skipRun (v : α → Nat) (j : Nat) : Bins α → List α → List α
  | _, [] => []
  | b, x :: xs =>
    if argmin b.sums = j then skipRun v j (greedyStep v b x) xs
    else x :: skipRun v j (greedyStep v b x) xs

theorem skipRun_sublist (v : α → Nat) (j : Nat) : ∀ (xs : List α) (b : Bins α),
    (skipRun v j b xs).Sublist xs
  | [], _ => by simp [skipRun]
  | x :: xs, b => by
    simp only [skipRun]
    split
    · exact (skipRun_sublist v j xs _).cons x
    · exact (skipRun_sublist v j xs _).cons_cons x

theorem idxOf_eraseIdx (a : Nat) : ∀ (l : List Nat) (j : Nat), l.idxOf a ≠ j →
    (l.eraseIdx j).idxOf a = if l.idxOf a < j then l.idxOf a else l.idxOf a - 1
  | [], j, _ => by simp
  | x :: xs, 0, h => by
    rw [List.idxOf_cons] at h ⊢
    by_cases hx : (x == a) = true
    · simp [hx] at h
    · simp only [Bool.not_eq_true] at hx
      simp [hx]
  | x :: xs, j + 1, h => by
    rw [List.idxOf_cons] at h
    simp only [List.eraseIdx_cons_succ, List.idxOf_cons]
    by_cases hx : (x == a) = true
    · simp [hx]
    · simp only [Bool.not_eq_true] at hx
      simp only [hx, cond_false] at h ⊢
      have ih := idxOf_eraseIdx a xs j (by omega)
      rw [ih]
      split <;> split <;> omega

theorem minL_eraseIdx {l : List Nat} {j : Nat} (h : argmin l ≠ j) (hne : l ≠ []) :
    minL (l.eraseIdx j) = minL l := by
  have hlt := Part.argmin_lt hne
  have hmem : minL l ∈ l.eraseIdx j :=
    List.mem_eraseIdx_iff_getElem.2 ⟨argmin l, hlt, h, Part.getElem_argmin hlt⟩
  have hne' : l.eraseIdx j ≠ [] := List.ne_nil_of_mem hmem
  apply Nat.le_antisymm
  · exact Part.minL_le hmem
  · exact Part.minL_le (List.mem_of_mem_eraseIdx (Part.minL_mem hne'))

theorem argmin_eraseIdx {l : List Nat} {j : Nat} (h : argmin l ≠ j) (hne : l ≠ []) :
    argmin (l.eraseIdx j) = if argmin l < j then argmin l else argmin l - 1 := by
  unfold argmin at *
  rw [minL_eraseIdx h hne]
  exact idxOf_eraseIdx _ l j h

theorem eraseBin_greedyStep_eq (v : α → Nat) (b : Bins α) (x : α) (j : Nat) (h : argmin b.sums = j) :
    eraseBin (greedyStep v b x) j = eraseBin b j := by
  simp only [eraseBin, greedyStep, Bins.add, h, List.eraseIdx_modify_of_eq]

theorem eraseBin_greedyStep_ne (v : α → Nat) (b : Bins α) (x : α) (j : Nat) (h : argmin b.sums ≠ j)
    (hne : b.sums ≠ []) :
    eraseBin (greedyStep v b x) j = greedyStep v (eraseBin b j) x := by
  simp only [eraseBin, greedyStep, Bins.add]
  rw [argmin_eraseIdx h hne]
  rcases Nat.lt_or_gt_of_ne h with hlt | hgt
  · simp only [hlt, if_true]
    rw [List.eraseIdx_modify_of_gt _ _ _ _ hlt, List.eraseIdx_modify_of_gt _ _ _ _ hlt]
  · have : ¬ argmin b.sums < j := by omega
    simp only [this, if_false]
    rw [List.eraseIdx_modify_of_lt _ _ _ _ hgt, List.eraseIdx_modify_of_lt _ _ _ _ hgt]

/-- **Removing a bin.**  Erasing bin `j` from the result of an LPT loop is the LPT loop, on one bin less, of the
    items that were not put on bin `j`. -/
theorem fold_eraseBin (v : α → Nat) (j : Nat) : ∀ (xs : List α) (b : Bins α), b.sums ≠ [] →
    eraseBin (xs.foldl (greedyStep v) b) j = (skipRun v j b xs).foldl (greedyStep v) (eraseBin b j)
  | [], _, _ => by simp [skipRun]
  | x :: xs, b, hne => by
    have hne' : (greedyStep v b x).sums ≠ [] := by
      intro h0
      have := congrArg List.length h0
      simp [greedyStep] at this
      exact hne this
    simp only [List.foldl_cons, skipRun]
    rw [fold_eraseBin v j xs _ hne']
    split
    · rename_i h; rw [eraseBin_greedyStep_eq v b x j h]
    · rename_i h; rw [List.foldl_cons, eraseBin_greedyStep_ne v b x j h hne]

theorem eraseBin_new (k j : Nat) (hj : j < k + 1) : eraseBin (Bins.new (k + 1) : Bins α) j = Bins.new k := by
  simp only [eraseBin, Bins.new, List.eraseIdx_replicate]
  simp [hj]

theorem run_eraseBin (v : α → Nat) (k j : Nat) (hj : j < k + 1) (xs : List α) :
    eraseBin (run v (k + 1) xs) j = run v k (skipRun v j (Bins.new (k + 1)) xs) := by
  unfold run
  rw [fold_eraseBin v j xs _ (by simp [Bins.new]), eraseBin_new k j hj]

/-! ## 2. Bins that are never touched again; bins only grow -/

theorem greedyStep_sums_ne (v : α → Nat) (b : Bins α) (x : α) (j : Nat) (h : argmin b.sums ≠ j) :
    (greedyStep v b x).sums[j]? = b.sums[j]? := by
  simp only [greedyStep, Part.add_sums]
  exact List.getElem?_modify_ne _ _ h

theorem greedyStep_lists_ne (v : α → Nat) (b : Bins α) (x : α) (j : Nat) (h : argmin b.sums ≠ j) :
    (greedyStep v b x).lists[j]? = b.lists[j]? := by
  simp only [greedyStep, Part.add_lists]
  exact List.getElem?_modify_ne _ _ h

/-- a bin whose sum exceeds the final smallest sum is never used again -/
theorem run_closed (v : α → Nat) {k : Nat} (hk : 0 < k) (P : List α) (j s : Nat)
    (hs : (run v k P).sums[j]? = some s) :
    ∀ R, minL (run v k (P ++ R)).sums < s →
      (run v k (P ++ R)).sums[j]? = some s ∧ (run v k (P ++ R)).lists[j]? = (run v k P).lists[j]? := by
  intro R
  induction R using Oracle.rev_induction with
  | nil => intro _; simpa using hs
  | snoc R x ih =>
    intro hlt
    have hmono := run_min_mono v hk (P ++ R) [x]
    rw [List.append_assoc] at hmono
    obtain ⟨h1, h2⟩ := ih (by omega)
    have hne := run_sums_ne_nil v hk (P ++ R)
    have hlt' := Part.argmin_lt hne
    have hi : argmin (run v k (P ++ R)).sums ≠ j := by
      intro e
      have := Part.getElem_argmin hlt'
      have h3 : (run v k (P ++ R)).sums[argmin (run v k (P ++ R)).sums]? = some s := by rw [e]; exact h1
      rw [List.getElem?_eq_getElem hlt', this] at h3
      simp only [Option.some.injEq] at h3
      omega
    rw [← List.append_assoc, run_snoc]
    exact ⟨by rw [greedyStep_sums_ne v _ x j hi]; exact h1, by rw [greedyStep_lists_ne v _ x j hi]; exact h2⟩

theorem greedyStep_lists_mono (v : α → Nat) (b : Bins α) (x : α) (i : Nat) (l : List α)
    (h : b.lists[i]? = some l) :
    ∃ l', (greedyStep v b x).lists[i]? = some l' ∧ ∀ u ∈ l, u ∈ l' := by
  simp only [greedyStep, Part.add_lists]
  by_cases e : argmin b.sums = i
  · refine ⟨l ++ [x], ?_, fun u hu => by simp [hu]⟩
    rw [e, List.getElem?_modify_eq, h]; rfl
  · exact ⟨l, by rw [List.getElem?_modify_ne _ _ e]; exact h, fun u hu => hu⟩

theorem run_lists_mono (v : α → Nat) (k : Nat) (P : List α) (i : Nat) (l : List α)
    (h : (run v k P).lists[i]? = some l) :
    ∀ R, ∃ l', (run v k (P ++ R)).lists[i]? = some l' ∧ ∀ u ∈ l, u ∈ l' := by
  intro R
  induction R using Oracle.rev_induction with
  | nil => exact ⟨l, by simpa using h, fun u hu => hu⟩
  | snoc R x ih =>
    obtain ⟨l₁, h1, h2⟩ := ih
    obtain ⟨l₂, h3, h4⟩ := greedyStep_lists_mono v _ x i l₁ h1
    rw [← List.append_assoc, run_snoc]
    exact ⟨l₂, h3, fun u hu => h4 u (h2 u hu)⟩

/-! ## 3. The first `k` items -/

theorem length_le_flatten_length {β : Type} (Ls : List (List β)) (h : ∀ l ∈ Ls, 1 ≤ l.length) :
    Ls.length ≤ Ls.flatten.length := by
  induction Ls with
  | nil => simp
  | cons l Ls ih =>
    have h1 := h l List.mem_cons_self
    have h2 := ih (fun l' hl' => h l' (List.mem_cons_of_mem _ hl'))
    simp only [List.flatten_cons, List.length_append, List.length_cons]
    omega

theorem all_length_one_of_le {β : Type} (Ls : List (List β)) (h : ∀ l ∈ Ls, l.length ≤ 1)
    (hf : Ls.flatten.length = Ls.length) : ∀ l ∈ Ls, l.length = 1 := by
  induction Ls with
  | nil => simp
  | cons l Ls ih =>
    have h1 := h l List.mem_cons_self
    have h2 := flatten_length_le Ls (fun l' hl' => h l' (List.mem_cons_of_mem _ hl'))
    simp only [List.flatten_cons, List.length_append, List.length_cons] at hf
    intro l' hl'
    rcases List.mem_cons.1 hl' with rfl | hl'
    · omega
    · exact ih (fun l'' hl'' => h l'' (List.mem_cons_of_mem _ hl'')) (by omega) l' hl'

theorem all_length_one_of_ge {β : Type} (Ls : List (List β)) (h : ∀ l ∈ Ls, 1 ≤ l.length)
    (hf : Ls.flatten.length = Ls.length) : ∀ l ∈ Ls, l.length = 1 := by
  induction Ls with
  | nil => simp
  | cons l Ls ih =>
    have h1 := h l List.mem_cons_self
    have h2 := length_le_flatten_length Ls (fun l' hl' => h l' (List.mem_cons_of_mem _ hl'))
    simp only [List.flatten_cons, List.length_append, List.length_cons] at hf
    intro l' hl'
    rcases List.mem_cons.1 hl' with rfl | hl'
    · omega
    · exact ih (fun l'' hl'' => h l'' (List.mem_cons_of_mem _ hl'')) (by omega) l' hl'

/-- after `k` items of positive value every bin holds exactly one item -/
theorem run_singletons (v : α → Nat) {k : Nat} (hk : 0 < k) (P : List α) (hlen : P.length = k)
    (hpos : ∀ a ∈ P, 1 ≤ v a) : ∀ l ∈ (run v k P).lists, l.length = 1 := by
  obtain ⟨hperm, hlists, hcons⟩ := run_valid v hk P
  have hf : (run v k P).lists.flatten.length = (run v k P).lists.length := by
    rw [hperm.length_eq, hlists, hlen]
  rcases run_first hk 1 P hpos with h | h
  · apply all_length_one_of_ge _ _ hf
    intro l hl
    have hc : (run v k P).sums = (run v k P).lists.map (binSum v) := hcons
    have hmem : binSum v l ∈ (run v k P).sums := by rw [hc]; exact List.mem_map_of_mem hl
    have := Part.minL_le hmem
    cases l with
    | nil => simp [binSum, sumL] at this; omega
    | cons a t => simp
  · exact all_length_one_of_le _ h hf

/-! ## 4. Surgery on covers: dropping a dominated pair together with one bin -/

theorem countP_flatten_le {β : Type} (p : β → Bool) (Ls : List (List β)) (h : ∀ g ∈ Ls, g.countP p ≤ 1) :
    Ls.flatten.countP p ≤ Ls.length := by
  induction Ls with
  | nil => simp
  | cons l Ls ih =>
    have h1 := h l List.mem_cons_self
    have h2 := ih (fun l' hl' => h l' (List.mem_cons_of_mem _ hl'))
    simp only [List.flatten_cons, List.countP_append, List.length_cons]
    omega

theorem le_countP_flatten {β : Type} (p : β → Bool) (Ls : List (List β)) (h : ∀ g ∈ Ls, ∃ u ∈ g, p u = true) :
    Ls.length ≤ Ls.flatten.countP p := by
  induction Ls with
  | nil => simp
  | cons l Ls ih =>
    obtain ⟨u, hu, hp⟩ := h l List.mem_cons_self
    have h1 : 0 < l.countP p := List.countP_pos_iff.2 ⟨u, hu, hp⟩
    have h2 := ih (fun l' hl' => h l' (List.mem_cons_of_mem _ hl'))
    simp only [List.flatten_cons, List.countP_append, List.length_cons]
    omega

/-- two members satisfying `p` can be split off -/
theorem exists_two_of_countP (p : Nat → Bool) (g : List Nat) (h : 2 ≤ g.countP p) :
    ∃ u u' g', g.Perm (u :: u' :: g') ∧ p u = true ∧ p u' = true := by
  obtain ⟨u, hu, hpu⟩ := List.countP_pos_iff.1 (show 0 < g.countP p by omega)
  have p1 := List.perm_cons_erase hu
  have c1 : g.countP p = (g.erase u).countP p + 1 := by
    rw [p1.countP_eq, List.countP_cons_of_pos hpu]
  obtain ⟨u', hu', hpu'⟩ := List.countP_pos_iff.1 (show 0 < (g.erase u).countP p by omega)
  have p2 := List.perm_cons_erase hu'
  exact ⟨u, u', _, p1.trans (p2.cons u), hpu, hpu'⟩

theorem sumL_cons (x : Nat) (l : List Nat) : sumL (x :: l) = x + sumL l := rfl

/-- **Dropping a dominated pair.**  Let `k + 2` bins, each of sum `≥ W`, hold the values `a, z` and `rest`, where
    `z ≤ a` and at least `k + 1` members of `rest` are `≥ a`.  Then `rest` alone fills `k + 1` bins to `W`.
    (If `a` and `z` share a bin, drop it.  Otherwise some bin holds two of the `k + 3` values `a, z, u₁, …`:
    replace `a` or `z` in their bins by the dominating values of that bin and drop it.) -/
theorem cover_drop_pair {W a z k : Nat} {rest : List Nat} (Q : List (List Nat))
    (hQk : Q.length = k + 2) (hQp : Q.flatten.Perm (a :: z :: rest)) (hQ : ∀ l ∈ Q, W ≤ sumL l)
    (hza : z ≤ a) (hbig : k + 1 ≤ rest.countP (fun u => decide (a ≤ u))) :
    ∃ Q' : List (List Nat), Q'.length = k + 1 ∧ Q'.flatten.Perm rest ∧ ∀ l ∈ Q', W ≤ sumL l := by
  -- the bin of `a`
  obtain ⟨la, hla, hala⟩ := List.mem_flatten.1 ((hQp.mem_iff (a := a)).2 (by simp))
  have pQ := List.perm_cons_erase hla
  have pa := List.perm_cons_erase hala
  have hQ1len : (Q.erase la).length = k + 1 := by
    have := pQ.length_eq; simp only [List.length_cons] at this; omega
  have hQ1 : ∀ l ∈ Q.erase la, W ≤ sumL l := fun l hl => hQ l (List.mem_of_mem_erase hl)
  have hWa : W ≤ a + sumL (la.erase a) := by
    have := hQ la hla; rw [Part.sumL_perm pa, sumL_cons] at this; exact this
  -- everything but `a`
  have p1 : (la.erase a ++ (Q.erase la).flatten).Perm (z :: rest) := by
    have h1 : Q.flatten.Perm (a :: (la.erase a ++ (Q.erase la).flatten)) := by
      refine pQ.flatten.trans ?_
      simp only [List.flatten_cons]
      exact (pa.append_right _)
    exact (h1.symm.trans hQp).cons_inv
  have hz : z ∈ la.erase a ++ (Q.erase la).flatten := (p1.mem_iff (a := z)).2 (by simp)
  rcases List.mem_append.1 hz with hz | hz
  · -- `a` and `z` share a bin: drop it, its other members go to any other bin
    have pz := List.perm_cons_erase hz
    have p2 : (((la.erase a).erase z) ++ (Q.erase la).flatten).Perm rest :=
      (((pz.append_right _).symm.trans p1)).cons_inv
    match hq : Q.erase la, hQ1len with
    | q :: Q2, hlen =>
      refine ⟨(((la.erase a).erase z) ++ q) :: Q2, by simpa using hlen, ?_, ?_⟩
      · rw [hq] at p2; simpa [List.append_assoc] using p2
      · intro l hl
        rcases List.mem_cons.1 hl with rfl | hl
        · have := hQ1 q (by rw [hq]; simp)
          rw [Part.sumL_append]; omega
        · exact hQ1 l (by rw [hq]; simp [hl])
  · -- the bin of `z`
    obtain ⟨lz, hlz, hzlz⟩ := List.mem_flatten.1 hz
    have pQ1 := List.perm_cons_erase hlz
    have pz := List.perm_cons_erase hzlz
    have hQ2len : ((Q.erase la).erase lz).length = k := by
      have := pQ1.length_eq; simp only [List.length_cons] at this; omega
    have hQ2 : ∀ l ∈ (Q.erase la).erase lz, W ≤ sumL l := fun l hl => hQ1 l (List.mem_of_mem_erase hl)
    have hWz : W ≤ z + sumL (lz.erase z) := by
      have := hQ1 lz hlz; rw [Part.sumL_perm pz, sumL_cons] at this; exact this
    have p2 : (la.erase a ++ (lz.erase z ++ ((Q.erase la).erase lz).flatten)).Perm rest := by
      have h1 : (la.erase a ++ (Q.erase la).flatten).Perm
          (z :: (la.erase a ++ (lz.erase z ++ ((Q.erase la).erase lz).flatten))) := by
        refine (List.Perm.append_left _ pQ1.flatten).trans ?_
        simp only [List.flatten_cons]
        refine (List.Perm.append_left _ (pz.append_right _)).trans ?_
        simp only [List.cons_append]
        exact List.perm_middle
      exact (h1.symm.trans p1).cons_inv
    have hcount := p2.countP_eq (fun u => decide (a ≤ u))
    simp only [List.countP_append] at hcount
    by_cases hA : 0 < (la.erase a).countP (fun u => decide (a ≤ u))
    · -- a dominating value next to `a` replaces `z`
      obtain ⟨u, hu, hpu⟩ := List.countP_pos_iff.1 hA
      have pu := List.perm_cons_erase hu
      have hpu' : a ≤ u := by simpa using hpu
      refine ⟨((u :: lz.erase z) ++ (la.erase a).erase u) :: (Q.erase la).erase lz, by simp [hQ2len], ?_, ?_⟩
      · refine List.Perm.trans ?_ p2
        simp only [List.flatten_cons, List.cons_append, List.append_assoc]
        refine List.Perm.trans ?_ ((pu.append_right _).symm)
        simp only [List.cons_append]
        refine List.Perm.cons u ?_
        rw [← List.append_assoc, ← List.append_assoc]
        exact List.Perm.append_right _ List.perm_append_comm
      · intro l hl
        rcases List.mem_cons.1 hl with rfl | hl
        · rw [Part.sumL_append, sumL_cons]; omega
        · exact hQ2 l hl
    · by_cases hZ : 0 < (lz.erase z).countP (fun u => decide (a ≤ u))
      · -- a dominating value next to `z` replaces `a`
        obtain ⟨u, hu, hpu⟩ := List.countP_pos_iff.1 hZ
        have pu := List.perm_cons_erase hu
        have hpu' : a ≤ u := by simpa using hpu
        refine ⟨((u :: la.erase a) ++ (lz.erase z).erase u) :: (Q.erase la).erase lz, by simp [hQ2len], ?_, ?_⟩
        · refine List.Perm.trans ?_ p2
          simp only [List.flatten_cons, List.cons_append, List.append_assoc]
          refine List.Perm.trans ?_ (List.Perm.append_left _ ((pu.append_right _).symm))
          simp only [List.cons_append]
          exact List.perm_middle.symm
        · intro l hl
          rcases List.mem_cons.1 hl with rfl | hl
          · rw [Part.sumL_append, sumL_cons]; omega
          · exact hQ2 l hl
      · -- two dominating values share a third bin
        have hpig : ((Q.erase la).erase lz).length <
            ((Q.erase la).erase lz).flatten.countP (fun u => decide (a ≤ u)) := by omega
        have : ∃ g ∈ (Q.erase la).erase lz, 2 ≤ g.countP (fun u => decide (a ≤ u)) := by
          apply Classical.byContradiction
          intro hno
          have := countP_flatten_le (fun u => decide (a ≤ u)) ((Q.erase la).erase lz) (fun g hg => by
            apply Nat.le_of_not_lt
            intro hlt
            exact hno ⟨g, hg, hlt⟩)
          omega
        obtain ⟨g, hg, hg2⟩ := this
        obtain ⟨u, u', g', pg, hpu, hpu'⟩ := exists_two_of_countP _ g hg2
        have hu : a ≤ u := by simpa using hpu
        have hu' : a ≤ u' := by simpa using hpu'
        have pQ2 := List.perm_cons_erase hg
        have hQ3len : (((Q.erase la).erase lz).erase g).length + 1 = k := by
          have := pQ2.length_eq; simp only [List.length_cons] at this; omega
        refine ⟨((u :: la.erase a) ++ g') :: (u' :: lz.erase z) :: ((Q.erase la).erase lz).erase g,
          by simp only [List.length_cons]; omega, ?_, ?_⟩
        · refine List.Perm.trans ?_ p2
          have h3 : (((Q.erase la).erase lz).flatten).Perm
              (u :: u' :: (g' ++ (((Q.erase la).erase lz).erase g).flatten)) := by
            refine pQ2.flatten.trans ?_
            simp only [List.flatten_cons]
            exact (pg.append_right _)
          refine List.Perm.trans ?_ (List.Perm.append_left _ (List.Perm.append_left _ h3.symm))
          simp only [List.flatten_cons, List.cons_append, List.append_assoc]
          rw [List.perm_iff_count]; intro x
          simp only [List.count_append, List.count_cons]
          omega
        · intro l hl
          rcases List.mem_cons.1 hl with rfl | hl
          · rw [Part.sumL_append, sumL_cons]; omega
          · rcases List.mem_cons.1 hl with rfl | hl
            · rw [sumL_cons]; omega
            · exact hQ2 l (List.mem_of_mem_erase hl)

/-! ## 5. The spread bound for an arbitrary cover, and the induction over the number of bins -/

theorem flatten_perm_getElem_eraseIdx {β : Type} : ∀ (Ls : List (List β)) (j : Nat) (h : j < Ls.length),
    Ls.flatten.Perm (Ls[j] ++ (Ls.eraseIdx j).flatten)
  | [], _, h => by simp at h
  | l :: Ls, 0, _ => by simp
  | l :: Ls, j + 1, h => by
    have ih := flatten_perm_getElem_eraseIdx Ls j (by simpa using h)
    simp only [List.flatten_cons, List.getElem_cons_succ, List.eraseIdx_cons_succ]
    refine (List.Perm.append_left l ih).trans ?_
    rw [← List.append_assoc, ← List.append_assoc]
    exact List.Perm.append_right _ List.perm_append_comm

/-- the `(k+1)`-th value of a non-increasing list bounds all later ones -/
theorem getD_spec (v : α → Nat) (k : Nat) {xs : List α} (hS : xs.Pairwise (fun a c => v c ≤ v a)) :
    ∀ j (h : j < xs.length), k ≤ j → v xs[j] ≤ (xs.map v).getD k 0 := by
  intro j h hkj
  have hk : k < xs.length := by omega
  have e : (xs.map v).getD k 0 = v xs[k] := by
    simp [List.getD_eq_getElem?_getD, hk]
  rw [e]
  rcases Nat.lt_or_ge k j with hlt | hge
  · exact (List.pairwise_iff_getElem.1 hS) k j hk h hlt
  · have : j = k := by omega
    subst this; exact Nat.le_refl _

/-- **Spread bound** for the LPT loop on an ordered list, against an arbitrary cover `Q` of level `W`:
    `k · W ≤ k · min + (k − 1) · y`, `y` the `(k+1)`-th value. -/
theorem run_spread {v : α → Nat} {k : Nat} (hk : 0 < k) {xs : List α}
    (hS : xs.Pairwise (fun a c => v c ≤ v a)) {W : Nat} (Q : List (List Nat)) (hQk : Q.length = k)
    (hQp : Q.flatten.Perm (xs.map v)) (hQ : ∀ l ∈ Q, W ≤ sumL l) :
    k * W + (xs.map v).getD k 0 ≤ k * minL (run v k xs).sums + k * (xs.map v).getD k 0 := by
  have hinv := run_spreadInv hk hS (getD_spec v k hS) xs [] (by simp)
  obtain ⟨h1, h2, h3⟩ := run_valid v hk xs
  have hc : (run v k xs).sums = (run v k xs).lists.map (binSum v) := h3
  exact spread_core (W := W) (k := k) (L := minL (run v k xs).sums) (y := (xs.map v).getD k 0)
    (vals := xs.map v) ((run v k xs).lists.map (List.map v)) Q (by simpa using h2)
    (by rw [← List.map_flatten]; exact h1.map v)
    (by rw [hc, List.map_map]; rfl) hk
    (by
      intro l' hl'
      obtain ⟨l, hl, rfl⟩ := List.mem_map.1 hl'
      rcases hinv l hl with h | h
      · left; simpa using h
      · right; exact h)
    hQk hQp hQ

/-! ### the items that are not put on a closed bin -/

theorem skipRun_append (v : α → Nat) (j : Nat) : ∀ (P R : List α) (b : Bins α),
    skipRun v j b (P ++ R) = skipRun v j b P ++ skipRun v j (P.foldl (greedyStep v) b) R
  | [], _, _ => by simp [skipRun]
  | x :: P, R, b => by
    simp only [List.cons_append, skipRun, List.foldl_cons]
    rw [skipRun_append v j P R]
    split <;> simp

/-- once a bin is closed, all later items are kept -/
theorem skipRun_closed (v : α → Nat) {k : Nat} (hk : 0 < k) (j s : Nat) : ∀ (R P : List α),
    (run v k P).sums[j]? = some s → minL (run v k (P ++ R)).sums < s → skipRun v j (run v k P) R = R
  | [], _, _, _ => by simp [skipRun]
  | x :: R, P, hs, hlt => by
    have hne := run_sums_ne_nil v hk P
    have hlt' := Part.argmin_lt hne
    have hmono := run_min_mono v hk P (x :: R)
    have hi : argmin (run v k P).sums ≠ j := by
      intro e
      have := Part.getElem_argmin hlt'
      have h3 : (run v k P).sums[argmin (run v k P).sums]? = some s := by rw [e]; exact hs
      rw [List.getElem?_eq_getElem hlt', this] at h3
      simp only [Option.some.injEq] at h3
      omega
    simp only [skipRun, if_neg hi]
    rw [← run_snoc]
    rw [skipRun_closed v hk j s R (P ++ [x]) (by rw [run_snoc, greedyStep_sums_ne v _ x j hi]; exact hs)
      (by simpa using hlt)]

/-- **Peeling the first pair.**  Let `k = k' + 1 ≥ 2`, let `xs` be ordered and let LPT's smallest sum `L` satisfy
    `L < 2·y`, `y` the `(k+1)`-th value.  Then the bin that receives the `(k+1)`-th item holds exactly two items
    `a ≥ z = y` (sum `≥ 2y > L`, so it is never used again), and the other bins start with an item `≥ a`.
    Removing this bin leaves the LPT run, on `k − 1` bins, of a sublist `ys` of `xs` with the same smallest sum
    (`run_eraseBin`); `ys` ends like `xs`; and if the values of `xs` can be split into `k` bins of sum `≥ W`, the
    values of `ys` can be split into `k − 1` such bins (`cover_drop_pair`). -/
theorem peel_first_pair {v : α → Nat} {k' : Nat} (hk'pos : 0 < k') {xs : List α}
    (hS : xs.Pairwise (fun a c => v c ≤ v a)) (hklt : k' + 1 < xs.length)
    (hy : minL (run v (k' + 1) xs).sums < 2 * v xs[k' + 1]) {W : Nat} (Q : List (List Nat))
    (hQk : Q.length = k' + 1) (hQp : Q.flatten.Perm (xs.map v)) (hQ : ∀ l ∈ Q, W ≤ sumL l) :
    ∃ ys : List α, ys.Sublist xs ∧ minL (run v k' ys).sums = minL (run v (k' + 1) xs).sums ∧
      ys.drop k' = xs.drop (k' + 2) ∧
      ∃ Q' : List (List Nat), Q'.length = k' ∧ Q'.flatten.Perm (ys.map v) ∧ ∀ l ∈ Q', W ≤ sumL l := by
  have hk : 0 < k' + 1 := by omega
  -- split the list
  have hsplit : xs = (xs.take (k' + 1) ++ [xs[k' + 1]]) ++ xs.drop (k' + 2) := by
    rw [List.append_assoc, List.singleton_append, ← List.drop_eq_getElem_cons hklt,
      List.take_append_drop]
  have hPlen : (xs.take (k' + 1)).length = k' + 1 := by rw [List.length_take]; omega
  have hPz : ∀ a ∈ xs.take (k' + 1), v xs[k' + 1] ≤ v a := by
    intro a ha
    obtain ⟨i, hi, rfl⟩ := List.mem_iff_getElem.1 ha
    rw [List.getElem_take]
    exact (List.pairwise_iff_getElem.1 hS) i (k' + 1) (by omega) hklt (by omega)
  have hpos : ∀ a ∈ xs.take (k' + 1), 1 ≤ v a := fun a ha => by have := hPz a ha; omega
  -- the state after `k` items
  obtain ⟨hperm, hlists, hcons⟩ := run_valid v hk (xs.take (k' + 1))
  have hc : (run v (k' + 1) (xs.take (k' + 1))).sums =
      (run v (k' + 1) (xs.take (k' + 1))).lists.map (binSum v) := hcons
  have hsing := run_singletons v hk _ hPlen hpos
  have hne := run_sums_ne_nil v hk (xs.take (k' + 1))
  have hjlt := Part.argmin_lt hne
  have hslen : (run v (k' + 1) (xs.take (k' + 1))).sums.length = k' + 1 := run_sums_length v hk _
  have hjl : argmin (run v (k' + 1) (xs.take (k' + 1))).sums <
      (run v (k' + 1) (xs.take (k' + 1))).lists.length := by omega
  -- every bin is a singleton whose value is the bin sum
  have hbin : ∀ i (hi : i < (run v (k' + 1) (xs.take (k' + 1))).lists.length),
      ∃ u, (run v (k' + 1) (xs.take (k' + 1))).lists[i] = [u] ∧
        (run v (k' + 1) (xs.take (k' + 1))).sums[i]? = some (v u) ∧ u ∈ xs.take (k' + 1) := by
    intro i hi
    obtain ⟨u, hu⟩ := List.length_eq_one_iff.1 (hsing _ (List.getElem_mem hi))
    refine ⟨u, hu, ?_, ?_⟩
    · rw [hc, List.getElem?_map, List.getElem?_eq_getElem hi, hu]
      simp [binSum, sumL]
    · exact hperm.mem_iff.1 (List.mem_flatten.2 ⟨_, List.getElem_mem hi, by rw [hu]; simp⟩)
  obtain ⟨a, hla, hsa, haP⟩ := hbin _ hjl
  have hva : v a = minL (run v (k' + 1) (xs.take (k' + 1))).sums := by
    have := Part.getElem_argmin hjlt
    rw [List.getElem?_eq_getElem hjlt, this] at hsa
    simpa using hsa.symm
  -- after the `(k+1)`-th item
  have hs1 : (run v (k' + 1) (xs.take (k' + 1) ++ [xs[k' + 1]])).sums[
      argmin (run v (k' + 1) (xs.take (k' + 1))).sums]? = some (v a + v xs[k' + 1]) := by
    rw [run_snoc]
    simp only [greedyStep, Part.add_sums, List.getElem?_modify_eq, hsa]; rfl
  have hl1 : (run v (k' + 1) (xs.take (k' + 1) ++ [xs[k' + 1]])).lists[
      argmin (run v (k' + 1) (xs.take (k' + 1))).sums]? = some [a, xs[k' + 1]] := by
    rw [run_snoc]
    simp only [greedyStep, Part.add_lists, List.getElem?_modify_eq, List.getElem?_eq_getElem hjl, hla]
    rfl
  -- it is closed
  have hltfin : minL (run v (k' + 1) ((xs.take (k' + 1) ++ [xs[k' + 1]]) ++ xs.drop (k' + 2))).sums <
      v a + v xs[k' + 1] := by rw [← hsplit]; have := hPz a haP; omega
  have hclosed := run_closed v hk (xs.take (k' + 1) ++ [xs[k' + 1]]) _ _ hs1 (xs.drop (k' + 2)) hltfin
  have hskip := skipRun_closed v hk _ _ (xs.drop (k' + 2)) (xs.take (k' + 1) ++ [xs[k' + 1]]) hs1 hltfin
  rw [← hsplit, hl1] at hclosed
  obtain ⟨hfs, hfl⟩ := hclosed
  -- abbreviations
  generalize hj : argmin (run v (k' + 1) (xs.take (k' + 1))).sums = j at *
  obtain ⟨hfperm, hflists, hfcons⟩ := run_valid v hk xs
  have hfslen : (run v (k' + 1) xs).sums.length = k' + 1 := run_sums_length v hk _
  have hfne := run_sums_ne_nil v hk xs
  have hjf : j < (run v (k' + 1) xs).lists.length := by omega
  have hflj : (run v (k' + 1) xs).lists[j] = [a, xs[k' + 1]] := by
    rw [List.getElem?_eq_getElem hjf] at hfl; simpa using hfl
  have hfsj : (run v (k' + 1) xs).sums[j]'(by omega) = v a + v xs[k' + 1] := by
    rw [List.getElem?_eq_getElem (by omega)] at hfs; simpa using hfs
  have hargne : argmin (run v (k' + 1) xs).sums ≠ j := by
    intro e
    have h1 := Part.getElem_argmin (Part.argmin_lt hfne)
    have h2 := hPz a haP
    simp only [e] at h1
    rw [hfsj] at h1
    omega
  -- the other bins contain an item that dominates `a`
  have hdom : ∀ l ∈ (run v (k' + 1) xs).lists.eraseIdx j, ∃ u ∈ l, v a ≤ v u := by
    intro l hl
    obtain ⟨i, hi, hij, rfl⟩ := List.mem_eraseIdx_iff_getElem.1 hl
    have hi' : i < (run v (k' + 1) (xs.take (k' + 1))).lists.length := by omega
    obtain ⟨u, hu1, hu2, _⟩ := hbin i hi'
    have hmono := run_lists_mono v (k' + 1) (xs.take (k' + 1)) i [u]
      (by rw [List.getElem?_eq_getElem hi', hu1]) ([xs[k' + 1]] ++ xs.drop (k' + 2))
    rw [← List.append_assoc, ← hsplit] at hmono
    obtain ⟨l', hl', hul'⟩ := hmono
    rw [List.getElem?_eq_getElem hi] at hl'
    simp only [Option.some.injEq] at hl'
    refine ⟨u, by rw [hl']; exact hul' u (by simp), ?_⟩
    rw [hva]
    have hi'' : i < (run v (k' + 1) (xs.take (k' + 1))).sums.length := by omega
    rw [List.getElem?_eq_getElem hi''] at hu2
    simp only [Option.some.injEq] at hu2
    rw [← hu2]
    exact Part.minL_le (List.getElem_mem hi'')
  -- remove the bin
  have herase := run_eraseBin v k' j (by omega) xs
  have hsums' : (run v k' (skipRun v j (Bins.new (k' + 1)) xs)).sums =
      (run v (k' + 1) xs).sums.eraseIdx j := by rw [← herase]; rfl
  have hlists' : (run v k' (skipRun v j (Bins.new (k' + 1)) xs)).lists =
      (run v (k' + 1) xs).lists.eraseIdx j := by rw [← herase]; rfl
  have hL' : minL (run v k' (skipRun v j (Bins.new (k' + 1)) xs)).sums =
      minL (run v (k' + 1) xs).sums := by rw [hsums']; exact minL_eraseIdx hargne hfne
  -- the values
  obtain ⟨hperm', _, _⟩ := run_valid v hk'pos (skipRun v j (Bins.new (k' + 1)) xs)
  rw [hlists'] at hperm'
  have hflat := hfperm.symm.trans (flatten_perm_getElem_eraseIdx _ j hjf)
  rw [hflj] at hflat
  have hvals : (xs.map v).Perm (v a :: v xs[k' + 1] ::
      ((run v (k' + 1) xs).lists.eraseIdx j).flatten.map v) := by
    simpa using hflat.map v
  have hcount : k' ≤ (((run v (k' + 1) xs).lists.eraseIdx j).flatten.map v).countP
      (fun u => decide (v a ≤ u)) := by
    rw [List.countP_map]
    have := le_countP_flatten ((fun u => decide (v a ≤ u)) ∘ v) _ (fun g hg => by
      obtain ⟨u, hu, hau⟩ := hdom g hg
      exact ⟨u, hu, by simpa using hau⟩)
    rw [List.length_eraseIdx_of_lt hjf] at this
    omega
  -- the tail of the remaining list
  have htail : (skipRun v j (Bins.new (k' + 1)) xs).drop k' = xs.drop (k' + 2) := by
    have h1 : skipRun v j (Bins.new (k' + 1)) xs =
        skipRun v j (Bins.new (k' + 1)) (xs.take (k' + 1) ++ [xs[k' + 1]]) ++ xs.drop (k' + 2) := by
      conv_lhs => rw [hsplit]
      rw [skipRun_append]
      exact congrArg _ hskip
    have hlen1 := hflat.length_eq
    have hlen2 := hperm'.length_eq
    have hlen3 := congrArg List.length h1
    have hlen4 := congrArg List.length hsplit
    simp only [List.length_append, List.length_cons, List.length_nil] at hlen1 hlen3 hlen4
    rw [h1]
    exact List.drop_left' (by omega)
  obtain ⟨k'', rfl⟩ : ∃ k'', k' = k'' + 1 := ⟨k' - 1, by omega⟩
  obtain ⟨Q', hQ'k, hQ'p, hQ'⟩ := cover_drop_pair (W := W) (a := v a) (z := v xs[k'' + 1 + 1]) (k := k'')
    Q hQk (hQp.trans hvals) hQ (hPz a haP) hcount
  exact ⟨_, skipRun_sublist v j xs _, hL', htail, Q', hQ'k, hQ'p.trans (hperm'.map v), hQ'⟩

/-- **LPT covers at least `2k/(3k−1) ≥ 2/3` of any cover level.**  For the LPT loop on an ordered list `xs`
    and `k ≥ 1` bins: if the values of `xs` can be split into `k` bins of sum `≥ W` each, then
    `2k · W ≤ (3k − 1) · (smallest sum of LPT)` (written without subtraction).

    Induction on `k`.  Let `y` be the `(k+1)`-th value and `L` the smallest sum of LPT.
    * `2y ≤ L`: the spread bound `k·W ≤ k·L + (k−1)·y` gives the claim.
    * `2y > L`: peel the first pair (`peel_first_pair`) and use the induction hypothesis for `k − 1`. -/
theorem run_maxmin_two_thirds {v : α → Nat} : ∀ (k : Nat), 0 < k → ∀ (xs : List α),
    xs.Pairwise (fun a c => v c ≤ v a) → ∀ (W : Nat) (Q : List (List Nat)), Q.length = k →
    Q.flatten.Perm (xs.map v) → (∀ l ∈ Q, W ≤ sumL l) →
    2 * k * W + minL (run v k xs).sums ≤ 3 * k * minL (run v k xs).sums := by
  intro k
  induction k with
  | zero => intro h; omega
  | succ k' ih =>
    intro hk xs hS W Q hQk hQp hQ
    have hsp := run_spread hk hS Q hQk hQp hQ
    by_cases hk' : k' = 0
    · subst hk'
      simp only [Nat.zero_add, Nat.one_mul, Nat.mul_one] at hsp ⊢
      omega
    by_cases hy : 2 * (xs.map v).getD (k' + 1) 0 ≤ minL (run v (k' + 1) xs).sums
    · -- the spread bound suffices
      have h1 := Nat.mul_le_mul_left k' hy
      nlinarith
    · -- the first pair is closed: remove it
      have hklt : k' + 1 < xs.length := by
        apply Nat.lt_of_not_le
        intro hle
        have : (xs.map v)[k' + 1]? = none := List.getElem?_eq_none (by simpa using hle)
        simp [List.getD_eq_getElem?_getD, this] at hy
      have ey : (xs.map v).getD (k' + 1) 0 = v xs[k' + 1] := by
        simp [List.getD_eq_getElem?_getD, hklt]
      rw [ey] at hy
      have hk'pos : 0 < k' := Nat.pos_of_ne_zero hk'
      obtain ⟨ys, hsub, hL', _, Q', hQ'k, hQ'p, hQ'⟩ :=
        peel_first_pair hk'pos hS hklt (by omega) Q hQk hQp hQ
      have key := ih hk'pos ys (hS.sublist hsub) W Q' hQ'k hQ'p hQ'
      rw [hL'] at key
      have h2 : 2 * W ≤ 3 * minL (run v (k' + 1) xs).sums := by
        have : k' * (2 * W) ≤ k' * (3 * minL (run v (k' + 1) xs).sums) := by nlinarith
        exact Nat.le_of_mul_le_mul_left this hk'pos
      nlinarith

/-! ### the exact constant `(3k−1)/(4k−2)` when no late item lies in the window `(k·W/(4k−2), L/2]` -/

theorem arith_exact_spread {k W y L : Nat} (hk : 0 < k) (h1 : k * W + y ≤ k * L + k * y)
    (h2 : (4 * k - 2) * y ≤ k * W) : 3 * k * W + 2 * L ≤ 4 * k * L + W := by
  obtain ⟨k', rfl⟩ : ∃ k', k = k' + 1 := ⟨k - 1, by omega⟩
  have e : 4 * (k' + 1) - 2 = 4 * k' + 2 := by omega
  rw [e] at h2
  have h3 := Nat.mul_le_mul_left k' h2
  have h4 : (k' + 1) * ((4 * k' + 2) * W) ≤ (k' + 1) * ((4 * k' + 2) * L + k' * W) := by nlinarith
  have h5 := Nat.le_of_mul_le_mul_left h4 (by omega)
  nlinarith

theorem arith_exact_step {k' W L : Nat} (hk' : 0 < k') (h : 3 * k' * W + 2 * L ≤ 4 * k' * L + W) :
    3 * (k' + 1) * W + 2 * L ≤ 4 * (k' + 1) * L + W := by
  obtain ⟨j, rfl⟩ : ∃ j, k' = j + 1 := ⟨k' - 1, by omega⟩
  -- (3j+2)·W ≤ (4j+2)·L  ⟹  (3j+5)·W ≤ (4j+6)·L
  have h1 : (3 * j + 2) * W ≤ (4 * j + 2) * L := by nlinarith
  have h2 : (3 * j + 2) * ((3 * j + 5) * W) ≤ (3 * j + 2) * ((4 * j + 6) * L) := by nlinarith
  have h3 := Nat.le_of_mul_le_mul_left h2 (by omega)
  nlinarith

theorem arith_thresh {k' W x : Nat} (hk' : 0 < k') (h : (4 * (k' + 1) - 2) * x ≤ (k' + 1) * W) :
    (4 * k' - 2) * x ≤ k' * W := by
  obtain ⟨j, rfl⟩ : ∃ j, k' = j + 1 := ⟨k' - 1, by omega⟩
  have e1 : 4 * (j + 1 + 1) - 2 = 4 * j + 6 := by omega
  have e2 : 4 * (j + 1) - 2 = 4 * j + 2 := by omega
  rw [e1] at h
  rw [e2]
  -- x ≤ (j+2)·W/(4j+6) ≤ (j+1)·W/(4j+2)
  have h2 : (4 * j + 6) * ((4 * j + 2) * x) ≤ (4 * j + 6) * ((j + 1) * W) := by nlinarith
  exact Nat.le_of_mul_le_mul_left h2 (by omega)

/-- **The exact constant, outside a window.**  For the LPT loop on an ordered list: if every item after the `k`
    first ones has a value `x` with `(4k−2)·x ≤ k·W` or `2·x > L` (`L` the smallest sum of LPT, `W` a cover level),
    then `(3k−1)·W ≤ (4k−2)·L` (written without subtraction: `3k·W + 2·L ≤ 4k·L + W`).

    Induction on `k`: if the `(k+1)`-th value `y` satisfies `(4k−2)·y ≤ k·W` the spread bound gives the claim;
    if `2y > L` the first pair is peeled; the thresholds `k/(4k−2)` and `(3k−1)/(4k−2)` both move in the right
    direction when `k` decreases. -/
theorem run_maxmin_window {v : α → Nat} : ∀ (k : Nat), 0 < k → ∀ (xs : List α),
    xs.Pairwise (fun a c => v c ≤ v a) → ∀ (W : Nat) (Q : List (List Nat)), Q.length = k →
    Q.flatten.Perm (xs.map v) → (∀ l ∈ Q, W ≤ sumL l) →
    (∀ x ∈ xs.drop k, (4 * k - 2) * v x ≤ k * W ∨ minL (run v k xs).sums < 2 * v x) →
    3 * k * W + 2 * minL (run v k xs).sums ≤ 4 * k * minL (run v k xs).sums + W := by
  intro k
  induction k with
  | zero => intro h; omega
  | succ k' ih =>
    intro hk xs hS W Q hQk hQp hQ hwin
    have hsp := run_spread hk hS Q hQk hQp hQ
    by_cases hklt : k' + 1 < xs.length
    · have ey : (xs.map v).getD (k' + 1) 0 = v xs[k' + 1] := by
        simp [List.getD_eq_getElem?_getD, hklt]
      rw [ey] at hsp
      have hdrop : xs.drop (k' + 1) = xs[k' + 1] :: xs.drop (k' + 2) := List.drop_eq_getElem_cons hklt
      have hmem : xs[k' + 1] ∈ xs.drop (k' + 1) := by rw [hdrop]; exact List.mem_cons_self
      rcases hwin _ hmem with hsmall | hlarge
      · exact arith_exact_spread hk hsp hsmall
      · by_cases hk' : k' = 0
        · subst hk'
          simp only [Nat.zero_add, Nat.one_mul, Nat.mul_one] at hsp ⊢
          omega
        have hk'pos : 0 < k' := Nat.pos_of_ne_zero hk'
        obtain ⟨ys, hsub, hL', htail, Q', hQ'k, hQ'p, hQ'⟩ :=
          peel_first_pair hk'pos hS hklt hlarge Q hQk hQp hQ
        have key := ih hk'pos ys (hS.sublist hsub) W Q' hQ'k hQ'p hQ' (by
          intro x hx
          rw [htail] at hx
          have hx' : x ∈ xs.drop (k' + 1) := by rw [hdrop]; exact List.mem_cons_of_mem _ hx
          rw [hL']
          rcases hwin x hx' with h | h
          · exact Or.inl (arith_thresh hk'pos h)
          · exact Or.inr h)
        rw [hL'] at key
        exact arith_exact_step hk'pos key
    · -- at most `k` items: the `(k+1)`-th value is `0`
      have : (xs.map v)[k' + 1]? = none := List.getElem?_eq_none (by simpa using Nat.le_of_not_lt hklt)
      have ey : (xs.map v).getD (k' + 1) 0 = 0 := by simp [List.getD_eq_getElem?_getD, this]
      rw [ey] at hsp
      exact arith_exact_spread hk hsp (by simp)

/-- **A certificate for the exact constant.**  If in the final LPT state every bin with at least two items exceeds
    the smallest sum `L` by at most `y`, and `(4k−2)·y ≤ k·W` for a cover level `W`, then
    `(3k−1)·W ≤ (4k−2)·L`.  (Purely combinatorial: `spread_core`.) -/
theorem run_maxmin_cert {v : α → Nat} {k : Nat} (hk : 0 < k) {xs : List α} {W : Nat} (Q : List (List Nat))
    (hQk : Q.length = k) (hQp : Q.flatten.Perm (xs.map v)) (hQ : ∀ l ∈ Q, W ≤ sumL l) (y : Nat)
    (hinv : ∀ l ∈ (run v k xs).lists, l.length ≤ 1 ∨ binSum v l ≤ minL (run v k xs).sums + y)
    (hy : (4 * k - 2) * y ≤ k * W) :
    3 * k * W + 2 * minL (run v k xs).sums ≤ 4 * k * minL (run v k xs).sums + W := by
  obtain ⟨h1, h2, h3⟩ := run_valid v hk xs
  have hc : (run v k xs).sums = (run v k xs).lists.map (binSum v) := h3
  have hsp := spread_core (W := W) (k := k) (L := minL (run v k xs).sums) (y := y)
    (vals := xs.map v) ((run v k xs).lists.map (List.map v)) Q (by simpa using h2)
    (by rw [← List.map_flatten]; exact h1.map v)
    (by rw [hc, List.map_map]; rfl) hk
    (by
      intro l' hl'
      obtain ⟨l, hl, rfl⟩ := List.mem_map.1 hl'
      rcases hinv l hl with h | h
      · left; simpa using h
      · right; exact h)
    hQk hQp hQ
  exact arith_exact_spread hk hsp hy

/-! ## 6. The unconditional max-min guarantees of `greedy` proved here -/

/-- **Max-min, unconditional partial bound `2k/(3k−1)`**: LPT's smallest sum is at least `2k/(3k−1)` of the optimal
    smallest sum (`4/5` for two bins, `3/4` for three, always more than `2/3`).

    The exact constant of Csirik–Kellerer–Woeginger is `(3k−1)/(4k−2)`:
    `(3 * k - 1) * opt ≤ (4 * k - 2) * minL (greedy v k items).sums`  — open here in the case where the
    `(k+1)`-th largest value `y` satisfies `(4k−2)·y > k·opt` and `2·y ≤` LPT's smallest sum (cf.
    `LPT43.greedy_maxmin_partial_small`). -/
theorem greedy_maxmin_partial_2k_3k {v : α → Nat} {k : Nat} {items : List α} (hk : 0 < k) {opt : Nat}
    (hopt : IsOptimalValue .maxSmallest k (items.map v) (-(opt : Int))) :
    2 * k * opt ≤ (3 * k - 1) * minL (greedy v k items).sums := by
  obtain ⟨W, hW, Q, hQk, hQp, hQ⟩ := cover_of_opt hk hopt
  have hW' : W = opt := by exact_mod_cast hW
  subst hW'
  have key := run_maxmin_two_thirds (v := v) k hk (sortDesc v items) (Part.sortDesc_sorted v items) W Q hQk
    (hQp.trans ((Part.sortDesc_perm v items).map v).symm) hQ
  rw [greedy_eq_run]
  obtain ⟨k', rfl⟩ : ∃ k', k = k' + 1 := ⟨k - 1, by omega⟩
  have e : 3 * (k' + 1) - 1 = 3 * k' + 2 := by omega
  rw [e]
  nlinarith

/-- **Max-min, unconditional partial bound `2/3`**: `2 · OPT ≤ 3 · (smallest sum of LPT)`, for every number of
    bins. -/
theorem greedy_maxmin_partial_two_thirds {v : α → Nat} {k : Nat} {items : List α} (hk : 0 < k) {opt : Nat}
    (hopt : IsOptimalValue .maxSmallest k (items.map v) (-(opt : Int))) :
    2 * opt ≤ 3 * minL (greedy v k items).sums := by
  have key := greedy_maxmin_partial_2k_3k hk hopt
  have h1 : (3 * k - 1) * minL (greedy v k items).sums ≤ 3 * k * minL (greedy v k items).sums :=
    Nat.mul_le_mul_right _ (by omega)
  have h2 : k * (2 * opt) ≤ k * (3 * minL (greedy v k items).sums) := by nlinarith
  exact Nat.le_of_mul_le_mul_left h2 hk

/-- non-vacuity: `[3, 3, 2, 2, 2]` on two bins: optimal smallest sum `6`, LPT's smallest sum `5`:
    `2 · 2 · 6 = 24 ≤ 25 = 5 · 5` -/
example : 2 * 2 * 6 ≤ (3 * 2 - 1) * minL (greedy id 2 [3, 3, 2, 2, 2]).sums :=
  greedy_maxmin_partial_2k_3k (v := id) (by decide) optmin_33222
example : 2 * 6 ≤ 3 * minL (greedy id 2 [3, 3, 2, 2, 2]).sums :=
  greedy_maxmin_partial_two_thirds (v := id) (by decide) optmin_33222

theorem arith_final {k W L : Nat} (hk : 0 < k) (h : 3 * k * W + 2 * L ≤ 4 * k * L + W) :
    (3 * k - 1) * W ≤ (4 * k - 2) * L := by
  obtain ⟨k', rfl⟩ : ∃ k', k = k' + 1 := ⟨k - 1, by omega⟩
  have e1 : 3 * (k' + 1) - 1 = 3 * k' + 2 := by omega
  have e2 : 4 * (k' + 1) - 2 = 4 * k' + 2 := by omega
  rw [e1, e2]
  nlinarith

/-- an optimum computed by the verified oracle -/
theorem isOptimal_of_optValue {o : Objective} {k : Nat} {vals : List Nat} {x : Int} (hk : 0 < k)
    (h : optValue o k vals = some x) : IsOptimalValue o k vals x := by
  obtain ⟨x', h1, h2⟩ := Oracle.optValue_spec o vals hk
  rw [h] at h1
  cases h1
  exact h2

/-- **Max-min, exact constant, partial (window form).**  `(3k−1)·OPT ≤ (4k−2)·(smallest sum of LPT)` provided
    no item after the `k` largest has a value `x` in the window `k·OPT/(4k−2) < x ≤ L/2`, `L` being LPT's smallest
    sum.  This contains `LPT43.greedy_maxmin_partial_small` (there all later values are `≤ k·OPT/(4k−2)`).

    The full statement
    `(3 * k - 1) * opt ≤ (4 * k - 2) * minL (greedy v k items).sums`   (without `hwin`)
    of Csirik, Kellerer and Woeginger remains open: the missing case is that, after peeling the closed first
    pairs, the `(k+1)`-th largest value `y` satisfies `k·OPT/(4k−2) < y ≤ L/2` (then every LPT bin holds at most
    three of the values above `k·OPT/(4k−2)`; the tight instances `2k−1, 2k−1, …, k, k, k, …` lie here). -/
theorem greedy_maxmin_partial_window {v : α → Nat} {k : Nat} {items : List α} (hk : 0 < k) {opt : Nat}
    (hopt : IsOptimalValue .maxSmallest k (items.map v) (-(opt : Int)))
    (hwin : ∀ x ∈ (sortDesc v items).drop k,
      (4 * k - 2) * v x ≤ k * opt ∨ minL (greedy v k items).sums < 2 * v x) :
    (3 * k - 1) * opt ≤ (4 * k - 2) * minL (greedy v k items).sums := by
  obtain ⟨W, hW, Q, hQk, hQp, hQ⟩ := cover_of_opt hk hopt
  have hW' : W = opt := by exact_mod_cast hW
  subst hW'
  rw [greedy_eq_run] at hwin ⊢
  exact arith_final hk (run_maxmin_window (v := v) k hk (sortDesc v items) (Part.sortDesc_sorted v items) W Q hQk
    (hQp.trans ((Part.sortDesc_perm v items).map v).symm) hQ hwin)

/-- **Max-min, exact constant, a-posteriori certificate.**  If every bin of LPT's result with at least two items
    exceeds the smallest sum `L` by at most `y`, and `(4k−2)·y ≤ k·OPT`, then
    `(3k−1)·OPT ≤ (4k−2)·L`. -/
theorem greedy_maxmin_partial_cert {v : α → Nat} {k : Nat} {items : List α} (hk : 0 < k) {opt : Nat}
    (hopt : IsOptimalValue .maxSmallest k (items.map v) (-(opt : Int))) (y : Nat)
    (hinv : ∀ l ∈ (greedy v k items).lists,
      l.length ≤ 1 ∨ binSum v l ≤ minL (greedy v k items).sums + y)
    (hy : (4 * k - 2) * y ≤ k * opt) :
    (3 * k - 1) * opt ≤ (4 * k - 2) * minL (greedy v k items).sums := by
  obtain ⟨W, hW, Q, hQk, hQp, hQ⟩ := cover_of_opt hk hopt
  have hW' : W = opt := by exact_mod_cast hW
  subst hW'
  rw [greedy_eq_run] at hinv ⊢
  exact arith_final hk (run_maxmin_cert hk Q hQk
    (hQp.trans ((Part.sortDesc_perm v items).map v).symm) hQ y hinv hy)

/-- non-vacuity of the window form: `[6, 5, 5, 3]` on two bins, `OPT = 9`, LPT gives `[6, 3], [5, 5]`: the third
    value `5` exceeds `2·9/6 = 3` but `2·5 > 9`, so the first pair `[5, 5]` is peeled; the last value `3` is small -/
theorem optmin_6553 : IsOptimalValue .maxSmallest 2 ([6, 5, 5, 3].map id) (-((9 : Nat) : Int)) := by
  refine ⟨⟨[0, 1, 1, 0], ⟨rfl, by decide⟩, by decide⟩, ?_⟩
  intro asg hasg
  obtain ⟨Q, hQk, hQp, hQs⟩ := assignment_partition hasg
  have h1 := length_mul_minL_le (sumsOf 2 ([6, 5, 5, 3].map id) asg)
  rw [← hQs, ← sumL_flatten, Part.sumL_perm hQp, List.length_map, hQk] at h1
  simp only [Objective.value, Bool.false_eq_true, if_false]
  have : sumL ([6, 5, 5, 3].map id) = 19 := by decide
  rw [← hQs]
  omega

example : (3 * 2 - 1) * 9 ≤ (4 * 2 - 2) * minL (greedy id 2 [6, 5, 5, 3]).sums :=
  greedy_maxmin_partial_window (v := id) (by decide) optmin_6553 (by decide)

/-- non-vacuity of the certificate: `[3, 3, 2, 2, 2]`, two bins, `OPT = 6`, `L = 5`, the other bin has sum `7`,
    `y = 2`, `6·2 ≤ 2·6` (tight: `5·6 = 6·5`) -/
example : (3 * 2 - 1) * 6 ≤ (4 * 2 - 2) * minL (greedy id 2 [3, 3, 2, 2, 2]).sums :=
  greedy_maxmin_partial_cert (v := id) (by decide) optmin_33222 2 (by decide) (by decide)

/-! ## 7. The binary search of `multifit` -/

section Multifit
variable (v : α → Nat)

/-- first-fit (on the list `xs`, as given) with capacity `c` needs at most `k` bins -/
def Fits (k : Nat) (xs : List α) (c : Rat) : Prop := ∃ n, ffCount v c xs = .ok n ∧ n ≤ k

/-- first-fit with capacity `c` runs and needs more than `k` bins -/
def Fails (k : Nat) (xs : List α) (c : Rat) : Prop := ∃ n, ffCount v c xs = .ok n ∧ k < n

theorem not_fits_of_fails {k : Nat} {xs : List α} {c : Rat} (h : Fails v k xs c) : ¬ Fits v k xs c := by
  rintro ⟨n, hn, hle⟩
  obtain ⟨n', hn', hlt⟩ := h
  rw [hn] at hn'
  cases hn'
  omega

/-- **The invariant of the binary search.**  If the search started at `(lo, hi)` returns `cap` after `it`
    iterations, then `cap` is the upper end of an interval `[lo', cap]` with
    * `cap − lo' = (hi − lo) / 2^it` (the interval is halved in every iteration),
    * `lo ≤ lo' ≤ cap ≤ hi` (if `lo ≤ hi`),
    * `lo'` is the initial lower bound or a capacity at which first-fit needs more than `k` bins,
    * `cap` is the initial upper bound or a capacity at which first-fit needs at most `k` bins. -/
theorem multifit_search_invariant (k : Nat) (xs : List α) :
    ∀ (it : Nat) (lo hi cap : Rat), multifitSearch v k xs it lo hi = .ok cap →
      ∃ lo' : Rat, cap - lo' = (hi - lo) / 2 ^ it ∧ (lo ≤ hi → lo ≤ lo' ∧ lo' ≤ cap ∧ cap ≤ hi) ∧
        (lo' = lo ∨ Fails v k xs lo') ∧ (cap = hi ∨ Fits v k xs cap) := by
  intro it
  induction it with
  | zero =>
    intro lo hi cap h
    simp only [multifitSearch] at h
    cases h
    exact ⟨lo, by simp, fun hle => ⟨le_refl _, hle, le_refl _⟩, Or.inl rfl, Or.inl rfl⟩
  | succ it ih =>
    intro lo hi cap h
    simp only [multifitSearch] at h
    split at h
    · cases h
    · rename_i n hc
      split at h
      · rename_i hn
        obtain ⟨lo', h1, h2, h3, h4⟩ := ih lo _ cap h
        refine ⟨lo', ?_, ?_, h3, ?_⟩
        · rw [h1, pow_succ]; ring
        · intro hle
          obtain ⟨a1, a2, a3⟩ := h2 (by linarith)
          exact ⟨a1, a2, by linarith⟩
        · rcases h4 with h4 | h4
          · right; rw [h4]; exact ⟨n, hc, hn⟩
          · exact Or.inr h4
      · rename_i hn
        obtain ⟨lo', h1, h2, h3, h4⟩ := ih _ hi cap h
        refine ⟨lo', ?_, ?_, ?_, h4⟩
        · rw [h1, pow_succ]; ring
        · intro hle
          obtain ⟨a1, a2, a3⟩ := h2 (by linarith)
          exact ⟨by linarith, a2, a3⟩
        · rcases h3 with h3 | h3
          · right; rw [h3]; exact ⟨n, hc, by omega⟩
          · exact Or.inr h3

/-- **The initial bounds.**  The initial lower bound `max (total/k) (largest)` is at most the optimal largest
    sum, and the initial interval is not longer than the optimal largest sum. -/
theorem multifit_lo_bound {k : Nat} (hk : 0 < k) {items : List α} {opt : Int}
    (hopt : IsOptimalValue .minLargest k (items.map v) opt) :
    ratMax (((sumL (items.map v) : Nat) : Rat) / k) ((maxL (items.map v) : Nat) : Rat) ≤ (opt : Rat) ∧
    ratMax (2 * ((sumL (items.map v) : Nat) : Rat) / k) ((maxL (items.map v) : Nat) : Rat) -
      ratMax (((sumL (items.map v) : Nat) : Rat) / k) ((maxL (items.map v) : Nat) : Rat) ≤ (opt : Rat) ∧
    ratMax (((sumL (items.map v) : Nat) : Rat) / k) ((maxL (items.map v) : Nat) : Rat) ≤
      ratMax (2 * ((sumL (items.map v) : Nat) : Rat) / k) ((maxL (items.map v) : Nat) : Rat) := by
  obtain ⟨T, rfl, hp⟩ := packable_of_opt hopt
  have hS := packable_sum hp
  have hM : maxL (items.map v) ≤ T := Part.maxL_le (fun a ha => packable_item_le hp ha)
  have hk' : (0 : Rat) < k := by exact_mod_cast hk
  have hSq : ((sumL (items.map v) : Nat) : Rat) / k ≤ (T : Rat) := by
    rw [div_le_iff₀ hk']
    exact_mod_cast (by rw [Nat.mul_comm] at hS; exact hS)
  have hMq : ((maxL (items.map v) : Nat) : Rat) ≤ (T : Rat) := by exact_mod_cast hM
  have hS0 : (0 : Rat) ≤ ((sumL (items.map v) : Nat) : Rat) / k := by positivity
  have e2 : 2 * ((sumL (items.map v) : Nat) : Rat) / k = 2 * (((sumL (items.map v) : Nat) : Rat) / k) := by ring
  rw [e2]
  push_cast
  unfold ratMax
  refine ⟨?_, ?_, ?_⟩ <;> (repeat' split) <;> linarith

/-- `FfdFits ρ`: first-fit on the list `xs` fits into `k` bins for **every** capacity `c ≥ ρ · OPT`.
    (For `xs` sorted decreasingly and `ρ = 1.22` this is the theorem of Coffman, Garey and Johnson; it is proved
    below for `ρ = 4/3` and for `ρ = 2k/(k+1)`.) -/
def FfdFits (k : Nat) (xs : List α) (ρ opt : Rat) : Prop := ∀ c : Rat, ρ * opt ≤ c → Fits v k xs c

/-- **Multifit, conditional ratio.**  If first-fit-decreasing fits into `k` bins for every capacity
    `≥ ρ · OPT` (`ρ ≥ 1`), the largest sum of multifit with `it` iterations is at most `(ρ + 2^−it) · OPT`.

    The lower end of the search interval only moves to capacities at which first-fit-decreasing fails, which by
    the hypothesis are below `ρ · OPT`; the interval has length `(hi₀ − lo₀) / 2^it ≤ OPT / 2^it`. -/
theorem multifit_ratio_of_ffdFits {k : Nat} {items : List α} {it : Nat} {b : Bins α} (hk : 0 < k) {opt : Int}
    (hopt : IsOptimalValue .minLargest k (items.map v) opt) {ρ : Rat} (hρ : 1 ≤ ρ)
    (hfit : FfdFits v k (sortDesc v items) ρ opt) (h : multifit v k items it = .ok b) :
    ((maxL b.sums : Nat) : Rat) ≤ (ρ + 1 / 2 ^ it) * opt := by
  obtain ⟨hlo, hlen, hle⟩ := multifit_lo_bound v hk hopt
  simp only [multifit] at h
  split at h
  · cases h
  · rename_i cap e
    obtain ⟨lo', h1, h2, h3, _⟩ := multifit_search_invariant v k _ it _ _ cap e
    obtain ⟨a1, a2, a3⟩ := h2 hle
    have hlo0 : (0 : Rat) ≤ ratMax (((sumL (items.map v) : Nat) : Rat) / k)
        ((maxL (items.map v) : Nat) : Rat) :=
      le_trans (by positivity) (Part.ratMax_right _ _)
    have hopt0 : (0 : Rat) ≤ (opt : Rat) := le_trans hlo0 hlo
    have hcap0 : (0 : Rat) ≤ cap := by linarith
    -- the lower end stays below `ρ · OPT`
    have hlo' : lo' ≤ ρ * opt := by
      rcases h3 with h3 | h3
      · rw [h3]; nlinarith
      · apply le_of_lt
        apply lt_of_not_ge
        intro hge
        exact not_fits_of_fails v h3 (hfit lo' hge)
    have hpow : (0 : Rat) < 2 ^ it := by positivity
    have hdiv : (ratMax (2 * ((sumL (items.map v) : Nat) : Rat) / k) ((maxL (items.map v) : Nat) : Rat) -
        ratMax (((sumL (items.map v) : Nat) : Rat) / k) ((maxL (items.map v) : Nat) : Rat)) / 2 ^ it ≤
        (opt : Rat) / 2 ^ it := by
      rw [div_le_div_iff_of_pos_right hpow]; exact hlen
    have hmax : maxL b.sums ≤ floorNat cap := Part.maxL_le (Part.ffOnline_le v _ b h)
    have hq1 : ((maxL b.sums : Nat) : Rat) ≤ ((floorNat cap : Nat) : Rat) := by exact_mod_cast hmax
    have hq2 := Part.floorNat_le cap hcap0
    have e1 : (ρ + 1 / 2 ^ it) * (opt : Rat) = ρ * opt + (opt : Rat) / 2 ^ it := by ring
    rw [e1]
    linarith

/-! ### first-fit-decreasing with capacity `≥ 4/3 · T` -/

/-- **First-fit-decreasing with capacity above `4/3 · T` fits into `k` bins** whenever the values fit into `k`
    bins of capacity `T`.  Induction over the prefixes of the ordered list: let `x` be the first item that does not
    fit into any of `k` open bins.  If `3·x ≤ T`, every bin is filled above `B − x ≥ T`, too much in total.
    Otherwise all items so far exceed `T/3`, and by `LPT43.large_fits` (a counting statement about *arbitrary*
    distributions of such items over `k` bins) some bin has room for `x` even within `T ≤ B`. -/
theorem ffd_fold_fits_four_thirds {k : Nat} (hk : 0 < k) {T B : Nat} (hB : 4 * T < 3 * (B + 1)) :
    ∀ xs : List α, xs.Pairwise (fun a c => v c ≤ v a) → Packable T k (xs.map v) → (∀ x ∈ xs, v x ≤ B) →
      (xs.foldl (ffStep v B) (Bins.new 1)).lists.length ≤ k := by
  intro xs
  induction xs using Oracle.rev_induction with
  | nil => intro _ _ _; simp [Bins.new]; omega
  | snoc P x ih =>
    intro hS hp hall
    obtain ⟨hS1, _, hS2⟩ := List.pairwise_append.1 hS
    have hpP : Packable T k (P.map v) := by rw [List.map_append] at hp; exact packable_prefix _ hp
    have hallP : ∀ y ∈ P, v y ≤ B := fun y hy => hall y (by simp [hy])
    have hih := ih hS1 hpP hallP
    have hinv : Fit.Inv v B P (P.foldl (ffStep v B) (Bins.new 1)) := by
      simpa using Fit.inv_foldl (ffStep v B) (Fit.ffStep_step v B) P [] (Bins.new 1) hallP (Fit.inv_init v B)
    rw [List.foldl_append, List.foldl_cons, List.foldl_nil]
    rcases Fit.ffStep_step v B (P.foldl (ffStep v B) (Bins.new 1)) x with ⟨i, _, _, e⟩ | ⟨hno, e⟩
    · rw [e]; simpa using hih
    · rw [e, Fit.addEmpty_add v _ x hinv.len]
      simp only [List.length_append, List.length_cons, List.length_nil]
      apply Nat.succ_le_of_lt
      apply Nat.lt_of_le_of_ne hih
      intro hlen
      -- `k` bins, none of which has room for `x`
      have hc := hinv.cons
      have hsl : (P.foldl (ffStep v B) (Bins.new 1)).sums.length = k := by rw [hinv.len, hlen]
      by_cases hx : T < 3 * v x
      · obtain ⟨l', hl', hfit⟩ := large_fits (T := T) (k := k) (m := v x) (vals := P.map v)
          ((P.foldl (ffStep v B) (Bins.new 1)).lists.map (List.map v)) (by simpa using hlen)
          (by rw [← List.map_flatten]; exact hinv.perm.map v) (by simpa using hp)
          (fun y hy => by obtain ⟨a, ha, rfl⟩ := List.mem_map.1 hy; exact hS2 a ha x (by simp)) hx
        obtain ⟨l, hl, rfl⟩ := List.mem_map.1 hl'
        have hmem : binSum v l ∈ (P.foldl (ffStep v B) (Bins.new 1)).sums := by
          rw [hc]; exact List.mem_map_of_mem hl
        have e1 : binSum v l = sumL (l.map v) := rfl
        exact hno _ hmem (by omega)
      · have h1 : ∀ s ∈ (P.foldl (ffStep v B) (Bins.new 1)).sums, T + 1 ≤ s + 0 := by
          intro s hs
          have := hno s hs
          omega
        have h2 := Part.length_mul_le_sumL _ (T + 1) 0 h1
        have h3 : sumL (P.foldl (ffStep v B) (Bins.new 1)).sums = sumL (P.map v) := by
          rw [hc, Fit.sumL_map_binSum, Fit.binSum_perm hinv.perm]; rfl
        have h4 := packable_sum hpP
        rw [hsl, h3] at h2
        have : k * (T + 1) = k * T + k := by ring
        omega

theorem ffd_fits_four_thirds {k : Nat} (hk : 0 < k) {xs : List α}
    (hS : xs.Pairwise (fun a c => v c ≤ v a)) {T : Nat} (hp : Packable T k (xs.map v)) {B : Nat}
    (hB : 4 * T < 3 * (B + 1)) {b : Bins α} (h : ffOnline v B xs = .ok b) : b.lists.length ≤ k := by
  simp only [ffOnline, Fit.ffLoop_eq] at h
  have hall := Fit.gen_ok_all_le h
  rw [Fit.genLoop_ok v B _ xs _ hall] at h
  cases h
  exact ffd_fold_fits_four_thirds v hk hB xs hS hp hall

/-- `FfdFits ρ` for every `ρ ≥ 4/3` -/
theorem ffdFits_four_thirds {k : Nat} (hk : 0 < k) {items : List α} {opt : Int}
    (hopt : IsOptimalValue .minLargest k (items.map v) opt) {ρ : Rat} (hρ : 4 / 3 ≤ ρ) :
    FfdFits v k (sortDesc v items) ρ opt := by
  obtain ⟨T, rfl, hp⟩ := packable_of_opt hopt
  have hsp := Part.sortDesc_perm v items
  have hp' : Packable T k ((sortDesc v items).map v) := packable_perm (hsp.map v).symm hp
  have hM : ∀ x ∈ sortDesc v items, v x ≤ T :=
    fun x hx => packable_item_le hp' (List.mem_map_of_mem hx)
  intro c hc
  have hT0 : (0 : Rat) ≤ (T : Rat) := by positivity
  have hc' : 4 / 3 * (T : Rat) ≤ c := by
    push_cast at hc
    nlinarith
  obtain ⟨b', e', _, q2, _⟩ := Part.ffOnline_of_cap v (sortDesc v items) hM c (by linarith)
  refine ⟨b'.sums.length, by simp only [ffCount, e']; rfl, ?_⟩
  rw [Part.consistent_length v q2]
  have hB := Part.lt_floorNat_succ (4 * T) 6 c (by omega) (by push_cast; linarith)
  exact ffd_fits_four_thirds v hk (Part.sortDesc_sorted v items) hp' (by omega) e'

/-- `FfdFits ρ` for every `ρ ≥ 2k/(k+1)` (the any-fit argument: two bins together exceed the capacity) -/
theorem ffdFits_anyfit {k : Nat} (hk : 0 < k) {items : List α} {opt : Int}
    (hopt : IsOptimalValue .minLargest k (items.map v) opt) {ρ : Rat} (hρ : 2 * (k : Rat) ≤ ρ * (k + 1)) :
    FfdFits v k (sortDesc v items) ρ opt := by
  obtain ⟨T, rfl, hp⟩ := packable_of_opt hopt
  have hsp := Part.sortDesc_perm v items
  have hp' : Packable T k ((sortDesc v items).map v) := packable_perm (hsp.map v).symm hp
  have hM : ∀ x ∈ sortDesc v items, v x ≤ T :=
    fun x hx => packable_item_le hp' (List.mem_map_of_mem hx)
  have hS := packable_sum hp'
  intro c hc
  have hT0 : (0 : Rat) ≤ (T : Rat) := by positivity
  have hk1 : (1 : Rat) ≤ (k : Rat) := by exact_mod_cast hk
  have hρ1 : 1 ≤ ρ := by nlinarith
  push_cast at hc
  obtain ⟨b', e', q1, q2, q3⟩ := Part.ffOnline_of_cap v (sortDesc v items) hM c (by nlinarith)
  refine ⟨b'.sums.length, by simp only [ffCount, e']; rfl, ?_⟩
  apply Nat.le_of_not_lt
  intro hlt
  have hpw : b'.sums.Pairwise (fun a c' => floorNat c + 1 ≤ a + c') := q3.imp (fun h => by omega)
  have h1 := Part.pairwise_sum_bound (floorNat c + 1) b'.sums hpw (by omega)
  have htot : sumL b'.sums = sumL ((sortDesc v items).map v) := by
    rw [q2, Part.sumL_map_binSum, Part.binSum_perm v q1]; rfl
  have hB := Part.lt_floorNat_succ (k * T) (k + 1) c (by omega) (by
    have hk2 : (0 : Rat) < ((k + 1 : Nat) : Rat) := by positivity
    rw [div_le_iff₀ hk2]
    push_cast
    nlinarith)
  have h2 := Nat.mul_le_mul_right (floorNat c + 1) (show k + 1 ≤ b'.sums.length by omega)
  rw [htot] at h1
  omega

/-- **Multifit, unconditional: `4/3 + 2^−it`.** -/
theorem multifit_ratio_four_thirds {k : Nat} {items : List α} {it : Nat} {b : Bins α} (hk : 0 < k) {opt : Int}
    (hopt : IsOptimalValue .minLargest k (items.map v) opt) (h : multifit v k items it = .ok b) :
    ((maxL b.sums : Nat) : Rat) ≤ (4 / 3 + 1 / 2 ^ it) * opt :=
  multifit_ratio_of_ffdFits v hk hopt (by norm_num) (ffdFits_four_thirds v hk hopt (le_refl _)) h

/-- **Multifit, unconditional: `2k/(k+1) + 2^−it`** (better than the previous bound for `k = 1`). -/
theorem multifit_ratio_anyfit {k : Nat} {items : List α} {it : Nat} {b : Bins α} (hk : 0 < k) {opt : Int}
    (hopt : IsOptimalValue .minLargest k (items.map v) opt) (h : multifit v k items it = .ok b) :
    ((maxL b.sums : Nat) : Rat) ≤ (2 * k / (k + 1) + 1 / 2 ^ it) * opt := by
  have hk1 : (1 : Rat) ≤ (k : Rat) := by exact_mod_cast hk
  have hk2 : (0 : Rat) < (k : Rat) + 1 := by positivity
  refine multifit_ratio_of_ffdFits v hk hopt ?_ (ffdFits_anyfit v hk hopt ?_) h
  · rw [le_div_iff₀ hk2]; linarith
  · rw [div_mul_cancel₀ _ (ne_of_gt hk2)]

/-- **Multifit, as in the documentation with `2` in place of `1.22`**: `(2 + 2^−it) · OPT`. -/
theorem multifit_ratio_two {k : Nat} {items : List α} {it : Nat} {b : Bins α} (hk : 0 < k) {opt : Int}
    (hopt : IsOptimalValue .minLargest k (items.map v) opt) (h : multifit v k items it = .ok b) :
    ((maxL b.sums : Nat) : Rat) ≤ (2 + 1 / 2 ^ it) * opt := by
  have h1 := multifit_ratio_four_thirds v hk hopt h
  have h0 : (0 : Rat) ≤ (opt : Rat) :=
    le_trans (le_trans (by positivity) (Part.ratMax_right _ _)) (multifit_lo_bound v hk hopt).1
  nlinarith

/-! ### non-vacuity (`[3, 3, 2, 2, 2]` on two bins, optimal largest sum `6`, see `LPT43.opt_33222`) -/

example : ∃ cap lo' : Rat, multifitSearch id 2 (sortDesc id [3, 3, 2, 2, 2]) 5 6 12 = .ok cap ∧
    cap - lo' = (12 - 6) / 2 ^ 5 ∧ (lo' = 6 ∨ Fails id 2 (sortDesc id [3, 3, 2, 2, 2]) lo') := by
  obtain ⟨cap, e, _⟩ := Part.multifitSearch_spec id (M := 3) 2 (sortDesc id [3, 3, 2, 2, 2]) (by decide)
    (fun _ => True) (fun _ _ _ _ _ => trivial) 5 6 12 (by norm_num) (by norm_num) trivial
  obtain ⟨lo', h1, _, h3, _⟩ := multifit_search_invariant id 2 _ 5 6 12 cap e
  exact ⟨cap, lo', e, h1, h3⟩

example : ratMax (((sumL ([3, 3, 2, 2, 2].map id) : Nat) : Rat) / (2 : Nat))
    ((maxL ([3, 3, 2, 2, 2].map id) : Nat) : Rat) ≤ ((6 : Int) : Rat) :=
  (multifit_lo_bound id (k := 2) (by decide) opt_33222).1

example : ∃ b, multifit id 2 [3, 3, 2, 2, 2] 10 = .ok b ∧
    ((maxL b.sums : Nat) : Rat) ≤ (4 / 3 + 1 / 2 ^ 10) * ((6 : Int) : Rat) := by
  obtain ⟨b, h, _⟩ := Part.multifit_perm (v := id) (k := 2) (items := [3, 3, 2, 2, 2]) (it := 10)
    (by decide) (by decide)
  exact ⟨b, h, multifit_ratio_of_ffdFits id (by decide) opt_33222 (by norm_num)
    (ffdFits_four_thirds id (by decide) opt_33222 (le_refl _)) h⟩

example : ∃ b, multifit id 2 [3, 3, 2, 2, 2] 10 = .ok b ∧
    ((maxL b.sums : Nat) : Rat) ≤ (2 * (2 : Nat) / ((2 : Nat) + 1) + 1 / 2 ^ 10) * ((6 : Int) : Rat) := by
  obtain ⟨b, h, _⟩ := Part.multifit_perm (v := id) (k := 2) (items := [3, 3, 2, 2, 2]) (it := 10)
    (by decide) (by decide)
  exact ⟨b, h, multifit_ratio_anyfit id (by decide) opt_33222 h⟩

example : FfdFits id 2 (sortDesc id [3, 3, 2, 2, 2]) (4 / 3) ((6 : Int) : Rat) :=
  ffdFits_four_thirds id (by decide) opt_33222 (le_refl _)

end Multifit

end Prtpy.MaxMin

/-
Axiom audit (Lean 4.33.0; output observed with the commands appended to a copy of this file):

#print axioms Prtpy.MaxMin.run_eraseBin
#print axioms Prtpy.MaxMin.cover_drop_pair
#print axioms Prtpy.MaxMin.peel_first_pair
#print axioms Prtpy.MaxMin.run_maxmin_two_thirds
#print axioms Prtpy.MaxMin.run_maxmin_window
#print axioms Prtpy.MaxMin.greedy_maxmin_partial_2k_3k
#print axioms Prtpy.MaxMin.greedy_maxmin_partial_two_thirds
#print axioms Prtpy.MaxMin.greedy_maxmin_partial_window
#print axioms Prtpy.MaxMin.greedy_maxmin_partial_cert
#print axioms Prtpy.MaxMin.multifit_search_invariant
#print axioms Prtpy.MaxMin.multifit_lo_bound
#print axioms Prtpy.MaxMin.multifit_ratio_of_ffdFits
#print axioms Prtpy.MaxMin.ffd_fits_four_thirds
#print axioms Prtpy.MaxMin.ffdFits_four_thirds
#print axioms Prtpy.MaxMin.ffdFits_anyfit
#print axioms Prtpy.MaxMin.multifit_ratio_four_thirds
#print axioms Prtpy.MaxMin.multifit_ratio_anyfit
#print axioms Prtpy.MaxMin.multifit_ratio_two
  -- each of them: depends on axioms: [propext, Classical.choice, Quot.sound]
-/
