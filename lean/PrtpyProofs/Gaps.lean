/-
  PrtpyProofs.Gaps — small clauses of the properties that follow from existing theorems but had no named theorem.

  1. C04  `bc_le_isPacking`, `bc_le_ffd`, `bc_le_bfd`, `bc_le_ffOnline`, `bc_le_bfOnline`:
          bin completion (enough fuel) never uses more bins than any packing, in particular first-fit-decreasing.
  2. C01/C02 for the model function `dp`: `dp_isPartition`, `dp_total`, `dp_spec`.
  3. C17  the `if status != OPTIMAL: raise ValueError` branch: `SolverStatus`, `ilpFinish`, `ilpFinish_ok_iff`,
          `ilpFinish_refuses`, `ilp_end_to_end`.
  4. C18  bin completion: `packable_scale`, `packable_perm`, `optBins_scale`, `optBins_perm`, `bc_count_perm`,
          `bc_count_scale`.
  5. C09  `ff_new_bin_no_fit`, `bf_new_bin_no_fit` (+ `_iff` forms): a new bin is opened only when the item fits in
          no existing bin; otherwise the number of bins is unchanged.
  6. C03  exactly representable fractions: `ff_dyadic`, `ffd_dyadic`, `bf_dyadic`, `bfd_dyadic`, `dyadic_fit_iff`.
-/
import Prtpy
import PrtpyProofs.Fit
import PrtpyProofs.Checkers
import PrtpyProofs.Oracle
import PrtpyProofs.BCProofs
import PrtpyProofs.ExactSym
import PrtpyProofs.Scale
import PrtpyProofs.LPT43
import PrtpyProofs.ILPProofs

namespace Prtpy.Gaps
open Prtpy

variable {α : Type}

/-! ## 4a. `Packable` and `optBins` under permutation and scaling (used by 1 and 4) -/

/-- re-export of `LPT43.packable_perm`, as an equivalence -/
theorem packable_perm {B m : Nat} {vals₁ vals₂ : List Nat} (hp : vals₁.Perm vals₂) :
    Packable B m vals₁ ↔ Packable B m vals₂ :=
  ⟨LPT43.packable_perm hp, LPT43.packable_perm hp.symm⟩

example : Packable 10 2 [6, 5, 4, 3] ↔ Packable 10 2 [3, 4, 5, 6] := packable_perm (by decide)

/-- **C18**: multiplying the values and the capacity by `c > 0` does not change what can be packed into `m` bins -/
theorem packable_scale {c : Nat} (hc : 0 < c) (B m : Nat) (vals : List Nat) :
    Packable B m vals ↔ Packable (c * B) m (vals.map (c * ·)) := by
  unfold Packable
  simp only [List.length_map, Scale.sumsOf_scale, List.mem_map, forall_exists_index, and_imp]
  constructor
  · rintro ⟨asg, hasg, h⟩
    refine ⟨asg, hasg, ?_⟩
    intro s t ht hs
    subst hs
    exact Nat.mul_le_mul_left c (h t ht)
  · rintro ⟨asg, hasg, h⟩
    refine ⟨asg, hasg, ?_⟩
    intro s hs
    exact Nat.le_of_mul_le_mul_left (h (c * s) s hs rfl) hc

example : Packable 10 2 [6, 5, 4, 3] ↔ Packable 30 2 [18, 15, 12, 9] :=
  packable_scale (c := 3) (by decide) 10 2 [6, 5, 4, 3]

/-- `optBins` is determined by the `Packable` predicate: two instances with the same packable bin counts have the
    same optimum (the `none` case, some item above the capacity, included) -/
theorem optBins_congr {B B' : Nat} {vals vals' : List Nat} (hlen : vals.length = vals'.length)
    (h : ∀ m, Packable B m vals ↔ Packable B' m vals') : optBins B vals = optBins B' vals' := by
  by_cases hall : ∀ x ∈ vals, x ≤ B
  · have hall' : ∀ x ∈ vals', x ≤ B' := fun x hx =>
      LPT43.packable_item_le ((h _).1 (Checkers.packable_length hall)) hx
    obtain ⟨m, hm, hpk, hmin⟩ := Checkers.optBins_spec hall
    obtain ⟨m', hm', hpk', hmin'⟩ := Checkers.optBins_spec hall'
    have h1 : m ≤ m' := hmin m' ((h m').2 hpk')
    have h2 : m' ≤ m := hmin' m ((h m).1 hpk)
    rw [hm, hm']; congr 1; omega
  · have hnone : optBins B vals = none := by
      apply Checkers.optBins_none_iff.2
      apply Classical.byContradiction
      intro hno
      exact hall fun x hx => Nat.le_of_not_lt fun hlt => hno ⟨x, hx, hlt⟩
    have hnone' : optBins B' vals' = none := by
      cases hopt : optBins B' vals' with
      | none => rfl
      | some r =>
        exfalso
        have hall' : ∀ x ∈ vals', x ≤ B' := by
          intro x hx
          apply Nat.le_of_not_lt
          intro hlt
          have := Checkers.optBins_none_iff.2 ⟨x, hx, hlt⟩
          rw [hopt] at this; cases this
        have := (h _).2 (Checkers.packable_length hall')
        rw [← hlen] at this
        exact hall fun x hx => LPT43.packable_item_le this hx
    rw [hnone, hnone']

/-- **C18**: the minimum number of bins does not depend on the order of the values -/
theorem optBins_perm (B : Nat) {vals₁ vals₂ : List Nat} (hp : vals₁.Perm vals₂) :
    optBins B vals₁ = optBins B vals₂ :=
  optBins_congr hp.length_eq fun _ => packable_perm hp

example : optBins 10 [6, 5, 4, 3] = optBins 10 [3, 4, 5, 6] := optBins_perm 10 (by decide)
example : optBins 10 [6, 5, 4, 3] = some 2 := by
  obtain ⟨m, hm, hpk, hmin⟩ := Checkers.optBins_spec (B := 10) (vals := [6, 5, 4, 3]) (by decide)
  have h1 : m ≤ 2 := hmin 2 ⟨[0, 1, 0, 1], ⟨rfl, by decide⟩, by decide⟩
  have h2 := Fit.packing_lower_bound hpk
  have h3 : sumL [6, 5, 4, 3] = 18 := by decide
  rw [hm]; congr 1; omega
/-- the `none` case is covered -/
example : optBins 10 [6, 11, 4] = optBins 10 [4, 6, 11] := optBins_perm 10 (by decide)
example : optBins 10 [6, 11, 4] = none := Checkers.optBins_none_iff.2 ⟨11, by decide, by decide⟩

/-- **C18**: the minimum number of bins is invariant under scaling values and capacity by `c > 0` -/
theorem optBins_scale {c : Nat} (hc : 0 < c) (B : Nat) (vals : List Nat) :
    optBins (c * B) (vals.map (c * ·)) = optBins B vals :=
  (optBins_congr (by simp) fun m => packable_scale hc B m vals).symm

example : optBins 30 [18, 15, 12, 9] = optBins 10 [6, 5, 4, 3] :=
  optBins_scale (c := 3) (by decide) 10 [6, 5, 4, 3]

/-! ## 1. C04: "never more bins than first-fit-decreasing" -/

/-- the bins-array of a packing in the sense of `IsPacking` witnesses `Packable` with its number of bins -/
theorem packable_of_isPacking {B : Nat} {vals : List Nat} {b : Bins Nat} (h : IsPacking id B vals b) :
    Packable B b.lists.length vals := by
  obtain ⟨hperm, hsums, hle, _⟩ := h
  refine BCProofs.packable_of_arrangement hperm ?_
  intro bin hbin
  have := hle (binSum id bin) (by rw [hsums]; exact List.mem_map_of_mem hbin)
  rwa [BCProofs.binSum_id] at this

/-- **C04, general form**: with enough fuel, bin completion uses no more bins than *any* packing of the non-zero
    items -/
theorem bc_le_isPacking {B : Nat} {items : List Nat} {fuel : Nat} {bins : List (List Nat)} {b : Bins Nat}
    (hB : 0 < B) (hfuel : BCProofs.enoughFuel (items.filter (· != 0)).length ≤ fuel)
    (h : BC.binCompletion B items fuel = .ok bins) (hb : IsPacking id B (items.filter (· != 0)) b) :
    bins.length ≤ b.lists.length := by
  have hopt := BCProofs.bc_optimal hB hfuel h
  have hall : ∀ x ∈ items.filter (· != 0), x ≤ B :=
    fun x hx => BCProofs.bc_ok_all_le h x (List.mem_filter.1 hx).1
  obtain ⟨m, hm, _, hmin⟩ := Checkers.optBins_spec hall
  rw [hopt] at hm
  cases hm
  exact hmin _ (packable_of_isPacking hb)

/-- **C04: "never more bins than first-fit-decreasing"** (with enough fuel) -/
theorem bc_le_ffd {B : Nat} {items : List Nat} {fuel : Nat} {bins : List (List Nat)} {ffd : Bins Nat}
    (hB : 0 < B) (hfuel : BCProofs.enoughFuel (items.filter (· != 0)).length ≤ fuel)
    (h : BC.binCompletion B items fuel = .ok bins)
    (hf : ffDecreasing id B (items.filter (· != 0)) = .ok ffd) :
    bins.length ≤ ffd.lists.length :=
  bc_le_isPacking hB hfuel h (Fit.ffDecreasing_ok_isPacking hf)

/-- non-vacuity: here first-fit-decreasing needs 5 bins, bin completion 4 -/
example : ([[10, 10], [10, 10], [8, 4, 4, 4], [6, 5, 5, 4]] : List (List Nat)).length ≤
    ([[10, 10], [10, 10], [8, 6, 5], [5, 4, 4, 4], [4]] : List (List Nat)).length :=
  bc_le_ffd (B := 20) (items := [5, 10, 4, 10, 8, 6, 4, 10, 5, 4, 4, 10]) (fuel := BCProofs.enoughFuel 12)
    (ffd := ⟨[20, 20, 19, 17, 4], [[10, 10], [10, 10], [8, 6, 5], [5, 4, 4, 4], [4]]⟩)
    (by decide) (by decide +kernel) (by decide +kernel) rfl

/-- the same against best-fit-decreasing: re-export of `BCProofs.bc_le_bfd` (which needs neither `0 < B` nor
    any fuel: the search starts from the best-fit-decreasing packing) -/
theorem bc_le_bfd {B : Nat} {items : List Nat} {fuel : Nat} {bins : List (List Nat)} {bfd : Bins Nat}
    (h : BC.binCompletion B items fuel = .ok bins)
    (hb : bfDecreasing id B (items.filter (· != 0)) = .ok bfd) :
    bins.length ≤ bfd.lists.length :=
  BCProofs.bc_le_bfd h hb

example : ([[10, 10], [10, 10], [8, 4, 4, 4], [6, 5, 5, 4]] : List (List Nat)).length ≤
    ([[10, 10], [10, 10], [8, 6, 5], [5, 4, 4, 4], [4]] : List (List Nat)).length :=
  bc_le_bfd (B := 20) (items := [5, 10, 4, 10, 8, 6, 4, 10, 5, 4, 4, 10]) (fuel := 100)
    (bfd := ⟨[20, 20, 19, 17, 4], [[10, 10], [10, 10], [8, 6, 5], [5, 4, 4, 4], [4]]⟩)
    (by decide +kernel) rfl

/-- … and against the two online heuristics -/
theorem bc_le_ffOnline {B : Nat} {items : List Nat} {fuel : Nat} {bins : List (List Nat)} {ff : Bins Nat}
    (hB : 0 < B) (hfuel : BCProofs.enoughFuel (items.filter (· != 0)).length ≤ fuel)
    (h : BC.binCompletion B items fuel = .ok bins)
    (hf : ffOnline id B (items.filter (· != 0)) = .ok ff) :
    bins.length ≤ ff.lists.length :=
  bc_le_isPacking hB hfuel h (Fit.ffOnline_ok_isPacking hf)

theorem bc_le_bfOnline {B : Nat} {items : List Nat} {fuel : Nat} {bins : List (List Nat)} {bf : Bins Nat}
    (hB : 0 < B) (hfuel : BCProofs.enoughFuel (items.filter (· != 0)).length ≤ fuel)
    (h : BC.binCompletion B items fuel = .ok bins)
    (hf : bfOnline id B (items.filter (· != 0)) = .ok bf) :
    bins.length ≤ bf.lists.length :=
  bc_le_isPacking hB hfuel h (Fit.bfOnline_ok_isPacking hf)

/-! ## 4b. C18 for bin completion -/

theorem filter_ne_zero_perm {l₁ l₂ : List Nat} (hp : l₁.Perm l₂) :
    (l₁.filter (· != 0)).Perm (l₂.filter (· != 0)) := hp.filter _

theorem filter_ne_zero_scale {c : Nat} (hc : 0 < c) (l : List Nat) :
    (l.map (c * ·)).filter (· != 0) = (l.filter (· != 0)).map (c * ·) := by
  induction l with
  | nil => rfl
  | cons x xs ih =>
    by_cases hx : x = 0
    · subst hx
      simpa using ih
    · have hcx : c * x ≠ 0 := Nat.mul_ne_zero (by omega) hx
      simp only [List.map_cons, List.filter_cons, bne_iff_ne, ne_eq, hcx, not_false_eq_true, if_true, hx, ih]

/-- **C18 (bin completion)**: with enough fuel, permuting the items does not change the number of bins -/
theorem bc_count_perm {B : Nat} {items₁ items₂ : List Nat} {fuel₁ fuel₂ : Nat} {bins₁ bins₂ : List (List Nat)}
    (hB : 0 < B) (hp : items₁.Perm items₂)
    (hf₁ : BCProofs.enoughFuel (items₁.filter (· != 0)).length ≤ fuel₁)
    (hf₂ : BCProofs.enoughFuel (items₂.filter (· != 0)).length ≤ fuel₂)
    (h₁ : BC.binCompletion B items₁ fuel₁ = .ok bins₁) (h₂ : BC.binCompletion B items₂ fuel₂ = .ok bins₂) :
    bins₁.length = bins₂.length := by
  have e₁ := BCProofs.bc_optimal hB hf₁ h₁
  have e₂ := BCProofs.bc_optimal hB hf₂ h₂
  rw [optBins_perm B (filter_ne_zero_perm hp), e₂] at e₁
  exact (Option.some.inj e₁).symm

/-- a permuted input needs exactly the same fuel -/
theorem enoughFuel_perm {items₁ items₂ : List Nat} (hp : items₁.Perm items₂) :
    BCProofs.enoughFuel (items₁.filter (· != 0)).length = BCProofs.enoughFuel (items₂.filter (· != 0)).length := by
  rw [(filter_ne_zero_perm hp).length_eq]

/-- non-vacuity: an input and its reversal; whatever the bins of the second run are, there are 4 of them -/
example (b : List (List Nat))
    (h₂ : BC.binCompletion 20 [10, 4, 4, 5, 10, 4, 6, 8, 10, 4, 10, 5] (BCProofs.enoughFuel 12) = .ok b) :
    ([[10, 10], [10, 10], [8, 4, 4, 4], [6, 5, 5, 4]] : List (List Nat)).length = b.length :=
  bc_count_perm (B := 20) (items₁ := [5, 10, 4, 10, 8, 6, 4, 10, 5, 4, 4, 10]) (fuel₁ := BCProofs.enoughFuel 12)
    (bins₁ := [[10, 10], [10, 10], [8, 4, 4, 4], [6, 5, 5, 4]]) (by decide) (by decide)
    (by decide +kernel) (by decide +kernel) (by decide +kernel) h₂

/-- … and the second run does succeed -/
example : ∃ b, BC.binCompletion 20 [10, 4, 4, 5, 10, 4, 6, 8, 10, 4, 10, 5] (BCProofs.enoughFuel 12) = .ok b :=
  BCProofs.bc_ok_of_all_le _ (by decide)

/-- **C18 (bin completion)**: with enough fuel, scaling the items and the bin size by `c > 0` does not change the
    number of bins -/
theorem bc_count_scale {c B : Nat} {items : List Nat} {fuel fuel' : Nat} {bins bins' : List (List Nat)}
    (hc : 0 < c) (hB : 0 < B)
    (hf : BCProofs.enoughFuel (items.filter (· != 0)).length ≤ fuel)
    (hf' : BCProofs.enoughFuel (items.filter (· != 0)).length ≤ fuel')
    (h : BC.binCompletion B items fuel = .ok bins)
    (h' : BC.binCompletion (c * B) (items.map (c * ·)) fuel' = .ok bins') :
    bins'.length = bins.length := by
  have e := BCProofs.bc_optimal hB hf h
  have e' := BCProofs.bc_optimal (Nat.mul_pos hc hB)
    (by rw [filter_ne_zero_scale hc, List.length_map]; exact hf') h'
  rw [filter_ne_zero_scale hc, optBins_scale hc, e] at e'
  exact (Option.some.inj e').symm

/-- the scaled input is accepted iff the original is, so the hypothesis `h'` above is never the obstacle -/
theorem bc_ok_scale {c B : Nat} {items : List Nat} (hc : 0 < c) (fuel fuel' : Nat) :
    (∃ bins, BC.binCompletion B items fuel = .ok bins) ↔
      ∃ bins', BC.binCompletion (c * B) (items.map (c * ·)) fuel' = .ok bins' := by
  constructor
  · rintro ⟨bins, h⟩
    refine BCProofs.bc_ok_of_all_le fuel' ?_
    intro y hy
    obtain ⟨x, hx, rfl⟩ := List.mem_map.1 hy
    exact Nat.mul_le_mul_left c (BCProofs.bc_ok_all_le h x hx)
  · rintro ⟨bins', h'⟩
    refine BCProofs.bc_ok_of_all_le fuel ?_
    intro x hx
    exact Nat.le_of_mul_le_mul_left (BCProofs.bc_ok_all_le h' (c * x) (List.mem_map_of_mem hx)) hc

/-- non-vacuity: everything times 3 -/
example (bins' : List (List Nat))
    (h' : BC.binCompletion 60 ([5, 10, 4, 10, 8, 6, 4, 10, 5, 4, 4, 10].map (3 * ·)) (BCProofs.enoughFuel 12)
      = .ok bins') :
    bins'.length = ([[10, 10], [10, 10], [8, 4, 4, 4], [6, 5, 5, 4]] : List (List Nat)).length :=
  bc_count_scale (c := 3) (B := 20) (items := [5, 10, 4, 10, 8, 6, 4, 10, 5, 4, 4, 10])
    (fuel := BCProofs.enoughFuel 12) (by decide) (by decide) (by decide +kernel) (by decide +kernel)
    (by decide +kernel) h'

example : ∃ bins', BC.binCompletion 60 ([5, 10, 4, 10, 8, 6, 4, 10, 5, 4, 4, 10].map (3 * ·))
    (BCProofs.enoughFuel 12) = .ok bins' :=
  (bc_ok_scale (c := 3) (B := 20) (by decide) 100 _).1
    ⟨[[10, 10], [10, 10], [8, 4, 4, 4], [6, 5, 5, 4]], by decide +kernel⟩

/-! ## 2. C01 / C02 for the model function `dp` -/

/-- **C01 for `dp`** (any `k`): whatever `dp` returns is a partition of the items into `k` bins -/
theorem dp_isPartition' {v : α → Nat} {o : Objective} {k : Nat} {items : List α} {b : Bins α}
    (h : dp v o k items = .ok b) : IsPartition v items k b := by
  obtain ⟨r, hr, rfl⟩ := ExactSym.dp_ok_min h
  exact (Oracle.dpReplay_isPartition v items hr.1).1

/-- the statement as requested (`0 < k` is not needed: see `dp_isPartition'`) -/
theorem dp_isPartition {v : α → Nat} {o : Objective} {k : Nat} {items : List α} {b : Bins α}
    (_hk : 0 < k) (h : dp v o k items = .ok b) : IsPartition v items k b :=
  dp_isPartition' h

example : IsPartition id [1, 2, 3] 2 (⟨[3, 3], [[1, 2], [3]]⟩ : Bins Nat) :=
  dp_isPartition (o := .minLargest) (by decide) (by rfl)

/-- **`dp` is total for `k > 0`**: it never raises -/
theorem dp_total (v : α → Nat) (o : Objective) {k : Nat} (hk : 0 < k) (items : List α) :
    ∃ b, dp v o k items = .ok b := by
  obtain ⟨x, hx, _⟩ := Oracle.dpBestValue_spec o (items.map v) hk
  have hmem : ∃ r ∈ dpFinal k (items.map v), o.value r.state false = x := by
    unfold dpBestValue at hx
    generalize hys : (dpFinal k (items.map v)).map (fun r => o.value r.state false) = ys at hx
    match ys, hys, hx with
    | [], _, hx => cases hx
    | y :: ys', hys, hx =>
      simp only [Option.some.injEq] at hx
      have := Oracle.foldl_min_mem y ys'
      rw [hx, ← hys] at this
      obtain ⟨r, hr, he⟩ := List.mem_map.1 this
      exact ⟨r, hr, he⟩
  obtain ⟨r, hr, he⟩ := hmem
  unfold dp
  simp only [hx]
  cases hf : (dpFinal k (items.map v)).find? (fun r => o.value r.state false == x) with
  | none =>
    rw [List.find?_eq_none] at hf
    exact absurd (by simpa using he) (hf r hr)
  | some r' => exact ⟨_, rfl⟩

example : ∃ b, dp id .minDiff 3 [4, 5, 6, 7, 8] = .ok b := dp_total id .minDiff (by decide) _

/-- without `0 < k` the statement fails: no bin to put the item into -/
example : dp id .minLargest 0 [1] = .error .valueError := by rfl

/-- C01 + C02 + totality in one statement: for `k > 0`, `dp` returns a partition into `k` bins whose objective value
    is the optimum over all partitions -/
theorem dp_spec (v : α → Nat) (o : Objective) {k : Nat} (hk : 0 < k) (items : List α) :
    ∃ b, dp v o k items = .ok b ∧ IsPartition v items k b ∧
      IsOptimalValue o k (items.map v) (o.value b.sums false) := by
  obtain ⟨b, hb⟩ := dp_total v o hk items
  exact ⟨b, hb, dp_isPartition' hb, ExactSym.dp_ok_optimal hb⟩

example : ∃ b, dp id .minDiff 3 [4, 5, 6, 7, 8] = .ok b ∧ IsPartition id [4, 5, 6, 7, 8] 3 b ∧
    IsOptimalValue .minDiff 3 ([4, 5, 6, 7, 8].map id) (Objective.minDiff.value b.sums false) :=
  dp_spec id .minDiff (by decide) _

/-! ## 3. C17: "raises an error instead of returning a partition when the solver does not prove optimality" -/

/-- what python-mip's `model.optimize()` can report (`OptimizationStatus`), as far as the code distinguishes:
    `OPTIMAL`, `FEASIBLE` (a point, optimality not proved), `INFEASIBLE`, `NO_SOLUTION_FOUND`, anything else
    (`ERROR`, `UNBOUNDED`, `INT_INFEASIBLE`, `CUTOFF`, `LOADED`) -/
inductive SolverStatus where
  | optimal | feasible | infeasible | noSolutionFound | other
  deriving Repr, DecidableEq

/-- the end of `integer_programming.optimal`: `if status != OPTIMAL: raise ValueError`, else read the point back.
    (This decision is not part of the frozen model `Prtpy.ILP`, which stops at `decode`.) -/
def ilpFinish {α : Type} (v : α → Nat) (s : ILP.Spec) (items : List α) (st : SolverStatus) (p : ILP.Point) :
    Except Err (Bins α) :=
  if st = .optimal then .ok (ILP.decode v s items p) else .error .valueError

/-- a partition is returned exactly when the solver reports `OPTIMAL`, and then it is the read-back of its point -/
theorem ilpFinish_ok_iff {v : α → Nat} {s : ILP.Spec} {items : List α} {st : SolverStatus} {p : ILP.Point}
    {b : Bins α} : ilpFinish v s items st p = .ok b ↔ st = .optimal ∧ b = ILP.decode v s items p := by
  unfold ilpFinish
  split
  · rename_i h
    constructor
    · intro hb; cases hb; exact ⟨h, rfl⟩
    · rintro ⟨_, rfl⟩; rfl
  · rename_i h
    constructor
    · intro hb; cases hb
    · rintro ⟨h', _⟩; exact absurd h' h

/-- **C17**: any other status — in particular `FEASIBLE`, a point whose optimality is not proved — gives
    `ValueError`, never a partition -/
theorem ilpFinish_refuses {v : α → Nat} {s : ILP.Spec} {items : List α} {st : SolverStatus} {p : ILP.Point}
    (h : st ≠ .optimal) : ilpFinish v s items st p = .error .valueError := by
  unfold ilpFinish
  rw [if_neg h]

/-- the error is always `ValueError` -/
theorem ilpFinish_error_kind {v : α → Nat} {s : ILP.Spec} {items : List α} {st : SolverStatus} {p : ILP.Point}
    {e : Err} (h : ilpFinish v s items st p = .error e) : e = .valueError ∧ st ≠ .optimal := by
  unfold ilpFinish at h
  split at h
  · cases h
  · rename_i hst; cases h; exact ⟨rfl, hst⟩

example : ilpFinish id ILPProofs.exSpecU [11, 11, 11, 11, 22] .feasible ILPProofs.exPointOpt
    = .error .valueError := ilpFinish_refuses (by decide)
example : ilpFinish id ILPProofs.exSpecU [11, 11, 11, 11, 22] .optimal ILPProofs.exPointOpt
    = .ok ⟨[33, 33], [[11, 11, 11], [11, 22]]⟩ := by rfl
example : ilpFinish id ILPProofs.exSpecU [11, 11, 11, 11, 22] .optimal ILPProofs.exPointOpt
    = .ok (ILP.decode id ILPProofs.exSpecU [11, 11, 11, 11, 22] ILPProofs.exPointOpt) :=
  ilpFinish_ok_iff.2 ⟨rfl, rfl⟩

/-- **C17, end to end.**  The trusted solver contract: *if* the status is `optimal`, the point satisfies all rows
    of the formulation and minimises the objective row among such points.  Then
    * status `optimal`: a bins-array is returned, and it has all the properties of `ILPProofs.solver_answer_spec`
      ((a) `k` consistent bins, (b) item `i` exactly `copies[i]` times, (c) sums = the raw sums of the point, weighted
      sums non-decreasing, (d) the caller's constraints hold, (e) the documented objective value is the least one
      over all feasible points, `ilpBest s`);
    * any other status: the result is `ValueError` (no partition is returned). -/
theorem ilp_end_to_end {α : Type} (v : α → Nat) (s : ILP.Spec) (items : List α) (st : SolverStatus)
    (p : ILP.Point)
    (hv : items.map v = s.vals) (hc : s.copies.length = s.vals.length) (hw : s.weights.length = s.k)
    (hpos : ∀ w ∈ s.weights, 0 < w) (hk : 0 < s.k)
    (hsolver : st = .optimal → ILP.satisfies s p = true ∧
      ∀ q, ILP.satisfies s q = true → ILP.objValue s p ≤ ILP.objValue s q) :
    (st = .optimal → ∃ out, ilpFinish v s items st p = .ok out ∧
      (out.Consistent v ∧ out.lists.length = s.k) ∧
      out.lists.flatten.Perm ((items.zip s.copies).flatMap fun ic => List.replicate ic.2 ic.1) ∧
      (out.sums = (List.range s.k).map (ILP.rawSum s p) ∧ (ILP.wSums s p).Pairwise (· ≤ ·)) ∧
      (∀ c ∈ s.cons, c.holdsOn (ILP.wSums s p) = true) ∧
      (ILP.ilpBest s = some (ILP.docValue s.obj (ILP.wSums s p)) ∧
        ∀ q, ILP.feasible s q = true →
          ILP.docValue s.obj (ILP.wSums s p) ≤ ILP.docValue s.obj (ILP.wSums s q))) ∧
    (st ≠ .optimal → ilpFinish v s items st p = .error .valueError) := by
  refine ⟨?_, ilpFinish_refuses⟩
  intro hst
  obtain ⟨hsat, hopt⟩ := hsolver hst
  exact ⟨ILP.decode v s items p, ilpFinish_ok_iff.2 ⟨hst, rfl⟩,
    ILPProofs.solver_answer_spec v s items p hv hc hw hpos hk hsat hopt⟩

/-- non-vacuity: the unit-weight example of `ILPProofs` with its optimal point `33 | 33` and status `optimal` … -/
example := ilp_end_to_end id ILPProofs.exSpecU [11, 11, 11, 11, 22] .optimal ILPProofs.exPointOpt
  rfl rfl rfl (by decide) (by decide)
  (fun _ => ⟨by rw [ILPProofs.rows_iff_feasible' _ _ (by decide)]; exact ILPProofs.exPointOpt_feasible, by
    intro q hq
    rw [ILPProofs.exPointOpt_value]
    exact ((ILPProofs.ilpBest_rows ILPProofs.exSpecU (by decide) 0).1 ILPProofs.exSpecU_best).2 q hq⟩)

/-- … and with status `feasible` (the same point, but the solver did not prove it optimal): the contract is void,
    the result is `ValueError` -/
example : ilpFinish id ILPProofs.exSpecU [11, 11, 11, 11, 22] .feasible ILPProofs.exPointOpt
    = .error .valueError :=
  (ilp_end_to_end id ILPProofs.exSpecU [11, 11, 11, 11, 22] .feasible ILPProofs.exPointOpt
    rfl rfl rfl (by decide) (by decide) (fun h => by cases h)).2 (by decide)

/-! ## 5. C09: "… at the time it opened a new one" -/

theorem numbins_add (v : α → Nat) (b : Bins α) (x : α) (i : Nat) :
    (b.add v x i).sums.length = b.sums.length ∧ (b.add v x i).lists.length = b.lists.length := by
  simp [Bins.add]

theorem numbins_new_bin (v : α → Nat) (b : Bins α) (x : α) (i : Nat) :
    ((b.addEmpty 1).add v x i).sums.length = b.sums.length + 1 ∧
      ((b.addEmpty 1).add v x i).lists.length = b.lists.length + 1 := by
  simp [Bins.add, Bins.addEmpty, Bins.concat, Bins.new]

/-- the common content for any step that satisfies `Fit.Step` -/
theorem step_new_bin_no_fit {v : α → Nat} {B : Nat} {b b' : Bins α} {x : α} (h : Fit.Step v B b x b') :
    ((∀ s ∈ b.sums, B < s + v x) ∧ b' = (b.addEmpty 1).add v x b.sums.length ∧
        b'.sums.length = b.sums.length + 1 ∧ b'.lists.length = b.lists.length + 1) ∨
    ((∃ s ∈ b.sums, s + v x ≤ B) ∧ b'.sums.length = b.sums.length ∧ b'.lists.length = b.lists.length) := by
  rcases h with ⟨i, hi, hfit, rfl⟩ | ⟨hno, rfl⟩
  · exact Or.inr ⟨⟨b.sums[i], List.getElem_mem hi, hfit⟩, numbins_add v b x i⟩
  · exact Or.inl ⟨fun s hs => Nat.lt_of_not_le (hno s hs), rfl, numbins_new_bin v b x _⟩

/-- **C09 (first fit), the "new bin" half**: one step of first fit either opens a new bin — and then the item fits
    in NO existing bin: every existing sum plus the item's value exceeds the bin size — or some existing bin has
    room, and then the number of bins is unchanged. -/
theorem ff_new_bin_no_fit (v : α → Nat) (B : Nat) (b : Bins α) (x : α) :
    ((∀ s ∈ b.sums, B < s + v x) ∧ ffStep v B b x = (b.addEmpty 1).add v x b.sums.length ∧
        (ffStep v B b x).sums.length = b.sums.length + 1 ∧ (ffStep v B b x).lists.length = b.lists.length + 1) ∨
    ((∃ s ∈ b.sums, s + v x ≤ B) ∧ (ffStep v B b x).sums.length = b.sums.length ∧
        (ffStep v B b x).lists.length = b.lists.length) := by
  rcases Fit.ffStep_spec' v B b x with ⟨i, hi, hfit, _, he⟩ | ⟨hno, he⟩
  · exact step_new_bin_no_fit (Or.inl ⟨i, hi, hfit, he⟩)
  · exact step_new_bin_no_fit (Or.inr ⟨hno, he⟩)

/-- a new bin is opened **iff** the item fits in no existing bin -/
theorem ff_new_bin_iff (v : α → Nat) (B : Nat) (b : Bins α) (x : α) :
    (ffStep v B b x).sums.length = b.sums.length + 1 ↔ ∀ s ∈ b.sums, B < s + v x := by
  rcases ff_new_bin_no_fit v B b x with ⟨h1, _, h2, _⟩ | ⟨⟨s, hs, hfit⟩, h2, _⟩
  · exact ⟨fun _ => h1, fun _ => h2⟩
  · constructor
    · intro h; omega
    · intro h; have := h s hs; omega

/-- the number of bins never changes otherwise (and never decreases) -/
theorem ff_numbins_step (v : α → Nat) (B : Nat) (b : Bins α) (x : α) :
    (ffStep v B b x).sums.length = if ∀ s ∈ b.sums, B < s + v x then b.sums.length + 1 else b.sums.length := by
  rcases ff_new_bin_no_fit v B b x with ⟨h1, _, h2, _⟩ | ⟨⟨s, hs, hfit⟩, h2, _⟩
  · rw [if_pos h1, h2]
  · rw [if_neg (fun h => by have := h s hs; omega), h2]

/-- non-vacuity: `4` fits in neither `8` nor `7` (capacity 10): new bin; `2` fits: no new bin -/
example : ∀ s ∈ (⟨[8, 7], [[8], [7]]⟩ : Bins Nat).sums, 10 < s + id 4 :=
  (ff_new_bin_iff id 10 ⟨[8, 7], [[8], [7]]⟩ 4).1 (by decide)
example : (ffStep id 10 ⟨[8, 7], [[8], [7]]⟩ 4 : Bins Nat).sums.length = 3 := by decide
example : (ffStep id 10 ⟨[8, 7], [[8], [7]]⟩ 2 : Bins Nat).sums.length = 2 := by
  rw [ff_numbins_step]; decide

/-- **C09 (best fit), the "new bin" half** -/
theorem bf_new_bin_no_fit (v : α → Nat) (B : Nat) (b : Bins α) (x : α) :
    ((∀ s ∈ b.sums, B < s + v x) ∧ bfStep v B b x = (b.addEmpty 1).add v x b.sums.length ∧
        (bfStep v B b x).sums.length = b.sums.length + 1 ∧ (bfStep v B b x).lists.length = b.lists.length + 1) ∨
    ((∃ s ∈ b.sums, s + v x ≤ B) ∧ (bfStep v B b x).sums.length = b.sums.length ∧
        (bfStep v B b x).lists.length = b.lists.length) := by
  rcases Fit.bfStep_spec v B b x with ⟨i, hi, hfit, _, _, he⟩ | ⟨hno, he⟩
  · exact step_new_bin_no_fit (Or.inl ⟨i, hi, hfit, he⟩)
  · exact step_new_bin_no_fit (Or.inr ⟨hno, he⟩)

theorem bf_new_bin_iff (v : α → Nat) (B : Nat) (b : Bins α) (x : α) :
    (bfStep v B b x).sums.length = b.sums.length + 1 ↔ ∀ s ∈ b.sums, B < s + v x := by
  rcases bf_new_bin_no_fit v B b x with ⟨h1, _, h2, _⟩ | ⟨⟨s, hs, hfit⟩, h2, _⟩
  · exact ⟨fun _ => h1, fun _ => h2⟩
  · constructor
    · intro h; omega
    · intro h; have := h s hs; omega

theorem bf_numbins_step (v : α → Nat) (B : Nat) (b : Bins α) (x : α) :
    (bfStep v B b x).sums.length = if ∀ s ∈ b.sums, B < s + v x then b.sums.length + 1 else b.sums.length := by
  rcases bf_new_bin_no_fit v B b x with ⟨h1, _, h2, _⟩ | ⟨⟨s, hs, hfit⟩, h2, _⟩
  · rw [if_pos h1, h2]
  · rw [if_neg (fun h => by have := h s hs; omega), h2]

example : ∀ s ∈ (⟨[8, 7], [[8], [7]]⟩ : Bins Nat).sums, 10 < s + id 4 :=
  (bf_new_bin_iff id 10 ⟨[8, 7], [[8], [7]]⟩ 4).1 (by decide)
example : (bfStep id 10 ⟨[8, 7], [[8], [7]]⟩ 2 : Bins Nat).sums.length = 2 := by
  rw [bf_numbins_step]; decide

/-! ## 6. C03: exactly representable (dyadic) fractions -/

/-- **How fractional inputs are covered.**  The models compute on naturals.  A binary floating-point input whose
    values and bin size are multiples of `2^-j` (every finite `float` is such a dyadic fraction, and sums of such
    fractions below `2^53 · 2^-j` are computed exactly, without rounding) is the integer instance obtained by
    multiplying everything by `2^j`.  On that instance the run of first fit is, bin for bin, the run on the
    fractions: all the algorithm ever does with the values is add them and compare a sum with the bin size, and
    `s/2^j + x/2^j ≤ B/2^j ↔ s + x ≤ B` (`dyadic_fit_iff`).  Formally, for integer data `v`, `B`:
    the run on `2^j · v` with bin size `2^j · B` yields the same bins (same items in the same bins, in the same
    order) as the run on `v`, `B` — read: the run on the fractions `(2^j · v) / 2^j` with bin size
    `(2^j · B) / 2^j` — with every bin sum multiplied by `2^j`.  Instance `c = 2^j` of `Scale.ffOnline_scale`. -/
theorem ff_dyadic (v : α → Nat) (j B : Nat) (items : List α) :
    ffOnline (fun a => 2 ^ j * v a) (2 ^ j * B) items = (ffOnline v B items).map (Scale.scaleBins (2 ^ j)) :=
  Scale.ffOnline_scale v (Nat.two_pow_pos j) B items

/-- the same for first-fit-decreasing (the sort order of the fractions is that of the integers) -/
theorem ffd_dyadic (v : α → Nat) (j B : Nat) (items : List α) :
    ffDecreasing (fun a => 2 ^ j * v a) (2 ^ j * B) items =
      (ffDecreasing v B items).map (Scale.scaleBins (2 ^ j)) :=
  Scale.ffDecreasing_scale v (Nat.two_pow_pos j) B items

/-- the same for best fit -/
theorem bf_dyadic (v : α → Nat) (j B : Nat) (items : List α) :
    bfOnline (fun a => 2 ^ j * v a) (2 ^ j * B) items = (bfOnline v B items).map (Scale.scaleBins (2 ^ j)) :=
  Scale.bfOnline_scale v (Nat.two_pow_pos j) B items

/-- the same for best-fit-decreasing -/
theorem bfd_dyadic (v : α → Nat) (j B : Nat) (items : List α) :
    bfDecreasing (fun a => 2 ^ j * v a) (2 ^ j * B) items =
      (bfDecreasing v B items).map (Scale.scaleBins (2 ^ j)) :=
  Scale.bfDecreasing_scale v (Nat.two_pow_pos j) B items

/-- in particular the bins (contents) are literally the same, whatever the common denominator `2^j` -/
theorem ff_dyadic_lists (v : α → Nat) (j B : Nat) (items : List α) :
    (ffOnline (fun a => 2 ^ j * v a) (2 ^ j * B) items).map (·.lists) = (ffOnline v B items).map (·.lists) := by
  rw [ff_dyadic]
  cases ffOnline v B items <;> rfl

/-- the only comparison the fit heuristics make, on the fractions themselves -/
theorem dyadic_fit_iff (j s x B : Nat) :
    ((s : Rat) / 2 ^ j + (x : Rat) / 2 ^ j ≤ (B : Rat) / 2 ^ j) ↔ s + x ≤ B := by
  have h2 : (0 : Rat) < 2 ^ j := by positivity
  rw [← add_div, div_le_div_iff_of_pos_right h2]
  exact_mod_cast Iff.rfl

/-- non-vacuity: the fractions `0.75, 0.5, 0.25, 0.5` with bin size `1.0` are the integers `3, 2, 1, 2` with bin
    size `4` (`j = 2`): bins `[0.75, 0.25], [0.5, 0.5]` -/
example : ffOnline id 4 [3, 2, 1, 2] = .ok ⟨[4, 4], [[3, 1], [2, 2]]⟩ := by rfl
example : ffOnline (fun a => 2 ^ 3 * id a) (2 ^ 3 * 4) [3, 2, 1, 2] =
    (ffOnline id 4 [3, 2, 1, 2]).map (Scale.scaleBins (2 ^ 3)) := ff_dyadic id 3 4 [3, 2, 1, 2]
example : ffOnline (fun a => 2 ^ 3 * id a) (2 ^ 3 * 4) [3, 2, 1, 2] = .ok ⟨[32, 32], [[3, 1], [2, 2]]⟩ := by
  rfl
example : ((3 : Nat) : Rat) / 2 ^ 2 + ((1 : Nat) : Rat) / 2 ^ 2 ≤ ((4 : Nat) : Rat) / 2 ^ 2 :=
  (dyadic_fit_iff 2 3 1 4).2 (by decide)

end Prtpy.Gaps

/-
Axiom audit (output of `#print axioms` observed with `lake env lean`, Lean 4.33.0; `decide +kernel` occurs only in `example`s):

#print axioms Prtpy.Gaps.packable_perm  -- [propext, Classical.choice, Quot.sound]
#print axioms Prtpy.Gaps.packable_scale  -- [propext, Quot.sound]
#print axioms Prtpy.Gaps.optBins_congr  -- [propext, Classical.choice, Quot.sound]
#print axioms Prtpy.Gaps.optBins_perm  -- [propext, Classical.choice, Quot.sound]
#print axioms Prtpy.Gaps.optBins_scale  -- [propext, Classical.choice, Quot.sound]
#print axioms Prtpy.Gaps.bc_le_isPacking  -- [propext, Classical.choice, Quot.sound]
#print axioms Prtpy.Gaps.bc_le_ffd  -- [propext, Classical.choice, Quot.sound]
#print axioms Prtpy.Gaps.bc_le_bfd  -- [propext, Quot.sound]
#print axioms Prtpy.Gaps.bc_le_ffOnline  -- [propext, Classical.choice, Quot.sound]
#print axioms Prtpy.Gaps.bc_le_bfOnline  -- [propext, Classical.choice, Quot.sound]
#print axioms Prtpy.Gaps.bc_count_perm  -- [propext, Classical.choice, Quot.sound]
#print axioms Prtpy.Gaps.bc_count_scale  -- [propext, Classical.choice, Quot.sound]
#print axioms Prtpy.Gaps.bc_ok_scale  -- [propext, Classical.choice, Quot.sound]
#print axioms Prtpy.Gaps.dp_isPartition'  -- [propext, Classical.choice, Quot.sound]
#print axioms Prtpy.Gaps.dp_isPartition  -- [propext, Classical.choice, Quot.sound]
#print axioms Prtpy.Gaps.dp_total  -- [propext, Classical.choice, Quot.sound]
#print axioms Prtpy.Gaps.dp_spec  -- [propext, Classical.choice, Quot.sound]
#print axioms Prtpy.Gaps.ilpFinish_ok_iff  -- [propext]
#print axioms Prtpy.Gaps.ilpFinish_refuses  -- [propext]
#print axioms Prtpy.Gaps.ilpFinish_error_kind  -- [propext]
#print axioms Prtpy.Gaps.ilp_end_to_end  -- [propext, Classical.choice, Quot.sound]
#print axioms Prtpy.Gaps.ff_new_bin_no_fit  -- [propext, Classical.choice, Quot.sound]
#print axioms Prtpy.Gaps.ff_new_bin_iff  -- [propext, Classical.choice, Quot.sound]
#print axioms Prtpy.Gaps.ff_numbins_step  -- [propext, Classical.choice, Quot.sound]
#print axioms Prtpy.Gaps.bf_new_bin_no_fit  -- [propext, Classical.choice, Quot.sound]
#print axioms Prtpy.Gaps.bf_new_bin_iff  -- [propext, Classical.choice, Quot.sound]
#print axioms Prtpy.Gaps.bf_numbins_step  -- [propext, Classical.choice, Quot.sound]
#print axioms Prtpy.Gaps.ff_dyadic  -- [propext, Quot.sound]
#print axioms Prtpy.Gaps.ffd_dyadic  -- [propext, Quot.sound]
#print axioms Prtpy.Gaps.bf_dyadic  -- [propext, Classical.choice, Quot.sound]
#print axioms Prtpy.Gaps.bfd_dyadic  -- [propext, Classical.choice, Quot.sound]
#print axioms Prtpy.Gaps.ff_dyadic_lists  -- [propext, Quot.sound]
#print axioms Prtpy.Gaps.dyadic_fit_iff  -- [propext, Classical.choice, Quot.sound]
-/
