/-
  PrtpyProofs.CKKValid — validity (C01) of complete Karmarkar–Karp (`ckk`) and of its generator (`ckkGen`),
  strict improvement of the generator in improve-only mode (C11), and the validity of `rnp` (numbins ≤ 5)
  relative to that of the 2-way search it calls (`rnp_isPartition_of`; the unconditional `snp_isPartition'`,
  `rnp_isPartition` and `ckkValid` are in PrtpyProofs/CKKFSwitch.lean since fix F11).
-/
import Prtpy
import PrtpyProofs.Part
import PrtpyProofs.Obj
import PrtpyProofs.Oracle
import PrtpyProofs.CKK
import PrtpyProofs.SNP
import Mathlib.Data.List.Perm.Basic

namespace Prtpy.CKKValid
open Prtpy
variable {α : Type}

theorem foldl_push_mem (h2 : Heap α) (combs : List (Bins α)) (acc : List (Heap α) × Nat) :
    ∀ h' ∈ (combs.foldl (fun (acc : List (Heap α) × Nat) nb =>
                      let p := hpush h2 acc.2 nb; (acc.1 ++ [p.1], p.2)) acc).1,
      h' ∈ acc.1 ∨ ∃ nb ∈ combs, ∃ c, h' = (hpush h2 c nb).1 := by
  induction combs generalizing acc with
  | nil => intro h' hh; exact Or.inl hh
  | cons nb rest ih =>
    intro h' hh
    simp only [List.foldl_cons] at hh
    rcases ih _ h' hh with h1 | ⟨nb', hnb', c, hc⟩
    · simp only [List.mem_append, List.mem_singleton] at h1
      rcases h1 with h1 | h1
      · exact Or.inl h1
      · exact Or.inr ⟨nb, List.mem_cons_self, acc.2, h1⟩
    · exact Or.inr ⟨nb', List.mem_cons_of_mem _ hnb', c, hc⟩

/-- what one iteration of the search loop can do -/
def StepRel (nm : α → Nat) [BEq α] (contents gen isBest : Bool) (s s' : CkkState α) : Prop :=
    (∀ h' ∈ s'.stack, h' ∈ s.stack ∨
        ∃ h e1 h1 e2 h2 nb c, h ∈ s.stack ∧ hpop h = some (e1, h1) ∧ hpop h1 = some (e2, h2) ∧
          nb ∈ allComb nm contents e1.bins e2.bins ∧ h' = (hpush h2 c nb).1) ∧
    ((s'.best = s.best ∧ s'.yields = s.yields ∧ s'.bestP = s.bestP) ∨
     ∃ e, [e] ∈ s.stack ∧ EInt.lt s.best (.fin (-(e.diff : Int))) = true ∧
       s'.best = (if isBest || !gen then .fin (-(e.diff : Int)) else s.best) ∧
       s'.yields = e.bins :: s.yields ∧ s'.bestP = some e.bins)

/-- the part of `ckkStep` after the heap `h` has been popped off the stack and has survived the bound test -/
def stepBody (nm : α → Nat) [BEq α] (contents gen isBest : Bool) (h : Heap α) (s : CkkState α) : CkkState α :=
    if h.length == 1 then
      let d : Int := -((topDiffOf h : Nat) : Int)
      if EInt.lt s.best (.fin d) then
        let bp := (htop h).map (·.bins)
        let s := { s with best := if isBest || !gen then .fin d else s.best, bestP := bp,
                          yields := match bp with | some b => b :: s.yields | none => s.yields }
        if d == 0 && (isBest || !gen) then { s with done := true } else s
      else s
    else
      match hpop h with
      | none => s
      | some (e1, h1) =>
        match hpop h1 with
        | none => s
        | some (e2, h2) =>
          let combs := allComb nm contents e1.bins e2.bins
          let r := combs.foldl (fun (acc : List (Heap α) × Nat) nb =>
                      let p := hpush h2 acc.2 nb; (acc.1 ++ [p.1], p.2)) ([], s.cnt)
          let ext := sortDesc topDiffOf r.1
          { s with stack := ext.reverse ++ s.stack, cnt := r.2 }

def prunedB (k : Nat) (h : Heap α) (best : EInt) : Bool :=
  match ckkBound h k with
  | none => false
  | some lb => EInt.le (.fin lb) best

theorem ckkStep_eq (nm : α → Nat) [BEq α] (k : Nat) (contents gen isBest : Bool) (s : CkkState α) :
    ckkStep nm k contents gen isBest s =
      match s.stack with
      | [] => { s with done := true }
      | h :: stack =>
        if prunedB k h s.best then { s with stack := stack }
        else stepBody nm contents gen isBest h { s with stack := stack } := by
  unfold ckkStep stepBody prunedB
  rfl

theorem topDiffOf_singleton (e : HEntry α) : topDiffOf [e] = e.diff := rfl

theorem stepBody_cases (nm : α → Nat) [BEq α] (contents gen isBest : Bool) (h : Heap α) (s : CkkState α) :
    StepRel nm contents gen isBest { s with stack := h :: s.stack } (stepBody nm contents gen isBest h s) := by
  unfold stepBody
  split
  · rename_i hlen
    simp only []
    split
    · rename_i hlt
      obtain ⟨e, rfl⟩ : ∃ e, h = [e] := by
        match h, hlen with
        | [e], _ => exact ⟨e, rfl⟩
      split
      · exact ⟨fun h' hh => Or.inl (List.mem_cons_of_mem _ hh),
          Or.inr ⟨e, List.mem_cons_self, hlt, rfl, rfl, rfl⟩⟩
      · exact ⟨fun h' hh => Or.inl (List.mem_cons_of_mem _ hh),
          Or.inr ⟨e, List.mem_cons_self, hlt, rfl, rfl, rfl⟩⟩
    · exact ⟨fun h' hh => Or.inl (List.mem_cons_of_mem _ hh), Or.inl ⟨rfl, rfl, rfl⟩⟩
  · split
    · exact ⟨fun h' hh => Or.inl (List.mem_cons_of_mem _ hh), Or.inl ⟨rfl, rfl, rfl⟩⟩
    · rename_i e1 h1 hp1
      split
      · exact ⟨fun h' hh => Or.inl (List.mem_cons_of_mem _ hh), Or.inl ⟨rfl, rfl, rfl⟩⟩
      · rename_i e2 h2 hp2
        refine ⟨?_, Or.inl ⟨rfl, rfl, rfl⟩⟩
        intro h' hh
        simp only [List.mem_append, List.mem_reverse] at hh
        rcases hh with hh | hh
        · rw [(Part.sortDesc_perm _ _).mem_iff] at hh
          rcases foldl_push_mem h2 _ _ h' hh with h0 | ⟨nb, hnb, c, hc⟩
          · cases h0
          · exact Or.inr ⟨h, e1, h1, e2, h2, nb, c, List.mem_cons_self, hp1, hp2, hnb, hc⟩
        · exact Or.inl (List.mem_cons_of_mem _ hh)

theorem ckkStep_cases (nm : α → Nat) [BEq α] (k : Nat) (contents gen isBest : Bool) (s : CkkState α) :
    StepRel nm contents gen isBest s (ckkStep nm k contents gen isBest s) := by
  rw [ckkStep_eq]
  split
  · exact ⟨fun h' hh => Or.inl hh, Or.inl ⟨rfl, rfl, rfl⟩⟩
  · rename_i h stack hst
    have hsub : ∀ h' ∈ stack, h' ∈ s.stack := fun h' hh => by rw [hst]; exact List.mem_cons_of_mem _ hh
    cases prunedB k h s.best
    · have := stepBody_cases nm contents gen isBest h { s with stack := stack }
      simp only [← hst] at this
      exact this
    · exact ⟨fun h' hh => Or.inl (hsub h' hh), Or.inl ⟨rfl, rfl, rfl⟩⟩

/-! ## The heap invariant -/

/-- a heap entry is well formed: `k` bins, sums describe the bins, sums ascending, key = last − first -/
def EOK (v : α → Nat) (k : Nat) (e : HEntry α) : Prop :=
  e.bins.lists.length = k ∧ e.bins.Consistent v ∧ e.bins.sums.Pairwise (· ≤ ·) ∧
    e.diff = lastD e.bins.sums 0 - e.bins.sums.headD 0

/-- the Karmarkar–Karp heap invariant: the entries together hold exactly the items -/
def HInv (v : α → Nat) (k : Nat) (items : List α) (h : Heap α) : Prop :=
  (h.flatMap (fun e => e.bins.lists.flatten)).Perm items ∧ ∀ e ∈ h, EOK v k e

theorem hpush_inv {v : α → Nat} {k : Nat} {done : List α} {h : Heap α} (c : Nat) {b : Bins α}
    (hh : HInv v k done h) (hl : b.lists.length = k) (hc : b.Consistent v) :
    HInv v k (done ++ b.lists.flatten) (hpush h c b).1 := by
  have hlen := Part.consistent_length v hc
  refine ⟨?_, ?_⟩
  · simp only [hpush, List.flatMap_append, List.flatMap_cons, List.flatMap_nil, List.append_nil]
    exact hh.1.append (Part.sortAsc_flat_perm b hlen)
  · intro e he
    simp only [hpush, List.mem_append, List.mem_singleton] at he
    rcases he with he | rfl
    · exact hh.2 e he
    · exact ⟨by rw [Part.sortAsc_lists_length b hlen, hl], Part.sortAsc_consistent v b hc,
        Part.sortAsc_sums_sorted b, rfl⟩

theorem pushAll_inv {v : α → Nat} {k : Nat} (hk : 0 < k) (xs : List α) (h : Heap α) (c : Nat) (done : List α)
    (hh : HInv v k done h) : HInv v k (done ++ xs) (pushAll v k xs h c).1 := by
  induction xs generalizing h c done with
  | nil => simpa [pushAll] using hh
  | cons x xs ih =>
    simp only [pushAll]
    obtain ⟨⟨hs1, hs2, _⟩, hs3⟩ := Part.single_preInv v (k := k) (M := v x) hk x (Nat.le_refl _)
    have hp := hpush_inv c hh hs1 hs2
    have hp' : HInv v k (done ++ [x]) (hpush h c (single v k x)).1 :=
      ⟨hp.1.trans (List.Perm.append_left done hs3), hp.2⟩
    have := ih _ (hpush h c (single v k x)).2 (done ++ [x]) hp'
    simpa using this

theorem init_inv {v : α → Nat} {k : Nat} (hk : 0 < k) (items : List α) :
    HInv v k items (pushAll v k (sortDesc v items) [] 0).1 := by
  have := pushAll_inv (v := v) hk (sortDesc v items) [] 0 [] ⟨by simp, by simp⟩
  simp only [List.nil_append] at this
  exact ⟨this.1.trans (Part.sortDesc_perm v items), this.2⟩

/-! ## `all_combinations` (contents manager) preserves the invariant -/

theorem getD_map_binSum (v : α → Nat) (ls : List (List α)) (p : Nat) :
    (ls.map (binSum v)).getD p 0 = binSum v (ls.getD p []) := by
  simp only [List.getD_eq_getElem?_getD, List.getElem?_map]
  cases ls[p]? <;> rfl

theorem map_getD_range {β : Type} (l : List β) (d : β) :
    (List.range l.length).map (fun p => l.getD p d) = l := by
  apply List.ext_getElem
  · simp
  · intro i h1 h2
    simp only [List.length_map, List.length_range] at h1
    simp [List.getD_eq_getElem?_getD, List.getElem?_eq_getElem h1]

theorem map_getD_perm {β : Type} (l : List β) (d : β) {perm : List Nat}
    (hp : perm.Perm (List.range l.length)) : (perm.map (fun p => l.getD p d)).Perm l :=
  (hp.map _).trans (List.Perm.of_eq (map_getD_range l d))

theorem pairBy_lists (b1 b2 : Bins α) (perm : List Nat) :
    (pairBy b1 b2 perm).lists = List.zipWith (· ++ ·) (perm.map (fun p => b1.lists.getD p [])) b2.lists := by
  simp only [pairBy, List.zipWith_map_left]

theorem pairBy_consistent (v : α → Nat) {b1 b2 : Bins α} (perm : List Nat) (h1 : b1.Consistent v)
    (h2 : b2.Consistent v) : (pairBy b1 b2 perm).Consistent v := by
  unfold Bins.Consistent at *
  rw [pairBy_lists, ← Part.zipWith_map_binSum, List.map_map]
  simp only [pairBy, h1, h2]
  rw [List.zipWith_map_left]
  congr 1
  funext p s2
  simp only [Function.comp, getD_map_binSum]

theorem pairBy_length {k : Nat} {b1 b2 : Bins α} {perm : List Nat}
    (h2 : b2.lists.length = k) (hp : perm.Perm (List.range k)) : (pairBy b1 b2 perm).lists.length = k := by
  have := hp.length_eq
  simp only [List.length_range] at this
  simp [pairBy, h2, this]

theorem pairBy_flat_perm {k : Nat} {b1 b2 : Bins α} {perm : List Nat} (h1 : b1.lists.length = k)
    (h2 : b2.lists.length = k) (hp : perm.Perm (List.range k)) :
    (pairBy b1 b2 perm).lists.flatten.Perm (b1.lists.flatten ++ b2.lists.flatten) := by
  rw [pairBy_lists]
  have hl := hp.length_eq
  simp only [List.length_range] at hl
  refine (Part.zipWith_append_flatten_perm _ _ (by simp [hl, h2])).trans ?_
  exact List.Perm.append_right _ (map_getD_perm b1.lists [] (h1 ▸ hp)).flatten

theorem flatten_map_perm {f : List α → List α} (hf : ∀ l, (f l).Perm l) (ls : List (List α)) :
    (ls.map f).flatten.Perm ls.flatten := by
  induction ls with
  | nil => exact List.Perm.refl _
  | cons l ls ih => simp only [List.map_cons, List.flatten_cons]; exact (hf l).append ih

/-- the canonical form `all_combinations` gives to a pairing -/
def canonC (nm : α → Nat) (b1 b2 : Bins α) (perm : List Nat) : Bins α :=
  (Bins.mk (pairBy b1 b2 perm).sums ((pairBy b1 b2 perm).lists.map (sortAsc nm))).sortAsc

theorem canonC_spec (v nm : α → Nat) {k : Nat} {b1 b2 : Bins α} {perm : List Nat}
    (h1 : b1.lists.length = k) (c1 : b1.Consistent v) (h2 : b2.lists.length = k) (c2 : b2.Consistent v)
    (hp : perm.Perm (List.range k)) :
    (canonC nm b1 b2 perm).lists.length = k ∧ (canonC nm b1 b2 perm).Consistent v ∧
      (canonC nm b1 b2 perm).sums.Pairwise (· ≤ ·) ∧
      (canonC nm b1 b2 perm).lists.flatten.Perm (b1.lists.flatten ++ b2.lists.flatten) := by
  have hc := pairBy_consistent v perm c1 c2
  have hq : (Bins.mk (pairBy b1 b2 perm).sums ((pairBy b1 b2 perm).lists.map (sortAsc nm))).Consistent v := by
    unfold Bins.Consistent at hc ⊢
    simp only [List.map_map]
    rw [hc]
    apply List.map_congr_left
    intro l _
    exact (Part.binSum_perm v (Part.sortAsc_perm nm l)).symm
  have hql := Part.consistent_length v hq
  unfold canonC
  refine ⟨?_, Part.sortAsc_consistent v _ hq, Part.sortAsc_sums_sorted _, ?_⟩
  · rw [Part.sortAsc_lists_length _ hql]
    simp only [List.length_map]
    exact pairBy_length h2 hp
  · refine (Part.sortAsc_flat_perm _ hql).trans ?_
    exact (flatten_map_perm (Part.sortAsc_perm nm) _).trans (pairBy_flat_perm h1 h2 hp)

theorem mem_allCombContentsAux (nm : α → Nat) [BEq α] (b1 b2 : Bins α) (perms : List (List Nat))
    (acc : List (Bins α)) (nb : Bins α) (h : nb ∈ allCombContentsAux nm b1 b2 perms acc) :
    nb ∈ acc ∨ ∃ perm ∈ perms, nb = canonC nm b1 b2 perm := by
  induction perms generalizing acc with
  | nil => left; simpa [allCombContentsAux] using h
  | cons perm rest ih =>
    simp only [allCombContentsAux] at h
    split at h
    · rcases ih acc h with h | ⟨p, hp, rfl⟩
      · exact Or.inl h
      · exact Or.inr ⟨p, List.mem_cons_of_mem _ hp, rfl⟩
    · rcases ih _ h with h | ⟨p, hp, rfl⟩
      · rcases List.mem_cons.1 h with rfl | h
        · exact Or.inr ⟨perm, List.mem_cons_self, rfl⟩
        · exact Or.inl h
      · exact Or.inr ⟨p, List.mem_cons_of_mem _ hp, rfl⟩

theorem allCombContents_sound (nm : α → Nat) [BEq α] {b1 b2 nb : Bins α}
    (h : nb ∈ allCombContents nm b1 b2) :
    ∃ perm : List Nat, perm.Perm (List.range b1.sums.length) ∧ nb = canonC nm b1 b2 perm := by
  rcases mem_allCombContentsAux nm b1 b2 _ [] nb h with h | ⟨p, hp, rfl⟩
  · cases h
  · exact ⟨p, CKKProofs.lexPerms_perm hp, rfl⟩

/-! ## The search-state invariant -/

/-- a valid partition whose sums are ascending -/
def POK (v : α → Nat) (k : Nat) (items : List α) (b : Bins α) : Prop :=
  IsPartition v items k b ∧ b.sums.Pairwise (· ≤ ·)

structure SInv (v : α → Nat) (k : Nat) (items : List α) (s : CkkState α) : Prop where
  stack : ∀ h ∈ s.stack, HInv v k items h
  bestP : ∀ b, s.bestP = some b → POK v k items b
  yields : ∀ b ∈ s.yields, POK v k items b

theorem hinv_singleton {v : α → Nat} {k : Nat} {items : List α} {e : HEntry α} (h : HInv v k items [e]) :
    POK v k items e.bins ∧ e.diff = spread e.bins.sums := by
  obtain ⟨h1, h2⟩ := h
  obtain ⟨l, c, s, d⟩ := h2 e List.mem_cons_self
  simp only [List.flatMap_cons, List.flatMap_nil, List.append_nil] at h1
  refine ⟨⟨⟨h1, l, c⟩, s⟩, ?_⟩
  rw [d, Obj.lastD_eq_maxL s, Obj.headD_eq_minL s]
  rfl

theorem hinv_combine {v : α → Nat} {k : Nat} {items : List α} {h h1 h2 : Heap α} {e1 e2 : HEntry α}
    (hh : HInv v k items h) (hp1 : hpop h = some (e1, h1)) (hp2 : hpop h1 = some (e2, h2)) (c : Nat)
    {nb : Bins α} (hl : nb.lists.length = k) (hc : nb.Consistent v)
    (hf : nb.lists.flatten.Perm (e1.bins.lists.flatten ++ e2.bins.lists.flatten)) :
    HInv v k items (hpush h2 c nb).1 := by
  have hperm : h.Perm (e1 :: e2 :: h2) := (Part.hpop_perm hp1).trans ((Part.hpop_perm hp2).cons e1)
  have hh2 : HInv v k (h2.flatMap (fun e => e.bins.lists.flatten)) h2 :=
    ⟨List.Perm.refl _, fun e he => hh.2 e (hperm.mem_iff.2 (by simp [he]))⟩
  have q := hpush_inv c hh2 hl hc
  refine ⟨q.1.trans ?_, q.2⟩
  have hfl := (hperm.flatMap_right (fun e => e.bins.lists.flatten)).symm.trans hh.1
  simp only [List.flatMap_cons] at hfl
  refine List.Perm.trans ?_ hfl
  refine (List.Perm.append_left _ hf).trans ?_
  exact List.perm_append_comm.trans (by rw [List.append_assoc])

theorem hinv_pop2 {v : α → Nat} {k : Nat} {items : List α} {h h1 h2 : Heap α} {e1 e2 : HEntry α}
    (hh : HInv v k items h) (hp1 : hpop h = some (e1, h1)) (hp2 : hpop h1 = some (e2, h2)) :
    EOK v k e1 ∧ EOK v k e2 := by
  have hperm : h.Perm (e1 :: e2 :: h2) := (Part.hpop_perm hp1).trans ((Part.hpop_perm hp2).cons e1)
  exact ⟨hh.2 e1 (hperm.mem_iff.2 (by simp)), hh.2 e2 (hperm.mem_iff.2 (by simp))⟩

theorem ckkStep_inv {v nm : α → Nat} [BEq α] {k : Nat} {items : List α} (gen isBest : Bool) {s : CkkState α}
    (hs : SInv v k items s) : SInv v k items (ckkStep nm k true gen isBest s) := by
  obtain ⟨hst, hy⟩ := ckkStep_cases nm k true gen isBest s
  have hnew : ∀ e, [e] ∈ s.stack → POK v k items e.bins := fun e he => (hinv_singleton (hs.stack _ he)).1
  refine ⟨?_, ?_, ?_⟩
  · intro h' hh'
    rcases hst h' hh' with hin | ⟨h, e1, h1, e2, h2, nb, c, hin, hp1, hp2, hnb, rfl⟩
    · exact hs.stack h' hin
    · have hh := hs.stack h hin
      obtain ⟨⟨l1, c1, _, _⟩, ⟨l2, c2, _, _⟩⟩ := hinv_pop2 hh hp1 hp2
      simp only [allComb, if_true] at hnb
      obtain ⟨perm, hperm, rfl⟩ := allCombContents_sound nm hnb
      rw [Part.consistent_length v c1, l1] at hperm
      obtain ⟨q1, q2, _, q4⟩ := canonC_spec v nm l1 c1 l2 c2 hperm
      exact hinv_combine hh hp1 hp2 c q1 q2 q4
  · intro b hb
    rcases hy with ⟨_, _, h3⟩ | ⟨e, he, _, _, _, h3⟩
    · exact hs.bestP b (h3 ▸ hb)
    · rw [h3] at hb; cases hb; exact hnew e he
  · intro b hb
    rcases hy with ⟨_, h2, _⟩ | ⟨e, he, _, _, h2, _⟩
    · exact hs.yields b (h2 ▸ hb)
    · rw [h2] at hb
      rcases List.mem_cons.1 hb with rfl | hb
      · exact hnew e he
      · exact hs.yields b hb

theorem ckkRun_inv (nm : α → Nat) [BEq α] (k : Nat) (contents gen isBest : Bool) (P : CkkState α → Prop)
    (hstep : ∀ s, P s → P (ckkStep nm k contents gen isBest s)) :
    ∀ (fuel : Nat) (s : CkkState α), P s → P (ckkRun nm k contents gen isBest fuel s) := by
  intro fuel
  induction fuel with
  | zero => intro s hs; exact hs
  | succ n ih =>
    intro s hs
    simp only [ckkRun]
    split
    · exact hs
    · exact ih _ (hstep s hs)

theorem ckkInit_inv {v : α → Nat} {k : Nat} (hk : 0 < k) (items : List α) (best : EInt) :
    SInv v k items (ckkInit v k items best) := by
  refine ⟨?_, ?_, ?_⟩
  · intro h hh
    simp only [ckkInit, List.mem_singleton] at hh
    subst hh
    exact init_inv hk items
  · intro b hb; simp [ckkInit] at hb
  · intro b hb; simp [ckkInit] at hb

theorem sortAsc_isPartition {v : α → Nat} {k : Nat} {items : List α} {b : Bins α} (h : IsPartition v items k b) :
    IsPartition v items k b.sortAsc := by
  obtain ⟨h1, h2, h3⟩ := h
  have hl := Part.consistent_length v h3
  exact ⟨(Part.sortAsc_flat_perm b hl).trans h1, by rw [Part.sortAsc_lists_length b hl, h2],
    Part.sortAsc_consistent v b h3⟩

/-! ## Main theorems: validity of CKK and of its generator (contents manager) -/

/-- C01 for complete Karmarkar–Karp (`optimal`).  (`items ≠ []` is not needed: on an empty input the model
    returns an error.) -/
theorem ckk_isPartition {v nm : α → Nat} [BEq α] {k : Nat} {items : List α} {fuel : Nat} {b : Bins α}
    (hk : 0 < k) (h : ckk v nm k true items fuel = .ok b) : IsPartition v items k b := by
  unfold ckk at h
  have hinv := ckkRun_inv nm k true false true (SInv v k items) (fun s hs => ckkStep_inv false true hs) fuel _
    (ckkInit_inv hk items .negInf)
  simp only [] at h
  split at h
  · cases h
  · split at h
    · cases h
    · rename_i b0 hb0
      cases h
      exact sortAsc_isPartition (hinv.bestP b0 hb0).1

/- `ckkValid : SNPProofs.CkkValid v nm` (validity of the 2-way search that snp/rnp call, which after fix F11 is
   `ckkF`, not `ckk`) is in PrtpyProofs/CKKFSwitch.lean, downstream of PrtpyProofs/CKKF.lean. -/

example : IsPartition id [4, 5, 6, 7, 8] 3 ⟨[8, 11, 11], [[8], [5, 6], [4, 7]]⟩ :=
  ckk_isPartition (nm := id) (fuel := 100) (by decide) rfl

/-- C11 (validity part): every partition yielded by the generator, for any initial bound, is valid and has
    ascending sums -/
theorem ckkGen_yields {v nm : α → Nat} [BEq α] {k : Nat} {items : List α} {bound : Option Nat} {fuel : Nat}
    {ys : List (Bins α)} (hk : 0 < k) (h : ckkGen v nm k true items bound fuel = .ok ys) :
    ∀ b ∈ ys, IsPartition v items k b ∧ b.sums.Pairwise (· ≤ ·) := by
  have key : ∀ best : EInt, ∀ b ∈ (ckkRun nm k true true bound.isNone fuel (ckkInit v k items best)).yields,
      POK v k items b := fun best =>
    (ckkRun_inv nm k true true bound.isNone (SInv v k items) (fun s hs => ckkStep_inv true _ hs) fuel _
      (ckkInit_inv hk items best)).yields
  unfold ckkGen at h
  cases bound with
  | none =>
    simp only [] at h
    split at h
    · cases h
    · cases h
      intro b hb
      exact key _ b (List.mem_reverse.1 hb)
  | some d =>
    simp only [] at h
    split at h
    · cases h
    · cases h
      intro b hb
      exact key _ b (List.mem_reverse.1 hb)

theorem ckkGen_valid (v nm : α → Nat) [BEq α] : SNPProofs.CkkGenValid v nm :=
  fun _ _ _ _ _ hk _ h b hb => (ckkGen_yields hk h b hb).1

example : ∀ b ∈ [(⟨[14, 16], [[6, 8], [4, 5, 7]]⟩ : Bins Nat), ⟨[15, 15], [[4, 5, 6], [7, 8]]⟩],
    IsPartition id [4, 5, 6, 7, 8] 2 b :=
  fun b hb => (ckkGen_yields (nm := id) (bound := some 3) (fuel := 100) (by decide) rfl b hb).1

/-! ### improve-only mode: strictly decreasing differences -/

/-- the yields (most recent first) have strictly increasing spreads, and the incumbent difference is the
    most recent one -/
def Strict (s : CkkState α) : Prop :=
  s.yields.Pairwise (fun a b => spread a.sums < spread b.sums) ∧
    ∀ y ∈ s.yields, ∃ d : Int, s.best = .fin d ∧ -d ≤ (spread y.sums : Int)

/-- one step preserves `Strict`, in either manager, as soon as the key of a one-entry heap is the spread of
    its tuple -/
theorem strict_step {nm : α → Nat} [BEq α] {contents : Bool} {s s' : CkkState α}
    (hrel : StepRel nm contents true true s s') (hdiff : ∀ e, [e] ∈ s.stack → e.diff = spread e.bins.sums)
    (hs : Strict s) : Strict s' := by
  obtain ⟨_, hy⟩ := hrel
  obtain ⟨hpw, hbest⟩ := hs
  rcases hy with ⟨h1, h2, _⟩ | ⟨e, he, hlt, h1, h2, _⟩
  · unfold Strict
    rw [h1, h2]
    exact ⟨hpw, hbest⟩
  · have hd := hdiff e he
    simp only [Bool.true_or, if_true] at h1
    have key : ∀ y ∈ s.yields, spread e.bins.sums < spread y.sums := by
      intro y hy
      obtain ⟨d, hd1, hd2⟩ := hbest y hy
      rw [hd1] at hlt
      simp only [EInt.lt, EInt.le, Bool.not_eq_true', decide_eq_false_iff_not] at hlt
      omega
    unfold Strict
    rw [h1, h2]
    refine ⟨List.pairwise_cons.2 ⟨key, hpw⟩, ?_⟩
    intro y hy
    refine ⟨_, rfl, ?_⟩
    rcases List.mem_cons.1 hy with rfl | hy
    · omega
    · have := key y hy; omega

theorem ckkStep_strict {v nm : α → Nat} [BEq α] {k : Nat} {items : List α} {s : CkkState α}
    (hs : SInv v k items s ∧ Strict s) :
    SInv v k items (ckkStep nm k true true true s) ∧ Strict (ckkStep nm k true true true s) :=
  ⟨ckkStep_inv true true hs.1,
    strict_step (ckkStep_cases nm k true true true s) (fun _ he => (hinv_singleton (hs.1.stack _ he)).2) hs.2⟩

/-- C11 (strictness part): in improve-only mode (`bound = none`) the differences of the yielded partitions
    are strictly decreasing along the yield sequence -/
theorem ckkGen_strict {v nm : α → Nat} [BEq α] {k : Nat} {items : List α} {fuel : Nat}
    {ys : List (Bins α)} (hk : 0 < k) (h : ckkGen v nm k true items none fuel = .ok ys) :
    ys.Pairwise (fun a b => spread b.sums < spread a.sums) := by
  unfold ckkGen at h
  have hinv := ckkRun_inv nm k true true true (fun s => SInv v k items s ∧ Strict s)
    (fun s hs => ckkStep_strict hs) fuel _
    ⟨ckkInit_inv hk items .negInf, by simp [Strict, ckkInit]⟩
  simp only [Option.isNone_none] at h
  split at h
  · cases h
  · cases h
    exact List.pairwise_reverse.2 hinv.2.1

/-- the same, phrased with the key the heap uses: last sum − first sum of the (ascending) tuple -/
theorem ckkGen_strict' {v nm : α → Nat} [BEq α] {k : Nat} {items : List α} {fuel : Nat}
    {ys : List (Bins α)} (hk : 0 < k) (h : ckkGen v nm k true items none fuel = .ok ys) :
    ys.Pairwise (fun a b => lastD b.sums 0 - b.sums.headD 0 < lastD a.sums 0 - a.sums.headD 0) := by
  have hs := ckkGen_yields hk h
  refine (ckkGen_strict hk h).imp_of_mem ?_
  intro a b ha hb hab
  rw [Obj.lastD_eq_maxL (hs a ha).2, Obj.headD_eq_minL (hs a ha).2, Obj.lastD_eq_maxL (hs b hb).2,
    Obj.headD_eq_minL (hs b hb).2]
  exact hab

example : [(⟨[14, 16], [[6, 8], [4, 5, 7]]⟩ : Bins Nat), ⟨[15, 15], [[4, 5, 6], [7, 8]]⟩].Pairwise
    (fun a b => spread b.sums < spread a.sums) :=
  ckkGen_strict (v := id) (nm := id) (k := 2) (items := [4, 5, 6, 7, 8]) (fuel := 100) (by decide) rfl

theorem kkValid (v : α → Nat) : SNPProofs.KkValid v := by
  intro k items b hk hne h
  obtain ⟨b', h1, h2⟩ := Part.kk_isPartition (v := v) hk hne
  rw [h1] at h
  cases h
  exact h2

example : IsPartition id [4, 5, 6, 7, 8] 3 ⟨[8, 11, 11], [[8], [4, 7], [5, 6]]⟩ :=
  kkValid id 3 [4, 5, 6, 7, 8] _ (by decide) (by decide) rfl

/-! ## Corollaries: SNP and RNP, relative to the validity of the 2-way search they call (`SNPProofs.CkkValid`)

  The unconditional statements `snp_isPartition'` and `rnp_isPartition` (same names, same namespace) are in
  PrtpyProofs/CKKFSwitch.lean: since fix F11 the 2-way search is `ckkF`, whose validity is proved in
  PrtpyProofs/CKKF.lean, which imports this file. -/

/-- the odd case of `rec_generate_sets`: one sub-collection is split off into a new prior bin, the rest is
    partitioned recursively; the result is the incumbent or a valid partition that includes the prior bins -/
theorem rnpRec_odd {v nm : α → Nat} [BEq α] [LawfulBEq α] {fuel rf cur : Nat} {prior best r : Bins α}
    {items : List α} (hodd : cur % 2 = 1)
    (hrec : ∀ (prior2 best' : Bins α) (rest : List α) (nb : Bins α),
      rnpRec v nm true fuel rf (cur - 1) prior2 best' rest = .ok nb →
        IsPartition v rest (cur - 1) nb ∨ nb = best')
    (hpc : prior.Consistent v)
    (h : rnpRec v nm true fuel (rf + 1) cur prior best items = .ok r) :
    IsPartition v (prior.lists.flatten ++ items) (prior.lists.length + cur) r ∨ r = best := by
  rw [rnpRec] at h
  have h2 : (cur == 2) = false := by
    cases hc : cur == 2 with
    | false => rfl
    | true => have := eq_of_beq hc; omega
  have h1 : (cur % 2 == 1) = true := by rw [hodd]; rfl
  simp only [h2, h1, Bool.false_eq_true, if_false, if_true] at h
  refine SNPProofs.foldE_inv
    (fun b : Bins α => IsPartition v (prior.lists.flatten ++ items) (prior.lists.length + cur) b ∨ b = best)
    _ _ ?_ best r (Or.inr rfl) h
  intro s sub s' hsub hs hstep
  cases hr : rnpRec v nm true fuel rf (cur - 1) ⟨prior.sums ++ [binSum v sub], prior.lists ++ [sub]⟩ s
      (findDiff items sub) with
  | error e => rw [hr] at hstep; cases hstep
  | ok nb =>
    rw [hr] at hstep
    simp only [] at hstep
    split at hstep
    · rename_i hlt
      cases hstep
      rcases hrec _ _ _ _ hr with hnb | rfl
      · left
        refine SNPProofs.isPartition_concat (i1 := prior.lists.flatten ++ sub) (k1 := prior.lists.length + 1)
          ⟨by simp, by simp, ?_⟩ hnb ?_ (by omega)
        · unfold Bins.Consistent at hpc
          simp only [List.map_append, hpc, List.map_cons, List.map_nil]
        · rw [List.append_assoc]
          exact (SNPProofs.findDiff_perm_of_subperm (SNPProofs.genTree_mem_subperm hsub)).append_left _
      · exact absurd hlt (Nat.not_lt.2 (SNPProofs.spread_le_append _ _))
    · cases hstep; exact hs

theorem rnpRec_three {v nm : α → Nat} [BEq α] [LawfulBEq α] (hckk : SNPProofs.CkkValid v nm)
    {fuel rf : Nat} {prior best r : Bins α} {items : List α} (hpc : prior.Consistent v)
    (h : rnpRec v nm true fuel rf 3 prior best items = .ok r) :
    IsPartition v (prior.lists.flatten ++ items) (prior.lists.length + 3) r ∨ r = best := by
  cases rf with
  | zero => simp only [rnpRec] at h; cases h
  | succ rf =>
    exact rnpRec_odd (cur := 3) rfl
      (fun _ _ _ _ hr => Or.inl (SNPProofs.rnpRec_two hckk hr)) hpc h

theorem rnpRec_five {v nm : α → Nat} [BEq α] [LawfulBEq α] (hckk : SNPProofs.CkkValid v nm)
    {fuel rf : Nat} {prior best r : Bins α} {items : List α} (hpc : prior.Consistent v)
    (h : rnpRec v nm true fuel rf 5 prior best items = .ok r) :
    IsPartition v (prior.lists.flatten ++ items) (prior.lists.length + 5) r ∨ r = best := by
  cases rf with
  | zero => simp only [rnpRec] at h; cases h
  | succ rf =>
    exact rnpRec_odd (cur := 5) rfl
      (fun _ _ _ _ hr => SNPProofs.rnpRec_four hckk (ckkGen_valid v nm) hr) hpc h

theorem spread_singleton (x : Nat) : spread [x] = 0 := by
  simp [spread, maxL, minL]

/-- C01 for `rnp` (numbins ≤ 5), relative to the validity of the 2-way search -/
theorem rnp_isPartition_of {v nm : α → Nat} [BEq α] [LawfulBEq α] (hckk : SNPProofs.CkkValid v nm)
    {k : Nat} {items : List α} {fuel : Nat} {b : Bins α} (hk : 0 < k) (hk5 : k ≤ 5) (hne : items ≠ [])
    (h : rnp v nm k true items fuel = .ok b) : IsPartition v items k b := by
  unfold rnp at h
  cases hb : kk v k items with
  | error e => rw [hb] at h; cases h
  | ok best =>
    rw [hb] at h
    have hbest := kkValid v k items best hk hne hb
    simp only [] at h
    split at h
    · cases h; exact hbest
    · rename_i hsp
      rw [if_neg (by omega)] at h
      have hnil : (⟨[], []⟩ : Bins α).Consistent v := rfl
      obtain rfl | rfl | rfl | rfl | rfl : k = 1 ∨ k = 2 ∨ k = 3 ∨ k = 4 ∨ k = 5 := by omega
      · exfalso
        apply hsp
        obtain ⟨_, hl, hc⟩ := hbest
        rw [hc]
        match hbl : best.lists, hl with
        | [l], _ => exact spread_singleton _
      · exact SNPProofs.rnpRec_two hckk h
      · rcases rnpRec_three hckk hnil h with hr | rfl
        · simpa using hr
        · exact hbest
      · rcases SNPProofs.rnpRec_four hckk (ckkGen_valid v nm) h with hr | rfl
        · exact hr
        · exact hbest
      · rcases rnpRec_five hckk hnil h with hr | rfl
        · simpa using hr
        · exact hbest

/-! ## Stretch: the sums-only manager (`contents = false`) -/

/-- what the heap discipline and the sums manager can see of an entry -/
def key (e : HEntry α) : Nat × Nat × List Nat := (e.diff, e.cnt, e.bins.sums)

/-- `g` is a ghost of `h`: same keys, counters and sums, entry by entry -/
def Sim (h g : Heap α) : Prop := h.map key = g.map key

theorem key_eq {e e' : HEntry α} (h : key e = key e') :
    e.diff = e'.diff ∧ e.cnt = e'.cnt ∧ e.bins.sums = e'.bins.sums := by
  simp only [key, Prod.mk.injEq] at h
  exact h

theorem before_key {e1 e2 e1' e2' : HEntry α} (h1 : key e1 = key e1') (h2 : key e2 = key e2') :
    e1.before e2 = e1'.before e2' := by
  obtain ⟨a1, a2, _⟩ := key_eq h1
  obtain ⟨b1, b2, _⟩ := key_eq h2
  simp only [HEntry.before, a1, a2, b1, b2]

theorem hbestAux_sim (es es' : List (HEntry α)) (i bi : Nat) (be be' : HEntry α)
    (hes : es.map key = es'.map key) (hbe : key be = key be') :
    hbestAux es i bi be = hbestAux es' i bi be' := by
  induction es generalizing es' i bi be be' with
  | nil =>
    cases es' with
    | nil => rfl
    | cons _ _ => simp at hes
  | cons e es ih =>
    cases es' with
    | nil => simp at hes
    | cons e' es' =>
      simp only [List.map_cons, List.cons.injEq] at hes
      simp only [hbestAux, before_key hes.1 hbe]
      split
      · exact ih es' (i + 1) i e e' hes.2 hes.1
      · exact ih es' (i + 1) bi be be' hes.2 hbe

theorem removeAt_map {β γ : Type} (f : β → γ) (l : List β) (i : Nat) :
    (removeAt l i).map f = removeAt (l.map f) i := by
  simp [removeAt, List.map_take, List.map_drop]

theorem hpop_sim {h g h' : Heap α} {e : HEntry α} (hs : Sim h g) (hp : hpop h = some (e, h')) :
    ∃ e' g', hpop g = some (e', g') ∧ key e = key e' ∧ Sim h' g' := by
  unfold Sim at hs
  cases h with
  | nil => simp [hpop, hbest] at hp
  | cons e0 es =>
    cases g with
    | nil => simp at hs
    | cons e0' es' =>
      have hs' := hs
      simp only [List.map_cons, List.cons.injEq] at hs'
      have hi := hbestAux_sim es es' 1 0 e0 e0' hs'.2 hs'.1
      simp only [hpop, hbest, Option.map_map] at hp ⊢
      rw [← hi]
      generalize hbestAux es 1 0 e0 = i at hp ⊢
      have hget : ((e0 :: es)[i]?).map key = ((e0' :: es')[i]?).map key := by
        rw [← List.getElem?_map, ← List.getElem?_map, hs]
      cases hx : (e0 :: es)[i]? with
      | none => rw [hx] at hp; cases hp
      | some x =>
        rw [hx] at hp hget
        simp only [Option.map_some, Function.comp, Option.some.injEq, Prod.mk.injEq] at hp
        obtain ⟨rfl, rfl⟩ := hp
        cases hx' : (e0' :: es')[i]? with
        | none => rw [hx'] at hget; cases hget
        | some x' =>
          rw [hx'] at hget
          simp only [Option.map_some, Option.some.injEq] at hget
          refine ⟨x', removeAt (e0' :: es') i, rfl, hget, ?_⟩
          unfold Sim
          rw [removeAt_map, removeAt_map, hs]

theorem binsSortAsc_sums (b : Bins α) (h : b.sums.length = b.lists.length) :
    b.sortAsc.sums = sortAsc id b.sums :=
  Obj.sorted_perm_eq (Part.sortAsc_sums_sorted b) (Obj.sortAsc_sorted b.sums)
    ((Part.sortAsc_sums_perm b h).trans (Part.sortAsc_perm id b.sums).symm)

theorem hpush_sim {h g : Heap α} (c : Nat) {b b' : Bins α} (hs : Sim h g) (hb : b.sums = b'.sums)
    (hl : b.sums.length = b.lists.length) (hl' : b'.sums.length = b'.lists.length) :
    Sim (hpush h c b).1 (hpush g c b').1 := by
  unfold Sim at *
  simp only [hpush, List.map_append, hs, List.map_cons, List.map_nil, key, binsSortAsc_sums b hl,
    binsSortAsc_sums b' hl', hb]

/-- sums and lists have the same number of bins (so that `Bins.sortAsc` loses nothing) -/
def Bal (h : Heap α) : Prop := ∀ e ∈ h, e.bins.sums.length = e.bins.lists.length

/-- `b` has the sums of some valid partition `g` with ascending sums -/
def Shadow (v : α → Nat) (k : Nat) (items : List α) (b : Bins α) : Prop :=
  (∃ g, POK v k items g ∧ g.sums = b.sums) ∧ b.sums.length = b.lists.length

theorem binsSortAsc_bal (b : Bins α) : b.sortAsc.sums.length = b.sortAsc.lists.length := by
  simp [Bins.sortAsc]

theorem hpush_bal {h : Heap α} (c : Nat) (b : Bins α) (hh : Bal h) : Bal (hpush h c b).1 := by
  intro e he
  simp only [hpush, List.mem_append, List.mem_singleton] at he
  rcases he with he | rfl
  · exact hh e he
  · exact binsSortAsc_bal b

/-- the sums-only search state is shadowed by valid heaps / partitions with contents -/
structure SInvS (v : α → Nat) (k : Nat) (items : List α) (s : CkkState α) : Prop where
  stack : ∀ h ∈ s.stack, (∃ g, HInv v k items g ∧ Sim h g) ∧ Bal h
  bestP : ∀ b, s.bestP = some b → Shadow v k items b
  yields : ∀ b ∈ s.yields, Shadow v k items b

theorem sim_singleton {v : α → Nat} {k : Nat} {items : List α} {e : HEntry α} {g : Heap α}
    (hg : HInv v k items g) (hs : Sim [e] g) :
    (∃ p, POK v k items p ∧ p.sums = e.bins.sums) ∧ e.diff = spread e.bins.sums := by
  unfold Sim at hs
  obtain ⟨e', rfl⟩ : ∃ e', g = [e'] := by
    have := congrArg List.length hs
    simp only [List.length_map, List.length_cons, List.length_nil] at this
    match g, this with
    | [e'], _ => exact ⟨e', rfl⟩
  · simp only [List.map_cons, List.map_nil, List.cons.injEq, and_true] at hs
    obtain ⟨h1, _, h3⟩ := key_eq hs
    obtain ⟨q1, q2⟩ := hinv_singleton hg
    exact ⟨⟨e'.bins, q1, h3.symm⟩, by rw [h1, q2, h3]⟩

theorem ckkStep_invS {v nm : α → Nat} [BEq α] {k : Nat} {items : List α} (gen isBest : Bool) {s : CkkState α}
    (hs : SInvS v k items s) : SInvS v k items (ckkStep nm k false gen isBest s) := by
  obtain ⟨hst, hy⟩ := ckkStep_cases nm k false gen isBest s
  have hnew : ∀ e, [e] ∈ s.stack → Shadow v k items e.bins := fun e he => by
    obtain ⟨⟨g, hg, hsim⟩, hbal⟩ := hs.stack _ he
    exact ⟨(sim_singleton hg hsim).1, hbal e List.mem_cons_self⟩
  refine ⟨?_, ?_, ?_⟩
  · intro h' hh'
    rcases hst h' hh' with hin | ⟨h, e1, h1, e2, h2, nb, c, hin, hp1, hp2, hnb, rfl⟩
    · exact hs.stack h' hin
    · obtain ⟨⟨g, hg, hsim⟩, hbal⟩ := hs.stack h hin
      have hbal2 : Bal h2 := fun e he => hbal e
        (((Part.hpop_perm hp1).trans ((Part.hpop_perm hp2).cons e1)).mem_iff.2 (by simp [he]))
      refine ⟨?_, hpush_bal c _ hbal2⟩
      obtain ⟨g1, gh1, hq1, hk1, hsim1⟩ := hpop_sim hsim hp1
      obtain ⟨g2, gh2, hq2, hk2, hsim2⟩ := hpop_sim hsim1 hp2
      obtain ⟨⟨l1, c1, _, _⟩, ⟨l2, c2, _, _⟩⟩ := hinv_pop2 hg hq1 hq2
      simp only [allComb, Bool.false_eq_true, if_false, List.mem_map] at hnb
      obtain ⟨ss, hss, rfl⟩ := hnb
      obtain ⟨perm, hperm, rfl⟩ := CKKProofs.allCombSums_sound (k := k)
        (by rw [(key_eq hk1).2.2, Part.consistent_length v c1, l1]) hss
      obtain ⟨q1, q2, _, q4⟩ := canonC_spec v (fun _ => 0) l1 c1 l2 c2 hperm
      refine ⟨_, hinv_combine hg hq1 hq2 c q1 q2 q4, ?_⟩
      refine hpush_sim c hsim2 ?_ (by simp) (Part.consistent_length v q2)
      have hpc := pairBy_consistent v perm c1 c2
      unfold canonC
      rw [binsSortAsc_sums _ (by simpa using Part.consistent_length v hpc)]
      simp only [pairBy, (key_eq hk1).2.2, (key_eq hk2).2.2]
  · intro b hb
    rcases hy with ⟨_, _, h3⟩ | ⟨e, he, _, _, _, h3⟩
    · exact hs.bestP b (h3 ▸ hb)
    · rw [h3] at hb; cases hb; exact hnew e he
  · intro b hb
    rcases hy with ⟨_, h2, _⟩ | ⟨e, he, _, _, h2, _⟩
    · exact hs.yields b (h2 ▸ hb)
    · rw [h2] at hb
      rcases List.mem_cons.1 hb with rfl | hb
      · exact hnew e he
      · exact hs.yields b hb

theorem ckkInit_invS {v : α → Nat} {k : Nat} (hk : 0 < k) (items : List α) (best : EInt) :
    SInvS v k items (ckkInit v k items best) := by
  refine ⟨?_, ?_, ?_⟩
  · intro h hh
    simp only [ckkInit, List.mem_singleton] at hh
    subst hh
    refine ⟨⟨_, init_inv hk items, rfl⟩, fun e he => ?_⟩
    exact Part.consistent_length v ((init_inv (v := v) hk items).2 e he).2.1
  · intro b hb; simp [ckkInit] at hb
  · intro b hb; simp [ckkInit] at hb

theorem shadow_assignment {v : α → Nat} {k : Nat} {items : List α} {b : Bins α} (h : Shadow v k items b) :
    (∃ asg, IsAssignment k items.length asg ∧ sumsOf k (items.map v) asg = b.sums) ∧
      b.sums.Pairwise (· ≤ ·) := by
  obtain ⟨⟨g, ⟨hg, hsorted⟩, hgs⟩, _⟩ := h
  obtain ⟨asg, h1, h2⟩ := Oracle.partition_sums_assignment v items g hg
  exact ⟨⟨asg, h1, h2.trans hgs⟩, hgs ▸ hsorted⟩

/-- C01 for the sums-only manager: the sums returned by `ckk` are the (ascending) sums of a partition of the
    items into `k` bins -/
theorem ckk_sums_valid {v nm : α → Nat} [BEq α] {k : Nat} {items : List α} {fuel : Nat} {b : Bins α}
    (hk : 0 < k) (h : ckk v nm k false items fuel = .ok b) :
    ∃ asg, IsAssignment k items.length asg ∧ sumsOf k (items.map v) asg = b.sums := by
  unfold ckk at h
  have hinv := ckkRun_inv nm k false false true (SInvS v k items) (fun s hs => ckkStep_invS false true hs) fuel _
    (ckkInit_invS hk items .negInf)
  simp only [] at h
  split at h
  · cases h
  · split at h
    · cases h
    · rename_i b0 hb0
      cases h
      have hsh := hinv.bestP b0 hb0
      obtain ⟨hasg, hsorted⟩ := shadow_assignment hsh
      rw [binsSortAsc_sums b0 hsh.2, Obj.sortAsc_of_sorted hsorted]
      exact hasg

/-- the `Perm` form -/
theorem ckk_sums_valid_perm {v nm : α → Nat} [BEq α] {k : Nat} {items : List α} {fuel : Nat} {b : Bins α}
    (hk : 0 < k) (h : ckk v nm k false items fuel = .ok b) :
    ∃ asg, IsAssignment k items.length asg ∧ (sumsOf k (items.map v) asg).Perm b.sums := by
  obtain ⟨asg, h1, h2⟩ := ckk_sums_valid hk h
  exact ⟨asg, h1, h2 ▸ List.Perm.refl _⟩

example : ∃ asg, IsAssignment 3 5 asg ∧ sumsOf 3 [4, 5, 6, 7, 8] asg = [8, 11, 11] :=
  ckk_sums_valid (v := id) (nm := id) (items := [4, 5, 6, 7, 8]) (fuel := 100)
    (b := ⟨[8, 11, 11], [[], [], []]⟩) (by decide) rfl

/-- C11 for the sums-only manager: every yielded tuple of sums is the (ascending) sums of a partition -/
theorem ckkGen_sums_valid {v nm : α → Nat} [BEq α] {k : Nat} {items : List α} {bound : Option Nat} {fuel : Nat}
    {ys : List (Bins α)} (hk : 0 < k) (h : ckkGen v nm k false items bound fuel = .ok ys) :
    ∀ b ∈ ys, (∃ asg, IsAssignment k items.length asg ∧ sumsOf k (items.map v) asg = b.sums) ∧
      b.sums.Pairwise (· ≤ ·) := by
  have key : ∀ best : EInt, ∀ b ∈ (ckkRun nm k false true bound.isNone fuel (ckkInit v k items best)).yields,
      Shadow v k items b := fun best =>
    (ckkRun_inv nm k false true bound.isNone (SInvS v k items) (fun s hs => ckkStep_invS true _ hs) fuel _
      (ckkInit_invS hk items best)).yields
  unfold ckkGen at h
  cases bound with
  | none =>
    simp only [] at h
    split at h
    · cases h
    · cases h
      intro b hb
      exact shadow_assignment (key _ b (List.mem_reverse.1 hb))
  | some d =>
    simp only [] at h
    split at h
    · cases h
    · cases h
      intro b hb
      exact shadow_assignment (key _ b (List.mem_reverse.1 hb))

example : ∀ b ∈ [(⟨[14, 16], [[], []]⟩ : Bins Nat), ⟨[15, 15], [[], []]⟩],
    ∃ asg, IsAssignment 2 5 asg ∧ sumsOf 2 [4, 5, 6, 7, 8] asg = b.sums :=
  fun b hb => (ckkGen_sums_valid (v := id) (nm := id) (items := [4, 5, 6, 7, 8]) (bound := none) (fuel := 100)
    (by decide) rfl b hb).1

/-- ... and in improve-only mode the differences are strictly decreasing -/
theorem ckkGen_sums_strict {v nm : α → Nat} [BEq α] {k : Nat} {items : List α} {fuel : Nat}
    {ys : List (Bins α)} (hk : 0 < k) (h : ckkGen v nm k false items none fuel = .ok ys) :
    ys.Pairwise (fun a b => spread b.sums < spread a.sums) := by
  unfold ckkGen at h
  have hinv := ckkRun_inv nm k false true true (fun s => SInvS v k items s ∧ Strict s)
    (fun s hs => ⟨ckkStep_invS true true hs.1,
      strict_step (ckkStep_cases nm k false true true s) (fun e he => by
        obtain ⟨⟨g, hg, hsim⟩, _⟩ := hs.1.stack _ he
        exact (sim_singleton hg hsim).2) hs.2⟩) fuel _
    ⟨ckkInit_invS hk items .negInf, by simp [Strict, ckkInit]⟩
  simp only [Option.isNone_none] at h
  split at h
  · cases h
  · cases h
    exact List.pairwise_reverse.2 hinv.2.1

example : [(⟨[14, 16], [[], []]⟩ : Bins Nat), ⟨[15, 15], [[], []]⟩].Pairwise
    (fun a b => spread b.sums < spread a.sums) :=
  ckkGen_sums_strict (v := id) (nm := id) (k := 2) (items := [4, 5, 6, 7, 8]) (fuel := 100) (by decide) rfl

end Prtpy.CKKValid

/-
#print axioms Prtpy.CKKValid.kkValid
  'Prtpy.CKKValid.kkValid' depends on axioms: [propext, Classical.choice, Quot.sound]
#print axioms Prtpy.CKKValid.ckk_isPartition
  'Prtpy.CKKValid.ckk_isPartition' depends on axioms: [propext, Classical.choice, Quot.sound]
#print axioms Prtpy.CKKValid.ckkGen_yields
  'Prtpy.CKKValid.ckkGen_yields' depends on axioms: [propext, Classical.choice, Quot.sound]
#print axioms Prtpy.CKKValid.ckkGen_valid
  'Prtpy.CKKValid.ckkGen_valid' depends on axioms: [propext, Classical.choice, Quot.sound]
#print axioms Prtpy.CKKValid.ckkGen_strict
  'Prtpy.CKKValid.ckkGen_strict' depends on axioms: [propext, Classical.choice, Quot.sound]
#print axioms Prtpy.CKKValid.ckkGen_strict'
  'Prtpy.CKKValid.ckkGen_strict'' depends on axioms: [propext, Classical.choice, Quot.sound]
#print axioms Prtpy.CKKValid.rnpRec_three
  'Prtpy.CKKValid.rnpRec_three' depends on axioms: [propext, Classical.choice, Quot.sound]
#print axioms Prtpy.CKKValid.rnpRec_five
  'Prtpy.CKKValid.rnpRec_five' depends on axioms: [propext, Classical.choice, Quot.sound]
#print axioms Prtpy.CKKValid.rnp_isPartition_of
  'Prtpy.CKKValid.rnp_isPartition_of' depends on axioms: [propext, Classical.choice, Quot.sound]
#print axioms Prtpy.CKKValid.ckk_sums_valid
  'Prtpy.CKKValid.ckk_sums_valid' depends on axioms: [propext, Classical.choice, Quot.sound]
#print axioms Prtpy.CKKValid.ckkGen_sums_valid
  'Prtpy.CKKValid.ckkGen_sums_valid' depends on axioms: [propext, Classical.choice, Quot.sound]
#print axioms Prtpy.CKKValid.ckkGen_sums_strict
  'Prtpy.CKKValid.ckkGen_sums_strict' depends on axioms: [propext, Classical.choice, Quot.sound]
-/
