/-
  PrtpyProofs.CKKFSwitch2 — property C06 for `snp` and `rnpF`: the part of PrtpyProofs/SumsOnly.lean that rests on
  what the 2-way complete Karmarkar–Karp search returns (`ckk2_twoOK`).

  Since fix F11 that search is `Prtpy.ckkF` (see PrtpyProofs/CKKFSwitch.lean); `ckk2_twoOK` now follows from
  `CKKF.ckkF_real_optimal` and `CKKF.ckkF_sums_sorted`, and PrtpyProofs/CKKF.lean imports SumsOnly.lean (for `Real`),
  so everything downstream of `ckk2_twoOK` is here, **same namespace `Prtpy.SumsOnly`, same names, same statements,
  same proofs**:

  §1  `ckk2_twoOK`
  §2  SNP with either manager: `snpRec_opt`, `snpRec_real`, **`snp_sums_optimal`** (`snp_optimal_any`).
  §3  RNP (after F10, `numbins ≤ 5`) with either manager: `rnpRecF_four_opt`, `rnpRecF_odd_opt`, `rnpRecF_odd_real`,
      **`rnpF_sums_optimal`** (`rnpF_optimal_any`).
  §4  the whole vector of sums does not depend on the manager: `ckk2_sums_eq`,
      **`snp_sums_manager_independent`**, **`rnpF_sums_manager_independent`**.
  §5  the value corollaries: **`snp_value_manager_independent`**, **`rnpF_value_manager_independent`**
      (`snp_value_any`, `rnpF_value_any`).

  What stayed in SumsOnly.lean: `Real`, `TwoOK` and their lemmas (`two_le`, `two_bounds`, `twoOK_sums_eq`, …), and the
  statements about `ckk`, the code before F11 (`ckk_real_optimal`, `ckk_two_sums_manager_independent`,
  `ckk_value_manager_independent`).
-/
import Prtpy
import PrtpyProofs.Part
import PrtpyProofs.Obj
import PrtpyProofs.Oracle
import PrtpyProofs.SNP
import PrtpyProofs.CKKValid
import PrtpyProofs.CKKOpt
import PrtpyProofs.SNPOpt
import PrtpyProofs.RNPF
import PrtpyProofs.SumsOnly
import PrtpyProofs.CKKF
import PrtpyProofs.CKKFSwitch
import Mathlib.Data.List.Perm.Basic

namespace Prtpy.SumsOnly
open Prtpy
open Prtpy.SNPProofs (binSum_nil binSum_cons)
open Prtpy.SNPOpt (spread_perm value_minDiff)

variable {α : Type}

/-! ## 1. the 2-way sub-routine with either manager -/

/-- **the 2-way search as SNP/RNP call it, with either manager** -/
theorem ckk2_twoOK {v nm : α → Nat} [BEq α] [LawfulBEq α] (c : Bool) {items : List α} {fuel : Nat} {two : Bins α}
    (h : ckk2 v nm c items fuel = .ok two) : TwoOK v items two ∧ two.sums.Pairwise (· ≤ ·) := by
  unfold ckk2 at h
  split at h
  · cases h
  · rename_i hne
    obtain ⟨hr, hopt⟩ := CKKF.ckkF_real_optimal c (by omega) (by simpa using hne) h
    exact ⟨⟨hr, fun L hl hp => le_of_optimal hopt hl hp⟩, CKKF.ckkF_sums_sorted h⟩

example : TwoOK id [4, 5, 6, 7, 8] (⟨[15, 15], [[], []]⟩ : Bins Nat) :=
  (ckk2_twoOK (nm := id) false (fuel := 100) rfl).1


/-! ## 2. SNP with either manager -/

/-- **Main invariant of `rec_generate_sets`, either manager.**  The returned sums are at least as good as the
    incumbent's and as those of every completion of the prior bins by a partition of the remaining items into
    `n + 2` bins. -/
theorem snpRec_opt {v nm : α → Nat} [BEq α] [LawfulBEq α] (c : Bool) (fuel : Nat) (n : Nat) :
    ∀ (prior best : Bins α) (rem : List α) (r : Bins α),
      snpRec v nm c fuel (n + 2) prior best rem = .ok r →
      spread r.sums ≤ spread best.sums ∧
      ∀ L : List (List α), L.length = n + 2 → L.flatten.Perm rem →
        spread r.sums ≤ spread (L.map (binSum v) ++ prior.sums) := by
  induction n with
  | zero =>
    intro prior best rem r h
    simp only [snpRec] at h
    cases h2 : ckk2 v nm c rem fuel with
    | error e => rw [h2] at h; cases h
    | ok two =>
      rw [h2] at h
      simp only at h
      have key := two_le (ckk2_twoOK c h2).1 prior.sums
      split at h
      · rename_i hlt
        cases h
        exact ⟨Nat.le_of_lt hlt, fun L hl hp => key L hl hp⟩
      · rename_i hlt
        cases h
        exact ⟨Nat.le_refl _, fun L hl hp => Nat.le_trans (Nat.not_lt.1 hlt) (key L hl hp)⟩
  | succ n ih =>
    intro prior best rem r h
    rw [show n + 1 + 2 = n + 3 from rfl, snpRec] at h
    have hmono : ∀ (D : Nat) (st : Bins α) (x : List α) (st' : Bins α), spread st.sums ≤ D →
        snpRec v nm c fuel (n + 2) ⟨prior.sums ++ [binSum v x], prior.lists ++ [x]⟩ st (findDiff rem x)
          = .ok st' → spread st'.sums ≤ D := by
      intro D st x st' hst hb
      exact Nat.le_trans (ih _ _ _ _ hb).1 hst
    refine ⟨?_, ?_⟩
    · exact SNPProofs.treeFold_inv (fun st : Bins α => spread st.sums ≤ spread best.sums) _ _ _ _ _ []
        (sortDesc v rem) (fun st s st' hst _ hb => hmono _ st _ st' hst hb) best r (Nat.le_refl _) h
    · intro L hl hp
      obtain ⟨sub, L', hsubl, hlen, hrest, hsp, hw1, hw2⟩ :=
        SNPOpt.smallest_bin v prior.sums (c := n + 2) hl hp
      refine SNPOpt.treeFold_reach
        (fun st : Bins α => spread st.sums ≤ spread (L.map (binSum v) ++ prior.sums))
        v _ _ _ _ sub (fun st x st' hst hb => hmono _ st x st' hst hb) ?_ ?_
        (sortDesc v rem) [] sub best r hsubl rfl h
      · intro st st' hb
        have := (ih _ _ _ _ hb).2 L' hlen hrest
        simp only at this
        rw [hsp] at this
        exact this
      · intro st hw
        exact Nat.le_of_lt (SNPOpt.out_of_window hw1 hw2 hw)

/-- **C01 at the level of sums, either manager**: the sums that `rec_generate_sets` returns are those of a partition
    of all the items (the prior bins followed by a partition of the remaining items). -/
theorem snpRec_real {v nm : α → Nat} [BEq α] [LawfulBEq α] (c : Bool) (items : List α) (k fuel : Nat)
    (cur : Nat) : ∀ (prior best : Bins α) (rem : List α) (r : Bins α),
    Real v items k best.sums →
    prior.lists.length + cur = k → prior.Consistent v →
    (prior.lists.flatten ++ rem).Perm items →
    snpRec v nm c fuel cur prior best rem = .ok r → Real v items k r.sums := by
  induction cur using Nat.strongRecOn with
  | ind n ih =>
    intro prior best rem r hbest hlen hcons hperm h
    match n with
    | 0 => simp only [snpRec] at h; cases h; exact hbest
    | 1 => simp only [snpRec] at h; cases h; exact hbest
    | 2 =>
      simp only [snpRec] at h
      cases h2 : ckk2 v nm c rem fuel with
      | error e => rw [h2] at h; cases h
      | ok two =>
        rw [h2] at h
        simp only at h
        split at h
        · cases h
          have htwo := (ckk2_twoOK c h2).1.1
          have := real_concat htwo (real_prior hcons) ((List.perm_append_comm).trans hperm)
          rw [show 2 + prior.lists.length = k by omega] at this
          exact this
        · cases h; exact hbest
    | c' + 3 =>
      rw [snpRec] at h
      refine SNPProofs.treeFold_inv (fun st : Bins α => Real v items k st.sums) _ _ _ _ _ [] (sortDesc v rem) ?_
        best r hbest h
      intro st s st' hst hs hb
      rw [List.nil_append] at hb
      refine ih (c' + 2) (by omega) _ st _ st' hst ?_ ?_ ?_ hb
      · simp only [List.length_append, List.length_singleton]; omega
      · unfold Bins.Consistent at hcons ⊢
        simp only [List.map_append, hcons, List.map_cons, List.map_nil]
      · simp only [List.flatten_append, List.flatten_singleton, List.append_assoc]
        exact ((SNPProofs.findDiff_perm hs (SNPProofs.sortDesc_perm v rem)).append_left _).trans hperm

/-- **C01 + C02 for SNP with either manager**: the sums returned are the sums of a partition of the items into `k`
    bins, and the difference between the largest and the smallest of them is the optimum. -/
theorem snp_optimal_any {v nm : α → Nat} [BEq α] [LawfulBEq α] (c : Bool) {k : Nat} {items : List α}
    {fuel : Nat} {b : Bins α} (hk : 0 < k) (hne : items ≠ []) (h : snp v nm k c items fuel = .ok b) :
    Real v items k b.sums ∧
      IsOptimalValue .minDiff k (items.map v) (Objective.minDiff.value b.sums false) := by
  unfold snp at h
  cases hb : kk v k items with
  | error e => rw [hb] at h; cases h
  | ok best =>
    rw [hb] at h
    have hbest := CKKValid.kkValid v k items best hk hne hb
    simp only at h
    have hreal : Real v items k b.sums := by
      split at h
      · cases h; exact real_of_partition hbest
      · exact snpRec_real c items k fuel k ⟨[], []⟩ best items b (real_of_partition hbest) (by simp) rfl
          (by simp) h
    refine ⟨hreal, optimal_of_le hreal ?_⟩
    intro L hl hp
    split at h
    · rename_i h0
      cases h
      omega
    · rename_i hsp
      match k, hk with
      | 1, _ => exact absurd (SNPOpt.spread_one_bin hbest) hsp
      | n + 2, _ =>
        have := (snpRec_opt c fuel n _ _ _ _ h).2 L hl hp
        simpa using this

/-- **C06 for SNP, sums-only manager** (`contents = false`): the sums returned are the sums of some assignment of the
    items to `k` bins, and their difference is the optimal one.

    (What the model returns besides the sums: the item lists of the *prior* bins are built by the tree even with the
    sums-only manager — `prior.lists ++ [sub]` — and only the two bins that come from the 2-way search have empty
    lists; when KK's first answer is kept, it is returned with all its lists.  See the examples below.  A sums-only
    output type only reads `b.sums`.) -/
theorem snp_sums_optimal {v nm : α → Nat} [BEq α] [LawfulBEq α] {k : Nat} {items : List α}
    {fuel : Nat} {b : Bins α} (hk : 0 < k) (hne : items ≠ []) (h : snp v nm k false items fuel = .ok b) :
    IsOptimalValue .minDiff k (items.map v) (Objective.minDiff.value b.sums false) ∧
      ∃ asg, IsAssignment k items.length asg ∧ (sumsOf k (items.map v) asg).Perm b.sums := by
  obtain ⟨hr, hopt⟩ := snp_optimal_any false hk hne h
  obtain ⟨asg, h1, h2⟩ := real_assignment hr
  exact ⟨hopt, asg, h1, h2 ▸ List.Perm.refl _⟩

/-- non-vacuity: six items, three bins; KK's first answer `[5, 5, 7]` has difference 2, the search improves it; the
    two bins that come from the 2-way search carry no items -/
example : IsOptimalValue .minDiff 3 ([5, 3, 3, 2, 2, 2].map id) 1 ∧
    ∃ asg, IsAssignment 3 6 asg ∧ (sumsOf 3 ([5, 3, 3, 2, 2, 2].map id) asg).Perm [6, 6, 5] :=
  snp_sums_optimal (v := id) (nm := id) (k := 3) (fuel := 100) (b := ⟨[6, 6, 5], [[], [], [5]]⟩)
    (by decide) (by decide) rfl

/-- five bins: three prior bins with their items, two bins without -/
example : snp id id 5 false [11, 9, 9, 6, 6, 4, 4, 4] 1000 = .ok ⟨[12, 12, 9, 11, 9], [[], [], [9], [11], [9]]⟩ ∧
    snp id id 5 true [11, 9, 9, 6, 6, 4, 4, 4] 1000
      = .ok ⟨[12, 12, 9, 11, 9], [[4, 4, 4], [6, 6], [9], [11], [9]]⟩ := ⟨rfl, rfl⟩

/-! ## 3. RNP (after F10, `numbins ≤ 5`) with either manager -/

theorem rnpRecF_two_eq {v nm : α → Nat} [BEq α] {c : Bool} {fuel rf : Nat} {prior best r : Bins α}
    {items : List α} (h : rnpRecF v nm c fuel rf 2 prior best items = .ok r) : ckk2 v nm c items fuel = .ok r := by
  cases rf with
  | zero => simp only [rnpRecF] at h; cases h
  | succ rf =>
    rw [rnpRecF] at h
    simpa only [BEq.rfl, if_true] using h

theorem rnpRecF_two {v nm : α → Nat} [BEq α] [LawfulBEq α] {c : Bool} {fuel rf : Nat} {prior best r : Bins α}
    {items : List α} (h : rnpRecF v nm c fuel rf 2 prior best items = .ok r) : TwoOK v items r :=
  (ckk2_twoOK c (rnpRecF_two_eq h)).1

/-- the loop body of the odd case -/
def oddStep (v nm : α → Nat) [BEq α] (c : Bool) (fuel rf cur : Nat) (prior : Bins α) (items : List α)
    (best : Bins α) (sub : List α) : Except Err (Bins α) :=
  let prior2 : Bins α := ⟨prior.sums ++ [binSum v sub], prior.lists ++ [sub]⟩
  match rnpRecF v nm c fuel rf (cur - 1) prior2 best (findDiff items sub) with
  | .error e => .error e
  | .ok nb =>
    if spread (nb.sums ++ prior2.sums) < spread best.sums then .ok (prior2.concat nb) else .ok best

theorem rnpRecF_odd_eq {v nm : α → Nat} [BEq α] {c : Bool} {fuel rf cur : Nat} {prior best : Bins α}
    {items : List α} (hodd : cur % 2 = 1) :
    rnpRecF v nm c fuel (rf + 1) cur prior best items =
      foldE (oddStep v nm c fuel rf cur prior items) best
        (genTree v cur (((binSum v items : Nat) : Int) - ((cur : Int) - 1) * ((spread best.sums : Nat) : Int))
          ((binSum v items : Nat) : Int) items) := by
  rw [rnpRecF]
  have h2 : (cur == 2) = false := by
    cases hc : cur == 2 with
    | false => rfl
    | true => have := eq_of_beq hc; omega
  have h1 : (cur % 2 == 1) = true := by rw [hodd]; rfl
  simp only [h2, h1, Bool.false_eq_true, if_false, if_true]
  rfl

/-- what one iteration of the odd loop does -/
theorem oddStep_cases {v nm : α → Nat} [BEq α] {c : Bool} {fuel rf cur : Nat} {prior : Bins α} {items : List α}
    {st st' : Bins α} {sub : List α} (h : oddStep v nm c fuel rf cur prior items st sub = .ok st') :
    ∃ nb, rnpRecF v nm c fuel rf (cur - 1) ⟨prior.sums ++ [binSum v sub], prior.lists ++ [sub]⟩ st
        (findDiff items sub) = .ok nb ∧
      ((spread (nb.sums ++ (prior.sums ++ [binSum v sub])) < spread st.sums ∧
          st' = Bins.concat ⟨prior.sums ++ [binSum v sub], prior.lists ++ [sub]⟩ nb) ∨
       (spread st.sums ≤ spread (nb.sums ++ (prior.sums ++ [binSum v sub])) ∧ st' = st)) := by
  unfold oddStep at h
  simp only [] at h
  cases hr : rnpRecF v nm c fuel rf (cur - 1) ⟨prior.sums ++ [binSum v sub], prior.lists ++ [sub]⟩ st
      (findDiff items sub) with
  | error e => rw [hr] at h; cases h
  | ok nb =>
    rw [hr] at h
    simp only at h
    refine ⟨nb, rfl, ?_⟩
    split at h
    · rename_i hlt
      cases h
      exact Or.inl ⟨hlt, rfl⟩
    · rename_i hlt
      cases h
      exact Or.inr ⟨Nat.not_lt.1 hlt, rfl⟩

theorem oddStep_spec {v nm : α → Nat} [BEq α] {c : Bool} {fuel rf cur : Nat} {prior : Bins α} {items : List α}
    {st st' : Bins α} {sub : List α} (h : oddStep v nm c fuel rf cur prior items st sub = .ok st') :
    ∃ nb, rnpRecF v nm c fuel rf (cur - 1) ⟨prior.sums ++ [binSum v sub], prior.lists ++ [sub]⟩ st
        (findDiff items sub) = .ok nb ∧
      spread st'.sums ≤ spread st.sums ∧
      spread st'.sums ≤ spread (nb.sums ++ (prior.sums ++ [binSum v sub])) := by
  obtain ⟨nb, hnb, ⟨hlt, rfl⟩ | ⟨hle, rfl⟩⟩ := oddStep_cases h
  · refine ⟨nb, hnb, ?_⟩
    have e : spread (Bins.concat ⟨prior.sums ++ [binSum v sub], prior.lists ++ [sub]⟩ nb).sums
        = spread (nb.sums ++ (prior.sums ++ [binSum v sub])) := spread_perm List.perm_append_comm
    rw [e]
    exact ⟨Nat.le_of_lt hlt, Nat.le_refl _⟩
  · exact ⟨nb, hnb, Nat.le_refl _, hle⟩

/-- the loop body of the even case (after F10: the prior sums count) -/
def evenStep (v nm : α → Nat) [BEq α] (c : Bool) (fuel rf half : Nat) (prior : Bins α)
    (st : Bins α × Nat) (top : Bins α) : Except Err (Bins α × Nat) :=
  let i1 := top.lists.getD 0 []
  let i2 := top.lists.getD 1 []
  match rnpRecF v nm c fuel rf half prior st.1 i1 with
  | .error e => .error e
  | .ok nb1 =>
    match rnpRecF v nm c fuel rf half prior st.1 i2 with
    | .error e => .error e
    | .ok nb2 =>
      let d := spread (nb1.sums ++ nb2.sums ++ prior.sums)
      if d < st.2 then .ok (nb1.concat nb2, d) else .ok st

theorem rnpRecF_four_eq {v nm : α → Nat} [BEq α] {c : Bool} {fuel rf : Nat} {prior best : Bins α}
    {items : List α} :
    rnpRecF v nm c fuel (rf + 1) 4 prior best items =
      match (if items.isEmpty then .error .valueError
             else ckkGen v nm 2 true items (some (spread best.sums)) fuel) with
      | .error e => .error e
      | .ok tops => (foldE (evenStep v nm c fuel rf 2 prior) (best, spread best.sums) tops).map (·.1) := by
  rw [rnpRecF]
  simp only [show ((4 : Nat) == 2) = false from rfl, show ((4 : Nat) % 2 == 1) = false from rfl,
    show (4 : Nat) / 2 = 2 from rfl, Bool.false_eq_true, if_false]
  rfl

/-- what one iteration of the even loop does -/
theorem evenStep_cases {v nm : α → Nat} [BEq α] {c : Bool} {fuel rf half : Nat} {prior : Bins α}
    {st st' : Bins α × Nat} {top : Bins α} (h : evenStep v nm c fuel rf half prior st top = .ok st') :
    ∃ nb1 nb2, rnpRecF v nm c fuel rf half prior st.1 (top.lists.getD 0 []) = .ok nb1 ∧
      rnpRecF v nm c fuel rf half prior st.1 (top.lists.getD 1 []) = .ok nb2 ∧
      ((spread (nb1.sums ++ nb2.sums ++ prior.sums) < st.2 ∧
          st' = (nb1.concat nb2, spread (nb1.sums ++ nb2.sums ++ prior.sums))) ∨
       (st.2 ≤ spread (nb1.sums ++ nb2.sums ++ prior.sums) ∧ st' = st)) := by
  unfold evenStep at h
  simp only [] at h
  cases h1 : rnpRecF v nm c fuel rf half prior st.1 (top.lists.getD 0 []) with
  | error e => rw [h1] at h; cases h
  | ok nb1 =>
    rw [h1] at h
    simp only at h
    cases h2 : rnpRecF v nm c fuel rf half prior st.1 (top.lists.getD 1 []) with
    | error e => rw [h2] at h; cases h
    | ok nb2 =>
      rw [h2] at h
      simp only at h
      refine ⟨nb1, nb2, rfl, rfl, ?_⟩
      split at h
      · rename_i hlt
        cases h
        exact Or.inl ⟨hlt, rfl⟩
      · rename_i hlt
        cases h
        exact Or.inr ⟨Nat.not_lt.1 hlt, rfl⟩

/-- the state invariant of the even loop: the state is the initial one, or realisable sums of a 4-way partition of
    the items together with their spread *combined with the prior sums*, which is below the initial bound -/
def EvenInv (v : α → Nat) (items : List α) (prior best : Bins α) (st : Bins α × Nat) : Prop :=
  (st.1 = best ∧ st.2 = spread best.sums) ∨
    (Real v items 4 st.1.sums ∧ st.2 = spread (st.1.sums ++ prior.sums) ∧ st.2 < spread best.sums)

theorem evenInv_le {v : α → Nat} {items : List α} {prior best : Bins α} {st : Bins α × Nat}
    (h : EvenInv v items prior best st) : st.2 ≤ spread best.sums := by
  rcases h with ⟨_, h⟩ | ⟨_, _, h⟩ <;> omega

theorem evenStep_inv {v nm : α → Nat} [BEq α] [LawfulBEq α] {c : Bool} {fuel rf : Nat} {prior best : Bins α}
    {items : List α} {st st' : Bins α × Nat} {top : Bins α} (htop : IsPartition v items 2 top)
    (hs : EvenInv v items prior best st) (h : evenStep v nm c fuel rf 2 prior st top = .ok st') :
    EvenInv v items prior best st' := by
  obtain ⟨nb1, nb2, h1, h2, ⟨hlt, rfl⟩ | ⟨_, rfl⟩⟩ := evenStep_cases h
  · right
    refine ⟨real_concat (rnpRecF_two h1).1 (rnpRecF_two h2).1 (RNPF.top_lists_perm htop), rfl, ?_⟩
    exact Nat.lt_of_lt_of_le hlt (evenInv_le hs)
  · exact hs

/-- **The even case with four bins and arbitrary prior bins, either manager.**  There is a number `D`, at most the
    incumbent's spread, such that: the result is the incumbent and `D` is its spread, or the result has the sums of
    a 4-way partition of the items whose spread *combined with the prior sums* is `D`, strictly below the
    incumbent's; and no 4-way partition of the items has a combined spread below `D`.  (The top-level 2-way
    generator always runs with the contents manager, as in the code.) -/
theorem rnpRecF_four_opt {v nm : α → Nat} [BEq α] [LawfulBEq α] (c : Bool)
    {fuel rf : Nat} {prior best r : Bins α} {items : List α}
    (h : rnpRecF v nm c fuel rf 4 prior best items = .ok r) :
    ∃ D, ((r = best ∧ D = spread best.sums) ∨
        (Real v items 4 r.sums ∧ D = spread (r.sums ++ prior.sums) ∧ D < spread best.sums)) ∧
      ∀ L : List (List α), L.length = 4 → L.flatten.Perm items →
        D ≤ spread (L.map (binSum v) ++ prior.sums) := by
  cases rf with
  | zero => simp only [rnpRecF] at h; cases h
  | succ rf =>
    rw [rnpRecF_four_eq] at h
    by_cases hemp : items.isEmpty = true
    · rw [if_pos hemp] at h; cases h
    · rw [if_neg hemp] at h
      have hne : items ≠ [] := by simpa using hemp
      cases hg : ckkGen v nm 2 true items (some (spread best.sums)) fuel with
      | error e => rw [hg] at h; cases h
      | ok tops =>
        rw [hg] at h
        simp only at h
        have htops := CKKValid.ckkGen_valid v nm 2 items _ fuel tops (by omega) hne hg
        cases hf : foldE (evenStep v nm c fuel rf 2 prior) (best, spread best.sums) tops with
        | error e => rw [hf] at h; cases h
        | ok st =>
          rw [hf] at h
          simp only [Except.map] at h
          cases h
          have hinv : EvenInv v items prior best st := SNPProofs.foldE_inv (EvenInv v items prior best) _ tops
            (fun s top s' htop hs hstep => evenStep_inv (htops top htop) hs hstep)
            (best, spread best.sums) st (Or.inl ⟨rfl, rfl⟩) hf
          refine ⟨st.2, hinv, ?_⟩
          intro L hl hp
          rcases Nat.lt_or_ge (spread (L.map (binSum v) ++ prior.sums)) (spread best.sums) with hlt | hge
          · obtain ⟨l1, l4, p, q, hperm, h14, hpb, hqb⟩ := SNPOpt.four_sorted v hl
            have m1 : binSum v l1 ∈ L.map (binSum v) := List.mem_map_of_mem (hperm.mem_iff.2 (by simp))
            have m4 : binSum v l4 ∈ L.map (binSum v) := List.mem_map_of_mem (hperm.mem_iff.2 (by simp))
            have hD : binSum v l4 - binSum v l1 ≤ spread (L.map (binSum v) ++ prior.sums) := by
              have := SNPProofs.le_maxL_of_mem (List.mem_append_left prior.sums m4)
              have := SNPProofs.minL_le_of_mem (List.mem_append_left prior.sums m1)
              unfold spread
              omega
            have hXY : ((l1 ++ l4) ++ (p ++ q)).Perm items := by
              have := hperm.flatten.symm.trans hp
              simpa using this
            have hdiff : spread [binSum v (l1 ++ l4), binSum v (p ++ q)] < spread best.sums := by
              rw [SNPOpt.spread_pair, SNPProofs.binSum_append, SNPProofs.binSum_append]
              omega
            obtain ⟨top, htop, X', Y', hlists, hcases⟩ :=
              RNPF.ckkGenComplete v nm items _ fuel tops hne hg _ _ hXY hdiff
            refine SNPOpt.foldE_reach (fun _ : Bins α × Nat => True)
              (fun s : Bins α × Nat => s.2 ≤ spread (L.map (binSum v) ++ prior.sums)) _ top
              (fun _ _ _ _ _ => trivial) ?_ ?_ tops _ st htop trivial hf
            · intro s x s' _ hs hstep
              obtain ⟨_, _, _, _, ⟨hlt', rfl⟩ | ⟨_, rfl⟩⟩ := evenStep_cases hstep
              · exact Nat.le_trans (Nat.le_of_lt hlt') hs
              · exact hs
            · intro s s' _ hstep
              obtain ⟨nb1, nb2, hn1, hn2, hcs⟩ := evenStep_cases hstep
              have h5 : s'.2 ≤ spread (nb1.sums ++ nb2.sums ++ prior.sums) := by
                rcases hcs with ⟨_, rfl⟩ | ⟨hle, rfl⟩
                · exact Nat.le_refl _
                · exact hle
              rw [hlists] at hn1 hn2
              simp only [List.getD_cons_zero, List.getD_cons_succ] at hn1 hn2
              have hn1 := rnpRecF_two hn1
              have hn2 := rnpRecF_two hn2
              have key : ∃ a b c d, nb1.sums = [a, b] ∧ nb2.sums = [c, d] ∧
                  ∀ x ∈ [a, b, c, d], binSum v l1 ≤ x ∧ x ≤ binSum v l4 := by
                rcases hcases with ⟨hX, hY⟩ | ⟨hX, hY⟩
                · obtain ⟨a, b, hab, ha, hb⟩ :=
                    two_bounds hn1 hX.symm (Nat.le_refl _) h14 h14 (Nat.le_refl _)
                  obtain ⟨c, d, hcd, hc, hd⟩ := two_bounds hn2 hY.symm hpb.1 hqb.1 hpb.2 hqb.2
                  refine ⟨a, b, c, d, hab, hcd, ?_⟩
                  intro x hx
                  simp only [List.mem_cons, List.not_mem_nil, or_false] at hx
                  rcases hx with rfl | rfl | rfl | rfl <;> assumption
                · obtain ⟨a, b, hab, ha, hb⟩ := two_bounds hn1 hX.symm hpb.1 hqb.1 hpb.2 hqb.2
                  obtain ⟨c, d, hcd, hc, hd⟩ :=
                    two_bounds hn2 hY.symm (Nat.le_refl _) h14 h14 (Nat.le_refl _)
                  refine ⟨a, b, c, d, hab, hcd, ?_⟩
                  intro x hx
                  simp only [List.mem_cons, List.not_mem_nil, or_false] at hx
                  rcases hx with rfl | rfl | rfl | rfl <;> assumption
              obtain ⟨a, b, c, d, hab, hcd, hb⟩ := key
              rw [hab, hcd] at h5
              exact Nat.le_trans h5
                (RNPF.spread_append_le_of_bounds (A := [a, b] ++ [c, d]) (by simp) m1 m4 hb)
          · exact Nat.le_trans (evenInv_le hinv) hge

/-- the odd case, validity at the level of sums: the result is the incumbent, or its sums are those of the prior
    bins followed by a partition of the items -/
theorem rnpRecF_odd_real {v nm : α → Nat} [BEq α] [LawfulBEq α] {c : Bool} {fuel rf cur : Nat}
    {prior best r : Bins α} {items : List α} (hodd : cur % 2 = 1)
    (hrec : ∀ (prior2 best' : Bins α) (rest : List α) (nb : Bins α),
      rnpRecF v nm c fuel rf (cur - 1) prior2 best' rest = .ok nb →
        Real v rest (cur - 1) nb.sums ∨ nb = best')
    (hpc : prior.Consistent v)
    (h : rnpRecF v nm c fuel (rf + 1) cur prior best items = .ok r) :
    Real v (prior.lists.flatten ++ items) (prior.lists.length + cur) r.sums ∨ r = best := by
  rw [rnpRecF_odd_eq hodd] at h
  refine SNPProofs.foldE_inv
    (fun b : Bins α => Real v (prior.lists.flatten ++ items) (prior.lists.length + cur) b.sums ∨ b = best)
    _ _ ?_ best r (Or.inr rfl) h
  intro s sub s' hsub hs hstep
  obtain ⟨nb, hr, ⟨hlt, rfl⟩ | ⟨_, rfl⟩⟩ := oddStep_cases hstep
  · rcases hrec _ _ _ _ hr with hnb | rfl
    · left
      have hpc2 : (⟨prior.sums ++ [binSum v sub], prior.lists ++ [sub]⟩ : Bins α).Consistent v := by
        unfold Bins.Consistent at hpc ⊢
        simp only [List.map_append, hpc, List.map_cons, List.map_nil]
      have := real_concat (items := prior.lists.flatten ++ items) (real_prior hpc2) hnb (by
        simp only [List.flatten_append, List.flatten_singleton, List.append_assoc]
        exact (SNPProofs.findDiff_perm_of_subperm (SNPProofs.genTree_mem_subperm hsub)).append_left _)
      simp only [List.length_append, List.length_singleton] at this
      rw [show prior.lists.length + 1 + (cur - 1) = prior.lists.length + cur by omega] at this
      exact this
    · exact absurd hlt (Nat.not_lt.2 (SNPProofs.spread_le_append _ _))
  · exact hs

/-- the odd case, optimality: if the recursive call returns the best completion of its prior bins *among those that
    beat its incumbent* (and otherwise something no better than the incumbent), this call returns the best
    completion -/
theorem rnpRecF_odd_opt {v nm : α → Nat} [BEq α] [LawfulBEq α] {c : Bool} {fuel rf n : Nat}
    {prior best r : Bins α} {items : List α} (hodd : (n + 1) % 2 = 1)
    (hrec : ∀ (prior2 best' : Bins α) (rest : List α) (nb : Bins α),
      rnpRecF v nm c fuel rf n prior2 best' rest = .ok nb →
        ∀ L' : List (List α), L'.length = n → L'.flatten.Perm rest →
          spread (nb.sums ++ prior2.sums) ≤ spread (L'.map (binSum v) ++ prior2.sums) ∨
          spread best'.sums ≤ spread (L'.map (binSum v) ++ prior2.sums))
    (h : rnpRecF v nm c fuel (rf + 1) (n + 1) prior best items = .ok r) :
    spread r.sums ≤ spread best.sums ∧
      ∀ L : List (List α), L.length = n + 1 → L.flatten.Perm items →
        spread r.sums ≤ spread (L.map (binSum v) ++ prior.sums) := by
  rw [rnpRecF_odd_eq hodd] at h
  have hmono : ∀ D : Nat, spread best.sums ≤ D → spread r.sums ≤ D := by
    intro D hD
    exact SNPProofs.foldE_inv (fun st : Bins α => spread st.sums ≤ D) _ _
      (fun st x st' _ hst hf => by
        obtain ⟨_, _, h1, _⟩ := oddStep_spec hf
        exact Nat.le_trans h1 hst) best r hD h
  refine ⟨hmono _ (Nat.le_refl _), ?_⟩
  intro L hl hp
  rcases Nat.lt_or_ge (spread (L.map (binSum v) ++ prior.sums)) (spread best.sums) with hlt | hge
  · obtain ⟨sub, L', hsubl, hlen, hrest, hsp, hw1, hw2⟩ := SNPOpt.smallest_bin v prior.sums hl hp
    have hmem : sub ∈ genTree v (n + 1)
        (((binSum v items : Nat) : Int) - (((n + 1 : Nat) : Int) - 1) * ((spread best.sums : Nat) : Int))
        ((binSum v items : Nat) : Int) items := by
      rw [SNPProofs.genTree_eq', List.mem_filter]
      refine ⟨SNPProofs.allSubs_sublists.2 hsubl, ?_⟩
      cases hw : SNPProofs.inWin v (n + 1)
        (((binSum v items : Nat) : Int) - (((n + 1 : Nat) : Int) - 1) * ((spread best.sums : Nat) : Int))
        ((binSum v items : Nat) : Int) sub with
      | false => exact absurd (SNPOpt.out_of_window hw1 hw2 hw) (by omega)
      | true => exact hw
    refine SNPOpt.foldE_reach (fun _ => True)
      (fun st : Bins α => spread st.sums ≤ spread (L.map (binSum v) ++ prior.sums)) _ sub
      (fun _ _ _ _ _ => trivial) ?_ ?_ _ best r hmem trivial h
    · intro st x st' _ hst hf
      obtain ⟨_, _, h1, _⟩ := oddStep_spec hf
      exact Nat.le_trans h1 hst
    · intro st st' _ hf
      obtain ⟨nb, hnb, h1, h2⟩ := oddStep_spec hf
      simp only [Nat.add_sub_cancel] at hnb
      have := hrec _ _ _ _ hnb L' hlen hrest
      simp only at this
      rw [hsp] at this
      rcases this with h3 | h3
      · exact Nat.le_trans h2 h3
      · exact Nat.le_trans h1 h3
  · exact hmono _ hge

/-- **C01 + C02 for `rnpF` with either manager, every `numbins ≤ 5`**: the sums returned are the sums of a partition
    of the items into `k` bins, and the difference between the largest and the smallest of them is the optimum. -/
theorem rnpF_optimal_any {v nm : α → Nat} [BEq α] [LawfulBEq α] (c : Bool) {k : Nat} {items : List α} {fuel : Nat}
    {b : Bins α} (hk : 0 < k) (hk5 : k ≤ 5) (hne : items ≠ []) (h : rnpF v nm k c items fuel = .ok b) :
    Real v items k b.sums ∧
      IsOptimalValue .minDiff k (items.map v) (Objective.minDiff.value b.sums false) := by
  unfold rnpF at h
  cases hb : kk v k items with
  | error e => rw [hb] at h; cases h
  | ok best =>
    rw [hb] at h
    have hbest := CKKValid.kkValid v k items best hk hne hb
    have hbr := real_of_partition hbest
    simp only at h
    split at h
    · rename_i h0
      cases h
      exact ⟨hbr, optimal_of_le hbr (fun L _ _ => by omega)⟩
    · rename_i hsp
      rw [if_neg (by omega)] at h
      have hnil : (⟨[], []⟩ : Bins α).Consistent v := rfl
      -- the recursive facts for four bins, in the form the odd case wants them
      have four_real : ∀ {rf : Nat} (prior2 best' : Bins α) (rest : List α) (nb : Bins α),
          rnpRecF v nm c fuel rf 4 prior2 best' rest = .ok nb → Real v rest 4 nb.sums ∨ nb = best' := by
        intro rf prior2 best' rest nb hr
        obtain ⟨D, hD, _⟩ := rnpRecF_four_opt c hr
        rcases hD with ⟨h1, _⟩ | ⟨h1, _⟩
        · exact Or.inr h1
        · exact Or.inl h1
      obtain rfl | rfl | rfl | rfl | rfl : k = 1 ∨ k = 2 ∨ k = 3 ∨ k = 4 ∨ k = 5 := by omega
      · exact absurd (SNPOpt.spread_one_bin hbest) hsp
      · have h2 := rnpRecF_two h
        refine ⟨h2.1, optimal_of_le h2.1 h2.2⟩
      · have hreal : Real v items 3 b.sums := by
          rcases rnpRecF_odd_real (cur := 3) rfl (fun _ _ _ _ hr => Or.inl (rnpRecF_two hr).1) hnil h with hr | rfl
          · simpa using hr
          · exact hbr
        refine ⟨hreal, optimal_of_le hreal (fun L hl hp => ?_)⟩
        have := (rnpRecF_odd_opt (n := 2) rfl
          (fun prior2 _ _ nb hr L' hl' hp' => Or.inl (two_le (rnpRecF_two hr) prior2.sums L' hl' hp')) h).2 L hl hp
        simpa using this
      · obtain ⟨D, hD, hall⟩ := rnpRecF_four_opt c h
        have hreal : Real v items 4 b.sums := by
          rcases hD with ⟨rfl, _⟩ | ⟨h1, _⟩
          · exact hbr
          · exact h1
        refine ⟨hreal, optimal_of_le hreal (fun L hl hp => ?_)⟩
        have h1 := hall L hl hp
        simp only [List.append_nil] at h1 hD
        rcases hD with ⟨rfl, rfl⟩ | ⟨_, rfl, _⟩ <;> exact h1
      · have hreal : Real v items 5 b.sums := by
          rcases rnpRecF_odd_real (cur := 5) rfl (fun p b' rest nb hr => four_real p b' rest nb hr) hnil h
            with hr | rfl
          · simpa using hr
          · exact hbr
        refine ⟨hreal, optimal_of_le hreal (fun L hl hp => ?_)⟩
        have := (rnpRecF_odd_opt (n := 4) rfl
          (fun prior2 best' _ nb hr L' hl' hp' => by
            obtain ⟨D, hD, hall⟩ := rnpRecF_four_opt c hr
            have h1 := hall L' hl' hp'
            rcases hD with ⟨_, rfl⟩ | ⟨_, rfl, _⟩
            · exact Or.inr h1
            · exact Or.inl h1) h).2 L hl hp
        simpa using this

/-- **C06 for `rnpF`, sums-only manager** (`contents = false`, `numbins ≤ 5`): the sums returned are the sums of some
    assignment of the items to `k` bins, and their difference is the optimal one.  (The top-level 2-way generator of
    the even case runs with a contents manager whatever the flag, as in the code.) -/
theorem rnpF_sums_optimal {v nm : α → Nat} [BEq α] [LawfulBEq α] {k : Nat} {items : List α}
    {fuel : Nat} {b : Bins α} (hk : 0 < k) (hk5 : k ≤ 5) (hne : items ≠ [])
    (h : rnpF v nm k false items fuel = .ok b) :
    IsOptimalValue .minDiff k (items.map v) (Objective.minDiff.value b.sums false) ∧
      ∃ asg, IsAssignment k items.length asg ∧ (sumsOf k (items.map v) asg).Perm b.sums := by
  obtain ⟨hr, hopt⟩ := rnpF_optimal_any false hk hk5 hne h
  obtain ⟨asg, h1, h2⟩ := real_assignment hr
  exact ⟨hopt, asg, h1, h2 ▸ List.Perm.refl _⟩

/-- non-vacuity, five bins (the odd case on top of the even case with a non-empty prior); only the first prior bin
    carries its items: the sub-results of the even case are concatenations of 2-way results -/
example : IsOptimalValue .minDiff 5 ([11, 9, 9, 6, 6, 4, 4, 4].map id) 3 ∧
    ∃ asg, IsAssignment 5 8 asg ∧ (sumsOf 5 ([11, 9, 9, 6, 6, 4, 4, 4].map id) asg).Perm [9, 9, 12, 11, 12] :=
  rnpF_sums_optimal (v := id) (nm := id) (k := 5) (fuel := 1000) (b := ⟨[9, 9, 12, 11, 12], [[9], [], [], [], []]⟩)
    (by decide) (by decide) (by decide) rfl

/-- non-vacuity, four bins (the even case at top level) -/
example : IsOptimalValue .minDiff 4 ([5, 3, 3, 3, 2, 2, 2, 2].map id) 1 ∧
    ∃ asg, IsAssignment 4 8 asg ∧ (sumsOf 4 ([5, 3, 3, 3, 2, 2, 2, 2].map id) asg).Perm [5, 6, 5, 6] :=
  rnpF_sums_optimal (v := id) (nm := id) (k := 4) (fuel := 1000) (b := ⟨[5, 6, 5, 6], [[], [], [], []]⟩)
    (by decide) (by decide) (by decide) rfl

/-- non-vacuity, three bins (the odd case) -/
example : IsOptimalValue .minDiff 3 ([5, 3, 3, 2, 2, 2].map id) 1 ∧
    ∃ asg, IsAssignment 3 6 asg ∧ (sumsOf 3 ([5, 3, 3, 2, 2, 2].map id) asg).Perm [5, 6, 6] :=
  rnpF_sums_optimal (v := id) (nm := id) (k := 3) (fuel := 1000) (b := ⟨[5, 6, 6], [[5], [], []]⟩)
    (by decide) (by decide) (by decide) rfl

/-! ## 4. the whole vector of sums does not depend on the manager

  The control flow of SNP and RNP reads the incumbent only through its sums, and the only place where the manager
  matters is the 2-way search, which returns the sums of a split of minimum difference *in ascending order*: these
  two numbers are determined by the items (`twoOK_sums_eq`).  Hence the two runs proceed in lock-step. -/

/-- the 2-way search returns the same two sums with either manager (and whatever the fuel, if it suffices) -/
theorem ckk2_sums_eq {v nm : α → Nat} [BEq α] [LawfulBEq α] {c c' : Bool} {items : List α} {fuel fuel' : Nat}
    {two two' : Bins α} (h : ckk2 v nm c items fuel = .ok two) (h' : ckk2 v nm c' items fuel' = .ok two') :
    two.sums = two'.sums := by
  obtain ⟨h1, h2⟩ := ckk2_twoOK c h
  obtain ⟨h1', h2'⟩ := ckk2_twoOK c' h'
  exact twoOK_sums_eq h1 h2 h1' h2'

/-- lock-step rule for `treeFold` -/
theorem treeFold_sim {σ σ' : Type} (R : σ → σ' → Prop) (v : α → Nat) (den : Nat) (ub : Int)
    (lbOf : σ → Int) (lbOf' : σ' → Int) (body : σ → List α → Except Err σ) (body' : σ' → List α → Except Err σ')
    (hlb : ∀ s s', R s s' → lbOf s = lbOf' s')
    (hbody : ∀ s s' x t t', R s s' → body s x = .ok t → body' s' x = .ok t' → R t t') :
    ∀ (rest cur : List α) (st : σ) (st' : σ') (r : σ) (r' : σ'), R st st' →
      treeFold v den ub lbOf body st cur rest = .ok r → treeFold v den ub lbOf' body' st' cur rest = .ok r' →
      R r r' := by
  intro rest
  induction rest with
  | nil =>
    intro cur st st' r r' hR h h'
    simp only [treeFold, hlb _ _ hR] at h
    simp only [treeFold] at h'
    split at h
    · rename_i hp
      rw [if_pos hp] at h'
      cases h; cases h'
      exact hR
    · rename_i hp
      rw [if_neg hp] at h'
      exact hbody _ _ _ _ _ hR h h'
  | cons x xs ih =>
    intro cur st st' r r' hR h h'
    simp only [treeFold, hlb _ _ hR] at h
    simp only [treeFold] at h'
    split at h
    · rename_i hp
      rw [if_pos hp] at h'
      cases h; cases h'
      exact hR
    · rename_i hp
      rw [if_neg hp] at h'
      cases hL : treeFold v den ub lbOf body st (cur ++ [x]) xs with
      | error e => rw [hL] at h; cases h
      | ok s1 =>
        rw [hL] at h
        cases hL' : treeFold v den ub lbOf' body' st' (cur ++ [x]) xs with
        | error e => rw [hL'] at h'; cases h'
        | ok s1' =>
          rw [hL'] at h'
          exact ih cur s1 s1' r r' (ih (cur ++ [x]) st st' s1 s1' hR hL hL') h h'

/-- lock-step rule for `foldE` -/
theorem foldE_sim {σ σ' β : Type} (R : σ → σ' → Prop) (f : σ → β → Except Err σ) (f' : σ' → β → Except Err σ')
    (hf : ∀ s s' x t t', R s s' → f s x = .ok t → f' s' x = .ok t' → R t t') :
    ∀ (l : List β) (s : σ) (s' : σ') (r : σ) (r' : σ'), R s s' →
      foldE f s l = .ok r → foldE f' s' l = .ok r' → R r r' := by
  intro l
  induction l with
  | nil =>
    intro s s' r r' hR h h'
    simp only [foldE] at h h'
    cases h; cases h'
    exact hR
  | cons x xs ih =>
    intro s s' r r' hR h h'
    simp only [foldE] at h h'
    cases hx : f s x with
    | error e => rw [hx] at h; cases h
    | ok t =>
      rw [hx] at h
      cases hx' : f' s' x with
      | error e => rw [hx'] at h'; cases h'
      | ok t' =>
        rw [hx'] at h'
        exact ih t t' r r' (hf _ _ _ _ _ hR hx hx') h h'

/-- `rec_generate_sets` of SNP: the returned sums depend neither on the manager nor on the item lists of the
    incumbent -/
theorem snpRec_sim {v nm : α → Nat} [BEq α] [LawfulBEq α] (c c' : Bool) (fuel fuel' : Nat) (n : Nat) :
    ∀ (prior best best' : Bins α) (rem : List α) (r r' : Bins α), best.sums = best'.sums →
      snpRec v nm c fuel n prior best rem = .ok r → snpRec v nm c' fuel' n prior best' rem = .ok r' →
      r.sums = r'.sums := by
  induction n using Nat.strongRecOn with
  | ind n ih =>
    intro prior best best' rem r r' hb h h'
    match n with
    | 0 => simp only [snpRec] at h h'; cases h; cases h'; exact hb
    | 1 => simp only [snpRec] at h h'; cases h; cases h'; exact hb
    | 2 =>
      simp only [snpRec] at h h'
      cases h2 : ckk2 v nm c rem fuel with
      | error e => rw [h2] at h; cases h
      | ok two =>
        rw [h2] at h
        cases h2' : ckk2 v nm c' rem fuel' with
        | error e => rw [h2'] at h'; cases h'
        | ok two' =>
          rw [h2'] at h'
          simp only [← ckk2_sums_eq h2 h2', ← hb] at h'
          simp only at h
          split at h
          · rename_i hlt
            rw [if_pos hlt] at h'
            cases h; cases h'
            simp only [Bins.concat, ckk2_sums_eq h2 h2']
          · rename_i hlt
            rw [if_neg hlt] at h'
            cases h; cases h'
            exact hb
    | m + 3 =>
      rw [snpRec] at h h'
      refine treeFold_sim (fun b b' : Bins α => b.sums = b'.sums) v _ _ _ _ _ _ ?_ ?_ _ _ _ _ _ _ hb h h'
      · intro s s' hs
        simp only [hs]
      · intro s s' x t t' hs ht ht'
        exact ih (m + 2) (by omega) _ s s' _ t t' hs ht ht'

/-- **Stretch goal, SNP: the vector of sums does not depend on the manager.**  If `snp` answers with the contents
    manager and with the sums-only manager (the fuels may differ), the two answers have the same `sums`, in the same
    order.  So `out.Sums` and the sums of `out.PartitionAndSums` agree exactly, not only in value. -/
theorem snp_sums_manager_independent {v nm : α → Nat} [BEq α] [LawfulBEq α] {k : Nat} {items : List α}
    {fuel₁ fuel₂ : Nat} {b₁ b₂ : Bins α} (h₁ : snp v nm k true items fuel₁ = .ok b₁)
    (h₂ : snp v nm k false items fuel₂ = .ok b₂) : b₂.sums = b₁.sums := by
  unfold snp at h₁ h₂
  cases hb : kk v k items with
  | error e => rw [hb] at h₁; cases h₁
  | ok best =>
    rw [hb] at h₁ h₂
    simp only at h₁ h₂
    split at h₁
    · rename_i h0
      rw [if_pos h0] at h₂
      cases h₁; cases h₂; rfl
    · rename_i h0
      rw [if_neg h0] at h₂
      exact (snpRec_sim true false fuel₁ fuel₂ k _ best best items b₁ b₂ rfl h₁ h₂).symm

/-- non-vacuity: the two runs on eight items and five bins -/
example : (⟨[12, 12, 9, 11, 9], [[], [], [9], [11], [9]]⟩ : Bins Nat).sums
    = (⟨[12, 12, 9, 11, 9], [[4, 4, 4], [6, 6], [9], [11], [9]]⟩ : Bins Nat).sums :=
  snp_sums_manager_independent (v := id) (nm := id) (k := 5) (items := [11, 9, 9, 6, 6, 4, 4, 4])
    (fuel₁ := 1000) (fuel₂ := 1000) rfl rfl

theorem rnpRecF_even_eq {v nm : α → Nat} [BEq α] {c : Bool} {fuel rf cur : Nat} {prior best : Bins α}
    {items : List α} (h2 : (cur == 2) = false) (h1 : (cur % 2 == 1) = false) :
    rnpRecF v nm c fuel (rf + 1) cur prior best items =
      match (if items.isEmpty then .error .valueError
             else ckkGen v nm 2 true items (some (spread best.sums)) fuel) with
      | .error e => .error e
      | .ok tops => (foldE (evenStep v nm c fuel rf (cur / 2) prior) (best, spread best.sums) tops).map (·.1) := by
  rw [rnpRecF]
  simp only [h2, h1, Bool.false_eq_true, if_false]
  rfl

/-- `rec_generate_sets` of RNP: the returned sums depend neither on the manager nor on the item lists of the
    incumbent -/
theorem rnpRecF_sim {v nm : α → Nat} [BEq α] [LawfulBEq α] (c c' : Bool) (fuel : Nat) (rf : Nat) :
    ∀ (cur : Nat) (prior best best' : Bins α) (items : List α) (r r' : Bins α), best.sums = best'.sums →
      rnpRecF v nm c fuel rf cur prior best items = .ok r → rnpRecF v nm c' fuel rf cur prior best' items = .ok r' →
      r.sums = r'.sums := by
  induction rf with
  | zero => intro cur prior best best' items r r' _ h; simp only [rnpRecF] at h; cases h
  | succ rf ih =>
    intro cur prior best best' items r r' hb h h'
    cases h2 : cur == 2 with
    | true =>
      have := eq_of_beq h2
      subst this
      exact ckk2_sums_eq (rnpRecF_two_eq h) (rnpRecF_two_eq h')
    | false =>
      cases h1 : cur % 2 == 1 with
      | true =>
        have hodd : cur % 2 = 1 := eq_of_beq h1
        rw [rnpRecF_odd_eq hodd] at h h'
        rw [← hb] at h'
        refine foldE_sim (fun b b' : Bins α => b.sums = b'.sums) _ _ ?_ _ _ _ _ _ hb h h'
        intro s s' x t t' hs ht ht'
        obtain ⟨nb, hnb, hcase⟩ := oddStep_cases ht
        obtain ⟨nb', hnb', hcase'⟩ := oddStep_cases ht'
        have e := ih _ _ _ _ _ _ _ hs hnb hnb'
        rw [← e, ← hs] at hcase'
        rcases hcase with ⟨hlt, rfl⟩ | ⟨hle, rfl⟩ <;> rcases hcase' with ⟨hlt', rfl⟩ | ⟨hle', rfl⟩
        · simp only [Bins.concat, e]
        · omega
        · omega
        · exact hs
      | false =>
        rw [rnpRecF_even_eq h2 h1] at h h'
        rw [← hb] at h'
        split at h
        · cases h
        · rename_i tops hg
          rw [hg] at h'
          simp only at h'
          cases hf : foldE (evenStep v nm c fuel rf (cur / 2) prior) (best, spread best.sums) tops with
          | error e => rw [hf] at h; cases h
          | ok st =>
            rw [hf] at h
            cases hf' : foldE (evenStep v nm c' fuel rf (cur / 2) prior) (best', spread best.sums) tops with
            | error e => rw [hf'] at h'; cases h'
            | ok st' =>
              rw [hf'] at h'
              simp only [Except.map] at h h'
              cases h; cases h'
              refine (foldE_sim (fun (s s' : Bins α × Nat) => s.1.sums = s'.1.sums ∧ s.2 = s'.2) _ _ ?_
                tops (best, spread best.sums) (best', spread best.sums) st st' ⟨hb, rfl⟩ hf hf').1
              intro s s' x t t' hs ht ht'
              obtain ⟨nb1, nb2, hn1, hn2, hcase⟩ := evenStep_cases ht
              obtain ⟨nb1', nb2', hn1', hn2', hcase'⟩ := evenStep_cases ht'
              have e1 := ih _ _ _ _ _ _ _ hs.1 hn1 hn1'
              have e2 := ih _ _ _ _ _ _ _ hs.1 hn2 hn2'
              rw [← e1, ← e2, ← hs.2] at hcase'
              rcases hcase with ⟨hlt, rfl⟩ | ⟨hle, rfl⟩ <;> rcases hcase' with ⟨hlt', rfl⟩ | ⟨hle', rfl⟩
              · exact ⟨by simp only [Bins.concat, e1, e2], rfl⟩
              · omega
              · omega
              · exact hs

/-- **Stretch goal, RNP: the vector of sums does not depend on the manager** (same call, hence same fuel: the
    top-level 2-way generator of the even case, which runs with the contents manager in both runs, uses it). -/
theorem rnpF_sums_manager_independent {v nm : α → Nat} [BEq α] [LawfulBEq α] {k : Nat} {items : List α}
    {fuel : Nat} {b₁ b₂ : Bins α} (h₁ : rnpF v nm k true items fuel = .ok b₁)
    (h₂ : rnpF v nm k false items fuel = .ok b₂) : b₂.sums = b₁.sums := by
  unfold rnpF at h₁ h₂
  cases hb : kk v k items with
  | error e => rw [hb] at h₁; cases h₁
  | ok best =>
    rw [hb] at h₁ h₂
    simp only at h₁ h₂
    split at h₁
    · rename_i h0
      rw [if_pos h0] at h₂
      cases h₁; cases h₂; rfl
    · rename_i h0
      rw [if_neg h0] at h₂
      split at h₁
      · cases h₁
      · rename_i h6
        rw [if_neg h6] at h₂
        exact (rnpRecF_sim true false fuel (k + 1) k _ best best items b₁ b₂ rfl h₁ h₂).symm

/-- non-vacuity: the two runs on eight items and five bins -/
example : (⟨[9, 9, 12, 11, 12], [[9], [], [], [], []]⟩ : Bins Nat).sums
    = (⟨[9, 9, 12, 11, 12], [[9], [9], [6, 6], [11], [4, 4, 4]]⟩ : Bins Nat).sums :=
  rnpF_sums_manager_independent (v := id) (nm := id) (k := 5) (items := [11, 9, 9, 6, 6, 4, 4, 4])
    (fuel := 1000) rfl rfl


/-! ## 5. C06: the value does not depend on the manager -/

/-- **C06 for SNP**: the difference between the largest and the smallest sum is the same whether the run keeps the
    contents or only the sums (both are the optimum; here even as a corollary of the equality of the sums). -/
theorem snp_value_manager_independent {v nm : α → Nat} [BEq α] [LawfulBEq α] {k : Nat} {items : List α}
    {fuel₁ fuel₂ : Nat} {b₁ b₂ : Bins α} (h₁ : snp v nm k true items fuel₁ = .ok b₁)
    (h₂ : snp v nm k false items fuel₂ = .ok b₂) : spread b₁.sums = spread b₂.sums := by
  rw [snp_sums_manager_independent h₁ h₂]

example : spread (⟨[12, 12, 9, 11, 9], [[4, 4, 4], [6, 6], [9], [11], [9]]⟩ : Bins Nat).sums
    = spread (⟨[12, 12, 9, 11, 9], [[], [], [9], [11], [9]]⟩ : Bins Nat).sums :=
  snp_value_manager_independent (v := id) (nm := id) (k := 5) (items := [11, 9, 9, 6, 6, 4, 4, 4])
    (fuel₁ := 1000) (fuel₂ := 1000) rfl rfl

/-- the same through optimality (the route that does not need the lock-step argument): any two runs of `snp`,
    whatever their managers and fuels, return the same difference -/
theorem snp_value_any {v nm : α → Nat} [BEq α] [LawfulBEq α] {c₁ c₂ : Bool} {k : Nat} {items : List α}
    {fuel₁ fuel₂ : Nat} {b₁ b₂ : Bins α} (hk : 0 < k) (hne : items ≠ [])
    (h₁ : snp v nm k c₁ items fuel₁ = .ok b₁) (h₂ : snp v nm k c₂ items fuel₂ = .ok b₂) :
    spread b₁.sums = spread b₂.sums := by
  have := Oracle.isOptimalValue_unique (snp_optimal_any c₁ hk hne h₁).2 (snp_optimal_any c₂ hk hne h₂).2
  rw [value_minDiff, value_minDiff] at this
  exact_mod_cast this

/-- **C06 for RNP** (`numbins ≤ 5`; for more bins the model answers `notImplemented` with either manager) -/
theorem rnpF_value_manager_independent {v nm : α → Nat} [BEq α] [LawfulBEq α] {k : Nat} {items : List α}
    {fuel : Nat} {b₁ b₂ : Bins α} (h₁ : rnpF v nm k true items fuel = .ok b₁)
    (h₂ : rnpF v nm k false items fuel = .ok b₂) : spread b₁.sums = spread b₂.sums := by
  rw [rnpF_sums_manager_independent h₁ h₂]

example : spread (⟨[9, 9, 12, 11, 12], [[9], [9], [6, 6], [11], [4, 4, 4]]⟩ : Bins Nat).sums
    = spread (⟨[9, 9, 12, 11, 12], [[9], [], [], [], []]⟩ : Bins Nat).sums :=
  rnpF_value_manager_independent (v := id) (nm := id) (k := 5) (items := [11, 9, 9, 6, 6, 4, 4, 4])
    (fuel := 1000) rfl rfl

/-- the same through optimality, with independent fuels -/
theorem rnpF_value_any {v nm : α → Nat} [BEq α] [LawfulBEq α] {c₁ c₂ : Bool} {k : Nat} {items : List α}
    {fuel₁ fuel₂ : Nat} {b₁ b₂ : Bins α} (hk : 0 < k) (hk5 : k ≤ 5) (hne : items ≠ [])
    (h₁ : rnpF v nm k c₁ items fuel₁ = .ok b₁) (h₂ : rnpF v nm k c₂ items fuel₂ = .ok b₂) :
    spread b₁.sums = spread b₂.sums := by
  have := Oracle.isOptimalValue_unique (rnpF_optimal_any c₁ hk hk5 hne h₁).2 (rnpF_optimal_any c₂ hk hk5 hne h₂).2
  rw [value_minDiff, value_minDiff] at this
  exact_mod_cast this


end Prtpy.SumsOnly

/-
Axiom audit (output of `#print axioms` observed with `lake env lean`):

'Prtpy.SumsOnly.ckk2_twoOK' depends on axioms: [propext, Classical.choice, Quot.sound]
'Prtpy.SumsOnly.snp_sums_optimal' depends on axioms: [propext, Classical.choice, Quot.sound]
'Prtpy.SumsOnly.snp_optimal_any' depends on axioms: [propext, Classical.choice, Quot.sound]
'Prtpy.SumsOnly.rnpF_sums_optimal' depends on axioms: [propext, Classical.choice, Quot.sound]
'Prtpy.SumsOnly.rnpF_optimal_any' depends on axioms: [propext, Classical.choice, Quot.sound]
'Prtpy.SumsOnly.snp_sums_manager_independent' depends on axioms: [propext, Classical.choice, Quot.sound]
'Prtpy.SumsOnly.rnpF_sums_manager_independent' depends on axioms: [propext, Classical.choice, Quot.sound]
'Prtpy.SumsOnly.snp_value_manager_independent' depends on axioms: [propext, Classical.choice, Quot.sound]
'Prtpy.SumsOnly.snp_value_any' depends on axioms: [propext, Classical.choice, Quot.sound]
'Prtpy.SumsOnly.rnpF_value_manager_independent' depends on axioms: [propext, Classical.choice, Quot.sound]
'Prtpy.SumsOnly.rnpF_value_any' depends on axioms: [propext, Classical.choice, Quot.sound]
'Prtpy.SumsOnly.snpRec_sim' depends on axioms: [propext, Classical.choice, Quot.sound]
'Prtpy.SumsOnly.rnpRecF_sim' depends on axioms: [propext, Classical.choice, Quot.sound]
-/
