/-
  PrtpyProofs.CBLDMOpt — optimality of the complete balanced largest-differencing method (`Prtpy.cbldm`)
  without a time limit (property C12): the result is never the placeholder and its sum difference is the
  least one over all two-way partitions whose cardinalities differ by at most the bound.

  Proof architecture.
  * Every sub-partition `p` is abstracted to its *signature* `sig p : Int × Int` = (sum of bin 1 − sum of bin 0,
    cardinality of bin 1 − cardinality of bin 0); `sumDiff p` and `lenDiff p` are the absolute values.
  * `Comb L X M`: `(X, M)` is a signed combination `Σ ±cᵢ` of the signatures in `L`.  The leaves below a node are
    exactly the signed combinations of the node's signatures (`comb_children`: each signed combination of
    `a :: b :: rest` is one of `split a b :: rest` or of `combine a b :: rest`); reordering only permutes
    (`Comb.perm`).
  * Both prunes are sound (`comb_lower`, `sumPrune_sound`, `cardPrune_sound`): every signed combination has
    `|X| ≥ 2 * max |xᵢ| − Σ |xᵢ|`, and likewise for the cardinalities.
  * `cbPart_opt` threads the invariant through the run: afterwards the incumbent `sd` is at most `|X|` for every
    feasible signed combination `(X, M)` (`|M| ≤ d`) of the node.
  * The signed combinations of the root are exactly the `(2 * sum sub − total, 2 * |sub| − n)` for sub-lists
    `sub` of the values (`comb_of_sublist`), whence the connection with `optBalanced_spec`.
-/
import Prtpy
import PrtpyProofs.CBLDM
import PrtpyProofs.Checkers
open Prtpy Prtpy.CBLDMProofs

namespace Prtpy.CBLDMOpt

variable {α : Type}

/-! ## Signatures and signed combinations -/

/-- signed differences of a sub-partition: (sum of bin 1 − sum of bin 0, size of bin 1 − size of bin 0) -/
def sig (p : Bins α) : Int × Int :=
  ((p.sums.getD 1 0 : Int) - (p.sums.getD 0 0 : Int),
   ((p.lists.getD 1 []).length : Int) - ((p.lists.getD 0 []).length : Int))

theorem sumDiff_eq (p : Bins α) : sumDiff p = (sig p).1.natAbs := by
  simp only [sumDiff, absDiff, sig]; split <;> omega

theorem lenDiff_eq (p : Bins α) : lenDiff p = (sig p).2.natAbs := by
  simp only [lenDiff, absDiff, sig]; split <;> omega

/-- `(X, M)` is a signed combination `Σ ±cᵢ` of the pairs in the list -/
inductive Comb : List (Int × Int) → Int → Int → Prop
  | nil : Comb [] 0 0
  | pos {L : List (Int × Int)} {X M : Int} (x m : Int) : Comb L X M → Comb ((x, m) :: L) (X + x) (M + m)
  | neg {L : List (Int × Int)} {X M : Int} (x m : Int) : Comb L X M → Comb ((x, m) :: L) (X - x) (M - m)

theorem Comb.cast {L : List (Int × Int)} {X M X' M' : Int} (h : Comb L X M) (hX : X = X') (hM : M = M') :
    Comb L X' M' := by
  subst hX hM; exact h

theorem comb_nil {X M : Int} : Comb [] X M ↔ X = 0 ∧ M = 0 := by
  constructor
  · intro h; cases h; exact ⟨rfl, rfl⟩
  · rintro ⟨rfl, rfl⟩; exact Comb.nil

theorem comb_cons {c : Int × Int} {L : List (Int × Int)} {X M : Int} :
    Comb (c :: L) X M ↔
      ∃ X0 M0, Comb L X0 M0 ∧ ((X = X0 + c.1 ∧ M = M0 + c.2) ∨ (X = X0 - c.1 ∧ M = M0 - c.2)) := by
  constructor
  · intro h
    cases h with
    | pos x m h => exact ⟨_, _, h, Or.inl ⟨rfl, rfl⟩⟩
    | neg x m h => exact ⟨_, _, h, Or.inr ⟨rfl, rfl⟩⟩
  · obtain ⟨x, m⟩ := c
    rintro ⟨X0, M0, h, ⟨rfl, rfl⟩ | ⟨rfl, rfl⟩⟩
    · exact Comb.pos x m h
    · exact Comb.neg x m h

/-- signed combinations do not depend on the order of the list -/
theorem Comb.perm {L L' : List (Int × Int)} (hp : L.Perm L') : ∀ {X M : Int}, Comb L X M → Comb L' X M := by
  induction hp with
  | nil => intro X M h; exact h
  | cons c _ ih =>
    intro X M h
    rw [comb_cons] at h ⊢
    obtain ⟨X0, M0, h0, hh⟩ := h
    exact ⟨X0, M0, ih h0, hh⟩
  | swap x y l =>
    intro X M h
    rw [comb_cons] at h
    obtain ⟨X1, M1, h1, hh1⟩ := h
    rw [comb_cons] at h1
    obtain ⟨X0, M0, h0, hh0⟩ := h1
    rcases hh1 with ⟨e1, e2⟩ | ⟨e1, e2⟩ <;> rcases hh0 with ⟨e3, e4⟩ | ⟨e3, e4⟩
    · exact comb_cons.2 ⟨X0 + y.1, M0 + y.2, comb_cons.2 ⟨X0, M0, h0, Or.inl ⟨rfl, rfl⟩⟩,
        Or.inl ⟨by omega, by omega⟩⟩
    · exact comb_cons.2 ⟨X0 + y.1, M0 + y.2, comb_cons.2 ⟨X0, M0, h0, Or.inl ⟨rfl, rfl⟩⟩,
        Or.inr ⟨by omega, by omega⟩⟩
    · exact comb_cons.2 ⟨X0 - y.1, M0 - y.2, comb_cons.2 ⟨X0, M0, h0, Or.inr ⟨rfl, rfl⟩⟩,
        Or.inl ⟨by omega, by omega⟩⟩
    · exact comb_cons.2 ⟨X0 - y.1, M0 - y.2, comb_cons.2 ⟨X0, M0, h0, Or.inr ⟨rfl, rfl⟩⟩,
        Or.inr ⟨by omega, by omega⟩⟩
  | trans _ _ ih1 ih2 => intro X M h; exact ih2 (ih1 h)

/-- **Completeness of one branching step**: a signed combination of `a :: b :: rest` either gives `a` and `b`
    opposite signs (then it is a signed combination of `±(b − a) :: rest`) or the same sign (then of
    `±(a + b) :: rest`). -/
theorem comb_children {a b cs cc : Int × Int} {rest : List (Int × Int)} {X M : Int}
    (hs : (cs.1 = b.1 - a.1 ∧ cs.2 = b.2 - a.2) ∨ (cs.1 = a.1 - b.1 ∧ cs.2 = a.2 - b.2))
    (hc : (cc.1 = a.1 + b.1 ∧ cc.2 = a.2 + b.2) ∨ (cc.1 = -(a.1 + b.1) ∧ cc.2 = -(a.2 + b.2)))
    (h : Comb (a :: b :: rest) X M) : Comb (cs :: rest) X M ∨ Comb (cc :: rest) X M := by
  rw [comb_cons] at h
  obtain ⟨X1, M1, h1, hh1⟩ := h
  rw [comb_cons] at h1
  obtain ⟨X0, M0, h0, hh0⟩ := h1
  rcases hh1 with ⟨e1, e2⟩ | ⟨e1, e2⟩ <;> rcases hh0 with ⟨e3, e4⟩ | ⟨e3, e4⟩
  · refine Or.inr (comb_cons.2 ⟨X0, M0, h0, ?_⟩); omega
  · refine Or.inl (comb_cons.2 ⟨X0, M0, h0, ?_⟩); omega
  · refine Or.inl (comb_cons.2 ⟨X0, M0, h0, ?_⟩); omega
  · refine Or.inr (comb_cons.2 ⟨X0, M0, h0, ?_⟩); omega

/-- **Soundness of one branching step**: the children's signed combinations are signed combinations of the
    parent (not needed for optimality, recorded for completeness of the picture). -/
theorem comb_of_child {a b c : Int × Int} {rest : List (Int × Int)} {X M : Int}
    (hc : (c.1 = b.1 - a.1 ∧ c.2 = b.2 - a.2) ∨ (c.1 = a.1 - b.1 ∧ c.2 = a.2 - b.2) ∨
          (c.1 = a.1 + b.1 ∧ c.2 = a.2 + b.2) ∨ (c.1 = -(a.1 + b.1) ∧ c.2 = -(a.2 + b.2)))
    (h : Comb (c :: rest) X M) : Comb (a :: b :: rest) X M := by
  rw [comb_cons] at h
  obtain ⟨X0, M0, h0, hh⟩ := h
  have key : ∀ (s t : Bool), X = (if s then X0 + b.1 else X0 - b.1) + (if t then a.1 else -a.1) →
      M = (if s then M0 + b.2 else M0 - b.2) + (if t then a.2 else -a.2) → Comb (a :: b :: rest) X M := by
    intro s t hX hM
    refine comb_cons.2 ⟨if s then X0 + b.1 else X0 - b.1, if s then M0 + b.2 else M0 - b.2,
      comb_cons.2 ⟨X0, M0, h0, ?_⟩, ?_⟩
    · cases s
      · exact Or.inr ⟨by simp, by simp⟩
      · exact Or.inl ⟨by simp, by simp⟩
    · cases t
      · refine Or.inr ⟨?_, ?_⟩
        · rw [hX]; simp only [Bool.false_eq_true, if_false]; omega
        · rw [hM]; simp only [Bool.false_eq_true, if_false]; omega
      · refine Or.inl ⟨?_, ?_⟩
        · rw [hX]; simp only [if_true]
        · rw [hM]; simp only [if_true]
  rcases hh with ⟨e1, e2⟩ | ⟨e1, e2⟩ <;> rcases hc with ⟨e3, e4⟩ | ⟨e3, e4⟩ | ⟨e3, e4⟩ | ⟨e3, e4⟩
  · exact key true false (by simp; omega) (by simp; omega)
  · exact key false true (by simp; omega) (by simp; omega)
  · exact key true true (by simp; omega) (by simp; omega)
  · exact key false false (by simp; omega) (by simp; omega)
  · exact key false true (by simp; omega) (by simp; omega)
  · exact key true false (by simp; omega) (by simp; omega)
  · exact key false false (by simp; omega) (by simp; omega)
  · exact key true true (by simp; omega) (by simp; omega)

/-! ## Soundness of the two prunes -/

/-- every signed combination `X = Σ ±xᵢ` has `|X| ≤ Σ |xᵢ|` and `2 * max |xᵢ| − Σ |xᵢ| ≤ |X|`; same for `M` -/
theorem comb_lower {L : List (Int × Int)} {X M : Int} (h : Comb L X M) :
    (X.natAbs ≤ sumL (L.map fun c => c.1.natAbs) ∧
      2 * maxL (L.map fun c => c.1.natAbs) ≤ X.natAbs + sumL (L.map fun c => c.1.natAbs)) ∧
    (M.natAbs ≤ sumL (L.map fun c => c.2.natAbs) ∧
      2 * maxL (L.map fun c => c.2.natAbs) ≤ M.natAbs + sumL (L.map fun c => c.2.natAbs)) := by
  induction h with
  | nil => simp [sumL, maxL]
  | pos x m _ ih =>
    simp only [List.map_cons, sumL, maxL]
    omega
  | neg x m _ ih =>
    simp only [List.map_cons, sumL, maxL]
    omega

theorem map_sig_fst (subs : List (Bins α)) :
    (subs.map sig).map (fun c => c.1.natAbs) = subs.map sumDiff := by
  rw [List.map_map]
  exact List.map_congr_left (fun p _ => (sumDiff_eq p).symm)

theorem map_sig_snd (subs : List (Bins α)) :
    (subs.map sig).map (fun c => c.2.natAbs) = subs.map lenDiff := by
  rw [List.map_map]
  exact List.map_congr_left (fun p _ => (lenDiff_eq p).symm)

/-- **the sum prune is sound**: when `2 * max_x − Σx ≥ s`, no leaf below the node has a sum difference `< s` -/
theorem sumPrune_sound {s : Nat} {subs : List (Bins α)} {X M : Int}
    (hp : sumPrune (some s) subs = true) (h : Comb (subs.map sig) X M) : s ≤ X.natAbs := by
  have hl := (comb_lower h).1.2
  rw [map_sig_fst] at hl
  simp only [sumPrune, decide_eq_true_eq] at hp
  omega

/-- **the cardinality prune is sound**: when `2 * max_m − Σm > d`, no leaf below the node is feasible -/
theorem cardPrune_sound {d : Nat} {subs : List (Bins α)} {X M : Int}
    (hp : cardPrune d subs = true) (h : Comb (subs.map sig) X M) : d < M.natAbs := by
  have hl := (comb_lower h).2.2
  rw [map_sig_snd] at hl
  simp only [cardPrune, decide_eq_true_eq] at hp
  omega

/-! ## Signatures of the two children -/

theorem sig_combine (a b : Bins α) :
    ((sig (cbCombine a b)).1 = (sig a).1 + (sig b).1 ∧ (sig (cbCombine a b)).2 = (sig a).2 + (sig b).2) ∨
    ((sig (cbCombine a b)).1 = -((sig a).1 + (sig b).1) ∧
      (sig (cbCombine a b)).2 = -((sig a).2 + (sig b).2)) := by
  simp only [cbCombine, sortAsc_two]
  split
  · left
    simp only [sig, List.getD_cons_zero, List.getD_cons_succ, List.length_append]
    omega
  · right
    simp only [sig, List.getD_cons_zero, List.getD_cons_succ, List.length_append]
    omega

theorem sig_split (a b : Bins α) :
    ((sig (cbSplit a b)).1 = (sig b).1 - (sig a).1 ∧ (sig (cbSplit a b)).2 = (sig b).2 - (sig a).2) ∨
    ((sig (cbSplit a b)).1 = (sig a).1 - (sig b).1 ∧ (sig (cbSplit a b)).2 = (sig a).2 - (sig b).2) := by
  simp only [cbSplit, sortAsc_two]
  split
  · left
    simp only [sig, List.getD_cons_zero, List.getD_cons_succ, List.length_append]
    omega
  · right
    simp only [sig, List.getD_cons_zero, List.getD_cons_succ, List.length_append]
    omega

/-! ## The invariant of the run -/

/-- `sd ≤ s` where `sd = none` is `+∞` -/
def Bound (sd : Option Nat) (s : Nat) : Prop := ∃ t, sd = some t ∧ t ≤ s

/-- state invariant: the optimality flag is raised only at `sd = 0`, and `sd` is the incumbent's sum difference -/
def Inv (st : CbState α) : Prop :=
  (st.opt = true → st.sd = some 0) ∧ (∀ t, st.sd = some t → ∃ b, st.best = some b ∧ sumDiff b = t)

theorem leaf_spec (d : Nat) (st : CbState α) (p : Bins α) (hinv : Inv st) :
    Inv (leaf d st p) ∧ (∀ s, Bound st.sd s → Bound (leaf d st p).sd s) ∧
      (lenDiff p ≤ d → Bound (leaf d st p).sd (sumDiff p)) := by
  unfold leaf
  split
  · rename_i hc
    simp only [Bool.and_eq_true, decide_eq_true_eq] at hc
    refine ⟨⟨?_, ?_⟩, ?_, ?_⟩
    · intro h
      simp only [decide_eq_true_eq] at h
      show some (sumDiff p) = some 0
      rw [h]
    · intro t ht
      exact ⟨p, rfl, Option.some.inj ht⟩
    · rintro s ⟨t, ht, hts⟩
      refine ⟨sumDiff p, rfl, ?_⟩
      have h2 := hc.2
      rw [ht] at h2
      simp only [ltInf, decide_eq_true_eq] at h2
      omega
    · intro _; exact ⟨sumDiff p, rfl, Nat.le_refl _⟩
  · rename_i hc
    refine ⟨hinv, fun s h => h, ?_⟩
    intro hl
    cases hsd : st.sd with
    | none =>
      exfalso; apply hc
      simp only [hsd, ltInf, Bool.and_true, decide_eq_true_eq]; exact hl
    | some t =>
      refine ⟨t, rfl, ?_⟩
      simp only [hsd, ltInf, Bool.and_eq_true, decide_eq_true_eq, not_and] at hc
      have := hc hl
      omega

/-- **Main invariant.**  Without a time limit, a call on a non-empty node with enough fuel keeps the state
    invariant, never increases `sd`, and afterwards `sd` is at most the sum difference `|X|` of every feasible
    (`|M| ≤ d`) leaf `(X, M)` below the node. -/
theorem cbPart_opt (n d : Nat) :
    ∀ fuel (st : CbState α) subs, subs.length ≤ fuel → subs ≠ [] → Inv st →
      Inv (cbPart n d none fuel st subs) ∧
      (∀ s, Bound st.sd s → Bound (cbPart n d none fuel st subs).sd s) ∧
      (∀ X M, Comb (subs.map sig) X M → M.natAbs ≤ d →
        Bound (cbPart n d none fuel st subs).sd X.natAbs) := by
  refine cbPart_induct n d none
    (fun fuel st subs out => subs.length ≤ fuel → subs ≠ [] → Inv st →
      Inv out ∧ (∀ s, Bound st.sd s → Bound out.sd s) ∧
      (∀ X M, Comb (subs.map sig) X M → M.natAbs ≤ d → Bound out.sd X.natAbs)) ?_ ?_ ?_ ?_ ?_ ?_
  · intro st subs hl hne
    cases subs with
    | nil => exact absurd rfl hne
    | cons _ _ => simp only [List.length_cons] at hl; omega
  · intro fuel st subs hstop _ _ hinv
    simp only [stopNow, timeUp, Bool.false_or] at hstop
    exact ⟨hinv, fun s h => h, fun X M _ _ => ⟨0, hinv.1 hstop, Nat.zero_le _⟩⟩
  · intro fuel st _ _ hne; exact absurd rfl hne
  · intro fuel st p _ _ _ hinv
    obtain ⟨h1, h2, h3⟩ := leaf_spec d (tickSt st) p hinv
    refine ⟨h1, h2, ?_⟩
    intro X M hC hM
    simp only [List.map_cons, List.map_nil] at hC
    rw [comb_cons] at hC
    obtain ⟨X0, M0, h0, hh⟩ := hC
    obtain ⟨rfl, rfl⟩ := comb_nil.1 h0
    have e1 := sumDiff_eq p
    have e2 := lenDiff_eq p
    have hX : X.natAbs = sumDiff p := by omega
    rw [hX]
    exact h3 (by omega)
  · intro fuel st subs _ _ hp _ _ hinv
    refine ⟨hinv, fun s h => h, ?_⟩
    intro X M hC hM
    rcases Bool.or_eq_true_iff.1 hp with hp | hp
    · cases hsd : st.sd with
      | none => rw [hsd] at hp; simp [sumPrune] at hp
      | some s =>
        rw [hsd] at hp
        exact ⟨s, hsd, sumPrune_sound hp hC⟩
    · have := cardPrune_sound hp hC
      omega
  · intro fuel st subs a b rest st1 st2 _ _ _ ho ih1 ih2 hl _ hinv
    have hperm : (a :: b :: rest).Perm subs := ho ▸ order_perm n subs
    have hlen := hperm.length_eq
    simp only [List.length_cons] at hlen
    obtain ⟨i1, m1, c1⟩ := ih1 (by simp only [List.length_append, List.length_cons, List.length_nil]; omega)
      (by simp) hinv
    obtain ⟨i2, m2, c2⟩ := ih2 (by simp only [List.length_append, List.length_cons, List.length_nil]; omega)
      (by simp) i1
    refine ⟨i2, fun s h => m2 s (m1 s h), ?_⟩
    intro X M hC hM
    have hC' : Comb (sig a :: sig b :: rest.map sig) X M := hC.perm (hperm.symm.map sig)
    rcases comb_children (sig_split a b) (sig_combine a b) hC' with h | h
    · have h' : Comb ((rest ++ [cbSplit a b]).map sig) X M :=
        h.perm ((List.perm_append_singleton (cbSplit a b) rest).symm.map sig)
      exact m2 _ (c1 X M h' hM)
    · have h' : Comb ((rest ++ [cbCombine a b]).map sig) X M :=
        h.perm ((List.perm_append_singleton (cbCombine a b) rest).symm.map sig)
      exact c2 X M h' hM

/-! ## The root: signed combinations are the sub-lists -/

/-- the pair attached to a single value at the root -/
def unit (x : Nat) : Int × Int := ((x : Int), 1)

/-- **Completeness of the unpruned tree at the root**: every sub-list `sub` of the values (against its
    complement) is a signed combination of the root's signatures. -/
theorem comb_of_sublist {sub vals : List Nat} (h : sub.Sublist vals) :
    Comb (vals.map unit) (2 * (sumL sub : Int) - (sumL vals : Int))
      (2 * (sub.length : Int) - (vals.length : Int)) := by
  induction h with
  | slnil => exact Comb.nil.cast (by simp [sumL]) (by simp)
  | cons a _ ih =>
    exact (Comb.neg (a : Int) 1 ih).cast (by simp only [sumL]; omega) (by simp only [List.length_cons]; omega)
  | cons_cons a _ ih =>
    exact (Comb.pos (a : Int) 1 ih).cast (by simp only [sumL]; omega) (by simp only [List.length_cons]; omega)

theorem init_sig (v : α → Nat) (l : List α) :
    (l.map fun x => (Bins.new 2).add v x 1).map sig = (l.map v).map unit := by
  rw [List.map_map, List.map_map]
  refine List.map_congr_left (fun x _ => ?_)
  simp only [Function.comp, init_sub, sig, unit, binSum, List.getD_cons_zero, List.getD_cons_succ,
    List.map_cons, List.map_nil, sumL, List.length_cons, List.length_nil]
  simp

theorem absDiffN_eq (a b : Nat) : optBalanced.absDiffN a b = ((a : Int) - (b : Int)).natAbs := by
  simp only [optBalanced.absDiffN]; split <;> omega

/-- Core statement, directly with sub-lists: the result exists, obeys the bound and is at least as good as every
    sub-list (against its complement) that obeys the bound.  Slightly more general than required: a bound of 0
    is allowed when the number of items is even (with an odd number of items and bound 0 nothing is feasible
    and the model returns the placeholder). -/
theorem cbldm_core (v : α → Nat) (items : List α) (d : Option Nat) (hne : items ≠ [])
    (hd : ∀ dd, d = some dd → 1 ≤ dd ∨ items.length % 2 = 0) :
    ∃ b, cbldm v items d none = some b ∧ lenDiff b ≤ d.getD (items.length + 1) ∧
      ∀ sub : List Nat, sub.Sublist (items.map v) →
        optBalanced.absDiffN (2 * sub.length) items.length ≤ d.getD (items.length + 1) →
        sumDiff b ≤ optBalanced.absDiffN (2 * sumL sub) (sumL (items.map v)) := by
  have hsp := sortDesc_perm v items
  have hlen : (sortDesc v items).length = items.length := hsp.length_eq
  have hpos : 1 ≤ items.length := by
    cases items with
    | nil => exact absurd rfl hne
    | cons _ _ => simp
  -- the run
  let subs0 := (sortDesc v items).map fun x => (Bins.new 2).add v x 1
  let st0 : CbState α := { best := none, sd := none, opt := false, tick := 0 }
  let dd := d.getD ((sortDesc v items).length + 1)
  let out := cbPart (sortDesc v items).length dd none ((sortDesc v items).length + 1) st0 subs0
  have hrun : cbldm v items d none = out.best := rfl
  have hdd : dd = d.getD (items.length + 1) := by simp only [dd, hlen]
  have hinv0 : Inv st0 := ⟨fun h => (by cases h), fun t h => (by cases h)⟩
  have hsubs_len : subs0.length = (sortDesc v items).length := by simp only [subs0, List.length_map]
  have hsubs_ne : subs0 ≠ [] := by
    intro h
    have := congrArg List.length h
    rw [hsubs_len, hlen] at this
    simp only [List.length_nil] at this; omega
  obtain ⟨hI, _, hC⟩ := cbPart_opt (sortDesc v items).length dd ((sortDesc v items).length + 1) st0 subs0
    (by rw [hsubs_len]; omega) hsubs_ne hinv0
  -- every admissible sub-list bounds the final `sd`
  have hcover : ∀ sub : List Nat, sub.Sublist (items.map v) →
      optBalanced.absDiffN (2 * sub.length) items.length ≤ dd →
      Bound out.sd (optBalanced.absDiffN (2 * sumL sub) (sumL (items.map v))) := by
    intro sub hsub hcard
    have h1 := comb_of_sublist hsub
    have h2 := h1.perm (((hsp.map v).symm).map unit)
    rw [← init_sig] at h2
    rw [absDiffN_eq] at hcard ⊢
    simp only [List.length_map] at h2
    have h3 := hC _ _ h2 (by
      have : ((2 * sub.length : Nat) : Int) = 2 * (sub.length : Int) := by omega
      rw [this] at hcard; exact hcard)
    have : ((2 * sumL sub : Nat) : Int) = 2 * (sumL sub : Int) := by omega
    rw [this]; exact h3
  -- a feasible sub-list exists: the first half
  have hfeas : optBalanced.absDiffN (2 * ((items.map v).take (items.length / 2)).length) items.length ≤ dd := by
    rw [absDiffN_eq, List.length_take, List.length_map]
    have h1 : 1 ≤ dd ∨ items.length % 2 = 0 := by
      cases d with
      | none => left; simp only [dd, Option.getD_none]; omega
      | some x => simp only [dd, Option.getD_some]; exact hd x rfl
    omega
  obtain ⟨t, ht, _⟩ := hcover _ (List.take_sublist _ _) hfeas
  obtain ⟨b, hb, hbt⟩ := hI.2 t ht
  refine ⟨b, hrun.trans hb, ?_, ?_⟩
  · rw [← hdd]
    exact cbPart_best_card _ _ none _ _ _ (by intro b hb; cases hb) b hb
  · intro sub hsub hcard
    rw [← hdd] at hcard
    obtain ⟨t', ht', hle⟩ := hcover sub hsub hcard
    rw [ht] at ht'
    cases ht'
    omega

/-! ## The main theorems (C12) -/

/-- **Never the placeholder** (C12): without a time limit, a non-empty input and a cardinality bound `≥ 1`
    (or none) always produce a partition. -/
theorem cbldm_some {v : α → Nat} {items : List α} {d : Option Nat} (hne : items ≠ [])
    (hd : ∀ dd, d = some dd → 1 ≤ dd) : ∃ b, cbldm v items d none = some b := by
  obtain ⟨b, hb, _⟩ := cbldm_core v items d hne (fun dd h => Or.inl (hd dd h))
  exact ⟨b, hb⟩

/-- non-vacuity: five items, cardinality bound 1 -/
example : ∃ b, cbldm (id : Nat → Nat) [4, 5, 6, 7, 8] (some 1) none = some b :=
  cbldm_some (by simp) (by intro dd h; cases h; exact Nat.le_refl 1)

/-- the two bins of a 2-partition, in terms of `optBalanced_spec`'s quantities -/
theorem partition_sublist {v : α → Nat} {items : List α} {b : Bins α} (h : IsPartition v items 2 b) :
    ∃ sub : List Nat, sub.Sublist (items.map v) ∧
      optBalanced.absDiffN (2 * sub.length) (items.map v).length = lenDiff b ∧
      optBalanced.absDiffN (2 * sumL sub) (sumL (items.map v)) = sumDiff b := by
  obtain ⟨sums, lists⟩ := b
  obtain ⟨hperm, hlen, hsums⟩ := h
  simp only at hperm hlen hsums
  match lists, hlen with
  | [l0, l1], _ =>
    simp only [List.flatten_cons, List.flatten_nil, List.append_nil] at hperm
    simp only [List.map_cons, List.map_nil] at hsums
    subst hsums
    obtain ⟨l0', hp0, hs0⟩ := List.exists_perm_sublist (List.sublist_append_left l0 l1) hperm
    refine ⟨l0'.map v, hs0.map v, ?_, ?_⟩
    · have e1 : (l0'.map v).length = l0.length := by rw [List.length_map]; exact hp0.length_eq
      have e2 : (items.map v).length = l0.length + l1.length := by
        rw [List.length_map, ← hperm.length_eq, List.length_append]
      rw [e1, e2]
      simp only [lenDiff, absDiff, optBalanced.absDiffN, List.getD_cons_zero, List.getD_cons_succ]
      split <;> split <;> omega
    · have e1 : sumL (l0'.map v) = binSum v l0 := Checkers.sumL_perm (hp0.map v)
      have e2 : sumL (items.map v) = binSum v l0 + binSum v l1 := by
        rw [← binSum_append]
        exact (Checkers.sumL_perm (hperm.map v)).symm
      rw [e1, e2]
      simp only [sumDiff, absDiff, optBalanced.absDiffN, List.getD_cons_zero, List.getD_cons_succ]
      split <;> split <;> omega

/-- **Optimality** (C12): without a time limit, the sum difference of the result is the least one among all
    two-way partitions of the items whose cardinalities differ by at most the bound (`optBalanced`, see
    `Checkers.optBalanced_spec`; a bound `≥ n` never binds). -/
theorem cbldm_optimal {v : α → Nat} {items : List α} {d : Option Nat} {b : Bins α} (hne : items ≠ [])
    (hd : ∀ dd, d = some dd → 1 ≤ dd) (h : cbldm v items d none = some b) :
    optBalanced (d.getD (items.length + 1)) (items.map v) = some (sumDiff b) := by
  obtain ⟨b', hb', hcard, hmin⟩ := cbldm_core v items d hne (fun dd h => Or.inl (hd dd h))
  rw [h] at hb'
  cases hb'
  obtain ⟨sub, hsub, e1, e2⟩ := partition_sublist (cbldm_isPartition v items d none b h)
  refine Checkers.optBalanced_spec.2 ⟨⟨sub, hsub, ?_, e2⟩, ?_⟩
  · rw [e1]; exact hcard
  · intro sub' hsub' hc'
    rw [List.length_map] at hc'
    exact hmin sub' hsub' hc'

/-- non-vacuity: `[1, 1, 1, 1, 10]` with cardinality bound 1: the model returns `{1, 1, 1}` against `{10, 1}`
    (difference 8), and 8 is the balanced optimum although the unbalanced optimum is 6 -/
example : optBalanced 1 [1, 1, 1, 1, 10] = some 8 :=
  cbldm_optimal (v := (id : Nat → Nat)) (items := [1, 1, 1, 1, 10]) (d := some 1)
    (b := ⟨[3, 11], [[1, 1, 1], [10, 1]]⟩) (by simp) (by intro dd h; cases h; exact Nat.le_refl 1) (by rfl)

/-- non-vacuity, unbounded: `{1, 1, 1, 1}` against `{10}`, difference 6 -/
example : optBalanced 6 [1, 1, 1, 1, 10] = some 6 :=
  cbldm_optimal (v := (id : Nat → Nat)) (items := [1, 1, 1, 1, 10]) (d := none)
    (b := ⟨[4, 10], [[1, 1, 1, 1], [10]]⟩) (by simp) (by intro dd h; cases h) (by rfl)

/-- The same statement spelled out with sub-lists (no oracle): the result obeys the bound, and no sub-list of
    the values that obeys the bound does better against its complement. -/
theorem cbldm_optimal_sublist {v : α → Nat} {items : List α} {d : Option Nat} {b : Bins α} (hne : items ≠ [])
    (hd : ∀ dd, d = some dd → 1 ≤ dd) (h : cbldm v items d none = some b) :
    lenDiff b ≤ d.getD (items.length + 1) ∧
    ∀ sub : List Nat, sub.Sublist (items.map v) →
      optBalanced.absDiffN (2 * sub.length) items.length ≤ d.getD (items.length + 1) →
      sumDiff b ≤ optBalanced.absDiffN (2 * sumL sub) (sumL (items.map v)) := by
  obtain ⟨b', hb', hcard, hmin⟩ := cbldm_core v items d hne (fun dd h => Or.inl (hd dd h))
  rw [h] at hb'
  cases hb'
  exact ⟨hcard, hmin⟩

end Prtpy.CBLDMOpt

/-
#print axioms Prtpy.CBLDMOpt.sumPrune_sound
#print axioms Prtpy.CBLDMOpt.cardPrune_sound
#print axioms Prtpy.CBLDMOpt.comb_children
#print axioms Prtpy.CBLDMOpt.comb_of_sublist
#print axioms Prtpy.CBLDMOpt.cbPart_opt
#print axioms Prtpy.CBLDMOpt.cbldm_core
#print axioms Prtpy.CBLDMOpt.cbldm_some
#print axioms Prtpy.CBLDMOpt.cbldm_optimal
#print axioms Prtpy.CBLDMOpt.cbldm_optimal_sublist

observed output (Lean 4.33.0):
'Prtpy.CBLDMOpt.comb_of_sublist' depends on axioms: [propext, Quot.sound]
every other one: '<name>' depends on axioms: [propext, Classical.choice, Quot.sound]
-/
