/-
  PrtpyProofs.FF17AbsB — first fit / best fit, absolute bound `#bins ≤ ⌊1.7 · OPT⌋`: the open set of
  `PrtpyProofs.FF17Abs` is shrunk to runs whose output has a *half singleton*: a bin holding a single item `x`
  with `5/12 · B < v x ≤ B/2` (`HalfSingleton v B b.lists`, a decidable property of the output, `halfSingletonB`).

  `k = nBig v B items` is the number of items above `B/2` (`k ≤ m` by `FF17Abs.nBig_le`).  For a non-empty
  input, a successful run `b` of `ffOnline` / `bfOnline`, and `Packable B m (items.map v)`:

      ff_seventeen_tenths_plus_3_partial / bf_…   :  ¬ HalfSingleton v B b.lists → 10 · #bins ≤ 17 · m + 3
      ff_fifteen_tenths_big_j / bf_…              :  ¬ HalfSingleton … → 1 ≤ j ≤ 3 → j ≤ k →
                                                       10 · #bins + j ≤ 15 · m + 2 · k + 6
      ff_seventeen_tenths_abs_partial2 / bf_…     :  ¬ HalfSingleton … → 10 · #bins ≤ 17 · m   provided
                                                       k + 2 ≤ m  ∨  (k + 1 ≤ m ∧ m % 10 ≠ 7)  ∨  m ≡ 2, 5, 8 (mod 10)
      (together with FF17Abs: without a half singleton the absolute bound is open only for
       `k = m − 1, m ≡ 7` and `k = m, m ≡ 1, 4, 7 (mod 10)`; with a half singleton the open set is as in FF17Abs.)

  Lemmas (on a list of bins `Ls` with `Ls.Pairwise (Rel v B)`, at least two bins, `0 < B`; `W` total weight, `n = #bins`):
      bins_weight5     :  `10·B·n < W + 6·B`  ∨  all bins but one more than `2/3` full (volume, strict)
                          ∨  no big bin and `10·B·n < W + 8·B`  ∨  half singleton and `10·B·n < W + 7·B`
                          — the half singleton is the only configuration in which the weight argument loses `≥ 6/10`;
      bins_weight_big  :  no half singleton, at least `j ∈ {1,2,3}` big bins: `10·B·n + j·B < W + 7·B` ∨ volume;
      nBig_le_bigbins  :  at least as many big bins as items above `B/2`.
  How: as in FF17Abs, now using the surplus `12·s + 4·B − 10·B` of *every* big bin: next to a small bin `[x]`
  every big bin is more than `B − x` full, i.e. weighs `≥ 12·B` (`x < B/3`) or `≥ 11·B` (`x ≤ 5B/12`); in the
  chain-only case a chain bin `L'` with `B/3 < s(L') ≤ B/2` forces a big bin of weight `> 16·B − 12·s(L')`.

  NOT proved: the absolute bound in general (requested `ff_seventeen_tenths_abs`), and no unconditional constant
  below `+ 6`: with a half singleton (`x → 1/2`, a chain bin of sand of total `→ 1/2`, big bins `→ 1/2`) the weight
  function loses `7/10`, and only an amortisation against the optimum's bins (Dósa–Sgall) can recover it.
-/
import Prtpy
import PrtpyProofs.Fit
import PrtpyProofs.LPT43
import PrtpyProofs.FF17
import PrtpyProofs.FFD
import PrtpyProofs.FF17Abs
open Prtpy

namespace Prtpy.FF17AbsB

open Prtpy.FF17 Prtpy.FF17Abs

variable {α : Type}

section Bins
variable {v : α → Nat} {B : Nat}

/-- bins that are all more than `2/3` full -/
theorem vol23_all : ∀ Ls : List (List α), (∀ M ∈ Ls, 2 * B < 3 * binSum v M) →
    2 * (B * Ls.length) + Ls.length ≤ 3 * binSum v Ls.flatten
  | [], _ => by simp
  | M :: Ls, h => by
    have h1 := h M (by simp)
    have h2 := vol23_all Ls (fun M hM => h M (List.mem_cons_of_mem _ hM))
    simp only [List.length_cons, List.flatten_cons, Fit.binSum_append, Nat.mul_succ]
    omega

theorem vol23_one : ∀ Ls : List (List α), (∀ M ∈ Ls, 2 * B < 3 * binSum v M ∨ 3 * binSum v M ≤ B) →
    Ls.Pairwise (fun L M => B < binSum v L + binSum v M) →
    2 * (B * Ls.length) + Ls.length ≤ 3 * binSum v Ls.flatten + 2 * B + 1
  | [], _, _ => by simp
  | M :: Ls, h, hp => by
    rw [List.pairwise_cons] at hp
    simp only [List.length_cons, List.flatten_cons, Fit.binSum_append, Nat.mul_succ]
    rcases h M (by simp) with h1 | h1
    · have h2 := vol23_one Ls (fun M hM => h M (List.mem_cons_of_mem _ hM)) hp.2
      omega
    · have h2 := vol23_all (v := v) (B := B) Ls (fun M' hM' => by have := hp.1 M' hM'; omega)
      omega

/-- a bin holding a single item between `5/12` and `1/2` of the capacity -/
def HalfSingleton (v : α → Nat) (B : Nat) (Ls : List (List α)) : Prop :=
  ∃ x, [x] ∈ Ls ∧ 5 * B < 12 * v x ∧ 2 * v x ≤ B

/-- **Lemma B, third refinement**: with at least two bins, either fewer than `6/10` of a bin is lost, or all bins
    but one are more than `2/3` full, or no bin is big and fewer than `8/10` is lost, or some bin holds a single
    item between `5/12` and `1/2` (and fewer than `7/10` is lost) -/
theorem bins_weight5 {Ls : List (List α)} (hp : Ls.Pairwise (Rel v B)) (h2 : 2 ≤ Ls.length) (hB : 0 < B) :
    10 * (B * Ls.length) + 1 ≤ binSum (W v B) Ls.flatten + 6 * B ∨
    2 * (B * Ls.length) + Ls.length ≤ 3 * binSum v Ls.flatten + 2 * B + 1 ∨
    ((∀ L ∈ Ls, FF17.isBig v B L = false) ∧
      10 * (B * Ls.length) + 1 ≤ binSum (W v B) Ls.flatten + 8 * B) ∨
    (HalfSingleton v B Ls ∧ 10 * (B * Ls.length) + 1 ≤ binSum (W v B) Ls.flatten + 7 * B) := by
  obtain ⟨hlen, hw⟩ := split_kinds (v := v) (B := B) (W v B) Ls
  have hbigcl : ∀ L ∈ Ls.filter (kBig (v := v) (B := B)), FF17.isBig v B L = true :=
    fun L hL => by simpa [kBig] using (List.mem_filter.1 hL).2
  have hbig := big_total (v := v) (B := B) (Ls.filter (kBig (v := v) (B := B))) hbigcl
  have hbig' := big_total' (v := v) (B := B) (Ls.filter (kBig (v := v) (B := B))) hbigcl
  have hsm := small_count (v := v) (B := B) (Ls.filter (kSmall (v := v) (B := B)))
    (fun L hL => by simpa [kSmall] using (List.mem_filter.1 hL).2) (hp.filter _)
  have hchcl : ∀ L ∈ Ls.filter (kChain (v := v) (B := B)), FF17.isBig v B L = false ∧ 2 ≤ L.length :=
    fun L hL => by simpa [kChain] using (List.mem_filter.1 hL).2
  have hchp : (Ls.filter (kChain (v := v) (B := B))).Pairwise (Rel v B) := hp.filter _
  have hbgmem : ∀ L ∈ Ls.filter (kBig (v := v) (B := B)), L ∈ Ls ∧ kBig (v := v) (B := B) L = true :=
    fun L hL => List.mem_filter.1 hL
  have hsmmem : ∀ L ∈ Ls.filter (kSmall (v := v) (B := B)), L ∈ Ls ∧ kSmall (v := v) (B := B) L = true :=
    fun L hL => List.mem_filter.1 hL
  have hchmem : ∀ L ∈ Ls.filter (kChain (v := v) (B := B)), L ∈ Ls ∧ kChain (v := v) (B := B) L = true :=
    fun L hL => List.mem_filter.1 hL
  have hbgnil : Ls.filter (kBig (v := v) (B := B)) = [] → ∀ L ∈ Ls, FF17.isBig v B L = false := by
    intro h L hL
    have := (List.filter_eq_nil_iff.1 h) L hL
    simpa [kBig] using this
  generalize Ls.filter (kBig (v := v) (B := B)) = bg at *
  generalize Ls.filter (kSmall (v := v) (B := B)) = sm at *
  generalize Ls.filter (kChain (v := v) (B := B)) = ch at *
  by_cases hch : ch = []
  · subst hch
    left
    rw [hlen] at h2
    rw [hlen, hw]
    simp only [Nat.mul_add]
    match sm, hsm, hsmmem, h2 with
    | [], _, _, _ =>
      simp only [List.length_nil, List.flatten_nil]
      simp only [binSum, List.map_nil, sumL] at *
      omega
    | [S], _, hsmmem, h2 =>
      match bg, hbig', hbgmem, h2 with
      | [], _, _, h2 => simp at h2
      | L :: bg', hbig', hbgmem, _ =>
        have hS := hsmmem S (by simp)
        have hL := hbgmem L (by simp)
        have hne : S ≠ L := by
          rintro rfl
          have h1 := hS.2
          have h3 := hL.2
          simp only [kSmall, kBig, Bool.and_eq_true, Bool.not_eq_true'] at h1 h3
          rw [h3] at h1
          simp at h1
        have hsum := pairwise_sum hp hS.1 hL.1 hne
        have hb := hbig' L (by simp)
        have hwS := weight_ge (v := v) (B := B) S
        simp only [List.length_cons, List.length_nil, List.flatten_cons, List.flatten_nil, List.append_nil,
          Fit.binSum_append, Nat.mul_succ] at hb ⊢
        simp only [binSum, List.map_nil, sumL] at *
        omega
  · obtain ⟨L', hL', hcw⟩ := chain_weight ch hch hchcl hchp
    match sm, hsm, hsmmem with
    | [], _, _ =>
      by_cases ht : B < 3 * binSum v L'
      · left
        rw [hlen, hw]
        simp only [Nat.mul_add]
        simp only [List.length_nil, List.flatten_nil]
        simp only [binSum, List.map_nil, sumL] at *
        omega
      · right; left
        refine vol23_one Ls (fun M hM => ?_) (pairwise_rel_sum hp)
        by_cases hML : M = L'
        · subst hML; right; omega
        · left
          have := pairwise_sum hp hM (hchmem L' hL').1 hML
          omega
    | [S], _, hsmmem =>
      have hS := hsmmem S (by simp)
      have hL := hchmem L' hL'
      have hne : S ≠ L' := by
        rintro rfl
        have h1 := hS.2
        have h3 := hL.2
        simp only [kSmall, kChain, Bool.and_eq_true, decide_eq_true_eq] at h1 h3
        omega
      have hsum := pairwise_sum hp hS.1 hL.1 hne
      have hSk := hS.2
      simp only [kSmall, Bool.and_eq_true, Bool.not_eq_true', decide_eq_true_eq] at hSk
      have hwS : 12 * binSum v S + min B (6 * binSum v S - B) ≤ binSum (W v B) S := by
        match S, hSk with
        | [], _ => simp [binSum, sumL]
        | [x], hSk =>
          have hx := not_big hSk.1 x (by simp)
          simp only [binSum, List.map_cons, List.map_nil, sumL, W, wt, bonus, if_neg (Nat.not_lt.2 hx)]
          omega
        | _ :: _ :: _, hSk => simp at hSk
      have hbgS : ∀ L ∈ bg, B < binSum v L + binSum v S := by
        intro L hL
        have hLm := hbgmem L hL
        have hneL : L ≠ S := by
          rintro rfl
          have h1 := hS.2
          have h3 := hLm.2
          simp only [kSmall, kBig, Bool.and_eq_true, Bool.not_eq_true'] at h1 h3
          rw [h3] at h1
          simp at h1
        exact pairwise_sum hp hLm.1 hS.1 hneL
      by_cases hx5 : 5 * B < 12 * binSum v S
      · -- the single item of `S` lies between `5/12` and `1/2`
        right; right; right
        constructor
        · match S, hSk, hS, hx5 with
          | [], _, _, hx5 => simp [binSum, sumL] at hx5
          | [x], hSk, hS, hx5 =>
            have hx := not_big hSk.1 x (by simp)
            refine ⟨x, hS.1, ?_, hx⟩
            simpa [binSum, sumL] using hx5
          | _ :: _ :: _, hSk, _, _ => simp at hSk
        · rw [hlen, hw]
          simp only [Nat.mul_add]
          simp only [List.length_cons, List.length_nil, List.flatten_cons, List.flatten_nil, List.append_nil]
          omega
      · match bg, hbig, hbig', hbgS, hbgnil with
        | [], _, _, _, hbgnil =>
          right; right; left
          refine ⟨hbgnil rfl, ?_⟩
          rw [hlen, hw]
          simp only [Nat.mul_add]
          simp only [List.length_cons, List.length_nil, List.flatten_cons, List.flatten_nil, List.append_nil]
          simp only [binSum, List.map_nil, sumL] at *
          omega
        | L :: bg', hbig, hbig', hbgS, _ =>
          left
          have hb := hbig' L (by simp)
          have hLS := hbgS L (by simp)
          rw [hlen, hw]
          simp only [Nat.mul_add]
          simp only [List.length_cons, List.length_nil, List.flatten_cons, List.flatten_nil, List.append_nil,
            Fit.binSum_append, Nat.mul_succ] at hb ⊢
          omega

/-- big bins that are at least `7/12` full weigh at least `11/10` each -/
theorem big_total11 : ∀ Ls : List (List α), (∀ L ∈ Ls, FF17.isBig v B L = true ∧ 7 * B ≤ 12 * binSum v L) →
    11 * (B * Ls.length) ≤ binSum (W v B) Ls.flatten
  | [], _ => by simp
  | M :: Ls, h => by
    have h1 := big_weight' M (h M (by simp)).1
    have h1' := (h M (by simp)).2
    have h2 := big_total11 Ls (fun M hM => h M (List.mem_cons_of_mem _ hM))
    simp only [List.length_cons, List.flatten_cons, Fit.binSum_append, Nat.mul_succ]
    omega

/-- **Lemma B with `j ≤ 3` big bins counted**: without a bin holding a single item between `5/12` and `1/2`, and
    with at least `j` big bins (`1 ≤ j ≤ 3`), fewer than `(7 − j)/10` of a bin is lost, or all bins but one are
    more than `2/3` full -/
theorem bins_weight_big {Ls : List (List α)} (hp : Ls.Pairwise (Rel v B)) (h2 : 2 ≤ Ls.length) (hB : 0 < B)
    (hs : ¬ HalfSingleton v B Ls) (j : Nat) (hj1 : 1 ≤ j) (hj3 : j ≤ 3)
    (hjK : j ≤ (Ls.filter (kBig (v := v) (B := B))).length) :
    10 * (B * Ls.length) + 1 + B * j ≤ binSum (W v B) Ls.flatten + 7 * B ∨
    2 * (B * Ls.length) + Ls.length ≤ 3 * binSum v Ls.flatten + 2 * B + 1 := by
  obtain ⟨hlen, hw⟩ := split_kinds (v := v) (B := B) (W v B) Ls
  have hbigcl : ∀ L ∈ Ls.filter (kBig (v := v) (B := B)), FF17.isBig v B L = true :=
    fun L hL => by simpa [kBig] using (List.mem_filter.1 hL).2
  have hbig := big_total (v := v) (B := B) (Ls.filter (kBig (v := v) (B := B))) hbigcl
  have hbig' := big_total' (v := v) (B := B) (Ls.filter (kBig (v := v) (B := B))) hbigcl
  have hsm := small_count (v := v) (B := B) (Ls.filter (kSmall (v := v) (B := B)))
    (fun L hL => by simpa [kSmall] using (List.mem_filter.1 hL).2) (hp.filter _)
  have hchcl : ∀ L ∈ Ls.filter (kChain (v := v) (B := B)), FF17.isBig v B L = false ∧ 2 ≤ L.length :=
    fun L hL => by simpa [kChain] using (List.mem_filter.1 hL).2
  have hchp : (Ls.filter (kChain (v := v) (B := B))).Pairwise (Rel v B) := hp.filter _
  have hbgmem : ∀ L ∈ Ls.filter (kBig (v := v) (B := B)), L ∈ Ls ∧ kBig (v := v) (B := B) L = true :=
    fun L hL => List.mem_filter.1 hL
  have hsmmem : ∀ L ∈ Ls.filter (kSmall (v := v) (B := B)), L ∈ Ls ∧ kSmall (v := v) (B := B) L = true :=
    fun L hL => List.mem_filter.1 hL
  have hchmem : ∀ L ∈ Ls.filter (kChain (v := v) (B := B)), L ∈ Ls ∧ kChain (v := v) (B := B) L = true :=
    fun L hL => List.mem_filter.1 hL
  have hBj : B * j ≤ B * (Ls.filter (kBig (v := v) (B := B))).length := Nat.mul_le_mul_left B hjK
  have hBj3 : B * j ≤ B * 3 := Nat.mul_le_mul_left B hj3
  have hBj1 : B * 1 ≤ B * j := Nat.mul_le_mul_left B hj1
  generalize Ls.filter (kBig (v := v) (B := B)) = bg at *
  generalize Ls.filter (kSmall (v := v) (B := B)) = sm at *
  generalize Ls.filter (kChain (v := v) (B := B)) = ch at *
  by_cases hch : ch = []
  · subst hch
    left
    rw [hlen] at h2
    rw [hlen, hw]
    simp only [Nat.mul_add]
    match sm, hsm, hsmmem, h2 with
    | [], _, _, _ =>
      simp only [List.length_nil, List.flatten_nil]
      simp only [binSum, List.map_nil, sumL] at *
      omega
    | [S], _, hsmmem, h2 =>
      match bg, hbig', hbgmem, h2, hjK with
      | [], _, _, _, hjK => simp at hjK; omega
      | L :: bg', hbig', hbgmem, _, _ =>
        have hS := hsmmem S (by simp)
        have hL := hbgmem L (by simp)
        have hne : S ≠ L := by
          rintro rfl
          have h1 := hS.2
          have h3 := hL.2
          simp only [kSmall, kBig, Bool.and_eq_true, Bool.not_eq_true'] at h1 h3
          rw [h3] at h1
          simp at h1
        have hsum := pairwise_sum hp hS.1 hL.1 hne
        have hb := hbig' L (by simp)
        have hwS := weight_ge (v := v) (B := B) S
        simp only [List.length_cons, List.length_nil, List.flatten_cons, List.flatten_nil, List.append_nil,
          Fit.binSum_append, Nat.mul_succ] at hb ⊢
        simp only [binSum, List.map_nil, sumL] at *
        omega
  · obtain ⟨L', hL', hcw⟩ := chain_weight ch hch hchcl hchp
    match sm, hsm, hsmmem with
    | [], _, _ =>
      by_cases ht : B < 3 * binSum v L'
      · left
        rw [hlen, hw]
        simp only [Nat.mul_add]
        simp only [List.length_nil, List.flatten_nil]
        by_cases ht2 : B < 2 * binSum v L'
        · simp only [binSum, List.map_nil, sumL] at *
          omega
        · match bg, hbig', hbgmem, hjK with
          | [], _, _, hjK => simp at hjK; omega
          | L :: bg', hbig', hbgmem, _ =>
            have hL := hbgmem L (by simp)
            have hLc := hchmem L' hL'
            have hne : L ≠ L' := by
              rintro rfl
              have h1 := hL.2
              have h3 := hLc.2
              simp only [kChain, kBig, Bool.and_eq_true, Bool.not_eq_true'] at h1 h3
              rw [h1] at h3
              simp at h3
            have hsum := pairwise_sum hp hL.1 hLc.1 hne
            have hb := hbig' L (by simp)
            simp only [List.length_cons, List.flatten_cons, Fit.binSum_append, Nat.mul_succ] at hb ⊢
            simp only [binSum, List.map_nil, sumL] at *
            omega
      · right
        refine vol23_one Ls (fun M hM => ?_) (pairwise_rel_sum hp)
        by_cases hML : M = L'
        · subst hML; right; omega
        · left
          have := pairwise_sum hp hM (hchmem L' hL').1 hML
          omega
    | [S], _, hsmmem =>
      left
      have hS := hsmmem S (by simp)
      have hL := hchmem L' hL'
      have hne : S ≠ L' := by
        rintro rfl
        have h1 := hS.2
        have h3 := hL.2
        simp only [kSmall, kChain, Bool.and_eq_true, decide_eq_true_eq] at h1 h3
        omega
      have hsum := pairwise_sum hp hS.1 hL.1 hne
      have hSk := hS.2
      simp only [kSmall, Bool.and_eq_true, Bool.not_eq_true', decide_eq_true_eq] at hSk
      have hwS : 12 * binSum v S + min B (6 * binSum v S - B) ≤ binSum (W v B) S := by
        match S, hSk with
        | [], _ => simp [binSum, sumL]
        | [x], hSk =>
          have hx := not_big hSk.1 x (by simp)
          simp only [binSum, List.map_cons, List.map_nil, sumL, W, wt, bonus, if_neg (Nat.not_lt.2 hx)]
          omega
        | _ :: _ :: _, hSk => simp at hSk
      have hbgS : ∀ L ∈ bg, B < binSum v L + binSum v S := by
        intro L hL
        have hLm := hbgmem L hL
        have hneL : L ≠ S := by
          rintro rfl
          have h1 := hS.2
          have h3 := hLm.2
          simp only [kSmall, kBig, Bool.and_eq_true, Bool.not_eq_true'] at h1 h3
          rw [h3] at h1
          simp at h1
        exact pairwise_sum hp hLm.1 hS.1 hneL
      have hx5 : 12 * binSum v S ≤ 5 * B := by
        apply Nat.le_of_not_lt
        intro hx5
        apply hs
        match S, hSk, hS, hx5 with
        | [], _, _, hx5 => simp [binSum, sumL] at hx5
        | [x], hSk, hS, hx5 =>
          have hx := not_big hSk.1 x (by simp)
          refine ⟨x, hS.1, ?_, hx⟩
          simpa [binSum, sumL] using hx5
        | _ :: _ :: _, hSk, _, _ => simp at hSk
      rw [hlen, hw]
      simp only [Nat.mul_add]
      simp only [List.length_cons, List.length_nil, List.flatten_cons, List.flatten_nil, List.append_nil]
      by_cases hx3 : B ≤ 3 * binSum v S
      · have hb11 := big_total11 (v := v) (B := B) bg
          (fun L hL => ⟨hbigcl L hL, by have := hbgS L hL; omega⟩)
        omega
      · have hb12 := big_total12 (v := v) (B := B) bg
          (fun L hL => ⟨hbigcl L hL, by have := hbgS L hL; omega⟩)
        omega

end Bins

/-! ## The bound `+ 0.5` when no bin holds a single item between `5/12` and `1/2` -/

theorem inv2_bound5 {v : α → Nat} {B m : Nat} {items : List α} {b : Bins α} (h : Inv2 v B items b)
    (hne : items ≠ []) (hm : Packable B m (items.map v)) (hs : ¬ HalfSingleton v B b.lists) :
    10 * b.lists.length ≤ 17 * m + 5 ∧
    (1 ≤ nBig v B items → 10 * b.lists.length ≤ 15 * m + 2 * nBig v B items + 5) := by
  have hm1 : 1 ≤ m := FFD.packable_pos hm (by simpa using hne)
  have hkm := nBig_le hm
  have hp := h.pairwise
  by_cases hB : B = 0
  · have := one_bin_of_zero h hB
    omega
  · by_cases h2 : 2 ≤ b.lists.length
    · have hO := packable_weight_le_count hm
      have hV : binSum v items ≤ m * B := Fit.packing_lower_bound hm
      have hm2 : 2 ≤ m := by
        have := Fit.anyfit_lt_two_opt h.inv.isPacking h.inv.af h2 hm
        omega
      rcases bins_weight5 hp h2 (Nat.pos_of_ne_zero hB) with hW | hW | ⟨hnb, hW⟩ | ⟨hhs, _⟩
      · rw [Fit.binSum_perm h.inv.perm] at hW
        have h1 : B * (10 * b.lists.length) < B * (15 * m + 2 * nBig v B items + 6) := by
          rw [Nat.mul_left_comm, Nat.mul_add, Nat.mul_add, Nat.mul_left_comm B 15 m,
            Nat.mul_left_comm B 2 (nBig v B items)]
          omega
        have := Nat.lt_of_mul_lt_mul_left h1
        omega
      · rw [Fit.binSum_perm h.inv.perm] at hW
        have h1 : B * (2 * b.lists.length) < B * (3 * m + 2) := by
          rw [Nat.mul_left_comm, Nat.mul_add, Nat.mul_left_comm B 3 m, Nat.mul_comm B m]
          omega
        have := Nat.lt_of_mul_lt_mul_left h1
        omega
      · rw [Fit.binSum_perm h.inv.perm] at hW
        have hsm : ∀ x ∈ items, 2 * v x ≤ B := by
          intro x hx
          obtain ⟨L, hL, hxL⟩ := List.mem_flatten.1 (h.inv.perm.mem_iff.2 hx)
          exact not_big (hnb L hL) x hxL
        have hk0 : nBig v B items = 0 := by
          rw [nBig, List.countP_eq_zero]
          intro x hx
          have := hsm x hx
          simp only [decide_eq_true_eq]
          omega
        have h1 : B * (10 * b.lists.length) < B * (15 * m + 2 * nBig v B items + 8) := by
          rw [Nat.mul_left_comm, Nat.mul_add, Nat.mul_add, Nat.mul_left_comm B 15 m,
            Nat.mul_left_comm B 2 (nBig v B items)]
          omega
        have := Nat.lt_of_mul_lt_mul_left h1
        omega
      · exact absurd hhs hs
    · omega

/-! ## Counting the big bins -/

/-- a bin within the capacity holds at most one item above `B/2`, and none unless it is a big bin -/
theorem nBig_bin {v : α → Nat} {B : Nat} (L : List α) (h : binSum v L ≤ B) :
    nBig v B L ≤ if FF17.isBig v B L = true then 1 else 0 := by
  by_cases hb : FF17.isBig v B L = true
  · rw [if_pos hb]
    have h2 : nBig v B L = (L.map v).countP (fun a => decide (B < 2 * a)) := by
      simp only [nBig, List.countP_map]; rfl
    rw [h2]
    exact countP_big_le_one B (L.map v) h
  · rw [if_neg hb]
    have hb' : FF17.isBig v B L = false := by simpa using hb
    have : nBig v B L = 0 := by
      rw [nBig, List.countP_eq_zero]
      intro x hx
      have := not_big hb' x hx
      simp only [decide_eq_true_eq]
      omega
    omega

/-- at least as many big bins as items above `B/2` -/
theorem nBig_le_bigbins {v : α → Nat} {B : Nat} : ∀ Ls : List (List α), (∀ L ∈ Ls, binSum v L ≤ B) →
    nBig v B Ls.flatten ≤ (Ls.filter (kBig (v := v) (B := B))).length
  | [], _ => by simp [nBig]
  | L :: Ls, h => by
    have h1 := nBig_bin (v := v) (B := B) L (h L (by simp))
    have h2 := nBig_le_bigbins Ls (fun M hM => h M (List.mem_cons_of_mem _ hM))
    have h3 : nBig v B (L :: Ls).flatten = nBig v B L + nBig v B Ls.flatten := by
      simp only [nBig, List.flatten_cons, List.countP_append]
    rw [h3]
    by_cases hb : FF17.isBig v B L = true
    · rw [if_pos hb] at h1
      have : kBig (v := v) (B := B) L = true := hb
      simp only [List.filter_cons, this, if_true, List.length_cons]
      omega
    · rw [if_neg hb] at h1
      have : kBig (v := v) (B := B) L = false := by simpa [kBig] using hb
      simp only [List.filter_cons, this, Bool.false_eq_true, if_false]
      omega

/-! ## The bounds `+ 0.4`, `+ 0.3` with two, three items above `B/2` (and no half singleton) -/

theorem inv2_bound_j {v : α → Nat} {B m : Nat} {items : List α} {b : Bins α} (h : Inv2 v B items b)
    (hne : items ≠ []) (hm : Packable B m (items.map v)) (hs : ¬ HalfSingleton v B b.lists)
    (j : Nat) (hj1 : 1 ≤ j) (hj3 : j ≤ 3) (hjk : j ≤ nBig v B items) :
    10 * b.lists.length + j ≤ 15 * m + 2 * nBig v B items + 6 := by
  have hm1 : 1 ≤ m := FFD.packable_pos hm (by simpa using hne)
  have hp := h.pairwise
  by_cases hB : B = 0
  · have := one_bin_of_zero h hB
    omega
  · by_cases h2 : 2 ≤ b.lists.length
    · have hO := packable_weight_le_count hm
      have hV : binSum v items ≤ m * B := Fit.packing_lower_bound hm
      have hm2 : 2 ≤ m := by
        have := Fit.anyfit_lt_two_opt h.inv.isPacking h.inv.af h2 hm
        omega
      have hK : nBig v B items ≤ (b.lists.filter (kBig (v := v) (B := B))).length := by
        have := nBig_le_bigbins (v := v) (B := B) b.lists (fun L hL => h.inv.le _ (by
          rw [h.inv.cons]; exact List.mem_map.2 ⟨L, hL, rfl⟩))
        have hk : nBig v B b.lists.flatten = nBig v B items := h.inv.perm.countP_eq _
        omega
      rcases bins_weight_big hp h2 (Nat.pos_of_ne_zero hB) hs j hj1 hj3 (by omega) with hW | hW
      · rw [Fit.binSum_perm h.inv.perm] at hW
        have h1 : B * (10 * b.lists.length + j) < B * (15 * m + 2 * nBig v B items + 7) := by
          rw [Nat.mul_add, Nat.mul_left_comm, Nat.mul_add, Nat.mul_add, Nat.mul_left_comm B 15 m,
            Nat.mul_left_comm B 2 (nBig v B items)]
          omega
        have := Nat.lt_of_mul_lt_mul_left h1
        omega
      · rw [Fit.binSum_perm h.inv.perm] at hW
        have h1 : B * (2 * b.lists.length) < B * (3 * m + 2) := by
          rw [Nat.mul_left_comm, Nat.mul_add, Nat.mul_left_comm B 3 m, Nat.mul_comm B m]
          omega
        have := Nat.lt_of_mul_lt_mul_left h1
        omega
    · omega

/-- without a half singleton: absolute bound in further cases -/
theorem inv2_abs_partial2 {v : α → Nat} {B m : Nat} {items : List α} {b : Bins α} (h : Inv2 v B items b)
    (hne : items ≠ []) (hm : Packable B m (items.map v)) (hs : ¬ HalfSingleton v B b.lists)
    (hside : nBig v B items + 2 ≤ m ∨ (nBig v B items + 1 ≤ m ∧ m % 10 ≠ 7) ∨
      m % 10 = 2 ∨ m % 10 = 5 ∨ m % 10 = 8) :
    10 * b.lists.length ≤ 17 * m := by
  have hkm := nBig_le hm
  by_cases h3 : m ≤ 3
  · exact inv2_abs_partial h hne hm (by omega)
  · by_cases hk3 : nBig v B items + 3 ≤ m
    · exact inv2_abs_partial h hne hm (by omega)
    · by_cases hk : 3 ≤ nBig v B items
      · have := inv2_bound_j h hne hm hs 3 (by omega) (by omega) hk
        omega
      · have := inv2_bound_j h hne hm hs 2 (by omega) (by omega) (by omega)
        omega

/-- without a half singleton: `+ 0.3` -/
theorem inv2_bound3 {v : α → Nat} {B m : Nat} {items : List α} {b : Bins α} (h : Inv2 v B items b)
    (hne : items ≠ []) (hm : Packable B m (items.map v)) (hs : ¬ HalfSingleton v B b.lists) :
    10 * b.lists.length ≤ 17 * m + 3 := by
  have hkm := nBig_le hm
  by_cases h3 : m ≤ 3
  · have := inv2_abs_partial h hne hm (by omega)
    omega
  · by_cases hk3 : nBig v B items + 3 ≤ m
    · have := inv2_abs_partial h hne hm (by omega)
      omega
    · by_cases hk : 3 ≤ nBig v B items
      · have := inv2_bound_j h hne hm hs 3 (by omega) (by omega) hk
        omega
      · have := inv2_bound_j h hne hm hs 2 (by omega) (by omega) (by omega)
        omega

/-- the decidable form of `HalfSingleton` -/
def halfSingletonB (v : α → Nat) (B : Nat) (Ls : List (List α)) : Bool :=
  Ls.any (fun L => match L with
    | [x] => decide (5 * B < 12 * v x) && decide (2 * v x ≤ B)
    | _ => false)

theorem halfSingleton_iff (v : α → Nat) (B : Nat) (Ls : List (List α)) :
    HalfSingleton v B Ls ↔ halfSingletonB v B Ls = true := by
  constructor
  · rintro ⟨x, hx, h1, h2⟩
    exact List.any_eq_true.2 ⟨[x], hx, by simp [h1, h2]⟩
  · intro h
    obtain ⟨L, hL, hP⟩ := List.any_eq_true.1 h
    match L, hL, hP with
    | [x], hL, hP =>
      simp only [Bool.and_eq_true, decide_eq_true_eq] at hP
      exact ⟨x, hL, hP.1, hP.2⟩

theorem not_halfSingleton {v : α → Nat} {B : Nat} {Ls : List (List α)} (h : halfSingletonB v B Ls = false) :
    ¬ HalfSingleton v B Ls := by
  rw [halfSingleton_iff, h]; simp

variable {v : α → Nat} {B m : Nat} {items : List α} {b : Bins α}

/-! ## The theorems -/

/-- first fit, no half singleton in the output: `1.7 · OPT + 0.3` -/
theorem ff_seventeen_tenths_plus_3_partial (hne : items ≠ []) (hok : ffOnline v B items = .ok b)
    (hm : Packable B m (items.map v)) (hs : ¬ HalfSingleton v B b.lists) :
    10 * b.lists.length ≤ 17 * m + 3 :=
  inv2_bound3 (ffOnline_inv2 hok) hne hm hs

theorem bf_seventeen_tenths_plus_3_partial (hne : items ≠ []) (hok : bfOnline v B items = .ok b)
    (hm : Packable B m (items.map v)) (hs : ¬ HalfSingleton v B b.lists) :
    10 * b.lists.length ≤ 17 * m + 3 :=
  inv2_bound3 (bfOnline_inv2 hok) hne hm hs

/-- first fit, no half singleton, at least `j ≤ 3` items above `B/2`: `1.5 · OPT + 0.2 · k + (6 − j)/10` -/
theorem ff_fifteen_tenths_big_j (hne : items ≠ []) (hok : ffOnline v B items = .ok b)
    (hm : Packable B m (items.map v)) (hs : ¬ HalfSingleton v B b.lists)
    (j : Nat) (hj1 : 1 ≤ j) (hj3 : j ≤ 3) (hjk : j ≤ nBig v B items) :
    10 * b.lists.length + j ≤ 15 * m + 2 * nBig v B items + 6 :=
  inv2_bound_j (ffOnline_inv2 hok) hne hm hs j hj1 hj3 hjk

theorem bf_fifteen_tenths_big_j (hne : items ≠ []) (hok : bfOnline v B items = .ok b)
    (hm : Packable B m (items.map v)) (hs : ¬ HalfSingleton v B b.lists)
    (j : Nat) (hj1 : 1 ≤ j) (hj3 : j ≤ 3) (hjk : j ≤ nBig v B items) :
    10 * b.lists.length + j ≤ 15 * m + 2 * nBig v B items + 6 :=
  inv2_bound_j (bfOnline_inv2 hok) hne hm hs j hj1 hj3 hjk

/- The requested statement (still open in general):
     theorem ff_seventeen_tenths_abs (hne : items ≠ []) (hok : ffOnline v B items = .ok b)
         (hm : Packable B m (items.map v)) : 10 * b.lists.length ≤ 17 * m
   Proved here: the same conclusion without a half singleton in the output and under `hside`
   (in addition to the cases of `FF17Abs.ff_seventeen_tenths_abs_partial`, which need no such hypothesis). -/
theorem ff_seventeen_tenths_abs_partial2 (hne : items ≠ []) (hok : ffOnline v B items = .ok b)
    (hm : Packable B m (items.map v)) (hs : ¬ HalfSingleton v B b.lists)
    (hside : nBig v B items + 2 ≤ m ∨ (nBig v B items + 1 ≤ m ∧ m % 10 ≠ 7) ∨
      m % 10 = 2 ∨ m % 10 = 5 ∨ m % 10 = 8) :
    10 * b.lists.length ≤ 17 * m :=
  inv2_abs_partial2 (ffOnline_inv2 hok) hne hm hs hside

theorem bf_seventeen_tenths_abs_partial2 (hne : items ≠ []) (hok : bfOnline v B items = .ok b)
    (hm : Packable B m (items.map v)) (hs : ¬ HalfSingleton v B b.lists)
    (hside : nBig v B items + 2 ≤ m ∨ (nBig v B items + 1 ≤ m ∧ m % 10 ≠ 7) ∨
      m % 10 = 2 ∨ m % 10 = 5 ∨ m % 10 = 8) :
    10 * b.lists.length ≤ 17 * m :=
  inv2_abs_partial2 (bfOnline_inv2 hok) hne hm hs hside

/-! ## Non-vacuity -/

/-- five items of size 5 then five of size 7, `B = 12`: `OPT = 5 = k` (a case left open by FF17Abs: `m ≡ 5`,
    every optimal bin holds an item above `B/2`), first fit and best fit use 7 bins, no half singleton -/
def ex57 : List Nat := [5, 5, 5, 5, 5, 7, 7, 7, 7, 7]
theorem ex57_ff : ffOnline id 12 ex57 = .ok ⟨[10, 10, 12, 7, 7, 7, 7], [[5, 5], [5, 5], [5, 7], [7], [7], [7], [7]]⟩ := rfl
theorem ex57_bf : bfOnline id 12 ex57 = .ok ⟨[10, 10, 12, 7, 7, 7, 7], [[5, 5], [5, 5], [5, 7], [7], [7], [7], [7]]⟩ := rfl
theorem ex57_packable : Packable 12 5 (ex57.map id) := ⟨[0, 1, 2, 3, 4, 0, 1, 2, 3, 4], ⟨rfl, by decide⟩, by decide⟩
theorem ex57_nhs : ¬ HalfSingleton id 12 [[5, 5], [5, 5], [5, 7], [7], [7], [7], [7]] := not_halfSingleton (by decide)

example : nBig id 12 ex57 = 5 := by decide
example : 10 * 7 ≤ 17 * 5 := ff_seventeen_tenths_abs_partial2 (by decide) ex57_ff ex57_packable ex57_nhs (by decide)
example : 10 * 7 ≤ 17 * 5 := bf_seventeen_tenths_abs_partial2 (by decide) ex57_bf ex57_packable ex57_nhs (by decide)
example : 10 * 7 ≤ 17 * 5 + 3 := ff_seventeen_tenths_plus_3_partial (by decide) ex57_ff ex57_packable ex57_nhs
example : 10 * 7 ≤ 17 * 5 + 3 := bf_seventeen_tenths_plus_3_partial (by decide) ex57_bf ex57_packable ex57_nhs
example : 10 * 7 + 3 ≤ 15 * 5 + 2 * nBig id 12 ex57 + 6 :=
  ff_fifteen_tenths_big_j (by decide) ex57_ff ex57_packable ex57_nhs 3 (by decide) (by decide) (by decide)
example : 10 * 7 + 2 ≤ 15 * 5 + 2 * nBig id 12 ex57 + 6 :=
  bf_fifteen_tenths_big_j (by decide) ex57_bf ex57_packable ex57_nhs 2 (by decide) (by decide) (by decide)

/-- the classical bad instance has no half singleton either (`51 > 100/2`) -/
example : 10 * 10 ≤ 17 * 6 + 3 :=
  ff_seventeen_tenths_plus_3_partial (by decide) bad_ff bad_packable (not_halfSingleton (by decide))

/-- a half singleton: `[6]` with `B = 12` -/
example : HalfSingleton id 12 [[5, 5], [6]] := ⟨6, by simp, by decide, by decide⟩
example : ffOnline id 12 [5, 5, 6] = .ok ⟨[10, 6], [[5, 5], [6]]⟩ := rfl

/-- `bins_weight5`, `bins_weight_big` on the bins of `ex57` -/
example := bins_weight5 (v := id) (B := 12) (ffOnline_inv2 ex57_ff).pairwise (by decide) (by decide)
example := bins_weight_big (v := id) (B := 12) (ffOnline_inv2 ex57_ff).pairwise (by decide) (by decide)
  ex57_nhs 3 (by decide) (by decide) (by decide)
example := nBig_le_bigbins (v := id) (B := 12) [[5, 5], [5, 5], [5, 7], [7], [7], [7], [7]] (by decide)


end Prtpy.FF17AbsB

/-
Axiom audit (`#print axioms`, observed with Lean 4.33.0):

#print axioms Prtpy.FF17AbsB.ff_seventeen_tenths_plus_3_partial       -- [propext, Classical.choice, Quot.sound]
#print axioms Prtpy.FF17AbsB.bf_seventeen_tenths_plus_3_partial       -- [propext, Classical.choice, Quot.sound]
#print axioms Prtpy.FF17AbsB.ff_fifteen_tenths_big_j                  -- [propext, Classical.choice, Quot.sound]
#print axioms Prtpy.FF17AbsB.bf_fifteen_tenths_big_j                  -- [propext, Classical.choice, Quot.sound]
#print axioms Prtpy.FF17AbsB.ff_seventeen_tenths_abs_partial2         -- [propext, Classical.choice, Quot.sound]
#print axioms Prtpy.FF17AbsB.bf_seventeen_tenths_abs_partial2         -- [propext, Classical.choice, Quot.sound]
#print axioms Prtpy.FF17AbsB.bins_weight5                             -- [propext, Classical.choice, Quot.sound]
#print axioms Prtpy.FF17AbsB.bins_weight_big                          -- [propext, Classical.choice, Quot.sound]
#print axioms Prtpy.FF17AbsB.nBig_le_bigbins                          -- [propext, Classical.choice, Quot.sound]
#print axioms Prtpy.FF17AbsB.inv2_bound5                              -- [propext, Classical.choice, Quot.sound]
#print axioms Prtpy.FF17AbsB.halfSingleton_iff                        -- [propext, Quot.sound]
-/
