/-
  PrtpyProofs.Cover23 — property C10 for the two-thirds bin-covering algorithm
  (`cflz_covering.twothirds`, the "Simple Heuristic" of Csirik, Frenk, Labbé, Zhang 1999):

      if `m` bins can be covered at all, then   2 * m ≤ 3 * ALG + 1,   hence   2 * (m - 1) ≤ 3 * ALG,
      i.e.  ALG ≥ 2/3 · (OPT − 1).

  Proof (a single weighting argument, no case distinction on huge / big / small items is needed on the
  optimum's side).  For parameters `c ≤ τ`, `c + τ = 2B` let

      φ(z) = min z c + (min z 2B ∸ τ)        (slope 1 on [0,c], flat on [c,τ], slope 1 on [τ,2B], then flat)

  and give the item `y` the weight `φ (2·v y)`.  `φ` is sub-additive and `φ z = 2c` for `z ≥ 2B`, so
  every collection of items whose values total `≥ B` weighs `≥ 2c`: a cover with `m` bins weighs `≥ 2c·m`.

  On the algorithm's side (bidirectional filling `biFill` of the descending list; `twoThirds_eq_spec`) the
  parameters are read off the run: if no covered bin ends with an item `≥ B/2` take `τ = c = B`
  (then `φ (2z) = 2·min z B`); otherwise let `x` be the first item of the first bin whose last item is
  `≥ B/2` and take `τ = 2·v x`, `c = 2B − 2·v x`.  Every bin before that one weighs `< 3c` (its first item
  is `≥ x`, everything but the last item fits below `B`, the last item is `< B/2`), that bin itself weighs
  `< 3c`, and all later bins are pairs of items of weight `≤ c` each.  In all cases
  `weight(items) < 3c·ALG + 2c`, so `2m < 3·ALG + 2`.

  Neither positivity of the values nor any treatment of items `≥ B` is needed; the theorem as requested
  (`hpos` included) is `twoThirds_two_thirds`, its sharper form is `twoThirds_two_thirds_strong`.
-/
import Prtpy
import PrtpyProofs.Part
import PrtpyProofs.Cover
import PrtpyProofs.Textbook
import PrtpyProofs.Checkers
import Mathlib.Tactic.Ring
open Prtpy

namespace Prtpy.Cover23

variable {α : Type}

/-! ## 1. The weight profile -/

/-- the weight profile (argument: twice the value) -/
def phi (τ c B z : Nat) : Nat := min z c + (min z (2 * B) - τ)

/-- weight of an item -/
def wt (v : α → Nat) (τ c B : Nat) (y : α) : Nat := phi τ c B (2 * v y)

section Phi
variable {τ c B : Nat}

theorem phi_zero : phi τ c B 0 = 0 := by simp [phi]

theorem phi_subadd (h1 : c ≤ τ) (h2 : c + τ = 2 * B) (a b : Nat) :
    phi τ c B (a + b) ≤ phi τ c B a + phi τ c B b := by
  unfold phi; omega

theorem phi_le_self (h1 : c ≤ τ) (z : Nat) : phi τ c B z ≤ z := by
  unfold phi; omega

theorem phi_le_two (h2 : c + τ = 2 * B) (z : Nat) : phi τ c B z ≤ 2 * c := by
  unfold phi; omega

theorem phi_le_c {z : Nat} (hz : z ≤ τ) : phi τ c B z ≤ c := by
  unfold phi; omega

theorem phi_full (h1 : c ≤ τ) (h2 : c + τ = 2 * B) {z : Nat} (hz : 2 * B ≤ z) : phi τ c B z = 2 * c := by
  unfold phi; omega

/-- sub-additivity over a list -/
theorem phi_sumL (h1 : c ≤ τ) (h2 : c + τ = 2 * B) : ∀ g : List Nat,
    phi τ c B (2 * sumL g) ≤ sumL (g.map fun z => phi τ c B (2 * z))
  | [] => by simp [sumL, phi]
  | z :: g => by
    have ih := phi_sumL h1 h2 g
    have := phi_subadd h1 h2 (2 * z) (2 * sumL g)
    simp only [sumL, List.map_cons, Nat.mul_add]
    omega

/-- a collection of values that covers a bin weighs at least `2c` -/
theorem group_weight (h1 : c ≤ τ) (h2 : c + τ = 2 * B) {g : List Nat} (hg : B ≤ sumL g) :
    2 * c ≤ sumL (g.map fun z => phi τ c B (2 * z)) := by
  have := phi_sumL h1 h2 g
  rw [phi_full h1 h2 (by omega)] at this
  exact this

theorem groups_weight (h1 : c ≤ τ) (h2 : c + τ = 2 * B) (G : List (List Nat))
    (hG : ∀ g ∈ G, B ≤ sumL g) :
    G.length * (2 * c) ≤ sumL (G.flatten.map fun z => phi τ c B (2 * z)) := by
  induction G with
  | nil => simp
  | cons g G ih =>
    have h3 := group_weight h1 h2 (hG g List.mem_cons_self)
    have h4 := ih (fun g' hg' => hG g' (List.mem_cons_of_mem _ hg'))
    simp only [List.flatten_cons, List.map_append, Cover.sumL_append, List.length_cons, Nat.add_mul, Nat.one_mul]
    omega

end Phi

section Weights
variable {v : α → Nat} {τ c B : Nat}

theorem binSum_wt_eq (items : List α) :
    binSum (wt v τ c B) items = sumL ((items.map v).map fun z => phi τ c B (2 * z)) := by
  simp only [binSum, List.map_map]
  rfl

/-- the optimum's side: a cover with `m` bins weighs at least `2c·m` -/
theorem coverableL_weight (h1 : c ≤ τ) (h2 : c + τ = 2 * B) {items : List α} {m : Nat}
    (h : Cover.CoverableL B m (items.map v)) : m * (2 * c) ≤ binSum (wt v τ c B) items := by
  obtain ⟨G, rfl, hG, rest, hp⟩ := h
  rw [binSum_wt_eq, ← Cover.sumL_perm (hp.map _), List.map_append, Cover.sumL_append]
  have := groups_weight h1 h2 G hG
  omega

theorem binSum_wt_le (h1 : c ≤ τ) (l : List α) : binSum (wt v τ c B) l ≤ 2 * binSum v l := by
  induction l with
  | nil => simp [binSum, sumL]
  | cons y l ih =>
    have := phi_le_self (B := B) h1 (2 * v y)
    simp only [Cover.binSum_cons, wt] at *
    omega

theorem binSum_wt_le_length (l : List α) (h : ∀ y ∈ l, wt v τ c B y ≤ c) :
    binSum (wt v τ c B) l ≤ c * l.length := by
  induction l with
  | nil => simp [binSum, sumL]
  | cons y l ih =>
    have h1 := h y List.mem_cons_self
    have h2 := ih (fun z hz => h z (List.mem_cons_of_mem _ hz))
    simp only [Cover.binSum_cons, List.length_cons, Nat.mul_succ]
    omega

end Weights

/-! ## 2. One step of the bidirectional filling -/

/-- what `fillUp` does: it moves a prefix `taken` of the ascending list into the bin; if that prefix is not
    empty, the bin was still below `B` before its last element was added -/
theorem fillUp_spec (v : α → Nat) (B : Nat) : ∀ (ys cur : List α),
    ∃ taken left, ys = taken ++ left ∧ Textbook.fillUp v B cur ys = (cur ++ taken, left) ∧
      (taken = [] ∨ ∃ t last, taken = t ++ [last] ∧ binSum v (cur ++ t) < B)
  | [], cur => ⟨[], [], rfl, by simp [Textbook.fillUp], Or.inl rfl⟩
  | y :: ys, cur => by
    by_cases h : binSum v cur < B
    · obtain ⟨taken, left, h1, h2, h3⟩ := fillUp_spec v B ys (cur ++ [y])
      refine ⟨y :: taken, left, by simp [h1], by simp [Textbook.fillUp, h, h2], Or.inr ?_⟩
      rcases h3 with rfl | ⟨t, last, rfl, hlt⟩
      · exact ⟨[], y, rfl, by simpa using h⟩
      · exact ⟨y :: t, last, rfl, by simpa [List.append_assoc] using hlt⟩
    · exact ⟨[], y :: ys, rfl, by simp [Textbook.fillUp, h], Or.inl rfl⟩

/-- the first bin of `biFill` -/
theorem biFill_cons_cases (v : α → Nat) (B : Nat) (x : α) (rest : List α) :
    ∃ taken left, rest.reverse = taken ++ left ∧
      ((B ≤ binSum v ([x] ++ taken) ∧
          Textbook.biFill v B (x :: rest) = ([x] ++ taken) :: Textbook.biFill v B left.reverse) ∨
       (binSum v ([x] ++ taken) < B ∧ left = [] ∧ Textbook.biFill v B (x :: rest) = [])) ∧
      (taken = [] ∨ ∃ t last, taken = t ++ [last] ∧ binSum v ([x] ++ t) < B) := by
  obtain ⟨taken, left, h1, h2, h3⟩ := fillUp_spec v B rest.reverse [x]
  refine ⟨taken, left, h1, ?_, h3⟩
  by_cases hc : B ≤ binSum v ([x] ++ taken)
  · refine Or.inl ⟨hc, ?_⟩
    rw [Textbook.biFill]
    simp only [h2]
    rw [if_pos hc]
  · have hlt : binSum v ([x] ++ taken) < B := Nat.lt_of_not_le hc
    refine Or.inr ⟨hlt, ?_, ?_⟩
    · have := Textbook.fillUp_uncovered v B rest.reverse [x]
      rw [h2] at this
      exact this hlt
    · rw [Textbook.biFill]
      simp only [h2]
      rw [if_neg hc]

/-! ## 3. The last phase: only items of at least half a bin remain -/

/-- when every item is at least `B/2`, the bins are pairs (or single items `≥ B`): at most one item is wasted -/
theorem biFill_allBig (v : α → Nat) (B : Nat) : ∀ (n : Nat) (l : List α), l.length ≤ n →
    (∀ y ∈ l, B ≤ 2 * v y) → l.length ≤ 2 * (Textbook.biFill v B l).length + 1 := by
  intro n
  induction n with
  | zero =>
    intro l hl _
    have : l.length = 0 := by omega
    omega
  | succ n ih =>
    intro l hl hbig
    cases l with
    | nil => simp
    | cons x rest =>
      obtain ⟨taken, left, hrev, hcase, hshape⟩ := biFill_cons_cases v B x rest
      have hlen : rest.length = taken.length + left.length := by
        rw [← List.length_reverse, hrev, List.length_append]
      have hmem : ∀ y ∈ taken ++ left, B ≤ 2 * v y := by
        intro y hy
        rw [← hrev] at hy
        exact hbig y (List.mem_cons_of_mem _ (List.mem_reverse.1 hy))
      -- at most one item is taken
      have htaken : taken.length ≤ 1 := by
        rcases hshape with rfl | ⟨t, last, rfl, hlt⟩
        · simp
        · cases t with
          | nil => simp
          | cons a t =>
            exfalso
            have ha := hmem a (by simp)
            have hx := hbig x List.mem_cons_self
            simp only [List.cons_append, List.nil_append, Cover.binSum_cons] at hlt
            omega
      rcases hcase with ⟨_, heq⟩ | ⟨hlt, hleft, heq⟩
      · rw [heq]
        have := ih left.reverse (by simp only [List.length_reverse, List.length_cons] at *; omega)
          (fun y hy => hmem y (List.mem_append_right _ (List.mem_reverse.1 hy)))
        simp only [List.length_reverse, List.length_cons] at *
        omega
      · rw [heq]
        subst hleft
        -- an uncovered bin has taken nothing
        have : taken = [] := by
          rcases hshape with rfl | ⟨t, last, rfl, _⟩
          · rfl
          · exfalso
            have hl' := hmem last (by simp)
            have hx := hbig x List.mem_cons_self
            simp only [List.cons_append, List.nil_append, Cover.binSum_cons, Cover.binSum_append,
              Cover.binSum_nil] at hlt
            omega
        subst this
        simp only [List.length_cons, List.length_nil] at *
        omega

/-! ## 4. The algorithm's side: total weight `< 3c·ALG + 2c` for parameters read off the run -/

theorem biFill_weight (v : α → Nat) {B : Nat} (hB : 0 < B) : ∀ (n : Nat) (l : List α), l.length ≤ n →
    l.Pairwise (fun a b => v b ≤ v a) →
    ∃ τ c, 0 < c ∧ c ≤ τ ∧ c + τ = 2 * B ∧ ((τ = B ∧ c = B) ∨ ∃ y ∈ l, τ ≤ 2 * v y) ∧
      binSum (wt v τ c B) l + 1 ≤ 3 * (c * (Textbook.biFill v B l).length) + 2 * c := by
  intro n
  induction n with
  | zero =>
    intro l hl _
    have : l = [] := List.eq_nil_of_length_eq_zero (by omega)
    subst this
    refine ⟨B, B, hB, Nat.le_refl _, by omega, Or.inl ⟨rfl, rfl⟩, ?_⟩
    simp only [Cover.binSum_nil]
    omega
  | succ n ih =>
    intro l hl hsorted
    cases l with
    | nil =>
      refine ⟨B, B, hB, Nat.le_refl _, by omega, Or.inl ⟨rfl, rfl⟩, ?_⟩
      simp only [Cover.binSum_nil]
      omega
    | cons x rest =>
      obtain ⟨taken, left, hrev, hcase, hshape⟩ := biFill_cons_cases v B x rest
      rw [List.pairwise_cons] at hsorted
      obtain ⟨hx, hrest⟩ := hsorted
      -- the ascending view of the remaining items
      have hasc : (taken ++ left).Pairwise (fun a b => v a ≤ v b) := by
        rw [← hrev, List.pairwise_reverse]; exact hrest
      rw [List.pairwise_append] at hasc
      obtain ⟨_, hleftasc, hcross⟩ := hasc
      have hleftsorted : left.reverse.Pairwise (fun a b => v b ≤ v a) := by
        rw [List.pairwise_reverse]; exact hleftasc
      have hmemrest : ∀ y, y ∈ taken ++ left → y ∈ rest := by
        intro y hy; rw [← hrev] at hy; exact List.mem_reverse.1 hy
      have hlen : rest.length = taken.length + left.length := by
        rw [← List.length_reverse, hrev, List.length_append]
      have hleftlen : left.reverse.length ≤ n := by
        simp only [List.length_reverse, List.length_cons] at *; omega
      have hperm : (x :: rest).Perm ([x] ++ taken ++ left.reverse) := by
        have h1 : rest.Perm (taken ++ left) := by
          rw [← hrev]; exact (List.reverse_perm rest).symm
        have h2 : (taken ++ left).Perm (taken ++ left.reverse) :=
          List.Perm.append_left _ (List.reverse_perm left).symm
        simpa [List.append_assoc] using (h1.trans h2).cons x
      -- weight of the whole list = first bin + the rest
      have hW : ∀ τ c, binSum (wt v τ c B) (x :: rest) =
          binSum (wt v τ c B) ([x] ++ taken) + binSum (wt v τ c B) left.reverse := by
        intro τ c
        rw [Cover.binSum_perm _ hperm, Cover.binSum_append]
      rcases hcase with ⟨hcov, heq⟩ | ⟨hlt, hleft, heq⟩
      · -- the first bin is covered
        rw [heq, List.length_cons]
        -- inductive parameters, used whenever the bin does not end with a big item
        have useIH : (∀ τ c, 0 < c → c ≤ τ → c + τ = 2 * B →
            ((τ = B ∧ c = B) ∨ ∃ y ∈ left.reverse, τ ≤ 2 * v y) →
            binSum (wt v τ c B) ([x] ++ taken) ≤ 3 * c) →
            ∃ τ c, 0 < c ∧ c ≤ τ ∧ c + τ = 2 * B ∧ ((τ = B ∧ c = B) ∨ ∃ y ∈ x :: rest, τ ≤ 2 * v y) ∧
              binSum (wt v τ c B) (x :: rest) + 1 ≤
                3 * (c * ((Textbook.biFill v B left.reverse).length + 1)) + 2 * c := by
          intro hbin
          obtain ⟨τ, c, hc0, hcτ, hsum, hinv, hw⟩ := ih left.reverse hleftlen hleftsorted
          refine ⟨τ, c, hc0, hcτ, hsum, ?_, ?_⟩
          · rcases hinv with h | ⟨y, hy, hτ⟩
            · exact Or.inl h
            · exact Or.inr ⟨y, List.mem_cons_of_mem _
                (hmemrest y (List.mem_append_right _ (List.mem_reverse.1 hy))), hτ⟩
          · have := hbin τ c hc0 hcτ hsum hinv
            rw [hW, Nat.mul_succ]
            generalize c * (Textbook.biFill v B left.reverse).length = K at *
            omega
        rcases hshape with htk | ⟨t, last, htk, hlt⟩
        · -- a single item `≥ B`
          subst htk
          apply useIH
          intro τ c _ _ hsum _
          have := phi_le_two hsum (2 * v x)
          simp only [List.append_nil, Cover.binSum_cons, Cover.binSum_nil, wt] at *
          omega
        · subst htk
          by_cases hsmall : 2 * v last < B
          · -- the last item is small
            apply useIH
            intro τ c hc0 hcτ hsum hinv
            have hxw : wt v τ c B x + τ ≤ c + 2 * v x := by
              rcases hinv with ⟨hτB, hcB⟩ | ⟨y, hy, hτ⟩
              · have := phi_le_self (B := B) hcτ (2 * v x)
                simp only [wt]; omega
              · have hyx : v y ≤ v x :=
                  hx y (hmemrest y (List.mem_append_right _ (List.mem_reverse.1 hy)))
                simp only [wt, phi]; omega
            have htw := binSum_wt_le (v := v) (B := B) hcτ t
            have hlw : wt v τ c B last ≤ c := phi_le_c (by omega)
            simp only [List.cons_append, List.nil_append, Cover.binSum_cons, Cover.binSum_append,
              Cover.binSum_nil] at *
            omega
          · -- the last item is big: from here on only pairs
            have hlastbig : B ≤ 2 * v last := Nat.le_of_not_lt hsmall
            have hlastx : v last ≤ v x := hx last (hmemrest last (by simp))
            have hxB : v x < B := by
              simp only [List.cons_append, List.nil_append, Cover.binSum_cons] at hlt; omega
            have hleftbig : ∀ z ∈ left.reverse, B ≤ 2 * v z ∧ v z ≤ v x := by
              intro z hz
              have hz' := List.mem_reverse.1 hz
              have h1 := hcross last (by simp) z hz'
              have h2 := hx z (hmemrest z (List.mem_append_right _ hz'))
              omega
            have hpairs := biFill_allBig v B left.reverse.length left.reverse (Nat.le_refl _)
              (fun z hz => (hleftbig z hz).1)
            refine ⟨2 * v x, 2 * B - 2 * v x, by omega, by omega, by omega,
              Or.inr ⟨x, List.mem_cons_self, Nat.le_refl _⟩, ?_⟩
            have hc0 : 2 * B - 2 * v x ≤ 2 * v x := by omega
            have hxw : wt v (2 * v x) (2 * B - 2 * v x) B x ≤ 2 * B - 2 * v x := phi_le_c (Nat.le_refl _)
            have htw := binSum_wt_le (v := v) (B := B) hc0 t
            have hlw : wt v (2 * v x) (2 * B - 2 * v x) B last ≤ 2 * B - 2 * v x := phi_le_c (by omega)
            have hleftw := binSum_wt_le_length (v := v) (τ := 2 * v x) (c := 2 * B - 2 * v x) (B := B)
              left.reverse (fun z hz => phi_le_c (by have := (hleftbig z hz).2; omega))
            have hmul : (2 * B - 2 * v x) * left.reverse.length ≤
                (2 * B - 2 * v x) * (2 * (Textbook.biFill v B left.reverse).length + 1) :=
              Nat.mul_le_mul_left _ hpairs
            rw [hW, Nat.mul_succ]
            rw [Nat.mul_add, Nat.mul_one, Nat.mul_left_comm] at hmul
            generalize (2 * B - 2 * v x) * (Textbook.biFill v B left.reverse).length = K at *
            generalize hcdef : 2 * B - 2 * v x = c at *
            simp only [List.cons_append, List.nil_append, Cover.binSum_cons, Cover.binSum_append,
              Cover.binSum_nil] at *
            omega
      · -- the first bin is not covered: everything together is below `B`
        subst hleft
        rw [heq]
        refine ⟨B, B, hB, Nat.le_refl _, by omega, Or.inl ⟨rfl, rfl⟩, ?_⟩
        have h1 := binSum_wt_le (v := v) (B := B) (Nat.le_refl B) ([x] ++ taken)
        have h2 := hW B B
        simp only [List.reverse_nil, Cover.binSum_nil, List.length_nil] at *
        omega

/-! ## 5. The theorem -/

variable {v : α → Nat} {B m : Nat} {items : List α}

/-- sharp form, against the list formulation of coverability; no positivity needed -/
theorem twoThirds_two_thirds_coverableL (hB : 0 < B) (hm : Cover.CoverableL B m (items.map v)) :
    2 * m ≤ 3 * (twoThirds v B items).lists.length + 1 := by
  rw [Textbook.twoThirds_eq_spec, Textbook.twoThirdsSpec]
  obtain ⟨τ, c, hc0, hcτ, hsum, _, hw⟩ :=
    biFill_weight v hB _ (sortDesc v items) (Nat.le_refl _) (Part.sortDesc_sorted v items)
  have hopt := coverableL_weight (v := v) hcτ hsum hm
  rw [← Cover.binSum_perm _ (Cover.sortDesc_perm v items)] at hopt
  generalize (Textbook.biFill v B (sortDesc v items)).length = A at *
  have h1 : c * (2 * m) < c * (3 * A + 2) := by
    have e1 : c * (2 * m) = m * (2 * c) := by ring
    have e2 : c * (3 * A + 2) = 3 * (c * A) + 2 * c := by ring
    omega
  have := Nat.lt_of_mul_lt_mul_left h1
  omega

/-- `m` coverable → `2m ≤ 3·ALG + 1` (no positivity needed) -/
theorem twoThirds_two_thirds_strong (hB : 0 < B) (hm : Coverable B m (items.map v)) :
    2 * m ≤ 3 * (twoThirds v B items).lists.length + 1 :=
  twoThirds_two_thirds_coverableL hB (Cover.coverable_coverableL hm)

/-- **C10 for the two-thirds algorithm**: `ALG ≥ 2/3·(OPT − 1)`, where `OPT` is any coverable number of bins. -/
theorem twoThirds_two_thirds (hB : 0 < B) (_hpos : ∀ x ∈ items, 0 < v x)
    (hm : Coverable B m (items.map v)) : 2 * (m - 1) ≤ 3 * (twoThirds v B items).lists.length := by
  have := twoThirds_two_thirds_strong hB hm
  omega

/-- the same against the oracle: `ALG ≥ 2/3·(OPT − 1)` with `OPT = optCover B values` -/
theorem twoThirds_two_thirds_opt (hB : 0 < B) :
    2 * (optCover B (items.map v) - 1) ≤ 3 * (twoThirds v B items).lists.length := by
  have := twoThirds_two_thirds_strong (v := v) (items := items) hB (Checkers.optCover_spec hB).1
  omega

/-! ## 6. Non-vacuity -/

/-- four bins of size 12 can be covered with these 14 items … -/
theorem example_coverable : Coverable 12 4 (([6, 6, 6, 6, 5, 5, 5, 5, 1, 1, 1, 1, 1, 1] : List Nat).map id) :=
  Cover.coverableL_coverable
    ⟨[[6, 6], [6, 6], [5, 5, 1, 1], [5, 5, 1, 1]], rfl, by decide, [1, 1], by decide⟩

/-- … the algorithm covers three, and `2·(4−1) ≤ 3·3` -/
example : (twoThirds id 12 [6, 6, 6, 6, 5, 5, 5, 5, 1, 1, 1, 1, 1, 1]).lists =
    [[6, 1, 1, 1, 1, 1, 1], [6, 5, 5], [6, 5, 5]] := by decide

example : 2 * (4 - 1) ≤ 3 * (twoThirds id 12 [6, 6, 6, 6, 5, 5, 5, 5, 1, 1, 1, 1, 1, 1]).lists.length :=
  twoThirds_two_thirds (by decide) (by decide) example_coverable

example : 2 * 4 ≤ 3 * (twoThirds id 12 [6, 6, 6, 6, 5, 5, 5, 5, 1, 1, 1, 1, 1, 1]).lists.length + 1 :=
  twoThirds_two_thirds_strong (by decide) example_coverable

end Prtpy.Cover23

/-
#print axioms Prtpy.Cover23.twoThirds_two_thirds
  'Prtpy.Cover23.twoThirds_two_thirds' depends on axioms: [propext, Classical.choice, Quot.sound]
#print axioms Prtpy.Cover23.twoThirds_two_thirds_strong
  'Prtpy.Cover23.twoThirds_two_thirds_strong' depends on axioms: [propext, Classical.choice, Quot.sound]
#print axioms Prtpy.Cover23.twoThirds_two_thirds_coverableL
  'Prtpy.Cover23.twoThirds_two_thirds_coverableL' depends on axioms: [propext, Classical.choice, Quot.sound]
#print axioms Prtpy.Cover23.twoThirds_two_thirds_opt
  'Prtpy.Cover23.twoThirds_two_thirds_opt' depends on axioms: [propext, Classical.choice, Quot.sound]
-/
