/-
  PrtpyProofs.CKKFSwitch — the theorems about `snp`, `rnp` and `rnpF` that rest on a fact about the 2-way complete
  Karmarkar–Karp search these algorithms call.

  Since fix F11 that search is `Prtpy.ckkF` (Prtpy/Model/CKKF.lean; `Prtpy.ckk2` in Prtpy/Model/SNP.lean calls it),
  not `Prtpy.ckk`.  The facts about `ckkF` are proved in PrtpyProofs/CKKF.lean, which imports CKKValid, CKKOpt,
  Natural2, SumsOnly and Total; so the theorems of those files (and of RNPF, which SumsOnly and Total import) that
  need them cannot stay there.  They are here, **with their names, namespaces and statements unchanged**:

  * `Prtpy.CKKValid`: `ckkValid` (now `SNPProofs.CkkValid`, a statement about `ckkF … 2 …`), `snp_isPartition'`,
    `rnp_isPartition`                                                         [from `CKKF.ckkF_isPartition`]
  * `Prtpy.RNPF`: `ckk2Optimal`, `snp_optimal'`, `rnpF_isPartition`, `rnpF_optimal`, `rnp_optimal_four`
                                                                [from `CKKF.ckkF_isPartition`, `CKKF.ckkF_optimal`]
  * `Prtpy.Natural2`: `ckk2_natural`, `snpRec_natural`, `snp_natural`, `rnpRec_natural`, `rnp_natural`;
    `Prtpy.RNPF`: `rnpRecF_natural`, `rnpF_natural`                                  [from `CKKF.ckkF_natural`]

  The parts that are relative to the hypotheses `SNPProofs.CkkValid` / `SNPOpt.Ckk2Optimal` stayed where they were
  (`SNPProofs.snp_isPartition`, `CKKValid.rnp_isPartition_of`, `SNPOpt.snp_optimal`, `SNPOpt.rnp_optimal`,
  `RNPF.rnpF_isPartition_of`, `RNPF.rnpF_optimal_of_genComplete`).  The sums-only / manager-independence theorems
  are in PrtpyProofs/CKKFSwitch2.lean, the termination theorems in PrtpyProofs/CKKFSwitch3.lean.
-/
import Prtpy
import PrtpyProofs.Part
import PrtpyProofs.Obj
import PrtpyProofs.Oracle
import PrtpyProofs.SNP
import PrtpyProofs.CKKValid
import PrtpyProofs.CKKOpt
import PrtpyProofs.SNPOpt
import PrtpyProofs.Natural
import PrtpyProofs.Natural2
import PrtpyProofs.RNPF
import PrtpyProofs.CKKF
import Mathlib.Data.List.Perm.Basic
open Prtpy

/-! ## validity (C01): from PrtpyProofs/CKKValid.lean -/

namespace Prtpy.CKKValid
variable {α : Type}

/-- the hypothesis `CkkValid` of `SNPProofs` holds: the 2-way search that snp/rnp call (`ckkF`) returns a partition -/
theorem ckkValid (v nm : α → Nat) [BEq α] : SNPProofs.CkkValid v nm :=
  fun _ _ _ _ h => CKKF.ckkF_isPartition (by omega) h

example : IsPartition id [4, 5, 6, 7, 8] 2 ⟨[15, 15], [[4, 5, 6], [7, 8]]⟩ :=
  ckkValid id id [4, 5, 6, 7, 8] 100 _ (by decide) rfl

/-! ### Unconditional corollaries: SNP and RNP -/

/-- C01 for `snp`, without hypotheses on KK / CKK -/
theorem snp_isPartition' {v nm : α → Nat} [BEq α] [LawfulBEq α] {k : Nat} {items : List α} {fuel : Nat}
    {b : Bins α} (hk : 0 < k) (hne : items ≠ []) (h : snp v nm k true items fuel = .ok b) :
    IsPartition v items k b :=
  SNPProofs.snp_isPartition (kkValid v) (ckkValid v nm) hk hne h

example : IsPartition id [4, 5, 6, 7, 8] 3 ⟨[8, 11, 11], [[8], [4, 7], [5, 6]]⟩ :=
  snp_isPartition' (nm := id) (fuel := 100) (by decide) (by decide) rfl

/-- C01 for `rnp` (numbins ≤ 5) -/
theorem rnp_isPartition {v nm : α → Nat} [BEq α] [LawfulBEq α] {k : Nat} {items : List α} {fuel : Nat}
    {b : Bins α} (hk : 0 < k) (hk5 : k ≤ 5) (hne : items ≠ [])
    (h : rnp v nm k true items fuel = .ok b) : IsPartition v items k b :=
  rnp_isPartition_of (ckkValid v nm) hk hk5 hne h

example : IsPartition id [4, 5, 6, 7, 8, 9, 3, 1] 5 ⟨[8, 8, 9, 9, 9], [[7, 1], [8], [4, 5], [9], [3, 6]]⟩ :=
  rnp_isPartition (nm := id) (fuel := 1000) (by decide) (by decide) (by decide) rfl

example : IsPartition id [4, 5, 6, 7, 8] 3 ⟨[8, 11, 11], [[8], [4, 7], [5, 6]]⟩ :=
  rnp_isPartition (nm := id) (fuel := 100) (by decide) (by decide) (by decide) rfl

end Prtpy.CKKValid

/-! ## validity and optimality (C01, C02): from PrtpyProofs/RNPF.lean -/

namespace Prtpy.RNPF
open Prtpy.SNPProofs (binSum_nil binSum_cons)
open Prtpy.SNPOpt (Ckk2Optimal CkkGenComplete)

variable {α : Type}

/-! ### RNPF §1. 2-way CKK (after F11) is valid and optimal; SNP is optimal without hypotheses -/

/-- the hypothesis `Ckk2Optimal` of `SNPOpt` holds -/
theorem ckk2Optimal (v nm : α → Nat) [BEq α] [LawfulBEq α] : Ckk2Optimal v nm :=
  fun _ _ _ hne h => ⟨CKKF.ckkF_isPartition (by omega) h, CKKF.ckkF_optimal true (by omega) hne h⟩

example : IsOptimalValue .minDiff 2 ([4, 5, 6, 7, 8].map id)
    (Objective.minDiff.value (⟨[15, 15], [[4, 5, 6], [7, 8]]⟩ : Bins Nat).sums false) :=
  (ckk2Optimal id id [4, 5, 6, 7, 8] 100 _ (by decide) rfl).2

/-- **C02 for SNP**, unconditionally -/
theorem snp_optimal' {v nm : α → Nat} [BEq α] [LawfulBEq α] {k : Nat} {items : List α}
    {fuel : Nat} {b : Bins α} (hk : 0 < k) (hne : items ≠ []) (h : snp v nm k true items fuel = .ok b) :
    IsOptimalValue .minDiff k (items.map v) (Objective.minDiff.value b.sums false) :=
  SNPOpt.snp_optimal (ckk2Optimal v nm) hk hne h

/-- non-vacuity: six items, three bins; KK's first answer `[5, 5, 7]` has difference 2, the search improves it -/
example : IsOptimalValue .minDiff 3 ([5, 3, 3, 2, 2, 2].map id) 1 :=
  snp_optimal' (nm := id) (k := 3) (fuel := 100) (b := ⟨[6, 6, 5], [[2, 2, 2], [3, 3], [5]]⟩)
    (by decide) (by decide) rfl

/-- five bins, the input on which the old `rnp` fails -/
example : IsOptimalValue .minDiff 5 ([11, 9, 9, 6, 6, 4, 4, 4].map id) 3 :=
  snp_optimal' (nm := id) (k := 5) (fuel := 1000) (b := ⟨[12, 12, 9, 11, 9], [[4, 4, 4], [6, 6], [9], [11], [9]]⟩)
    (by decide) (by decide) rfl


/-! ### RNPF §3. validity (C01) of `rnpF`, unconditionally -/

/-- **C01 for `rnpF`** (numbins ≤ 5) -/
theorem rnpF_isPartition {v nm : α → Nat} [BEq α] [LawfulBEq α] {k : Nat} {items : List α} {fuel : Nat}
    {b : Bins α} (hk : 0 < k) (hk5 : k ≤ 5) (hne : items ≠ [])
    (h : rnpF v nm k true items fuel = .ok b) : IsPartition v items k b :=
  rnpF_isPartition_of (CKKValid.ckkValid v nm) hk hk5 hne h

example : IsPartition id [11, 9, 9, 6, 6, 4, 4, 4] 5 ⟨[9, 9, 12, 11, 12], [[9], [9], [6, 6], [11], [4, 4, 4]]⟩ :=
  rnpF_isPartition (nm := id) (fuel := 1000) (by decide) (by decide) (by decide) rfl

example : IsPartition id [5, 3, 3, 3, 2, 2, 2, 2] 4 ⟨[5, 6, 5, 6], [[5], [2, 2, 2], [2, 3], [3, 3]]⟩ :=
  rnpF_isPartition (nm := id) (fuel := 1000) (by decide) (by decide) (by decide) rfl


/-! ### RNPF §7. optimality (C02) of `rnpF`, unconditionally -/

/-- **C02 for `rnpF`, every `numbins ≤ 5`**: recursive number partitioning (after F10) returns a partition whose
    difference between the largest and the smallest sum is minimal -/
theorem rnpF_optimal {v nm : α → Nat} [BEq α] [LawfulBEq α] {k : Nat} {items : List α} {fuel : Nat} {b : Bins α}
    (hk : 0 < k) (hk5 : k ≤ 5) (hne : items ≠ []) (h : rnpF v nm k true items fuel = .ok b) :
    IsOptimalValue .minDiff k (items.map v) (Objective.minDiff.value b.sums false) :=
  rnpF_optimal_of_genComplete (ckk2Optimal v nm) (ckkGenComplete v nm) hk hk5 hne h

/-- the input on which the code before F10 returned difference 4 (`SNPOpt.rnp_not_optimal_five`): the repaired
    code returns the sums `[9, 9, 12, 11, 12]`, difference 3 … -/
example : (rnpF id id 5 true [11, 9, 9, 6, 6, 4, 4, 4] 1000).toOption.map (·.sums) = some [9, 9, 12, 11, 12] := by
  rfl

example : (rnpF id id 5 true [11, 9, 9, 6, 6, 4, 4, 4] 1000).toOption.map
    (fun b => Objective.minDiff.value b.sums false) = some 3 := by
  decide

/-- … which is optimal (non-vacuity of `rnpF_optimal`, five bins: the odd case on top of the even case with a
    non-empty prior) -/
example : IsOptimalValue .minDiff 5 ([11, 9, 9, 6, 6, 4, 4, 4].map id) 3 :=
  rnpF_optimal (nm := id) (k := 5) (fuel := 1000)
    (b := ⟨[9, 9, 12, 11, 12], [[9], [9], [6, 6], [11], [4, 4, 4]]⟩) (by decide) (by decide) (by decide) rfl

/-- non-vacuity, four bins (the even case at top level) -/
example : IsOptimalValue .minDiff 4 ([5, 3, 3, 3, 2, 2, 2, 2].map id) 1 :=
  rnpF_optimal (nm := id) (k := 4) (fuel := 1000) (b := ⟨[5, 6, 5, 6], [[5], [2, 2, 2], [2, 3], [3, 3]]⟩)
    (by decide) (by decide) (by decide) rfl

/-- non-vacuity, three bins (the odd case) -/
example : IsOptimalValue .minDiff 3 ([5, 3, 3, 2, 2, 2].map id) 1 :=
  rnpF_optimal (nm := id) (k := 3) (fuel := 1000) (b := ⟨[5, 6, 6], [[5], [2, 2, 2], [3, 3]]⟩)
    (by decide) (by decide) (by decide) rfl

/-- by-product: the code before F10 is optimal up to four bins, without hypotheses -/
theorem rnp_optimal_four {v nm : α → Nat} [BEq α] [LawfulBEq α] {k : Nat} {items : List α} {fuel : Nat}
    {b : Bins α} (hk : 0 < k) (hk4 : k ≤ 4) (hne : items ≠ []) (h : rnp v nm k true items fuel = .ok b) :
    IsOptimalValue .minDiff k (items.map v) (Objective.minDiff.value b.sums false) :=
  SNPOpt.rnp_optimal (ckk2Optimal v nm) (ckkGenComplete v nm) hk hk4 hne h


end Prtpy.RNPF

/-! ## naturality (C07): from PrtpyProofs/Natural2.lean (B3) -/

namespace Prtpy.Natural2
open Prtpy.Natural

variable {α β : Type}

section SNP
variable (f : α → β) (vα : α → Nat) (vβ : β → Nat) (hf : ∀ a, vβ (f a) = vα a)
variable [BEq α] [LawfulBEq α] [BEq β] [LawfulBEq β] (hinj : ∀ a b, f a = f b → a = b)
variable (nmα : α → Nat) (nmβ : β → Nat) (hnm : ∀ a, nmβ (f a) = nmα a)
include hf hinj hnm

theorem ckk2_natural (contents : Bool) (items : List α) (fuel : Nat) :
    ckk2 vβ nmβ contents (items.map f) fuel = (ckk2 vα nmα contents items fuel).map (Bins.mapItems f) := by
  simp only [ckk2, List.isEmpty_map, CKKF.ckkF_natural f hinj nmα nmβ hnm vα vβ hf]
  split <;> rfl

theorem snpRec_natural (contents : Bool) (fuel : Nat) :
    ∀ (n : Nat) (prior best : Bins α) (items : List α),
      snpRec vβ nmβ contents fuel n (prior.mapItems f) (best.mapItems f) (items.map f)
        = (snpRec vα nmα contents fuel n prior best items).map (Bins.mapItems f)
  | 0, _, _, _ => rfl
  | 1, _, _, _ => rfl
  | 2, prior, best, items => by
    simp only [snpRec, ckk2_natural f vα vβ hf hinj nmα nmβ hnm, mapItems_sums]
    cases ckk2 vα nmα contents items fuel with
    | error e => rfl
    | ok two =>
      simp only [Except.map, mapItems_sums, ← mapItems_concat]
      split <;> rfl
  | cur + 3, prior, best, items => by
    simp only [snpRec, binSum_map f vα vβ hf, sortDesc_map f vα vβ hf]
    have := treeFold_natural f vα vβ hf (Bins.mapItems f) (cur + 3) ((binSum vα items : Nat) : Int)
      (fun (b : Bins α) => ((binSum vα items : Nat) : Int) - (((cur + 3 : Nat) : Int) - 1) * (spread b.sums : Nat))
      (fun (b : Bins β) => ((binSum vα items : Nat) : Int) - (((cur + 3 : Nat) : Int) - 1) * (spread b.sums : Nat))
      (fun b sub => snpRec vα nmα contents fuel (cur + 2) ⟨prior.sums ++ [binSum vα sub], prior.lists ++ [sub]⟩ b
        (findDiff items sub))
      (fun b sub => snpRec vβ nmβ contents fuel (cur + 2)
        ⟨(prior.mapItems f).sums ++ [binSum vβ sub], (prior.mapItems f).lists ++ [sub]⟩ b
        (findDiff (items.map f) sub))
      (fun _ => rfl)
      (fun b sub => by
        have hp : (⟨(prior.mapItems f).sums ++ [binSum vβ (sub.map f)], (prior.mapItems f).lists ++ [sub.map f]⟩ : Bins β)
            = (⟨prior.sums ++ [binSum vα sub], prior.lists ++ [sub]⟩ : Bins α).mapItems f := by
          simp only [Bins.mapItems, binSum_map f vα vβ hf, List.map_append, List.map_cons, List.map_nil]
        simp only [hp, findDiff_natural f hinj]
        exact snpRec_natural contents fuel (cur + 2) _ b _)
      best [] (sortDesc vα items)
    simpa only [List.map_nil] using this

/-- **B3 (SNP).** -/
theorem snp_natural (k : Nat) (contents : Bool) (items : List α) (fuel : Nat) :
    snp vβ nmβ k contents (items.map f) fuel = (snp vα nmα k contents items fuel).map (Bins.mapItems f) := by
  simp only [snp, kk_natural f vα vβ hf]
  cases kk vα k items with
  | error e => rfl
  | ok best =>
    simp only [map_ok, mapItems_sums]
    exact ite_map _ rfl (snpRec_natural f vα vβ hf hinj nmα nmβ hnm contents fuel k ⟨[], []⟩ best items)

theorem rnpRec_natural (contents : Bool) (fuel : Nat) :
    ∀ (rf cur : Nat) (prior best : Bins α) (items : List α),
      rnpRec vβ nmβ contents fuel rf cur (prior.mapItems f) (best.mapItems f) (items.map f)
        = (rnpRec vα nmα contents fuel rf cur prior best items).map (Bins.mapItems f) := by
  intro rf
  induction rf with
  | zero => intros; rfl
  | succ rf ih =>
    intro cur prior best items
    simp only [rnpRec]
    refine ite_map _ (ckk2_natural f vα vβ hf hinj nmα nmβ hnm contents items fuel) (ite_map _ ?_ ?_)
    · simp only [binSum_map f vα vβ hf, genTree_natural f vα vβ hf]
      refine foldE_natural (Bins.mapItems f) (List.map f) _ _ ?_ best _
      intro b sub
      have hp : (⟨(prior.mapItems f).sums ++ [binSum vβ (sub.map f)], (prior.mapItems f).lists ++ [sub.map f]⟩ : Bins β)
          = (⟨prior.sums ++ [binSum vα sub], prior.lists ++ [sub]⟩ : Bins α).mapItems f := by
        simp only [Bins.mapItems, binSum_map f vα vβ hf, List.map_append, List.map_cons, List.map_nil]
      simp only [hp, findDiff_natural f hinj, ih]
      cases rnpRec vα nmα contents fuel rf (cur - 1) ⟨prior.sums ++ [binSum vα sub], prior.lists ++ [sub]⟩ b
          (findDiff items sub) with
      | error e => rfl
      | ok nb =>
        simp only [map_ok, mapItems_sums, ← mapItems_concat, binSum_map f vα vβ hf]
        exact ite_map _ rfl rfl
    · simp only [List.isEmpty_map, ckkGen_natural f hinj nmα nmβ hnm vα vβ hf, mapItems_sums]
      cases hemp : items.isEmpty with
      | true => rfl
      | false =>
        simp only [Bool.false_eq_true, if_false]
        cases ckkGen vα nmα 2 true items (some (spread best.sums)) fuel with
        | error e => rfl
        | ok tops =>
          simp only [map_ok]
          have key : ∀ (e' : Except Err (Bins β × Nat)) (e : Except Err (Bins α × Nat)),
              e' = e.map (fun st => (st.1.mapItems f, st.2)) →
              e'.map (·.1) = (e.map (·.1)).map (Bins.mapItems f) := by
            intro e' e h; subst h; cases e <;> rfl
          refine key _ _ (foldE_natural (fun (st : Bins α × Nat) => (st.1.mapItems f, st.2)) (Bins.mapItems f)
            _ _ ?_ (best, spread best.sums) tops)
          intro st top
          simp only [mapItems_lists, getD_map_map, ih]
          cases rnpRec vα nmα contents fuel rf (cur / 2) prior st.1 (top.lists.getD 0 []) with
          | error e => rfl
          | ok nb1 =>
            simp only [map_ok]
            cases rnpRec vα nmα contents fuel rf (cur / 2) prior st.1 (top.lists.getD 1 []) with
            | error e => rfl
            | ok nb2 =>
              simp only [map_ok, mapItems_sums, ← mapItems_concat]
              exact ite_map _ rfl rfl

/-- **B3 (RNP).** -/
theorem rnp_natural (k : Nat) (contents : Bool) (items : List α) (fuel : Nat) :
    rnp vβ nmβ k contents (items.map f) fuel = (rnp vα nmα k contents items fuel).map (Bins.mapItems f) := by
  simp only [rnp, kk_natural f vα vβ hf]
  cases kk vα k items with
  | error e => rfl
  | ok best =>
    simp only [map_ok, mapItems_sums]
    exact ite_map _ rfl (ite_map _ rfl
      (rnpRec_natural f vα vβ hf hinj nmα nmβ hnm contents fuel (k + 1) k ⟨[], []⟩ best items))


end SNP

example : snp Prod.fst (fun p => p.2.toNat) 3 true (exNames.map entry) 1000
    = (snp exVal Char.toNat 3 true exNames 1000).map (Bins.mapItems entry) :=
  snp_natural entry exVal Prod.fst (fun _ => rfl) (fun _ _ h => congrArg Prod.snd h) Char.toNat
    (fun p => p.2.toNat) (fun _ => rfl) 3 true exNames 1000
/-- five items: KK is not perfect here, so the search really runs -/
example : (snp exVal Char.toNat 3 true ['a', 'b', 'c', 'd', 'e'] 1000).map (·.lists)
    = .ok [['e', 'd'], ['b'], ['c', 'a']] := by rfl
example : snp Prod.fst (fun p => p.2.toNat) 3 true (['a', 'b', 'c', 'd', 'e'].map entry) 1000
    = (snp exVal Char.toNat 3 true ['a', 'b', 'c', 'd', 'e'] 1000).map (Bins.mapItems entry) :=
  snp_natural entry exVal Prod.fst (fun _ => rfl) (fun _ _ h => congrArg Prod.snd h) Char.toNat
    (fun p => p.2.toNat) (fun _ => rfl) 3 true _ 1000

example : rnp Prod.fst (fun p => p.2.toNat) 4 true (exNames.map entry) 1000
    = (rnp exVal Char.toNat 4 true exNames 1000).map (Bins.mapItems entry) :=
  rnp_natural entry exVal Prod.fst (fun _ => rfl) (fun _ _ h => congrArg Prod.snd h) Char.toNat
    (fun p => p.2.toNat) (fun _ => rfl) 4 true exNames 1000
example : (rnp exVal Char.toNat 4 true exNames 1000).map (·.lists)
    = .ok [['e'], ['a', 'd'], ['b'], ['f', 'c']] := by rfl
example : (rnp exVal Char.toNat 3 true ['a', 'b', 'c', 'd', 'e'] 1000).map (·.lists)
    = .ok [['e', 'd'], ['b'], ['c', 'a']] := by rfl

end Prtpy.Natural2

/-! ## naturality (C07): from PrtpyProofs/RNPF.lean -/

namespace Prtpy.RNPF
variable {α : Type}

/-! ### RNPF §5. naturality (C07) of `rnpF` -/

section Natural
open Prtpy.Natural Prtpy.Natural2
variable {β : Type}
variable (f : α → β) (vα : α → Nat) (vβ : β → Nat) (hf : ∀ a, vβ (f a) = vα a)
variable [BEq α] [LawfulBEq α] [BEq β] [LawfulBEq β] (hinj : ∀ a b, f a = f b → a = b)
variable (nmα : α → Nat) (nmβ : β → Nat) (hnm : ∀ a, nmβ (f a) = nmα a)
include hf hinj hnm

theorem rnpRecF_natural (contents : Bool) (fuel : Nat) :
    ∀ (rf cur : Nat) (prior best : Bins α) (items : List α),
      rnpRecF vβ nmβ contents fuel rf cur (prior.mapItems f) (best.mapItems f) (items.map f)
        = (rnpRecF vα nmα contents fuel rf cur prior best items).map (Bins.mapItems f) := by
  intro rf
  induction rf with
  | zero => intros; rfl
  | succ rf ih =>
    intro cur prior best items
    simp only [rnpRecF]
    refine ite_map _ (ckk2_natural f vα vβ hf hinj nmα nmβ hnm contents items fuel) (ite_map _ ?_ ?_)
    · simp only [binSum_map f vα vβ hf, genTree_natural f vα vβ hf]
      refine foldE_natural (Bins.mapItems f) (List.map f) _ _ ?_ best _
      intro b sub
      have hp : (⟨(prior.mapItems f).sums ++ [binSum vβ (sub.map f)], (prior.mapItems f).lists ++ [sub.map f]⟩ : Bins β)
          = (⟨prior.sums ++ [binSum vα sub], prior.lists ++ [sub]⟩ : Bins α).mapItems f := by
        simp only [Bins.mapItems, binSum_map f vα vβ hf, List.map_append, List.map_cons, List.map_nil]
      simp only [hp, findDiff_natural f hinj, ih]
      cases rnpRecF vα nmα contents fuel rf (cur - 1) ⟨prior.sums ++ [binSum vα sub], prior.lists ++ [sub]⟩ b
          (findDiff items sub) with
      | error e => rfl
      | ok nb =>
        simp only [map_ok, mapItems_sums, ← mapItems_concat, binSum_map f vα vβ hf]
        exact ite_map _ rfl rfl
    · simp only [List.isEmpty_map, ckkGen_natural f hinj nmα nmβ hnm vα vβ hf, mapItems_sums]
      cases hemp : items.isEmpty with
      | true => rfl
      | false =>
        simp only [Bool.false_eq_true, if_false]
        cases ckkGen vα nmα 2 true items (some (spread best.sums)) fuel with
        | error e => rfl
        | ok tops =>
          simp only [map_ok]
          have key : ∀ (e' : Except Err (Bins β × Nat)) (e : Except Err (Bins α × Nat)),
              e' = e.map (fun st => (st.1.mapItems f, st.2)) →
              e'.map (·.1) = (e.map (·.1)).map (Bins.mapItems f) := by
            intro e' e h; subst h; cases e <;> rfl
          refine key _ _ (foldE_natural (fun (st : Bins α × Nat) => (st.1.mapItems f, st.2)) (Bins.mapItems f)
            _ _ ?_ (best, spread best.sums) tops)
          intro st top
          simp only [mapItems_lists, getD_map_map, ih]
          cases rnpRecF vα nmα contents fuel rf (cur / 2) prior st.1 (top.lists.getD 0 []) with
          | error e => rfl
          | ok nb1 =>
            simp only [map_ok]
            cases rnpRecF vα nmα contents fuel rf (cur / 2) prior st.1 (top.lists.getD 1 []) with
            | error e => rfl
            | ok nb2 =>
              simp only [map_ok, mapItems_sums, ← mapItems_concat]
              exact ite_map _ rfl rfl

/-- **C07 for `rnpF`**: recursive number partitioning is natural for injective renamings of the items that preserve
    values and name keys -/
theorem rnpF_natural (k : Nat) (contents : Bool) (items : List α) (fuel : Nat) :
    rnpF vβ nmβ k contents (items.map f) fuel = (rnpF vα nmα k contents items fuel).map (Bins.mapItems f) := by
  simp only [rnpF, kk_natural f vα vβ hf]
  cases kk vα k items with
  | error e => rfl
  | ok best =>
    simp only [map_ok, mapItems_sums]
    exact ite_map _ rfl (ite_map _ rfl
      (rnpRecF_natural f vα vβ hf hinj nmα nmβ hnm contents fuel (k + 1) k ⟨[], []⟩ best items))

end Natural

example : rnpF Prod.fst (fun p => p.2.toNat) 4 true (Natural2.exNames.map Natural2.entry) 1000
    = (rnpF Natural2.exVal Char.toNat 4 true Natural2.exNames 1000).map (Bins.mapItems Natural2.entry) :=
  rnpF_natural Natural2.entry Natural2.exVal Prod.fst (fun _ => rfl) (fun _ _ h => congrArg Prod.snd h) Char.toNat
    (fun p => p.2.toNat) (fun _ => rfl) 4 true Natural2.exNames 1000
example : (rnpF Natural2.exVal Char.toNat 4 true Natural2.exNames 1000).map (·.lists)
    = .ok [['e'], ['a', 'd'], ['b'], ['f', 'c']] := by rfl
/-- five bins, eight named items with the values `11, 9, 9, 6, 6, 4, 4, 4` (the input on which the old `rnp` fails) -/
def exNames8 : List Char := ['a', 'b', 'c', 'd', 'e', 'f', 'g', 'h']
def exVal8 (c : Char) : Nat :=
  if c = 'a' then 11 else if c = 'b' then 9 else if c = 'c' then 9 else if c = 'd' then 6 else if c = 'e' then 6 else 4
def entry8 (c : Char) : Nat × Char := (exVal8 c, c)

example : rnpF Prod.fst (fun p : Nat × Char => p.2.toNat) 5 true (exNames8.map entry8) 1000
    = (rnpF exVal8 Char.toNat 5 true exNames8 1000).map (Bins.mapItems entry8) :=
  rnpF_natural entry8 exVal8 Prod.fst (fun _ => rfl) (fun _ _ h => congrArg Prod.snd h) Char.toNat
    (fun p => p.2.toNat) (fun _ => rfl) 5 true exNames8 1000
example : (rnpF exVal8 Char.toNat 5 true exNames8 1000).map (·.lists)
    = .ok [['b'], ['c'], ['d', 'e'], ['a'], ['f', 'g', 'h']] := by rfl


end Prtpy.RNPF

/-
Axiom audit (output of `#print axioms` observed with `lake env lean`):

'Prtpy.CKKValid.ckkValid' depends on axioms: [propext, Classical.choice, Quot.sound]
'Prtpy.CKKValid.snp_isPartition'' depends on axioms: [propext, Classical.choice, Quot.sound]
'Prtpy.CKKValid.rnp_isPartition' depends on axioms: [propext, Classical.choice, Quot.sound]
'Prtpy.RNPF.ckk2Optimal' depends on axioms: [propext, Classical.choice, Quot.sound]
'Prtpy.RNPF.snp_optimal'' depends on axioms: [propext, Classical.choice, Quot.sound]
'Prtpy.RNPF.rnpF_isPartition' depends on axioms: [propext, Classical.choice, Quot.sound]
'Prtpy.RNPF.rnpF_optimal' depends on axioms: [propext, Classical.choice, Quot.sound]
'Prtpy.RNPF.rnp_optimal_four' depends on axioms: [propext, Classical.choice, Quot.sound]
'Prtpy.RNPF.rnpF_natural' depends on axioms: [propext, Quot.sound]
'Prtpy.Natural2.snp_natural' depends on axioms: [propext, Quot.sound]
'Prtpy.Natural2.rnp_natural' depends on axioms: [propext, Quot.sound]
-/
