/-
  PrtpyProofs.CKKDedupe — properties C06 ("`out.Sums` = sums of `out.Partition`") and C07 ("list input = dict
  input") for **complete Karmarkar–Karp with three or more bins**: the *whole vector of sums*.

  (`ckk` is the code before fix F11; for the repaired code `ckkF` both properties hold: PrtpyProofs/CKKF.lean.  `snp`
  and `rnpF` call `ckkF` for their 2-way splits since F11; §2–§4 below are about them as they are now.)

  RESULT: BOTH PROPERTIES ARE FALSE for `ckk` (model and real library, 4 bins; model also 5 bins), only the *difference* between the
  largest and the smallest sum is invariant.

  §1  kernel-checked counterexamples (each confirmed on the real `prtpy` with `/venv/bin/python`):
        `ckk_sums_manager_dependent_list`   list input `[5,4,2,2,2,2,2,1]`, 4 bins:
                                            contents manager `[4,4,6,6]`, sums-only manager `[4,5,5,6]`      (P1 false)
        `ckk_sums_manager_dependent`        distinct values (so also dict input) `[16,15,13,11,10,9,7,5,4]`, 4 bins:
                                            contents manager `[21,22,23,24]`, sums-only manager `[21,21,24,24]` (P1 false)
        `ckk_list_dict_disagree`            dict input with distinct names and the values `[5,4,2,2,2,2,2,1]`: `[4,5,5,6]`,
                                            list input with the same values: `[4,4,6,6]`                       (P2 false)
        `ckk_list_dict_disagree_names`      six items whose names repeat: even smaller, but not a Python dict
        `not_P1`, `not_P1_distinct_names`, `not_P2_distinct_names`: the universally quantified statements are refuted.
  §2  what remains true:
        `ckk_list_dict_spread`, `snp_list_dict_spread`, `rnpF_list_dict_spread`  — the difference max − min is the same
              for list and dict input (arbitrary items, any managers, any fuels);
        `sorted_eq_of_spread_le_one` — ascending vectors of equal length and total with spread ≤ 1 are equal, hence
        `ckk_sums_manager_independent_partial_spread_le_one`, `ckk_list_dict_sums_partial_spread_le_one`
              (P1 and P2 whenever the optimum difference is at most 1), and
        `ckk_list_dict_sums_two` (P2 for two bins; P1 for two bins is `SumsOnly.ckk_two_sums_manager_independent`).
  §3  **`snp_list_dict_sums`** — P2 *is* true for sequential number partitioning (arbitrary items, any number of
        bins, either manager): the run on the items and the run on their bare values return the same vector of sums.
  §4  `rnpF_list_dict_sums_partial_k_le_three` — P2 for recursive number partitioning with two or three bins
        (four and five bins go through the 2-way *generator* and its item lists: open, no counterexample found).

  WHY P1/P2 FAIL.  A heap of the search stack is expanded into one clone per combination of its two best tuples;
  the clones are sorted (stably) by top-difference and pushed, so clones of equal top-difference are explored
  *latest generated first*.  The coarser de-duplication keeps the *first* generated representative of a class of
  combinations with equal sums, the finer one also later ones.  The order in which two classes `s`, `t` are first
  explored is therefore "by last occurrence" in the fine run and "by first occurrence" in the coarse run; for
  four bins these orders can differ (`first s < first t ≤ last t < last s`), and when the sub-trees of `s` and `t`
  both contain a leaf of optimum difference, with different sum vectors, the two runs return different vectors
  (the incumbent is only replaced by a *strictly* better leaf).  For three bins no such inversion exists among the
  six pairings (exhaustive check over all pairs of ascending triples with entries ≤ 10), and no counterexample was
  found (see the search log at the end of the file).
-/
import Prtpy
import PrtpyProofs.Part
import PrtpyProofs.Obj
import PrtpyProofs.Oracle
import PrtpyProofs.Natural
import PrtpyProofs.Natural2
import PrtpyProofs.SNPOpt
import PrtpyProofs.CKKValid
import PrtpyProofs.CKKOpt
import PrtpyProofs.SumsOnly
import PrtpyProofs.Scale
import PrtpyProofs.CKKF
import PrtpyProofs.CKKFSwitch
import PrtpyProofs.CKKFSwitch2
import Mathlib.Data.List.Perm.Basic
open Prtpy

namespace Prtpy.CKKDedupe
open Prtpy.SNPOpt (spread_perm value_minDiff)
open Prtpy.SumsOnly (Real)

variable {α : Type}

/-! ## 1. Counterexamples -/

/-- list input: an item is its value -/
def cexVals : List Nat := [5, 4, 2, 2, 2, 2, 2, 1]

/-- the same values as a dict: `(name, value)`, names distinct -/
def cexItems : List (Nat × Nat) := [(0, 5), (1, 4), (2, 2), (3, 2), (4, 2), (5, 2), (6, 2), (7, 1)]

/-- nine distinct values (names distinct as well) -/
def cexItems9 : List (Nat × Nat) :=
  [(0, 16), (1, 15), (2, 13), (3, 11), (4, 10), (5, 9), (6, 7), (7, 5), (8, 4)]

/-- six items, names repeated (not a Python dict; list input would be `(v, v)`) -/
def cexItems6 : List (Nat × Nat) := [(0, 3), (0, 2), (1, 2), (1, 2), (2, 2), (2, 1)]

theorem cexItems_values : cexItems.map Prod.snd = cexVals := rfl
theorem cexItems_names_nodup : (cexItems.map Prod.fst).Nodup := by decide
theorem cexItems9_names_nodup : (cexItems9.map Prod.fst).Nodup := by decide
theorem cexItems9_values_nodup : (cexItems9.map Prod.snd).Nodup := by decide

set_option maxRecDepth 100000 in
/-- list input, contents manager (`out.Partition`): sums `[4, 4, 6, 6]` -/
theorem ckk_list_contents :
    ckk id id 4 true cexVals 200 = .ok ⟨[4, 4, 6, 6], [[4], [2, 2], [2, 2, 2], [1, 5]]⟩ := by
  rfl

set_option maxRecDepth 100000 in
/-- list input, sums-only manager (`out.Sums`): `[4, 5, 5, 6]` -/
theorem ckk_list_sums :
    ckk id id 4 false cexVals 200 = .ok ⟨[4, 5, 5, 6], [[], [], [], []]⟩ := by
  rfl

set_option maxRecDepth 100000 in
/-- dict input (distinct names), contents manager: sums `[4, 5, 5, 6]` -/
theorem ckk_dict_contents :
    ckk Prod.snd Prod.fst 4 true cexItems 200 =
      .ok ⟨[4, 5, 5, 6], [[(3, 2), (5, 2)], [(1, 4), (7, 1)], [(0, 5)], [(2, 2), (4, 2), (6, 2)]]⟩ := by
  rfl

set_option maxRecDepth 100000 in
theorem ckk_dict9_contents :
    ckk Prod.snd Prod.fst 4 true cexItems9 500 =
      .ok ⟨[21, 22, 23, 24],
           [[(0, 16), (7, 5)], [(1, 15), (6, 7)], [(2, 13), (4, 10)], [(3, 11), (5, 9), (8, 4)]]⟩ := by
  rfl

set_option maxRecDepth 100000 in
theorem ckk_dict9_sums :
    ckk Prod.snd Prod.fst 4 false cexItems9 500 = .ok ⟨[21, 21, 24, 24], [[], [], [], []]⟩ := by
  rfl

set_option maxRecDepth 100000 in
theorem ckk_names6_contents :
    (ckk Prod.snd Prod.fst 4 true cexItems6 200).toOption.map (·.sums) = some [2, 2, 4, 4] := by
  rfl

set_option maxRecDepth 100000 in
theorem ckk_values6_contents :
    (ckk id id 4 true (cexItems6.map Prod.snd) 200).toOption.map (·.sums) = some [2, 3, 3, 4] := by
  rfl

/-- **P1 (C06) is false, list input.**  For the list `[5, 4, 2, 2, 2, 2, 2, 1]` and four bins the sums of the
    partition returned with the contents manager are `[4, 4, 6, 6]`, the sums-only manager returns `[4, 5, 5, 6]`. -/
theorem ckk_sums_manager_dependent_list :
    ∃ b₁ b₂ : Bins Nat, ckk id id 4 true cexVals 200 = .ok b₁ ∧ ckk id id 4 false cexVals 200 = .ok b₂ ∧
      b₁.sums = [4, 4, 6, 6] ∧ b₂.sums = [4, 5, 5, 6] ∧ b₂.sums ≠ b₁.sums :=
  ⟨_, _, ckk_list_contents, ckk_list_sums, rfl, rfl, by decide⟩

/-- **P1 (C06) is false, distinct names and distinct values** (dict or list input alike): nine items
    `16, 15, 13, 11, 10, 9, 7, 5, 4`, four bins: `[21, 22, 23, 24]` with the contents manager, `[21, 21, 24, 24]`
    with the sums-only manager. -/
theorem ckk_sums_manager_dependent :
    ∃ b₁ b₂ : Bins (Nat × Nat), ckk Prod.snd Prod.fst 4 true cexItems9 500 = .ok b₁ ∧
      ckk Prod.snd Prod.fst 4 false cexItems9 500 = .ok b₂ ∧
      b₁.sums = [21, 22, 23, 24] ∧ b₂.sums = [21, 21, 24, 24] ∧ b₂.sums ≠ b₁.sums :=
  ⟨_, _, ckk_dict9_contents, ckk_dict9_sums, rfl, rfl, by decide⟩

/-- **P2 (C07) is false, distinct names.**  The dict `{0:5, 1:4, 2:2, 3:2, 4:2, 5:2, 6:2, 7:1}` is partitioned
    with sums `[4, 5, 5, 6]`, the list of its values with sums `[4, 4, 6, 6]` (both with the contents manager). -/
theorem ckk_list_dict_disagree :
    ∃ (b₁ : Bins (Nat × Nat)) (b₂ : Bins Nat), ckk Prod.snd Prod.fst 4 true cexItems 200 = .ok b₁ ∧
      ckk id id 4 true (cexItems.map Prod.snd) 200 = .ok b₂ ∧
      b₁.sums = [4, 5, 5, 6] ∧ b₂.sums = [4, 4, 6, 6] ∧ b₂.sums ≠ b₁.sums :=
  ⟨_, _, ckk_dict_contents, ckk_list_contents, rfl, rfl, by decide⟩

/-- P2 with repeated names (outside the domain of a Python dict): six items suffice -/
theorem ckk_list_dict_disagree_names :
    (ckk Prod.snd Prod.fst 4 true cexItems6 200).toOption.map (·.sums) = some [2, 2, 4, 4] ∧
    (ckk id id 4 true (cexItems6.map Prod.snd) 200).toOption.map (·.sums) = some [2, 3, 3, 4] :=
  ⟨ckk_names6_contents, ckk_values6_contents⟩

/-- the statement P1 of the task is refuted (already for list input) -/
theorem not_P1 :
    ¬ ∀ (items : List Nat) (k fuel fuel' : Nat) (b₁ b₂ : Bins Nat), 3 ≤ k →
        ckk id id k true items fuel = .ok b₁ → ckk id id k false items fuel' = .ok b₂ → b₂.sums = b₁.sums := by
  intro h
  have := h cexVals 4 200 200 _ _ (by decide) ckk_list_contents ckk_list_sums
  revert this
  decide

/-- ... and also when all names (and all values) are distinct -/
theorem not_P1_distinct_names :
    ¬ ∀ (items : List (Nat × Nat)) (k fuel fuel' : Nat) (b₁ b₂ : Bins (Nat × Nat)), 3 ≤ k →
        (items.map Prod.fst).Nodup → (items.map Prod.snd).Nodup →
        ckk Prod.snd Prod.fst k true items fuel = .ok b₁ → ckk Prod.snd Prod.fst k false items fuel' = .ok b₂ →
        b₂.sums = b₁.sums := by
  intro h
  have := h cexItems9 4 500 500 _ _ (by decide) cexItems9_names_nodup cexItems9_values_nodup
    ckk_dict9_contents ckk_dict9_sums
  revert this
  decide

/-- the statement P2 of the task is refuted, even for distinct names -/
theorem not_P2_distinct_names :
    ¬ ∀ (items : List (Nat × Nat)) (k fuel fuel' : Nat) (b₁ : Bins (Nat × Nat)) (b₂ : Bins Nat),
        (items.map Prod.fst).Nodup →
        ckk Prod.snd Prod.fst k true items fuel = .ok b₁ → ckk id id k true (items.map Prod.snd) fuel' = .ok b₂ →
        b₂.sums = b₁.sums := by
  intro h
  have := h cexItems 4 200 200 _ _ cexItems_names_nodup ckk_dict_contents ckk_list_contents
  revert this
  decide

/-! ## 2. What remains true -/

/-! ### the difference is the same for list and dict input -/

theorem binSum_id_map (v : α → Nat) (l : List α) : binSum id (l.map v) = binSum v l :=
  Natural.binSum_map v v id (fun _ => rfl) l

/-- realisable sums: number of bins and total -/
theorem real_length_sum {v : α → Nat} {items : List α} {k : Nat} {s : List Nat} (h : Real v items k s) :
    s.length = k ∧ sumL s = binSum v items := by
  obtain ⟨L, hl, hp, rfl⟩ := h
  exact ⟨by simpa using hl, by rw [Part.sumL_map_binSum, Part.binSum_perm v hp]⟩

/-- **C07 for complete Karmarkar–Karp, the value**: list input and dict input (arbitrary items, any managers, any
    fuels) give the same difference between the largest and the smallest sum. -/
theorem ckk_list_dict_spread {v nm : α → Nat} [BEq α] [LawfulBEq α] {c₁ c₂ : Bool} {k : Nat} {items : List α}
    {fuel₁ fuel₂ : Nat} {b₁ : Bins α} {b₂ : Bins Nat} (hk : 0 < k)
    (h₁ : ckk v nm k c₁ items fuel₁ = .ok b₁) (h₂ : ckk id id k c₂ (items.map v) fuel₂ = .ok b₂) :
    spread b₂.sums = spread b₁.sums := by
  have hne := SumsOnly.ckk_ne_nil h₁
  have o₁ := (SumsOnly.ckk_real_optimal c₁ hk hne h₁).2
  have o₂ := (SumsOnly.ckk_real_optimal c₂ hk (by simpa using hne) h₂).2
  rw [List.map_id] at o₂
  have := Oracle.isOptimalValue_unique o₁ o₂
  rw [value_minDiff, value_minDiff] at this
  exact_mod_cast this.symm

example : spread (⟨[4, 4, 6, 6], [[4], [2, 2], [2, 2, 2], [1, 5]]⟩ : Bins Nat).sums
    = spread (⟨[4, 5, 5, 6], [[(3, 2), (5, 2)], [(1, 4), (7, 1)], [(0, 5)], [(2, 2), (4, 2), (6, 2)]]⟩ :
        Bins (Nat × Nat)).sums :=
  ckk_list_dict_spread (by decide) ckk_dict_contents ckk_list_contents

/-- **C07 for SNP, the value** -/
theorem snp_list_dict_spread {v nm : α → Nat} [BEq α] [LawfulBEq α] {c₁ c₂ : Bool} {k : Nat} {items : List α}
    {fuel₁ fuel₂ : Nat} {b₁ : Bins α} {b₂ : Bins Nat} (hk : 0 < k) (hne : items ≠ [])
    (h₁ : snp v nm k c₁ items fuel₁ = .ok b₁) (h₂ : snp id id k c₂ (items.map v) fuel₂ = .ok b₂) :
    spread b₂.sums = spread b₁.sums := by
  have o₁ := (SumsOnly.snp_optimal_any c₁ hk hne h₁).2
  have o₂ := (SumsOnly.snp_optimal_any c₂ hk (by simpa using hne) h₂).2
  rw [List.map_id] at o₂
  have := Oracle.isOptimalValue_unique o₁ o₂
  rw [value_minDiff, value_minDiff] at this
  exact_mod_cast this.symm

/-- **C07 for RNP (`numbins ≤ 5`), the value** -/
theorem rnpF_list_dict_spread {v nm : α → Nat} [BEq α] [LawfulBEq α] {c₁ c₂ : Bool} {k : Nat} {items : List α}
    {fuel₁ fuel₂ : Nat} {b₁ : Bins α} {b₂ : Bins Nat} (hk : 0 < k) (hk5 : k ≤ 5) (hne : items ≠ [])
    (h₁ : rnpF v nm k c₁ items fuel₁ = .ok b₁) (h₂ : rnpF id id k c₂ (items.map v) fuel₂ = .ok b₂) :
    spread b₂.sums = spread b₁.sums := by
  have o₁ := (SumsOnly.rnpF_optimal_any c₁ hk hk5 hne h₁).2
  have o₂ := (SumsOnly.rnpF_optimal_any c₂ hk hk5 (by simpa using hne) h₂).2
  rw [List.map_id] at o₂
  have := Oracle.isOptimalValue_unique o₁ o₂
  rw [value_minDiff, value_minDiff] at this
  exact_mod_cast this.symm

/-! ### ascending vectors of spread at most one -/

/-- a list over `{m, m + 1}`: total and counts -/
theorem two_valued (m : Nat) : ∀ l : List Nat, (∀ x ∈ l, x = m ∨ x = m + 1) →
    sumL l = l.length * m + l.count (m + 1) ∧ l.count m + l.count (m + 1) = l.length ∧
      ∀ y, y ≠ m → y ≠ m + 1 → l.count y = 0
  | [], _ => by simp [sumL]
  | x :: xs, h => by
    obtain ⟨i1, i2, i3⟩ := two_valued m xs (fun y hy => h y (List.mem_cons_of_mem _ hy))
    have hx := h x List.mem_cons_self
    refine ⟨?_, ?_, ?_⟩
    · rcases hx with rfl | rfl
      · simp only [sumL, List.length_cons, List.count_cons, i1, Nat.add_mul]
        simp
        omega
      · simp only [sumL, List.length_cons, List.count_cons, i1, Nat.add_mul]
        simp
        omega
    · rcases hx with rfl | rfl
      · simp only [List.length_cons, List.count_cons]
        simp
        omega
      · simp only [List.length_cons, List.count_cons]
        simp
        omega
    · intro y hy1 hy2
      rw [List.count_cons, i3 y hy1 hy2]
      rcases hx with rfl | rfl
      · simp [Ne.symm hy1]
      · simp [Ne.symm hy2]

/-- a non-empty list of spread at most one takes its values in `{minL, minL + 1}` -/
theorem spread_le_one_two_valued {l : List Nat} (hs : spread l ≤ 1) :
    ∀ x ∈ l, x = minL l ∨ x = minL l + 1 := by
  intro x hx
  have h1 := Obj.minL_le hx
  have h2 := Obj.le_maxL hx
  unfold spread at hs
  omega

/-- **ascending vectors of the same length and total whose spread is at most one are equal** -/
theorem sorted_eq_of_spread_le_one {a b : List Nat} (ha : a.Pairwise (· ≤ ·)) (hb : b.Pairwise (· ≤ ·))
    (hlen : a.length = b.length) (hsum : sumL a = sumL b) (hsa : spread a ≤ 1) (hsb : spread b ≤ 1) : a = b := by
  by_cases hane : a = []
  · subst hane
    exact (List.length_eq_zero_iff.1 hlen.symm).symm
  have hbne : b ≠ [] := by
    intro h
    subst h
    exact hane (List.length_eq_zero_iff.1 hlen)
  obtain ⟨a1, a2, a3⟩ := two_valued (minL a) a (spread_le_one_two_valued hsa)
  obtain ⟨b1, b2, b3⟩ := two_valued (minL b) b (spread_le_one_two_valued hsb)
  have ca : 0 < a.count (minL a) := List.count_pos_iff.2 (Obj.minL_mem hane)
  have cb : 0 < b.count (minL b) := List.count_pos_iff.2 (Obj.minL_mem hbne)
  rw [hlen] at a1 a2
  rw [hsum] at a1
  -- the minima agree
  have hm : minL a = minL b := by
    rcases Nat.lt_trichotomy (minL a) (minL b) with h | h | h
    · have := Nat.mul_le_mul_left b.length (show minL a + 1 ≤ minL b from h)
      rw [Nat.mul_succ] at this
      omega
    · exact h
    · have := Nat.mul_le_mul_left b.length (show minL b + 1 ≤ minL a from h)
      rw [Nat.mul_succ] at this
      omega
  rw [← hm] at b1 b2 b3
  refine Obj.sorted_perm_eq ha hb (List.perm_iff_count.2 fun y => ?_)
  by_cases h1 : y = minL a
  · subst h1; omega
  · by_cases h2 : y = minL a + 1
    · subst h2; omega
    · rw [a3 y h1 h2, b3 y h1 h2]

example : ([5, 5, 6] : List Nat) = [5, 5, 6] :=
  sorted_eq_of_spread_le_one (by decide) (by decide) rfl rfl (by decide) (by decide)

/-- **P1, partial: optimum difference at most one.**  (The original statement, without `hs`, is false:
    `ckk_sums_manager_dependent`.) -/
theorem ckk_sums_manager_independent_partial_spread_le_one {v nm : α → Nat} [BEq α] [LawfulBEq α] {k : Nat}
    {items : List α} {fuel₁ fuel₂ : Nat} {b₁ b₂ : Bins α} (hk : 0 < k)
    (h₁ : ckk v nm k true items fuel₁ = .ok b₁) (h₂ : ckk v nm k false items fuel₂ = .ok b₂)
    (hs : spread b₁.sums ≤ 1) : b₂.sums = b₁.sums := by
  have hne := SumsOnly.ckk_ne_nil h₁
  obtain ⟨l₁, s₁⟩ := real_length_sum (SumsOnly.ckk_real_optimal true hk hne h₁).1
  obtain ⟨l₂, s₂⟩ := real_length_sum (SumsOnly.ckk_real_optimal false hk hne h₂).1
  have hv := SumsOnly.ckk_value_manager_independent hk h₁ h₂
  exact sorted_eq_of_spread_le_one (SumsOnly.ckk_sums_sorted h₂) (SumsOnly.ckk_sums_sorted h₁)
    (by rw [l₁, l₂]) (by rw [s₁, s₂]) (by omega) hs

example : (⟨[8, 8, 8, 8], [[], [], [], []]⟩ : Bins Nat).sums
    = (⟨[8, 8, 8, 8], [[1, 7], [2, 6], [3, 5], [8]]⟩ : Bins Nat).sums :=
  ckk_sums_manager_independent_partial_spread_le_one (v := id) (nm := id) (k := 4)
    (items := [8, 7, 6, 5, 3, 2, 1]) (fuel₁ := 200) (fuel₂ := 200) (by decide) rfl rfl (by decide)

/-- **P2, partial: optimum difference at most one** (arbitrary items; the original statement is false:
    `ckk_list_dict_disagree`) -/
theorem ckk_list_dict_sums_partial_spread_le_one {v nm : α → Nat} [BEq α] [LawfulBEq α] {c₁ c₂ : Bool} {k : Nat}
    {items : List α} {fuel₁ fuel₂ : Nat} {b₁ : Bins α} {b₂ : Bins Nat} (hk : 0 < k)
    (h₁ : ckk v nm k c₁ items fuel₁ = .ok b₁) (h₂ : ckk id id k c₂ (items.map v) fuel₂ = .ok b₂)
    (hs : spread b₁.sums ≤ 1) : b₂.sums = b₁.sums := by
  have hne := SumsOnly.ckk_ne_nil h₁
  obtain ⟨l₁, s₁⟩ := real_length_sum (SumsOnly.ckk_real_optimal c₁ hk hne h₁).1
  obtain ⟨l₂, s₂⟩ := real_length_sum (SumsOnly.ckk_real_optimal c₂ hk (by simpa using hne) h₂).1
  have hv := ckk_list_dict_spread hk h₁ h₂
  exact sorted_eq_of_spread_le_one (SumsOnly.ckk_sums_sorted h₂) (SumsOnly.ckk_sums_sorted h₁)
    (by rw [l₁, l₂]) (by rw [s₁, s₂, binSum_id_map]) (by omega) hs

/-- **P2 for two bins** (arbitrary items): the two ascending sums are determined by total and difference -/
theorem ckk_list_dict_sums_two {v nm : α → Nat} [BEq α] [LawfulBEq α] {c₁ c₂ : Bool}
    {items : List α} {fuel₁ fuel₂ : Nat} {b₁ : Bins α} {b₂ : Bins Nat}
    (h₁ : ckk v nm 2 c₁ items fuel₁ = .ok b₁) (h₂ : ckk id id 2 c₂ (items.map v) fuel₂ = .ok b₂) :
    b₂.sums = b₁.sums := by
  have hne := SumsOnly.ckk_ne_nil h₁
  have r₁ := (SumsOnly.ckk_real_optimal c₁ (by decide) hne h₁).1
  have r₂ := (SumsOnly.ckk_real_optimal c₂ (by decide) (by simpa using hne) h₂).1
  obtain ⟨x, y, hxy, hsum⟩ := SumsOnly.two_sums r₁
  obtain ⟨x', y', hxy', hsum'⟩ := SumsOnly.two_sums r₂
  have hv := ckk_list_dict_spread (by decide) h₁ h₂
  have o₁ := SumsOnly.ckk_sums_sorted h₁
  have o₂ := SumsOnly.ckk_sums_sorted h₂
  rw [binSum_id_map] at hsum'
  rw [hxy] at hv o₁ ⊢
  rw [hxy'] at hv o₂ ⊢
  rw [SNPOpt.spread_pair, SNPOpt.spread_pair] at hv
  have p₁ : x ≤ y := by simpa using o₁
  have p₂ : x' ≤ y' := by simpa using o₂
  have : x' = x ∧ y' = y := by omega
  rw [this.1, this.2]

example : (⟨[15, 15], [[4, 5, 6], [7, 8]]⟩ : Bins Nat).sums
    = (⟨[15, 15], [[(2, 6), (3, 5), (4, 4)], [(0, 8), (1, 7)]]⟩ : Bins (Nat × Nat)).sums :=
  ckk_list_dict_sums_two (v := Prod.snd) (nm := Prod.fst) (c₁ := true) (c₂ := true)
    (items := [(0, 8), (1, 7), (2, 6), (3, 5), (4, 4)]) (fuel₁ := 100) (fuel₂ := 100) rfl rfl

/-! ## 3. Sequential number partitioning: list input = dict input (the whole vector of sums)

  SNP reads the incumbent only through its sums, generates the candidate subsets from the items sorted by value, and
  calls the search only for two bins, where the ascending sums are unique.  `find_diff` may remove a *different
  occurrence* of a value from the list of bare values than from the list of named items, so the two runs work on
  item lists whose values agree only up to order — which no consumer can see, because every consumer sorts first. -/

/-- the prune test sees only values -/
theorem inexPrune_values (v : α → Nat) (den : Nat) (lb ub : Int) (cur rest : List α) :
    inexPrune id den lb ub (cur.map v) (rest.map v) = inexPrune v den lb ub cur rest := by
  simp only [inexPrune, binSum_id_map]

/-- lock-step rule for `treeFold`, one run on items and one on their values; the body is only ever called on
    sub-lists of the list that is traversed -/
theorem treeFold_hsim {σ σ' : Type} (R : σ → σ' → Prop) (v : α → Nat) (den : Nat) (ub : Int)
    (lbOf : σ → Int) (lbOf' : σ' → Int) (body : σ → List α → Except Err σ)
    (body' : σ' → List Nat → Except Err σ') (full : List α)
    (hlb : ∀ s s', R s s' → lbOf s = lbOf' s')
    (hbody : ∀ s s' x t t', x.Sublist full → R s s' → body s x = .ok t → body' s' (x.map v) = .ok t' → R t t') :
    ∀ (rest pre cur : List α) (st : σ) (st' : σ') (r : σ) (r' : σ'), pre ++ rest = full → cur.Sublist pre →
      R st st' → treeFold v den ub lbOf body st cur rest = .ok r →
      treeFold id den ub lbOf' body' st' (cur.map v) (rest.map v) = .ok r' → R r r' := by
  intro rest
  induction rest with
  | nil =>
    intro pre cur st st' r r' hfull hsub hR h h'
    simp only [List.append_nil] at hfull
    subst hfull
    simp only [treeFold, hlb _ _ hR] at h
    simp only [List.map_nil, treeFold] at h'
    have e := inexPrune_values v den (lbOf' st') ub cur []
    simp only [List.map_nil] at e
    rw [e] at h'
    split at h
    · rename_i hp
      rw [if_pos hp] at h'
      cases h; cases h'
      exact hR
    · rename_i hp
      rw [if_neg hp] at h'
      exact hbody _ _ _ _ _ hsub hR h h'
  | cons x xs ih =>
    intro pre cur st st' r r' hfull hsub hR h h'
    simp only [treeFold, hlb _ _ hR] at h
    simp only [List.map_cons, treeFold] at h'
    have e := inexPrune_values v den (lbOf' st') ub cur (x :: xs)
    simp only [List.map_cons] at e
    rw [e] at h'
    have hfull' : (pre ++ [x]) ++ xs = full := by rw [← hfull]; simp
    split at h
    · rename_i hp
      rw [if_pos hp] at h'
      cases h; cases h'
      exact hR
    · rename_i hp
      rw [if_neg hp] at h'
      cases hL : treeFold v den ub lbOf body st (cur ++ [x]) xs with
      | error e => rw [hL] at h; cases h
      | ok s1 =>
        rw [hL] at h
        have e2 : List.map v cur ++ [v x] = (cur ++ [x]).map v := by simp
        rw [e2] at h'
        cases hL' : treeFold id den ub lbOf' body' st' ((cur ++ [x]).map v) (xs.map v) with
        | error e => rw [hL'] at h'; cases h'
        | ok s1' =>
          rw [hL'] at h'
          have hR1 := ih (pre ++ [x]) (cur ++ [x]) st st' s1 s1' hfull'
            (List.Sublist.append hsub (List.Sublist.refl _)) hR hL hL'
          exact ih (pre ++ [x]) cur s1 s1' r r' hfull'
            (hsub.trans (List.sublist_append_left _ _)) hR1 h h'

/-- removing an item, and removing (the first occurrence of) its value -/
theorem erase_map_perm [BEq α] [LawfulBEq α] (v : α → Nat) {l : List α} {x : α} (hx : x ∈ l) :
    ((l.erase x).map v).Perm ((l.map v).erase (v x)) := by
  have h1 : (l.map v).Perm (v x :: (l.erase x).map v) := (List.perm_cons_erase hx).map v
  have h2 := h1.erase (v x)
  rw [List.erase_cons_head] at h2
  exact h2.symm

/-- `find_diff` on the items and on their values leave the same values, up to order -/
theorem findDiff_values [BEq α] [LawfulBEq α] (v : α → Nat) :
    ∀ (sub s l : List α) (lN : List Nat), sub.Sublist s → s.Perm l → (l.map v).Perm lN →
      ((findDiff l sub).map v).Perm (findDiff lN (sub.map v)) := by
  intro sub
  induction sub with
  | nil => intro s l lN _ _ hp; exact hp
  | cons x xs ih =>
    intro s l lN hsub hs hp
    have hxs : x ∈ s := hsub.subset List.mem_cons_self
    have hxl : x ∈ l := hs.mem_iff.1 hxs
    have h1 : xs.Sublist (s.erase x) := by
      have := hsub.erase x
      rwa [List.erase_cons_head] at this
    have h2 : (s.erase x).Perm (l.erase x) := hs.erase x
    have h3 : ((l.erase x).map v).Perm (lN.erase (v x)) := (erase_map_perm v hxl).trans (hp.erase (v x))
    have := ih (s.erase x) (l.erase x) (lN.erase (v x)) h1 h2 h3
    simpa only [findDiff, List.foldl_cons, List.map_cons] using this

/-- the 2-way search on items and on (a reordering of) their values: same ascending sums -/
theorem ckk2_sums_values {v nm : α → Nat} [BEq α] [LawfulBEq α] {c c' : Bool} {rem : List α} {remN : List Nat}
    {fuel fuel' : Nat} {two : Bins α} {two' : Bins Nat} (hp : (rem.map v).Perm remN)
    (h : ckk2 v nm c rem fuel = .ok two) (h' : ckk2 id id c' remN fuel' = .ok two') : two.sums = two'.sums := by
  unfold ckk2 at h h'
  split at h
  · cases h
  · rename_i hne
    split at h'
    · cases h'
    · rename_i hne'
      have hne0 : rem ≠ [] := by simpa using hne
      have hne0' : remN ≠ [] := by simpa using hne'
      obtain ⟨r₁, o₁⟩ := CKKF.ckkF_real_optimal c (by decide) hne0 h
      obtain ⟨r₂, o₂⟩ := CKKF.ckkF_real_optimal c' (by decide) hne0' h'
      rw [List.map_id] at o₂
      have hv := Oracle.isOptimalValue_unique (Scale.isOptimal_perm hp o₁) o₂
      rw [value_minDiff, value_minDiff] at hv
      have hv' : spread two.sums = spread two'.sums := by exact_mod_cast hv
      obtain ⟨x, y, hxy, hsum⟩ := SumsOnly.two_sums r₁
      obtain ⟨x', y', hxy', hsum'⟩ := SumsOnly.two_sums r₂
      have s₁ := CKKF.ckkF_sums_sorted h
      have s₂ := CKKF.ckkF_sums_sorted h'
      have ht : binSum v rem = binSum id remN := by
        unfold binSum
        rw [List.map_id]
        exact Part.sumL_perm hp
      rw [hxy] at hv' s₁ ⊢
      rw [hxy'] at hv' s₂ ⊢
      rw [SNPOpt.spread_pair, SNPOpt.spread_pair] at hv'
      have p₁ : x ≤ y := by simpa using s₁
      have p₂ : x' ≤ y' := by simpa using s₂
      have : x = x' ∧ y = y' := by omega
      rw [this.1, this.2]

/-- `rec_generate_sets` of SNP on the items and on their values (up to order): same sums -/
theorem snpRec_hsim {v nm : α → Nat} [BEq α] [LawfulBEq α] (c c' : Bool) (fuel fuel' : Nat) (n : Nat) :
    ∀ (prior best : Bins α) (priorN bestN : Bins Nat) (rem : List α) (remN : List Nat) (r : Bins α) (rN : Bins Nat),
      prior.sums = priorN.sums → best.sums = bestN.sums → (rem.map v).Perm remN →
      snpRec v nm c fuel n prior best rem = .ok r → snpRec id id c' fuel' n priorN bestN remN = .ok rN →
      r.sums = rN.sums := by
  induction n using Nat.strongRecOn with
  | ind n ih =>
    intro prior best priorN bestN rem remN r rN hpr hb hp h h'
    match n with
    | 0 => simp only [snpRec] at h h'; cases h; cases h'; exact hb
    | 1 => simp only [snpRec] at h h'; cases h; cases h'; exact hb
    | 2 =>
      simp only [snpRec] at h h'
      cases h2 : ckk2 v nm c rem fuel with
      | error e => rw [h2] at h; cases h
      | ok two =>
        rw [h2] at h
        cases h2' : ckk2 id id c' remN fuel' with
        | error e => rw [h2'] at h'; cases h'
        | ok two' =>
          rw [h2'] at h'
          have e2 := ckk2_sums_values hp h2 h2'
          simp only [← e2, ← hb, ← hpr] at h'
          simp only at h
          split at h
          · rename_i hlt
            rw [if_pos hlt] at h'
            cases h; cases h'
            simp only [Bins.concat, e2, hpr]
          · rename_i hlt
            rw [if_neg hlt] at h'
            cases h; cases h'
            exact hb
    | m + 3 =>
      rw [snpRec] at h h'
      have ht : binSum id remN = binSum v rem := by
        unfold binSum
        rw [List.map_id]
        exact (Part.sumL_perm hp).symm
      have hsort : sortDesc id remN = (sortDesc v rem).map v := by
        rw [← Natural.sortDesc_map v v id (fun _ => rfl) rem]
        exact Natural.sortDesc_id_perm hp.symm
      simp only [ht, hsort] at h'
      refine treeFold_hsim (fun (b : Bins α) (b' : Bins Nat) => b.sums = b'.sums) v _ _ _ _ _ _
        (sortDesc v rem) ?_ ?_ (sortDesc v rem) [] [] best bestN r rN (by simp) (List.Sublist.refl _) hb h h'
      · intro s s' hs
        simp only [hs]
      · intro s s' x t t' hx hs ht' ht''
        refine ih (m + 2) (by omega) _ s _ s' _ _ t t' ?_ hs ?_ ht' ht''
        · simp only [hpr, binSum_id_map]
        · exact findDiff_values v x (sortDesc v rem) rem remN hx (Part.sortDesc_perm v rem) hp

/-- **C07 for sequential number partitioning, the whole vector of sums (P2 for `snp`).**  For arbitrary items
    (names in any order, equal values, even equal items), any number of bins, either manager and any fuels: the run
    on the named items and the run on the list of their values return the same sums, in the same order. -/
theorem snp_list_dict_sums {v nm : α → Nat} [BEq α] [LawfulBEq α] {c₁ c₂ : Bool} {k : Nat} {items : List α}
    {fuel₁ fuel₂ : Nat} {b₁ : Bins α} {b₂ : Bins Nat}
    (h₁ : snp v nm k c₁ items fuel₁ = .ok b₁) (h₂ : snp id id k c₂ (items.map v) fuel₂ = .ok b₂) :
    b₂.sums = b₁.sums := by
  unfold snp at h₁ h₂
  rw [Natural.kk_natural v v id (fun _ => rfl) k items] at h₂
  cases hb : kk v k items with
  | error e => rw [hb] at h₁; cases h₁
  | ok best =>
    rw [hb] at h₁ h₂
    simp only [Natural2.map_ok] at h₁ h₂
    have hbs : (best.mapItems v).sums = best.sums := rfl
    rw [hbs] at h₂
    split at h₁
    · rename_i h0
      rw [if_pos h0] at h₂
      cases h₁; cases h₂; rfl
    · rename_i h0
      rw [if_neg h0] at h₂
      exact (snpRec_hsim c₁ c₂ fuel₁ fuel₂ k _ best _ _ items _ b₁ b₂ rfl rfl (List.Perm.refl _) h₁ h₂).symm

/-- non-vacuity, on the very input on which `ckk` disagrees -/
example : (⟨[4, 5, 5, 6], [[4], [5], [1, 2, 2], [2, 2, 2]]⟩ : Bins Nat).sums
    = (⟨[4, 5, 5, 6], [[(1, 4)], [(0, 5)], [(7, 1), (3, 2), (4, 2)], [(6, 2), (2, 2), (5, 2)]]⟩ :
        Bins (Nat × Nat)).sums :=
  snp_list_dict_sums (v := Prod.snd) (nm := Prod.fst) (c₁ := true) (c₂ := true) (k := 4) (items := cexItems)
    (fuel₁ := 1000) (fuel₂ := 1000) rfl rfl

/-! ## 4. Recursive number partitioning, two and three bins: list input = dict input

  With two or three bins RNP never runs the 2-way *generator* (whose yields carry item lists), only the 2-way search,
  so the argument of §3 applies.  For four and five bins the halves are taken from the partitions yielded by
  `ckkGen … 2 true`, whose sequence is longer for a dict than for a list of equal values: open (no counterexample,
  see the search log). -/

/-- lock-step rule for `foldE`, the second run on the image of the list -/
theorem foldE_hsim {σ σ' β β' : Type} (R : σ → σ' → Prop) (g : β → β') (P : β → Prop)
    (f : σ → β → Except Err σ) (f' : σ' → β' → Except Err σ')
    (hf : ∀ s s' x t t', P x → R s s' → f s x = .ok t → f' s' (g x) = .ok t' → R t t') :
    ∀ (l : List β) (s : σ) (s' : σ') (r : σ) (r' : σ'), (∀ x ∈ l, P x) → R s s' →
      foldE f s l = .ok r → foldE f' s' (l.map g) = .ok r' → R r r' := by
  intro l
  induction l with
  | nil =>
    intro s s' r r' _ hR h h'
    simp only [foldE, List.map_nil] at h h'
    cases h; cases h'
    exact hR
  | cons x xs ih =>
    intro s s' r r' hP hR h h'
    simp only [foldE, List.map_cons] at h h'
    cases hx : f s x with
    | error e => rw [hx] at h; cases h
    | ok t =>
      rw [hx] at h
      cases hx' : f' s' (g x) with
      | error e => rw [hx'] at h'; cases h'
      | ok t' =>
        rw [hx'] at h'
        exact ih t t' r r' (fun y hy => hP y (List.mem_cons_of_mem _ hy))
          (hf _ _ _ _ _ (hP x List.mem_cons_self) hR hx hx') h h'

/-- the subsets generated by the in/ex tree extend `cur` by a sub-list of `rest` -/
theorem genTreeAux_sublist (v : α → Nat) (den : Nat) (lb ub : Int) :
    ∀ (rest cur sub : List α), sub ∈ genTreeAux v den lb ub cur rest → ∃ t, t.Sublist rest ∧ sub = cur ++ t := by
  intro rest
  induction rest with
  | nil =>
    intro cur sub h
    simp only [genTreeAux] at h
    split at h
    · cases h
    · simp only [List.mem_singleton] at h
      exact ⟨[], List.Sublist.refl _, by simp [h]⟩
  | cons x xs ih =>
    intro cur sub h
    simp only [genTreeAux] at h
    split at h
    · cases h
    · rcases List.mem_append.1 h with h | h
      · obtain ⟨t, ht, rfl⟩ := ih _ _ h
        exact ⟨x :: t, ht.cons_cons x, by simp⟩
      · obtain ⟨t, ht, rfl⟩ := ih _ _ h
        exact ⟨t, ht.cons x, rfl⟩

theorem genTree_sublist (v : α → Nat) (den : Nat) (lb ub : Int) (items sub : List α)
    (h : sub ∈ genTree v den lb ub items) : sub.Sublist (sortDesc v items) := by
  obtain ⟨t, ht, rfl⟩ := genTreeAux_sublist v den lb ub _ _ _ h
  simpa using ht

/-- the in/ex tree of the values (in any order) is the image of the in/ex tree of the items -/
theorem genTree_values (v : α → Nat) (den : Nat) (lb ub : Int) {rem : List α} {remN : List Nat}
    (hp : (rem.map v).Perm remN) :
    genTree id den lb ub remN = (genTree v den lb ub rem).map (List.map v) := by
  have hsort : sortDesc id remN = (sortDesc v rem).map v := by
    rw [← Natural.sortDesc_map v v id (fun _ => rfl) rem]
    exact Natural.sortDesc_id_perm hp.symm
  unfold genTree
  rw [hsort]
  exact Natural2.genTreeAux_natural v v id (fun _ => rfl) den lb ub [] (sortDesc v rem)

/-- two bins -/
theorem rnpRecF_two_values {v nm : α → Nat} [BEq α] [LawfulBEq α] {c c' : Bool} {fuel fuel' rf rf' : Nat}
    {prior best r : Bins α} {priorN bestN r' : Bins Nat} {rem : List α} {remN : List Nat}
    (hp : (rem.map v).Perm remN) (h : rnpRecF v nm c fuel rf 2 prior best rem = .ok r)
    (h' : rnpRecF id id c' fuel' rf' 2 priorN bestN remN = .ok r') : r.sums = r'.sums :=
  ckk2_sums_values hp (SumsOnly.rnpRecF_two_eq h) (SumsOnly.rnpRecF_two_eq h')

/-- three bins (the odd case over the two-bin case) -/
theorem rnpRecF_three_values {v nm : α → Nat} [BEq α] [LawfulBEq α] {c c' : Bool} {fuel fuel' rf rf' : Nat}
    {prior best r : Bins α} {priorN bestN r' : Bins Nat} {rem : List α} {remN : List Nat}
    (hpr : prior.sums = priorN.sums) (hb : best.sums = bestN.sums) (hp : (rem.map v).Perm remN)
    (h : rnpRecF v nm c fuel (rf + 1) 3 prior best rem = .ok r)
    (h' : rnpRecF id id c' fuel' (rf' + 1) 3 priorN bestN remN = .ok r') : r.sums = r'.sums := by
  rw [SumsOnly.rnpRecF_odd_eq (by rfl)] at h h'
  have ht : binSum id remN = binSum v rem := by
    unfold binSum
    rw [List.map_id]
    exact (Part.sumL_perm hp).symm
  rw [ht, ← hb, genTree_values v _ _ _ hp] at h'
  refine foldE_hsim (fun (b : Bins α) (b' : Bins Nat) => b.sums = b'.sums) (List.map v)
    (fun sub => sub.Sublist (sortDesc v rem)) _ _ ?_ _ _ _ _ _
    (fun sub hs => genTree_sublist v _ _ _ _ _ hs) hb h h'
  intro s s' x t t' hx hs ht1 ht2
  obtain ⟨nb, hnb, hcase⟩ := SumsOnly.oddStep_cases ht1
  obtain ⟨nb', hnb', hcase'⟩ := SumsOnly.oddStep_cases ht2
  have e := rnpRecF_two_values
    (findDiff_values v x (sortDesc v rem) rem remN hx (Part.sortDesc_perm v rem) hp) hnb hnb'
  rw [binSum_id_map, ← e, ← hs, ← hpr] at hcase'
  rcases hcase with ⟨hlt, rfl⟩ | ⟨hle, rfl⟩ <;> rcases hcase' with ⟨hlt', rfl⟩ | ⟨hle', rfl⟩
  · simp only [Bins.concat, e, hpr]
  · omega
  · omega
  · exact hs

/-- **C07 for recursive number partitioning with two or three bins, the whole vector of sums (P2 for `rnpF`,
    partial: `k ≤ 3`).**  Arbitrary items, either manager, any fuels.  Missing for `k ∈ {4, 5}`: a lock-step
    argument for the 2-way generator `ckkGen` under the two de-duplications. -/
theorem rnpF_list_dict_sums_partial_k_le_three {v nm : α → Nat} [BEq α] [LawfulBEq α] {c₁ c₂ : Bool} {k : Nat}
    {items : List α} {fuel₁ fuel₂ : Nat} {b₁ : Bins α} {b₂ : Bins Nat} (hk : k = 2 ∨ k = 3)
    (h₁ : rnpF v nm k c₁ items fuel₁ = .ok b₁) (h₂ : rnpF id id k c₂ (items.map v) fuel₂ = .ok b₂) :
    b₂.sums = b₁.sums := by
  unfold rnpF at h₁ h₂
  rw [Natural.kk_natural v v id (fun _ => rfl) k items] at h₂
  cases hb : kk v k items with
  | error e => rw [hb] at h₁; cases h₁
  | ok best =>
    rw [hb] at h₁ h₂
    simp only [Natural2.map_ok] at h₁ h₂
    have hbs : (best.mapItems v).sums = best.sums := rfl
    rw [hbs] at h₂
    split at h₁
    · rename_i h0
      rw [if_pos h0] at h₂
      cases h₁; cases h₂; rfl
    · rename_i h0
      rw [if_neg h0] at h₂
      have h6 : ¬ k ≥ 6 := by omega
      rw [if_neg h6] at h₁ h₂
      rcases hk with rfl | rfl
      · exact (rnpRecF_two_values (List.Perm.refl _) h₁ h₂).symm
      · refine (rnpRecF_three_values ?_ ?_ ?_ h₁ h₂).symm
        · rfl
        · rfl
        · exact List.Perm.refl _

/-- non-vacuity: three bins, the run goes through the odd case and the 2-way search -/
example : (⟨[6, 7, 7], [[4, 2], [5, 2], [1, 2, 2, 2]]⟩ : Bins Nat).sums
    = (⟨[6, 7, 7], [[(1, 4), (6, 2)], [(0, 5), (5, 2)], [(7, 1), (2, 2), (3, 2), (4, 2)]]⟩ :
        Bins (Nat × Nat)).sums :=
  rnpF_list_dict_sums_partial_k_le_three (v := Prod.snd) (nm := Prod.fst) (c₁ := true) (c₂ := true) (k := 3)
    (items := cexItems) (fuel₁ := 1000) (fuel₂ := 1000) (Or.inr rfl) rfl rfl

end Prtpy.CKKDedupe

/-
Axiom audit (output of `#print axioms` observed with `lake env lean`):

#print axioms Prtpy.CKKDedupe.ckk_sums_manager_dependent_list
  'Prtpy.CKKDedupe.ckk_sums_manager_dependent_list' depends on axioms: [propext]
#print axioms Prtpy.CKKDedupe.ckk_sums_manager_dependent
  'Prtpy.CKKDedupe.ckk_sums_manager_dependent' depends on axioms: [propext]
#print axioms Prtpy.CKKDedupe.ckk_list_dict_disagree
  'Prtpy.CKKDedupe.ckk_list_dict_disagree' depends on axioms: [propext]
#print axioms Prtpy.CKKDedupe.ckk_list_dict_disagree_names
  'Prtpy.CKKDedupe.ckk_list_dict_disagree_names' depends on axioms: [propext]
#print axioms Prtpy.CKKDedupe.not_P1
  'Prtpy.CKKDedupe.not_P1' depends on axioms: [propext]
#print axioms Prtpy.CKKDedupe.not_P1_distinct_names
  'Prtpy.CKKDedupe.not_P1_distinct_names' depends on axioms: [propext]
#print axioms Prtpy.CKKDedupe.not_P2_distinct_names
  'Prtpy.CKKDedupe.not_P2_distinct_names' depends on axioms: [propext]
#print axioms Prtpy.CKKDedupe.ckk_list_dict_spread
  'Prtpy.CKKDedupe.ckk_list_dict_spread' depends on axioms: [propext, Classical.choice, Quot.sound]
#print axioms Prtpy.CKKDedupe.snp_list_dict_spread
  'Prtpy.CKKDedupe.snp_list_dict_spread' depends on axioms: [propext, Classical.choice, Quot.sound]
#print axioms Prtpy.CKKDedupe.rnpF_list_dict_spread
  'Prtpy.CKKDedupe.rnpF_list_dict_spread' depends on axioms: [propext, Classical.choice, Quot.sound]
#print axioms Prtpy.CKKDedupe.sorted_eq_of_spread_le_one
  'Prtpy.CKKDedupe.sorted_eq_of_spread_le_one' depends on axioms: [propext, Classical.choice, Quot.sound]
#print axioms Prtpy.CKKDedupe.ckk_sums_manager_independent_partial_spread_le_one
  'Prtpy.CKKDedupe.ckk_sums_manager_independent_partial_spread_le_one' depends on axioms: [propext, Classical.choice, Quot.sound]
#print axioms Prtpy.CKKDedupe.ckk_list_dict_sums_partial_spread_le_one
  'Prtpy.CKKDedupe.ckk_list_dict_sums_partial_spread_le_one' depends on axioms: [propext, Classical.choice, Quot.sound]
#print axioms Prtpy.CKKDedupe.ckk_list_dict_sums_two
  'Prtpy.CKKDedupe.ckk_list_dict_sums_two' depends on axioms: [propext, Classical.choice, Quot.sound]
#print axioms Prtpy.CKKDedupe.snp_list_dict_sums
  'Prtpy.CKKDedupe.snp_list_dict_sums' depends on axioms: [propext, Classical.choice, Quot.sound]
#print axioms Prtpy.CKKDedupe.rnpF_list_dict_sums_partial_k_le_three
  'Prtpy.CKKDedupe.rnpF_list_dict_sums_partial_k_le_three' depends on axioms: [propext, Classical.choice, Quot.sound]

Search log (the model compiled to a native executable; "exhaustive" = all multisets of positive values with the
stated largest value, given in non-increasing order; dict names `0, 1, 2, …` in input order unless stated otherwise;
every instance was run three times: dict + contents manager, dict + sums-only manager, list + contents manager).

REAL LIBRARY (prtpy from /repo, `partition(algorithm=complete_karmarkar_karp_sy.optimal, numbins=4, …)`):
  items [5,4,2,2,2,2,2,1] as a list:  outputtype Sums -> [4,5,5,6];  Partition -> [[4],[2,2],[2,2,2],[1,5]]  (sums 4,4,6,6)
  the same values as a dict i0..i7:   outputtype Sums -> [4,5,5,6];  Partition -> sums 4,5,5,6
  items [7,6,3,3,3,3,2,1]: list Partition sums 6,6,8,8; list Sums, dict Sums, dict Partition sums 6,7,7,8
  items [16,15,13,11,10,9,7,5,4] (list or dict): Sums -> [21,21,24,24];  Partition -> sums 21,22,23,24
  items [10,7,7,5,4,2,2,2,1]: dict Partition sums 9,10,10,11; list Partition sums 9,9,11,11; Sums (both) [9,10,10,11]
  all exactly as the model predicts.

P2 / P1-with-list-input (dict vs list, contents manager; in these ranges the sums-only run always agreed with the
dict run, so every line is also a counterexample to P1 for list input):
  * 4 bins, exhaustive: none with n ≤ 7 items (largest value ≤ 16), none with n = 8 and largest value ≤ 4;
    MINIMAL: n = 8, largest value 5: [5,4,2,2,2,2,2,1]  (dict [4,5,5,6], list [4,4,6,6]); then [7,6,3,3,3,3,2,1],
    [7,6,4,4,2,2,2,1], [8,7,5,5,2,2,2,1], …: about 100 more with n ∈ {8, 9} and values ≤ 16.
  * 5 bins: none with n ≤ 7 (values ≤ 8) nor n = 8 (values ≤ 6); n = 9: [5,5,4,2,2,2,2,2,1] (dict [4,5,5,5,6], list
    [4,4,5,6,6]), [7,7,6,4,4,2,2,2,1], [8,7,6,3,3,3,3,3,2].
  * 3 bins: none (n ≤ 9 values ≤ 10; n = 10 values ≤ 8, exhaustive).
  * all permutations of the names (n ≤ 5, values ≤ 6, k ∈ {3,4,5}): no disagreement; with repeated names (not a dict)
    already six items disagree (`cexItems6`).
P1 with distinct names (contents vs sums-only manager on the same dict):
  * 4 bins, exhaustive: none for n ≤ 7 (values ≤ 16), n = 8 (values ≤ 12), n = 9 (values ≤ 10), n = 10 (values ≤ 5);
    none in about 90 000 random instances (n ≤ 12, values ≤ 30, k ∈ {3,4,5}); found by construction:
    [16,15,13,11,10,9,7,5,4] — the first descent builds the tuples (11,13,15,16) and (5,7,9,10) next to the single 4,
    a heap from which the two de-duplications explore two classes of equal top-difference in opposite order.
  * 3 and 5 bins: none (same ranges as above).
SNP, RNP (dict vs list, k ∈ {3,4,5}, n ≤ 8 values ≤ 16 (k = 4), n = 9 values ≤ 12 (k = 4), n = 10 values ≤ 7, names in
  input order and reversed): no disagreement; SNP is `snp_list_dict_sums`, RNP is proved for k ≤ 3 only.
-/
