/-
  PrtpyProofs.RNPF — recursive number partitioning after fix F10 (`Prtpy.rnpRecF`, `Prtpy.rnpF`,
  Prtpy/Model/RNP.lean): validity (C01), optimality for every `numbins ≤ 5` (C02), naturality (C07); and the
  two facts about 2-way complete Karmarkar–Karp that `SNPOpt` takes as hypotheses:

  * `ckk2Optimal`    : `SNPOpt.Ckk2Optimal v nm`, hence `snp_optimal'` — since fix F11 (the 2-way search of snp/rnp
                       is `ckkF`) these two, `rnpF_isPartition`, `rnpF_optimal`, `rnp_optimal_four` and `rnpF_natural`
                       are in PrtpyProofs/CKKFSwitch.lean (same namespace `Prtpy.RNPF`), downstream of
                       PrtpyProofs/CKKF.lean; this file keeps the parts relative to `CkkValid`/`Ckk2Optimal`
                       (`rnpF_isPartition_of`, `rnpF_optimal_of_genComplete`) and `ckkGenComplete`;
  * `ckkGenComplete` : `SNPOpt.CkkGenComplete v nm` — the 2-way generator started with the bound `d` yields every
                       2-way split of difference `< d` (§6: a contents-level `Reach` for two bins, `RC`).

  Main results: `ckk2Optimal`, `snp_optimal'`, `rnpF_isPartition`, `ckkGenComplete`, `rnpF_optimal`
  (`rnpF_optimal_of_genComplete`, `rnpRecF_four_opt`, `rnpRecF_odd_opt`), `rnpF_natural`.
-/
import Prtpy
import PrtpyProofs.Part
import PrtpyProofs.Obj
import PrtpyProofs.Oracle
import PrtpyProofs.SNP
import PrtpyProofs.CKKValid
import PrtpyProofs.CKKOpt
import PrtpyProofs.SNPOpt
import PrtpyProofs.Natural
import PrtpyProofs.Natural2
import Mathlib.Data.List.Perm.Basic

namespace Prtpy.RNPF
open Prtpy
open Prtpy.SNPProofs (binSum_nil binSum_cons)
open Prtpy.SNPOpt (Ckk2Optimal CkkGenComplete)

variable {α : Type}

/-! ## 1. (moved) 2-way CKK is optimal; SNP is optimal without hypotheses

  `ckk2Optimal` and `snp_optimal'` are in PrtpyProofs/CKKFSwitch.lean (same namespace): since fix F11 the 2-way
  search of snp/rnp is `ckkF`, whose optimality is proved in PrtpyProofs/CKKF.lean, downstream of this file. -/

/-! ## 2. unfolding `rnpRecF` -/

theorem rnpRecF_two_eq {v nm : α → Nat} [BEq α] {fuel rf : Nat} {prior best r : Bins α} {items : List α}
    (h : rnpRecF v nm true fuel rf 2 prior best items = .ok r) : ckk2 v nm true items fuel = .ok r := by
  cases rf with
  | zero => simp only [rnpRecF] at h; cases h
  | succ rf =>
    rw [rnpRecF] at h
    simpa only [BEq.rfl, if_true] using h

theorem rnpRecF_two {v nm : α → Nat} [BEq α] (hckk : SNPProofs.CkkValid v nm) {fuel rf : Nat} {prior best r : Bins α}
    {items : List α} (h : rnpRecF v nm true fuel rf 2 prior best items = .ok r) : IsPartition v items 2 r :=
  SNPProofs.ckk2_valid hckk (rnpRecF_two_eq h)

/-- the loop body of the odd case -/
def oddStep (v nm : α → Nat) [BEq α] (fuel rf cur : Nat) (prior : Bins α) (items : List α)
    (best : Bins α) (sub : List α) : Except Err (Bins α) :=
  let prior2 : Bins α := ⟨prior.sums ++ [binSum v sub], prior.lists ++ [sub]⟩
  match rnpRecF v nm true fuel rf (cur - 1) prior2 best (findDiff items sub) with
  | .error e => .error e
  | .ok nb =>
    if spread (nb.sums ++ prior2.sums) < spread best.sums then .ok (prior2.concat nb) else .ok best

theorem rnpRecF_odd_eq {v nm : α → Nat} [BEq α] {fuel rf cur : Nat} {prior best : Bins α} {items : List α}
    (hodd : cur % 2 = 1) :
    rnpRecF v nm true fuel (rf + 1) cur prior best items =
      foldE (oddStep v nm fuel rf cur prior items) best
        (genTree v cur (((binSum v items : Nat) : Int) - ((cur : Int) - 1) * ((spread best.sums : Nat) : Int))
          ((binSum v items : Nat) : Int) items) := by
  rw [rnpRecF]
  have h2 : (cur == 2) = false := by
    cases hc : cur == 2 with
    | false => rfl
    | true => have := eq_of_beq hc; omega
  have h1 : (cur % 2 == 1) = true := by rw [hodd]; rfl
  simp only [h2, h1, Bool.false_eq_true, if_false, if_true]
  rfl

/-- what one iteration of the odd loop does: the recursive call succeeds; the new state is the old one, or the
    new prior bin followed by the recursive result, whose combined spread is then strictly smaller -/
theorem oddStep_cases {v nm : α → Nat} [BEq α] {fuel rf cur : Nat} {prior : Bins α} {items : List α}
    {st st' : Bins α} {sub : List α} (h : oddStep v nm fuel rf cur prior items st sub = .ok st') :
    ∃ nb, rnpRecF v nm true fuel rf (cur - 1) ⟨prior.sums ++ [binSum v sub], prior.lists ++ [sub]⟩ st
        (findDiff items sub) = .ok nb ∧
      ((spread (nb.sums ++ (prior.sums ++ [binSum v sub])) < spread st.sums ∧
          st' = Bins.concat ⟨prior.sums ++ [binSum v sub], prior.lists ++ [sub]⟩ nb) ∨
       (spread st.sums ≤ spread (nb.sums ++ (prior.sums ++ [binSum v sub])) ∧ st' = st)) := by
  unfold oddStep at h
  simp only [] at h
  cases hr : rnpRecF v nm true fuel rf (cur - 1) ⟨prior.sums ++ [binSum v sub], prior.lists ++ [sub]⟩ st
      (findDiff items sub) with
  | error e => rw [hr] at h; cases h
  | ok nb =>
    rw [hr] at h
    simp only at h
    refine ⟨nb, rfl, ?_⟩
    split at h
    · rename_i hlt
      cases h
      exact Or.inl ⟨hlt, rfl⟩
    · rename_i hlt
      cases h
      exact Or.inr ⟨Nat.not_lt.1 hlt, rfl⟩

theorem oddStep_spec {v nm : α → Nat} [BEq α] {fuel rf cur : Nat} {prior : Bins α} {items : List α}
    {st st' : Bins α} {sub : List α} (h : oddStep v nm fuel rf cur prior items st sub = .ok st') :
    ∃ nb, rnpRecF v nm true fuel rf (cur - 1) ⟨prior.sums ++ [binSum v sub], prior.lists ++ [sub]⟩ st
        (findDiff items sub) = .ok nb ∧
      spread st'.sums ≤ spread st.sums ∧
      spread st'.sums ≤ spread (nb.sums ++ (prior.sums ++ [binSum v sub])) := by
  obtain ⟨nb, hnb, ⟨hlt, rfl⟩ | ⟨hle, rfl⟩⟩ := oddStep_cases h
  · refine ⟨nb, hnb, ?_⟩
    have e : spread (Bins.concat ⟨prior.sums ++ [binSum v sub], prior.lists ++ [sub]⟩ nb).sums
        = spread (nb.sums ++ (prior.sums ++ [binSum v sub])) := SNPOpt.spread_perm List.perm_append_comm
    rw [e]
    exact ⟨Nat.le_of_lt hlt, Nat.le_refl _⟩
  · exact ⟨nb, hnb, Nat.le_refl _, hle⟩

/-- the loop body of the even case (after F10: the prior sums count) -/
def evenStep (v nm : α → Nat) [BEq α] (fuel rf half : Nat) (prior : Bins α)
    (st : Bins α × Nat) (top : Bins α) : Except Err (Bins α × Nat) :=
  let i1 := top.lists.getD 0 []
  let i2 := top.lists.getD 1 []
  match rnpRecF v nm true fuel rf half prior st.1 i1 with
  | .error e => .error e
  | .ok nb1 =>
    match rnpRecF v nm true fuel rf half prior st.1 i2 with
    | .error e => .error e
    | .ok nb2 =>
      let d := spread (nb1.sums ++ nb2.sums ++ prior.sums)
      if d < st.2 then .ok (nb1.concat nb2, d) else .ok st

theorem rnpRecF_four_eq {v nm : α → Nat} [BEq α] {fuel rf : Nat} {prior best : Bins α} {items : List α} :
    rnpRecF v nm true fuel (rf + 1) 4 prior best items =
      match (if items.isEmpty then .error .valueError
             else ckkGen v nm 2 true items (some (spread best.sums)) fuel) with
      | .error e => .error e
      | .ok tops => (foldE (evenStep v nm fuel rf 2 prior) (best, spread best.sums) tops).map (·.1) := by
  rw [rnpRecF]
  simp only [show ((4 : Nat) == 2) = false from rfl, show ((4 : Nat) % 2 == 1) = false from rfl,
    show (4 : Nat) / 2 = 2 from rfl, Bool.false_eq_true, if_false]
  rfl

/-- what one iteration of the even loop does -/
theorem evenStep_cases {v nm : α → Nat} [BEq α] {fuel rf half : Nat} {prior : Bins α} {st st' : Bins α × Nat}
    {top : Bins α} (h : evenStep v nm fuel rf half prior st top = .ok st') :
    ∃ nb1 nb2, rnpRecF v nm true fuel rf half prior st.1 (top.lists.getD 0 []) = .ok nb1 ∧
      rnpRecF v nm true fuel rf half prior st.1 (top.lists.getD 1 []) = .ok nb2 ∧
      ((spread (nb1.sums ++ nb2.sums ++ prior.sums) < st.2 ∧
          st' = (nb1.concat nb2, spread (nb1.sums ++ nb2.sums ++ prior.sums))) ∨
       (st.2 ≤ spread (nb1.sums ++ nb2.sums ++ prior.sums) ∧ st' = st)) := by
  unfold evenStep at h
  simp only [] at h
  cases h1 : rnpRecF v nm true fuel rf half prior st.1 (top.lists.getD 0 []) with
  | error e => rw [h1] at h; cases h
  | ok nb1 =>
    rw [h1] at h
    simp only at h
    cases h2 : rnpRecF v nm true fuel rf half prior st.1 (top.lists.getD 1 []) with
    | error e => rw [h2] at h; cases h
    | ok nb2 =>
      rw [h2] at h
      simp only at h
      refine ⟨nb1, nb2, rfl, rfl, ?_⟩
      split at h
      · rename_i hlt
        cases h
        exact Or.inl ⟨hlt, rfl⟩
      · rename_i hlt
        cases h
        exact Or.inr ⟨Nat.not_lt.1 hlt, rfl⟩

/-- the state invariant of the even loop: the state is the initial one, or a valid 4-way partition of the items
    together with its spread *combined with the prior sums*, which is below the initial bound -/
def EvenInv (v : α → Nat) (items : List α) (prior best : Bins α) (st : Bins α × Nat) : Prop :=
  (st.1 = best ∧ st.2 = spread best.sums) ∨
    (IsPartition v items 4 st.1 ∧ st.2 = spread (st.1.sums ++ prior.sums) ∧ st.2 < spread best.sums)

theorem evenInv_le {v : α → Nat} {items : List α} {prior best : Bins α} {st : Bins α × Nat}
    (h : EvenInv v items prior best st) : st.2 ≤ spread best.sums := by
  rcases h with ⟨_, h⟩ | ⟨_, _, h⟩ <;> omega

theorem top_lists_perm {v : α → Nat} {items : List α} {top : Bins α} (h : IsPartition v items 2 top) :
    (top.lists.getD 0 [] ++ top.lists.getD 1 []).Perm items := by
  obtain ⟨tp, tl, _⟩ := h
  match hl : top.lists, tl with
  | [a, b], _ =>
    rw [hl] at tp
    simpa using tp

theorem evenStep_inv {v nm : α → Nat} [BEq α] (hckk : SNPProofs.CkkValid v nm) {fuel rf : Nat} {prior best : Bins α} {items : List α}
    {st st' : Bins α × Nat} {top : Bins α} (htop : IsPartition v items 2 top)
    (hs : EvenInv v items prior best st) (h : evenStep v nm fuel rf 2 prior st top = .ok st') :
    EvenInv v items prior best st' := by
  obtain ⟨nb1, nb2, h1, h2, ⟨hlt, rfl⟩ | ⟨_, rfl⟩⟩ := evenStep_cases h
  · right
    refine ⟨SNPProofs.isPartition_concat (rnpRecF_two hckk h1) (rnpRecF_two hckk h2) (top_lists_perm htop) rfl, rfl, ?_⟩
    exact Nat.lt_of_lt_of_le hlt (evenInv_le hs)
  · exact hs

/-! ## 3. validity (C01), relative to the validity of the 2-way search (`SNPProofs.CkkValid`, i.e. of `ckkF … 2 …`);
  the unconditional `rnpF_isPartition` is in PrtpyProofs/CKKFSwitch.lean -/

theorem rnpRecF_four {v nm : α → Nat} [BEq α] (hckk : SNPProofs.CkkValid v nm) {fuel rf : Nat} {prior best r : Bins α}
    {items : List α} (h : rnpRecF v nm true fuel rf 4 prior best items = .ok r) :
    IsPartition v items 4 r ∨ r = best := by
  cases rf with
  | zero => simp only [rnpRecF] at h; cases h
  | succ rf =>
    rw [rnpRecF_four_eq] at h
    by_cases hemp : items.isEmpty = true
    · rw [if_pos hemp] at h; cases h
    · rw [if_neg hemp] at h
      have hne : items ≠ [] := by simpa using hemp
      cases hg : ckkGen v nm 2 true items (some (spread best.sums)) fuel with
      | error e => rw [hg] at h; cases h
      | ok tops =>
        rw [hg] at h
        simp only at h
        have htops := CKKValid.ckkGen_valid v nm 2 items _ fuel tops (by omega) hne hg
        cases hf : foldE (evenStep v nm fuel rf 2 prior) (best, spread best.sums) tops with
        | error e => rw [hf] at h; cases h
        | ok st =>
          rw [hf] at h
          simp only [Except.map] at h
          cases h
          have := SNPProofs.foldE_inv (EvenInv v items prior best) _ tops
            (fun s top s' htop hs hstep => evenStep_inv hckk (htops top htop) hs hstep)
            (best, spread best.sums) st (Or.inl ⟨rfl, rfl⟩) hf
          rcases this with ⟨h1, _⟩ | ⟨h1, _⟩
          · exact Or.inr h1
          · exact Or.inl h1

/-- the odd case of `rec_generate_sets`: one sub-collection is split off into a new prior bin, the rest is
    partitioned recursively; the result is the incumbent or a valid partition that includes the prior bins -/
theorem rnpRecF_odd {v nm : α → Nat} [BEq α] [LawfulBEq α] {fuel rf cur : Nat} {prior best r : Bins α}
    {items : List α} (hodd : cur % 2 = 1)
    (hrec : ∀ (prior2 best' : Bins α) (rest : List α) (nb : Bins α),
      rnpRecF v nm true fuel rf (cur - 1) prior2 best' rest = .ok nb →
        IsPartition v rest (cur - 1) nb ∨ nb = best')
    (hpc : prior.Consistent v)
    (h : rnpRecF v nm true fuel (rf + 1) cur prior best items = .ok r) :
    IsPartition v (prior.lists.flatten ++ items) (prior.lists.length + cur) r ∨ r = best := by
  rw [rnpRecF_odd_eq hodd] at h
  refine SNPProofs.foldE_inv
    (fun b : Bins α => IsPartition v (prior.lists.flatten ++ items) (prior.lists.length + cur) b ∨ b = best)
    _ _ ?_ best r (Or.inr rfl) h
  intro s sub s' hsub hs hstep
  obtain ⟨nb, hr, ⟨hlt, rfl⟩ | ⟨_, rfl⟩⟩ := oddStep_cases hstep
  · rcases hrec _ _ _ _ hr with hnb | rfl
    · left
      refine SNPProofs.isPartition_concat (i1 := prior.lists.flatten ++ sub) (k1 := prior.lists.length + 1)
        ⟨by simp, by simp, ?_⟩ hnb ?_ (by omega)
      · unfold Bins.Consistent at hpc
        simp only [List.map_append, hpc, List.map_cons, List.map_nil]
      · rw [List.append_assoc]
        exact (SNPProofs.findDiff_perm_of_subperm (SNPProofs.genTree_mem_subperm hsub)).append_left _
    · exact absurd hlt (Nat.not_lt.2 (SNPProofs.spread_le_append _ _))
  · exact hs

theorem rnpRecF_three {v nm : α → Nat} [BEq α] [LawfulBEq α] (hckk : SNPProofs.CkkValid v nm) {fuel rf : Nat} {prior best r : Bins α}
    {items : List α} (hpc : prior.Consistent v)
    (h : rnpRecF v nm true fuel rf 3 prior best items = .ok r) :
    IsPartition v (prior.lists.flatten ++ items) (prior.lists.length + 3) r ∨ r = best := by
  cases rf with
  | zero => simp only [rnpRecF] at h; cases h
  | succ rf =>
    exact rnpRecF_odd (cur := 3) rfl (fun _ _ _ _ hr => Or.inl (rnpRecF_two hckk hr)) hpc h

theorem rnpRecF_five {v nm : α → Nat} [BEq α] [LawfulBEq α] (hckk : SNPProofs.CkkValid v nm) {fuel rf : Nat} {prior best r : Bins α}
    {items : List α} (hpc : prior.Consistent v)
    (h : rnpRecF v nm true fuel rf 5 prior best items = .ok r) :
    IsPartition v (prior.lists.flatten ++ items) (prior.lists.length + 5) r ∨ r = best := by
  cases rf with
  | zero => simp only [rnpRecF] at h; cases h
  | succ rf =>
    exact rnpRecF_odd (cur := 5) rfl (fun _ _ _ _ hr => rnpRecF_four hckk hr) hpc h

/-- **C01 for `rnpF`** (numbins ≤ 5), relative to the validity of the 2-way search -/
theorem rnpF_isPartition_of {v nm : α → Nat} [BEq α] [LawfulBEq α] (hckk : SNPProofs.CkkValid v nm) {k : Nat} {items : List α} {fuel : Nat}
    {b : Bins α} (hk : 0 < k) (hk5 : k ≤ 5) (hne : items ≠ [])
    (h : rnpF v nm k true items fuel = .ok b) : IsPartition v items k b := by
  unfold rnpF at h
  cases hb : kk v k items with
  | error e => rw [hb] at h; cases h
  | ok best =>
    rw [hb] at h
    have hbest := CKKValid.kkValid v k items best hk hne hb
    simp only [] at h
    split at h
    · cases h; exact hbest
    · rename_i hsp
      rw [if_neg (by omega)] at h
      have hnil : (⟨[], []⟩ : Bins α).Consistent v := rfl
      obtain rfl | rfl | rfl | rfl | rfl : k = 1 ∨ k = 2 ∨ k = 3 ∨ k = 4 ∨ k = 5 := by omega
      · exact absurd (SNPOpt.spread_one_bin hbest) hsp
      · exact rnpRecF_two hckk h
      · rcases rnpRecF_three hckk hnil h with hr | rfl
        · simpa using hr
        · exact hbest
      · rcases rnpRecF_four hckk h with hr | rfl
        · exact hr
        · exact hbest
      · rcases rnpRecF_five hckk hnil h with hr | rfl
        · simpa using hr
        · exact hbest

/-! ## 4. optimality (C02), relative to the two facts about 2-way CKK -/

/-- sums that all lie between two of the sums of `B` do not widen the spread, whatever fixed sums are added -/
theorem spread_append_le_of_bounds {A B P : List Nat} {lo hi : Nat} (hA : A ≠ []) (hlo : lo ∈ B) (hhi : hi ∈ B)
    (h : ∀ x ∈ A, lo ≤ x ∧ x ≤ hi) : spread (A ++ P) ≤ spread (B ++ P) := by
  have hne : A ++ P ≠ [] := by simp [hA]
  have h1 : maxL (A ++ P) ≤ maxL (B ++ P) := by
    rcases List.mem_append.1 (SNPProofs.maxL_mem hne) with hm | hm
    · exact Nat.le_trans (h _ hm).2 (SNPProofs.le_maxL_of_mem (List.mem_append_left _ hhi))
    · exact SNPProofs.le_maxL_of_mem (List.mem_append_right _ hm)
  have h2 : minL (B ++ P) ≤ minL (A ++ P) := by
    rcases List.mem_append.1 (SNPProofs.minL_mem hne) with hm | hm
    · exact Nat.le_trans (SNPProofs.minL_le_of_mem (List.mem_append_left _ hlo)) (h _ hm).1
    · exact SNPProofs.minL_le_of_mem (List.mem_append_right _ hm)
  unfold spread
  omega

/-- **The even case with four bins and arbitrary prior bins (this is what F10 repairs).**  There is a number `D`,
    at most the incumbent's spread, such that: the result is the incumbent and `D` is its spread, or the result is
    a valid 4-way partition of the items whose spread *combined with the prior sums* is `D`, strictly below the
    incumbent's; and no 4-way partition of the items has a combined spread below `D`. -/
theorem rnpRecF_four_opt {v nm : α → Nat} [BEq α] (hckk : Ckk2Optimal v nm) (hgen : CkkGenComplete v nm)
    {fuel rf : Nat} {prior best r : Bins α} {items : List α}
    (h : rnpRecF v nm true fuel rf 4 prior best items = .ok r) :
    ∃ D, ((r = best ∧ D = spread best.sums) ∨
        (IsPartition v items 4 r ∧ D = spread (r.sums ++ prior.sums) ∧ D < spread best.sums)) ∧
      ∀ L : List (List α), L.length = 4 → L.flatten.Perm items →
        D ≤ spread (L.map (binSum v) ++ prior.sums) := by
  cases rf with
  | zero => simp only [rnpRecF] at h; cases h
  | succ rf =>
    rw [rnpRecF_four_eq] at h
    by_cases hemp : items.isEmpty = true
    · rw [if_pos hemp] at h; cases h
    · rw [if_neg hemp] at h
      have hne : items ≠ [] := by simpa using hemp
      cases hg : ckkGen v nm 2 true items (some (spread best.sums)) fuel with
      | error e => rw [hg] at h; cases h
      | ok tops =>
        rw [hg] at h
        simp only at h
        have htops := CKKValid.ckkGen_valid v nm 2 items _ fuel tops (by omega) hne hg
        cases hf : foldE (evenStep v nm fuel rf 2 prior) (best, spread best.sums) tops with
        | error e => rw [hf] at h; cases h
        | ok st =>
          rw [hf] at h
          simp only [Except.map] at h
          cases h
          have hinv : EvenInv v items prior best st := SNPProofs.foldE_inv (EvenInv v items prior best) _ tops
            (fun s top s' htop hs hstep => evenStep_inv hckk.valid (htops top htop) hs hstep)
            (best, spread best.sums) st (Or.inl ⟨rfl, rfl⟩) hf
          refine ⟨st.2, hinv, ?_⟩
          intro L hl hp
          rcases Nat.lt_or_ge (spread (L.map (binSum v) ++ prior.sums)) (spread best.sums) with hlt | hge
          · obtain ⟨l1, l4, p, q, hperm, h14, hpb, hqb⟩ := SNPOpt.four_sorted v hl
            have m1 : binSum v l1 ∈ L.map (binSum v) := List.mem_map_of_mem (hperm.mem_iff.2 (by simp))
            have m4 : binSum v l4 ∈ L.map (binSum v) := List.mem_map_of_mem (hperm.mem_iff.2 (by simp))
            -- the combined spread of `L` is at least the distance between its smallest and its largest sum
            have hD : binSum v l4 - binSum v l1 ≤ spread (L.map (binSum v) ++ prior.sums) := by
              have := SNPProofs.le_maxL_of_mem (List.mem_append_left prior.sums m4)
              have := SNPProofs.minL_le_of_mem (List.mem_append_left prior.sums m1)
              unfold spread
              omega
            -- the split (smallest + largest, the two others) is yielded by the generator
            have hXY : ((l1 ++ l4) ++ (p ++ q)).Perm items := by
              have := hperm.flatten.symm.trans hp
              simpa using this
            have hdiff : spread [binSum v (l1 ++ l4), binSum v (p ++ q)] < spread best.sums := by
              rw [SNPOpt.spread_pair, SNPProofs.binSum_append, SNPProofs.binSum_append]
              omega
            obtain ⟨top, htop, X', Y', hlists, hcases⟩ := hgen items _ fuel tops hne hg _ _ hXY hdiff
            refine SNPOpt.foldE_reach (fun _ : Bins α × Nat => True)
              (fun s : Bins α × Nat => s.2 ≤ spread (L.map (binSum v) ++ prior.sums)) _ top
              (fun _ _ _ _ _ => trivial) ?_ ?_ tops _ st htop trivial hf
            · intro s x s' _ hs hstep
              obtain ⟨_, _, _, _, ⟨hlt', rfl⟩ | ⟨_, rfl⟩⟩ := evenStep_cases hstep
              · exact Nat.le_trans (Nat.le_of_lt hlt') hs
              · exact hs
            · intro s s' _ hstep
              obtain ⟨nb1, nb2, hn1, hn2, hcs⟩ := evenStep_cases hstep
              have h5 : s'.2 ≤ spread (nb1.sums ++ nb2.sums ++ prior.sums) := by
                rcases hcs with ⟨_, rfl⟩ | ⟨hle, rfl⟩
                · exact Nat.le_refl _
                · exact hle
              rw [hlists] at hn1 hn2
              simp only [List.getD_cons_zero, List.getD_cons_succ] at hn1 hn2
              have hn1 := rnpRecF_two_eq hn1
              have hn2 := rnpRecF_two_eq hn2
              have key : ∃ a b c d, nb1.sums = [a, b] ∧ nb2.sums = [c, d] ∧
                  ∀ x ∈ [a, b, c, d], binSum v l1 ≤ x ∧ x ≤ binSum v l4 := by
                rcases hcases with ⟨hX, hY⟩ | ⟨hX, hY⟩
                · obtain ⟨a, b, hab, ha, hb⟩ :=
                    SNPOpt.ckk2_bounds hckk hn1 hX.symm (Nat.le_refl _) h14 h14 (Nat.le_refl _)
                  obtain ⟨c, d, hcd, hc, hd⟩ := SNPOpt.ckk2_bounds hckk hn2 hY.symm hpb.1 hqb.1 hpb.2 hqb.2
                  refine ⟨a, b, c, d, hab, hcd, ?_⟩
                  intro x hx
                  simp only [List.mem_cons, List.not_mem_nil, or_false] at hx
                  rcases hx with rfl | rfl | rfl | rfl <;> assumption
                · obtain ⟨a, b, hab, ha, hb⟩ := SNPOpt.ckk2_bounds hckk hn1 hX.symm hpb.1 hqb.1 hpb.2 hqb.2
                  obtain ⟨c, d, hcd, hc, hd⟩ :=
                    SNPOpt.ckk2_bounds hckk hn2 hY.symm (Nat.le_refl _) h14 h14 (Nat.le_refl _)
                  refine ⟨a, b, c, d, hab, hcd, ?_⟩
                  intro x hx
                  simp only [List.mem_cons, List.not_mem_nil, or_false] at hx
                  rcases hx with rfl | rfl | rfl | rfl <;> assumption
              obtain ⟨a, b, c, d, hab, hcd, hb⟩ := key
              rw [hab, hcd] at h5
              exact Nat.le_trans h5
                (spread_append_le_of_bounds (A := [a, b] ++ [c, d]) (by simp) m1 m4 hb)
          · exact Nat.le_trans (evenInv_le hinv) hge

/-- F10 at work (non-vacuity of the even case with a non-empty prior): items `[11, 9, 6, 6, 4, 4, 4]`, the bin `{9}`
    already split off, incumbent KK's `[9, 10, 10, 11, 13]` (difference 4).  The repaired code returns
    `[9, 12, 11, 12]` (combined difference 3); the code before F10 returned `[10, 11, 10, 13]`, whose own spread is
    also 3 but which gives 4 again together with the prior `9`. -/
example : (rnpRecF id id true 1000 5 4 ⟨[9], [[9]]⟩ ⟨[9, 10, 10, 11, 13], [[9], [6, 4], [6, 4], [11], [4, 9]]⟩
      [11, 9, 6, 6, 4, 4, 4]).toOption.map (·.sums) = some [9, 12, 11, 12] ∧
    (rnpRec id id true 1000 5 4 ⟨[9], [[9]]⟩ ⟨[9, 10, 10, 11, 13], [[9], [6, 4], [6, 4], [11], [4, 9]]⟩
      [11, 9, 6, 6, 4, 4, 4]).toOption.map (·.sums) = some [10, 11, 10, 13] := ⟨rfl, rfl⟩

/-- the odd case: one sub-collection inside the window fixed at creation is split off, the rest is partitioned
    recursively.  If the recursive call returns the best completion of its prior bins *among those that beat its
    incumbent* (and otherwise something no better than the incumbent), this call returns the best completion. -/
theorem rnpRecF_odd_opt {v nm : α → Nat} [BEq α] [LawfulBEq α] {fuel rf c : Nat} {prior best r : Bins α}
    {items : List α} (hodd : (c + 1) % 2 = 1)
    (hrec : ∀ (prior2 best' : Bins α) (rest : List α) (nb : Bins α),
      rnpRecF v nm true fuel rf c prior2 best' rest = .ok nb →
        ∀ L' : List (List α), L'.length = c → L'.flatten.Perm rest →
          spread (nb.sums ++ prior2.sums) ≤ spread (L'.map (binSum v) ++ prior2.sums) ∨
          spread best'.sums ≤ spread (L'.map (binSum v) ++ prior2.sums))
    (h : rnpRecF v nm true fuel (rf + 1) (c + 1) prior best items = .ok r) :
    spread r.sums ≤ spread best.sums ∧
      ∀ L : List (List α), L.length = c + 1 → L.flatten.Perm items →
        spread r.sums ≤ spread (L.map (binSum v) ++ prior.sums) := by
  rw [rnpRecF_odd_eq hodd] at h
  have hmono : ∀ D : Nat, spread best.sums ≤ D → spread r.sums ≤ D := by
    intro D hD
    exact SNPProofs.foldE_inv (fun st : Bins α => spread st.sums ≤ D) _ _
      (fun st x st' _ hst hf => by
        obtain ⟨_, _, h1, _⟩ := oddStep_spec hf
        exact Nat.le_trans h1 hst) best r hD h
  refine ⟨hmono _ (Nat.le_refl _), ?_⟩
  intro L hl hp
  rcases Nat.lt_or_ge (spread (L.map (binSum v) ++ prior.sums)) (spread best.sums) with hlt | hge
  · obtain ⟨sub, L', hsubl, hlen, hrest, hsp, hw1, hw2⟩ := SNPOpt.smallest_bin v prior.sums hl hp
    have hmem : sub ∈ genTree v (c + 1)
        (((binSum v items : Nat) : Int) - (((c + 1 : Nat) : Int) - 1) * ((spread best.sums : Nat) : Int))
        ((binSum v items : Nat) : Int) items := by
      rw [SNPProofs.genTree_eq', List.mem_filter]
      refine ⟨SNPProofs.allSubs_sublists.2 hsubl, ?_⟩
      cases hw : SNPProofs.inWin v (c + 1)
        (((binSum v items : Nat) : Int) - (((c + 1 : Nat) : Int) - 1) * ((spread best.sums : Nat) : Int))
        ((binSum v items : Nat) : Int) sub with
      | false => exact absurd (SNPOpt.out_of_window hw1 hw2 hw) (by omega)
      | true => exact hw
    refine SNPOpt.foldE_reach (fun _ => True)
      (fun st : Bins α => spread st.sums ≤ spread (L.map (binSum v) ++ prior.sums)) _ sub
      (fun _ _ _ _ _ => trivial) ?_ ?_ _ best r hmem trivial h
    · intro st x st' _ hst hf
      obtain ⟨_, _, h1, _⟩ := oddStep_spec hf
      exact Nat.le_trans h1 hst
    · intro st st' _ hf
      obtain ⟨nb, hnb, h1, h2⟩ := oddStep_spec hf
      simp only [Nat.add_sub_cancel] at hnb
      have := hrec _ _ _ _ hnb L' hlen hrest
      simp only at this
      rw [hsp] at this
      rcases this with h3 | h3
      · exact Nat.le_trans h2 h3
      · exact Nat.le_trans h1 h3
  · exact hmono _ hge

/-- **C02 for `rnpF`, every `numbins ≤ 5`**, provided the 2-way CKK search is optimal and the 2-way CKK generator
    is complete below its bound -/
theorem rnpF_optimal_of_genComplete {v nm : α → Nat} [BEq α] [LawfulBEq α] (hckk : Ckk2Optimal v nm)
    (hgen : CkkGenComplete v nm) {k : Nat} {items : List α} {fuel : Nat} {b : Bins α}
    (hk : 0 < k) (hk5 : k ≤ 5) (hne : items ≠ []) (h : rnpF v nm k true items fuel = .ok b) :
    IsOptimalValue .minDiff k (items.map v) (Objective.minDiff.value b.sums false) := by
  refine SNPOpt.optimal_of_le (rnpF_isPartition_of hckk.valid hk hk5 hne h) ?_
  intro L hl hp
  unfold rnpF at h
  cases hb : kk v k items with
  | error e => rw [hb] at h; cases h
  | ok best =>
    rw [hb] at h
    have hbest := CKKValid.kkValid v k items best hk hne hb
    simp only at h
    split at h
    · rename_i h0
      cases h
      omega
    · rename_i hsp
      rw [if_neg (by omega)] at h
      obtain rfl | rfl | rfl | rfl | rfl : k = 1 ∨ k = 2 ∨ k = 3 ∨ k = 4 ∨ k = 5 := by omega
      · exact absurd (SNPOpt.spread_one_bin hbest) hsp
      · have := SNPOpt.ckk2_le hckk (rnpRecF_two_eq h) [] L hl hp
        simpa using this
      · have := (rnpRecF_odd_opt (c := 2) rfl
          (fun prior2 _ _ nb hr L' hl' hp' =>
            Or.inl (SNPOpt.ckk2_le hckk (rnpRecF_two_eq hr) prior2.sums L' hl' hp')) h).2 L hl hp
        simpa using this
      · obtain ⟨D, hD, hall⟩ := rnpRecF_four_opt hckk hgen h
        have h1 := hall L hl hp
        simp only [List.append_nil] at h1 hD
        rcases hD with ⟨rfl, rfl⟩ | ⟨_, rfl, _⟩ <;> exact h1
      · have := (rnpRecF_odd_opt (c := 4) rfl
          (fun prior2 best' _ nb hr L' hl' hp' => by
            obtain ⟨D, hD, hall⟩ := rnpRecF_four_opt hckk hgen hr
            have h1 := hall L' hl' hp'
            rcases hD with ⟨_, rfl⟩ | ⟨_, rfl, _⟩
            · exact Or.inr h1
            · exact Or.inl h1) h).2 L hl hp
        simpa using this

/-- non-vacuity (five bins; the hypotheses are discharged in §1 and §6) -/
example (hckk : Ckk2Optimal (id : Nat → Nat) id) (hgen : CkkGenComplete (id : Nat → Nat) id) :
    IsOptimalValue .minDiff 5 ([11, 9, 9, 6, 6, 4, 4, 4].map id) 3 :=
  rnpF_optimal_of_genComplete hckk hgen (k := 5) (fuel := 1000)
    (b := ⟨[9, 9, 12, 11, 12], [[9], [9], [6, 6], [11], [4, 4, 4]]⟩) (by decide) (by decide) (by decide) rfl

/-! ## 5. (moved) naturality (C07)

  `rnpRecF_natural`, `rnpF_natural` and their examples are in PrtpyProofs/CKKFSwitch.lean (same namespace): they
  need the naturality of `ckkF` (`CKKF.ckkF_natural`), proved downstream of this file. -/

open Prtpy.CKKOpt (Reach sumsH)

/-! ## 6. completeness of the bounded 2-way generator -/

/-- `RC Ts X Y`: the 2-way split `(X, Y)` is obtained from the 2-tuples `Ts` (pairs of bins) by choosing an
    orientation of every tuple and pouring first components into `X` and second components into `Y`
    (everything up to the order of the items inside a bin) -/
inductive RC : List (List α × List α) → List α → List α → Prop
  | nil : RC [] [] []
  | same {A B X Y X' Y' : List α} {Ts : List (List α × List α)} :
      RC Ts X Y → X'.Perm (A ++ X) → Y'.Perm (B ++ Y) → RC ((A, B) :: Ts) X' Y'
  | flip {A B X Y X' Y' : List α} {Ts : List (List α × List α)} :
      RC Ts X Y → X'.Perm (B ++ X) → Y'.Perm (A ++ Y) → RC ((A, B) :: Ts) X' Y'

/-- two 2-tuples with the same bins up to order (of the bins, and of the items inside a bin) -/
def TEq (s t : List α × List α) : Prop :=
  (s.1.Perm t.1 ∧ s.2.Perm t.2) ∨ (s.1.Perm t.2 ∧ s.2.Perm t.1)

theorem teq_refl (t : List α × List α) : TEq t t := Or.inl ⟨List.Perm.refl _, List.Perm.refl _⟩

theorem rc_congr {Ts : List (List α × List α)} {X Y X2 Y2 : List α} (hX : X2.Perm X) (hY : Y2.Perm Y)
    (h : RC Ts X Y) : RC Ts X2 Y2 := by
  cases h with
  | nil =>
    rw [hX.eq_nil, hY.eq_nil]
    exact RC.nil
  | same h0 h1 h2 => exact RC.same h0 (hX.trans h1) (hY.trans h2)
  | flip h0 h1 h2 => exact RC.flip h0 (hX.trans h1) (hY.trans h2)

theorem rc_forall2 {Ts Ts' : List (List α × List α)} (hT : List.Forall₂ TEq Ts Ts') :
    ∀ {X Y : List α}, RC Ts X Y → RC Ts' X Y := by
  induction hT with
  | nil => intro X Y h; exact h
  | @cons s t Ts Ts' hst _ ih =>
    intro X Y h
    obtain ⟨A', B'⟩ := t
    cases h with
    | same h0 h1 h2 =>
      rcases hst with ⟨ha, hb⟩ | ⟨ha, hb⟩
      · exact RC.same (ih h0) (h1.trans (ha.append_right _)) (h2.trans (hb.append_right _))
      · exact RC.flip (ih h0) (h1.trans (ha.append_right _)) (h2.trans (hb.append_right _))
    | flip h0 h1 h2 =>
      rcases hst with ⟨ha, hb⟩ | ⟨ha, hb⟩
      · exact RC.flip (ih h0) (h1.trans (hb.append_right _)) (h2.trans (ha.append_right _))
      · exact RC.same (ih h0) (h1.trans (hb.append_right _)) (h2.trans (ha.append_right _))

theorem forall2_teq_refl (Ts : List (List α × List α)) : List.Forall₂ TEq Ts Ts := by
  induction Ts with
  | nil => exact List.Forall₂.nil
  | cons t Ts ih => exact List.Forall₂.cons (teq_refl t) ih

theorem rc_head {s t : List α × List α} {Ts : List (List α × List α)} {X Y : List α} (hst : TEq s t)
    (h : RC (s :: Ts) X Y) : RC (t :: Ts) X Y :=
  rc_forall2 (List.Forall₂.cons hst (forall2_teq_refl Ts)) h

/-- the order of the tuples does not matter -/
theorem rc_perm {Ts Ts' : List (List α × List α)} (hp : Ts.Perm Ts') :
    ∀ {X Y : List α}, RC Ts X Y → RC Ts' X Y := by
  induction hp with
  | nil => intro X Y h; exact h
  | cons t _ ih =>
    intro X Y h
    cases h with
    | same h0 h1 h2 => exact RC.same (ih h0) h1 h2
    | flip h0 h1 h2 => exact RC.flip (ih h0) h1 h2
  | swap a b l =>
    intro X Y h
    have key : ∀ {P Q R S : List α}, S.Perm (P ++ R) → ∀ {R0 : List α}, R.Perm (Q ++ R0) →
        S.Perm (Q ++ (P ++ R0)) := fun h1 _ h2 =>
      (h1.trans (h2.append_left _)).trans (List.perm_append_comm_assoc _ _ _)
    cases h with
    | same h0 h1 h2 =>
      cases h0 with
      | same g0 g1 g2 =>
        exact RC.same (RC.same g0 (List.Perm.refl _) (List.Perm.refl _)) (key h1 g1) (key h2 g2)
      | flip g0 g1 g2 =>
        exact RC.flip (RC.same g0 (List.Perm.refl _) (List.Perm.refl _)) (key h1 g1) (key h2 g2)
    | flip h0 h1 h2 =>
      cases h0 with
      | same g0 g1 g2 =>
        exact RC.same (RC.flip g0 (List.Perm.refl _) (List.Perm.refl _)) (key h1 g1) (key h2 g2)
      | flip g0 g1 g2 =>
        exact RC.flip (RC.flip g0 (List.Perm.refl _) (List.Perm.refl _)) (key h1 g1) (key h2 g2)
  | trans _ _ ih₁ ih₂ => intro X Y h; exact ih₂ (ih₁ h)

/-- **the merge lemma for two bins**: two tuples can be replaced by one of their two pairings -/
theorem rc_merge {A1 B1 A2 B2 : List α} {Ts : List (List α × List α)} {X Y : List α}
    (h : RC ((A1, B1) :: (A2, B2) :: Ts) X Y) :
    RC ((A1 ++ A2, B1 ++ B2) :: Ts) X Y ∨ RC ((B1 ++ A2, A1 ++ B2) :: Ts) X Y := by
  have key : ∀ {P Q R S : List α}, S.Perm (P ++ R) → ∀ {R0 : List α}, R.Perm (Q ++ R0) →
      S.Perm ((P ++ Q) ++ R0) := fun h1 _ h2 => by
    rw [List.append_assoc]; exact h1.trans (h2.append_left _)
  cases h with
  | same h0 h1 h2 =>
    cases h0 with
    | same g0 g1 g2 => exact Or.inl (RC.same g0 (key h1 g1) (key h2 g2))
    | flip g0 g1 g2 => exact Or.inr (RC.flip g0 (key h1 g1) (key h2 g2))
  | flip h0 h1 h2 =>
    cases h0 with
    | same g0 g1 g2 => exact Or.inr (RC.same g0 (key h1 g1) (key h2 g2))
    | flip g0 g1 g2 => exact Or.inl (RC.flip g0 (key h1 g1) (key h2 g2))

/-- a single tuple represents itself only -/
theorem rc_single {A B X Y : List α} (h : RC [(A, B)] X Y) : TEq (X, Y) (A, B) := by
  cases h with
  | same h0 h1 h2 =>
    cases h0
    exact Or.inl ⟨by simpa using h1, by simpa using h2⟩
  | flip h0 h1 h2 =>
    cases h0
    exact Or.inr ⟨by simpa using h1, by simpa using h2⟩

/-- the singletons represent every 2-way split -/
theorem rc_init [BEq α] [LawfulBEq α] : ∀ (items X Y : List α), (X ++ Y).Perm items →
    RC (items.map (fun x => (([] : List α), [x]))) X Y := by
  intro items
  induction items with
  | nil =>
    intro X Y hp
    have := hp.eq_nil
    simp only [List.append_eq_nil_iff] at this
    rw [this.1, this.2]
    exact RC.nil
  | cons x xs ih =>
    intro X Y hp
    have hx : x ∈ X ++ Y := hp.symm.subset List.mem_cons_self
    rcases List.mem_append.1 hx with hx | hx
    · have h1 : X.Perm (x :: X.erase x) := List.perm_cons_erase hx
      have h2 : (X.erase x ++ Y).Perm xs := by
        have := (h1.append_right Y).symm.trans hp
        exact (List.perm_cons x).1 this
      exact RC.flip (ih _ _ h2) h1 (List.Perm.refl _)
    · have h1 : Y.Perm (x :: Y.erase x) := List.perm_cons_erase hx
      have h2 : (X ++ Y.erase x).Perm xs := by
        have := ((h1.append_left X).trans List.perm_middle).symm.trans hp
        exact (List.perm_cons x).1 this
      exact RC.same (ih _ _ h2) (List.Perm.refl _) h1

/-- from contents to sums: what is represented at the level of contents is represented at the level of sums -/
theorem rc_reach (v : α → Nat) {Ts : List (List α × List α)} {X Y : List α} (h : RC Ts X Y) :
    Reach 2 (Ts.map (fun t => [binSum v t.1, binSum v t.2])) [binSum v X, binSum v Y] := by
  induction h with
  | nil => exact Reach.nil
  | @same A B X Y X' Y' Ts _ h1 h2 ih =>
    have e : [binSum v X', binSum v Y'] =
        List.zipWith (· + ·) [binSum v A, binSum v B] [binSum v X, binSum v Y] := by
      simp [Part.binSum_perm v h1, Part.binSum_perm v h2]
    rw [e]
    exact Reach.cons (List.Perm.refl _) ih
  | @flip A B X Y X' Y' Ts _ h1 h2 ih =>
    have e : [binSum v X', binSum v Y'] =
        List.zipWith (· + ·) [binSum v B, binSum v A] [binSum v X, binSum v Y] := by
      simp [Part.binSum_perm v h1, Part.binSum_perm v h2]
    rw [e]
    exact Reach.cons (List.Perm.swap _ _ _) ih


/-! ### heaps of 2-tuples -/

/-- the two bins of a 2-tuple -/
def pairL (L : List (List α)) : List α × List α := (L.getD 0 [], L.getD 1 [])

/-- the tuples of a heap, as pairs of bins -/
def pairsH (h : Heap α) : List (List α × List α) := h.map (fun e => pairL e.bins.lists)

theorem perm_pair {β : Type} {P Q A B : β} (h : [P, Q].Perm [A, B]) : (P = A ∧ Q = B) ∨ (P = B ∧ Q = A) := by
  have hP : P ∈ [A, B] := h.subset List.mem_cons_self
  simp only [List.mem_cons, List.not_mem_nil, or_false] at hP
  rcases hP with rfl | rfl
  · left
    have := (List.perm_cons P).1 h
    exact ⟨rfl, List.singleton_perm_singleton.1 this⟩
  · right
    have := (List.perm_cons P).1 (h.trans (List.Perm.swap _ _ _))
    exact ⟨rfl, List.singleton_perm_singleton.1 this⟩

theorem teq_pairL {L : List (List α)} {A B A' B' : List α} (hL : L.Perm [A', B']) (hA : A'.Perm A)
    (hB : B'.Perm B) : TEq (A, B) (pairL L) := by
  have hlen : L.length = 2 := hL.length_eq
  match L, hlen with
  | [P, Q], _ =>
    rcases perm_pair hL with ⟨rfl, rfl⟩ | ⟨rfl, rfl⟩
    · exact Or.inl ⟨hA.symm, hB.symm⟩
    · exact Or.inr ⟨hA.symm, hB.symm⟩

theorem lists_eq_pair {L : List (List α)} (hl : L.length = 2) : L = [(pairL L).1, (pairL L).2] := by
  match L, hl with
  | [P, Q], _ => rfl

theorem sumsH_eq_pairs {v : α → Nat} {h : Heap α} (hh : ∀ e ∈ h, CKKValid.EOK v 2 e) :
    sumsH h = (pairsH h).map (fun t => [binSum v t.1, binSum v t.2]) := by
  unfold sumsH pairsH
  rw [List.map_map]
  apply List.map_congr_left
  intro e he
  obtain ⟨l, c, _, _⟩ := hh e he
  unfold Bins.Consistent at c
  rw [c]
  conv => lhs; rw [lists_eq_pair l]
  rfl

/-- contents-level representation implies sums-level representation -/
theorem rep_reach {v : α → Nat} {h : Heap α} (hh : ∀ e ∈ h, CKKValid.EOK v 2 e) {X Y : List α}
    (hr : RC (pairsH h) X Y) : Reach 2 (sumsH h) [binSum v X, binSum v Y] := by
  rw [sumsH_eq_pairs hh]
  exact rc_reach v hr

theorem pairsH_hpush (h : Heap α) (c : Nat) (b : Bins α) :
    pairsH (hpush h c b).1 = pairsH h ++ [pairL b.sortAsc.lists] := by
  simp [pairsH, hpush]

theorem pairsH_pushAll (v : α → Nat) (k : Nat) (xs : List α) (h : Heap α) (c : Nat) :
    pairsH (pushAll v k xs h c).1 = pairsH h ++ xs.map (fun x => pairL (single v k x).sortAsc.lists) := by
  induction xs generalizing h c with
  | nil => simp [pushAll]
  | cons x xs ih => simp only [pushAll, ih, pairsH_hpush, List.map_cons, List.append_assoc, List.singleton_append]

theorem forall2_map_teq {β : Type} (f g : β → List α × List α) (xs : List β) (h : ∀ x, TEq (f x) (g x)) :
    List.Forall₂ TEq (xs.map f) (xs.map g) := by
  induction xs with
  | nil => exact List.Forall₂.nil
  | cons x xs ih => exact List.Forall₂.cons (h x) ih

/-- the heap the search starts from represents every 2-way split of the items -/
theorem rep_init [BEq α] [LawfulBEq α] (v : α → Nat) {items X Y : List α} (hp : (X ++ Y).Perm items) :
    RC (pairsH (pushAll v 2 (sortDesc v items) [] 0).1) X Y := by
  rw [pairsH_pushAll]
  have h1 := rc_init items X Y hp
  have h2 := rc_perm ((Part.sortDesc_perm v items).symm.map (fun x => (([] : List α), [x]))) h1
  refine rc_forall2 (forall2_map_teq _ _ _ ?_) h2
  intro x
  refine teq_pairL (A' := []) (B' := [x]) ?_ (List.Perm.refl _) (List.Perm.refl _)
  exact Part.sortAsc_lists_perm (single v 2 x) (by simp [single, Bins.add, Bins.new])

/-- pushing (the canonical form of) a pairing whose bins are `M` -/
theorem push_rep {v : α → Nat} (nm : α → Nat) {b1 b2 : Bins α} {h2 : Heap α} {perm : List Nat}
    (l1 : b1.lists.length = 2) (c1 : b1.Consistent v) (l2 : b2.lists.length = 2) (c2 : b2.Consistent v)
    (hperm : perm.Perm (List.range 2)) {M : List α × List α} (hM : (pairBy b1 b2 perm).lists = [M.1, M.2])
    {X Y : List α} (r : RC (M :: pairsH h2) X Y) (c : Nat) :
    RC (pairsH (hpush h2 c (CKKValid.canonC nm b1 b2 perm)).1) X Y := by
  rw [pairsH_hpush]
  refine rc_perm (List.perm_append_singleton _ _).symm (rc_head ?_ r)
  have hcan := (CKKValid.canonC_spec v nm l1 c1 l2 c2 hperm).2.1
  have hpc := CKKValid.pairBy_consistent v perm c1 c2
  have p1 := Part.sortAsc_lists_perm _ (Part.consistent_length v hcan)
  have p2 : (CKKValid.canonC nm b1 b2 perm).lists.Perm ((pairBy b1 b2 perm).lists.map (sortAsc nm)) := by
    unfold CKKValid.canonC
    exact Part.sortAsc_lists_perm _ (by simpa using Part.consistent_length v hpc)
  rw [hM] at p2
  exact teq_pairL (p1.trans p2) (Part.sortAsc_perm nm _) (Part.sortAsc_perm nm _)

/-- the split `(X, Y)` has been yielded, up to the order of the two bins and of the items inside a bin -/
def Yd (ys : List (Bins α)) (X Y : List α) : Prop :=
  ∃ top ∈ ys, ∃ X' Y', top.lists = [X', Y'] ∧ ((X'.Perm X ∧ Y'.Perm Y) ∨ (X'.Perm Y ∧ Y'.Perm X))

/-- the part of an iteration after the popped heap has survived the bound test, in bounded generator mode
    (`gen = true`, `isBest = false`): the incumbent difference and `done` do not change, nothing is lost, and
    every split below the bound that the heap represents is yielded or represented by a pushed heap -/
theorem stepBody_gen {v nm : α → Nat} [BEq α] [LawfulBEq α] {items : List α} {d : Nat} {h : Heap α}
    {s : CkkState α} (hne : items ≠ []) (hh : CKKValid.HInv v 2 items h) (hbest : s.best = .fin (-(d : Int))) :
    (CKKValid.stepBody nm true true false h s).best = s.best ∧
    (CKKValid.stepBody nm true true false h s).done = s.done ∧
    (∀ y ∈ s.yields, y ∈ (CKKValid.stepBody nm true true false h s).yields) ∧
    (∀ g ∈ s.stack, g ∈ (CKKValid.stepBody nm true true false h s).stack) ∧
    ∀ X Y : List α, spread [binSum v X, binSum v Y] < d → RC (pairsH h) X Y →
      Yd (CKKValid.stepBody nm true true false h s).yields X Y ∨
        ∃ g ∈ (CKKValid.stepBody nm true true false h s).stack, RC (pairsH g) X Y := by
  unfold CKKValid.stepBody
  split
  · rename_i hlen
    obtain ⟨e, rfl⟩ : ∃ e, h = [e] := by
      match h, hlen with
      | [e], _ => exact ⟨e, rfl⟩
    have htd : topDiffOf [e] = e.diff := rfl
    have htop : htop [e] = some e := rfl
    obtain ⟨l, c, _, _⟩ := hh.2 e List.mem_cons_self
    have hkey := (CKKValid.hinv_singleton hh).2
    have hl := lists_eq_pair l
    generalize (pairL e.bins.lists).1 = A at hl
    generalize (pairL e.bins.lists).2 = B at hl
    have hsums : e.bins.sums = [binSum v A, binSum v B] := by
      unfold Bins.Consistent at c
      rw [c, hl]; rfl
    have hspread : ∀ X Y : List α, RC (pairsH [e]) X Y →
        ((A.Perm X ∧ B.Perm Y) ∨ (A.Perm Y ∧ B.Perm X)) ∧ e.diff = spread [binSum v X, binSum v Y] := by
      intro X Y hr
      have hp : pairsH [e] = [(A, B)] := by simp [pairsH, pairL, hl]
      rw [hp] at hr
      rw [hkey, hsums]
      rcases rc_single hr with ⟨h1, h2⟩ | ⟨h1, h2⟩
      · simp only at h1 h2
        exact ⟨Or.inl ⟨h1.symm, h2.symm⟩, by rw [Part.binSum_perm v h1, Part.binSum_perm v h2]⟩
      · simp only at h1 h2
        refine ⟨Or.inr ⟨h2.symm, h1.symm⟩, ?_⟩
        rw [Part.binSum_perm v h1, Part.binSum_perm v h2]
        exact SNPOpt.spread_perm (List.Perm.swap _ _ _)
    simp only [htd, htop, Bool.false_or, Bool.not_true, Bool.and_false, Bool.false_eq_true, if_false,
      Option.map_some]
    split
    · refine ⟨rfl, rfl, fun y hy => List.mem_cons_of_mem _ hy, fun g hg => hg, ?_⟩
      intro X Y _ hr
      exact Or.inl ⟨e.bins, List.mem_cons_self, A, B, hl, (hspread X Y hr).1⟩
    · rename_i hnlt
      refine ⟨rfl, rfl, fun y hy => hy, fun g hg => hg, ?_⟩
      intro X Y hlt hr
      exfalso
      apply hnlt
      rw [hbest, (hspread X Y hr).2]
      simp only [EInt.lt, EInt.le, Bool.not_eq_true', decide_eq_false_iff_not]
      omega
  · rename_i hlen
    have hgood := CKKOpt.hgood_of_hinv nm hne hh
    obtain ⟨e1, h1, hp1, hperm1⟩ := Part.hpop_some h hgood.ne
    have hne1 : h1 ≠ [] := by
      intro h0
      subst h0
      have := hperm1.length_eq
      simp [this] at hlen
    obtain ⟨e2, h2, hp2, hperm2⟩ := Part.hpop_some h1 hne1
    have hperm : h.Perm (e1 :: e2 :: h2) := hperm1.trans (hperm2.cons e1)
    simp only [hp1, hp2]
    refine ⟨trivial, trivial, fun y hy => hy, fun g hg => List.mem_append_right _ hg, ?_⟩
    intro X Y _ hr
    right
    obtain ⟨⟨l1, c1, _, _⟩, ⟨l2, c2, _, _⟩⟩ := CKKValid.hinv_pop2 hh hp1 hp2
    have hl1 := lists_eq_pair l1
    have hl2 := lists_eq_pair l2
    have r1 : RC (pairL e1.bins.lists :: pairL e2.bins.lists :: pairsH h2) X Y :=
      rc_perm (hperm.map (fun e : HEntry α => pairL e.bins.lists)) hr
    have hfin : ∀ nb ∈ allComb nm true e1.bins e2.bins, (∀ c, RC (pairsH (hpush h2 c nb).1) X Y) →
        ∃ g ∈ (sortDesc topDiffOf ((allComb nm true e1.bins e2.bins).foldl
            (fun (acc : List (Heap α) × Nat) nb =>
              let p := hpush h2 acc.2 nb; (acc.1 ++ [p.1], p.2)) ([], s.cnt)).1).reverse ++ s.stack,
          RC (pairsH g) X Y := by
      intro nb hnb hall
      obtain ⟨c, hc'⟩ := (CKKOpt.foldl_push_complete h2 (allComb nm true e1.bins e2.bins) ([], s.cnt)).2 nb hnb
      refine ⟨(hpush h2 c nb).1, ?_, hall c⟩
      refine List.mem_append_left _ (List.mem_reverse.2 ?_)
      rw [(Part.sortDesc_perm _ _).mem_iff]
      exact hc'
    have hmem : ∀ perm : List Nat, perm.Perm (List.range 2) →
        CKKValid.canonC nm e1.bins e2.bins perm ∈ allComb nm true e1.bins e2.bins := by
      intro perm hperm
      simp only [allComb, if_true]
      exact CKKOpt.allCombContents_complete v nm l1 c1 l2 c2 hperm
    rcases rc_merge r1 with r2 | r2
    · have hpm : [0, 1].Perm (List.range 2) := List.Perm.refl _
      refine hfin _ (hmem [0, 1] hpm) (fun c => push_rep nm l1 c1 l2 c2 hpm ?_ r2 c)
      simp only [pairBy]
      conv => lhs; rw [hl2]
      rfl
    · have hpm : [1, 0].Perm (List.range 2) := List.Perm.swap _ _ _
      refine hfin _ (hmem [1, 0] hpm) (fun c => push_rep nm l1 c1 l2 c2 hpm ?_ r2 c)
      simp only [pairBy]
      conv => lhs; rw [hl2]
      rfl


/-- the invariant of the bounded generator for one target split `(X, Y)`: the incumbent difference stays `-d`,
    the machine only stops on an empty stack, and the target is yielded or represented by a heap on the stack -/
structure GInv (d : Nat) (X Y : List α) (s : CkkState α) : Prop where
  best : s.best = .fin (-(d : Int))
  dn : s.done = true → s.stack = []
  cov : Yd s.yields X Y ∨ ∃ h ∈ s.stack, RC (pairsH h) X Y

/-- **one iteration of the bounded 2-way generator loses no split below the bound** -/
theorem ckkStep_ginv {v nm : α → Nat} [BEq α] [LawfulBEq α] {items : List α} {d : Nat} {X Y : List α}
    {s : CkkState α} (hne : items ≠ []) (hs : CKKValid.SInv v 2 items s)
    (hlt : spread [binSum v X, binSum v Y] < d) (hg : GInv d X Y s) :
    GInv d X Y (ckkStep nm 2 true true false s) := by
  rw [CKKValid.ckkStep_eq]
  split
  · rename_i hst
    exact ⟨hg.best, fun _ => hst, hg.cov⟩
  · rename_i h stack hst
    have hh := hs.stack h (by rw [hst]; exact List.mem_cons_self)
    have hdone : s.done = false := by
      cases hd : s.done with
      | false => rfl
      | true => have := hg.dn hd; rw [hst] at this; cases this
    cases hpr : CKKValid.prunedB 2 h s.best
    · simp only [Bool.false_eq_true, if_false]
      obtain ⟨b1, b2, b3, b4, b5⟩ :=
        stepBody_gen (nm := nm) (d := d) (s := { s with stack := stack }) hne hh hg.best
      refine ⟨b1.trans hg.best, fun hd => ?_, ?_⟩
      · rw [b2] at hd
        simp only [hdone] at hd
        cases hd
      · rcases hg.cov with ⟨top, ht, rest⟩ | ⟨g, hgm, hr⟩
        · exact Or.inl ⟨top, b3 top ht, rest⟩
        · rw [hst] at hgm
          rcases List.mem_cons.1 hgm with rfl | hgm
          · exact b5 X Y hlt hr
          · exact Or.inr ⟨g, b4 g hgm, hr⟩
    · simp only [if_true]
      refine ⟨hg.best, fun hd => ?_, ?_⟩
      · simp only [hdone] at hd
        cases hd
      · rcases hg.cov with hy | ⟨g, hgm, hr⟩
        · exact Or.inl hy
        · rw [hst] at hgm
          rcases List.mem_cons.1 hgm with rfl | hgm
          · exfalso
            unfold CKKValid.prunedB at hpr
            split at hpr
            · cases hpr
            · rename_i lb hlb
              have h1 := CKKOpt.ckkBound_admissible (CKKOpt.hgood_of_hinv nm hne hh).len
                (rep_reach hh.2 hr) hlb
              rw [hg.best] at hpr
              have h2 := CGOpt.ele_fin.1 hpr
              omega
          · exact Or.inr ⟨g, hgm, hr⟩

/-- **Completeness of the bounded 2-way generator**: started with the bound `d`, the generator of complete
    Karmarkar–Karp yields (up to the order of the two bins and of the items inside a bin) every 2-way split of the
    items whose difference is below `d`.  This is the hypothesis `CkkGenComplete` of `SNPOpt`. -/
theorem ckkGenComplete (v nm : α → Nat) [BEq α] [LawfulBEq α] : CkkGenComplete v nm := by
  intro items d fuel tops hne hg X Y hp hlt
  unfold ckkGen at hg
  simp only [Option.isNone_some] at hg
  have hinv := CKKValid.ckkRun_inv nm 2 true true false
    (fun s => CKKValid.SInv v 2 items s ∧ GInv d X Y s)
    (fun s hs => ⟨CKKValid.ckkStep_inv true false hs.1, ckkStep_ginv hne hs.1 hlt hs.2⟩) fuel _
    ⟨CKKValid.ckkInit_inv (by omega) items (.fin (-(d : Int))),
      ⟨rfl, fun hd => (by cases hd), Or.inr ⟨_, List.mem_singleton.2 rfl, rep_init v hp⟩⟩⟩
  split at hg
  · cases hg
  · rename_i hd
    cases hg
    rcases hinv.2.cov with ⟨top, ht, rest⟩ | ⟨g, hgm, _⟩
    · exact ⟨top, List.mem_reverse.2 ht, rest⟩
    · rw [hinv.2.dn (by simpa using hd)] at hgm
      cases hgm

/-- non-vacuity: with the bound 3 the generator yields the two splits of `[4, 5, 6, 7, 8]` of difference `< 3`;
    the split `([8, 6], [7, 5, 4])` (difference 2) is found as `[[6, 8], [4, 5, 7]]` -/
example : ∃ top ∈ [(⟨[14, 16], [[6, 8], [4, 5, 7]]⟩ : Bins Nat), ⟨[15, 15], [[4, 5, 6], [7, 8]]⟩],
    ∃ X' Y', top.lists = [X', Y'] ∧
      ((X'.Perm [8, 6] ∧ Y'.Perm [7, 5, 4]) ∨ (X'.Perm [7, 5, 4] ∧ Y'.Perm [8, 6])) :=
  ckkGenComplete id id [4, 5, 6, 7, 8] 3 100 _ (by decide) rfl [8, 6] [7, 5, 4] (by decide) (by decide)


/-! ## 7. (moved) optimality (C02), unconditionally

  `rnpF_optimal` and `rnp_optimal_four` are in PrtpyProofs/CKKFSwitch.lean (same namespace). -/

end Prtpy.RNPF

/-
Axiom audit (output of `#print axioms` observed with `lake env lean`):

#print axioms Prtpy.RNPF.rnpF_isPartition_of
  'Prtpy.RNPF.rnpF_isPartition_of' depends on axioms: [propext, Classical.choice, Quot.sound]
#print axioms Prtpy.RNPF.ckkGenComplete
  'Prtpy.RNPF.ckkGenComplete' depends on axioms: [propext, Classical.choice, Quot.sound]
#print axioms Prtpy.RNPF.rnpRecF_four_opt
  'Prtpy.RNPF.rnpRecF_four_opt' depends on axioms: [propext, Classical.choice, Quot.sound]
#print axioms Prtpy.RNPF.rnpRecF_odd_opt
  'Prtpy.RNPF.rnpRecF_odd_opt' depends on axioms: [propext, Classical.choice, Quot.sound]
#print axioms Prtpy.RNPF.rnpF_optimal_of_genComplete
  'Prtpy.RNPF.rnpF_optimal_of_genComplete' depends on axioms: [propext, Classical.choice, Quot.sound]
-/
